#!/bin/sh
# Build the whole framework from files on disk (offline): translator, generated
# Lean files, the Lean project (theorems + drivers) and the Go harness.
set -e
cd "$(dirname "$0")"
export GOFLAGS=-mod=mod GOPROXY=off GOSUMDB=off GOTOOLCHAIN=local
mkdir -p work replays evidence
(cd translator && go build -o bin/translator . && ./bin/translator -repo "${VERIF_REPO:-/repo}" -out ../lean/Shentu/Gen)
(cd lean && lake build Shentu chaindriver vmdriver)
cp "${VERIF_REPO:-/repo}/go.sum" harness/go.sum
(cd harness && go build -tags verif -o bin/chainrun ./cmd/chainrun && go build -tags verif -o bin/vmrun ./cmd/vmrun)
echo setup done
