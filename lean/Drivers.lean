import Drivers.Common
import Drivers.OracleD
import Drivers.GovD
import Drivers.ChainDriver
import Drivers.BankVmD
