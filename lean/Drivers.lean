import Drivers.Common
import Drivers.OracleD
import Drivers.ChainDriver
