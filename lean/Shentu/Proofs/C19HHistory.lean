import Shentu.Proofs.C19HSteps
/-
  Helper lemmas for `Shentu/Props/C19H.lean`: what one operation, and then a whole history, does to the vesting records
  (the unlocker stays, the still-locked amount moves by exactly the logged locked sends and unlocks).
-/
namespace Shentu.C19H
open Shentu Shentu.Vesting

def Change.amt : Change → Coins
  | .locked _ amt => amt
  | .unlocked _ _ amt => amt

/-- how the vesting records of `w'` relate to those of `w`, given the log `cs` of what happened in between -/
structure Effect (w w' : World) (cs : List Change) : Prop where
  keep : ∀ a m, find w.vs a = some m → ∃ m', find w'.vs a = some m' ∧ m'.unlocker = m.unlocker
  acct2 : ∀ a d, originalOf w' a d = originalOf w a d + lockedIn cs a d ∧ unlockedOf w' a d = unlockedOf w a d + unlockedOut cs a d
  signer : ∀ a i amt, Change.unlocked a i amt ∈ cs → ∃ m, find w'.vs a = some m ∧ m.unlocker = i
  pos : ∀ e ∈ cs, ∀ d, 0 ≤ Coins.amountOf e.amt d

@[simp] theorem lockedIn_nil (a : Addr) (d : Denom) : lockedIn [] a d = 0 := rfl
@[simp] theorem unlockedOut_nil (a : Addr) (d : Denom) : unlockedOut [] a d = 0 := rfl
theorem lockedIn_append (x y : List Change) (a : Addr) (d : Denom) : lockedIn (x ++ y) a d = lockedIn x a d + lockedIn y a d := by
  simp [lockedIn, List.map_append, List.sum_append]
theorem unlockedOut_append (x y : List Change) (a : Addr) (d : Denom) :
    unlockedOut (x ++ y) a d = unlockedOut x a d + unlockedOut y a d := by
  simp [unlockedOut, List.map_append, List.sum_append]
theorem lockedIn_locked (dst : Addr) (amt : Coins) (a : Addr) (d : Denom) :
    lockedIn [.locked dst amt] a d = if dst = a then Coins.amountOf amt d else 0 := by simp [lockedIn]
theorem unlockedOut_locked (dst : Addr) (amt : Coins) (a : Addr) (d : Denom) : unlockedOut [.locked dst amt] a d = 0 := by
  simp [unlockedOut]
theorem lockedIn_unlocked (acct i : Addr) (amt : Coins) (a : Addr) (d : Denom) : lockedIn [.unlocked acct i amt] a d = 0 := by
  simp [lockedIn]
theorem unlockedOut_unlocked (acct i : Addr) (amt : Coins) (a : Addr) (d : Denom) :
    unlockedOut [.unlocked acct i amt] a d = if acct = a then Coins.amountOf amt d else 0 := by simp [unlockedOut]

theorem stillLocked_eq (w : World) (a : Addr) (d : Denom) : stillLocked w a d = originalOf w a d - unlockedOf w a d := by
  unfold stillLocked originalOf unlockedOf
  split
  · rfl
  · rfl

theorem Effect.acct {w w' : World} {cs : List Change} (h : Effect w w' cs) (a : Addr) (d : Denom) :
    stillLocked w' a d = stillLocked w a d + lockedIn cs a d - unlockedOut cs a d := by
  rw [stillLocked_eq, stillLocked_eq]
  obtain ⟨h1, h2⟩ := h.acct2 a d
  omega

theorem effect_same (w w' : World) (h : w'.vs = w.vs) : Effect w w' [] := by
  refine ⟨?_, ?_, ?_, ?_⟩
  · intro a m hm; exact ⟨m, by rw [h]; exact hm, rfl⟩
  · intro a d; unfold originalOf unlockedOf; rw [h]; simp
  · intro a i amt hmem; cases hmem
  · intro e he; cases he

theorem Effect.trans {w w1 w2 : World} {cs1 cs2 : List Change} (h1 : Effect w w1 cs1) (h2 : Effect w1 w2 cs2) :
    Effect w w2 (cs1 ++ cs2) := by
  refine ⟨?_, ?_, ?_, ?_⟩
  · intro a m hm
    obtain ⟨m1, hm1, hu1⟩ := h1.keep a m hm
    obtain ⟨m2, hm2, hu2⟩ := h2.keep a m1 hm1
    exact ⟨m2, hm2, hu2.trans hu1⟩
  · intro a d
    obtain ⟨x1, y1⟩ := h1.acct2 a d
    obtain ⟨x2, y2⟩ := h2.acct2 a d
    rw [lockedIn_append, unlockedOut_append]
    constructor <;> omega
  · intro a i amt hmem
    rcases List.mem_append.mp hmem with hmem | hmem
    · obtain ⟨m1, hm1, hu1⟩ := h1.signer a i amt hmem
      obtain ⟨m2, hm2, hu2⟩ := h2.keep a m1 hm1
      exact ⟨m2, hm2, hu2.trans hu1⟩
    · exact h2.signer a i amt hmem
  · intro e he d
    rcases List.mem_append.mp he with he | he
    · exact h1.pos e he d
    · exact h2.pos e he d

theorem effect_lockedSend (w : World) (l' : Ledger) (vs' : Accounts) (src dst u : Addr) (amt : Coins) (ac' : List Addr)
    (h : lockedSend w.l w.vs (isPlain w) src dst u amt = .ok (l', vs')) :
    Effect w { w with l := l', vs := vs', accts := ac' } [.locked dst amt] := by
  obtain ⟨m, hm, hpos, hvs, _, _⟩ := lockedSend_spec _ _ _ _ _ _ _ _ _ h
  have haddr : m.addr = dst := by
    rcases hm with hm | ⟨_, _, he⟩
    · exact find_addr _ _ _ hm
    · subst he; rfl
  have hfind : ∀ a, find vs' a = if dst = a then some { m with ov := Coins.add m.ov amt } else find w.vs a := by
    intro a; rw [hvs, find_set]; simp only [haddr]
  refine ⟨?_, ?_, ?_, ?_⟩
  · intro a m0 hm0
    show ∃ m', find vs' a = some m' ∧ _
    rw [hfind]
    by_cases e : dst = a
    · subst e
      simp only [if_true]
      refine ⟨_, rfl, ?_⟩
      rcases hm with hm | ⟨hm, _, _⟩
      · rw [hm] at hm0; injection hm0 with hm0; subst hm0; rfl
      · rw [hm] at hm0; cases hm0
    · simp only [e, if_false]; exact ⟨m0, hm0, rfl⟩
  · intro a d
    rw [lockedIn_locked, unlockedOut_locked]
    unfold originalOf unlockedOf
    simp only [hfind]
    by_cases e : dst = a
    · subst e
      simp only [↓reduceIte]
      rcases hm with hm | ⟨hm, _, he⟩
      · rw [hm]; simp [Coins.amountOf_add]
      · rw [hm]; subst he; simp [fresh]
    · simp only [e, ↓reduceIte]; constructor <;> omega
  · intro a i x hmem; simp at hmem
  · intro e he d
    simp only [List.mem_singleton] at he
    subst he
    exact amountOf_nonneg_of_allPositive amt hpos d

theorem effect_unlock (w : World) (vs' : Accounts) (issuer account : Addr) (amt : Coins) (ex : Addr → Bool)
    (h : unlock w.vs ex issuer account amt = .ok vs') :
    Effect w { w with vs := vs' } [.unlocked account issuer amt] := by
  obtain ⟨m, m', hm, hiss, hpos, hvs, haddr, hu, hov, hv, _, _⟩ := unlock_spec2 _ _ _ _ _ _ h
  have hma : m.addr = account := find_addr _ _ _ hm
  have hfind : ∀ a, find vs' a = if account = a then some m' else find w.vs a := by
    intro a; rw [hvs, find_set]; simp only [haddr, hma]
  refine ⟨?_, ?_, ?_, ?_⟩
  · intro a m0 hm0
    show ∃ m', find vs' a = some m' ∧ _
    rw [hfind]
    by_cases e : account = a
    · subst e
      simp only [if_true]
      rw [hm] at hm0; injection hm0 with hm0; subst hm0
      exact ⟨m', rfl, hu⟩
    · simp only [e, if_false]; exact ⟨m0, hm0, rfl⟩
  · intro a d
    rw [lockedIn_unlocked, unlockedOut_unlocked]
    unfold originalOf unlockedOf
    simp only [hfind]
    by_cases e : account = a
    · subst e
      simp only [↓reduceIte]
      rw [hm]; simp [hov, hv, Coins.amountOf_add]
    · simp only [e, ↓reduceIte]; constructor <;> omega
  · intro a i x hmem
    simp only [List.mem_singleton] at hmem
    injection hmem with h1 h2 h3
    subst h1; subst h2
    show ∃ m, find vs' a = some m ∧ _
    rw [hfind]; simp only [↓reduceIte]
    exact ⟨m', rfl, by rw [hu]; exact hiss.symm⟩
  · intro e he d
    simp only [List.mem_singleton] at he
    subst he
    exact amountOf_nonneg_of_allPositive amt hpos d

theorem effect_delegate (w : World) (l' : Ledger) (vs' : Accounts) (del pool : Addr) (d : Denom) (amount : Int)
    (h : delegate w.l w.vs del pool d amount = .ok (l', vs')) : Effect w { w with l := l', vs := vs' } [] := by
  obtain ⟨_, _, _, hvs⟩ := delegate_spec _ _ _ _ _ _ _ _ h
  cases hf : find w.vs del with
  | none => rw [hf] at hvs; exact effect_same _ _ hvs
  | some m =>
    rw [hf] at hvs
    simp only at hvs
    have hma : m.addr = del := find_addr _ _ _ hf
    have hfind : ∀ a, find vs' a = if del = a then some (trackDelegation m d amount) else find w.vs a := by
      intro a; rw [hvs, find_set]
      have : (trackDelegation m d amount).addr = del := hma
      simp only [this]
    refine ⟨?_, ?_, ?_, ?_⟩
    · intro a m0 hm0
      show ∃ m', find vs' a = some m' ∧ _
      rw [hfind]
      by_cases e : del = a
      · subst e
        simp only [if_true]
        rw [hf] at hm0; injection hm0 with hm0; subst hm0
        exact ⟨_, rfl, rfl⟩
      · simp only [e, if_false]; exact ⟨m0, hm0, rfl⟩
    · intro a d'
      unfold originalOf unlockedOf
      simp only [hfind, lockedIn_nil, unlockedOut_nil]
      by_cases e : del = a
      · subst e
        simp only [↓reduceIte]
        rw [hf]
        have h1 : (trackDelegation m d amount).ov = m.ov := rfl
        have h2 : (trackDelegation m d amount).vested = m.vested := rfl
        simp [h1, h2]
      · simp only [e, ↓reduceIte]; constructor <;> omega
    · intro a i x hmem; cases hmem
    · intro e he; cases he

/-- the log entry of an operation, by cases -/
theorem changeOf_cases (c : Cfg) (w : World) (op : Op) :
    changeOf c w op = [] ∨
    (∃ src dst u amt, op = .lockedSend src dst u amt ∧ changeOf c w op = [.locked dst amt]) ∨
    (∃ issuer account amt m, op = .unlock issuer account amt ∧ changeOf c w op = [.unlocked account issuer amt] ∧
      find w.vs account = some m ∧ issuer = m.unlocker) := by
  unfold changeOf
  split
  · exact Or.inl rfl
  · rename_i w' hE
    cases op with
    | lockedSend src dst u amt => exact Or.inr (Or.inl ⟨src, dst, u, amt, rfl, rfl⟩)
    | unlock issuer account amt =>
      refine Or.inr (Or.inr ⟨issuer, account, amt, ?_⟩)
      simp only [stepE] at hE
      split at hE; · cases hE
      rename_i vs hs
      obtain ⟨m, _, hm, hiss, _⟩ := unlock_spec2 _ _ _ _ _ _ hs
      exact ⟨m, rfl, rfl, hm, hiss⟩
    | _ => exact Or.inl rfl

theorem stepE_effect (c : Cfg) (w w' : World) (op : Op) (h : stepE c w op = .ok w') : Effect w w' (changeOf c w op) := by
  cases op with
  | send src dst amt =>
    have hc : changeOf c w (.send src dst amt) = [] := by simp only [changeOf, h]
    rw [hc]
    simp only [stepE] at h
    split at h
    · split at h; · cases h
      injection h with h; subst h; exact effect_same _ _ rfl
    · split at h; · cases h
      injection h with h; subst h; exact effect_same _ _ rfl
  | multiSend src outs =>
    have hc : changeOf c w (.multiSend src outs) = [] := by simp only [changeOf, h]
    rw [hc]
    simp only [stepE] at h
    split at h; · cases h
    split at h; · cases h
    injection h with h; subst h; exact effect_same _ _ rfl
  | fee payer amt =>
    have hc : changeOf c w (.fee payer amt) = [] := by simp only [changeOf, h]
    rw [hc]
    simp only [stepE] at h
    split at h; · cases h
    injection h with h; subst h; exact effect_same _ _ rfl
  | lockedSend src dst u amt =>
    have hc : changeOf c w (.lockedSend src dst u amt) = [.locked dst amt] := by simp only [changeOf, h]
    rw [hc]
    simp only [stepE] at h
    split at h; · cases h
    rename_i l vs hs
    injection h with h; subst h
    exact effect_lockedSend w l vs src dst u amt _ hs
  | unlock issuer account amt =>
    have hc : changeOf c w (.unlock issuer account amt) = [.unlocked account issuer amt] := by simp only [changeOf, h]
    rw [hc]
    simp only [stepE] at h
    split at h; · cases h
    rename_i vs hs
    injection h with h; subst h
    exact effect_unlock w vs issuer account amt _ hs
  | call caller callee value d0 z t hd =>
    have hc : changeOf c w (.call caller callee value d0 z t hd) = [] := by simp only [changeOf, h]
    rw [hc]
    simp only [stepE] at h
    split at h; · cases h
    injection h with h; subst h; exact effect_same _ _ rfl
  | deploy caller na code value =>
    have hc : changeOf c w (.deploy caller na code value) = [] := by simp only [changeOf, h]
    rw [hc]
    simp only [stepE] at h
    split at h; · cases h
    split at h; · cases h
    injection h with h; subst h; exact effect_same _ _ rfl
  | delegate del pool d amount =>
    have hc : changeOf c w (.delegate del pool d amount) = [] := by simp only [changeOf, h]
    rw [hc]
    simp only [stepE] at h
    split at h; · cases h
    rename_i l vs hs
    injection h with h; subst h
    exact effect_delegate w l vs del pool d amount hs

/-! ### Steps and histories -/

theorem step_of_ok (c : Cfg) (w w' : World) (op : Op) (h : stepE c w op = .ok w') : step c w op = w' := by
  unfold step; rw [h]
theorem step_of_error (c : Cfg) (w : World) (op : Op) (x : Err) (h : stepE c w op = .error x) : step c w op = w := by
  unfold step; rw [h]
theorem changeOf_of_error (c : Cfg) (w : World) (op : Op) (x : Err) (h : stepE c w op = .error x) : changeOf c w op = [] := by
  unfold changeOf; rw [h]

theorem step_wf (c : Cfg) (w : World) (op : Op) (hw : WF w) : WF (step c w op) := by
  cases h : stepE c w op with
  | error x => rw [step_of_error c w op x h]; exact hw
  | ok w' => rw [step_of_ok c w w' op h]; exact stepE_wf c w w' op hw h

theorem step_effect (c : Cfg) (w : World) (op : Op) : Effect w (step c w op) (changeOf c w op) := by
  cases h : stepE c w op with
  | error x => rw [step_of_error c w op x h, changeOf_of_error c w op x h]; exact effect_same _ _ rfl
  | ok w' => rw [step_of_ok c w w' op h]; exact stepE_effect c w w' op h

theorem run_cons (c : Cfg) (w : World) (op : Op) (ops : List Op) : run c w (op :: ops) = run c (step c w op) ops := rfl
theorem run_append (c : Cfg) (w : World) (ops1 ops2 : List Op) : run c w (ops1 ++ ops2) = run c (run c w ops1) ops2 := by
  unfold run; rw [List.foldl_append]

theorem run_wf (c : Cfg) : ∀ (ops : List Op) (w : World), WF w → WF (run c w ops) := by
  intro ops
  induction ops with
  | nil => intro w hw; exact hw
  | cons op ops ih => intro w hw; rw [run_cons]; exact ih _ (step_wf c w op hw)

theorem run_effect (c : Cfg) : ∀ (ops : List Op) (w : World), Effect w (run c w ops) (changes c w ops) := by
  intro ops
  induction ops with
  | nil => intro w; exact effect_same _ _ rfl
  | cons op ops ih =>
    intro w
    rw [run_cons]
    exact (step_effect c w op).trans (ih (step c w op))

/-- a ledger whose postings are all non-negative has no negative balance (used for concrete start worlds) -/
theorem balOf_nonneg_of_posts (l : Ledger) (h : ∀ p ∈ l.posts, 0 ≤ p.2.2) (a : Addr) (d : Denom) : 0 ≤ l.balOf a d := by
  unfold Ledger.balOf Ledger.bal
  have key : ∀ ps : List Posting, (∀ p ∈ ps, 0 ≤ p.2.2) →
      0 ≤ Coins.amountOf ((ps.filter (fun p => p.1 == a)).map (·.2)) d := by
    intro ps
    induction ps with
    | nil => intro _; simp
    | cons p ps ih =>
      intro hp
      have h1 := hp p List.mem_cons_self
      have h2 := ih (fun q hq => hp q (List.mem_cons_of_mem _ hq))
      simp only [List.filter_cons]
      split
      · simp only [List.map_cons, Coins.amountOf_cons]
        split <;> omega
      · exact h2
  exact key l.posts h

end Shentu.C19H
