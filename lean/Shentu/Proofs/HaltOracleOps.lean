import Shentu.Proofs.HaltOracle
import Shentu.Props.C15
/-
  C08, oracle part: every oracle operation preserves the invariant `EndInv` under which the end-blocker is total.
-/
namespace Shentu.Halt.Orc
open Shentu Shentu.Oracle
set_option linter.unusedSimpArgs false
set_option linter.unusedVariables false

@[simp] theorem addClosing_tasks (s : State) (h : Int) (id : String × String) : (addClosing s h id).tasks = s.tasks := by
  unfold addClosing; split <;> rfl
@[simp] theorem addClosing_params (s : State) (h : Int) (id : String × String) : (addClosing s h id).params = s.params := by
  unfold addClosing; split <;> rfl

theorem CollNonneg.congr {bond : Denom} {s s' : State} (h : CollNonneg bond s) (ho : s'.ops = s.ops) : CollNonneg bond s' := by
  intro a o hf
  rw [findOp_congr s s' ho] at hf
  exact h a o hf

theorem CollNonneg.setOp {bond : Denom} {s : State} (h : CollNonneg bond s) (o : Operator)
    (ho : 0 ≤ Coins.amountOf o.coll bond) : CollNonneg bond (setOp s o) := by
  intro a o' hf
  rw [findOp_setOp] at hf
  split at hf
  · injection hf with hf; rw [← hf]; exact ho
  · exact h a o' hf

theorem CollNonneg.delOp {bond : Denom} {s : State} (h : CollNonneg bond s) (a : Addr) : CollNonneg bond (delOp s a) := by
  intro a' o' hf
  rw [findOp_delOp] at hf
  split at hf
  · cases hf
  · exact h a' o' hf

theorem EndInv.congr {bond : Denom} {s s' : State} (h : EndInv bond s) (ho : s'.ops = s.ops) (ht : s'.tasks = s.tasks)
    (hp : s'.params = s.params) : EndInv bond s' :=
  ⟨by rw [hp]; exact h.eps1, by rw [hp]; exact h.eps2, h.coll.congr ho, by unfold TasksOk; rw [ht]; exact h.tasks⟩

/-- an operator record is written; tasks and parameters are not touched -/
theorem EndInv.setOp {bond : Denom} {s : State} (h : EndInv bond s) (o : Operator) (ho : 0 ≤ Coins.amountOf o.coll bond) :
    EndInv bond (setOp s o) :=
  ⟨by rw [setOp_params]; exact h.eps1, by rw [setOp_params]; exact h.eps2, h.coll.setOp o ho,
   by unfold TasksOk; rw [setOp_tasks]; exact h.tasks⟩

theorem EndInv.setTask {bond : Denom} {s : State} (h : EndInv bond s) (t : Task) (hb : Coins.isAnyNegative t.bounty = false)
    (hr : ∀ r ∈ t.responses, 0 ≤ r.score ∧ r.score ≤ 100) : EndInv bond (setTask s t) :=
  ⟨by rw [setTask_params]; exact h.eps1, by rw [setTask_params]; exact h.eps2, h.coll.congr (setTask_ops s t),
   h.tasks.setTask t hb hr⟩

theorem EndInv.delTask {bond : Denom} {s : State} (h : EndInv bond s) (k : String) : EndInv bond (delTask s k) :=
  ⟨h.eps1, h.eps2, h.coll.congr rfl, fun t ht => h.tasks t (List.mem_filter.mp ht).1⟩

/-- every successful oracle operation (messages and both block functions) preserves the invariant -/
theorem stepE_endInv (e : Env) (l l' : Ledger) (s s' : State) (op : Op) (h : stepE e l s op = .ok (l', s'))
    (hi : EndInv e.bond s) : EndInv e.bond s' := by
  cases op with
  | createOperator a c p =>
    simp only [stepE] at h
    unfold createOperator at h
    split at h; · cases h
    rename_i hpos
    split at h; · cases h
    split at h; · cases h
    dsimp only at h
    split at h; · cases h
    cases h
    have hc : Coins.isAllPositive c = true := by simpa using hpos
    exact (hi.setOp { addr := a, proposer := p, coll := c, rew := [] }
      (Shentu.Shield.PoolLm.amountOf_nonneg_of_allPositive c hc e.bond)).congr rfl rfl rfl
  | removeOperator a =>
    simp only [stepE] at h
    unfold removeOperator at h
    ok_cases h
    cases h
    exact ⟨hi.eps1, hi.eps2, (hi.coll.congr (s' := createWithdraw e { s with total := Coins.sub s.total _ } a _) rfl).delOp a, hi.tasks⟩
  | addCollateral a c =>
    simp only [stepE] at h
    unfold addCollateral at h
    split at h; · cases h
    rename_i hpos
    split at h; · cases h
    rename_i o ho
    dsimp only at h
    split at h; · cases h
    cases h
    have hc : Coins.isAllPositive c = true := by simpa using hpos
    have h1 := Shentu.Shield.PoolLm.amountOf_nonneg_of_allPositive c hc e.bond
    have h2 := hi.coll a o ho
    exact (hi.setOp { o with coll := Coins.add o.coll c } (by rw [Coins.amountOf_add]; omega)).congr rfl rfl rfl
  | reduceCollateral a c =>
    simp only [stepE] at h
    unfold reduceCollateral at h
    split at h; · cases h
    split at h; · cases h
    rename_i o ho
    split at h; · cases h
    rename_i hneg
    dsimp only at h
    split at h; · cases h
    split at h; · cases h
    cases h
    have hn : Coins.isAnyNegative (Coins.sub o.coll c) = false := by simpa [subPanics] using hneg
    exact (hi.setOp { o with coll := Coins.sub o.coll c } (amountOf_nonneg _ hn e.bond)).congr rfl rfl rfl
  | withdrawReward a =>
    simp only [stepE] at h
    unfold withdrawReward at h
    split at h; · cases h
    rename_i o ho
    split at h; · cases h
    cases h
    exact hi.setOp { o with rew := [] } (hi.coll a o ho)
  | createTask c f b cr w v =>
    simp only [stepE] at h
    unfold createTask at h
    dsimp only at h
    split at h; · cases h
    rename_i s0 hpre
    split at h; · cases h
    rename_i l1 hsend
    cases h
    have h0 : EndInv e.bond s0 := by
      ok_cases hpre
      all_goals (cases hpre; first | exact hi.delTask _ | exact hi)
    have hb := Shentu.Shield.PoolLm.send_not_anyNegative hsend
    exact (h0.setTask _ hb (fun r hr => by cases hr)).congr (addClosing_ops _ _ _) (addClosing_tasks _ _ _) (addClosing_params _ _ _)
  | respond c f sc o =>
    simp only [stepE] at h
    cases hr : respond e s c f sc o with
    | error x => simp [hr, Except.map] at h
    | ok s1 =>
      simp only [hr, Except.map] at h
      injection h with h; injection h with _ h2; subst h2
      have hsc : 0 ≤ sc ∧ sc ≤ 100 := by
        have := (Shentu.Props.C15.respond_iff e s c f sc o).mp ⟨s1, hr⟩
        obtain ⟨_, _, _, _, _, h0, h100⟩ := this
        exact ⟨h0, h100⟩
      obtain ⟨t, ht, rfl⟩ := Shentu.Props.C15.respond_appends e s s1 c f sc o hr
      have htk := hi.tasks t (findTask_mem ht)
      refine hi.setTask _ ?_ ?_
      · exact htk.1
      intro r hr'
      rcases List.mem_append.mp hr' with h1 | h1
      · exact htk.2 r h1
      · have : r = { op := o, score := sc, weight := 0, reward := [] } := by simpa using h1
        rw [this]; exact hsc
  | deleteTask c f fo d =>
    simp only [stepE] at h
    cases hr : deleteTask e s c f fo d with
    | error x => simp [hr, Except.map] at h
    | ok s1 =>
      simp only [hr, Except.map] at h
      injection h with h; injection h with _ h2; subst h2
      unfold deleteTask at hr
      ok_cases hr
      cases hr
      exact hi.delTask _
  | beginBlock =>
    simp only [stepE] at h
    unfold beginBlock at h
    ok_cases h
    cases h
    exact hi.congr rfl rfl rfl
  | endBlock =>
    simp only [stepE] at h
    cases hr : endBlock e s with
    | error x => simp [hr, Except.map] at h
    | ok s1 =>
      simp only [hr, Except.map] at h
      injection h with h; injection h with _ h2; subst h2
      rcases endBlock_total e s hi with ⟨s2, hs2, hi2⟩
      rw [hr] at hs2
      injection hs2 with hs2
      rw [hs2]; exact hi2

end Shentu.Halt.Orc
