import Shentu.Model.Cert
import Shentu.Proofs.Tactics
/-
  History-level machinery for C13: an operation type over `Cert.State`, the run of a history,
  the well-formedness invariant `WF`, the specification of the council as a function of the
  certifier list alone, and a ghost log of every step with the state it was applied to.
-/
namespace Shentu.C13H
open Shentu Shentu.Cert

/-! ### Operations and histories -/

/-- what can happen to the cert module: three signed messages, and a passed certifier-update proposal -/
inductive Op where
  | issue (signer : Addr) (kind content : String)
  | revoke (signer : Addr) (id : Nat)
  | certifyPlatform (signer : Addr) (pubkey desc : String)
  | govUpdate (certifier : Addr) (alias : String) (proposer : Addr) (add : Bool)
  deriving DecidableEq, Inhabited

/-- dispatch to the model's own functions -/
def exec (s : State) : Op → Except Err State
  | .issue a k c => Cert.issue s a k c
  | .revoke a id => Cert.revoke s a id
  | .certifyPlatform a pk d => Cert.certifyPlatform s a pk d
  | .govUpdate a al p add => Cert.handleUpdate s a al p add

/-- a failed operation leaves the state unchanged -/
def step (s : State) (o : Op) : State :=
  match exec s o with
  | .ok s' => s'
  | .error _ => s

def succeeds (s : State) (o : Op) : Bool :=
  match exec s o with
  | .ok _ => true
  | .error _ => false

def run (s : State) (ops : List Op) : State := ops.foldl step s

def Op.isGov : Op → Bool
  | .govUpdate .. => true
  | _ => false

@[simp] theorem run_nil (s : State) : run s [] = s := rfl
@[simp] theorem run_cons (s : State) (o : Op) (os : List Op) : run s (o :: os) = run (step s o) os := rfl
theorem run_append (s : State) (xs ys : List Op) : run s (xs ++ ys) = run (run s xs) ys := by
  simp [run, List.foldl_append]

theorem step_of_ok {s s' : State} {o : Op} (h : exec s o = .ok s') : step s o = s' := by simp [step, h]
theorem step_of_error {s : State} {o : Op} {x : Err} (h : exec s o = .error x) : step s o = s := by simp [step, h]
theorem succeeds_of_ok {s s' : State} {o : Op} (h : exec s o = .ok s') : succeeds s o = true := by simp [succeeds, h]
theorem succeeds_of_error {s : State} {o : Op} {x : Err} (h : exec s o = .error x) : succeeds s o = false := by
  simp [succeeds, h]

theorem step_of_fails {s : State} {o : Op} (h : succeeds s o = false) : step s o = s := by
  unfold succeeds at h; unfold step
  split at h
  · cases h
  · simp

/-- a step is either an accepted operation, whose result it returns, or a refused one, which changes nothing -/
theorem step_cases (s : State) (o : Op) :
    (∃ s', exec s o = .ok s' ∧ step s o = s' ∧ succeeds s o = true) ∨ (step s o = s ∧ succeeds s o = false) := by
  cases h : exec s o with
  | ok s' => exact Or.inl ⟨s', rfl, step_of_ok h, succeeds_of_ok h⟩
  | error x => exact Or.inr ⟨step_of_error h, succeeds_of_error h⟩

/-! ### Exact shape of each successful operation -/

theorem issue_ok {s s' : State} {a : Addr} {k c : String} (h : Cert.issue s a k c = .ok s') :
    isCertifier s a = true ∧
    s' = { s with certs := s.certs ++ [{ id := s.nextId, kind := k, content := c, certifier := a }], nextId := s.nextId + 1 } := by
  unfold Cert.issue at h; split at h
  · cases h
  · rename_i hc; injection h with h; subst h
    exact ⟨by simpa using hc, rfl⟩

theorem revoke_ok {s s' : State} {a : Addr} {id : Nat} (h : Cert.revoke s a id = .ok s') :
    s.certs.any (·.id == id) = true ∧ isCertifier s a = true ∧
    s' = { s with certs := s.certs.filter (fun c => !(c.id == id)) } := by
  unfold Cert.revoke at h; split at h
  · cases h
  · rename_i h1; split at h
    · cases h
    · rename_i h2; injection h with h; subst h
      exact ⟨by simpa using h1, by simpa using h2, rfl⟩

theorem platform_ok {s s' : State} {a : Addr} {pk d : String} (h : Cert.certifyPlatform s a pk d = .ok s') :
    isCertifier s a = true ∧
    s' = { s with platforms := (s.platforms.filter (fun p => !(p.1 == pk))) ++ [(pk, d)] } := by
  unfold Cert.certifyPlatform at h; split at h
  · cases h
  · rename_i hc; injection h with h; subst h
    exact ⟨by simpa using hc, rfl⟩

theorem add_ok {s s' : State} {a : Addr} {al : String} {p : Addr} (h : Cert.handleUpdate s a al p true = .ok s') :
    isCertifier s a = false ∧ (al = "" ∨ s.aliasIdx.any (·.1 == al) = false) ∧
    s' = { s with certifiers := s.certifiers ++ [{ addr := a, alias := al, proposer := p }],
                  aliasIdx := if al != "" then s.aliasIdx ++ [(al, a)] else s.aliasIdx } := by
  unfold Cert.handleUpdate at h
  simp only [if_true] at h
  split at h
  · cases h
  · rename_i h1; split at h
    · cases h
    · rename_i h2; injection h with h; subst h
      refine ⟨by simpa using h1, ?_, rfl⟩
      by_cases h0 : al = ""
      · exact Or.inl h0
      · right
        cases hany : s.aliasIdx.any (·.1 == al) with
        | false => rfl
        | true => exact absurd (by simp [hasAlias, h0, hany]) h2

theorem remove_ok {s s' : State} {a : Addr} {al : String} {p : Addr} (h : Cert.handleUpdate s a al p false = .ok s') :
    s.certifiers.length ≠ 1 ∧ ∃ c, s.certifiers.find? (·.addr == a) = some c ∧
    s' = { s with certifiers := s.certifiers.filter (fun x => !(x.addr == a)),
                  aliasIdx := s.aliasIdx.filter (fun e => !(e.1 == c.alias)) } := by
  unfold Cert.handleUpdate at h
  simp only [Bool.false_eq_true, if_false] at h
  split at h
  · cases h
  · rename_i h1; split at h
    · cases h
    · rename_i c hc; injection h with h; subst h
      exact ⟨by simpa using h1, c, hc, rfl⟩

/-! ### The invariant -/

/-- the alias index that a certifier list determines: the non-empty aliases, in council order, with their owners -/
def aliasIndexOf (cs : List Certifier) : List (String × Addr) :=
  (cs.filter (fun c => c.alias != "")).map (fun c => (c.alias, c.addr))

/-- the non-empty aliases of a certifier list, in council order -/
def aliasesOf (cs : List Certifier) : List String := (cs.filter (fun c => c.alias != "")).map (·.alias)

theorem aliasIndexOf_fst (cs : List Certifier) : (aliasIndexOf cs).map (·.1) = aliasesOf cs := by
  simp [aliasIndexOf, aliasesOf, List.map_map, Function.comp_def]

structure WF (s : State) : Prop where
  /-- the council is not empty -/
  nonempty : s.certifiers ≠ []
  /-- certifier addresses are pairwise distinct -/
  addrs : (s.certifiers.map (·.addr)).Nodup
  /-- non-empty aliases are pairwise distinct -/
  aliases : (aliasesOf s.certifiers).Nodup
  /-- the alias index is exactly the non-empty aliases of the current certifiers with their addresses -/
  index : s.aliasIdx = aliasIndexOf s.certifiers
  /-- certificate identifiers are pairwise distinct -/
  ids : (s.certs.map (·.id)).Nodup
  /-- every certificate identifier is below the counter -/
  below : ∀ c ∈ s.certs, c.id < s.nextId

theorem any_alias_iff (cs : List Certifier) (al : String) :
    (aliasIndexOf cs).any (·.1 == al) = true ↔ al ∈ aliasesOf cs := by
  rw [← aliasIndexOf_fst]
  simp only [List.any_eq_true, beq_iff_eq, List.mem_map]

theorem mem_aliasesOf (cs : List Certifier) (al : String) :
    al ∈ aliasesOf cs ↔ al ≠ "" ∧ ∃ c ∈ cs, c.alias = al := by
  simp only [aliasesOf, List.mem_map, List.mem_filter, bne_iff_ne, ne_eq]
  constructor
  · rintro ⟨c, ⟨hc, hne⟩, rfl⟩; exact ⟨hne, c, hc, rfl⟩
  · rintro ⟨hne, c, hc, rfl⟩; exact ⟨c, ⟨hc, hne⟩, rfl⟩

theorem mem_aliasIndexOf (cs : List Certifier) (al : String) (ad : Addr) :
    (al, ad) ∈ aliasIndexOf cs ↔ al ≠ "" ∧ ∃ c ∈ cs, c.alias = al ∧ c.addr = ad := by
  simp only [aliasIndexOf, List.mem_map, List.mem_filter, bne_iff_ne, ne_eq, Prod.mk.injEq]
  constructor
  · rintro ⟨c, ⟨hc, hne⟩, rfl, rfl⟩; exact ⟨hne, c, hc, rfl, rfl⟩
  · rintro ⟨hne, c, hc, rfl, rfl⟩; exact ⟨c, ⟨hc, hne⟩, rfl, rfl⟩

theorem aliasIndexOf_append (xs ys : List Certifier) : aliasIndexOf (xs ++ ys) = aliasIndexOf xs ++ aliasIndexOf ys := by
  simp [aliasIndexOf, List.filter_append]

theorem aliasesOf_append (xs ys : List Certifier) : aliasesOf (xs ++ ys) = aliasesOf xs ++ aliasesOf ys := by
  simp [aliasesOf, List.filter_append]

/-- in a list with distinct addresses, a member is determined by its address -/
theorem eq_of_addr_eq {cs : List Certifier} (hn : (cs.map (·.addr)).Nodup) {x y : Certifier}
    (hx : x ∈ cs) (hy : y ∈ cs) (h : x.addr = y.addr) : x = y := by
  induction cs with
  | nil => cases hx
  | cons z zs ih =>
    simp only [List.map_cons, List.nodup_cons, List.mem_map, not_exists, not_and] at hn
    rcases List.mem_cons.mp hx with rfl | hx' <;> rcases List.mem_cons.mp hy with rfl | hy'
    · rfl
    · exact absurd h.symm (hn.1 y hy')
    · exact absurd h (hn.1 x hx')
    · exact ih hn.2 hx' hy'

/-- in a list with distinct non-empty aliases, a member with a non-empty alias is determined by it -/
theorem eq_of_alias_eq {cs : List Certifier} (hn : (aliasesOf cs).Nodup) {x y : Certifier}
    (hx : x ∈ cs) (hy : y ∈ cs) (hne : x.alias ≠ "") (h : x.alias = y.alias) : x = y := by
  induction cs with
  | nil => cases hx
  | cons z zs ih =>
    have hcons : aliasesOf (z :: zs) = aliasesOf [z] ++ aliasesOf zs := aliasesOf_append [z] zs
    rw [hcons, List.nodup_append] at hn
    obtain ⟨_, hzs, hdis⟩ := hn
    have hmemz : ∀ w : Certifier, w = z → w.alias ≠ "" → w.alias ∈ aliasesOf [z] := by
      intro w hw hwne; subst hw
      exact (mem_aliasesOf [w] w.alias).mpr ⟨hwne, w, List.mem_singleton.mpr rfl, rfl⟩
    rcases List.mem_cons.mp hx with hxz | hx' <;> rcases List.mem_cons.mp hy with hyz | hy'
    · rw [hxz, hyz]
    · exfalso
      have h1 := hmemz x hxz hne
      have h2 : y.alias ∈ aliasesOf zs := (mem_aliasesOf zs y.alias).mpr ⟨h ▸ hne, y, hy', rfl⟩
      exact hdis _ h1 _ h2 h
    · exfalso
      have h1 := hmemz y hyz (h ▸ hne)
      have h2 : x.alias ∈ aliasesOf zs := (mem_aliasesOf zs x.alias).mpr ⟨hne, x, hx', rfl⟩
      exact hdis _ h1 _ h2 h.symm
    · exact ih hzs hx' hy'

theorem filter_map_congr_mem {α β} (l : List α) (p q : α → Bool) (f : α → β) (h : ∀ x ∈ l, p x = q x) :
    (l.filter p).map f = (l.filter q).map f := by
  rw [List.filter_congr h]

/-- removing a certifier by address removes exactly its entry from the alias index -/
theorem aliasIndexOf_remove {cs : List Certifier} (ha : (cs.map (·.addr)).Nodup) (hal : (aliasesOf cs).Nodup)
    {c : Certifier} (hc : c ∈ cs) :
    (aliasIndexOf cs).filter (fun e => !(e.1 == c.alias)) = aliasIndexOf (cs.filter (fun x => !(x.addr == c.addr))) := by
  unfold aliasIndexOf
  rw [List.filter_map, List.filter_filter, List.filter_filter]
  congr 1
  apply List.filter_congr
  intro x hx
  simp only [Function.comp_def]
  by_cases hxe : x.alias = ""
  · simp [hxe]
  · have h1 : (x.alias != "") = true := by simpa using hxe
    simp only [h1, Bool.and_true, Bool.true_and]
    by_cases hxc : x.alias = c.alias
    · have := eq_of_alias_eq hal hx hc hxe hxc
      subst this; simp
    · have hne : x.addr ≠ c.addr := fun h => hxc (by rw [eq_of_addr_eq ha hx hc h])
      have e1 : (x.alias == c.alias) = false := by simpa using hxc
      have e2 : (x.addr == c.addr) = false := by simpa using hne
      rw [e1, e2]

theorem find_addr {cs : List Certifier} {a : Addr} {c : Certifier} (h : cs.find? (·.addr == a) = some c) :
    c ∈ cs ∧ c.addr = a := by
  have h1 := List.mem_of_find?_eq_some h
  have h2 := List.find?_some h
  exact ⟨h1, by simpa using h2⟩

/-! ### Each successful operation preserves the invariant -/

theorem issue_wf {s s' : State} {a : Addr} {k c : String} (hw : WF s) (h : Cert.issue s a k c = .ok s') : WF s' := by
  obtain ⟨_, rfl⟩ := issue_ok h
  refine ⟨hw.nonempty, hw.addrs, hw.aliases, hw.index, ?_, ?_⟩
  · simp only [List.map_append, List.map_cons, List.map_nil]
    rw [List.nodup_append]
    refine ⟨hw.ids, by simp, ?_⟩
    intro x hx y hy
    simp only [List.mem_singleton] at hy; subst hy
    obtain ⟨c0, hc0, rfl⟩ := List.mem_map.mp hx
    have := hw.below c0 hc0
    omega
  · intro x hx
    simp only [List.mem_append, List.mem_singleton] at hx
    rcases hx with hx | rfl
    · have := hw.below x hx; simp only; omega
    · simp

theorem revoke_wf {s s' : State} {a : Addr} {id : Nat} (hw : WF s) (h : Cert.revoke s a id = .ok s') : WF s' := by
  obtain ⟨_, _, rfl⟩ := revoke_ok h
  refine ⟨hw.nonempty, hw.addrs, hw.aliases, hw.index, ?_, ?_⟩
  · exact List.Nodup.sublist (List.Sublist.map _ List.filter_sublist) hw.ids
  · intro x hx; exact hw.below x (List.mem_filter.mp hx).1

theorem platform_wf {s s' : State} {a : Addr} {pk d : String} (hw : WF s) (h : Cert.certifyPlatform s a pk d = .ok s') : WF s' := by
  obtain ⟨_, rfl⟩ := platform_ok h
  exact ⟨hw.nonempty, hw.addrs, hw.aliases, hw.index, hw.ids, hw.below⟩

theorem add_wf {s s' : State} {a : Addr} {al : String} {p : Addr} (hw : WF s) (h : Cert.handleUpdate s a al p true = .ok s') : WF s' := by
  obtain ⟨hnc, hfree, rfl⟩ := add_ok h
  have hfree' : al = "" ∨ al ∉ aliasesOf s.certifiers := by
    rcases hfree with h0 | h1
    · exact Or.inl h0
    · right; intro hmem
      rw [hw.index] at h1
      have := (any_alias_iff s.certifiers al).mpr hmem
      rw [this] at h1; cases h1
  refine ⟨by simp, ?_, ?_, ?_, hw.ids, hw.below⟩
  · simp only [List.map_append, List.map_cons, List.map_nil]
    rw [List.nodup_append]
    refine ⟨hw.addrs, by simp, ?_⟩
    intro x hx y hy
    simp only [List.mem_singleton] at hy; subst hy
    intro heq; subst heq
    obtain ⟨c0, hc0, hca⟩ := List.mem_map.mp hx
    have : isCertifier s c0.addr = true := by
      simp only [isCertifier, List.any_eq_true, beq_iff_eq]; exact ⟨c0, hc0, rfl⟩
    rw [hca] at this; rw [this] at hnc; cases hnc
  · simp only [aliasesOf_append]
    by_cases h0 : al = ""
    · subst h0; simpa [aliasesOf] using hw.aliases
    · have hs : aliasesOf [{ addr := a, alias := al, proposer := p }] = [al] := by
        simp [aliasesOf, h0]
      rw [hs, List.nodup_append]
      refine ⟨hw.aliases, by simp, ?_⟩
      intro x hx y hy
      simp only [List.mem_singleton] at hy; subst hy
      intro heq; subst heq
      rcases hfree' with h | h
      · exact h0 h
      · exact h hx
  · simp only [aliasIndexOf_append]
    by_cases h0 : al = ""
    · subst h0; simp [aliasIndexOf, hw.index]
    · have hs : aliasIndexOf [{ addr := a, alias := al, proposer := p }] = [(al, a)] := by
        simp [aliasIndexOf, h0]
      have hb : (al != "") = true := by simpa using h0
      simp only [hb, if_true, hs, hw.index]

theorem filter_ne_nil_of_two {cs : List Certifier} (hn : (cs.map (·.addr)).Nodup) (hne : cs ≠ []) (hlen : cs.length ≠ 1)
    (a : Addr) : cs.filter (fun x => !(x.addr == a)) ≠ [] := by
  match cs, hn, hne, hlen with
  | [_], _, _, hlen => simp at hlen
  | x :: y :: rest, hn, _, _ =>
    intro hempty
    have hx : x ∉ (x :: y :: rest).filter (fun x => !(x.addr == a)) := by rw [hempty]; simp
    have hy : y ∉ (x :: y :: rest).filter (fun x => !(x.addr == a)) := by rw [hempty]; simp
    simp only [List.mem_filter, List.mem_cons, true_or, or_true, true_and, Bool.not_eq_true', beq_eq_false_iff_ne, ne_eq,
      Decidable.not_not] at hx hy
    simp only [List.map_cons, List.nodup_cons, List.mem_cons, not_or] at hn
    exact hn.1.1 (hx.trans hy.symm)

theorem remove_wf {s s' : State} {a : Addr} {al : String} {p : Addr} (hw : WF s) (h : Cert.handleUpdate s a al p false = .ok s') : WF s' := by
  obtain ⟨hlen, c, hfind, rfl⟩ := remove_ok h
  obtain ⟨hc, hca⟩ := find_addr hfind
  refine ⟨?_, ?_, ?_, ?_, hw.ids, hw.below⟩
  · exact filter_ne_nil_of_two hw.addrs hw.nonempty hlen a
  · exact List.Nodup.sublist (List.Sublist.map _ List.filter_sublist) hw.addrs
  · exact List.Nodup.sublist (List.Sublist.map _ (List.Sublist.filter _ List.filter_sublist)) hw.aliases
  · simp only
    rw [hw.index, ← hca]
    exact aliasIndexOf_remove hw.addrs hw.aliases hc

theorem exec_wf {s s' : State} {o : Op} (hw : WF s) (h : exec s o = .ok s') : WF s' := by
  cases o with
  | issue a k c => exact issue_wf hw h
  | revoke a id => exact revoke_wf hw h
  | certifyPlatform a pk d => exact platform_wf hw h
  | govUpdate a al p add =>
    cases add with
    | true => exact add_wf hw h
    | false => exact remove_wf hw h

theorem step_wf {s : State} (o : Op) (hw : WF s) : WF (step s o) := by
  rcases step_cases s o with ⟨s', h, hs, _⟩ | ⟨hs, _⟩
  · rw [hs]; exact exec_wf hw h
  · rw [hs]; exact hw

theorem run_wf {s : State} (ops : List Op) (hw : WF s) : WF (run s ops) := by
  induction ops generalizing s with
  | nil => exact hw
  | cons o os ih => exact ih (step_wf o hw)

/-- a genesis state: the certifier store and the alias store are written from the same list -/
def genesis (cs : List Certifier) (certs : List Certificate) (nextId : Nat) : State :=
  { certifiers := cs, aliasIdx := aliasIndexOf cs, certs := certs, nextId := nextId, platforms := [] }

theorem genesis_wf (cs : List Certifier) (certs : List Certificate) (nextId : Nat)
    (h1 : cs ≠ []) (h2 : (cs.map (·.addr)).Nodup) (h3 : (aliasesOf cs).Nodup)
    (h4 : (certs.map (·.id)).Nodup) (h5 : ∀ c ∈ certs, c.id < nextId) : WF (genesis cs certs nextId) :=
  ⟨h1, h2, h3, rfl, h4, h5⟩

/-! ### The council as a function of the certifier list -/

/-- what a successful operation does to the certifier list: only a governance update does anything -/
def applyOp (cs : List Certifier) : Op → List Certifier
  | .govUpdate a al p true => cs ++ [{ addr := a, alias := al, proposer := p }]
  | .govUpdate a _ _ false => cs.filter (fun x => !(x.addr == a))
  | _ => cs

/-- the governance updates of a history that succeeded, in order -/
def passedUpdates : State → List Op → List Op
  | _, [] => []
  | s, o :: os => (if o.isGov && succeeds s o then [o] else []) ++ passedUpdates (step s o) os

/-- the council step decided on the certifier list alone: additions are refused for a known address or a
    used non-empty alias, removals for the last certifier; a removal of an unknown address changes nothing -/
def councilStep (cs : List Certifier) : Op → List Certifier
  | .govUpdate a al p true =>
    if cs.any (·.addr == a) then cs
    else if al != "" && cs.any (·.alias == al) then cs
    else cs ++ [{ addr := a, alias := al, proposer := p }]
  | .govUpdate a _ _ false => if cs.length == 1 then cs else cs.filter (fun x => !(x.addr == a))
  | _ => cs

theorem exec_certifiers {s s' : State} {o : Op} (h : exec s o = .ok s') : s'.certifiers = applyOp s.certifiers o := by
  cases o with
  | issue a k c => obtain ⟨_, rfl⟩ := issue_ok h; rfl
  | revoke a id => obtain ⟨_, _, rfl⟩ := revoke_ok h; rfl
  | certifyPlatform a pk d => obtain ⟨_, rfl⟩ := platform_ok h; rfl
  | govUpdate a al p add =>
    cases add with
    | true => obtain ⟨_, _, rfl⟩ := add_ok h; rfl
    | false => obtain ⟨_, _, _, rfl⟩ := remove_ok h; rfl

theorem applyOp_not_gov (cs : List Certifier) {o : Op} (h : o.isGov = false) : applyOp cs o = cs := by
  cases o <;> first | rfl | cases h

theorem step_certifiers (s : State) (o : Op) :
    (step s o).certifiers = if o.isGov && succeeds s o then applyOp s.certifiers o else s.certifiers := by
  rcases step_cases s o with ⟨s', h, hs, hok⟩ | ⟨hs, hok⟩
  · rw [hs, hok, exec_certifiers h]
    cases hg : o.isGov
    · simp [applyOp_not_gov _ hg]
    · simp
  · rw [hs, hok]; simp

theorem run_certifiers (s : State) (ops : List Op) :
    (run s ops).certifiers = (passedUpdates s ops).foldl applyOp s.certifiers := by
  induction ops generalizing s with
  | nil => rfl
  | cons o os ih =>
    rw [run_cons, ih, passedUpdates, List.foldl_append, step_certifiers]
    cases h : (o.isGov && succeeds s o) <;> simp

theorem passedUpdates_nil_of_no_gov (s : State) (ops : List Op) (h : ∀ o ∈ ops, o.isGov = false) :
    passedUpdates s ops = [] := by
  induction ops generalizing s with
  | nil => rfl
  | cons o os ih =>
    have h0 := h o List.mem_cons_self
    rw [passedUpdates, h0, ih _ (fun x hx => h x (List.mem_cons_of_mem _ hx))]; simp

theorem mem_passedUpdates {s : State} {ops : List Op} {o : Op} (h : o ∈ passedUpdates s ops) : o ∈ ops ∧ o.isGov = true := by
  induction ops generalizing s with
  | nil => cases h
  | cons x xs ih =>
    rw [passedUpdates, List.mem_append] at h
    rcases h with h | h
    · split at h
      · rename_i hc
        simp only [List.mem_singleton] at h; subst h
        simp only [Bool.and_eq_true] at hc
        exact ⟨List.mem_cons_self, hc.1⟩
      · cases h
    · exact ⟨List.mem_cons_of_mem _ (ih h).1, (ih h).2⟩

/-- the alias index is untouched by the three messages -/
theorem exec_aliasIdx_not_gov {s s' : State} {o : Op} (hg : o.isGov = false) (h : exec s o = .ok s') : s'.aliasIdx = s.aliasIdx := by
  cases o with
  | issue a k c => obtain ⟨_, rfl⟩ := issue_ok h; rfl
  | revoke a id => obtain ⟨_, _, rfl⟩ := revoke_ok h; rfl
  | certifyPlatform a pk d => obtain ⟨_, rfl⟩ := platform_ok h; rfl
  | govUpdate a al p add => cases hg

theorem run_aliasIdx_no_gov (s : State) (ops : List Op) (h : ∀ o ∈ ops, o.isGov = false) : (run s ops).aliasIdx = s.aliasIdx := by
  induction ops generalizing s with
  | nil => rfl
  | cons o os ih =>
    rw [run_cons, ih _ (fun x hx => h x (List.mem_cons_of_mem _ hx))]
    rcases step_cases s o with ⟨s', he, hs, _⟩ | ⟨hs, _⟩
    · rw [hs]; exact exec_aliasIdx_not_gov (h o List.mem_cons_self) he
    · rw [hs]

theorem isCertifier_eq (s : State) (a : Addr) : isCertifier s a = s.certifiers.any (·.addr == a) := rfl

theorem any_alias_certifiers (cs : List Certifier) (al : String) (h0 : al ≠ "") :
    (aliasIndexOf cs).any (·.1 == al) = cs.any (·.alias == al) := by
  rw [Bool.eq_iff_iff, any_alias_iff, mem_aliasesOf]
  simp only [List.any_eq_true, beq_iff_eq]
  constructor
  · rintro ⟨_, c, hc, rfl⟩; exact ⟨c, hc, rfl⟩
  · rintro ⟨c, hc, rfl⟩; exact ⟨h0, c, hc, rfl⟩

theorem filter_addr_id {cs : List Certifier} {a : Addr} (h : cs.find? (·.addr == a) = none) :
    cs.filter (fun x => !(x.addr == a)) = cs := by
  rw [List.filter_eq_self]
  intro x hx
  have := List.find?_eq_none.mp h x hx
  simpa using this

/-- under the invariant the council step is decided by the certifier list alone -/
theorem step_councilStep {s : State} (hw : WF s) (o : Op) : (step s o).certifiers = councilStep s.certifiers o := by
  cases o with
  | issue a k c => rw [step_certifiers]; rfl
  | revoke a id => rw [step_certifiers]; rfl
  | certifyPlatform a pk d => rw [step_certifiers]; rfl
  | govUpdate a al p add =>
    cases add with
    | true =>
      unfold step exec councilStep Cert.handleUpdate
      simp only [if_true, isCertifier_eq]
      by_cases h1 : s.certifiers.any (·.addr == a) = true
      · simp [h1, err]
      · simp only [h1, Bool.false_eq_true, if_false]
        by_cases h0 : al = ""
        · subst h0; simp
        · have hb : (al != "") = true := by simpa using h0
          have hh : hasAlias s al = s.certifiers.any (·.alias == al) := by
            unfold hasAlias
            rw [hw.index, any_alias_certifiers _ _ h0]
            have : (al == "") = false := by simpa using h0
            rw [this]; rfl
          rw [hh, hb]
          by_cases h2 : s.certifiers.any (·.alias == al) = true
          · simp [h2, err]
          · simp [h2]
    | false =>
      unfold step exec councilStep Cert.handleUpdate
      simp only [Bool.false_eq_true, if_false]
      by_cases h1 : (s.certifiers.length == 1) = true
      · simp [h1, err]
      · simp only [h1, Bool.false_eq_true, if_false]
        cases hf : s.certifiers.find? (·.addr == a) with
        | none => simp only []; exact (filter_addr_id hf).symm
        | some c => rfl

theorem run_councilStep {s : State} (hw : WF s) (ops : List Op) : (run s ops).certifiers = ops.foldl councilStep s.certifiers := by
  induction ops generalizing s with
  | nil => rfl
  | cons o os ih => rw [run_cons, ih (step_wf o hw), step_councilStep hw]; rfl

/-! ### Ghost log -/

/-- one line of the ghost log: the operation and the state it was applied to -/
structure Entry where
  pre : State
  op : Op

/-- whether the logged operation was accepted -/
def Entry.ok (e : Entry) : Bool := succeeds e.pre e.op
/-- the state after the logged operation -/
def Entry.post (e : Entry) : State := step e.pre e.op

/-- the state together with the ghost log; the log is written by `gstep` and read by nothing -/
structure G where
  s : State
  log : List Entry

def gstep (g : G) (o : Op) : G := { s := step g.s o, log := g.log ++ [{ pre := g.s, op := o }] }
def grun (g : G) (ops : List Op) : G := ops.foldl gstep g

/-- the log of a history in closed form -/
def glog : State → List Op → List Entry
  | _, [] => []
  | s, o :: os => { pre := s, op := o } :: glog (step s o) os

theorem grun_eq (g : G) (ops : List Op) : grun g ops = { s := run g.s ops, log := g.log ++ glog g.s ops } := by
  induction ops generalizing g with
  | nil => simp [grun, glog]
  | cons o os ih =>
    have : grun g (o :: os) = grun (gstep g o) os := rfl
    rw [this, ih]; simp [gstep, glog]

theorem glog_ops (s : State) (ops : List Op) : (glog s ops).map (·.op) = ops := by
  induction ops generalizing s with
  | nil => rfl
  | cons o os ih => simp [glog, ih]

theorem glog_append (s : State) (xs ys : List Op) : glog s (xs ++ ys) = glog s xs ++ glog (run s xs) ys := by
  induction xs generalizing s with
  | nil => rfl
  | cons o os ih => simp [glog, ih]

/-- every log line is an operation of the history together with the state reached by the operations before it -/
theorem mem_glog_iff (s : State) (ops : List Op) (e : Entry) :
    e ∈ glog s ops ↔ ∃ before after, ops = before ++ e.op :: after ∧ e.pre = run s before := by
  induction ops generalizing s with
  | nil => simp [glog]
  | cons o os ih =>
    simp only [glog, List.mem_cons]
    constructor
    · rintro (rfl | h)
      · exact ⟨[], os, rfl, rfl⟩
      · obtain ⟨b, a, h1, h2⟩ := (ih _).mp h
        exact ⟨o :: b, a, by rw [h1]; rfl, h2⟩
    · rintro ⟨b, a, h1, h2⟩
      cases b with
      | nil =>
        left
        simp only [List.nil_append, List.cons.injEq] at h1
        cases e; simp only at h1 h2; rw [h2, ← h1.1]; rfl
      | cons x xs =>
        right
        simp only [List.cons_append, List.cons.injEq] at h1
        obtain ⟨rfl, h1⟩ := h1
        exact (ih _).mpr ⟨xs, a, h1, h2⟩

/-! ### Certificates along one step -/

theorem exec_certs_mem {s s' : State} {o : Op} (h : exec s o = .ok s') {c : Certificate} (hc : c ∈ s'.certs) :
    c ∈ s.certs ∨ ∃ a k ct, o = .issue a k ct ∧ isCertifier s a = true ∧ c = { id := s.nextId, kind := k, content := ct, certifier := a } := by
  cases o with
  | issue a k ct =>
    obtain ⟨hcert, rfl⟩ := issue_ok h
    simp only [List.mem_append, List.mem_singleton] at hc
    rcases hc with hc | hc
    · exact Or.inl hc
    · exact Or.inr ⟨a, k, ct, rfl, hcert, hc⟩
  | revoke a id => obtain ⟨_, _, rfl⟩ := revoke_ok h; exact Or.inl (List.mem_filter.mp hc).1
  | certifyPlatform a pk d => obtain ⟨_, rfl⟩ := platform_ok h; exact Or.inl hc
  | govUpdate a al p add =>
    cases add with
    | true => obtain ⟨_, _, rfl⟩ := add_ok h; exact Or.inl hc
    | false => obtain ⟨_, _, _, rfl⟩ := remove_ok h; exact Or.inl hc

theorem step_certs_mem {s : State} {o : Op} {c : Certificate} (hc : c ∈ (step s o).certs) :
    c ∈ s.certs ∨ ∃ a k ct, o = .issue a k ct ∧ isCertifier s a = true ∧ c = { id := s.nextId, kind := k, content := ct, certifier := a } := by
  rcases step_cases s o with ⟨s', h, hs, _⟩ | ⟨hs, _⟩
  · rw [hs] at hc; exact exec_certs_mem h hc
  · rw [hs] at hc; exact Or.inl hc

/-- a certificate disappears in one step only by an accepted revocation of its identifier -/
theorem step_certs_gone {s : State} {o : Op} {c : Certificate} (hc : c ∈ s.certs) (hg : c ∉ (step s o).certs) :
    ∃ r, o = .revoke r c.id ∧ isCertifier s r = true ∧ succeeds s o = true := by
  rcases step_cases s o with ⟨s', h, hs, hok⟩ | ⟨hs, _⟩
  · rw [hs] at hg
    cases o with
    | issue a k ct => obtain ⟨_, rfl⟩ := issue_ok h; exact absurd (List.mem_append_left _ hc) hg
    | revoke a id =>
      obtain ⟨_, hcert, rfl⟩ := revoke_ok h
      have : c.id = id := by
        apply Classical.byContradiction; intro hne
        exact hg (List.mem_filter.mpr ⟨hc, by simpa using hne⟩)
      subst this
      exact ⟨a, rfl, hcert, hok⟩
    | certifyPlatform a pk d => obtain ⟨_, rfl⟩ := platform_ok h; exact absurd hc hg
    | govUpdate a al p add =>
      cases add with
      | true => obtain ⟨_, _, rfl⟩ := add_ok h; exact absurd hc hg
      | false => obtain ⟨_, _, _, rfl⟩ := remove_ok h; exact absurd hc hg
  · rw [hs] at hg; exact absurd hc hg

/-- a certificate stays through a step that is not an accepted revocation of its identifier -/
theorem step_certs_stay {s : State} {o : Op} {c : Certificate} (hc : c ∈ s.certs)
    (hno : ∀ r, o = .revoke r c.id → succeeds s o = false) : c ∈ (step s o).certs := by
  apply Classical.byContradiction; intro hg
  obtain ⟨r, ho, _, hok⟩ := step_certs_gone hc hg
  rw [hno r ho] at hok; cases hok

/-! ### Certificates along a history -/

theorem run_certs_mem {s : State} {ops : List Op} {c : Certificate} (hc : c ∈ (run s ops).certs) :
    c ∈ s.certs ∨ ∃ e ∈ glog s ops, ∃ a k ct, e.op = .issue a k ct ∧ isCertifier e.pre a = true ∧
      c = { id := e.pre.nextId, kind := k, content := ct, certifier := a } := by
  induction ops generalizing s with
  | nil => exact Or.inl hc
  | cons o os ih =>
    rcases ih hc with h | ⟨e, he, h⟩
    · rcases step_certs_mem h with h | ⟨a, k, ct, ho, hcert, hceq⟩
      · exact Or.inl h
      · exact Or.inr ⟨{ pre := s, op := o }, List.mem_cons_self, a, k, ct, ho, hcert, hceq⟩
    · exact Or.inr ⟨e, List.mem_cons_of_mem _ he, h⟩

theorem run_certs_gone {s : State} {ops : List Op} {c : Certificate} (hc : c ∈ s.certs) (hg : c ∉ (run s ops).certs) :
    ∃ e ∈ glog s ops, ∃ r, e.op = .revoke r c.id ∧ isCertifier e.pre r = true ∧ e.ok = true ∧ c ∈ e.pre.certs := by
  induction ops generalizing s with
  | nil => exact absurd hc hg
  | cons o os ih =>
    by_cases h1 : c ∈ (step s o).certs
    · obtain ⟨e, he, h⟩ := ih h1 hg
      exact ⟨e, List.mem_cons_of_mem _ he, h⟩
    · obtain ⟨r, ho, hcert, hok⟩ := step_certs_gone hc h1
      exact ⟨{ pre := s, op := o }, List.mem_cons_self, r, ho, hcert, hok, hc⟩

theorem run_certs_stay {s : State} {ops : List Op} {c : Certificate} (hc : c ∈ s.certs)
    (hno : ∀ e ∈ glog s ops, ∀ r, e.op = .revoke r c.id → e.ok = false) : c ∈ (run s ops).certs := by
  apply Classical.byContradiction; intro hg
  obtain ⟨e, he, r, ho, _, hok, _⟩ := run_certs_gone hc hg
  rw [hno e he r ho] at hok; cases hok

/-- with distinct identifiers, membership is lookup by identifier -/
theorem find_of_mem {cs : List Certificate} (hn : (cs.map (·.id)).Nodup) {c : Certificate} (hc : c ∈ cs) :
    cs.find? (·.id == c.id) = some c := by
  induction cs with
  | nil => cases hc
  | cons x xs ih =>
    simp only [List.map_cons, List.nodup_cons, List.mem_map, not_exists, not_and] at hn
    rcases List.mem_cons.mp hc with rfl | hc'
    · simp
    · have : x.id ≠ c.id := fun h => hn.1 c hc' h.symm
      rw [List.find?_cons_of_neg (by simpa using this)]
      exact ih hn.2 hc'

/-! ### Identifiers over a history -/

/-- the identifier a log line handed out, if it is an accepted issue -/
def Entry.issuedId (e : Entry) : Option Nat :=
  match e.op with
  | .issue .. => if e.ok then some e.pre.nextId else none
  | _ => none

/-- all identifiers handed out over a history, in order -/
def issuedIds (s : State) (ops : List Op) : List Nat := (glog s ops).filterMap Entry.issuedId

theorem exec_nextId {s s' : State} {o : Op} (h : exec s o = .ok s') :
    s'.nextId = match o with | .issue .. => s.nextId + 1 | _ => s.nextId := by
  cases o with
  | issue a k ct => obtain ⟨_, rfl⟩ := issue_ok h; rfl
  | revoke a id => obtain ⟨_, _, rfl⟩ := revoke_ok h; rfl
  | certifyPlatform a pk d => obtain ⟨_, rfl⟩ := platform_ok h; rfl
  | govUpdate a al p add =>
    cases add with
    | true => obtain ⟨_, _, rfl⟩ := add_ok h; rfl
    | false => obtain ⟨_, _, _, rfl⟩ := remove_ok h; rfl

theorem step_nextId (s : State) (o : Op) :
    (step s o).nextId = s.nextId + (match ({ pre := s, op := o } : Entry).issuedId with | some _ => 1 | none => 0) := by
  rcases step_cases s o with ⟨s', h, hs, hok⟩ | ⟨hs, hok⟩
  · rw [hs, exec_nextId h]
    cases o <;> simp [Entry.issuedId, Entry.ok, hok]
  · rw [hs]
    cases o <;> simp [Entry.issuedId, Entry.ok, hok]

theorem step_nextId_le (s : State) (o : Op) : s.nextId ≤ (step s o).nextId := by
  rw [step_nextId]; omega

theorem run_nextId_le (s : State) (ops : List Op) : s.nextId ≤ (run s ops).nextId := by
  induction ops generalizing s with
  | nil => exact Nat.le_refl _
  | cons o os ih => exact Nat.le_trans (step_nextId_le s o) (ih _)

theorem issuedIds_cons (s : State) (o : Op) (os : List Op) :
    issuedIds s (o :: os) =
      (match ({ pre := s, op := o } : Entry).issuedId with | some i => [i] | none => []) ++ issuedIds (step s o) os := by
  unfold issuedIds
  simp only [glog, List.filterMap_cons]
  cases ({ pre := s, op := o } : Entry).issuedId <;> rfl

theorem issuedId_eq {s : State} {o : Op} {i : Nat} (h : ({ pre := s, op := o } : Entry).issuedId = some i) : i = s.nextId := by
  unfold Entry.issuedId at h
  split at h
  · split at h
    · injection h with h; exact h.symm
    · cases h
  · cases h

/-- every identifier handed out lies between the counter before and the counter after -/
theorem issuedIds_bounds (s : State) (ops : List Op) : ∀ i ∈ issuedIds s ops, s.nextId ≤ i ∧ i < (run s ops).nextId := by
  induction ops generalizing s with
  | nil => intro i hi; cases hi
  | cons o os ih =>
    intro i hi
    rw [issuedIds_cons, List.mem_append] at hi
    have hst := step_nextId s o
    rcases hi with hi | hi
    · cases hid : ({ pre := s, op := o } : Entry).issuedId with
      | none => rw [hid] at hi; cases hi
      | some j =>
        rw [hid] at hi hst
        simp only at hst
        simp only [List.mem_singleton] at hi; subst hi
        have := issuedId_eq hid
        have := run_nextId_le (step s o) os
        rw [run_cons]; omega
    · have := ih (step s o) i hi
      have := step_nextId_le s o
      rw [run_cons]; omega

/-- identifiers are handed out in strictly increasing order -/
theorem issuedIds_increasing (s : State) (ops : List Op) : (issuedIds s ops).Pairwise (· < ·) := by
  induction ops generalizing s with
  | nil => exact List.Pairwise.nil
  | cons o os ih =>
    rw [issuedIds_cons]
    cases hid : ({ pre := s, op := o } : Entry).issuedId with
    | none => exact ih _
    | some j =>
      simp only [List.singleton_append, List.pairwise_cons]
      refine ⟨?_, ih _⟩
      intro i hi
      have h1 := (issuedIds_bounds (step s o) os i hi).1
      have h2 := step_nextId s o
      rw [hid] at h2
      simp only at h2
      have := issuedId_eq hid
      omega

/-! ### accepted issues -/

theorem exec_issue_of_certifier {s : State} {a : Addr} (k ct : String) (h : isCertifier s a = true) :
    exec s (.issue a k ct) =
      .ok { s with certs := s.certs ++ [{ id := s.nextId, kind := k, content := ct, certifier := a }], nextId := s.nextId + 1 } := by
  simp [exec, Cert.issue, h]

theorem succeeds_issue (s : State) (a : Addr) (k ct : String) : succeeds s (.issue a k ct) = isCertifier s a := by
  cases h : isCertifier s a with
  | true => exact succeeds_of_ok (exec_issue_of_certifier k ct h)
  | false => simp [succeeds, exec, Cert.issue, h, err]

theorem succeeds_revoke (s : State) (a : Addr) (id : Nat) :
    succeeds s (.revoke a id) = (s.certs.any (·.id == id) && isCertifier s a) := by
  cases h1 : s.certs.any (·.id == id) <;> cases h2 : isCertifier s a <;> simp [succeeds, exec, Cert.revoke, h1, h2, err]

theorem succeeds_platform (s : State) (a : Addr) (pk d : String) : succeeds s (.certifyPlatform a pk d) = isCertifier s a := by
  cases h : isCertifier s a <;> simp [succeeds, exec, Cert.certifyPlatform, h, err]

/-- the certificate a log line created is recorded among the identifiers handed out -/
theorem mem_issuedIds {s : State} {ops : List Op} {e : Entry} (he : e ∈ glog s ops) {a : Addr} {k ct : String}
    (ho : e.op = .issue a k ct) (hc : isCertifier e.pre a = true) : e.pre.nextId ∈ issuedIds s ops := by
  unfold issuedIds
  rw [List.mem_filterMap]
  refine ⟨e, he, ?_⟩
  unfold Entry.issuedId Entry.ok
  rw [ho, succeeds_issue, hc]; rfl

/-! ### platform certifications along a history -/

theorem step_platforms_mem {s : State} {o : Op} {x : String × String} (hx : x ∈ (step s o).platforms) :
    x ∈ s.platforms ∨ ∃ a pk d, o = .certifyPlatform a pk d ∧ isCertifier s a = true ∧ x = (pk, d) := by
  rcases step_cases s o with ⟨s', h, hs, _⟩ | ⟨hs, _⟩
  · rw [hs] at hx
    cases o with
    | issue a k ct => obtain ⟨_, rfl⟩ := issue_ok h; exact Or.inl hx
    | revoke a id => obtain ⟨_, _, rfl⟩ := revoke_ok h; exact Or.inl hx
    | certifyPlatform a pk d =>
      obtain ⟨hc, rfl⟩ := platform_ok h
      simp only [List.mem_append, List.mem_singleton] at hx
      rcases hx with hx | hx
      · exact Or.inl (List.mem_filter.mp hx).1
      · exact Or.inr ⟨a, pk, d, rfl, hc, hx⟩
    | govUpdate a al p add =>
      cases add with
      | true => obtain ⟨_, _, rfl⟩ := add_ok h; exact Or.inl hx
      | false => obtain ⟨_, _, _, rfl⟩ := remove_ok h; exact Or.inl hx
  · rw [hs] at hx; exact Or.inl hx

theorem run_platforms_mem {s : State} {ops : List Op} {x : String × String} (hx : x ∈ (run s ops).platforms) :
    x ∈ s.platforms ∨ ∃ e ∈ glog s ops, ∃ a pk d, e.op = .certifyPlatform a pk d ∧ isCertifier e.pre a = true ∧ x = (pk, d) := by
  induction ops generalizing s with
  | nil => exact Or.inl hx
  | cons o os ih =>
    rcases ih hx with h | ⟨e, he, h⟩
    · rcases step_platforms_mem h with h | ⟨a, pk, d, ho, hc, hxe⟩
      · exact Or.inl h
      · exact Or.inr ⟨{ pre := s, op := o }, List.mem_cons_self, a, pk, d, ho, hc, hxe⟩
    · exact Or.inr ⟨e, List.mem_cons_of_mem _ he, h⟩

end Shentu.C13H
