import Shentu.Proofs.C09qStore
/-
  C09q, the SDK side: `undelegate` and the staking end-blocker `endBlock` keep the queue invariant `Inv`; the end-blocker
  completes exactly the mature entries, each once, and the balances are conserved.
-/
namespace Shentu.UbdQueue.Block
open Shentu.UbdQueue Shentu.UbdQueue.Store

/-! ### list helpers -/

theorem countP_filter_immature (es : List Entry) (now t : Int) :
    (es.filter (fun e => !e.isMature now)).countP (fun e => e.t == t)
      = if t ≤ now then 0 else es.countP (fun e => e.t == t) := by
  induction es with
  | nil => simp
  | cons e es ih =>
    by_cases hm : e.t ≤ now
    · have : (!e.isMature now) = false := by simp [Entry.isMature, hm]
      rw [List.filter_cons_of_neg (by simp [this]), ih, List.countP_cons]
      by_cases ht : t ≤ now
      · simp [ht]
      · have : ¬ e.t = t := by omega
        simp [ht, this]
    · have : (!e.isMature now) = true := by simp [Entry.isMature, hm]
      rw [List.filter_cons_of_pos (by simp [this]), List.countP_cons, List.countP_cons, ih]
      by_cases ht : t ≤ now
      · have : ¬ e.t = t := by omega
        simp [ht, this]
      · simp [ht]

theorem filter_mature_filter_immature (es : List Entry) (now : Int) :
    (es.filter (fun e => !e.isMature now)).filter (·.isMature now) = [] := by
  rw [List.filter_filter]
  simp

theorem filter_immature_idem (es : List Entry) (now : Int) :
    (es.filter (fun e => !e.isMature now)).filter (fun e => !e.isMature now) = es.filter (fun e => !e.isMature now) := by
  rw [List.filter_filter]
  simp

theorem balSum_split (es : List Entry) (p : Entry → Bool) :
    balSum (es.filter (fun e => !p e)) + balSum (es.filter p) = balSum es := by
  induction es with
  | nil => rfl
  | cons e es ih =>
    unfold balSum at ih ⊢
    cases hp : p e
    · rw [List.filter_cons_of_pos (by simp [hp]), List.filter_cons_of_neg (by simp [hp])]
      simp only [List.map_cons, List.sum_cons]; omega
    · rw [List.filter_cons_of_neg (by simp [hp]), List.filter_cons_of_pos hp]
      simp only [List.map_cons, List.sum_cons]; omega

theorem balSum_append (a b : List Entry) : balSum (a ++ b) = balSum a + balSum b := by
  induction a with
  | nil => simp [balSum]
  | cons e es ih =>
    unfold balSum at ih ⊢
    simp only [List.cons_append, List.map_cons, List.sum_cons, ih]; omega

theorem paidSum_append_map (l : List Paid) (d v : String) (m : List Entry) :
    paidSum (l ++ m.map (fun e => (d, v, e))) = paidSum l + balSum m := by
  induction l with
  | nil =>
    induction m with
    | nil => rfl
    | cons e es ih =>
      unfold paidSum balSum at ih ⊢
      simp only [List.nil_append, List.map_cons, List.sum_cons, List.map_nil, List.sum_nil] at ih ⊢
      omega
  | cons x xs ih =>
    unfold paidSum at ih ⊢
    simp only [List.cons_append, List.map_cons, List.sum_cons, ih]; omega

theorem count_map_paid (m : List Entry) (d0 v0 d v : String) (e : Entry) :
    (m.map (fun x => ((d0, v0, x) : Paid))).count (d, v, e) = if d = d0 ∧ v = v0 then m.count e else 0 := by
  induction m with
  | nil => simp
  | cons x xs ih =>
    rw [List.map_cons, List.count_cons, ih, List.count_cons]
    by_cases h : d = d0 ∧ v = v0
    · obtain ⟨rfl, rfl⟩ := h
      by_cases hx : x = e
      · subst hx; simp
      · have : ¬ ((d, v, x) : Paid) = (d, v, e) := by simpa using hx
        simp [hx, this]
    · have : ¬ ((d0, v0, x) : Paid) = (d, v, e) := by
        intro e'; apply h; simp only [Prod.mk.injEq] at e'; exact ⟨e'.1.symm, e'.2.1.symm⟩
      simp [h, this]

/-! ### the queue side of the end-blocker -/

theorem getSlice_filter (q : List Slice) (f : Int → Bool) (t : Int) :
    getSlice (q.filter (fun s => f s.1)) t = if f t then getSlice q t else [] := by
  induction q with
  | nil => simp
  | cons x xs ih =>
    cases hx : f x.1
    · rw [List.filter_cons_of_neg (by simp [hx]), ih, getSlice_cons]
      by_cases h : x.1 = t
      · subst h; simp [hx]
      · simp [h]
    · rw [List.filter_cons_of_pos (by simp [hx]), getSlice_cons, getSlice_cons, ih]
      by_cases h : x.1 = t
      · subst h; simp [hx]
      · simp [h]

theorem mem_getSlice {q : List Slice} {t : Int} {p : Pair} (h : p ∈ getSlice q t) : ∃ sl ∈ q, sl.1 = t ∧ p ∈ sl.2 := by
  induction q with
  | nil => simp at h
  | cons x xs ih =>
    rw [getSlice_cons] at h
    by_cases hx : x.1 = t
    · rw [if_pos hx] at h; exact ⟨x, by simp, hx, h⟩
    · rw [if_neg hx] at h
      obtain ⟨sl, h1, h2, h3⟩ := ih h
      exact ⟨sl, by simp [h1], h2, h3⟩

theorem mem_dequeue {q : List Slice} {t now : Int} {p : Pair} (h : p ∈ getSlice q t) (ht : t ≤ now) :
    p ∈ (dequeueAllMature q now).1 := by
  obtain ⟨sl, h1, h2, h3⟩ := mem_getSlice h
  unfold dequeueAllMature
  simp only [List.mem_flatMap, List.mem_filter, decide_eq_true_eq]
  exact ⟨sl, ⟨h1, by omega⟩, h3⟩

set_option linter.unusedVariables false in
/-- the slices up to `now` are gone, the others untouched (the hypothesis `WF s` of the given statement is not needed) -/
theorem endBlock_queue (s : State) (now : Int) (h : WF s) (t : Int) :
    getSlice (endBlock s now).1.queue t = if t ≤ now then [] else getSlice s.queue t := by
  show getSlice (s.queue.filter (fun s => !decide (s.1 ≤ now))) t = _
  rw [getSlice_filter s.queue (fun x => !decide (x ≤ now)) t]
  by_cases ht : t ≤ now <;> simp [ht]

/-! ### `completeAll` -/

theorem completeAll_keys (now : Int) (ps : List Pair) (us : List Ubd) (log : List Paid)
    (h : us.Pairwise (fun x y => ¬ (x.del = y.del ∧ x.val = y.val))) :
    (completeAll now ps us log).1.Pairwise (fun x y => ¬ (x.del = y.del ∧ x.val = y.val)) := by
  induction ps generalizing us log with
  | nil => exact h
  | cons p ps ih =>
    obtain ⟨d0, v0⟩ := p
    unfold completeAll
    cases hc : completeUnbonding us now d0 v0 with
    | none => exact ih us log h
    | some r =>
      obtain ⟨us', m⟩ := r
      unfold completeUnbonding at hc
      simp only [] at hc
      split at hc
      · cases hc
      · simp only [Option.some.injEq, Prod.mk.injEq] at hc
        obtain ⟨rfl, rfl⟩ := hc
        exact ih _ _ (keys_setEntries h _ _ _)

theorem completeAll_entries (now : Int) (ps : List Pair) (us : List Ubd) (log : List Paid) (d v : String) :
    getEntries (completeAll now ps us log).1 d v
      = if (d, v) ∈ ps then (getEntries us d v).filter (fun e => !e.isMature now) else getEntries us d v := by
  induction ps generalizing us log with
  | nil => simp [completeAll]
  | cons p ps ih =>
    obtain ⟨d0, v0⟩ := p
    unfold completeAll
    cases hc : completeUnbonding us now d0 v0 with
    | none =>
      simp only []
      rw [ih]
      unfold completeUnbonding at hc
      simp only [] at hc
      split at hc
      · rename_i he
        have he' : getEntries us d0 v0 = [] := by simpa using he
        by_cases h : d = d0 ∧ v = v0
        · obtain ⟨rfl, rfl⟩ := h
          simp [he']
        · have : ¬ ((d, v) = (d0, v0)) := by simpa using h
          simp [List.mem_cons, this]
      · cases hc
    | some r =>
      obtain ⟨us', m⟩ := r
      simp only []
      rw [ih]
      unfold completeUnbonding at hc
      simp only [] at hc
      split at hc
      · cases hc
      · simp only [Option.some.injEq, Prod.mk.injEq] at hc
        obtain ⟨rfl, rfl⟩ := hc
        rw [getEntries_setEntries]
        by_cases h : d = d0 ∧ v = v0
        · obtain ⟨rfl, rfl⟩ := h
          simp only [and_self, if_true, filter_immature_idem]
          simp
        · have : ¬ ((d, v) = (d0, v0)) := by simpa using h
          simp [List.mem_cons, this, h]

theorem completeAll_log (now : Int) (ps : List Pair) (us : List Ubd) (log : List Paid) (d v : String) (e : Entry) :
    (completeAll now ps us log).2.count (d, v, e)
      = log.count (d, v, e) + if (d, v) ∈ ps then ((getEntries us d v).filter (·.isMature now)).count e else 0 := by
  induction ps generalizing us log with
  | nil => simp [completeAll]
  | cons p ps ih =>
    obtain ⟨d0, v0⟩ := p
    unfold completeAll
    cases hc : completeUnbonding us now d0 v0 with
    | none =>
      simp only []
      rw [ih]
      unfold completeUnbonding at hc
      simp only [] at hc
      split at hc
      · rename_i he
        have he' : getEntries us d0 v0 = [] := by simpa using he
        by_cases h : d = d0 ∧ v = v0
        · obtain ⟨rfl, rfl⟩ := h
          simp [he']
        · have : ¬ ((d, v) = (d0, v0)) := by simpa using h
          simp [List.mem_cons, this]
      · cases hc
    | some r =>
      obtain ⟨us', m⟩ := r
      simp only []
      rw [ih]
      unfold completeUnbonding at hc
      simp only [] at hc
      split at hc
      · cases hc
      · simp only [Option.some.injEq, Prod.mk.injEq] at hc
        obtain ⟨rfl, rfl⟩ := hc
        rw [getEntries_setEntries, List.count_append, count_map_paid]
        by_cases h : d = d0 ∧ v = v0
        · obtain ⟨rfl, rfl⟩ := h
          simp only [and_self, if_true, filter_mature_filter_immature]
          simp
        · have : ¬ ((d, v) = (d0, v0)) := by simpa using h
          simp [List.mem_cons, this, h]

/-! ### totals -/

theorem getEntries_absent {us : List Ubd} {d v : String} (h : ∀ x ∈ us, ¬ (x.del = d ∧ x.val = v)) :
    getEntries us d v = [] := by
  induction us with
  | nil => rfl
  | cons x xs ih =>
    rw [getEntries_cons, if_neg (h x (by simp))]
    exact ih (fun y hy => h y (by simp [hy]))

theorem total_cons (x : Ubd) (xs : List Ubd) : total (x :: xs) = balSum x.entries + total xs := by
  simp [total]

theorem total_removeUbd {us : List Ubd} (h : us.Pairwise (fun x y => ¬ (x.del = y.del ∧ x.val = y.val))) (d v : String) :
    total (removeUbd us d v) = total us - balSum (getEntries us d v) := by
  induction us with
  | nil => simp [removeUbd, total, balSum]
  | cons x xs ih =>
    rw [List.pairwise_cons] at h
    have ih' := ih h.2
    unfold removeUbd at ih' ⊢
    by_cases hx : x.del = d ∧ x.val = v
    · have hi : x.is d v = true := (is_iff x d v).mpr hx
      have habs : getEntries xs d v = [] :=
        getEntries_absent (fun y hy e => h.1 y hy ⟨hx.1.trans e.1.symm, hx.2.trans e.2.symm⟩)
      rw [List.filter_cons_of_neg (by simp [hi]), ih', getEntries_cons, if_pos hx, total_cons, habs]
      simp only [balSum, List.map_nil, List.sum_nil]; omega
    · have hi : ¬ x.is d v = true := fun e => hx ((is_iff x d v).mp e)
      rw [List.filter_cons_of_pos (by simp [hi]), total_cons, total_cons, ih', getEntries_cons, if_neg hx]
      omega

theorem total_insertUbd (u : Ubd) (us : List Ubd) : total (insertUbd u us) = total us + balSum u.entries := by
  induction us with
  | nil => simp [insertUbd, total]
  | cons x xs ih =>
    unfold insertUbd; split
    · rw [total_cons, total_cons, ih]; omega
    · simp only [total_cons]; omega

theorem total_setUbd {us : List Ubd} (h : us.Pairwise (fun x y => ¬ (x.del = y.del ∧ x.val = y.val))) (d v : String)
    (es : List Entry) : total (setUbd us d v es) = total us - balSum (getEntries us d v) + balSum es := by
  unfold setUbd
  rw [total_insertUbd, total_removeUbd h]

theorem total_setEntries {us : List Ubd} (h : us.Pairwise (fun x y => ¬ (x.del = y.del ∧ x.val = y.val))) (d v : String)
    (es : List Entry) : total (setEntries us d v es) = total us - balSum (getEntries us d v) + balSum es := by
  unfold setEntries; split
  · rename_i he
    have : es = [] := by simpa using he
    subst this
    rw [total_removeUbd h]; simp [balSum]
  · exact total_setUbd h d v es

theorem completeAll_total (now : Int) (ps : List Pair) (us : List Ubd) (log : List Paid)
    (h : us.Pairwise (fun x y => ¬ (x.del = y.del ∧ x.val = y.val))) :
    total (completeAll now ps us log).1 + paidSum (completeAll now ps us log).2 = total us + paidSum log := by
  induction ps generalizing us log with
  | nil => rfl
  | cons p ps ih =>
    obtain ⟨d0, v0⟩ := p
    unfold completeAll
    cases hc : completeUnbonding us now d0 v0 with
    | none => exact ih us log h
    | some r =>
      obtain ⟨us', m⟩ := r
      unfold completeUnbonding at hc
      simp only [] at hc
      split at hc
      · cases hc
      · simp only [Option.some.injEq, Prod.mk.injEq] at hc
        obtain ⟨rfl, rfl⟩ := hc
        simp only []
        rw [ih _ _ (keys_setEntries h _ _ _), total_setEntries h, paidSum_append_map]
        have := balSum_split (getEntries us d0 v0) (fun e => e.isMature now)
        omega

/-! ### `undelegate` -/

theorem inv_empty : Inv ({} : State) := by
  refine ⟨⟨List.Pairwise.nil, List.Pairwise.nil⟩, ?_⟩
  intro d v t; rfl

theorem undelegate_entries (s : State) (d v d' v' : String) (t bal : Int) :
    getEntries (undelegate s d v t bal).ubds d' v'
      = if d' = d ∧ v' = v then getEntries s.ubds d v ++ [⟨t, bal⟩] else getEntries s.ubds d' v' := by
  show getEntries (setUbd s.ubds d v (getEntries s.ubds d v ++ [⟨t, bal⟩])) d' v' = _
  rw [getEntries_setUbd]

theorem undelegate_wf (s : State) (d v : String) (t bal : Int) (h : WF s) : WF (undelegate s d v t bal) :=
  ⟨times_insertUBDQueue h.times _ _, keys_setUbd h.keys _ _ _⟩

theorem undelegate_inv (s : State) (d v : String) (t bal : Int) (h : Inv s) : Inv (undelegate s d v t bal) := by
  refine ⟨undelegate_wf s d v t bal h.toWF, ?_⟩
  intro d' v' t'
  have hc := h.counts d' v' t'
  unfold queuedAt entriesAt at hc ⊢
  rw [undelegate_entries]
  show (getSlice (insertUBDQueue s.queue (d, v) t) t').count (d', v') = _
  rw [getSlice_insertUBDQueue]
  by_cases h1 : d' = d ∧ v' = v
  · obtain ⟨rfl, rfl⟩ := h1
    by_cases h2 : t' = t
    · subst h2
      simp only [and_self, if_true, List.count_append, List.countP_append, hc]
      simp
    · have h2' : ¬ t = t' := fun e => h2 e.symm
      simp only [and_self, if_true, if_neg h2, List.countP_append, hc]
      simp [h2']
  · have h1' : ¬ ((d, v) = (d', v')) := by
      intro e; simp only [Prod.mk.injEq] at e; exact h1 ⟨e.1.symm, e.2.symm⟩
    rw [if_neg h1]
    by_cases h2 : t' = t
    · subst h2
      simp only [if_true, List.count_append, hc]
      simp [h1']
    · rw [if_neg h2]; exact hc

theorem undelegate_total (s : State) (d v : String) (t bal : Int) (h : WF s) :
    total (undelegate s d v t bal).ubds = total s.ubds + bal := by
  show total (setUbd s.ubds d v (getEntries s.ubds d v ++ [⟨t, bal⟩])) = _
  rw [total_setUbd h.keys, balSum_append]
  simp only [balSum, List.map_cons, List.map_nil, List.sum_cons, List.sum_nil]
  omega

/-! ### the end-blocker -/

theorem endBlock_wf (s : State) (now : Int) (h : WF s) : WF (endBlock s now).1 :=
  ⟨h.times.filter _, completeAll_keys now _ _ _ h.keys⟩

/-- under the invariant a pair that is not dequeued has no mature entry -/
theorem immature_of_not_dequeued (s : State) (now : Int) (h : Inv s) (d v : String)
    (hn : (d, v) ∉ (dequeueAllMature s.queue now).1) :
    (getEntries s.ubds d v).filter (fun e => !e.isMature now) = getEntries s.ubds d v := by
  rw [List.filter_eq_self]
  intro e he
  by_cases hm : e.t ≤ now
  · exfalso
    apply hn
    have hc := h.counts d v e.t
    unfold queuedAt entriesAt at hc
    have hpos : 0 < (getEntries s.ubds d v).countP (fun x => x.t == e.t) :=
      List.countP_pos_iff.mpr ⟨e, he, by simp⟩
    rw [← hc] at hpos
    exact mem_dequeue (List.count_pos_iff.mp hpos) hm
  · simp [Entry.isMature, hm]

/-- after the end-blocker, every pair keeps exactly its entries that are not mature, in order (nothing completes early,
    everything mature completes) -/
theorem endBlock_entries (s : State) (now : Int) (h : Inv s) (d v : String) :
    getEntries (endBlock s now).1.ubds d v = (getEntries s.ubds d v).filter (fun e => !e.isMature now) := by
  show getEntries (completeAll now (dequeueAllMature s.queue now).1 s.ubds []).1 d v = _
  rw [completeAll_entries]
  split
  · rfl
  · rename_i hn
    exact (immature_of_not_dequeued s now h d v hn).symm

theorem endBlock_no_mature (s : State) (now : Int) (h : Inv s) (d v : String) (e : Entry)
    (he : e ∈ getEntries (endBlock s now).1.ubds d v) : now < e.t := by
  rw [endBlock_entries s now h, List.mem_filter] at he
  have := he.2
  simp only [Entry.isMature, Bool.not_eq_true', decide_eq_false_iff_not] at this
  omega

theorem endBlock_inv (s : State) (now : Int) (h : Inv s) : Inv (endBlock s now).1 := by
  refine ⟨endBlock_wf s now h.toWF, ?_⟩
  intro d v t
  have hc := h.counts d v t
  unfold queuedAt entriesAt at hc ⊢
  rw [endBlock_entries s now h, endBlock_queue s now h.toWF, countP_filter_immature]
  by_cases ht : t ≤ now
  · simp [ht]
  · simp only [if_neg ht]; exact hc

/-- what is paid back is exactly the mature entries, each once -/
theorem endBlock_paid (s : State) (now : Int) (h : Inv s) (d v : String) (e : Entry) :
    ((endBlock s now).2).count (d, v, e) = ((getEntries s.ubds d v).filter (·.isMature now)).count e := by
  show (completeAll now (dequeueAllMature s.queue now).1 s.ubds []).2.count (d, v, e) = _
  rw [completeAll_log]
  split
  · simp
  · rename_i hn
    have him := immature_of_not_dequeued s now h d v hn
    rw [← him, filter_mature_filter_immature]
    simp

theorem endBlock_conservation (s : State) (now : Int) (h : Inv s) :
    total (endBlock s now).1.ubds + paidSum (endBlock s now).2 = total s.ubds := by
  have := completeAll_total now (dequeueAllMature s.queue now).1 s.ubds [] h.keys
  have hz : paidSum ([] : List Paid) = 0 := rfl
  rw [hz, Int.add_zero] at this
  exact this

/-! ### concrete states -/

/-- two undelegations of one pair for the same time, one for a later time, and a second delegator in the same slice -/
def exS : State :=
  undelegate (undelegate (undelegate (undelegate {} "a" "v" 5 10) "a" "v" 7 3) "b" "v" 5 1) "a" "v" 5 2

theorem exS_inv : Inv exS :=
  undelegate_inv _ _ _ _ _ (undelegate_inv _ _ _ _ _ (undelegate_inv _ _ _ _ _ (undelegate_inv _ _ _ _ _ inv_empty)))

example : exS = { ubds := [⟨"a", "v", [⟨5, 10⟩, ⟨7, 3⟩, ⟨5, 2⟩]⟩, ⟨"b", "v", [⟨5, 1⟩]⟩],
                  queue := [(5, [("a", "v"), ("b", "v"), ("a", "v")]), (7, [("a", "v")])] } := by decide
/-- the hypotheses of `undelegate_inv`, `endBlock_inv`, `endBlock_entries`, `endBlock_no_mature`, `endBlock_paid`,
    `endBlock_conservation` hold of a state with entries -/
example : Inv exS ∧ exS.ubds ≠ [] := ⟨exS_inv, by decide⟩
/-- the hypothesis of `endBlock_queue`, `undelegate_total` -/
example : WF exS ∧ exS.queue ≠ [] := ⟨exS_inv.toWF, by decide⟩
example : (endBlock exS 5).1 = { ubds := [⟨"a", "v", [⟨7, 3⟩]⟩], queue := [(7, [("a", "v")])] } := by decide
example : (endBlock exS 5).2 = [("a", "v", ⟨5, 10⟩), ("a", "v", ⟨5, 2⟩), ("b", "v", ⟨5, 1⟩)] := by decide
example : Inv (endBlock exS 5).1 := endBlock_inv _ _ exS_inv
example : total (endBlock exS 5).1.ubds + paidSum (endBlock exS 5).2 = 16 := by decide

/-- without the invariant the end-blocker can lose an entry for ever: a concrete state (an entry whose pair is not queued)
    where a mature entry survives the end-block; kernel-checked by decide -/
example : ∃ s : State, WF s ∧ ∃ e ∈ getEntries (endBlock s 100).1.ubds "p" "v", e.t ≤ 100 :=
  ⟨{ ubds := [⟨"p", "v", [⟨50, 4⟩]⟩], queue := [] },
   ⟨List.Pairwise.nil, List.pairwise_singleton _ _⟩, ⟨50, 4⟩, by decide, by decide⟩

end Shentu.UbdQueue.Block
