import Shentu.Proofs.C11HHistory
/-
  C11 at the level of histories, part 5: a proposal that has ended stays ended, and its entries in the two ghost logs
  are frozen.
-/
namespace Shentu.C11H
open Shentu Shentu.Gov
open Shentu.Halt.Gv (runHandler_frame)
open Shentu.Props.C11 (recOf recAll)
set_option linter.unusedSimpArgs false
set_option linter.unusedVariables false

/-- the identifier was handed out, and the proposal is not (or no longer) in a deposit or voting period -/
def Ended (g : State) (pid : Nat) : Prop := pid < g.nextId ∧ ¬ Live g pid

/-- from `w` to `w'` a proposal only becomes live by being submitted under a fresh identifier -/
structure Grow (w w' : World) : Prop where
  back : ∀ id, Live w'.g id → Live w.g id ∨ w.g.nextId ≤ id
  next : w.g.nextId ≤ w'.g.nextId

theorem Grow.refl (w : World) : Grow w w := ⟨fun _ h => Or.inl h, Nat.le_refl _⟩

theorem Grow.trans {w w1 w2 : World} (a : Grow w w1) (b : Grow w1 w2) : Grow w w2 := by
  refine ⟨?_, Nat.le_trans a.next b.next⟩
  intro id h
  rcases b.back id h with h1 | h1
  · exact a.back id h1
  · exact Or.inr (Nat.le_trans a.next h1)

theorem Grow.ended {w w' : World} (g : Grow w w') {pid : Nat} (h : Ended w.g pid) : Ended w'.g pid := by
  refine ⟨Nat.lt_of_lt_of_le h.1 g.next, ?_⟩
  intro hl
  rcases g.back pid hl with h1 | h1
  · exact h.2 h1
  · exact absurd h.1 (Nat.not_lt.mpr h1)

/-- nothing new becomes live and the identifier counter stands still -/
theorem Grow.of_quiet {w w' : World} (hb : ∀ id, Live w'.g id → Live w.g id) (hn : w'.g.nextId = w.g.nextId) : Grow w w' :=
  ⟨fun id h => Or.inl (hb id h), by rw [hn]; exact Nat.le_refl _⟩

/-! ## the sub-steps of the end blocker -/

theorem Settled.back {e : Env} {w w' : World} {pid : Nat} {b : Bool} (s : Settled e w w' pid b) :
    ∀ id, Live w'.g id → Live w.g id := by
  intro id h
  by_cases hid : id = pid
  · subst hid; exact absurd h s.ended
  · obtain ⟨p, hp, hs⟩ := h
    exact ⟨p, by rw [← s.others id hid]; exact hp, hs⟩

theorem refund_nextId {e : Env} {w w' : World} {pid : Nat} (h : refundDeposits e w pid = .ok w') :
    w'.g.nextId = w.g.nextId := by
  obtain ⟨l', _, hw'⟩ := refund_shape h
  rw [hw']

theorem burn_nextId {e : Env} {w w' : World} {pid : Nat} (h : burnDeposits e w pid = .ok w') :
    w'.g.nextId = w.g.nextId := by
  rw [burn_shape h]

theorem finish_nextId (w : World) (p : Proposal) (pass : Bool) (t : Tally) :
    (finish w p pass t).g.nextId = w.g.nextId := by
  unfold finish
  split
  · split
    · rename_i w1 hw1
      show (setP w1.g _).nextId = _
      rw [setP_nextId, (runHandler_frame hw1).2]
    · show (setP w.g _).nextId = _
      rw [setP_nextId]
  · show (setP w.g _).nextId = _
    rw [setP_nextId]

/-- activating the next voting period of a live proposal revives nothing -/
theorem activate_quiet (e : Env) (w : World) (p : Proposal) (g1 : State) (hp : g1.proposals = w.g.proposals)
    (hn : g1.nextId = w.g.nextId) (hf : findP w.g p.id = some p) (hs : liveStatus p.status) :
    Grow w { w with g := activateVotingPeriod e g1 p } := by
  apply Grow.of_quiet
  · intro id h
    by_cases hid : id = p.id
    · subst hid; exact ⟨p, hf, hs⟩
    · obtain ⟨q, hq, hqs⟩ := h
      have hq' : findP (activateVotingPeriod e g1 p) id = some q := hq
      unfold activateVotingPeriod at hq'
      rw [findP_setP, activated_id] at hq'
      have : (p.id == id) = false := by simpa using Ne.symm hid
      simp only [this, Bool.false_eq_true, if_false] at hq'
      refine ⟨q, ?_, hqs⟩
      unfold findP at hq' ⊢
      rw [← hp]; exact hq'
  · show (activateVotingPeriod e g1 p).nextId = _
    unfold activateVotingPeriod
    rw [setP_nextId, hn]

theorem drop_grow {e : Env} {w w' : World} {p : Proposal}
    (h : refundDeposits e { w with g := delP w.g p.id } p.id = .ok w') : Grow w w' :=
  Grow.of_quiet (drop_settled h).back (by rw [refund_nextId h]; rfl)

theorem processActive_nextId {e : Env} {w w' : World} {p : Proposal} (h : processActive e w p = .ok w') :
    w'.g.nextId = w.g.nextId := by
  unfold processActive at h
  split at h
  · generalize securityTally w.g w.c p = st at h
    obtain ⟨pass, endVoting, t⟩ := st
    dsimp only at h
    split at h
    · injection h with h; subst h
      show (activateVotingPeriod e _ p).nextId = _
      unfold activateVotingPeriod
      rw [setP_nextId]
    · split at h; · cases h
      rename_i w1 hw1
      injection h with h; subst h
      rw [finish_nextId, refund_nextId hw1]
  · have hnx : (stakeTally e w.g p 0).2.2.2.nextId = w.g.nextId := by unfold stakeTally; rfl
    generalize stakeTally e w.g p 0 = st at h hnx
    obtain ⟨pass, veto, t, g1⟩ := st
    dsimp only at h hnx
    split at h
    · split at h; · cases h
      rename_i w2 hw2
      injection h with h; subst h
      rw [finish_nextId, burn_nextId hw2]; exact hnx
    · split at h; · cases h
      rename_i w2 hw2
      injection h with h; subst h
      rw [finish_nextId, refund_nextId hw2]; exact hnx

theorem processActive_continue_eq {e : Env} {w w' : World} {p : Proposal} (h : processActive e w p = .ok w')
    (hs : p.status = 2) (hv : (securityTally w.g w.c p).2.1 = false) :
    w' = { w with g := activateVotingPeriod e { w.g with votes := w.g.votes.filter (fun v => !(v.pid == p.id)) } p } := by
  unfold processActive at h
  have hs' : (p.status == 2) = true := by simp [hs]
  rw [if_pos hs'] at h
  generalize securityTally w.g w.c p = st at h hv
  obtain ⟨pass, endVoting, t⟩ := st
  dsimp only at h hv
  subst hv
  simp only [Bool.not_false, if_true] at h
  injection h with h
  exact h.symm

theorem processActive_grow {e : Env} {w w' : World} {p : Proposal} (hf : findP w.g p.id = some p)
    (h : processActive e w p = .ok w') : Grow w w' := by
  by_cases hs : p.status = 2
  · cases hv : (securityTally w.g w.c p).2.1 with
    | false =>
      rw [processActive_continue_eq h hs hv]
      exact activate_quiet e w p _ rfl rfl hf (Or.inr (Or.inl hs))
    | true => exact Grow.of_quiet (processActive_certEnd h hs hv).back (processActive_nextId h)
  · exact Grow.of_quiet (processActive_stake h hs).back (processActive_nextId h)

theorem processSecurityVote_grow {e : Env} {w w' : World} {p : Proposal} (hf : findP w.g p.id = some p)
    (h : processSecurityVote e w p = .ok w') : Grow w w' := by
  unfold processSecurityVote at h
  split at h
  · injection h with h; subst h; exact Grow.refl _
  · rename_i hs
    have hs2 : p.status = 2 := by simpa using hs
    generalize securityTally w.g w.c p = st at h
    obtain ⟨pass, endVoting, t⟩ := st
    dsimp only at h
    cases pass with
    | false =>
      simp only [Bool.not_false, if_true] at h
      injection h with h; subst h; exact Grow.refl _
    | true =>
      simp only [Bool.not_true, Bool.false_eq_true, if_false] at h
      cases endVoting with
      | true =>
        simp only [if_true] at h
        have he : Gen.Gov.earlyPassRefunds = true := rfl
        simp only [he, if_true] at h
        split at h; · cases h
        rename_i w1 hw1
        injection h with h; subst h
        refine Grow.of_quiet (settled_refund_finish (e := e) (w := w) rfl rfl rfl hw1).back ?_
        rw [finish_nextId, refund_nextId hw1]
      | false =>
        simp only [Bool.false_eq_true, if_false] at h
        injection h with h; subst h
        exact activate_quiet e w p _ rfl rfl hf (Or.inr (Or.inl hs2))

theorem foldIds_grow (f : World → Proposal → Except Err World)
    (hf : ∀ w p w', findP w.g p.id = some p → f w p = .ok w' → Grow w w') :
    ∀ (ids : List Nat) (w w' : World), foldIds f ids w = .ok w' → Grow w w' := by
  intro ids
  induction ids with
  | nil => intro w w' h; unfold foldIds at h; injection h with h; subst h; exact Grow.refl _
  | cons i ids ih =>
    intro w w' h
    unfold foldIds at h
    cases hp : findP w.g i with
    | none => rw [hp] at h; exact ih w w' h
    | some p =>
      rw [hp] at h
      dsimp only at h
      cases hfp : f w p with
      | error x => rw [hfp] at h; cases h
      | ok w1 =>
        rw [hfp] at h
        dsimp only at h
        have hid := findP_id hp
        exact (hf w p w1 (by rw [hid]; exact hp) hfp).trans (ih w1 w' h)

theorem endBlock_grow {e : Env} {w w' : World} (h : endBlock e w = .ok w') : Grow w w' := by
  unfold endBlock at h
  dsimp only at h
  split at h; · cases h
  rename_i w1 hw1
  split at h; · cases h
  rename_i w2 hw2
  have a := foldIds_grow _ (fun w p w' _ hh => drop_grow hh) _ _ _ hw1
  have b := foldIds_grow _ (fun w p w' hf hh => processActive_grow hf hh) _ _ _ hw2
  have c := foldIds_grow _ (fun w p w' hf hh => processSecurityVote_grow hf hh) _ _ _ h
  exact a.trans (b.trans c)

/-! ## the messages -/

theorem addDeposit_live {e : Env} {w w' : World} {pid : Nat} {a : Addr} {amt : Coins}
    (h : addDeposit e w pid a amt = .ok w') : Live w.g pid := by
  obtain ⟨p, hp, hs, _⟩ := (Shentu.Props.C11.deposit_escrows _ _ _ _ _ _ h).2.2
  exact ⟨p, hp, Or.inl hs⟩

theorem addDeposit_grow {e : Env} {w w' : World} {pid : Nat} {a : Addr} {amt : Coins}
    (h : addDeposit e w pid a amt = .ok w') : Grow w w' := by
  obtain ⟨g2, _, _, _, hoth, hnx, _, hw'⟩ := addDeposit_shape h
  have hlive := addDeposit_live h
  rw [hw']
  apply Grow.of_quiet
  · intro id hl
    by_cases hid : id = pid
    · subst hid; exact hlive
    · obtain ⟨q, hq, hqs⟩ := hl
      have hq' : findP g2 id = some q := hq
      rw [hoth id hid] at hq'
      exact ⟨q, hq', hqs⟩
  · exact hnx

theorem submit_grow {e : Env} {w w' : World} {pr : Addr} {p0 : Proposal} {dep : Coins}
    (h : submit e w pr p0 dep = .ok w') : Grow w w' := by
  rcases submit_shape h with ⟨_, _, hn, hoth⟩ | ⟨_, g1, _, _, hn, hoth, hadd⟩
  · refine ⟨?_, by rw [hn]; exact Nat.le_succ _⟩
    intro id hl
    by_cases hid : id = w.g.nextId
    · exact Or.inr (by rw [hid]; exact Nat.le_refl _)
    · obtain ⟨q, hq, hqs⟩ := hl
      rw [hoth id hid] at hq
      exact Or.inl ⟨q, hq, hqs⟩
  · have g := addDeposit_grow hadd
    refine ⟨?_, ?_⟩
    · intro id hl
      by_cases hid : id = w.g.nextId
      · exact Or.inr (by rw [hid]; exact Nat.le_refl _)
      · rcases g.back id hl with ⟨q, hq, hqs⟩ | h1
        · have hq' : findP g1 id = some q := hq
          rw [hoth id hid] at hq'
          exact Or.inl ⟨q, hq', hqs⟩
        · have h1' : g1.nextId ≤ id := h1
          rw [hn] at h1'
          exact Or.inr (Nat.le_of_succ_le h1')
    · have := g.next
      have h2 : g1.nextId ≤ w'.g.nextId := this
      rw [hn] at h2
      exact Nat.le_of_succ_le h2

theorem vote_grow {w w' : World} {pid : Nat} {v : Addr} {o : Nat} (h : vote w pid v o = .ok w') : Grow w w' := by
  unfold vote at h
  ok_cases h
  cases h
  exact Grow.of_quiet (fun _ hl => hl) rfl

/-- **every step: a proposal only becomes live by being submitted under a fresh identifier** -/
theorem stepW_grow (m : Addr) (w : World) (op : Op) : Grow w (stepW m w op) := by
  cases op with
  | submit x pr p0 dep =>
    simp only [stepW]
    split; · exact Grow.refl _
    split
    · rename_i w' hw'; exact submit_grow hw'
    · exact Grow.refl _
  | deposit x pid a amt =>
    simp only [stepW]
    split; · exact Grow.refl _
    split
    · rename_i w' hw'; exact addDeposit_grow hw'
    · exact Grow.refl _
  | vote pid v o =>
    simp only [stepW]
    split
    · rename_i w' hw'; exact vote_grow hw'
    · exact Grow.refl _
  | endBlock x =>
    simp only [stepW]
    split
    · rename_i w' hw'; exact endBlock_grow hw'
    · exact Grow.refl _
  | transfer s d amt =>
    simp only [stepW]
    split; · exact Grow.refl _
    split
    · exact Grow.of_quiet (fun _ hl => hl) rfl
    · exact Grow.refl _

theorem runW_grow (m : Addr) (ops : List Op) : ∀ w, Grow w (runW m w ops) := by
  induction ops with
  | nil => intro w; exact Grow.refl _
  | cons op ops ih => intro w; exact (stepW_grow m w op).trans (ih _)

/-! ## the deposit log of an ended proposal is frozen -/

theorem depLog_ended (m : Addr) (w : World) (op : Op) (pid : Nat) (h : Ended w.g pid) (a : Addr) (d : Denom) :
    depTot (depLog m w op) pid a d = 0 := by
  cases op with
  | submit x pr p0 dep =>
    simp only [depLog]
    split; · rfl
    split
    · split
      · rfl
      · rw [depTot_single]
        have : (w.g.nextId == pid) = false := by
          have := h.1
          simp only [beq_eq_false_iff_ne, ne_eq]; omega
        simp [this]
    · rfl
  | deposit x pid' a' amt =>
    simp only [depLog]
    split; · rfl
    split
    · rename_i w' hw'
      rw [depTot_single]
      have : (pid' == pid) = false := by
        simp only [beq_eq_false_iff_ne, ne_eq]
        intro he; subst he
        exact h.2 (addDeposit_live hw')
      simp [this]
    · rfl
  | vote pid' v o => rfl
  | endBlock x => rfl
  | transfer s dd amt => rfl

theorem runG_deps_frozen (m : Addr) (pid : Nat) (a : Addr) (d : Denom) (ops : List Op) :
    ∀ g : G, Ended g.w.g pid → depTot (runG m g ops).deps pid a d = depTot g.deps pid a d := by
  induction ops with
  | nil => intro g _; rfl
  | cons op ops ih =>
    intro g h
    have h' : Ended (stepG m g op).w.g pid := (stepW_grow m g.w op).ended h
    show depTot (runG m (stepG m g op) ops).deps pid a d = _
    rw [ih _ h']
    show depTot (g.deps ++ depLog m g.w op) pid a d = _
    rw [depTot_append, depLog_ended m g.w op pid h]; omega

theorem runG_append (m : Addr) (g : G) (ops1 ops2 : List Op) :
    runG m g (ops1 ++ ops2) = runG m (runG m g ops1) ops2 := by
  unfold runG; rw [List.foldl_append]

end Shentu.C11H
