import Shentu.Proofs.ShieldPoolStores
/-
  `PoolInv`: the shield / pool / purchase / stake half of C03 (`BooksInv`) together with the
  well-formedness of the stores that the model maintains and that the sums depend on,
  and the abstract transitions (`ShieldInv.step`, `StakeInv.upsert`, …) every operation is an instance of.
-/
namespace Shentu.Shield.PoolLm

/-! ## the invariant -/

/-- pools, purchase lists, `totalShield` -/
structure ShieldInv (s : State) : Prop where
  /-- total shield = Σ pools -/
  shield : s.totalShield = sumI (·.shield) s.pools
  /-- a pool's shield = Σ of its purchases' remaining shield -/
  poolShield : ∀ p ∈ s.pools, p.shield = sumI (·.shield) (entriesOf s p.id)
  /-- every purchase list belongs to an existing pool (stronger than `BooksInv.listPool`) -/
  listPool : ∀ l ∈ s.lists, ∃ p ∈ s.pools, p.id = l.pool
  entryNonneg : ∀ l ∈ s.lists, ∀ e ∈ l.entries, 0 ≤ e.shield ∧ 0 ≤ e.fees.raw
  /-- pool ids are pairwise distinct … -/
  poolIds : s.pools.Pairwise (fun a b => a.id ≠ b.id)
  /-- … and below the next id to be issued -/
  poolIdLt : ∀ p ∈ s.pools, p.id < s.nextPool
  /-- one purchase list per (pool, purchaser) -/
  listKeys : s.lists.Pairwise (fun a b => ¬(a.pool = b.pool ∧ a.purchaser = b.purchaser))
  /-- purchase ids are distinct inside a list … -/
  entryIds : ∀ l ∈ s.lists, (l.entries.map (·.id)).Nodup
  /-- … and across lists … -/
  crossIds : s.lists.Pairwise (fun a b => ∀ x ∈ a.entries, ∀ y ∈ b.entries, x.id ≠ y.id)
  /-- … and below the next id to be issued -/
  purchaseIdLt : ∀ l ∈ s.lists, ∀ e ∈ l.entries, e.id < s.nextPurchase

/-- stakes and the global staking pool -/
structure StakeInv (s : State) : Prop where
  stake : s.stakingPool = sumStakes s
  stakeNonneg : ∀ k ∈ s.stakes, 0 ≤ k.amount
  /-- one stake record per (pool, purchaser) -/
  stakeKeys : s.stakes.Pairwise (fun a b => ¬(a.pool = b.pool ∧ a.purchaser = b.purchaser))

/-- the shield / pool / purchase / stake half of C03 with the store well-formedness it rests on -/
structure PoolInv (s : State) : Prop extends ShieldInv s, StakeInv s

/-! ## sums over the purchases of a pool -/

/-- the contribution of one purchase list to pool `pid` -/
def poolPart (pid : Nat) (l : PList) : Int := if l.pool == pid then sumI (·.shield) l.entries else 0

theorem sumI_entries_lists (L : List PList) (pid : Nat) :
    sumI (·.shield) ((L.filter (·.pool == pid)).flatMap (·.entries)) = sumI (poolPart pid) L := by
  induction L with
  | nil => rfl
  | cons l L ih =>
    rw [List.filter_cons]
    cases hq : l.pool == pid with
    | true => simp only [if_true, List.flatMap_cons, sumI_append, sumI_cons, poolPart, hq, ih]
    | false => simp only [Bool.false_eq_true, if_false, sumI_cons, poolPart, hq, ih]; omega

theorem sumI_entriesOf (s : State) (pid : Nat) : sumI (·.shield) (entriesOf s pid) = sumI (poolPart pid) s.lists :=
  sumI_entries_lists s.lists pid

theorem mem_entriesOf {s : State} {pid : Nat} {e : Purchase} (h : e ∈ entriesOf s pid) :
    ∃ l ∈ s.lists, l.pool = pid ∧ e ∈ l.entries := by
  unfold entriesOf at h
  rcases List.mem_flatMap.mp h with ⟨l, hl, he⟩
  rcases List.mem_filter.mp hl with ⟨hl1, hl2⟩
  exact ⟨l, hl1, beq_iff_eq.mp hl2, he⟩

/-! ## derived clauses -/

theorem ShieldInv.poolNonneg {s : State} (h : ShieldInv s) : ∀ p ∈ s.pools, 0 ≤ p.shield := by
  intro p hp
  rw [h.poolShield p hp]
  apply sumI_nonneg
  intro e he
  rcases mem_entriesOf he with ⟨l, hl, _, hel⟩
  exact (h.entryNonneg l hl e hel).1

theorem ShieldInv.totalNonneg {s : State} (h : ShieldInv s) : 0 ≤ s.totalShield := by
  rw [h.shield]; exact sumI_nonneg _ _ h.poolNonneg

theorem StakeInv.poolNonneg {s : State} (h : StakeInv s) : 0 ≤ s.stakingPool := by
  rw [h.stake]; exact sumI_nonneg _ _ h.stakeNonneg

theorem ShieldInv.listAtMostOne {s : State} (h : ShieldInv s) (pid : Nat) (a : Addr) :
    AtMostOne (fun x : PList => x.pool == pid && x.purchaser == a) s.lists := by
  apply List.Pairwise.imp _ h.listKeys
  intro x y hxy hq
  simp only [Bool.and_eq_true, beq_iff_eq] at hq
  exact hxy ⟨hq.1.1.trans hq.2.1.symm, hq.1.2.trans hq.2.2.symm⟩

theorem ShieldInv.poolAtMostOne {s : State} (h : ShieldInv s) (pid : Nat) :
    AtMostOne (fun x : Pool => x.id == pid) s.pools := by
  apply List.Pairwise.imp _ h.poolIds
  intro x y hxy hq
  simp only [beq_iff_eq] at hq
  exact hxy (hq.1.trans hq.2.symm)

theorem StakeInv.atMostOne {s : State} (h : StakeInv s) (pid : Nat) (a : Addr) :
    AtMostOne (fun x : Stake => x.pool == pid && x.purchaser == a) s.stakes := by
  apply List.Pairwise.imp _ h.stakeKeys
  intro x y hxy hq
  simp only [Bool.and_eq_true, beq_iff_eq] at hq
  exact hxy ⟨hq.1.1.trans hq.2.1.symm, hq.1.2.trans hq.2.2.symm⟩

/-- all purchase ids of the state are pairwise distinct -/
theorem ShieldInv.purchaseIds_nodup {s : State} (h : ShieldInv s) :
    (s.lists.flatMap (fun l => l.entries.map (·.id))).Nodup := by
  rw [List.nodup_iff_pairwise_ne]
  apply List.pairwise_flatMap.mpr
  refine ⟨fun l hl => List.nodup_iff_pairwise_ne.mp (h.entryIds l hl), ?_⟩
  apply List.Pairwise.imp _ h.crossIds
  intro a b hab x hx y hy
  rcases List.mem_map.mp hx with ⟨x0, hx0, rfl⟩
  rcases List.mem_map.mp hy with ⟨y0, hy0, rfl⟩
  exact hab x0 hx0 y0 hy0

/-! ## frame: the invariant only reads these fields -/

theorem ShieldInv.congr {s s' : State} (h : ShieldInv s) (hp : s'.pools = s.pools) (hl : s'.lists = s.lists)
    (ht : s'.totalShield = s.totalShield) (hn : s'.nextPool = s.nextPool) (hq : s'.nextPurchase = s.nextPurchase) :
    ShieldInv s' := by
  have he : ∀ pid, entriesOf s' pid = entriesOf s pid := by intro pid; unfold entriesOf; rw [hl]
  constructor
  · rw [ht, hp]; exact h.shield
  · rw [hp]; intro p hp'; rw [he]; exact h.poolShield p hp'
  · rw [hp, hl]; exact h.listPool
  · rw [hl]; exact h.entryNonneg
  · rw [hp]; exact h.poolIds
  · rw [hp, hn]; exact h.poolIdLt
  · rw [hl]; exact h.listKeys
  · rw [hl]; exact h.entryIds
  · rw [hl]; exact h.crossIds
  · rw [hl, hq]; exact h.purchaseIdLt

theorem StakeInv.congr {s s' : State} (h : StakeInv s) (hk : s'.stakes = s.stakes) (hp : s'.stakingPool = s.stakingPool) :
    StakeInv s' := by
  constructor
  · rw [hp]; unfold sumStakes; rw [hk]; exact h.stake
  · rw [hk]; exact h.stakeNonneg
  · rw [hk]; exact h.stakeKeys

/-! ## the abstract transition of the shield books -/

/-- what a step does to the pools: same ids in the same order, pool `pid` moves by `d` -/
structure PoolsStep (s s' : State) (pid : Nat) (d : Int) : Prop where
  ids : s'.pools.map (·.id) = s.pools.map (·.id)
  sum : sumI (·.shield) s'.pools = sumI (·.shield) s.pools + d
  each : ∀ p' ∈ s'.pools, ∃ p ∈ s.pools, p.id = p'.id ∧ p'.shield = p.shield + (if p'.id = pid then d else 0)

/-- what a step does to the purchase lists: the purchases of pool `pid` move by `d` in total -/
structure ListsStep (s s' : State) (pid : Nat) (d : Int) : Prop where
  sum : ∀ p, sumI (·.shield) (entriesOf s' p) = sumI (·.shield) (entriesOf s p) + (if p = pid then d else 0)
  each : ∀ l' ∈ s'.lists, (∃ p ∈ s.pools, p.id = l'.pool) ∧
    (∀ e ∈ l'.entries, 0 ≤ e.shield ∧ 0 ≤ e.fees.raw ∧ e.id < s'.nextPurchase) ∧ (l'.entries.map (·.id)).Nodup
  keys : s'.lists.Pairwise (fun a b => ¬(a.pool = b.pool ∧ a.purchaser = b.purchaser))
  cross : s'.lists.Pairwise (fun a b => ∀ x ∈ a.entries, ∀ y ∈ b.entries, x.id ≠ y.id)

theorem ShieldInv.step {s s' : State} (h : ShieldInv s) {pid : Nat} {d : Int}
    (hP : PoolsStep s s' pid d) (hL : ListsStep s s' pid d)
    (hT : s'.totalShield = s.totalShield + d) (hN : s'.nextPool = s.nextPool) : ShieldInv s' := by
  have hmem : ∀ p' ∈ s'.pools, ∃ p ∈ s.pools, p.id = p'.id := by
    intro p' hp'
    rcases hP.each p' hp' with ⟨p, hp, hid, _⟩
    exact ⟨p, hp, hid⟩
  have hmem' : ∀ p ∈ s.pools, ∃ p' ∈ s'.pools, p'.id = p.id := by
    intro p hp
    have : p.id ∈ s'.pools.map (·.id) := by rw [hP.ids]; exact List.mem_map.mpr ⟨p, hp, rfl⟩
    rcases List.mem_map.mp this with ⟨p', hp', hid⟩
    exact ⟨p', hp', hid⟩
  constructor
  · rw [hT, hP.sum, h.shield]
  · intro p' hp'
    rcases hP.each p' hp' with ⟨p, hp, hid, hsh⟩
    rw [hsh, hL.sum, h.poolShield p hp, hid]
  · intro l' hl'
    rcases (hL.each l' hl').1 with ⟨p, hp, hid⟩
    rcases hmem' p hp with ⟨p', hp', hid'⟩
    exact ⟨p', hp', hid'.trans hid⟩
  · intro l' hl' e he
    have := (hL.each l' hl').2.1 e he
    exact ⟨this.1, this.2.1⟩
  · have h1 : (s.pools.map (·.id)).Pairwise (· ≠ ·) := List.pairwise_map.mpr h.poolIds
    rw [← hP.ids] at h1
    exact List.pairwise_map.mp h1
  · intro p' hp'
    rcases hmem p' hp' with ⟨p, hp, hid⟩
    rw [hN, ← hid]; exact h.poolIdLt p hp
  · exact hL.keys
  · intro l' hl'; exact (hL.each l' hl').2.2
  · exact hL.cross
  · intro l' hl' e he; exact ((hL.each l' hl').2.1 e he).2.2

/-- the pools are untouched -/
theorem PoolsStep.same {s s' : State} (pid : Nat) (hp : s'.pools = s.pools) : PoolsStep s s' pid 0 := by
  constructor
  · rw [hp]
  · rw [hp]; omega
  · rw [hp]; intro p' hp'; exact ⟨p', hp', rfl, by split <;> omega⟩

/-- `setPool` with a record of the same id whose shield moved by `d` -/
theorem PoolsStep.replace {s s' : State} (h : ShieldInv s) {pid : Nat} {pool pool' : Pool} {d : Int}
    (hf : findPool s pid = some pool) (hid : pool'.id = pid) (hsh : pool'.shield = pool.shield + d)
    (hp : s'.pools = s.pools.map (fun x => if x.id == pool'.id then pool' else x)) : PoolsStep s s' pid d := by
  rw [hid] at hp
  constructor
  · rw [hp, List.map_map]
    apply List.map_congr_left
    intro x _
    simp only [Function.comp]
    split
    · rename_i hx; rw [hid]; exact (beq_iff_eq.mp hx).symm
    · rfl
  · rw [hp, sumI_map_replace (·.shield) (fun x : Pool => x.id == pid) pool' s.pools pool hf (h.poolAtMostOne pid), hsh]
    omega
  · rw [hp]
    intro p' hp'
    rcases mem_map_replace (fun x : Pool => x.id == pid) pool' s.pools p' hp' with h1 | ⟨h1, h2⟩
    · subst h1
      refine ⟨pool, findPool_mem hf, (findPool_id hf).trans hid.symm, ?_⟩
      rw [if_pos hid, hsh]
    · refine ⟨p', h1, rfl, ?_⟩
      have : ¬ p'.id = pid := by simpa using h2
      rw [if_neg this]; omega

/-- the lists are untouched -/
theorem ListsStep.same {s s' : State} (h : ShieldInv s) (pid : Nat) (hl : s'.lists = s.lists)
    (hq : s.nextPurchase ≤ s'.nextPurchase) : ListsStep s s' pid 0 := by
  have he : ∀ p, entriesOf s' p = entriesOf s p := by intro p; unfold entriesOf; rw [hl]
  constructor
  · intro p; rw [he]; split <;> omega
  · rw [hl]
    intro l hl'
    refine ⟨h.listPool l hl', ?_, h.entryIds l hl'⟩
    intro e he
    have := h.entryNonneg l hl' e he
    have := h.purchaseIdLt l hl' e he
    omega
  · rw [hl]; exact h.listKeys
  · rw [hl]; exact h.crossIds

/-- `setList` on an existing list: the entries of (pool, purchaser) are replaced -/
theorem ListsStep.replace {s s' : State} (h : ShieldInv s) {lst lst' : PList} {d : Int}
    (hf : findList s lst'.pool lst'.purchaser = some lst)
    (hl : s'.lists = s.lists.map (fun x => if x.pool == lst'.pool && x.purchaser == lst'.purchaser then lst' else x))
    (hsum : sumI (·.shield) lst'.entries = sumI (·.shield) lst.entries + d)
    (hnn : ∀ e ∈ lst'.entries, 0 ≤ e.shield ∧ 0 ≤ e.fees.raw)
    (hids : (lst'.entries.map (·.id)).Nodup)
    (hfrom : ∀ e ∈ lst'.entries, e.id ∈ lst.entries.map (·.id) ∨ s.nextPurchase ≤ e.id)
    (hlt : ∀ e ∈ lst'.entries, e.id < s'.nextPurchase)
    (hq : s.nextPurchase ≤ s'.nextPurchase) : ListsStep s s' lst'.pool d := by
  have hkey := findList_key hf
  have hmem := findList_mem hf
  have hamo := h.listAtMostOne lst'.pool lst'.purchaser
  have hqlst : (lst.pool == lst'.pool && lst.purchaser == lst'.purchaser) = true := by simp [hkey.1, hkey.2]
  constructor
  · intro p
    rw [sumI_entriesOf, sumI_entriesOf, hl,
      sumI_map_replace (poolPart p) (fun x : PList => x.pool == lst'.pool && x.purchaser == lst'.purchaser) lst' s.lists lst hf hamo]
    unfold poolPart
    rw [hkey.1]
    by_cases hp : p = lst'.pool
    · subst hp; simp only [beq_self_eq_true, if_true]; omega
    · have : (lst'.pool == p) = false := by simpa using fun h => hp h.symm
      simp only [this, Bool.false_eq_true, if_false, if_neg hp]; omega
  · rw [hl]
    intro l' hl'
    rcases mem_map_replace _ lst' s.lists l' hl' with h1 | ⟨h1, _⟩
    · subst h1
      refine ⟨?_, ?_, hids⟩
      · rcases h.listPool lst hmem with ⟨p, hp, hid⟩
        exact ⟨p, hp, hid.trans hkey.1⟩
      · intro e he
        have := hnn e he
        exact ⟨this.1, this.2, hlt e he⟩
    · refine ⟨h.listPool l' h1, ?_, h.entryIds l' h1⟩
      intro e he
      have := h.entryNonneg l' h1 e he
      have := h.purchaseIdLt l' h1 e he
      omega
  · rw [hl]
    apply pairwise_map_replace _ _ lst' s.lists h.listKeys hamo
    intro b _ hb
    have hb' : ¬(b.pool = lst'.pool ∧ b.purchaser = lst'.purchaser) := by simpa using hb
    exact ⟨fun hc => hb' ⟨hc.1.symm, hc.2.symm⟩, hb'⟩
  · rw [hl]
    apply pairwise_map_replace _ _ lst' s.lists h.crossIds hamo
    intro b hbm hb
    have hne : lst ≠ b := by
      intro hc; subst hc
      rw [hb] at hqlst; cases hqlst
    have hcr := pairwise_of_mem_ne (fun a b : PList => ∀ x ∈ a.entries, ∀ y ∈ b.entries, x.id ≠ y.id)
      (fun a b hab x hx y hy hxy => hab y hy x hx hxy.symm) s.lists h.crossIds lst hmem b hbm hne
    have key : ∀ x ∈ lst'.entries, ∀ y ∈ b.entries, x.id ≠ y.id := by
      intro x hx y hy
      rcases hfrom x hx with h1 | h1
      · rcases List.mem_map.mp h1 with ⟨x0, hx0, hid⟩
        rw [← hid]; exact hcr x0 hx0 y hy
      · have := h.purchaseIdLt b hbm y hy
        omega
    exact ⟨key, fun y hy x hx hxy => key x hx y hy hxy.symm⟩

/-- `setList` for a (pool, purchaser) without a list: a new list is appended -/
theorem ListsStep.append {s s' : State} (h : ShieldInv s) {lst' : PList}
    (hf : findList s lst'.pool lst'.purchaser = none)
    (hpool : ∃ p ∈ s.pools, p.id = lst'.pool)
    (hl : s'.lists = s.lists ++ [lst'])
    (hnn : ∀ e ∈ lst'.entries, 0 ≤ e.shield ∧ 0 ≤ e.fees.raw)
    (hids : (lst'.entries.map (·.id)).Nodup)
    (hfresh : ∀ e ∈ lst'.entries, s.nextPurchase ≤ e.id)
    (hlt : ∀ e ∈ lst'.entries, e.id < s'.nextPurchase)
    (hq : s.nextPurchase ≤ s'.nextPurchase) : ListsStep s s' lst'.pool (sumI (·.shield) lst'.entries) := by
  have hn := List.find?_eq_none.mp hf
  constructor
  · intro p
    rw [sumI_entriesOf, sumI_entriesOf, hl, sumI_append, sumI_cons, sumI_nil]
    unfold poolPart
    by_cases hp : p = lst'.pool
    · subst hp; simp only [beq_self_eq_true, if_true]; omega
    · have : (lst'.pool == p) = false := by simpa using fun h => hp h.symm
      simp only [this, Bool.false_eq_true, if_false, if_neg hp]; omega
  · rw [hl]
    intro l' hl'
    rcases List.mem_append.mp hl' with h1 | h1
    · refine ⟨h.listPool l' h1, ?_, h.entryIds l' h1⟩
      intro e he
      have := h.entryNonneg l' h1 e he
      have := h.purchaseIdLt l' h1 e he
      omega
    · have : l' = lst' := by simpa using h1
      subst this
      refine ⟨hpool, ?_, hids⟩
      intro e he
      have := hnn e he
      exact ⟨this.1, this.2, hlt e he⟩
  · rw [hl]
    apply List.pairwise_append.mpr
    refine ⟨h.listKeys, List.pairwise_singleton _ _, ?_⟩
    intro a ha b hb hc
    have : b = lst' := by simpa using hb
    subst this
    apply hn a ha
    simp only [Bool.and_eq_true, beq_iff_eq]; exact hc
  · rw [hl]
    apply List.pairwise_append.mpr
    refine ⟨h.crossIds, List.pairwise_singleton _ _, ?_⟩
    intro a ha b hb x hx y hy
    have : b = lst' := by simpa using hb
    subst this
    have := h.purchaseIdLt a ha x hx
    have := hfresh y hy
    omega

/-- `deleteList`: the list of (pool, purchaser) goes away with all its entries -/
theorem ListsStep.delete {s s' : State} (h : ShieldInv s) {pid : Nat} {a : Addr} {lst : PList}
    (hf : findList s pid a = some lst)
    (hl : s'.lists = s.lists.filter (fun x => !(x.pool == pid && x.purchaser == a)))
    (hq : s.nextPurchase ≤ s'.nextPurchase) : ListsStep s s' pid (- sumI (·.shield) lst.entries) := by
  have hkey := findList_key hf
  constructor
  · intro p
    rw [sumI_entriesOf, sumI_entriesOf, hl,
      sumI_filter_not (poolPart p) (fun x : PList => x.pool == pid && x.purchaser == a) s.lists lst hf (h.listAtMostOne pid a)]
    unfold poolPart
    rw [hkey.1]
    by_cases hp : p = pid
    · subst hp; simp only [beq_self_eq_true, if_true]; omega
    · have : (pid == p) = false := by simpa using fun h => hp h.symm
      simp only [this, Bool.false_eq_true, if_false, if_neg hp]; omega
  · rw [hl]
    intro l' hl'
    have h1 := (List.mem_filter.mp hl').1
    refine ⟨h.listPool l' h1, ?_, h.entryIds l' h1⟩
    intro e he
    have := h.entryNonneg l' h1 e he
    have := h.purchaseIdLt l' h1 e he
    omega
  · rw [hl]; exact h.listKeys.filter _
  · rw [hl]; exact h.crossIds.filter _

/-! ## pool metadata, new pools, closed pools -/

/-- `setPool` with a record that has the id and the shield of the stored one (limit, active, sponsor may differ) -/
theorem ShieldInv.setPool_meta {s : State} (h : ShieldInv s) {pid : Nat} {pool pool' : Pool}
    (hf : findPool s pid = some pool) (hid : pool'.id = pool.id) (hsh : pool'.shield = pool.shield) :
    ShieldInv (setPool s pool') := by
  have hid' : pool'.id = pid := hid.trans (findPool_id hf)
  apply h.step (PoolsStep.replace h hf hid' (by rw [hsh]; omega) (setPool_pools s pool'))
    (ListsStep.same h pid rfl (Nat.le_refl _))
  · show s.totalShield = s.totalShield + 0; omega
  · rfl

/-- `MsgCreatePool`'s first half: a pool with the next id and no shield -/
theorem ShieldInv.newPool {s s' : State} (h : ShieldInv s) {np : Pool}
    (hid : np.id = s.nextPool) (hsh : np.shield = 0)
    (hp : s'.pools = s.pools ++ [np]) (hn : s'.nextPool = s.nextPool + 1)
    (hl : s'.lists = s.lists) (ht : s'.totalShield = s.totalShield) (hq : s'.nextPurchase = s.nextPurchase) :
    ShieldInv s' := by
  have he : ∀ pid, entriesOf s' pid = entriesOf s pid := by intro pid; unfold entriesOf; rw [hl]
  have hnone : ∀ l ∈ s.lists, l.pool ≠ np.id := by
    intro l hl' hc
    rcases h.listPool l hl' with ⟨p, hp', hpid⟩
    have := h.poolIdLt p hp'
    omega
  constructor
  · rw [ht, hp, sumI_append, sumI_cons, sumI_nil, hsh, h.shield]; omega
  · rw [hp]
    intro p hp'
    rw [he]
    rcases List.mem_append.mp hp' with h1 | h1
    · exact h.poolShield p h1
    · have : p = np := by simpa using h1
      subst this
      rw [hsh, sumI_entriesOf]
      symm; apply sumI_zero
      intro l hl'
      unfold poolPart
      have : (l.pool == p.id) = false := by simpa using hnone l hl'
      simp only [this, Bool.false_eq_true, if_false]
  · rw [hl, hp]
    intro l hl'
    rcases h.listPool l hl' with ⟨p, hp', hpid⟩
    exact ⟨p, List.mem_append_left _ hp', hpid⟩
  · rw [hl]; exact h.entryNonneg
  · rw [hp]
    apply List.pairwise_append.mpr
    refine ⟨h.poolIds, List.pairwise_singleton _ _, ?_⟩
    intro a ha b hb
    have : b = np := by simpa using hb
    subst this
    have := h.poolIdLt a ha
    omega
  · rw [hp, hn]
    intro p hp'
    rcases List.mem_append.mp hp' with h1 | h1
    · have := h.poolIdLt p h1; omega
    · have : p = np := by simpa using h1
      subst this; omega
  · rw [hl]; exact h.listKeys
  · rw [hl]; exact h.entryIds
  · rw [hl]; exact h.crossIds
  · rw [hl, hq]; exact h.purchaseIdLt

/-- `ClosePools`: only pools without shield and without purchase lists are dropped -/
theorem ShieldInv.closePools {s : State} (h : ShieldInv s) : ShieldInv (Shield.closePools s) := by
  have he : ∀ pid, entriesOf (Shield.closePools s) pid = entriesOf s pid := fun _ => rfl
  constructor
  · show s.totalShield = sumI (·.shield) (s.pools.filter _)
    rw [sumI_filter_of_zero, h.shield]
    intro p hp hdrop
    simp only [Bool.or_eq_false_iff, decide_eq_false_iff_not] at hdrop
    have := h.poolNonneg p hp
    omega
  · intro p hp
    rw [he]; exact h.poolShield p (List.mem_filter.mp hp).1
  · intro l hl
    rcases h.listPool l hl with ⟨p, hp, hpid⟩
    refine ⟨p, ?_, hpid⟩
    apply List.mem_filter.mpr
    refine ⟨hp, ?_⟩
    simp only [Bool.or_eq_true]
    right
    exact List.any_eq_true.mpr ⟨l, hl, by simpa using hpid.symm⟩
  · exact h.entryNonneg
  · exact h.poolIds.filter _
  · intro p hp; exact h.poolIdLt p (List.mem_filter.mp hp).1
  · exact h.listKeys
  · exact h.entryIds
  · exact h.crossIds
  · exact h.purchaseIdLt

/-! ## stakes -/

/-- `setStake` of a record whose amount is the stored amount (or 0 when there is none) plus `d` -/
theorem StakeInv.upsert {s s' : State} (h : StakeInv s) {k : Stake} {d : Int}
    (hamt : k.amount = (match findStake s k.pool k.purchaser with | some k0 => k0.amount | none => 0) + d)
    (hnn : 0 ≤ k.amount)
    (hk : s'.stakes = (setStake s k).stakes) (hp : s'.stakingPool = s.stakingPool + d) : StakeInv s' := by
  cases hf : findStake s k.pool k.purchaser with
  | none =>
    rw [hf] at hamt
    simp only at hamt
    rw [setStake_stakes_none s k hf] at hk
    have hn := List.find?_eq_none.mp hf
    constructor
    · rw [hp, h.stake]; unfold sumStakes; rw [hk, sumI_append, sumI_cons, sumI_nil]; omega
    · rw [hk]
      intro x hx
      rcases List.mem_append.mp hx with h1 | h1
      · exact h.stakeNonneg x h1
      · have : x = k := by simpa using h1
        subst this; exact hnn
    · rw [hk]
      apply List.pairwise_append.mpr
      refine ⟨h.stakeKeys, List.pairwise_singleton _ _, ?_⟩
      intro a ha b hb hc
      have : b = k := by simpa using hb
      subst this
      apply hn a ha
      simp only [Bool.and_eq_true, beq_iff_eq]; exact hc
  | some k0 =>
    rw [hf] at hamt
    simp only at hamt
    rw [setStake_stakes_some s k k0 hf] at hk
    have hamo := h.atMostOne k.pool k.purchaser
    constructor
    · rw [hp, h.stake]; unfold sumStakes
      rw [hk, sumI_map_replace (·.amount) (fun x : Stake => x.pool == k.pool && x.purchaser == k.purchaser) k s.stakes k0 hf hamo]
      omega
    · rw [hk]
      intro x hx
      rcases mem_map_replace _ k s.stakes x hx with h1 | ⟨h1, _⟩
      · subst h1; exact hnn
      · exact h.stakeNonneg x h1
    · rw [hk]
      apply pairwise_map_replace _ _ k s.stakes h.stakeKeys hamo
      intro b _ hb
      have hb' : ¬(b.pool = k.pool ∧ b.purchaser = k.purchaser) := by simpa using hb
      exact ⟨fun hc => hb' ⟨hc.1.symm, hc.2.symm⟩, hb'⟩

end Shentu.Shield.PoolLm
