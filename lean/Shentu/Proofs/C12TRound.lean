import Shentu.Proofs.C12TShares
import Mathlib.Tactic.Ring
import Mathlib.Tactic.Linarith
/-
  Rounding in the conversion of shares to voting power, `shares.Quo(validatorShares).MulInt(tokens)`
  (for `Shentu/Props/C12T.lean`).  `P` below is `Dec.prec` = 10^18.
-/
namespace Shentu.C12TH
open Shentu Shentu.Gov
set_option linter.unusedSimpArgs false
set_option linter.unusedVariables false

theorem prec_pos : (0 : Int) < Dec.prec := by decide

/-- half-even rounding of a non-negative value moves it by at most half a unit -/
theorem chopRound_bounds (z : Int) (hz : 0 ≤ z) :
    2 * z - Dec.prec ≤ 2 * (Dec.chopRound z * Dec.prec) ∧ 2 * (Dec.chopRound z * Dec.prec) ≤ 2 * z + Dec.prec := by
  unfold Dec.chopRound Dec.chopRoundNonneg
  rw [if_neg (by omega)]
  simp only [Int.tdiv_eq_ediv_of_nonneg hz, Int.tmod_eq_emod_of_nonneg hz, Dec.prec, Dec.half, beq_iff_eq]
  split_ifs <;> omega

/-- the quotient of `s` shares by `vs` shares, rounded to 18 digits: `q` with `|q − s·P/vs| ≤ 1/2 + 1/P` -/
theorem quo_bounds (s vs : Int) (hs : 0 ≤ s) (hvs : 0 < vs) :
    2 * ((Dec.quo ⟨s⟩ ⟨vs⟩).raw * vs) ≤ 2 * (s * Dec.prec) + vs ∧
    Dec.prec * (2 * (s * Dec.prec)) ≤ Dec.prec * (2 * ((Dec.quo ⟨s⟩ ⟨vs⟩).raw * vs)) + vs * (Dec.prec + 2) ∧
    0 ≤ (Dec.quo ⟨s⟩ ⟨vs⟩).raw := by
  have hP := prec_pos
  have hn : 0 ≤ s * Dec.prec * Dec.prec := by have := hP.le; positivity
  unfold Dec.quo
  simp only []
  rw [Int.tdiv_eq_ediv_of_nonneg hn]
  have hz0 : 0 ≤ s * Dec.prec * Dec.prec / vs := Int.ediv_nonneg hn hvs.le
  have hz1 : s * Dec.prec * Dec.prec / vs * vs ≤ s * Dec.prec * Dec.prec := Int.ediv_mul_le _ (by omega)
  have hz2 : s * Dec.prec * Dec.prec < (s * Dec.prec * Dec.prec / vs + 1) * vs := by
    have := Int.lt_ediv_add_one_mul_self (s * Dec.prec * Dec.prec) hvs
    linarith
  obtain ⟨hc1, hc2⟩ := chopRound_bounds _ hz0
  generalize Dec.chopRound _ = c at *
  generalize s * Dec.prec * Dec.prec / vs = z at *
  refine ⟨?_, ?_, ?_⟩
  · -- c·P ≤ z + P/2, z·vs ≤ s·P²  ⟹  P·(2·c·vs) ≤ P·(2·s·P + vs)
    have h1 : 2 * (c * Dec.prec) * vs ≤ (2 * z + Dec.prec) * vs := Int.mul_le_mul_of_nonneg_right hc2 hvs.le
    have h2 : Dec.prec * (2 * (c * vs)) ≤ Dec.prec * (2 * (s * Dec.prec) + vs) := by nlinarith
    exact Int.le_of_mul_le_mul_left h2 hP
  · have h1 : (2 * z - Dec.prec) * vs ≤ 2 * (c * Dec.prec) * vs := Int.mul_le_mul_of_nonneg_right hc1 hvs.le
    nlinarith
  · have : 0 ≤ 2 * (c * Dec.prec) + Dec.prec := by linarith
    by_contra hneg
    have hc : c ≤ -1 := by omega
    have : c * Dec.prec ≤ -1 * Dec.prec := Int.mul_le_mul_of_nonneg_right hc hP.le
    linarith

/-- **rounding of one piece**: the power (in units of 10⁻¹⁸ token) attributed to `s` shares of a validator with `vs`
    shares and `vt` tokens, against the exact `s·vt/vs` tokens (`= s·P·vt/vs` units): not above it by more than `vt/2`
    units, not below it by more than `vt·(1/2 + 1/P)` units -/
theorem pw_bounds (s vs : Dec) (vt : Int) (hs : 0 ≤ s.raw) (hvs : 0 < vs.raw) (hvt : 0 ≤ vt) :
    2 * ((pw s vs vt).raw * vs.raw) ≤ 2 * (s.raw * Dec.prec * vt) + vs.raw * vt ∧
    Dec.prec * (2 * (s.raw * Dec.prec * vt)) ≤ Dec.prec * (2 * ((pw s vs vt).raw * vs.raw)) + vs.raw * vt * (Dec.prec + 2) ∧
    0 ≤ (pw s vs vt).raw := by
  obtain ⟨s⟩ := s
  obtain ⟨vs⟩ := vs
  obtain ⟨h1, h2, h3⟩ := quo_bounds s vs hs hvs
  simp only [pw, Dec.mulInt] at *
  generalize (Dec.quo ⟨s⟩ ⟨vs⟩).raw = q at *
  refine ⟨?_, ?_, ?_⟩
  · have := Int.mul_le_mul_of_nonneg_right h1 hvt
    nlinarith
  · have := Int.mul_le_mul_of_nonneg_right h2 hvt
    nlinarith
  · positivity

/-- the sum of the powers of pieces of one validator whose shares add up to at most the validator's shares -/
theorem sum_pw_bound (vs : Dec) (vt : Int) (hvs : 0 < vs.raw) (hvt : 0 ≤ vt) (ss : List Dec)
    (hss : ∀ s ∈ ss, 0 ≤ s.raw) (hsum : sumOn ss (fun s => s.raw) ≤ vs.raw) :
    2 * sumOn ss (fun s => (pw s vs vt).raw) ≤ (2 * Dec.prec + ss.length) * vt := by
  have hP := prec_pos
  -- per piece, with q = quo s vs: 2·q·vs ≤ 2·s·P + vs
  have hq : 2 * (sumOn ss (fun s => (Dec.quo s vs).raw) * vs.raw) ≤ 2 * (sumOn ss (fun s => s.raw) * Dec.prec) + vs.raw * ss.length := by
    clear hsum
    induction ss with
    | nil => simp
    | cons s ss ih =>
      have ih' := ih (fun x hx => hss x (List.mem_cons_of_mem _ hx))
      have h1 := (quo_bounds s.raw vs.raw (hss s List.mem_cons_self) hvs).1
      simp only [sumOn_cons, List.length_cons, Int.natCast_add, Int.natCast_one]
      have e1 : (⟨s.raw⟩ : Dec) = s := rfl
      have e2 : (⟨vs.raw⟩ : Dec) = vs := rfl
      rw [e1, e2] at h1
      nlinarith
  have hq2 : vs.raw * (2 * sumOn ss (fun s => (Dec.quo s vs).raw)) ≤ vs.raw * (2 * Dec.prec + ss.length) := by
    have := Int.mul_le_mul_of_nonneg_right hsum hP.le
    nlinarith
  have hq3 : 2 * sumOn ss (fun s => (Dec.quo s vs).raw) ≤ 2 * Dec.prec + ss.length := Int.le_of_mul_le_mul_left hq2 hvs
  have hpw : sumOn ss (fun s => (pw s vs vt).raw) = sumOn ss (fun s => (Dec.quo s vs).raw) * vt := by
    have : (fun s : Dec => (pw s vs vt).raw) = (fun s => vt * (Dec.quo s vs).raw) := by
      funext s; simp only [pw, Dec.mulInt]; ring
    rw [this, sumOn_mul_left]; ring
  rw [hpw]
  have := Int.mul_le_mul_of_nonneg_right hq3 hvt
  nlinarith

end Shentu.C12TH
