import Shentu.Proofs.C20GOracleInv
import Shentu.Proofs.HaltOracleOps
import Shentu.Props.C15
/-
  Helper lemmas for `Shentu/Props/C15H.lean`, part 1: what every oracle operation does to the task stored under a key.

  Tasks are looked up by `findTask s key` with `key = contract ++ function`.  `TaskStep` lists the only five ways in which
  the value of that lookup can change in one successful operation.
-/
namespace Shentu.C15HH
open Shentu Shentu.Oracle
set_option linter.unusedSimpArgs false
set_option linter.unusedVariables false

/-! ### the lookup after a store update -/

theorem findTask_congr {s s' : State} (h : s'.tasks = s.tasks) (k : String) : findTask s' k = findTask s k := by
  simp [findTask, h]

theorem find_map_ne (k k' : String) (t : Task) (hne : k ≠ k') (ht : t.key = k) (l : List Task) :
    (l.map (fun x => if x.key == k then t else x)).find? (fun x => x.key == k') = l.find? (fun x => x.key == k') := by
  induction l with
  | nil => rfl
  | cons x xs ih =>
    simp only [List.map_cons, List.find?_cons, ih]
    by_cases hx : x.key == k
    · have hxk : x.key = k := by simpa using hx
      have h1 : (x.key == k') = false := by rw [hxk]; simpa using hne
      have h2 : (t.key == k') = false := by rw [ht]; simpa using hne
      simp [hx, h1, h2]
    · have hx' : (x.key == k) = false := by simpa using hx
      simp [hx']

theorem findTask_setTask (s : State) (t : Task) (k : String) :
    findTask (setTask s t) k = if t.key = k then some t else findTask s k := by
  by_cases hk : t.key = k
  · subst hk; simp only [if_true]; exact findTask_setTask_self s t
  · simp only [hk, if_false]
    unfold setTask
    split
    · exact find_map_ne t.key k t hk rfl s.tasks
    · simp only [findTask, List.find?_append]
      have : (t.key == k) = false := by simpa using hk
      simp [List.find?_cons, this]

theorem findTask_delTask (s : State) (k' k : String) :
    findTask (delTask s k') k = if k' = k then none else findTask s k := by
  by_cases hk : k' = k
  · subst hk; simp only [if_true]; exact Shentu.C20GOrcInv.findTask_delTask s k'
  · simp only [hk, if_false, findTask, delTask]
    induction s.tasks with
    | nil => rfl
    | cons x xs ih =>
      simp only [List.filter_cons]
      by_cases hx : x.key == k'
      · have hxk : x.key = k' := by simpa using hx
        have h1 : (x.key == k) = false := by rw [hxk]; simpa using hk
        simp [hx, h1, ih]
      · have hx' : (x.key == k') = false := by simpa using hx
        simp only [hx', Bool.not_false, if_true, List.find?_cons, ih]

theorem findTask_app_self (k : String) (f : Task → Task) (hf : ∀ x : Task, x.key = k → (f x).key = k)
    (incs : List (Addr × Coins)) (u : State) : findTask (app k f incs u) k = (findTask u k).map f := by
  simp only [findTask, app]
  induction u.tasks with
  | nil => rfl
  | cons x xs ih =>
    simp only [List.map_cons, List.find?_cons, ih]
    by_cases hx : x.key == k
    · have hxk : x.key = k := by simpa using hx
      have h2 : ((f x).key == k) = true := by rw [hf x hxk]; simp
      simp [hx, h2]
    · have hx' : (x.key == k) = false := by simpa using hx
      simp [hx']

theorem findTask_key {s : State} {k : String} {t : Task} (h : findTask s k = some t) : t.key = k :=
  (Shentu.C20GOrcInv.findTask_mem h).2

/-! ### a finished copy of a pending task -/

/-- what a response says: who, and which score -/
def rsig (r : Response) : Addr × Int := (r.op, r.score)

/-- `t'` is `t` after the end-blocker handled it: succeeded or failed, the same task data, the same responders and scores -/
structure Fin (t t' : Task) : Prop where
  status : t'.status = 2 ∨ t'.status = 3
  contract : t'.contract = t.contract
  function : t'.function = t.function
  begin : t'.begin = t.begin
  bounty : t'.bounty = t.bounty
  expiration : t'.expiration = t.expiration
  creator : t'.creator = t.creator
  closing : t'.closing = t.closing
  resp : t'.responses.map rsig = t.responses.map rsig

theorem Fin.not_pending {t t' : Task} (h : Fin t t') : t'.status ≠ 1 := by
  rcases h.status with h | h <;> omega

theorem aggFold_rsig (bond : Denom) (s : State) :
    ∀ (rs : List Response) (a a' : Agg), aggFold bond s rs a = .ok a' → a'.rs.map rsig = a.rs.map rsig ++ rs.map rsig := by
  intro rs
  induction rs with
  | nil => intro a a' h; unfold aggFold at h; cases h; simp
  | cons r rest ih =>
    intro a a' h
    unfold aggFold collateralAmount at h
    cases hf : findOp s r.op with
    | none => rw [hf] at h; rw [ih _ _ h]; simp [rsig]
    | some o => rw [hf] at h; rw [ih _ _ h]; simp [rsig]

theorem aggregateE_fin {bond : Denom} {s : State} {key : String} {t1 : Task} (h : aggregateE bond s key = .ok t1) :
    ∃ t, findTask s key = some t ∧ t.status = 1 ∧ Fin t t1 := by
  unfold aggregateE at h
  cases hf : findTask s key with
  | none => rw [hf] at h; cases h
  | some t =>
    rw [hf] at h
    dsimp only at h
    split at h; · cases h
    rename_i hp
    have hst : t.status = 1 := by
      unfold Gen.Oracle.aggPending at hp; bool_norm at hp; omega
    split at h; · cases h
    rename_i a ha
    have hr := aggFold_rsig bond s _ _ _ ha
    simp only [List.map_nil, List.nil_append] at hr
    refine ⟨t, rfl, hst, ?_⟩
    split at h
    · split at h
      · cases h
        refine ⟨Or.inl rfl, rfl, rfl, rfl, rfl, rfl, rfl, rfl, ?_⟩
        rw [← hr]
        simp only [List.map_map]
        apply List.map_congr_left
        intro r _
        simp only [Function.comp]
        split <;> rfl
      · cases h; exact ⟨Or.inl rfl, rfl, rfl, rfl, rfl, rfl, rfl, rfl, hr⟩
    · cases h; exact ⟨Or.inr rfl, rfl, rfl, rfl, rfl, rfl, rfl, rfl, hr⟩

theorem payCoinE_rsig (bond : Denom) (b : Nat) (dn : Denom) (amount tv : Int) (s : State) :
    ∀ (rs done : List Response) (incs : List (Addr × Coins)) (out : List Response),
      payCoinE bond b dn amount tv s rs done = .ok (incs, out) → out.map rsig = done.map rsig ++ rs.map rsig := by
  intro rs
  induction rs with
  | nil => intro done incs out h; unfold payCoinE at h; cases h; simp
  | cons r rest ih =>
    intro done incs out h
    unfold payCoinE at h
    split at h
    · split at h
      · cases h
      · rw [ih _ _ _ h]; simp [rsig]
      · dsimp only at h
        split at h; · cases h
        split at h
        · rw [ih _ _ _ h]; simp [rsig]
        · split at h; · cases h
          rename_i incs' d hrec
          cases h
          rw [ih _ _ _ hrec]; simp [rsig]
    · rw [ih _ _ _ h]; simp [rsig]

theorem payAllE_rsig (bond : Denom) (b : Nat) (tv : Int) (s : State) :
    ∀ (cs : List (Denom × Int)) (rs : List Response) (incs : List (Addr × Coins)) (out : List Response),
      payAllE bond b tv s cs rs = .ok (incs, out) → out.map rsig = rs.map rsig := by
  intro cs
  induction cs with
  | nil => intro rs incs out h; unfold payAllE at h; cases h; rfl
  | cons c cs ih =>
    intro rs incs out h
    unfold payAllE at h
    split at h; · cases h
    rename_i incs1 rs1 h1
    split at h; · cases h
    rename_i incs2 d h2
    cases h
    rw [ih _ _ _ h2, payCoinE_rsig _ _ _ _ _ _ _ _ _ _ h1]; simp

theorem distributeBountyE_fin {bond : Denom} {s : State} {t t2 : Task} {incs : List (Addr × Coins)}
    (h : distributeBountyE bond s t = .ok (incs, t2)) :
    t2.status = t.status ∧ t2.contract = t.contract ∧ t2.function = t.function ∧ t2.begin = t.begin ∧ t2.bounty = t.bounty ∧
    t2.expiration = t.expiration ∧ t2.creator = t.creator ∧ t2.closing = t.closing ∧ t2.responses.map rsig = t.responses.map rsig := by
  unfold distributeBountyE at h
  split at h; · cases h
  split at h; · cases h
  split at h; · cases h
  rename_i incs' rs hp
  cases h
  exact ⟨rfl, rfl, rfl, rfl, rfl, rfl, rfl, rfl, payAllE_rsig _ _ _ _ _ _ _ _ hp⟩

/-- the effect of handling one closing task: nothing, or a pending task becomes a finished one, with or without payment -/
theorem endOneE_cases {bond : Denom} {s : State} {key : String} {f : Task → Task} {incs : List (Addr × Coins)}
    (h : endOneE bond s key = .ok (f, incs)) :
    (f = id ∧ incs = []) ∨
    ∃ t t1, findTask s key = some t ∧ t.status = 1 ∧ aggregateE bond s key = .ok t1 ∧ Fin t t1 ∧
      ((f = (fun _ => t1) ∧ incs = []) ∨
       ∃ t2, distributeBountyE bond s t1 = .ok (incs, t2) ∧ f = (fun _ => t2) ∧ Fin t t2) := by
  unfold endOneE at h
  cases hagg : aggregateE bond s key with
  | error x =>
    rw [hagg] at h; dsimp only at h
    split at h
    · cases h
    · cases h; exact Or.inl ⟨rfl, rfl⟩
  | ok t1 =>
    rw [hagg] at h; dsimp only at h
    obtain ⟨t, hf, hst, hfin⟩ := aggregateE_fin hagg
    refine Or.inr ⟨t, t1, hf, hst, rfl, hfin, ?_⟩
    cases hd : distributeBountyE bond s t1 with
    | error x =>
      rw [hd] at h; dsimp only at h
      split at h
      · cases h
      · cases h; exact Or.inl ⟨rfl, rfl⟩
    | ok p =>
      obtain ⟨incs', t2⟩ := p
      rw [hd] at h; dsimp only at h
      cases h
      refine Or.inr ⟨t2, rfl, rfl, ?_⟩
      obtain ⟨h1, h2, h3, h4, h5, h6, h7, h8, h9⟩ := distributeBountyE_fin hd
      exact ⟨by rw [h1]; exact hfin.status, h2.trans hfin.contract, h3.trans hfin.function, h4.trans hfin.begin,
        h5.trans hfin.bounty, h6.trans hfin.expiration, h7.trans hfin.creator, h8.trans hfin.closing, h9.trans hfin.resp⟩

/-! ### the end-blocker, key by key -/

/-- the task under `k` is untouched, or (only if `P`) a pending task became its finished copy -/
def KStep (P : Prop) (s s' : State) (k : String) : Prop :=
  findTask s' k = findTask s k ∨
  (P ∧ ∃ t t', findTask s k = some t ∧ t.status = 1 ∧ findTask s' k = some t' ∧ Fin t t')

theorem KStep.mono {P Q : Prop} {s s' : State} {k : String} (hpq : P → Q) (h : KStep P s s' k) : KStep Q s s' k := by
  rcases h with h | ⟨hp, h⟩
  · exact Or.inl h
  · exact Or.inr ⟨hpq hp, h⟩

theorem KStep.trans {P : Prop} {s s1 s2 : State} {k : String} (h1 : KStep P s s1 k) (h2 : KStep P s1 s2 k) : KStep P s s2 k := by
  rcases h1 with h1 | ⟨hp, t, t', ht, hst, ht', hfin⟩
  · rcases h2 with h2 | ⟨hp, t, t', ht, hst, ht', hfin⟩
    · exact Or.inl (h2.trans h1)
    · exact Or.inr ⟨hp, t, t', by rw [← h1]; exact ht, hst, ht', hfin⟩
  · rcases h2 with h2 | ⟨_, u, u', hu, hust, _, _⟩
    · exact Or.inr ⟨hp, t, t', ht, hst, by rw [h2]; exact ht', hfin⟩
    · rw [ht'] at hu; cases hu
      exact absurd hust hfin.not_pending

theorem endOne_kstep {bond : Denom} {s s' : State} {id : String × String} (h : endOne bond s id = .ok s') (k : String) :
    KStep (k = id.1 ++ id.2) s s' k := by
  rw [endOne_eq bond id (Agree.refl _ s)] at h
  cases he : endOneE bond s (id.1 ++ id.2) with
  | error x => rw [he] at h; cases h
  | ok p =>
    obtain ⟨f, incs⟩ := p
    rw [he] at h; dsimp only at h
    cases h
    by_cases hk : k = id.1 ++ id.2
    · subst hk
      rw [KStep, findTask_app_self _ f (endOneE_key he)]
      rcases endOneE_cases he with ⟨hf, _⟩ | ⟨t, t1, hft, hst, _, hfin1, hc⟩
      · left; subst hf; cases findTask s (id.1 ++ id.2) <;> rfl
      · right
        rcases hc with ⟨hf, _⟩ | ⟨t2, _, hf, hfin2⟩
        · subst hf; exact ⟨rfl, t, t1, hft, hst, by rw [hft]; rfl, hfin1⟩
        · subst hf; exact ⟨rfl, t, t2, hft, hst, by rw [hft]; rfl, hfin2⟩
    · left
      exact findTask_app_ne (fun h' => hk h'.symm) (endOneE_key he) incs s

theorem endFold_kstep {bond : Denom} : ∀ (ids : List (String × String)) {s s' : State}, endFold bond ids s = .ok s' →
    ∀ k, KStep (k ∈ ids.map (fun i => i.1 ++ i.2)) s s' k
  | [], s, s', h, k => by unfold endFold at h; cases h; exact Or.inl rfl
  | id :: ids, s, s', h, k => by
    unfold endFold at h
    cases h1 : endOne bond s id with
    | error x => rw [h1] at h; cases h
    | ok s1 =>
      rw [h1] at h; dsimp only at h
      have a := (endOne_kstep h1 k).mono (Q := k ∈ (id :: ids).map (fun i => i.1 ++ i.2)) (fun hk => by simp [hk])
      have b := (endFold_kstep ids h k).mono (Q := k ∈ (id :: ids).map (fun i => i.1 ++ i.2))
        (fun hk => by simp only [List.map_cons, List.mem_cons]; exact Or.inr hk)
      exact a.trans b

theorem endBlock_kstep {e : Env} {s s' : State} (h : endBlock e s = .ok s') (k : String) :
    KStep (k ∈ (closingAt s e.h).map (fun i => i.1 ++ i.2)) s s' k := by
  unfold endBlock at h
  cases hf : endFold e.bond (closingAt s e.h) s with
  | error x => rw [hf] at h; cases h
  | ok s1 =>
    rw [hf] at h; dsimp only at h
    cases h
    have := endFold_kstep _ hf k
    unfold KStep at this ⊢
    rw [findTask_congr (s' := delClosing s1 e.h) (s := s1) rfl]
    exact this

/-! ### every operation -/

/-- the key a task message is about -/
def OpKey : Op → Option String
  | .createTask c f _ _ _ _ => some (c ++ f)
  | .respond c f _ _ => some (c ++ f)
  | _ => none

/-- the five ways in which the task stored under `k` changes in one accepted operation; an accepted creation or response
    always changes the task under its own key -/
def TaskStep (e : Env) (op : Op) (s s' : State) (k : String) : Prop :=
  (findTask s' k = findTask s k ∧ OpKey op ≠ some k) ∨
  (∃ c f sc o t, op = .respond c f sc o ∧ k = c ++ f ∧ findTask s k = some t ∧ isOp s o = true ∧ e.h ≤ t.closing ∧
      t.responses.any (·.op == o) = false ∧ 0 ≤ sc ∧ sc ≤ 100 ∧
      findTask s' k = some { t with responses := t.responses ++ [{ op := o, score := sc, weight := 0, reward := [] }] }) ∨
  (∃ c f fo d t, op = .deleteTask c f fo d ∧ k = c ++ f ∧ findTask s k = some t ∧ t.creator = d ∧ t.closing < e.h ∧
      (fo = true ∨ t.expiration < e.t) ∧ findTask s' k = none) ∨
  (∃ c f b cr w v t', op = .createTask c f b cr w v ∧ k = c ++ f ∧ (∀ old, findTask s k = some old → old.closing < e.h) ∧
      findTask s' k = some t' ∧ t'.status = 1 ∧ t'.responses = [] ∧ t'.creator = cr ∧ t'.bounty = b ∧ t'.begin = e.h ∧
      e.h ≤ t'.closing ∧ t'.contract = c ∧ t'.function = f) ∨
  (op = .endBlock ∧ k ∈ (closingAt s e.h).map (fun i => i.1 ++ i.2) ∧
      ∃ t t', findTask s k = some t ∧ t.status = 1 ∧ findTask s' k = some t' ∧ Fin t t')

theorem createTask_taskStep {e : Env} {l l' : Ledger} {s s' : State} {ct fn : String} {b : Coins} {cr : Addr} {w v : Int}
    (h : createTask e l s ct fn b cr w v = .ok (l', s')) (k : String) :
    TaskStep e (.createTask ct fn b cr w v) s s' k := by
  have hg := (Shentu.Props.C15.create_guards e l l' s s' ct fn b cr w v h).2
  unfold createTask at h
  dsimp only at h
  generalize (if Gen.Oracle.waitIsDefault w = true then s.params.window else w) = window at h
  generalize (if Gen.Oracle.validIsDefault v = true then e.t + s.params.expDur else e.t + v) = expi at h
  split at h; · cases h
  rename_i s0 hpre
  split at h; · cases h
  cases h
  have hw : 0 ≤ window := by
    split at hpre; · cases hpre
    rename_i hb
    simp only [Gen.Oracle.ctBadWait, decide_eq_true_eq] at hb
    omega
  have hs0 : ∀ k', k' ≠ ct ++ fn → findTask s0 k' = findTask s k' := by
    split at hpre; · cases hpre
    split at hpre
    · split at hpre; · cases hpre
      cases hpre
      intro k' hk'
      rw [findTask_delTask]
      have : ¬ (ct ++ fn = k') := fun h' => hk' h'.symm
      simp [this]
    · cases hpre; intro _ _; rfl
  by_cases hk : k = ct ++ fn
  · right; right; right; left
    refine ⟨ct, fn, b, cr, w, v, _, rfl, hk, ?_,
      by rw [findTask_congr (Shentu.C20GH.addClosing_tasks _ _ _), findTask_setTask, if_pos (by rw [hk]; rfl)],
      by rfl, by rfl, by rfl, by rfl, by rfl, ?_, by rfl, by rfl⟩
    · intro old ho; rw [hk] at ho; exact hg old ho
    · simp only [Gen.Oracle.ctClosingBlock]; omega
  · left
    refine ⟨?_, by simp only [OpKey, ne_eq, Option.some.injEq]; exact fun h' => hk h'.symm⟩
    rw [findTask_congr (Shentu.C20GH.addClosing_tasks _ _ _), findTask_setTask]
    have : ¬ (ct ++ fn = k) := fun h' => hk h'.symm
    simp only [Task.key, this, if_false]
    exact hs0 k hk

theorem stepE_taskStep {e : Env} {l l' : Ledger} {s s' : State} {op : Op} (h : stepE e l s op = .ok (l', s')) (k : String) :
    TaskStep e op s s' k := by
  cases op with
  | createOperator a co p => exact Or.inl ⟨findTask_congr (Shentu.C20GOrcInv.frame_createOperator h).1 k, by simp [OpKey]⟩
  | removeOperator a => exact Or.inl ⟨findTask_congr (Shentu.C20GOrcInv.frame_removeOperator h).1 k, by simp [OpKey]⟩
  | addCollateral a co => exact Or.inl ⟨findTask_congr (Shentu.C20GOrcInv.frame_addCollateral h).1 k, by simp [OpKey]⟩
  | reduceCollateral a co => exact Or.inl ⟨findTask_congr (Shentu.C20GOrcInv.frame_reduceCollateral h).1 k, by simp [OpKey]⟩
  | withdrawReward a => exact Or.inl ⟨findTask_congr (Shentu.C20GOrcInv.frame_withdrawReward h).1 k, by simp [OpKey]⟩
  | beginBlock => exact Or.inl ⟨findTask_congr (Shentu.C20GOrcInv.frame_beginBlock h).1 k, by simp [OpKey]⟩
  | createTask ct fn b cr w v => exact createTask_taskStep h k
  | respond ct fn sc o =>
    simp only [stepE] at h
    cases hr : respond e s ct fn sc o with
    | error x => rw [hr] at h; cases h
    | ok s1 =>
      rw [hr] at h; injection h with h; injection h with _ h; subst h
      obtain ⟨hop, t, ht, hcl, hdup, h0, h100⟩ := (Shentu.Props.C15.respond_iff e s ct fn sc o).mp ⟨s1, hr⟩
      obtain ⟨t2, ht2, rfl⟩ := Shentu.Props.C15.respond_appends e s s1 ct fn sc o hr
      rw [ht] at ht2; cases ht2
      have htk := findTask_key ht
      by_cases hk : k = ct ++ fn
      · right; left
        refine ⟨ct, fn, sc, o, t, rfl, hk, by rw [hk]; exact ht, hop, hcl, hdup, h0, h100, ?_⟩
        rw [findTask_setTask]
        have : t.key = k := by rw [hk]; exact htk
        simp [Task.key] at this ⊢
        simp [this]
      · left
        refine ⟨?_, by simp only [OpKey, ne_eq, Option.some.injEq]; exact fun h' => hk h'.symm⟩
        rw [findTask_setTask]
        have : ¬ (t.key = k) := by rw [htk]; exact fun h' => hk h'.symm
        simp [Task.key] at this ⊢
        simp [this]
  | deleteTask ct fn fo d =>
    simp only [stepE] at h
    cases hr : deleteTask e s ct fn fo d with
    | error x => rw [hr] at h; cases h
    | ok s1 =>
      rw [hr] at h; injection h with h; injection h with _ h; subst h
      obtain ⟨t, ht, hexp, hfin, hcr⟩ := (Shentu.Props.C15.delete_iff e s ct fn fo d).mp ⟨s1, hr⟩
      unfold deleteTask at hr
      rw [ht] at hr; dsimp only at hr
      ok_cases hr
      cases hr
      by_cases hk : k = ct ++ fn
      · right; right; left
        refine ⟨ct, fn, fo, d, t, rfl, hk, by rw [hk]; exact ht, hcr, hfin, hexp, ?_⟩
        rw [findTask_delTask, hk]; simp
      · left
        refine ⟨?_, by simp [OpKey]⟩
        rw [findTask_delTask]
        have : ¬ (ct ++ fn = k) := fun h' => hk h'.symm
        simp [this]
  | endBlock =>
    simp only [stepE] at h
    cases hr : endBlock e s with
    | error x => rw [hr] at h; cases h
    | ok s1 =>
      rw [hr] at h; injection h with h; injection h with _ h; subst h
      rcases endBlock_kstep hr k with h1 | ⟨hm, h2⟩
      · exact Or.inl ⟨h1, by simp [OpKey]⟩
      · exact Or.inr (Or.inr (Or.inr (Or.inr ⟨rfl, hm, h2⟩)))

end Shentu.C15HH

