import Shentu.Proofs.C12TTotal
/-
  The vote store holds at most one vote per proposal and voter (for `Shentu/Props/C12T.lean`).
-/
namespace Shentu.C12TH
open Shentu Shentu.Gov
set_option linter.unusedSimpArgs false
set_option linter.unusedVariables false

/-- at most one stored vote per (proposal, voter) -/
def VotesWF (votes : List Vote) : Prop := votes.Pairwise (fun a b => ¬(a.pid = b.pid ∧ a.voter = b.voter))

theorem votesWF_nil : VotesWF [] := List.Pairwise.nil

theorem mem_setVote (pid : Nat) (a : Addr) (o : Nat) (vs : List Vote) (x : Vote) (h : x ∈ setVote pid a o vs) :
    (∃ y ∈ vs, y.pid = x.pid ∧ y.voter = x.voter) ∨ (x.pid = pid ∧ x.voter = a) := by
  induction vs with
  | nil =>
    simp only [setVote, List.mem_singleton] at h
    subst h; exact Or.inr ⟨rfl, rfl⟩
  | cons v vs ih =>
    unfold setVote at h
    split at h
    · rcases List.mem_cons.mp h with h1 | h1
      · subst h1; exact Or.inl ⟨v, List.mem_cons_self, rfl, rfl⟩
      · exact Or.inl ⟨x, List.mem_cons_of_mem _ h1, rfl, rfl⟩
    · rcases List.mem_cons.mp h with h1 | h1
      · subst h1; exact Or.inl ⟨x, List.mem_cons_self, rfl, rfl⟩
      · rcases ih h1 with ⟨y, hy, hh⟩ | hh
        · exact Or.inl ⟨y, List.mem_cons_of_mem _ hy, hh⟩
        · exact Or.inr hh

theorem votesWF_setVote (pid : Nat) (a : Addr) (o : Nat) (vs : List Vote) (h : VotesWF vs) :
    VotesWF (setVote pid a o vs) := by
  induction vs with
  | nil => exact List.pairwise_singleton _ _
  | cons v vs ih =>
    have h' := List.pairwise_cons.mp h
    unfold setVote
    split
    · exact List.pairwise_cons.mpr ⟨fun x hx => h'.1 x hx, h'.2⟩
    · rename_i hne
      refine List.pairwise_cons.mpr ⟨?_, ih h'.2⟩
      intro x hx
      rcases mem_setVote pid a o vs x hx with ⟨y, hy, h1, h2⟩ | ⟨h1, h2⟩
      · rw [← h1, ← h2]; exact h'.1 y hy
      · intro ⟨hp, hv⟩
        apply hne
        rw [h1] at hp; rw [h2] at hv
        simp [hp, hv]

theorem votesWF_filter (p : Vote → Bool) (vs : List Vote) (h : VotesWF vs) : VotesWF (vs.filter p) :=
  List.Pairwise.filter p h

/-- the votes of one proposal come from distinct voters -/
theorem votersDistinct_of_WF (pid : Nat) (vs : List Vote) (h : VotesWF vs) :
    VotersDistinct (vs.filter (·.pid == pid)) := by
  unfold VotersDistinct List.Nodup
  rw [List.pairwise_map]
  have h1 : VotesWF (vs.filter (·.pid == pid)) := votesWF_filter _ vs h
  refine List.Pairwise.imp_of_mem ?_ h1
  intro x y hx hy hxy hv
  have hxp : x.pid = pid := beq_iff_eq.mp (List.mem_filter.mp hx).2
  have hyp : y.pid = pid := beq_iff_eq.mp (List.mem_filter.mp hy).2
  exact hxy ⟨hxp.trans hyp.symm, hv⟩

end Shentu.C12TH

namespace Shentu.C12TH
open Shentu Shentu.Gov

/-- the votes the tally reads for a proposal (sorted by voter) come from distinct voters -/
theorem mine_distinct (votes : List Vote) (h : VotesWF votes) (pid : Nat) :
    VotersDistinct (sortVotes (votes.filter (·.pid == pid))) :=
  (votersDistinct_of_WF pid votes h).perm (sortVotes_perm _).symm

/-- each option's accumulator is the sum of the powers of the pieces counted for that option -/
theorem get_eq (e : Env) (votes : List Vote) (o : Nat) (ho : o = 1 ∨ o = 2 ∨ o = 3 ∨ o = 4) :
    (get (stakeResults e votes) o).raw = sumOn ((pieces e votes).filter (fun p => p.option == o)) (fun p => p.power.raw) := by
  rw [results_are_pieces, addList_get _ _ o ho, List.filter_map, sumOn_map]
  have h0 : (get ({} : Results) o).raw = 0 := by
    rcases ho with h | h | h | h <;> subst h <;> rfl
  rw [h0]
  exact Int.zero_add _

/-- a vote from a bonded validator's operator address only records the option -/
theorem validator_vote_step (e : Env) (acc : List ValInfo × Results) (v : Vote)
    (h : acc.1.any (·.addr == v.voter) = true) :
    (voteStep e acc v).2 = acc.2 ∧
    (voteStep e acc v).1.map (fun x => (x.addr, x.tokens, x.shares, x.deductions)) =
      acc.1.map (fun x => (x.addr, x.tokens, x.shares, x.deductions)) := by
  simp only [voteStep, h, if_true, List.map_map, true_and]
  apply List.map_congr_left
  intro x _
  simp only [Function.comp]
  split <;> rfl

end Shentu.C12TH
