import Shentu.Proofs.ShieldPoolExpire
import Shentu.Proofs.ShieldFundDec
/-
  C08 (the chain never halts), shield part: the invariants that exclude the panic / error sites of the
  end-blocker which are not covered by `CollInv` (C03a) and `PoolInv` (C03b):

  * `NoFeeAndStake` — no purchase has both unstreamed fees and an original-staking record
    (site "unmodelled:stake-expiry"); it needs `OrigIdsLt` (recorded ids are below the next id) to survive purchases;
  * `FeesInv` — the service-fee total covers the unstreamed fees of all purchases
    (site "shield:negative-service-fees");
  * the two fee pots are not negative (site "shield:negative-remaining").
  (`RewardsNonneg`, the sign of the providers' rewards, is carried as a by-product; C08 does not need it.)

  This file: definitions, `Dec` sign facts, and how the three kinds of list-store updates act on them.
-/
namespace Shentu.Halt
open Shentu Shentu.Shield Shentu.Shield.PoolLm
set_option linter.unusedSimpArgs false
set_option linter.unusedVariables false

/-! ## definitions -/

/-- the not-yet-streamed fees recorded in one purchase list (raw, 18 digits) -/
def feeOf (l : PList) : Int := sumI (fun en => en.fees.raw) l.entries
/-- the not-yet-streamed fees of all purchases -/
def feeSum (s : State) : Int := sumI feeOf s.lists

/-- the service-fee total covers the unstreamed fees of all purchases -/
def FeesInv (s : State) : Prop := feeSum s ≤ s.serviceFees.raw

/-- no purchase has both positive (unstreamed) fees and a non-zero original-staking record -/
def NoFeeAndStake (s : State) : Prop :=
  ∀ l ∈ s.lists, ∀ en ∈ l.entries, en.fees.raw > 0 → ¬ s.origStakings.any (fun o => o.1 == en.id && o.2 != 0)

/-- original-staking records only exist for purchase ids that have been issued -/
def OrigIdsLt (s : State) : Prop := ∀ o ∈ s.origStakings, o.1 < s.nextPurchase

/-- the two fee pots are not negative -/
structure MoneyInv (s : State) : Prop where
  remaining : 0 ≤ s.remaining.raw
  blockFees : 0 ≤ s.blockFees.raw

/-- no provider's rewards are negative (clause `provNonneg`, fourth conjunct, of `BooksInv`; not needed for C08) -/
def RewardsNonneg (s : State) : Prop := ∀ p ∈ s.providers, 0 ≤ p.rewards.raw

/-- everything the end-blocker needs besides `CollInv` and `PoolInv` -/
structure FeeBooks (s : State) : Prop where
  noFeeStake : NoFeeAndStake s
  origLt : OrigIdsLt s
  fees : FeesInv s
  money : MoneyInv s

/-! ## `Dec` signs -/

theorem add_raw (a b : Dec) : (Dec.add a b).raw = a.raw + b.raw := rfl
theorem sub_raw (a b : Dec) : (Dec.sub a b).raw = a.raw - b.raw := rfl
theorem zero_raw : Dec.zero.raw = 0 := rfl

theorem mul_nonneg (a b : Dec) (ha : 0 ≤ a.raw) (hb : 0 ≤ b.raw) : 0 ≤ (Dec.mul a b).raw :=
  Dec.chopRound_nonneg _ (Int.mul_nonneg ha hb)

theorem quo_nonneg (a b : Dec) (ha : 0 ≤ a.raw) (hb : 0 ≤ b.raw) : 0 ≤ (Dec.quo a b).raw := by
  unfold Dec.quo
  apply Dec.chopRound_nonneg
  apply Int.tdiv_nonneg _ hb
  exact Int.mul_nonneg (Int.mul_nonneg ha (Int.le_of_lt Dec.prec_pos)) (Int.le_of_lt Dec.prec_pos)

theorem ofInt_nonneg (i : Int) (h : 0 ≤ i) : 0 ≤ (Dec.ofInt i).raw := ofInt_raw_nonneg i h

theorem quoInt_nonneg (a : Dec) (i : Int) (ha : 0 ≤ a.raw) (hi : 0 ≤ i) : 0 ≤ (Dec.quoInt a i).raw :=
  Int.tdiv_nonneg ha hi

/-- the fractional change of a non-negative amount is not negative -/
theorem change_nonneg (d : Dec) (h : 0 ≤ d.raw) : 0 ≤ (Dec.sub d (Dec.ofInt (Dec.truncateInt d))).raw := by
  show 0 ≤ d.raw - Int.tdiv d.raw Dec.prec * Dec.prec
  have h1 := Int.mul_tdiv_add_tmod d.raw Dec.prec
  have h2 : 0 ≤ Int.tmod d.raw Dec.prec := Int.tmod_nonneg _ h
  have h3 : Dec.prec * d.raw.tdiv Dec.prec = d.raw.tdiv Dec.prec * Dec.prec := Int.mul_comm _ _
  omega

/-- a positive whole part means a non-negative amount -/
theorem nonneg_of_truncate_pos (d : Dec) (h : 0 < Dec.truncateInt d) : 0 ≤ d.raw := by
  unfold Dec.truncateInt at h
  by_cases hd : 0 ≤ d.raw
  · exact hd
  · exfalso
    have h1 : d.raw = -(-d.raw) := by omega
    rw [h1, Int.neg_tdiv] at h
    have := Int.tdiv_nonneg (a := -d.raw) (b := Dec.prec) (by omega) (Int.le_of_lt Dec.prec_pos)
    omega

/-! ## frames -/

theorem NoFeeAndStake.congr {s s' : State} (h : NoFeeAndStake s) (hl : s'.lists = s.lists)
    (ho : s'.origStakings = s.origStakings) : NoFeeAndStake s' := by
  unfold NoFeeAndStake; rw [hl, ho]; exact h

theorem OrigIdsLt.congr {s s' : State} (h : OrigIdsLt s) (ho : s'.origStakings = s.origStakings)
    (hq : s'.nextPurchase = s.nextPurchase) : OrigIdsLt s' := by
  unfold OrigIdsLt; rw [ho, hq]; exact h

theorem feeSum_congr {s s' : State} (hl : s'.lists = s.lists) : feeSum s' = feeSum s := by
  unfold feeSum; rw [hl]

theorem FeesInv.congr {s s' : State} (h : FeesInv s) (hl : s'.lists = s.lists)
    (hf : s'.serviceFees = s.serviceFees) : FeesInv s' := by
  unfold FeesInv; rw [feeSum_congr hl, hf]; exact h

theorem MoneyInv.congr {s s' : State} (h : MoneyInv s) (hr : s'.remaining = s.remaining)
    (hb : s'.blockFees = s.blockFees) : MoneyInv s' :=
  ⟨by rw [hr]; exact h.remaining, by rw [hb]; exact h.blockFees⟩

/-- the fields `FeeBooks` reads -/
structure FeeFrame (s s' : State) : Prop where
  lists : s'.lists = s.lists
  origStakings : s'.origStakings = s.origStakings
  nextPurchase : s'.nextPurchase = s.nextPurchase
  serviceFees : s'.serviceFees = s.serviceFees
  remaining : s'.remaining = s.remaining
  blockFees : s'.blockFees = s.blockFees
  providers : s'.providers = s.providers

theorem FeeFrame.refl (s : State) : FeeFrame s s := ⟨rfl, rfl, rfl, rfl, rfl, rfl, rfl⟩
theorem FeeFrame.trans {a b c : State} (h1 : FeeFrame a b) (h2 : FeeFrame b c) : FeeFrame a c :=
  ⟨h2.lists.trans h1.lists, h2.origStakings.trans h1.origStakings, h2.nextPurchase.trans h1.nextPurchase,
   h2.serviceFees.trans h1.serviceFees, h2.remaining.trans h1.remaining, h2.blockFees.trans h1.blockFees,
   h2.providers.trans h1.providers⟩

theorem FeeBooks.frame {s s' : State} (h : FeeBooks s) (f : FeeFrame s s') : FeeBooks s' :=
  ⟨h.noFeeStake.congr f.lists f.origStakings, h.origLt.congr f.origStakings f.nextPurchase,
   h.fees.congr f.lists f.serviceFees, h.money.congr f.remaining f.blockFees⟩

theorem RewardsNonneg.frame {s s' : State} (h : RewardsNonneg s) (f : FeeFrame s s') : RewardsNonneg s' := by
  unfold RewardsNonneg; rw [f.providers]; exact h

/-- the fields `FeeBooks` reads; the provider store may change, but only in records that keep or reset their rewards -/
structure FeeFrameP (s s' : State) : Prop where
  lists : s'.lists = s.lists
  origStakings : s'.origStakings = s.origStakings
  nextPurchase : s'.nextPurchase = s.nextPurchase
  serviceFees : s'.serviceFees = s.serviceFees
  remaining : s'.remaining = s.remaining
  blockFees : s'.blockFees = s.blockFees
  /-- every provider record of `s'` has the rewards of a record of `s`, or none -/
  rewards : ∀ p' ∈ s'.providers, p'.rewards = Dec.zero ∨ ∃ p ∈ s.providers, p'.rewards = p.rewards

theorem FeeFrameP.refl (s : State) : FeeFrameP s s := ⟨rfl, rfl, rfl, rfl, rfl, rfl, fun p hp => Or.inr ⟨p, hp, rfl⟩⟩
theorem FeeFrameP.trans {a b c : State} (h1 : FeeFrameP a b) (h2 : FeeFrameP b c) : FeeFrameP a c :=
  ⟨h2.lists.trans h1.lists, h2.origStakings.trans h1.origStakings, h2.nextPurchase.trans h1.nextPurchase,
   h2.serviceFees.trans h1.serviceFees, h2.remaining.trans h1.remaining, h2.blockFees.trans h1.blockFees,
   by
     intro p' hp'
     rcases h2.rewards p' hp' with h | ⟨p, hp, he⟩
     · exact Or.inl h
     · rcases h1.rewards p hp with h | ⟨p0, hp0, he0⟩
       · exact Or.inl (he.trans h)
       · exact Or.inr ⟨p0, hp0, he.trans he0⟩⟩

theorem FeeFrame.toP {s s' : State} (f : FeeFrame s s') : FeeFrameP s s' :=
  ⟨f.lists, f.origStakings, f.nextPurchase, f.serviceFees, f.remaining, f.blockFees,
   fun p hp => Or.inr ⟨p, by rw [← f.providers]; exact hp, rfl⟩⟩

theorem MoneyInv.frameP {s s' : State} (h : MoneyInv s) (f : FeeFrameP s s') : MoneyInv s' :=
  ⟨by rw [f.remaining]; exact h.remaining, by rw [f.blockFees]; exact h.blockFees⟩

theorem RewardsNonneg.frameP {s s' : State} (h : RewardsNonneg s) (f : FeeFrameP s s') : RewardsNonneg s' := by
  intro p' hp'
  rcases f.rewards p' hp' with h0 | ⟨p, hp, he⟩
  · rw [h0]; exact Int.le_refl 0
  · rw [he]; exact h p hp

theorem FeeBooks.frameP {s s' : State} (h : FeeBooks s) (f : FeeFrameP s s') : FeeBooks s' :=
  ⟨h.noFeeStake.congr f.lists f.origStakings, h.origLt.congr f.origStakings f.nextPurchase,
   h.fees.congr f.lists f.serviceFees, h.money.frameP f⟩

/-- `setProvider` with a record that keeps the rewards of the stored one (or resets them) -/
theorem setProvider_frameP (s : State) (a : Addr) (p p' : Provider) (hf : findProvider s a = some p)
    (hr : p'.rewards = p.rewards ∨ p'.rewards = Dec.zero) : FeeFrameP s (setProvider s p') := by
  refine ⟨rfl, rfl, rfl, rfl, rfl, rfl, ?_⟩
  intro x hx
  rcases mem_map_replace (fun z : Provider => z.addr == p'.addr) p' s.providers x hx with h | ⟨h, _⟩
  · subst h
    rcases hr with hr | hr
    · exact Or.inr ⟨p, List.mem_of_find?_eq_some hf, hr⟩
    · exact Or.inl hr
  · exact Or.inr ⟨x, h, rfl⟩

/-! ## where the entries with unstreamed fees come from -/

/-- every entry of `s'` with positive fees has the id of an entry of `s` with positive fees -/
def FeeIdsFrom (s s' : State) : Prop :=
  ∀ l' ∈ s'.lists, ∀ en' ∈ l'.entries, en'.fees.raw > 0 →
    ∃ l ∈ s.lists, ∃ en ∈ l.entries, en.id = en'.id ∧ en.fees.raw > 0

theorem NoFeeAndStake.of_from {s s' : State} (h : NoFeeAndStake s) (hf : FeeIdsFrom s s')
    (ho : s'.origStakings = s.origStakings) : NoFeeAndStake s' := by
  intro l' hl' en' hen' hpos
  rcases hf l' hl' en' hen' hpos with ⟨l, hl, en, hen, hid, hp⟩
  rw [ho, ← hid]
  exact h l hl en hen hp

/-- the list of (pool, purchaser) is replaced by `lst'`, whose fee-carrying entries come from the old list -/
theorem FeeIdsFrom.replace {s s' : State} {lst lst' : PList} (hm : lst ∈ s.lists)
    (hl : s'.lists = s.lists.map (fun x => if x.pool == lst'.pool && x.purchaser == lst'.purchaser then lst' else x))
    (hfrom : ∀ en' ∈ lst'.entries, en'.fees.raw > 0 → ∃ en ∈ lst.entries, en.id = en'.id ∧ en.fees.raw > 0) :
    FeeIdsFrom s s' := by
  intro l' hl' en' hen' hpos
  rw [hl] at hl'
  rcases mem_map_replace _ lst' s.lists l' hl' with h | ⟨h, _⟩
  · subst h
    rcases hfrom en' hen' hpos with ⟨en, hen, hid, hp⟩
    exact ⟨lst, hm, en, hen, hid, hp⟩
  · exact ⟨l', h, en', hen', rfl, hpos⟩

theorem FeeIdsFrom.filter {s s' : State} (q : PList → Bool) (hl : s'.lists = s.lists.filter q) : FeeIdsFrom s s' := by
  intro l' hl' en' hen' hpos
  rw [hl] at hl'
  exact ⟨l', (List.mem_filter.mp hl').1, en', hen', rfl, hpos⟩

theorem FeeIdsFrom.same {s s' : State} (hl : s'.lists = s.lists) : FeeIdsFrom s s' := by
  intro l' hl' en' hen' hpos
  rw [hl] at hl'
  exact ⟨l', hl', en', hen', rfl, hpos⟩

/-! ## the fee sum under the three list-store updates -/

theorem feeSum_replace {s s' : State} {lst lst' : PList} (hinv : ShieldInv s)
    (hf : findList s lst'.pool lst'.purchaser = some lst)
    (hl : s'.lists = s.lists.map (fun x => if x.pool == lst'.pool && x.purchaser == lst'.purchaser then lst' else x)) :
    feeSum s' = feeSum s + (feeOf lst' - feeOf lst) := by
  unfold feeSum
  rw [hl]
  exact sumI_map_replace feeOf (fun x : PList => x.pool == lst'.pool && x.purchaser == lst'.purchaser) lst' s.lists lst hf
    (hinv.listAtMostOne lst'.pool lst'.purchaser)

theorem feeSum_append {s s' : State} {lst' : PList} (hl : s'.lists = s.lists ++ [lst']) :
    feeSum s' = feeSum s + feeOf lst' := by
  unfold feeSum
  rw [hl, sumI_append, sumI_cons, sumI_nil]; omega

theorem feeSum_delete {s s' : State} {pid : Nat} {a : Addr} {lst : PList} (hinv : ShieldInv s)
    (hf : findList s pid a = some lst)
    (hl : s'.lists = s.lists.filter (fun x => !(x.pool == pid && x.purchaser == a))) :
    feeSum s' = feeSum s - feeOf lst := by
  unfold feeSum
  rw [hl]
  exact sumI_filter_not feeOf (fun x : PList => x.pool == pid && x.purchaser == a) s.lists lst hf (hinv.listAtMostOne pid a)

theorem feeOf_nonneg {s : State} (hinv : ShieldInv s) {l : PList} (hl : l ∈ s.lists) : 0 ≤ feeOf l :=
  sumI_nonneg _ _ (fun en hen => (hinv.entryNonneg l hl en hen).2)

theorem feeSum_nonneg {s : State} (hinv : ShieldInv s) : 0 ≤ feeSum s :=
  sumI_nonneg _ _ (fun l hl => feeOf_nonneg hinv hl)

/-- rewriting the first entry satisfying `p` by a function that keeps its fees keeps the fee sum of the list -/
theorem feeOf_replaceFirst (p : Purchase → Bool) (f : Purchase → Purchase) (lst : PList) (x : Purchase)
    (hx : lst.entries.find? p = some x) (hf : (f x).fees = x.fees) :
    feeOf { lst with entries := replaceFirst p f lst.entries } = feeOf lst := by
  unfold feeOf
  show sumI _ (replaceFirst p f lst.entries) = _
  rw [sumI_replaceFirst (fun en => en.fees.raw) p f lst.entries x hx, hf]; omega

/-- … and the fee-carrying ids, if it keeps the id too -/
theorem from_replaceFirst (p : Purchase → Bool) (f : Purchase → Purchase) (es : List Purchase) (x : Purchase)
    (hx : es.find? p = some x) (hf : (f x).fees = x.fees) (hid : (f x).id = x.id) :
    ∀ en' ∈ replaceFirst p f es, en'.fees.raw > 0 → ∃ en ∈ es, en.id = en'.id ∧ en.fees.raw > 0 := by
  intro en' hen' hpos
  rcases mem_replaceFirst p f es en' hen' with h | ⟨y, hy, he⟩
  · exact ⟨en', h, rfl, hpos⟩
  · rw [hx] at hy
    injection hy with hy
    subst hy; subst he
    exact ⟨x, List.mem_of_find?_eq_some hx, hid.symm, by rw [← hf]; exact hpos⟩

end Shentu.Halt
