import Shentu.Proofs.ShieldCollInv
import Shentu.Proofs.BankLemmas
/-
  Frame lemmas: the operations of x/shield that do not touch the collateral books
  (providers' collateral / withdrawing, the withdrawal queue, the two totals) or the parameters.
-/
set_option linter.unusedSimpArgs false
set_option linter.unusedVariables false
namespace Shentu.Shield.Coll
open List

/-! ## projections of the store updates -/

@[simp] theorem setPool_providers (s : State) (p : Pool) : (setPool s p).providers = s.providers := rfl
@[simp] theorem setPool_withdraws (s : State) (p : Pool) : (setPool s p).withdraws = s.withdraws := rfl
@[simp] theorem setPool_tc (s : State) (p : Pool) : (setPool s p).totalCollateral = s.totalCollateral := rfl
@[simp] theorem setPool_tw (s : State) (p : Pool) : (setPool s p).totalWithdrawing = s.totalWithdrawing := rfl
@[simp] theorem setPool_params (s : State) (p : Pool) : (setPool s p).params = s.params := rfl

@[simp] theorem setList_providers (s : State) (l : PList) : (setList s l).providers = s.providers := by
  unfold setList; split <;> rfl
@[simp] theorem setList_withdraws (s : State) (l : PList) : (setList s l).withdraws = s.withdraws := by
  unfold setList; split <;> rfl
@[simp] theorem setList_tc (s : State) (l : PList) : (setList s l).totalCollateral = s.totalCollateral := by
  unfold setList; split <;> rfl
@[simp] theorem setList_tw (s : State) (l : PList) : (setList s l).totalWithdrawing = s.totalWithdrawing := by
  unfold setList; split <;> rfl
@[simp] theorem setList_params (s : State) (l : PList) : (setList s l).params = s.params := by
  unfold setList; split <;> rfl

@[simp] theorem deleteList_providers (s : State) (n : Nat) (a : Addr) : (deleteList s n a).providers = s.providers := rfl
@[simp] theorem deleteList_withdraws (s : State) (n : Nat) (a : Addr) : (deleteList s n a).withdraws = s.withdraws := rfl
@[simp] theorem deleteList_tc (s : State) (n : Nat) (a : Addr) : (deleteList s n a).totalCollateral = s.totalCollateral := rfl
@[simp] theorem deleteList_tw (s : State) (n : Nat) (a : Addr) : (deleteList s n a).totalWithdrawing = s.totalWithdrawing := rfl
@[simp] theorem deleteList_params (s : State) (n : Nat) (a : Addr) : (deleteList s n a).params = s.params := rfl

@[simp] theorem setStake_providers (s : State) (k : Stake) : (setStake s k).providers = s.providers := by
  unfold setStake; split <;> rfl
@[simp] theorem setStake_withdraws (s : State) (k : Stake) : (setStake s k).withdraws = s.withdraws := by
  unfold setStake; split <;> rfl
@[simp] theorem setStake_tc (s : State) (k : Stake) : (setStake s k).totalCollateral = s.totalCollateral := by
  unfold setStake; split <;> rfl
@[simp] theorem setStake_tw (s : State) (k : Stake) : (setStake s k).totalWithdrawing = s.totalWithdrawing := by
  unfold setStake; split <;> rfl
@[simp] theorem setStake_params (s : State) (k : Stake) : (setStake s k).params = s.params := by
  unfold setStake; split <;> rfl

@[simp] theorem setProvider_withdraws (s : State) (p : Provider) : (setProvider s p).withdraws = s.withdraws := rfl
@[simp] theorem setProvider_tc (s : State) (p : Provider) : (setProvider s p).totalCollateral = s.totalCollateral := rfl
@[simp] theorem setProvider_tw (s : State) (p : Provider) : (setProvider s p).totalWithdrawing = s.totalWithdrawing := rfl
@[simp] theorem setProvider_params (s : State) (p : Provider) : (setProvider s p).params = s.params := rfl

/-- same collateral books and same parameters -/
structure Frame (s s' : State) : Prop where
  same : SameColl s s'
  params : s'.params = s.params

theorem Frame.refl (s : State) : Frame s s := ⟨SameColl.refl s, rfl⟩
theorem Frame.trans {s1 s2 s3 : State} (h1 : Frame s1 s2) (h2 : Frame s2 s3) : Frame s1 s3 :=
  ⟨h1.same.trans h2.same, h2.params.trans h1.params⟩

theorem Frame.mk' {s s' : State} (h1 : s'.providers = s.providers) (h2 : s'.withdraws = s.withdraws)
    (h3 : s'.totalCollateral = s.totalCollateral) (h4 : s'.totalWithdrawing = s.totalWithdrawing)
    (h5 : s'.params = s.params) : Frame s s' := ⟨⟨by rw [h1], h2, h3, h4⟩, h5⟩

/-! ## purchases and pools -/

/-- split the next branch of a successful computation, discarding the failing side -/
macro "coll_split_ok " h:ident : tactic => `(tactic| (split at $h:ident <;> (first | (cases $h:ident; done) | skip)))

theorem purchaseCore_frame (e : Env) (l l' : Ledger) (s s' : State) (poolID : Nat) (shield : Coins) (purchaser : Addr)
    (fees staking : Coins) (h : purchaseCore e l s poolID shield purchaser fees staking = .ok (l', s')) : Frame s s' := by
  unfold purchaseCore at h
  dsimp only at h
  coll_split_ok h
  coll_split_ok h
  coll_split_ok h
  coll_split_ok h
  coll_split_ok h
  coll_split_ok h
  coll_split_ok h
  rename_i l1 s1 hp
  have hf : Frame s s1 := by
    split at hp
    · split at hp
      · cases hp
      · injection hp with hp; injection hp with _ hp; subst hp; apply Frame.mk' <;> rfl
    · split at hp
      · cases hp
      · injection hp with hp; injection hp with _ hp; subst hp; apply Frame.mk' <;> simp
  injection h with h; injection h with _ h; subst h
  have hs3 : ∀ (x : State) (c : Bool), Frame x (if c = true then { x with lastUpdate := e.t } else x) := by
    intro x c; split
    · exact Frame.mk' rfl rfl rfl rfl rfl
    · exact Frame.refl x
  refine hf.trans (Frame.trans ?_ (hs3 _ _))
  apply Frame.mk' <;> simp

theorem purchase_frame (e : Env) (l l' : Ledger) (s s' : State) (poolID : Nat) (shield : Coins) (purchaser : Addr)
    (staking : Bool) (h : purchase e l s poolID shield purchaser staking = .ok (l', s')) : Frame s s' := by
  unfold purchase at h
  dsimp only at h
  coll_split_ok h
  coll_split_ok h
  coll_split_ok h
  · exact purchaseCore_frame _ _ _ _ _ _ _ _ _ _ h
  · exact purchaseCore_frame _ _ _ _ _ _ _ _ _ _ h

theorem createPool_frame (e : Env) (l l' : Ledger) (s s' : State) (creator : Addr) (shield fees : Coins) (sponsor : String)
    (sponsorAddr : Addr) (limit : Int) (h : createPool e l s creator shield fees sponsor sponsorAddr limit = .ok (l', s')) :
    Frame s s' := by
  unfold createPool at h
  dsimp only at h
  coll_split_ok h
  coll_split_ok h
  have := purchaseCore_frame _ _ _ _ _ _ _ _ _ _ h
  refine Frame.trans ?_ this
  exact Frame.mk' rfl rfl rfl rfl rfl

theorem updatePool_frame (e : Env) (l l' : Ledger) (s s' : State) (updater : Addr) (poolID : Nat) (shield fees : Coins)
    (limit : Int) (h : updatePool e l s updater poolID shield fees limit = .ok (l', s')) : Frame s s' := by
  unfold updatePool at h
  dsimp only at h
  coll_split_ok h
  coll_split_ok h
  coll_split_ok h
  coll_split_ok h
  · have := purchaseCore_frame _ _ _ _ _ _ _ _ _ _ h
    refine Frame.trans ?_ this
    exact Frame.mk' rfl rfl rfl rfl rfl
  · coll_split_ok h
    · coll_split_ok h
      injection h with h; injection h with _ h; subst h
      exact Frame.mk' rfl rfl rfl rfl rfl
    · injection h with h; injection h with _ h; subst h
      exact Frame.mk' rfl rfl rfl rfl rfl

theorem pausePool_frame (s s' : State) (updater : Addr) (poolID : Nat) (active : Bool)
    (h : pausePool s updater poolID active = .ok s') : Frame s s' := by
  unfold pausePool at h
  ok_cases h
  injection h with h; subst h
  exact Frame.mk' rfl rfl rfl rfl rfl

theorem updateSponsor_frame (s s' : State) (updater : Addr) (poolID : Nat) (sponsor : String) (sponsorAddr : Addr)
    (h : updateSponsor s updater poolID sponsor sponsorAddr = .ok s') : Frame s s' := by
  unfold updateSponsor at h
  ok_cases h
  injection h with h; subst h
  exact Frame.mk' rfl rfl rfl rfl rfl

theorem unstake_frame (e : Env) (s s' : State) (poolID : Nat) (purchaser : Addr) (coins : Coins)
    (h : unstake e s poolID purchaser coins = .ok s') : Frame s s' := by
  unfold unstake at h
  ok_cases h
  injection h with h; subst h
  apply Frame.mk' <;> simp

theorem withdrawReimbursement_frame (e : Env) (l l' : Ledger) (s s' : State) (pid : Nat) (a : Addr)
    (h : withdrawReimbursement e l s pid a = .ok (l', s')) : Frame s s' := by
  unfold withdrawReimbursement at h
  ok_cases h
  injection h with h; injection h with _ h; subst h
  exact Frame.mk' rfl rfl rfl rfl rfl

theorem claimEnd_frame (s : State) (loss : Int) : Frame s (claimEnd s loss) := Frame.mk' rfl rfl rfl rfl rfl

theorem restoreShield_frame (s : State) (poolID : Nat) (purchaser : Addr) (id : Nat) (loss : Int) :
    Frame s (restoreShield s poolID purchaser id loss) := by
  unfold restoreShield
  split
  · exact Frame.refl s
  · split
    · exact Frame.refl s
    · split
      · exact Frame.refl s
      · apply Frame.mk' <;> simp

theorem closePools_frame (s : State) : Frame s (closePools s) := Frame.mk' rfl rfl rfl rfl rfl

theorem fundBlockRewards_frame (e : Env) (l : Ledger) (s : State) (sender : Addr) (amount : Int) :
    Frame s (fundBlockRewards e l s sender amount).2 := Frame.mk' rfl rfl rfl rfl rfl

end Shentu.Shield.Coll
