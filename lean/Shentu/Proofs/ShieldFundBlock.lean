import Shentu.Proofs.ShieldFundMoney
/-
  C02 helper lemmas, part 4: the end-blocker.  Expiry only touches pools and purchase lists;
  fee distribution moves fees from `remaining` to the providers' rewards without changing their sum
  and moves the block fees into `remaining`; completed withdrawals only touch collateral.
-/
namespace Shentu.Shield.Fund
open Shentu

theorem expireLoop_frame (now : Int) (pairs : List (Nat × Addr)) :
    ∀ (acc acc' : ExpAcc), expireLoop now pairs acc = .ok acc' → Frame acc.s acc'.s := by
  induction pairs with
  | nil => intro acc acc' h; unfold expireLoop at h; injection h with h; subst h; exact Frame.refl _
  | cons pr rest ih =>
    intro acc acc' h
    obtain ⟨pool, a⟩ := pr
    unfold expireLoop at h
    ok_cases h
    · exact ih _ _ h
    all_goals
      rename_i s1 hs1 _
      have h1 : Frame acc.s s1 := by
        split at hs1
        · split at hs1
          · cases hs1
          · injection hs1 with hs1; subst hs1; exact setPool_frame _ _
        · injection hs1 with hs1; subst hs1; exact Frame.refl _
      have h2 := ih _ _ h
      first
        | exact h1.trans ((deleteList_frame _ _ _).trans h2)
        | exact h1.trans ((setList_frame _ _).trans h2)

/-- fee distribution changes nothing but the rewards -/
theorem distributeLoop_map {β} (f : Provider → β) (hf : ∀ p d, f { p with rewards := d } = f p)
    (total : Int) (fees : Dec) (ps : List Provider) :
    ∀ rem : Dec, (distributeLoop total fees ps rem).1.map f = ps.map f := by
  induction ps with
  | nil => intro rem; rfl
  | cons p ps ih =>
    intro rem
    simp only [distributeLoop, List.map_cons, ih, hf]

theorem distributeLoop_addrs (total : Int) (fees : Dec) (ps : List Provider) (rem : Dec) :
    (distributeLoop total fees ps rem).1.map (·.addr) = ps.map (·.addr) :=
  distributeLoop_map (·.addr) (fun _ _ => rfl) total fees ps rem

/-- the heart of C02: what leaves `remaining` arrives in the providers' rewards -/
theorem distributeLoop_sum (total : Int) (fees : Dec) (ps : List Provider) :
    ∀ rem : Dec, sumI (fun p => p.rewards.raw) (distributeLoop total fees ps rem).1 =
      sumI (fun p => p.rewards.raw) ps + rem.raw - (distributeLoop total fees ps rem).2.raw := by
  induction ps with
  | nil => intro rem; simp [distributeLoop]
  | cons p ps ih =>
    intro rem
    simp only [distributeLoop, sumI_cons, ih, Dec.add, Dec.sub]
    omega

theorem expireAndDistribute_spec (e : Env) (s s' : State) (h : expireAndDistribute e s = .ok s') :
    s'.providers.map (·.addr) = s.providers.map (·.addr) ∧ s'.stakes = s.stakes ∧ s'.reimbs = s.reimbs ∧
    s'.remaining.raw + sumRewards s' + s'.blockFees.raw = s.remaining.raw + sumRewards s + s.blockFees.raw ∧
    (s'.blockFees = s.blockFees ∨ s'.blockFees = Dec.zero) := by
  unfold expireAndDistribute at h
  ok_cases h
  · injection h with h; subst h; exact ⟨rfl, rfl, rfl, rfl, Or.inl rfl⟩
  all_goals
    have hfr : Frame s _ := expireLoop_frame _ _ _ _ ‹_›
    injection h with h; subst h
    refine ⟨?_, hfr.stakes, hfr.reimbs, ?_, Or.inr rfl⟩
    · simp only [distributeLoop_addrs, hfr.providers]
    · simp only [sumRewards, distributeLoop_sum, Dec.add, Dec.zero, hfr.providers, hfr.remaining, hfr.blockFees]
      omega

/-! ## completed withdrawals -/

theorem completeLoop_same (ws : List Withdraw) :
    ∀ (s s' : State), completeLoop ws s = .ok s' → Same s s' := by
  induction ws with
  | nil => intro s s' h; unfold completeLoop at h; injection h with h; subst h; exact Same.refl _
  | cons w ws ih =>
    intro s s' h
    unfold completeLoop at h
    ok_cases h
    rename_i p hp
    refine Same.trans ?_ (ih _ _ h)
    exact (setProvider_same s w.addr p { p with collateral := p.collateral - w.amount, withdrawing := p.withdrawing - w.amount }
      hp rfl rfl).trans (Frame.same ⟨rfl, rfl, rfl, rfl, rfl⟩)

theorem completeWithdrawals_same (e : Env) (s s' : State) (h : completeWithdrawals e s = .ok s') : Same s s' := by
  unfold completeWithdrawals at h
  dsimp only at h
  refine Same.trans ?_ (completeLoop_same _ _ _ h)
  exact Frame.same ⟨rfl, rfl, rfl, rfl, rfl⟩

theorem closePools_frame (s : State) : Frame s (closePools s) := ⟨rfl, rfl, rfl, rfl, rfl⟩

/-- the end-blocker: keys stay unique, the owed total is unchanged, block fees stay whole -/
theorem endBlock_spec (e : Env) (s s' : State) (h : endBlock e s = .ok s') (hk : Keyed s) :
    Keyed s' ∧ owedRaw s' = owedRaw s ∧ (s'.blockFees = s.blockFees ∨ s'.blockFees = Dec.zero) := by
  unfold endBlock at h
  ok_cases h
  rename_i _ s1 h1 _ s2 h2
  injection h with h; subst h
  obtain ⟨ha, hst, hre, hsum, hbf⟩ := expireAndDistribute_spec e s s1 h1
  have hk1 : Keyed s1 := ⟨by rw [ha]; exact hk.prov, by rw [hst]; exact hk.stake, by rw [hre]; exact hk.reimb⟩
  have hsame : Same s1 (closePools s2) := (completeWithdrawals_same e s1 s2 h2).trans (closePools_frame s2).same
  refine ⟨hsame.keyed hk1, ?_, ?_⟩
  · rw [hsame.owed hk1]
    simp only [owedRaw, sumStakes, sumReimbs, hst, hre] at hsum ⊢
    omega
  · rw [hsame.blockFees]; exact hbf

theorem endBlock_fund (e : Env) (s s' : State) (h : endBlock e s = .ok s') (hk : Keyed s) (b : Int) (hf : FundInv b s) :
    FundInv b s' := by
  obtain ⟨_, ho, hb⟩ := endBlock_spec e s s' h hk
  unfold FundInv at *
  rw [ho]
  refine ⟨hf.1, ?_⟩
  rcases hb with hb | hb
  · rw [hb]; exact hf.2
  · rw [hb]; rfl

end Shentu.Shield.Fund
