import Shentu.Proofs.C20GLemmas
/-
  The closing index of x/oracle stays exact: after every block of height `H` the state is `Exportable H`
  (distinct task keys; for every later block the index lists exactly the tasks that close then, in task order).
-/
namespace Shentu.C20GOrcInv
open Shentu Shentu.Oracle Shentu.C20GH

/-- distinct task keys, and the closing index is exact from block `c` on -/
def Idx (c : Int) (s : State) : Prop :=
  (s.tasks.map Task.key).Nodup ∧ ∀ k, c ≤ k → closingAt s k = idsAt k s.tasks

theorem exportable_iff (h : Int) (s : State) : Exportable h s ↔ Idx (h + 1) s := by
  constructor
  · intro hx; exact ⟨hx.keys, fun k hk => hx.index k (by omega)⟩
  · intro hi; exact ⟨hi.1, fun k hk => hi.2 k (by omega)⟩

/-- what the invariant reads of a task -/
def sig (t : Task) : String × String × Int := (t.contract, t.function, t.closing)

theorem keys_of_sig (ts : List Task) : ts.map Task.key = (ts.map sig).map (fun p => p.1 ++ p.2.1) := by
  induction ts with
  | nil => rfl
  | cons a l ih => simp only [List.map_cons, ih]; rfl

theorem idsAt_of_sig (k : Int) (ts : List Task) :
    idsAt k ts = ((ts.map sig).filter (fun p => p.2.2 == k)).map (fun p => (p.1, p.2.1)) := by
  induction ts with
  | nil => rfl
  | cons a l ih =>
    unfold idsAt at ih ⊢
    rw [ids_filter_cons, ih]
    simp only [List.map_cons, List.filter_cons]
    have : ((sig a).2.2 == k) = (a.closing == k) := rfl
    rw [this]
    split <;> simp [sig]

theorem idx_mono {c c' : Int} {s : State} (hc : c ≤ c') (h : Idx c s) : Idx c' s :=
  ⟨h.1, fun k hk => h.2 k (by omega)⟩

theorem idx_sig {c : Int} {s s' : State} (h : Idx c s) (ht : s'.tasks.map sig = s.tasks.map sig)
    (hcl : s'.closing = s.closing) : Idx c s' := by
  refine ⟨?_, fun k hk => ?_⟩
  · rw [keys_of_sig, ht, ← keys_of_sig]; exact h.1
  · rw [closingAt_congr hcl, idsAt_of_sig, ht, ← idsAt_of_sig]; exact h.2 k hk

theorem idx_frame {c : Int} {s s' : State} (h : Idx c s) (ht : s'.tasks = s.tasks)
    (hcl : s'.closing = s.closing) : Idx c s' :=
  idx_sig h (by rw [ht]) hcl

theorem idx_empty (c : Int) (p : Params) :
    Idx c { ops := [], wds := [], total := [], tasks := [], closing := [], params := p } :=
  ⟨List.nodup_nil, fun _ _ => rfl⟩

/-! ### keys -/

theorem key_inj : ∀ {l : List Task}, (l.map Task.key).Nodup → ∀ {x y : Task}, x ∈ l → y ∈ l → x.key = y.key → x = y
  | [], _, _, _, hx, _, _ => by cases hx
  | a :: l, hn, x, y, hx, hy, hk => by
    simp only [List.map_cons, List.nodup_cons, List.mem_map, not_exists, not_and] at hn
    rcases List.mem_cons.1 hx with hxa | hx'
    · rcases List.mem_cons.1 hy with hya | hy'
      · rw [hxa, hya]
      · subst hxa; exact absurd hk.symm (hn.1 y hy')
    · rcases List.mem_cons.1 hy with hya | hy'
      · subst hya; exact absurd hk (hn.1 x hx')
      · exact key_inj hn.2 hx' hy' hk

theorem findTask_mem {s : State} {k : String} {t : Task} (h : findTask s k = some t) : t ∈ s.tasks ∧ t.key = k := by
  unfold findTask at h
  exact ⟨List.mem_of_find?_eq_some h, by simpa using List.find?_some h⟩

/-- replacing the task under a key by one with the same signature -/
theorem setTask_sig {s : State} {t t0 : Task} (hn : (s.tasks.map Task.key).Nodup)
    (hf : findTask s t.key = some t0) (hs : sig t = sig t0) :
    (setTask s t).tasks.map sig = s.tasks.map sig := by
  unfold setTask
  rw [hf]
  simp only [Option.isSome_some, if_true, List.map_map]
  apply List.map_congr_left
  intro x hx
  simp only [Function.comp]
  split
  · rename_i hk
    have hk' : x.key = t.key := by simpa using hk
    have : x = t0 := key_inj hn hx (findTask_mem hf).1 (by rw [hk', (findTask_mem hf).2])
    rw [this, hs]
  · rfl

theorem idx_setTask {c : Int} {s : State} {t t0 : Task} (h : Idx c s)
    (hf : findTask s t.key = some t0) (hs : sig t = sig t0) : Idx c (setTask s t) :=
  idx_sig h (setTask_sig h.1 hf hs) (setTask_closing s t)

/-- removing a task that closed before `c'` -/
theorem idx_delTask {c c' : Int} {s : State} {key : String} {t : Task} (h : Idx c s) (hc : c ≤ c')
    (hf : findTask s key = some t) (ht : t.closing < c') : Idx c' (delTask s key) := by
  refine ⟨?_, fun k hk => ?_⟩
  · exact h.1.sublist (List.Sublist.map _ List.filter_sublist)
  · rw [closingAt_congr (delTask_closing s key), h.2 k (by omega)]
    unfold idsAt delTask
    simp only [List.filter_filter]
    congr 1
    apply List.filter_congr
    intro x hx
    by_cases hk' : x.key = key
    · have : x = t := key_inj h.1 hx (findTask_mem hf).1 (by rw [hk', (findTask_mem hf).2])
      have hne : ¬ x.closing = k := by rw [this]; omega
      simp [hne]
    · simp [hk']

theorem findTask_delTask (s : State) (key : String) : findTask (delTask s key) key = none := by
  unfold findTask delTask
  simp only [List.find?_eq_none, List.mem_filter]
  intro x hx
  simpa using hx.2

theorem idsAt_append_one (k : Int) (ts : List Task) (t : Task) :
    idsAt k (ts ++ [t]) = idsAt k ts ++ (if t.closing = k then [(t.contract, t.function)] else []) := by
  unfold idsAt ids
  simp only [List.filter_append, List.map_append, List.filter_cons, List.filter_nil]
  by_cases h : t.closing = k <;> simp [h]

/-- a new task with a fresh key, registered in the index at its closing block -/
theorem idx_addTask {c : Int} {s : State} {t : Task} (h : Idx c s) (hf : findTask s t.key = none)
    (hc : c ≤ t.closing) : Idx c (addClosing (setTask s t) t.closing (t.contract, t.function)) := by
  have hts : (setTask s t).tasks = s.tasks ++ [t] := by
    unfold setTask; rw [hf]; rfl
  refine ⟨?_, fun k hk => ?_⟩
  · rw [addClosing_tasks, hts, List.map_append, List.nodup_append]
    refine ⟨h.1, by simp, ?_⟩
    intro a ha b hb
    simp only [List.map_cons, List.map_nil, List.mem_singleton] at hb
    subst hb
    obtain ⟨x, hx, hxa⟩ := List.mem_map.1 ha
    unfold findTask at hf
    have := List.find?_eq_none.1 hf x hx
    intro heq
    apply this
    simp [hxa, heq]
  · rw [closingAt_addClosing, addClosing_tasks, hts, idsAt_append_one]
    by_cases hkk : k = t.closing
    · subst hkk
      simp only [if_true]
      rw [closingAt_congr (setTask_closing s t), h.2 _ hc]
    · have : ¬ t.closing = k := fun h' => hkk h'.symm
      simp only [hkk, this, if_false, List.append_nil]
      rw [closingAt_congr (setTask_closing s t), h.2 k hk]

/-! ### the messages -/

theorem frame_createOperator {e : Env} {l l' : Ledger} {s s' : State} {a : Addr} {c : Coins} {p : Addr}
    (h : createOperator e l s a c p = .ok (l', s')) : s'.tasks = s.tasks ∧ s'.closing = s.closing := by
  unfold createOperator at h
  ok_cases h
  injection h with h; injection h with _ h; subst h; simp

theorem frame_removeOperator {e : Env} {l l' : Ledger} {s s' : State} {a : Addr}
    (h : removeOperator e l s a = .ok (l', s')) : s'.tasks = s.tasks ∧ s'.closing = s.closing := by
  unfold removeOperator at h
  ok_cases h
  injection h with h; injection h with _ h; subst h; simp [createWithdraw]

theorem frame_addCollateral {e : Env} {l l' : Ledger} {s s' : State} {a : Addr} {c : Coins}
    (h : addCollateral e l s a c = .ok (l', s')) : s'.tasks = s.tasks ∧ s'.closing = s.closing := by
  unfold addCollateral at h
  ok_cases h
  injection h with h; injection h with _ h; subst h; simp

theorem frame_reduceCollateral {e : Env} {l l' : Ledger} {s s' : State} {a : Addr} {c : Coins}
    (h : reduceCollateral e l s a c = .ok (l', s')) : s'.tasks = s.tasks ∧ s'.closing = s.closing := by
  unfold reduceCollateral at h
  ok_cases h
  injection h with h; injection h with _ h; subst h; simp [createWithdraw]

theorem frame_withdrawReward {e : Env} {l l' : Ledger} {s s' : State} {a : Addr}
    (h : withdrawReward e l s a = .ok (l', s')) : s'.tasks = s.tasks ∧ s'.closing = s.closing := by
  unfold withdrawReward at h
  ok_cases h
  injection h with h; injection h with _ h; subst h; simp

theorem frame_beginBlock {e : Env} {l l' : Ledger} {s s' : State}
    (h : beginBlock e l s = .ok (l', s')) : s'.tasks = s.tasks ∧ s'.closing = s.closing := by
  unfold beginBlock at h
  ok_cases h
  injection h with h; injection h with _ h; subst h; simp

theorem idx_respond {c : Int} {e : Env} {s s' : State} {ct fn : String} {sc : Int} {o : Addr}
    (h : respond e s ct fn sc o = .ok s') (hi : Idx c s) : Idx c s' := by
  unfold respond at h
  ok_cases h
  rename_i t hf _ _ _
  injection h with h; subst h
  refine idx_setTask hi (t0 := t) ?_ rfl
  show findTask s t.key = some t
  rw [(findTask_mem hf).2]; exact hf

theorem idx_deleteTask {c : Int} {e : Env} {s s' : State} {ct fn : String} {fo : Bool} {d : Addr}
    (h : deleteTask e s ct fn fo d = .ok s') (hc : c ≤ e.h) (hi : Idx c s) : Idx e.h s' := by
  unfold deleteTask at h
  ok_cases h
  rename_i t hf _ hfin _
  injection h with h; subst h
  refine idx_delTask hi hc hf ?_
  simp only [Gen.Oracle.rmNotFinished, decide_eq_true_eq] at hfin
  omega

theorem idx_createTask {c : Int} {e : Env} {l l' : Ledger} {s s' : State} {ct fn : String} {b : Coins} {cr : Addr}
    {w v : Int} (h : createTask e l s ct fn b cr w v = .ok (l', s')) (hc : c ≤ e.h) (hi : Idx c s) : Idx e.h s' := by
  unfold createTask at h
  dsimp only at h
  generalize (if Gen.Oracle.waitIsDefault w = true then s.params.window else w) = window at h
  generalize (if Gen.Oracle.validIsDefault v = true then e.t + s.params.expDur else e.t + v) = expi at h
  by_cases hw : Gen.Oracle.ctBadWait window = true
  · simp only [hw, if_true] at h; cases h
  · simp only [hw, Bool.false_eq_true, if_false] at h
    simp only [Gen.Oracle.ctBadWait, decide_eq_true_eq] at hw
    cases hf : findTask s (ct ++ fn) with
    | none =>
      rw [hf] at h
      dsimp only at h
      split at h
      · cases h
      · injection h with h; injection h with _ h; subst h
        refine idx_addTask (idx_mono hc hi) hf ?_
        simp only [Gen.Oracle.ctClosingBlock]; omega
    | some t =>
      rw [hf] at h
      dsimp only at h
      by_cases hcl : Gen.Oracle.ctNotClosed t.closing e.h = true
      · simp only [hcl, if_true] at h; cases h
      · simp only [hcl, Bool.false_eq_true, if_false] at h
        simp only [Gen.Oracle.ctNotClosed, decide_eq_true_eq] at hcl
        split at h
        · cases h
        · injection h with h; injection h with _ h; subst h
          refine idx_addTask (idx_delTask hi hc hf (by omega)) (findTask_delTask s _) ?_
          simp only [Gen.Oracle.ctClosingBlock]; omega

/-- every operation other than the end-blocker, run in a block of height `e.h ≥ c` -/
theorem idx_stepE {c : Int} {e : Env} {l l' : Ledger} {s s' : State} {op : Op} (hop : op ≠ .endBlock)
    (h : stepE e l s op = .ok (l', s')) (hc : c ≤ e.h) (hi : Idx c s) : Idx e.h s' := by
  have hi' := idx_mono hc hi
  cases op with
  | createOperator a co p => have := frame_createOperator h; exact idx_frame hi' this.1 this.2
  | removeOperator a => have := frame_removeOperator h; exact idx_frame hi' this.1 this.2
  | addCollateral a co => have := frame_addCollateral h; exact idx_frame hi' this.1 this.2
  | reduceCollateral a co => have := frame_reduceCollateral h; exact idx_frame hi' this.1 this.2
  | withdrawReward a => have := frame_withdrawReward h; exact idx_frame hi' this.1 this.2
  | createTask ct fn b cr w v => exact idx_createTask h hc hi
  | respond ct fn sc o =>
    simp only [stepE] at h
    cases hr : respond e s ct fn sc o with
    | error x => rw [hr] at h; cases h
    | ok s1 =>
      rw [hr] at h; injection h with h; injection h with _ h; subst h
      exact idx_respond hr hi'
  | deleteTask ct fn fo d =>
    simp only [stepE] at h
    cases hr : deleteTask e s ct fn fo d with
    | error x => rw [hr] at h; cases h
    | ok s1 =>
      rw [hr] at h; injection h with h; injection h with _ h; subst h
      exact idx_deleteTask hr hc hi
  | beginBlock => have := frame_beginBlock h; exact idx_frame hi' this.1 this.2
  | endBlock => exact absurd rfl hop

theorem idx_emptyState (c : Int) (p : Params) : Idx c (Shentu.Genesis.Oracle.emptyState p) := idx_empty c p

/-! ### the end-blocker -/

theorem aggregateE_sig {bond : Denom} {s : State} {key : String} {t1 : Task} (h : aggregateE bond s key = .ok t1) :
    ∃ t, findTask s key = some t ∧ sig t1 = sig t := by
  unfold aggregateE at h
  cases hf : findTask s key with
  | none => rw [hf] at h; cases h
  | some t =>
    rw [hf] at h
    refine ⟨t, rfl, ?_⟩
    ok_cases h
    all_goals (injection h with h; subst h; rfl)

theorem distributeBountyE_sig {bond : Denom} {s : State} {t t2 : Task} {incs : List (Addr × Coins)}
    (h : distributeBountyE bond s t = .ok (incs, t2)) : sig t2 = sig t := by
  unfold distributeBountyE at h
  ok_cases h
  injection h with h; injection h with _ h; subst h; rfl

theorem endOneE_sig {bond : Denom} {s : State} {key : String} {f : Task → Task} {incs : List (Addr × Coins)}
    (hn : (s.tasks.map Task.key).Nodup) (h : endOneE bond s key = .ok (f, incs)) :
    ∀ x ∈ s.tasks, x.key = key → sig (f x) = sig x := by
  unfold endOneE at h
  cases hagg : aggregateE bond s key with
  | error x =>
    rw [hagg] at h; dsimp only at h
    split at h
    · cases h
    · injection h with h; injection h with h _; subst h; intro x _ _; rfl
  | ok t1 =>
    rw [hagg] at h; dsimp only at h
    obtain ⟨t, hf, hs⟩ := aggregateE_sig hagg
    have hx : ∀ x ∈ s.tasks, x.key = key → x = t := fun x hx hk =>
      key_inj hn hx (findTask_mem hf).1 (by rw [hk, (findTask_mem hf).2])
    cases hd : distributeBountyE bond s t1 with
    | error x =>
      rw [hd] at h; dsimp only at h
      split at h
      · cases h
      · injection h with h; injection h with h _; subst h
        intro x hxm hk; rw [hx x hxm hk]; exact hs
    | ok p =>
      obtain ⟨incs', t2⟩ := p
      rw [hd] at h; dsimp only at h
      injection h with h; injection h with h _; subst h
      intro x hxm hk; rw [hx x hxm hk]; exact (distributeBountyE_sig hd).trans hs

/-- one task of the end-blocker keeps what the index reads -/
theorem endOne_keep {bond : Denom} {s s' : State} {id : String × String} (hn : (s.tasks.map Task.key).Nodup)
    (h : endOne bond s id = .ok s') : s'.tasks.map sig = s.tasks.map sig ∧ s'.closing = s.closing := by
  rw [endOne_eq bond id (Agree.refl _ s)] at h
  cases he : endOneE bond s (id.1 ++ id.2) with
  | error x => rw [he] at h; cases h
  | ok p =>
    obtain ⟨f, incs⟩ := p
    rw [he] at h; dsimp only at h
    injection h with h; subst h
    refine ⟨?_, rfl⟩
    unfold app
    simp only [List.map_map]
    apply List.map_congr_left
    intro x hx
    simp only [Function.comp]
    split
    · rename_i hk
      exact endOneE_sig hn he x hx (by simpa using hk)
    · rfl

theorem endFold_keep {bond : Denom} : ∀ (l : List (String × String)) {s s' : State}, (s.tasks.map Task.key).Nodup →
    endFold bond l s = .ok s' → s'.tasks.map sig = s.tasks.map sig ∧ s'.closing = s.closing
  | [], s, s', _, h => by
    unfold endFold at h; injection h with h; subst h; exact ⟨rfl, rfl⟩
  | id :: l, s, s', hn, h => by
    unfold endFold at h
    cases h1 : endOne bond s id with
    | error x => rw [h1] at h; cases h
    | ok s1 =>
      rw [h1] at h; dsimp only at h
      have k1 := endOne_keep hn h1
      have hn1 : (s1.tasks.map Task.key).Nodup := by rw [keys_of_sig, k1.1, ← keys_of_sig]; exact hn
      have k2 := endFold_keep l hn1 h
      exact ⟨k2.1.trans k1.1, k2.2.trans k1.2⟩

/-- the end-blocker of block `e.h`: the index is exact from `e.h + 1` on -/
theorem idx_endBlock {c : Int} {e : Env} {s s' : State} (h : endBlock e s = .ok s') (hc : c ≤ e.h) (hi : Idx c s) :
    Idx (e.h + 1) s' := by
  unfold endBlock at h
  cases hf : endFold e.bond (closingAt s e.h) s with
  | error x => rw [hf] at h; cases h
  | ok s1 =>
    rw [hf] at h; dsimp only at h
    injection h with h; subst h
    have k := endFold_keep _ hi.1 hf
    have hi1 : Idx c s1 := idx_sig hi k.1 k.2
    refine ⟨by rw [delClosing_tasks]; exact hi1.1, fun k' hk' => ?_⟩
    rw [closingAt_delClosing, delClosing_tasks]
    have : ¬ k' = e.h := by omega
    simp only [this, if_false]
    exact hi1.2 k' (by omega)

theorem idx_step {c : Int} {e : Env} {ls : Ledger × State} {op : Op} (hop : op ≠ .endBlock) (hc : c ≤ e.h)
    (hi : Idx c ls.2) : Idx e.h (step e ls op).2 := by
  unfold step
  cases h : stepE e ls.1 ls.2 op with
  | error x => exact idx_mono hc hi
  | ok r =>
    obtain ⟨l', s'⟩ := r
    exact idx_stepE hop h hc hi

/-! ### histories of blocks -/

/-- the messages of one block -/
abbrev Block := List Op

/-- the state after the messages of a block, before its end-blocker -/
def midBlock (e : Env) (ls : Ledger × State) (ops : Block) : Ledger × State :=
  ops.foldl (step e) (step e ls .beginBlock)

/-- one block: begin-blocker, the messages, end-blocker, all at the block's height -/
def runBlock (e : Env) (ls : Ledger × State) (ops : Block) : Ledger × State :=
  step e (midBlock e ls ops) .endBlock

def runBlocks : Ledger × State → List (Env × Block) → Ledger × State
  | ls, [] => ls
  | ls, (e, ops) :: rest => runBlocks (runBlock e ls ops) rest

/-- blocks at heights `h+1, h+2, ...`, no begin/end-blocker among the messages, the end-blocker never halts -/
def Good (h : Int) : Ledger × State → List (Env × Block) → Prop
  | _, [] => True
  | ls, (e, ops) :: rest =>
    e.h = h + 1 ∧ (∀ op ∈ ops, op ≠ .endBlock ∧ op ≠ .beginBlock) ∧
    (∃ r, stepE e (midBlock e ls ops).1 (midBlock e ls ops).2 .endBlock = .ok r) ∧
    Good (h + 1) (runBlock e ls ops) rest

theorem idx_foldl {e : Env} : ∀ (ops : List Op) (ls : Ledger × State), (∀ op ∈ ops, op ≠ .endBlock) →
    Idx e.h ls.2 → Idx e.h (ops.foldl (step e) ls).2
  | [], _, _, hi => hi
  | op :: ops, ls, ho, hi => by
    simp only [List.foldl_cons]
    exact idx_foldl ops _ (fun o hm => ho o (List.mem_cons_of_mem _ hm))
      (idx_step (ho op List.mem_cons_self) (Int.le_refl _) hi)

theorem idx_midBlock {c : Int} {e : Env} (hc : c ≤ e.h) (ls : Ledger × State) (ops : Block)
    (ho : ∀ op ∈ ops, op ≠ .endBlock) (hi : Idx c ls.2) : Idx e.h (midBlock e ls ops).2 :=
  idx_foldl ops _ ho (idx_step (by intro h; cases h) hc hi)

/-- one block whose end-blocker does not halt: exportable at its height -/
theorem exportable_runBlock {h : Int} {e : Env} {ls : Ledger × State} {ops : Block} (he : e.h = h + 1)
    (ho : ∀ op ∈ ops, op ≠ .endBlock)
    (hok : ∃ r, stepE e (midBlock e ls ops).1 (midBlock e ls ops).2 .endBlock = .ok r)
    (hx : Exportable h ls.2) : Exportable e.h (runBlock e ls ops).2 := by
  have hi : Idx e.h ls.2 := by rw [he]; exact (exportable_iff h ls.2).1 hx
  have hm := idx_midBlock (Int.le_refl _) ls ops ho hi
  obtain ⟨r, hr⟩ := hok
  rw [exportable_iff]
  unfold runBlock step
  rw [hr]
  simp only [stepE] at hr
  cases hb : endBlock e (midBlock e ls ops).2 with
  | error x => rw [hb] at hr; cases hr
  | ok s1 =>
    rw [hb] at hr; injection hr with hr; subst hr
    exact idx_endBlock hb (Int.le_refl _) hm

/-- the history theorem: after the blocks of heights `h+1 .. h+n` the state is exportable at height `h+n` -/
theorem exportable_runBlocks : ∀ (bs : List (Env × Block)) (h : Int) (ls : Ledger × State),
    Exportable h ls.2 → Good h ls bs → Exportable (h + bs.length) (runBlocks ls bs).2
  | [], h, ls, hx, _ => by simpa [runBlocks] using hx
  | (e, ops) :: rest, h, ls, hx, hg => by
    obtain ⟨he, ho, hok, hrest⟩ := hg
    have h1 := exportable_runBlock he (fun o hm => (ho o hm).1) hok hx
    rw [he] at h1
    have := exportable_runBlocks rest (h + 1) _ h1 hrest
    simp only [runBlocks, List.length_cons]
    have e2 : h + ((rest.length + 1 : Nat) : Int) = h + 1 + (rest.length : Int) := by omega
    rw [e2]; exact this

/-- from genesis with no oracle data -/
theorem exportable_from_empty (p : Params) (l : Ledger) (h : Int) (bs : List (Env × Block))
    (hg : Good h (l, Shentu.Genesis.Oracle.emptyState p) bs) :
    Exportable (h + bs.length) (runBlocks (l, Shentu.Genesis.Oracle.emptyState p) bs).2 :=
  exportable_runBlocks bs h _ ((exportable_iff h _).2 (idx_emptyState _ p)) hg

end Shentu.C20GOrcInv

namespace Shentu.C20GOrcInv
open Shentu Shentu.Oracle Shentu.C20GH

/-- non-vacuity: two blocks at heights 6 and 7 over the empty state satisfy the hypotheses of the history theorem -/
example (l : Ledger) (p : Params) (e6 e7 : Env) (h6 : e6.h = 6) (h7 : e7.h = 7) :
    Good 5 (l, Shentu.Genesis.Oracle.emptyState p) [(e6, []), (e7, [])] :=
  ⟨h6, by simp, ⟨_, rfl⟩, h7, by simp, ⟨_, rfl⟩, trivial⟩

end Shentu.C20GOrcInv

#print axioms Shentu.C20GOrcInv.exportable_iff
#print axioms Shentu.C20GOrcInv.idx_sig
#print axioms Shentu.C20GOrcInv.idx_stepE
#print axioms Shentu.C20GOrcInv.idx_endBlock
#print axioms Shentu.C20GOrcInv.exportable_runBlocks
#print axioms Shentu.C20GOrcInv.exportable_from_empty
