import Shentu.Proofs.C12TRun
import Shentu.Proofs.C12TVotes
/-
  Every step of the governance model keeps at most one stored vote per proposal and voter
  (for `Shentu/Props/C12T.lean`).
-/
namespace Shentu.C12TH
open Shentu Shentu.Gov
set_option linter.unusedSimpArgs false
set_option linter.unusedVariables false

/-- the step only deletes votes -/
def VSub (w w' : World) : Prop := w'.g.votes.Sublist w.g.votes

theorem VSub.refl (w : World) : VSub w w := List.Sublist.refl _
theorem VSub.trans {w₁ w₂ w₃ : World} (h12 : VSub w₁ w₂) (h23 : VSub w₂ w₃) : VSub w₁ w₃ := List.Sublist.trans h23 h12
theorem VSub.of_eq {w w' : World} (h : w'.g.votes = w.g.votes) : VSub w w' := by unfold VSub; rw [h]; exact List.Sublist.refl _

theorem activate_votes (e : Env) (g : State) (p : Proposal) : (activateVotingPeriod e g p).votes = g.votes := by
  unfold activateVotingPeriod; rw [setP_votes]

theorem finish_votes (w : World) (p : Proposal) (pass : Bool) (t : Tally) : (finish w p pass t).g.votes = w.g.votes := by
  unfold finish
  split
  · split
    · rename_i w' hw'
      have ⟨_, hg⟩ := runHandler_frame hw'
      show (setP w'.g _).votes = _
      rw [setP_votes, hg]
    · show (setP w.g _).votes = _; rw [setP_votes]
  · show (setP w.g _).votes = _; rw [setP_votes]

theorem stakeTally_votes (e : Env) (g : State) (p : Proposal) (cd : Int) :
    (stakeTally e g p cd).2.2.2.votes = g.votes.filter (fun v => !(v.pid == p.id)) := by
  unfold stakeTally; rfl

theorem processActive_vsub (e : Env) (w w' : World) (p : Proposal) (h : processActive e w p = .ok w') : VSub w w' := by
  unfold processActive at h
  split at h
  · generalize securityTally w.g w.c p = st at h
    obtain ⟨pass, endVoting, t⟩ := st
    dsimp only at h
    split at h
    · cases h
      show (activateVotingPeriod e _ p).votes.Sublist _
      rw [activate_votes]; exact List.filter_sublist
    · split at h
      · cases h
      · rename_i w1 hw1
        cases h
        have ⟨_, _, _, f4⟩ := refund_frame hw1
        unfold VSub; rw [finish_votes, f4]; exact List.Sublist.refl _
  · have hv := stakeTally_votes e w.g p 0
    generalize stakeTally e w.g p 0 = st at h hv
    obtain ⟨pass, veto, t, g1⟩ := st
    dsimp only at h hv
    split at h
    · split at h
      · cases h
      · rename_i w2 hw2
        cases h
        have ⟨_, _, _, f4⟩ := burn_frame hw2
        unfold VSub; rw [finish_votes, f4]
        show g1.votes.Sublist _
        rw [hv]; exact List.filter_sublist
    · split at h
      · cases h
      · rename_i w2 hw2
        cases h
        have ⟨_, _, _, f4⟩ := refund_frame hw2
        unfold VSub; rw [finish_votes, f4]
        show g1.votes.Sublist _
        rw [hv]; exact List.filter_sublist

theorem processSecurityVote_vsub (e : Env) (w w' : World) (p : Proposal) (h : processSecurityVote e w p = .ok w') :
    VSub w w' := by
  unfold processSecurityVote at h
  split at h
  · cases h; exact VSub.refl w
  · generalize securityTally w.g w.c p = st at h
    obtain ⟨pass, endVoting, t⟩ := st
    dsimp only at h
    split at h
    · cases h; exact VSub.refl w
    · split at h
      · split at h
        · cases h
        · rename_i w1 hw1
          cases h
          have hfr : w1.g.votes = w.g.votes := by
            split at hw1
            · exact (refund_frame hw1).2.2.2
            · cases hw1; rfl
          unfold VSub; rw [finish_votes, hfr]; exact List.Sublist.refl _
      · cases h
        show (activateVotingPeriod e _ p).votes.Sublist _
        rw [activate_votes]; exact List.filter_sublist

theorem foldIds_vsub (f : World → Proposal → Except Err World) (hf : ∀ w w' p, f w p = .ok w' → VSub w w') :
    ∀ (ids : List Nat) (w w' : World), foldIds f ids w = .ok w' → VSub w w' := by
  intro ids
  induction ids with
  | nil => intro w w' h; unfold foldIds at h; cases h; exact VSub.refl w
  | cons id ids ih =>
    intro w w' h
    unfold foldIds at h
    cases hp : findP w.g id with
    | none => rw [hp] at h; exact ih w w' h
    | some p =>
      rw [hp] at h
      dsimp only at h
      cases h1 : f w p with
      | error x => rw [h1] at h; cases h
      | ok w1 =>
        rw [h1] at h
        dsimp only at h
        exact (hf w w1 p h1).trans (ih w1 w' h)

theorem endBlock_vsub (e : Env) (w w' : World) (h : endBlock e w = .ok w') : VSub w w' := by
  unfold endBlock at h
  dsimp only at h
  split at h
  · cases h
  · rename_i w1 hw1
    have a1 : VSub w w1 := foldIds_vsub (fun w p => refundDeposits e { w with g := delP w.g p.id } p.id)
      (fun w w' p hh => VSub.of_eq (w := w) (w' := w') (refund_frame hh).2.2.2) _ w w1 hw1
    split at h
    · cases h
    · rename_i w2 hw2
      have a2 : VSub w1 w2 := foldIds_vsub _ (processActive_vsub e) _ w1 w2 hw2
      have a3 : VSub w2 w' := foldIds_vsub _ (processSecurityVote_vsub e) _ w2 w' h
      exact (a1.trans a2).trans a3

theorem addDeposit_votes (e : Env) (w w' : World) (pid : Nat) (a : Addr) (amt : Coins)
    (h : addDeposit e w pid a amt = .ok w') : w'.g.votes = w.g.votes := by
  unfold addDeposit at h
  split at h
  · cases h
  · split at h
    · cases h
    · split at h
      · cases h
      · dsimp only at h
        cases h
        dsimp only
        split
        · rw [activate_votes, setP_votes]
        · rw [setP_votes]

theorem submit_votes (e : Env) (w w' : World) (a : Addr) (p0 : Proposal) (d : Coins)
    (h : submit e w a p0 d = .ok w') : w'.g.votes = w.g.votes := by
  unfold submit at h
  extract_lets council p src g1 at h
  split at h; · cases h
  split at h; · cases h
  split at h; · cases h
  split at h
  · cases h
  · have hg1 : g1.votes = w.g.votes := by show (setP w.g p).votes = _; rw [setP_votes]
    split at h
    · cases h
      show (activateVotingPeriod e g1 p).votes = _
      rw [activate_votes, hg1]
    · rw [addDeposit_votes e _ w' p.id a d h]; exact hg1

theorem step_votesWF (w w' : World) (op : Op) (hwf : VotesWF w.g.votes) (h : step w op = .ok w') : VotesWF w'.g.votes := by
  cases op with
  | submit e a p0 d => rw [submit_votes e w w' a p0 d h]; exact hwf
  | deposit e pid a amt => rw [addDeposit_votes e w w' pid a amt h]; exact hwf
  | vote pid a o =>
    simp only [step] at h
    unfold vote at h
    split at h; · cases h
    split at h; · cases h
    split at h; · cases h
    split at h; · cases h
    split at h; · cases h
    split at h; · cases h
    cases h
    exact votesWF_setVote pid a o _ hwf
  | endBlock e => exact List.Pairwise.sublist (endBlock_vsub e w w' h) hwf

theorem run_votesWF (ops : List Op) : ∀ (w : World), VotesWF w.g.votes → VotesWF (run w ops).g.votes := by
  induction ops with
  | nil => intro w h; exact h
  | cons op ops ih =>
    intro w h
    apply ih
    unfold apply
    cases hs : step w op with
    | ok w' => exact step_votesWF w w' op h hs
    | error x => exact h

end Shentu.C12TH
