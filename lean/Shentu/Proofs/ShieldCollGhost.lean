import Shentu.Proofs.ShieldCollQueue
/-
  Ghost bookkeeping for C07: the log of withdrawal requests (explicit ones and the ones forced by the staking
  hooks) and how much the amount maturing by a time `T` can grow in one step.
-/
set_option linter.unusedSimpArgs false
set_option linter.unusedVariables false
namespace Shentu.Shield.Coll
open List

/-- a logged request: who, how much, when it was made -/
structure Req where
  addr : Addr
  amount : Int
  time : Int
  deriving DecidableEq, Repr, Inhabited

/-- the amount `a` has requested at or before `T − P` -/
def logSum (P : Int) (log : List Req) (a : Addr) (T : Int) : Int :=
  sumI (·.amount) (log.filter (fun r => r.addr == a && decide (r.time + P ≤ T)))

@[simp] theorem logSum_nil (P : Int) (a : Addr) (T : Int) : logSum P [] a T = 0 := rfl

theorem logSum_cons (P : Int) (r : Req) (log : List Req) (a : Addr) (T : Int) :
    logSum P (r :: log) a T = (if r.addr == a && decide (r.time + P ≤ T) then r.amount else 0) + logSum P log a T := by
  unfold logSum
  by_cases h : (r.addr == a && decide (r.time + P ≤ T)) = true
  · simp only [List.filter_cons, h, if_true, sumI_cons]
  · simp only [List.filter_cons, h, if_false]; simp

theorem logSum_append (P : Int) (l1 l2 : List Req) (a : Addr) (T : Int) :
    logSum P (l1 ++ l2) a T = logSum P l1 a T + logSum P l2 a T := by
  unfold logSum; rw [List.filter_append, sumI_append]

/-- in going from `q` to `q'`, what matures by any time grows by at most the requests `add` made a full period earlier -/
def QGrow (P : Int) (add : List Req) (q q' : List Withdraw) : Prop :=
  ∀ a T, dueBy a T q' ≤ dueBy a T q + logSum P add a T

theorem QGrow.refl (P : Int) (q : List Withdraw) : QGrow P [] q q := by
  intro a T; simp

theorem QGrow.of_le {P : Int} {q q' : List Withdraw} (h : ∀ a T, dueBy a T q' ≤ dueBy a T q) : QGrow P [] q q' := by
  intro a T; have := h a T; simp; omega

theorem QGrow.trans {P : Int} {add1 add2 : List Req} {q1 q2 q3 : List Withdraw} (h1 : QGrow P add1 q1 q2)
    (h2 : QGrow P add2 q2 q3) : QGrow P (add1 ++ add2) q1 q3 := by
  intro a T
  have := h1 a T
  have := h2 a T
  rw [logSum_append]; omega

theorem dueBy_insertWithdraw (b : Addr) (T : Int) (w : Withdraw) (q : List Withdraw) :
    dueBy b T (insertWithdraw w q) = (if w.addr == b && decide (w.time ≤ T) then w.amount else 0) + dueBy b T q := by
  unfold dueBy; rw [wsum_insertWithdraw]

/-- a request adds to what matures by `T` exactly when it was made by `T − P` -/
theorem requested_qgrow {e : Env} {s : State} {a : Addr} {amount : Int} {p : Provider} :
    QGrow s.params.withdrawPeriod [⟨a, amount, e.t⟩] s.withdraws (requested e s a amount p).withdraws := by
  intro b T
  show dueBy b T (insertWithdraw _ _) ≤ _
  rw [dueBy_insertWithdraw, logSum_cons, logSum_nil]
  simp only
  omega

/-- the request logged by a call of `WithdrawCollateral` -/
def requestLog (e : Env) (a : Addr) (amount : Int) : List Req := if amount = 0 then [] else [⟨a, amount, e.t⟩]

theorem withdrawCollateral_qgrow (e : Env) (s s' : State) (a : Addr) (amount : Int)
    (h : withdrawCollateral e s a amount = .ok s') :
    QGrow s.params.withdrawPeriod (requestLog e a amount) s.withdraws s'.withdraws := by
  rcases withdrawCollateral_spec e s s' a amount h with ⟨h0, h1⟩ | ⟨h0, p, hf, hle, h1⟩
  · rw [h1]; simp only [requestLog, h0, if_true]; exact QGrow.refl _ _
  · subst h1; simp only [requestLog, h0, if_false]; exact requested_qgrow

/-- the request logged by the staking hook: the forced withdrawal, if any -/
def hookLog (e : Env) (s : State) (a : Addr) (staked : Int) : List Req :=
  match findProvider s a with
  | none => []
  | some p => if p.collateral - p.withdrawing - staked > 0 then [⟨a, p.collateral - p.withdrawing - staked, e.t⟩] else []

def changedLog (e : Env) (s : State) (a : Addr) : List Req :=
  match e.bondedAfter a with
  | none => []
  | some b => hookLog e s a b

theorem stakingHook_qgrow (e : Env) (s s' : State) (a : Addr) (staked : Int) (h : stakingHook e s a staked = .ok s') :
    QGrow s.params.withdrawPeriod (hookLog e s a staked) s.withdraws s'.withdraws := by
  rcases stakingHook_spec e s s' a staked h with ⟨hf, h1⟩ | ⟨p, hf, ⟨hw, h1⟩ | ⟨hw, hst, h1⟩⟩
  · rw [h1]; simp only [hookLog, hf]; exact QGrow.refl _ _
  · subst h1
    have : ¬ (p.collateral - p.withdrawing - staked > 0) := by omega
    simp only [hookLog, hf, this, if_false]; exact QGrow.refl _ _
  · subst h1
    have : p.collateral - p.withdrawing - staked > 0 := by omega
    simp only [hookLog, hf, this, if_true]
    exact requested_qgrow (s := rebonded s p staked)

theorem stakingChanged_qgrow (e : Env) (s s' : State) (a : Addr) (h : stakingChanged e s a = .ok s') :
    QGrow s.params.withdrawPeriod (changedLog e s a) s.withdraws s'.withdraws := by
  unfold stakingChanged at h
  unfold changedLog
  cases hb : e.bondedAfter a with
  | none => rw [hb] at h; injection h with h; subst h; exact QGrow.refl _ _
  | some b => rw [hb] at h; exact stakingHook_qgrow e s s' a b h

theorem Postponed.qgrow {P : Int} {q q' : List Withdraw} (h : Postponed q q') (hp : ∀ w ∈ q, 0 < w.amount) : QGrow P [] q q' :=
  QGrow.of_le (h.early hp)

theorem PayoutLike.qgrow {P : Int} {a : Addr} {payout : Int} {s s' : State} (h : PayoutLike a payout s s') :
    QGrow P [] s.withdraws s'.withdraws :=
  QGrow.of_le (fun b T => h.le _ (fun _ _ => rfl))

/-! ## releasing: what `DequeueCompletedWithdrawQueue` does to `dueBy` -/

theorem dueBy_filter_not_due (b : Addr) (t T : Int) (q : List Withdraw) (h : t ≤ T) :
    dueBy b T (q.filter (fun w => !(decide (w.time ≤ t)))) = dueBy b T q - dueBy b t q := by
  induction q with
  | nil => simp [dueBy]
  | cons x xs ih =>
    unfold dueBy at *
    by_cases hx : x.time ≤ t
    · have hx' : x.time ≤ T := by omega
      simp only [List.filter_cons, hx, decide_true, Bool.not_true, wsum_cons, hx', Bool.and_true]
      simp only [Bool.false_eq_true, if_false]
      rw [ih]; split <;> omega
    · simp only [List.filter_cons, hx, decide_false, Bool.not_false, if_true, wsum_cons, Bool.and_false]
      simp only [Bool.false_eq_true, if_false]
      rw [ih]; omega

theorem dueBy_nonneg (b : Addr) (T : Int) (q : List Withdraw) (hp : ∀ w ∈ q, 0 < w.amount) : 0 ≤ dueBy b T q :=
  wsum_nonneg _ _ hp

end Shentu.Shield.Coll
