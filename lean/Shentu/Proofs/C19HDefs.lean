import Shentu.Model.Cvm
/-
  C19 at the level of whole histories: definitions only (no theorem lives here).

  A `World` puts together the three stores the manual-vesting rules read and write: the bank ledger, the list of manual
  vesting accounts and the contract store.  `accts` is the set of addresses that have an account in the auth keeper
  (what `GetAccount` answers); it only decides which messages are refused.

  `Op` lists every operation of the models that can touch a manual vesting account or its coins.  `stepE` applies the
  model's own function (`Vesting.send`, `Vesting.lockedSend`, `Vesting.unlock`, `Vesting.delegate`, `Cvm.call`,
  `Cvm.deploy`, `Cvm.sendToContract`) to the stores; `step` keeps the world as it was when the function reports an error;
  `run` folds `step` over a history.

  What `stepE` adds on top of the model functions (each item mirrors the message path of the chain, see
  `Drivers/ChainDriver.lean` `applyMsg`, and none of them is a hypothesis of a theorem — they are part of `step`):
   * a bank send to an address with code goes through `Cvm.sendToContract`, as the chain's bank keeper does;
   * a multi-send is the spendable check on the total followed by the credits (the driver's inline definition), with the
     `ValidateBasic` rule that every output is a positive amount, and refused when an output address has code;
   * a fee is a `Vesting.send` to the fee collector (fees are taken by the bank's `SubtractCoins`; the models have no
     separate fee function);
   * a deployment at an address that already has an account is refused: the chain derives the new address from the caller
     and its sequence number and Burrow's `CreateAccount` refuses an existing account, whereas the model's `deploy` takes the
     address as an input;
   * the value of a call or deployment is a `Nat` (a `uint64` in the message);
   * for a locked send, the "existing account that is not a vesting account" test is: known to auth or holding code, and not
     a vesting account; for an unlock, "the account exists" is: known to auth, or a vesting account, or holding code.
  The models have `delegate` but no undelegation, so there is none here.
-/
namespace Shentu.C19H
open Shentu Shentu.Vesting

structure Cfg where
  bond : Denom
  feeCollector : Addr
  deriving Inhabited

structure World where
  l : Ledger
  vs : Accounts
  cvm : Cvm.State
  accts : List Addr
  deriving Inhabited

/-- the genesis without vesting accounts and contracts -/
def World.empty : World := { l := { posts := [], supply := [] }, vs := [], cvm := { contracts := [] }, accts := [] }

inductive Op where
  | send (src dst : Addr) (amt : Coins)
  | multiSend (src : Addr) (outs : List (Addr × Coins))
  | fee (payer : Addr) (amt : Coins)
  | lockedSend (src dst unlocker : Addr) (amt : Coins)
  | unlock (issuer account : Addr) (amt : Coins)
  | call (caller callee : Addr) (value : Nat) (data0 : String) (data0Zero : Bool) (target : Addr) (hasData : Bool)
  | deploy (caller newAddr : Addr) (code : String) (value : Nat)
  | delegate (del pool : Addr) (d : Denom) (amount : Int)
  deriving Inhabited

/-- an address known to the auth keeper, under any of its forms -/
def hasAccount (w : World) (a : Addr) : Bool :=
  w.accts.contains a || (find w.vs a).isSome || (Cvm.find w.cvm a).isSome
/-- an existing account that is not a manual vesting account -/
def isPlain (w : World) (a : Addr) : Bool :=
  (w.accts.contains a || (Cvm.find w.cvm a).isSome) && (find w.vs a).isNone

/-- `MsgMultiSend` with one input: every output positive, the total covered by the spendable balance of the sender -/
def multiSend (l : Ledger) (vs : Accounts) (src : Addr) (outs : List (Addr × Coins)) : Except Err Ledger :=
  if outs.any (fun o => !Coins.isAllPositive o.2) then err "basic:bank:invalid-coins"
  else
    let total : Coins := outs.flatMap (·.2)
    match canSpend l vs src total with
    | .error x => .error x
    | .ok _ => .ok (outs.foldl (fun l o => l.credit o.1 o.2) (l.debit src total))

def stepE (c : Cfg) (w : World) : Op → Except Err World
  | .send src dst amt =>
    if Cvm.kindAt w.cvm dst != "none" then
      match Cvm.sendToContract c.bond w.l w.vs w.cvm src dst amt with
      | .error x => .error x
      | .ok (l, k) => .ok { w with l := l, cvm := k }
    else
      match Vesting.send w.l w.vs src dst amt with
      | .error x => .error x
      | .ok l => .ok { w with l := l, accts := dst :: w.accts }
  | .multiSend src outs =>
    if outs.any (fun o => Cvm.kindAt w.cvm o.1 != "none") then err "bank:code-exists"
    else
      match multiSend w.l w.vs src outs with
      | .error x => .error x
      | .ok l => .ok { w with l := l, accts := outs.map (·.1) ++ w.accts }
  | .fee payer amt =>
    match Vesting.send w.l w.vs payer c.feeCollector amt with
    | .error x => .error x
    | .ok l => .ok { w with l := l }
  | .lockedSend src dst unlocker amt =>
    match Vesting.lockedSend w.l w.vs (isPlain w) src dst unlocker amt with
    | .error x => .error x
    | .ok (l, vs) => .ok { w with l := l, vs := vs, accts := dst :: w.accts }
  | .unlock issuer account amt =>
    match Vesting.unlock w.vs (hasAccount w) issuer account amt with
    | .error x => .error x
    | .ok vs => .ok { w with vs := vs }
  | .call caller callee value data0 data0Zero target hasData =>
    match Cvm.call c.bond w.l w.vs w.cvm caller callee (value : Int) data0 data0Zero target hasData with
    | .error x => .error x
    | .ok (l, k) => .ok { w with l := l, cvm := k }
  | .deploy caller newAddr code value =>
    if hasAccount w newAddr then err "cvm:account-exists"
    else
      match Cvm.deploy c.bond w.l w.vs w.cvm caller newAddr code (value : Int) with
      | .error x => .error x
      | .ok (l, k) => .ok { w with l := l, cvm := k, accts := newAddr :: w.accts }
  | .delegate del pool d amount =>
    match Vesting.delegate w.l w.vs del pool d amount with
    | .error x => .error x
    | .ok (l, vs) => .ok { w with l := l, vs := vs }

/-- a failed transaction changes nothing -/
def step (c : Cfg) (w : World) (op : Op) : World :=
  match stepE c w op with
  | .ok w' => w'
  | .error _ => w

def run (c : Cfg) (w : World) (ops : List Op) : World := ops.foldl (step c) w

/-! ### The quantities the property speaks about -/

/-- the still-locked amount of the account at `a`: original − unlocked; 0 when `a` is not a manual vesting account -/
def stillLocked (w : World) (a : Addr) (d : Denom) : Int :=
  match find w.vs a with
  | some m => vestingAmt m d
  | none => 0

/-- what the account at `a` has received by locked sends (`OriginalVesting`); 0 when `a` is not a manual vesting account -/
def originalOf (w : World) (a : Addr) (d : Denom) : Int :=
  match find w.vs a with
  | some m => Coins.amountOf m.ov d
  | none => 0
/-- what has been unlocked for the account at `a` (`VestedCoins`); 0 when `a` is not a manual vesting account -/
def unlockedOf (w : World) (a : Addr) (d : Denom) : Int :=
  match find w.vs a with
  | some m => Coins.amountOf m.vested d
  | none => 0

/-- what must hold of one manual vesting account `m` stored under address `a`, given the ledger -/
structure AccOK (l : Ledger) (a : Addr) (m : MVA) : Prop where
  vested_nonneg : ∀ d, 0 ≤ Coins.amountOf m.vested d
  vested_le : ∀ d, Coins.amountOf m.vested d ≤ Coins.amountOf m.ov d
  dv_nonneg : ∀ d, 0 ≤ Coins.amountOf m.dv d
  df_nonneg : ∀ d, 0 ≤ Coins.amountOf m.df d
  present : ∀ d, vestingAmt m d ≤ l.balOf a d + Coins.amountOf m.dv d

/-- well-formed worlds: no negative balance; one record per vesting address; every record is sound and its still-locked
    coins are in the account or delegated; no vesting account holds code -/
structure WF (w : World) : Prop where
  nonneg : ∀ a d, 0 ≤ w.l.balOf a d
  nodup : (w.vs.map (·.addr)).Nodup
  acc : ∀ a m, find w.vs a = some m → AccOK w.l a m
  sep : ∀ a m, find w.vs a = some m → Cvm.find w.cvm a = none

/-! ### The ghost log: the accepted locked sends and unlocks of a history -/

inductive Change where
  | locked (dst : Addr) (amt : Coins)
  | unlocked (account issuer : Addr) (amt : Coins)
  deriving Inhabited, DecidableEq

/-- what an operation adds to the log when it is accepted in `w` -/
def changeOf (c : Cfg) (w : World) (op : Op) : List Change :=
  match stepE c w op with
  | .error _ => []
  | .ok _ =>
    match op with
    | .lockedSend _ dst _ amt => [.locked dst amt]
    | .unlock issuer account amt => [.unlocked account issuer amt]
    | _ => []

def changes (c : Cfg) : World → List Op → List Change
  | _, [] => []
  | w, op :: ops => changeOf c w op ++ changes c (step c w op) ops

/-- the sum, in denomination `d`, of the logged locked sends to `a` -/
def lockedIn (cs : List Change) (a : Addr) (d : Denom) : Int :=
  (cs.map (fun e => match e with
    | .locked dst amt => if dst = a then Coins.amountOf amt d else 0
    | .unlocked _ _ _ => 0)).sum
/-- the sum, in denomination `d`, of the logged unlocks of `a` -/
def unlockedOut (cs : List Change) (a : Addr) (d : Denom) : Int :=
  (cs.map (fun e => match e with
    | .locked _ _ => 0
    | .unlocked acct _ amt => if acct = a then Coins.amountOf amt d else 0)).sum

end Shentu.C19H
