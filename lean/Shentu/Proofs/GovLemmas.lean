import Shentu.Model.Gov
import Shentu.Proofs.Tactics
namespace Shentu.Gov

theorem find_map_replaceP (l : List Proposal) (p : Proposal) (id : Nat) :
    (l.map (fun x => if x.id == p.id then p else x)).find? (·.id == id) =
      if p.id == id then (l.find? (·.id == p.id)).map (fun _ => p) else l.find? (·.id == id) := by
  induction l with
  | nil => simp
  | cons x xs ih =>
    simp only [List.map_cons, List.find?_cons, ih]
    clear ih
    cases h1 : (x.id == p.id) <;> cases h2 : (p.id == id) <;> cases h3 : (x.id == id) <;>
      simp_all <;> (split <;> simp_all)

theorem findP_setP (g : State) (p : Proposal) (id : Nat) :
    findP (setP g p) id = if p.id == id then some p else findP g id := by
  unfold setP
  split
  · rename_i h
    show List.find? (·.id == id) (g.proposals.map (fun x => if x.id == p.id then p else x)) = _
    rw [find_map_replaceP]
    have hs : (g.proposals.find? (·.id == p.id)).isSome := h
    by_cases ho : p.id == id
    · simp only [ho, if_true]
      cases hf : g.proposals.find? (·.id == p.id) with
      | none => simp [hf] at hs
      | some v => simp
    · simp [ho, findP]
  · rename_i h
    show List.find? (·.id == id) (g.proposals ++ [p]) = _
    have hn : g.proposals.find? (·.id == p.id) = none := by
      cases hf : g.proposals.find? (·.id == p.id) with
      | none => rfl
      | some v => exact absurd (by simp [findP, hf]) h
    by_cases ho : p.id == id
    · have : id = p.id := (beq_iff_eq.mp ho).symm
      subst this
      simp [hn]
    · have ho' : (p.id == id) = false := by simpa using ho
      simp [ho', findP]

@[simp] theorem setP_deposits (g : State) (p : Proposal) : (setP g p).deposits = g.deposits := by unfold setP; split <;> rfl
@[simp] theorem setP_votes (g : State) (p : Proposal) : (setP g p).votes = g.votes := by unfold setP; split <;> rfl
@[simp] theorem setP_params (g : State) (p : Proposal) : (setP g p).params = g.params := by unfold setP; split <;> rfl
@[simp] theorem setP_nextId (g : State) (p : Proposal) : (setP g p).nextId = g.nextId := by unfold setP; split <;> rfl

end Shentu.Gov
