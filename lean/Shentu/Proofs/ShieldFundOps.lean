import Shentu.Proofs.ShieldFundLemmas
/-
  C02 helper lemmas, part 2: every operation that touches neither the ledger nor the owed amounts
  is `Same` (collateral, staking hooks, claims bookkeeping, pool administration).
-/
namespace Shentu.Shield.Fund
open Shentu

theorem nodup_insert_middle {κ} (l1 l2 : List κ) (k : κ) (hn : (l1 ++ l2).Nodup) (hk : k ∉ l1 ++ l2) :
    (l1 ++ k :: l2).Nodup := by
  rw [List.perm_middle.nodup_iff]
  exact List.nodup_cons.mpr ⟨hk, hn⟩

/-- a fresh provider record inserted in store order and then overwritten -/
theorem insert_replace (l : List Provider) (p0 p0' : Provider)
    (hf : l.find? (fun x => x.addr == p0.addr) = none) (ha : p0'.addr = p0.addr) :
    ∃ l1 l2, l = l1 ++ l2 ∧
      (insertProvider p0 l).map (fun x => if x.addr == p0'.addr then p0' else x) = l1 ++ p0' :: l2 := by
  obtain ⟨l1, l2, h1, h2⟩ := insertProvider_split p0 l
  refine ⟨l1, l2, h1, ?_⟩
  have hall := find_none_all _ l hf
  rw [h2, ha]
  apply map_replace_split (fun x : Provider => x.addr == p0.addr) p0 p0' l1 l2
  · intro x hx; exact hall x (by rw [h1]; exact List.mem_append_left _ hx)
  · intro x hx; exact hall x (by rw [h1]; exact List.mem_append_right _ hx)
  · simp

/-! ## collateral and the staking hooks -/

theorem withdrawCollateral_same (e : Env) (s s' : State) (a : Addr) (amount : Int)
    (h : withdrawCollateral e s a amount = .ok s') : Same s s' := by
  unfold withdrawCollateral at h
  ok_cases h
  · injection h with h; subst h; exact Same.refl _
  · rename_i p hp _
    injection h with h; subst h
    exact (setProvider_same s a p { p with withdrawing := p.withdrawing + amount } hp rfl rfl).trans
      (Frame.same ⟨rfl, rfl, rfl, rfl, rfl⟩)

theorem stakingHook_same (e : Env) (s s' : State) (a : Addr) (staked : Int)
    (h : stakingHook e s a staked = .ok s') : Same s s' := by
  unfold stakingHook at h
  ok_cases h
  · injection h with h; subst h; exact Same.refl _
  · rename_i p hp _ _ s2 hw
    injection h with h; subst h
    exact (setProvider_same s a p { p with bonded := staked } hp rfl rfl).trans (withdrawCollateral_same _ _ _ _ _ hw)
  · rename_i p hp _
    injection h with h; subst h
    exact setProvider_same s a p { p with bonded := staked } hp rfl rfl

theorem stakingChanged_same (e : Env) (s s' : State) (a : Addr)
    (h : stakingChanged e s a = .ok s') : Same s s' := by
  unfold stakingChanged at h
  ok_cases h
  · injection h with h; subst h; exact Same.refl _
  · exact stakingHook_same _ _ _ _ _ h

theorem withdraw_same (e : Env) (s s' : State) (a : Addr) (c : Coins)
    (h : withdraw e s a c = .ok s') : Same s s' := by
  unfold withdraw at h
  ok_cases h
  exact withdrawCollateral_same _ _ _ _ _ h

theorem deposit_same (e : Env) (s s' : State) (a : Addr) (c : Coins)
    (h : deposit e s a c = .ok s') : Same s s' := by
  unfold deposit at h
  ok_cases h
  · -- the provider exists
    rename_i p0 hp _
    injection h with h; subst h
    exact (setProvider_same s a p0 { p0 with collateral := p0.collateral + Coins.amountOf c e.bond } hp rfl rfl).trans
      (Frame.same ⟨rfl, rfl, rfl, rfl, rfl⟩)
  · -- a new provider record
    rename_i hp _
    injection h with h; subst h
    refine ⟨rfl, rfl, rfl, fun hn => ?_, fun hn => ⟨hn, rfl⟩⟩
    obtain ⟨l1, l2, h1, h2⟩ := insert_replace s.providers
      { addr := a, collateral := 0, withdrawing := 0, bonded := (e.bondedAfter a).getD 0, rewards := Dec.zero }
      { addr := a, collateral := 0 + Coins.amountOf c e.bond, withdrawing := 0, bonded := (e.bondedAfter a).getD 0, rewards := Dec.zero }
      hp rfl
    have hnew : ∀ x ∈ s.providers, x.addr ≠ a := by
      intro x hx
      have := find_none_all _ _ hp x hx
      simpa using this
    simp only [sumRewards, setProvider]
    rw [h2]
    constructor
    · rw [h1] at hn hnew
      simp only [List.map_append, List.map_cons]
      apply nodup_insert_middle
      · simpa using hn
      · intro hc
        rw [← List.map_append] at hc
        obtain ⟨x, hx, hxa⟩ := List.mem_map.mp hc
        exact hnew x hx hxa
    · rw [h1]; simp [Dec.zero]

/-! ## staking for shield, pools -/

theorem findStake_key (s : State) (pool : Nat) (a : Addr) (k : Stake) (h : findStake s pool a = some k) :
    k.pool = pool ∧ k.purchaser = a := by
  have := List.find?_some h
  simpa using this

/-- overwriting an existing stake record: the list splits around the one record with that key -/
theorem setStake_split (s : State) (pool : Nat) (a : Addr) (k k' : Stake) (hn : (s.stakes.map stakeKey).Nodup)
    (hf : findStake s pool a = some k) (hp : k'.pool = pool) (ha : k'.purchaser = a) :
    ∃ l1 l2, s.stakes = l1 ++ k :: l2 ∧ (setStake s k').stakes = l1 ++ k' :: l2 := by
  obtain ⟨hk1, hk2⟩ := findStake_key s pool a k hf
  obtain ⟨l1, l2, h1, _, h3, h4⟩ :=
    find_split stakeKey (pool, a) (fun x => x.pool == pool && x.purchaser == a)
      (fun x => by simp [stakeKey, Prod.ext_iff]) s.stakes k hn hf
  refine ⟨l1, l2, h1, ?_⟩
  have hsome : (findStake s k'.pool k'.purchaser).isSome = true := by rw [hp, ha, hf]; rfl
  unfold setStake
  simp only [hsome, if_true]
  rw [hp, ha, h1]
  exact map_replace_split (fun x : Stake => x.pool == pool && x.purchaser == a) k k' l1 l2 h3 h4 (by simp [hk1, hk2])

theorem setStake_new (s : State) (k' : Stake) (hf : findStake s k'.pool k'.purchaser = none) :
    (setStake s k').stakes = s.stakes ++ [k'] := by
  unfold setStake
  simp [hf]

theorem unstake_same (e : Env) (s s' : State) (poolID : Nat) (a : Addr) (c : Coins)
    (h : unstake e s poolID a c = .ok s') : Same s s' := by
  unfold unstake at h
  ok_cases h
  rename_i k hk _
  injection h with h; subst h
  obtain ⟨hk1, hk2⟩ := findStake_key s poolID a k hk
  refine ⟨by simp, by simp, by simp, fun hn => ⟨by simpa using hn, by simp [sumRewards]⟩, fun hn => ?_⟩
  obtain ⟨l1, l2, h1, h2⟩ := setStake_split s poolID a k { k with requested := k.requested + Coins.amountOf c e.bond } hn hk hk1 hk2
  simp only [sumStakes]
  rw [h2]
  rw [h1] at hn ⊢
  constructor
  · simpa [stakeKey] using hn
  · simp

theorem pausePool_frame (s s' : State) (u : Addr) (poolID : Nat) (active : Bool)
    (h : pausePool s u poolID active = .ok s') : Frame s s' := by
  unfold pausePool at h
  ok_cases h
  injection h with h; subst h
  exact ⟨rfl, rfl, rfl, rfl, rfl⟩

theorem updateSponsor_frame (s s' : State) (u : Addr) (poolID : Nat) (sp : String) (spa : Addr)
    (h : updateSponsor s u poolID sp spa = .ok s') : Frame s s' := by
  unfold updateSponsor at h
  ok_cases h
  injection h with h; subst h
  exact ⟨rfl, rfl, rfl, rfl, rfl⟩

/-! ## claims bookkeeping -/

theorem setList_frame (s : State) (l : PList) : Frame s (setList s l) := ⟨by simp, by simp, by simp, by simp, by simp⟩
theorem setPool_frame (s : State) (p : Pool) : Frame s (setPool s p) := ⟨rfl, rfl, rfl, rfl, rfl⟩
theorem deleteList_frame (s : State) (pool : Nat) (a : Addr) : Frame s (deleteList s pool a) := ⟨rfl, rfl, rfl, rfl, rfl⟩

theorem delayWithdraws_frame (s s' : State) (a : Addr) (amount until_ : Int)
    (h : delayWithdraws s a amount until_ = .ok s') : Frame s s' := by
  unfold delayWithdraws at h
  ok_cases h
  injection h with h; subst h
  exact ⟨rfl, rfl, rfl, rfl, rfl⟩

theorem secureFromProvider_frame (e : Env) (s s' : State) (p : Provider) (amount duration : Int)
    (h : secureFromProvider e s p amount duration = .ok s') : Frame s s' := by
  unfold secureFromProvider at h
  ok_cases h
  · injection h with h; subst h; exact Frame.refl _
  · exact delayWithdraws_frame _ _ _ _ _ h
  · injection h with h; subst h; exact Frame.refl _

theorem secureLoop_frame (e : Env) (ratio : Dec) (duration : Int) (ps : List Provider) :
    ∀ (remaining : Int) (s s' : State), secureLoop e ratio duration ps remaining s = .ok s' → Frame s s' := by
  induction ps with
  | nil => intro r s s' h; unfold secureLoop at h; injection h with h; subst h; exact Frame.refl _
  | cons p ps ih =>
    intro r s s' h
    unfold secureLoop at h
    ok_cases h
    all_goals exact (secureFromProvider_frame _ _ _ _ _ _ ‹_›).trans (ih _ _ _ h)

theorem secureCollaterals_frame (e : Env) (s s' : State) (poolID : Nat) (a : Addr) (purchaseID : Nat) (loss duration : Int)
    (h : secureCollaterals e s poolID a purchaseID loss duration = .ok s') : Frame s s' := by
  unfold secureCollaterals at h
  ok_cases h
  all_goals
    injection h with h; subst h
    have := secureLoop_frame _ _ _ _ _ _ _ ‹_›
    exact ⟨by simpa using this.providers, by simpa using this.stakes, by simpa using this.reimbs,
           by simpa using this.remaining, by simpa using this.blockFees⟩

theorem restoreShield_frame (s : State) (poolID : Nat) (a : Addr) (id : Nat) (loss : Int) :
    Frame s (restoreShield s poolID a id loss) := by
  unfold restoreShield
  split
  · exact Frame.refl _
  · split
    · exact Frame.refl _
    · split
      · exact Frame.refl _
      · exact ⟨by simp, by simp, by simp, by simp, by simp⟩

theorem claimEnd_frame (s : State) (loss : Int) : Frame s (claimEnd s loss) := ⟨rfl, rfl, rfl, rfl, rfl⟩

end Shentu.Shield.Fund
