import Shentu.Props.C03a
import Shentu.Props.C05
import Shentu.Proofs.ShieldLimitLemmas
/-
  Helper definitions and lemmas for Shentu/Props/C05H.lean (shield claims over histories).

  * the message-level history model: `Msg` (the messages, hooks and block functions of the shield module, passed through
    to `C03a.step`), `HOp` (`accept`, `ends`, `msg`), the ghost log `Ghost` of open and ended claims, `hstep`, `hrun`;
  * `msg_totalClaimed`: no message, hook or block function touches `totalClaimed`;
  * `hstep_delta`: every step of a history either leaves log and lock alone, or opens one fresh claim and locks its loss,
    or closes one open claim and releases its loss;
  * the invariant `Inv` (lock = sum of the open losses, no proposal id twice) and its preservation;
  * list lemmas about the log.
-/
namespace Shentu.C05H
open Shentu Shentu.Shield

/-! ## the history model -/

/-- ghost record of an accepted claim proposal: what governance stores in the proposal (pool, proposer, purchase, loss)
    plus the block time and the initial deposit of the submission -/
structure Claim where
  pid : Nat
  pool : Nat
  holder : Addr
  purchase : Nat
  loss : Int
  time : Int
  deposit : Int
  deriving DecidableEq, Repr

/-- the ghost log: the claims accepted and not yet ended (newest first), and the proposal ids of the ended ones -/
structure Ghost where
  pending : List Claim
  ended : List Nat
  deriving DecidableEq, Repr

/-- has this proposal id been used before (by an open or by an ended claim)? -/
def Ghost.usedPid (g : Ghost) (pid : Nat) : Bool := g.pending.any (·.pid == pid) || g.ended.contains pid

/-- bank ledger, shield store, ghost log -/
structure HState where
  l : Ledger
  s : State
  g : Ghost

/-- the messages, hooks and block functions of the shield module other than the claim flow -/
inductive Msg where
  | deposit (e : Env) (a : Addr) (coins : Coins)
  | withdraw (e : Env) (a : Addr) (coins : Coins)
  | stakingChanged (e : Env) (a : Addr)
  | purchase (e : Env) (poolID : Nat) (shield : Coins) (purchaser : Addr) (staking : Bool)
  | createPool (e : Env) (creator : Addr) (shield fees : Coins) (sponsor : String) (sponsorAddr : Addr) (limit : Int)
  | updatePool (e : Env) (updater : Addr) (poolID : Nat) (shield fees : Coins) (limit : Int)
  | pausePool (updater : Addr) (poolID : Nat) (active : Bool)
  | updateSponsor (updater : Addr) (poolID : Nat) (sponsor : String) (sponsorAddr : Addr)
  | unstake (e : Env) (poolID : Nat) (purchaser : Addr) (coins : Coins)
  | withdrawRewards (e : Env) (a : Addr)
  | withdrawReimbursement (e : Env) (pid : Nat) (a : Addr)
  | endBlock (e : Env)
  | fundBlockRewards (e : Env) (sender : Addr) (amount : Int)

/-- the operation of `C03a` a message stands for -/
def Msg.toOp : Msg → Props.C03a.Op
  | .deposit e a c => .deposit e a c
  | .withdraw e a c => .withdraw e a c
  | .stakingChanged e a => .stakingChanged e a
  | .purchase e p sh a st => .purchase e p sh a st
  | .createPool e c sh f sp spa lim => .createPool e c sh f sp spa lim
  | .updatePool e u p sh f lim => .updatePool e u p sh f lim
  | .pausePool u p act => .pausePool u p act
  | .updateSponsor u p sp spa => .updateSponsor u p sp spa
  | .unstake e p a c => .unstake e p a c
  | .withdrawRewards e a => .withdrawRewards e a
  | .withdrawReimbursement e pid a => .withdrawReimbursement e pid a
  | .endBlock e => .endBlock e
  | .fundBlockRewards e a amt => .fundBlockRewards e a amt

/-- one entry of a message-level history -/
inductive HOp where
  /-- a claim proposal is submitted: admission check, then the lock -/
  | accept (e : Env) (pid pool : Nat) (holder : Addr) (purchase : Nat) (loss duration deposit : Int)
  /-- governance's end-blocker ends proposal `pid` with outcome `o` -/
  | ends (e : Env) (pid : Nat) (o : ClaimOutcome)
  /-- any other message, hook or block function -/
  | msg (m : Msg)

/-- `accept`: a proposal id that was used before, a refused admission or a refused lock leave everything unchanged;
    otherwise the lock is taken and the claim is entered in the log -/
def acceptStep (e : Env) (pid pool : Nat) (holder : Addr) (purchase : Nat) (loss dur deposit : Int) (x : HState) : HState :=
  if x.g.usedPid pid then x
  else match claimAdmissible x.s e.t holder pool purchase loss deposit with
    | some _ => x
    | none =>
      match secureCollaterals e x.s pool holder purchase loss dur with
      | .error _ => x
      | .ok s' =>
        { x with s := s',
                 g := { x.g with pending := { pid := pid, pool := pool, holder := holder, purchase := purchase, loss := loss,
                                              time := e.t, deposit := deposit } :: x.g.pending } }

/-- `ends`: nothing happens for a proposal id that is not open; otherwise `claimEnds` runs with the pool, proposer,
    purchase and loss RECORDED at acceptance (the proposer is both the holder the shield is restored to and the
    beneficiary of a payout).  When `claimEnds` refuses, or the outcome is `failed`, the claim stays in the log. -/
def endsStep (e : Env) (pid : Nat) (o : ClaimOutcome) (x : HState) : HState :=
  match x.g.pending.find? (·.pid == pid) with
  | none => x
  | some c =>
    match claimEnds e x.l x.s pid c.pool c.holder c.holder c.purchase c.loss o with
    | .error _ => x
    | .ok (l', s') =>
      if o = .failed then { x with l := l', s := s' }
      else { l := l', s := s', g := { pending := x.g.pending.filter (·.pid != pid), ended := pid :: x.g.ended } }

/-- one step of a message-level history -/
def hstep (op : HOp) (x : HState) : HState :=
  match op with
  | .accept e pid pool holder purchase loss dur deposit => acceptStep e pid pool holder purchase loss dur deposit x
  | .ends e pid o => endsStep e pid o x
  | .msg m => let w := Props.C03a.step m.toOp (x.l, x.s); { x with l := w.1, s := w.2 }

/-- a history, run from `x` -/
def hrun (ops : List HOp) (x : HState) : HState := ops.foldl (fun x op => hstep op x) x

theorem hrun_nil (x : HState) : hrun [] x = x := rfl
theorem hrun_cons (op : HOp) (ops : List HOp) (x : HState) : hrun (op :: ops) x = hrun ops (hstep op x) := rfl
theorem hrun_append (a b : List HOp) (x : HState) : hrun (a ++ b) x = hrun b (hrun a x) := by
  unfold hrun; rw [List.foldl_append]

/-- the sum of the losses in a log -/
def sumLoss (l : List Claim) : Int := sumI (·.loss) l

@[simp] theorem sumLoss_nil : sumLoss [] = 0 := rfl
@[simp] theorem sumLoss_cons (c : Claim) (l : List Claim) : sumLoss (c :: l) = c.loss + sumLoss l := by
  simp [sumLoss, sumI]

/-! ## no message touches the lock -/

theorem expireBody_tc {now : Int} {pool : Nat} {a : Addr} {acc acc1 : ExpAcc} {lst : PList}
    (h : PoolLm.expireBody now pool a acc lst = .ok acc1) : acc1.s.totalClaimed = acc.s.totalClaimed := by
  unfold PoolLm.expireBody at h
  rcases hex : expireEntries now acc.s.lastUpdate acc.s.params.protection lst.entries (acc.fees, acc.totalFees, 0) with ⟨entries', fees', totalFees', removed⟩
  rw [hex] at h
  dsimp only at h
  have key : ∀ s1 : State, (if entries'.isEmpty then deleteList s1 pool a else setList s1 { lst with entries := entries' }).totalClaimed
      = s1.totalClaimed := by
    intro s1; split
    · rfl
    · exact PoolLm.setList_totalClaimed _ _
  split at h
  · cases h
  · rename_i s1 hs1
    cases h
    show (if entries'.isEmpty then deleteList s1 pool a else setList s1 { lst with entries := entries' }).totalClaimed = _
    rw [key]
    split at hs1
    · split at hs1
      · cases hs1
      · cases hs1; rfl
    · cases hs1; rfl

theorem expireLoop_tc (now : Int) :
    ∀ (ps : List (Nat × Addr)) (acc acc' : ExpAcc), expireLoop now ps acc = .ok acc' → acc'.s.totalClaimed = acc.s.totalClaimed := by
  intro ps
  induction ps with
  | nil => intro acc acc' h; rw [PoolLm.expireLoop_nil] at h; cases h; rfl
  | cons pa rest ih =>
    intro acc acc' h
    obtain ⟨pool, a⟩ := pa
    rw [PoolLm.expireLoop_cons] at h
    split at h
    · exact ih _ _ h
    · split at h
      · cases h
      · rename_i acc1 hb
        rw [ih _ _ h, expireBody_tc hb]

theorem expireAndDistribute_tc {e : Env} {s s' : State} (h : expireAndDistribute e s = .ok s') :
    s'.totalClaimed = s.totalClaimed := by
  rcases PoolLm.expireAndDistribute_ok h with rfl | ⟨acc, hloop, _, _, _, _, _, _, _, htc, _⟩
  · rfl
  · rw [htc, expireLoop_tc _ _ _ _ hloop]

theorem endBlock_tc {e : Env} {s s' : State} (h : endBlock e s = .ok s') : s'.totalClaimed = s.totalClaimed := by
  unfold endBlock at h
  split at h; · cases h
  rename_i s1 h1
  split at h; · cases h
  rename_i s2 h2
  cases h
  show s2.totalClaimed = _
  rw [(PoolLm.completeWithdrawals_frame h2).totalClaimed, expireAndDistribute_tc h1]

theorem purchaseCore_tc {e : Env} {l l' : Ledger} {s s' : State} {poolID : Nat} {shield : Coins} {purchaser : Addr}
    {fees staking : Coins} (h : purchaseCore e l s poolID shield purchaser fees staking = .ok (l', s')) :
    s'.totalClaimed = s.totalClaimed := by
  rcases Limit.purchaseCore_ok _ _ _ _ _ _ _ _ _ _ h with ⟨_, _, _, _, _, _, _, _, hb⟩
  exact hb.totalClaimed

theorem purchase_tc {e : Env} {l l' : Ledger} {s s' : State} {poolID : Nat} {shield : Coins} {purchaser : Addr}
    {staking : Bool} (h : purchase e l s poolID shield purchaser staking = .ok (l', s')) : s'.totalClaimed = s.totalClaimed := by
  unfold purchase at h
  ok_cases h
  · exact purchaseCore_tc h
  · exact purchaseCore_tc h

theorem createPool_tc {e : Env} {l l' : Ledger} {s s' : State} {creator : Addr} {shield fees : Coins} {sponsor : String}
    {sponsorAddr : Addr} {limit : Int} (h : createPool e l s creator shield fees sponsor sponsorAddr limit = .ok (l', s')) :
    s'.totalClaimed = s.totalClaimed := by
  unfold createPool at h
  ok_cases h
  exact (purchaseCore_tc h).trans rfl

theorem updatePool_tc {e : Env} {l l' : Ledger} {s s' : State} {updater : Addr} {poolID : Nat} {shield fees : Coins}
    {limit : Int} (h : updatePool e l s updater poolID shield fees limit = .ok (l', s')) : s'.totalClaimed = s.totalClaimed := by
  unfold updatePool at h
  dsimp only at h
  split at h; · cases h
  split at h; · cases h
  split at h; · cases h
  split at h
  · exact (purchaseCore_tc h).trans rfl
  · split at h
    · split at h; · cases h
      cases h; rfl
    · cases h; rfl

theorem pausePool_tc {s s' : State} {updater : Addr} {poolID : Nat} {active : Bool}
    (h : pausePool s updater poolID active = .ok s') : s'.totalClaimed = s.totalClaimed := by
  unfold pausePool at h
  ok_cases h
  cases h; rfl

theorem updateSponsor_tc {s s' : State} {updater : Addr} {poolID : Nat} {sponsor : String} {sponsorAddr : Addr}
    (h : updateSponsor s updater poolID sponsor sponsorAddr = .ok s') : s'.totalClaimed = s.totalClaimed := by
  unfold updateSponsor at h
  ok_cases h
  cases h; rfl

theorem unstake_tc {e : Env} {s s' : State} {poolID : Nat} {purchaser : Addr} {coins : Coins}
    (h : unstake e s poolID purchaser coins = .ok s') : s'.totalClaimed = s.totalClaimed := by
  unfold unstake at h
  ok_cases h
  cases h; exact PoolLm.setStake_totalClaimed _ _

/-- a step of `C03a` keeps `totalClaimed` if its successful outcome does -/
theorem step_tc (op : Props.C03a.Op) (w : Props.C03a.World)
    (h : ∀ w', op.apply w = .ok w' → w'.2.totalClaimed = w.2.totalClaimed) :
    (Props.C03a.step op w).2.totalClaimed = w.2.totalClaimed := by
  unfold Props.C03a.step
  split
  · rename_i w' hw; exact h w' hw
  · rfl

/-- **no message, hook or block function of the module touches the amount locked for claims** -/
theorem msg_totalClaimed (m : Msg) (l : Ledger) (s : State) :
    (Props.C03a.step m.toOp (l, s)).2.totalClaimed = s.totalClaimed := by
  apply step_tc
  intro w' h
  obtain ⟨l', s'⟩ := w'
  cases m <;> simp only [Msg.toOp, Props.C03a.Op.apply] at h
  case deposit e a c => obtain ⟨x, hx, he⟩ := Props.C03a.map_ok h; cases he; exact (PoolLm.deposit_frame hx).totalClaimed
  case withdraw e a c => obtain ⟨x, hx, he⟩ := Props.C03a.map_ok h; cases he; exact (PoolLm.withdraw_frame hx).totalClaimed
  case stakingChanged e a =>
    obtain ⟨x, hx, he⟩ := Props.C03a.map_ok h; cases he; exact (PoolLm.stakingChanged_frame hx).totalClaimed
  case purchase e p sh a st => exact purchase_tc h
  case createPool e c sh f sp spa lim => exact createPool_tc h
  case updatePool e u p sh f lim => exact updatePool_tc h
  case pausePool u p act => obtain ⟨x, hx, he⟩ := Props.C03a.map_ok h; cases he; exact pausePool_tc hx
  case updateSponsor u p sp spa => obtain ⟨x, hx, he⟩ := Props.C03a.map_ok h; cases he; exact updateSponsor_tc hx
  case unstake e p a c => obtain ⟨x, hx, he⟩ := Props.C03a.map_ok h; cases he; exact unstake_tc hx
  case withdrawRewards e a => exact (PoolLm.withdrawRewards_frame h).totalClaimed
  case withdrawReimbursement e pid a => exact (PoolLm.withdrawReimbursement_frame h).totalClaimed
  case endBlock e => obtain ⟨x, hx, he⟩ := Props.C03a.map_ok h; cases he; exact endBlock_tc hx
  case fundBlockRewards e a amt => injection h with h; cases h; rfl

/-! ## what one step does to log and lock -/

/-- what a step of a history does to the ghost log and to `totalClaimed`: nothing; or one claim with a FRESH proposal
    id is opened and its loss locked; or one OPEN claim is closed and its loss released -/
inductive Delta (x y : HState) : Prop where
  | same (hg : y.g = x.g) (htc : y.s.totalClaimed = x.s.totalClaimed)
  | locked (c : Claim) (hfresh : x.g.usedPid c.pid = false) (hp : y.g.pending = c :: x.g.pending)
      (he : y.g.ended = x.g.ended) (htc : y.s.totalClaimed = x.s.totalClaimed + c.loss)
  | released (c : Claim) (hfind : x.g.pending.find? (·.pid == c.pid) = some c)
      (hp : y.g.pending = x.g.pending.filter (·.pid != c.pid)) (he : y.g.ended = c.pid :: x.g.ended)
      (htc : y.s.totalClaimed = x.s.totalClaimed - c.loss)

/-- what a successful `accept` did -/
theorem acceptStep_cases (e : Env) (pid pool : Nat) (holder : Addr) (purchase : Nat) (loss dur deposit : Int) (x : HState) :
    acceptStep e pid pool holder purchase loss dur deposit x = x ∨
    (x.g.usedPid pid = false ∧ claimAdmissible x.s e.t holder pool purchase loss deposit = none ∧
      ∃ s', secureCollaterals e x.s pool holder purchase loss dur = .ok s' ∧
        acceptStep e pid pool holder purchase loss dur deposit x =
          { x with s := s',
                   g := { x.g with pending := { pid := pid, pool := pool, holder := holder, purchase := purchase, loss := loss,
                                                time := e.t, deposit := deposit } :: x.g.pending } }) := by
  unfold acceptStep
  split
  · exact Or.inl rfl
  · rename_i hu
    split
    · exact Or.inl rfl
    · rename_i hadm
      split
      · exact Or.inl rfl
      · rename_i s' hs
        exact Or.inr ⟨by simpa using hu, hadm, s', hs, rfl⟩

/-- what a successful `ends` did -/
theorem endsStep_cases (e : Env) (pid : Nat) (o : ClaimOutcome) (x : HState) :
    endsStep e pid o x = x ∨
    (o ≠ .failed ∧ ∃ c l' s', x.g.pending.find? (·.pid == pid) = some c ∧
      claimEnds e x.l x.s pid c.pool c.holder c.holder c.purchase c.loss o = .ok (l', s') ∧
      endsStep e pid o x = { l := l', s := s', g := { pending := x.g.pending.filter (·.pid != pid), ended := pid :: x.g.ended } }) := by
  unfold endsStep
  split
  · exact Or.inl rfl
  · rename_i c hc
    split
    · exact Or.inl rfl
    · rename_i l' s' hce
      split
      · rename_i ho
        subst ho
        have := Props.C05.failed_keeps_lock hce
        left
        rw [this.1, this.2]
      · rename_i ho
        exact Or.inr ⟨ho, c, l', s', hc, hce, rfl⟩

theorem find?_pid {l : List Claim} {pid : Nat} {c : Claim} (h : l.find? (·.pid == pid) = some c) : c.pid = pid := by
  have := List.find?_some h; simpa using this

/-- **every step of a history** either leaves log and lock alone, or opens one fresh claim and locks exactly its loss,
    or closes one open claim and releases exactly its loss -/
theorem hstep_delta (op : HOp) (x : HState) : Delta x (hstep op x) := by
  cases op with
  | accept e pid pool holder purchase loss dur deposit =>
    show Delta x (acceptStep e pid pool holder purchase loss dur deposit x)
    rcases acceptStep_cases e pid pool holder purchase loss dur deposit x with h | ⟨hu, hadm, s', hs, h⟩
    · rw [h]; exact .same rfl rfl
    · rw [h]
      exact .locked { pid := pid, pool := pool, holder := holder, purchase := purchase, loss := loss, time := e.t, deposit := deposit }
        hu rfl rfl (Props.C05.admitted_lock_exact hadm hs).choose_spec.2.2.2.2.2
  | ends e pid o =>
    show Delta x (endsStep e pid o x)
    rcases endsStep_cases e pid o x with h | ⟨ho, c, l', s', hc, hce, h⟩
    · rw [h]; exact .same rfl rfl
    · rw [h]
      have hp := find?_pid hc
      subst hp
      exact .released c hc rfl rfl (Props.C05.release_on_end hce ho)
  | msg m => exact .same rfl (msg_totalClaimed m x.l x.s)

/-! ## the invariant -/

/-- the ghost log agrees with the store: the locked amount is the sum of the open losses; no proposal id occurs twice
    among the open claims, none twice among the ended ones, and no open claim has an ended id -/
structure Inv (x : HState) : Prop where
  locked : x.s.totalClaimed = sumLoss x.g.pending
  openNodup : (x.g.pending.map (·.pid)).Nodup
  endedNodup : x.g.ended.Nodup
  disjoint : ∀ c ∈ x.g.pending, c.pid ∉ x.g.ended

theorem usedPid_false {g : Ghost} {pid : Nat} (h : g.usedPid pid = false) :
    pid ∉ g.pending.map (·.pid) ∧ pid ∉ g.ended := by
  unfold Ghost.usedPid at h
  simp only [Bool.or_eq_false_iff, List.any_eq_false, beq_iff_eq, List.contains_eq_mem, decide_eq_false_iff_not] at h
  refine ⟨?_, h.2⟩
  intro hm
  rcases List.mem_map.mp hm with ⟨c, hc, hcp⟩
  exact h.1 c hc hcp

/-- with distinct ids, looking a claim up by its id finds it -/
theorem find?_of_mem {l : List Claim} (hn : (l.map (·.pid)).Nodup) {c : Claim} (hc : c ∈ l) :
    l.find? (·.pid == c.pid) = some c := by
  induction l with
  | nil => cases hc
  | cons a t ih =>
    simp only [List.map_cons, List.nodup_cons] at hn
    rcases List.mem_cons.mp hc with rfl | hct
    · simp
    · have hne : a.pid ≠ c.pid := by
        intro heq; exact hn.1 (heq ▸ List.mem_map.mpr ⟨c, hct, rfl⟩)
      rw [List.find?_cons_of_neg (by simpa using hne)]
      exact ih hn.2 hct

/-- closing a claim takes exactly its loss out of the sum -/
theorem sumLoss_filter {l : List Claim} (hn : (l.map (·.pid)).Nodup) {c : Claim} (hc : c ∈ l) :
    sumLoss (l.filter (·.pid != c.pid)) = sumLoss l - c.loss := by
  induction l with
  | nil => cases hc
  | cons a t ih =>
    simp only [List.map_cons, List.nodup_cons] at hn
    rcases List.mem_cons.mp hc with rfl | hct
    · have hall : t.filter (·.pid != c.pid) = t := by
        apply List.filter_eq_self.mpr
        intro b hb
        have : b.pid ≠ c.pid := fun heq => hn.1 (heq ▸ List.mem_map.mpr ⟨b, hb, rfl⟩)
        simpa using this
      rw [List.filter_cons_of_neg (by simp), hall, sumLoss_cons]; omega
    · have hne : a.pid ≠ c.pid := by
        intro heq; exact hn.1 (heq ▸ List.mem_map.mpr ⟨c, hct, rfl⟩)
      rw [List.filter_cons_of_pos (by simpa using hne), sumLoss_cons, sumLoss_cons, ih hn.2 hct]; omega

theorem Delta.inv {x y : HState} (d : Delta x y) (hi : Inv x) : Inv y := by
  cases d with
  | same hg htc => exact ⟨by rw [htc, hg]; exact hi.locked, by rw [hg]; exact hi.openNodup, by rw [hg]; exact hi.endedNodup,
      by rw [hg]; exact hi.disjoint⟩
  | locked c hfresh hp he htc =>
    have hu := usedPid_false hfresh
    refine ⟨by rw [htc, hp, sumLoss_cons, hi.locked]; omega, ?_, by rw [he]; exact hi.endedNodup, ?_⟩
    · rw [hp, List.map_cons, List.nodup_cons]; exact ⟨hu.1, hi.openNodup⟩
    · rw [hp, he]
      intro c' hc'
      rcases List.mem_cons.mp hc' with rfl | h
      · exact hu.2
      · exact hi.disjoint c' h
  | released c hfind hp he htc =>
    have hc : c ∈ x.g.pending := List.mem_of_find?_eq_some hfind
    refine ⟨by rw [htc, hp, sumLoss_filter hi.openNodup hc, hi.locked], ?_, ?_, ?_⟩
    · rw [hp]
      exact List.Nodup.sublist (List.Sublist.map _ List.filter_sublist) hi.openNodup
    · rw [he, List.nodup_cons]; exact ⟨hi.disjoint c hc, hi.endedNodup⟩
    · rw [hp, he]
      intro c' hc'
      have hm := List.mem_filter.mp hc'
      intro hin
      rcases List.mem_cons.mp hin with h | h
      · have : c'.pid ≠ c.pid := by simpa using hm.2
        exact this h
      · exact hi.disjoint c' hm.1 h

theorem hstep_inv (op : HOp) (x : HState) (hi : Inv x) : Inv (hstep op x) := (hstep_delta op x).inv hi

theorem hrun_inv (ops : List HOp) (x : HState) (hi : Inv x) : Inv (hrun ops x) := by
  induction ops generalizing x with
  | nil => exact hi
  | cons op ops ih => rw [hrun_cons]; exact ih _ (hstep_inv op x hi)

/-- the ended ids only grow -/
theorem Delta.ended_mono {x y : HState} (d : Delta x y) {pid : Nat} (h : pid ∈ x.g.ended) : pid ∈ y.g.ended := by
  cases d with
  | same hg _ => rw [hg]; exact h
  | locked _ _ _ he _ => rw [he]; exact h
  | released _ _ _ he _ => rw [he]; exact List.mem_cons_of_mem _ h

theorem hrun_ended_mono (ops : List HOp) (x : HState) {pid : Nat} (h : pid ∈ x.g.ended) : pid ∈ (hrun ops x).g.ended := by
  induction ops generalizing x with
  | nil => exact h
  | cons op ops ih => rw [hrun_cons]; exact ih _ ((hstep_delta op x).ended_mono h)

/-! ## where an open claim comes from -/

/-- an open claim after a step was open before, or the step is its acceptance: the admission check passed and the lock
    succeeded in the state before the step, and the entry records the arguments of the submission -/
theorem hstep_pending_origin (op : HOp) (x : HState) {c : Claim} (hc : c ∈ (hstep op x).g.pending) :
    c ∈ x.g.pending ∨ ∃ e dur, op = .accept e c.pid c.pool c.holder c.purchase c.loss dur c.deposit ∧ c.time = e.t ∧
      x.g.usedPid c.pid = false ∧
      claimAdmissible x.s e.t c.holder c.pool c.purchase c.loss c.deposit = none ∧
      ∃ s', secureCollaterals e x.s c.pool c.holder c.purchase c.loss dur = .ok s' ∧ (hstep op x).s = s' := by
  cases op with
  | accept e pid pool holder purchase loss dur deposit =>
    change c ∈ (acceptStep e pid pool holder purchase loss dur deposit x).g.pending at hc
    show _ ∨ ∃ e' dur', _ ∧ _ ∧ _ ∧ _ ∧ ∃ s', _ ∧ (acceptStep e pid pool holder purchase loss dur deposit x).s = s'
    rcases acceptStep_cases e pid pool holder purchase loss dur deposit x with h | ⟨hu, hadm, s', hs, h⟩
    · rw [h] at hc; exact Or.inl hc
    · rw [h] at hc ⊢
      rcases List.mem_cons.mp hc with rfl | hc'
      · exact Or.inr ⟨e, dur, rfl, rfl, hu, hadm, s', hs, rfl⟩
      · exact Or.inl hc'
  | ends e pid o =>
    change c ∈ (endsStep e pid o x).g.pending at hc
    rcases endsStep_cases e pid o x with h | ⟨_, c0, l', s', _, _, h⟩
    · rw [h] at hc; exact Or.inl hc
    · rw [h] at hc; exact Or.inl (List.mem_filter.mp hc).1
  | msg m => exact Or.inl hc

/-- an open claim survives every step that is not the end of its own proposal -/
theorem hstep_pending_keeps (op : HOp) (x : HState) {c : Claim} (hc : c ∈ x.g.pending)
    (hne : ∀ e o, op ≠ .ends e c.pid o) : c ∈ (hstep op x).g.pending := by
  cases op with
  | accept e pid pool holder purchase loss dur deposit =>
    show c ∈ (acceptStep e pid pool holder purchase loss dur deposit x).g.pending
    rcases acceptStep_cases e pid pool holder purchase loss dur deposit x with h | ⟨_, _, s', _, h⟩
    · rw [h]; exact hc
    · rw [h]; exact List.mem_cons_of_mem _ hc
  | ends e pid o =>
    show c ∈ (endsStep e pid o x).g.pending
    rcases endsStep_cases e pid o x with h | ⟨_, c0, l', s', _, _, h⟩
    · rw [h]; exact hc
    · rw [h]
      refine List.mem_filter.mpr ⟨hc, ?_⟩
      have : c.pid ≠ pid := by
        intro heq; exact hne e o (by rw [heq])
      simpa using this
  | msg m => exact hc

theorem hrun_pending_keeps (ops : List HOp) (x : HState) {c : Claim} (hc : c ∈ x.g.pending)
    (hne : ∀ op ∈ ops, ∀ e o, op ≠ .ends e c.pid o) : c ∈ (hrun ops x).g.pending := by
  induction ops generalizing x with
  | nil => exact hc
  | cons op ops ih =>
    rw [hrun_cons]
    exact ih _ (hstep_pending_keeps op x hc (hne op List.mem_cons_self)) (fun o ho => hne o (List.mem_cons_of_mem _ ho))

/-! ## successful steps, as equations -/

/-- an `accept` with a fresh id, a passed admission check and a successful lock takes the lock and logs the claim -/
theorem acceptStep_ok {e : Env} {pid pool : Nat} {holder : Addr} {purchase : Nat} {loss dur deposit : Int} {x : HState} {s' : State}
    (hu : x.g.usedPid pid = false) (hadm : claimAdmissible x.s e.t holder pool purchase loss deposit = none)
    (hs : secureCollaterals e x.s pool holder purchase loss dur = .ok s') :
    hstep (.accept e pid pool holder purchase loss dur deposit) x =
      { x with s := s',
               g := { x.g with pending := { pid := pid, pool := pool, holder := holder, purchase := purchase, loss := loss,
                                            time := e.t, deposit := deposit } :: x.g.pending } } := by
  show acceptStep e pid pool holder purchase loss dur deposit x = _
  unfold acceptStep
  simp only [hu, Bool.false_eq_true, if_false, hadm, hs]

/-- an `ends` of an open claim with a successful `claimEnds` and an outcome other than `failed` closes the claim -/
theorem endsStep_ok {e : Env} {pid : Nat} {o : ClaimOutcome} {x : HState} {c : Claim} {l' : Ledger} {s' : State}
    (hc : x.g.pending.find? (·.pid == pid) = some c)
    (hce : claimEnds e x.l x.s pid c.pool c.holder c.holder c.purchase c.loss o = .ok (l', s')) (ho : o ≠ .failed) :
    hstep (.ends e pid o) x =
      { l := l', s := s', g := { pending := x.g.pending.filter (·.pid != pid), ended := pid :: x.g.ended } } := by
  show endsStep e pid o x = _
  unfold endsStep
  simp only [hc, hce, ho, if_false]

/-- an `ends` with outcome `failed`, or one whose `claimEnds` refuses, changes nothing: not the store, not the ledger,
    not the log -/
theorem endsStep_stuck (e : Env) (pid : Nat) (o : ClaimOutcome) (x : HState)
    (h : o = .failed ∨ ∀ c, x.g.pending.find? (·.pid == pid) = some c →
      ∃ err, claimEnds e x.l x.s pid c.pool c.holder c.holder c.purchase c.loss o = .error err) :
    hstep (.ends e pid o) x = x := by
  show endsStep e pid o x = x
  rcases endsStep_cases e pid o x with h1 | ⟨ho, c, l', s', hc, hce, _⟩
  · exact h1
  · rcases h with h | h
    · exact absurd h ho
    · rcases h c hc with ⟨err, herr⟩
      rw [herr] at hce; cases hce

/-- an `accept` that names a used proposal id changes nothing -/
theorem acceptStep_used {e : Env} {pid pool : Nat} {holder : Addr} {purchase : Nat} {loss dur deposit : Int} {x : HState}
    (hu : x.g.usedPid pid = true) : hstep (.accept e pid pool holder purchase loss dur deposit) x = x := by
  show acceptStep e pid pool holder purchase loss dur deposit x = x
  unfold acceptStep
  simp only [hu, if_true]

/-- an `ends` that names a proposal id that is not open changes nothing -/
theorem endsStep_notOpen {e : Env} {pid : Nat} {o : ClaimOutcome} {x : HState}
    (h : x.g.pending.find? (·.pid == pid) = none) : hstep (.ends e pid o) x = x := by
  show endsStep e pid o x = x
  unfold endsStep
  simp only [h]

/-- every open claim at the end of a history was open at the start, or the history contains its acceptance: the
    admission check passed in the state the history had reached, and the entry records the submission -/
theorem hrun_pending_origin (ops : List HOp) (x : HState) {c : Claim} (hc : c ∈ (hrun ops x).g.pending) :
    c ∈ x.g.pending ∨ ∃ pre post e dur, ops = pre ++ HOp.accept e c.pid c.pool c.holder c.purchase c.loss dur c.deposit :: post ∧
      c.time = e.t ∧ (hrun pre x).g.usedPid c.pid = false ∧
      claimAdmissible (hrun pre x).s e.t c.holder c.pool c.purchase c.loss c.deposit = none ∧
      ∃ s', secureCollaterals e (hrun pre x).s c.pool c.holder c.purchase c.loss dur = .ok s' := by
  induction ops generalizing x with
  | nil => exact Or.inl hc
  | cons op ops ih =>
    rw [hrun_cons] at hc
    rcases ih (hstep op x) hc with h | ⟨pre, post, e, dur, hops, ht, hu, hadm, hs⟩
    · rcases hstep_pending_origin op x h with h0 | ⟨e, dur, hop, ht, hu, hadm, s', hs, _⟩
      · exact Or.inl h0
      · exact Or.inr ⟨[], ops, e, dur, by rw [hop]; rfl, ht, hu, hadm, s', hs⟩
    · exact Or.inr ⟨op :: pre, post, e, dur, by rw [hops]; rfl, ht, hu, hadm, hs⟩

/-! ## a message-level history is a history of `C03a` -/

theorem run_append (a b : List Props.C03a.Op) (w : Props.C03a.World) :
    Props.C03a.run (a ++ b) w = Props.C03a.run b (Props.C03a.run a w) := by
  unfold Props.C03a.run; rw [List.foldl_append]

/-- one step of a message-level history is no step or one step of `C03a`: `accept` is `secureCollaterals` (or nothing),
    `ends` is `claimEnds` with the recorded arguments (or nothing), a message is itself -/
theorem hstep_refines (op : HOp) (x : HState) :
    ∃ ops' : List Props.C03a.Op, ops'.length ≤ 1 ∧ ((hstep op x).l, (hstep op x).s) = Props.C03a.run ops' (x.l, x.s) := by
  cases op with
  | accept e pid pool holder purchase loss dur deposit =>
    show ∃ ops' : List Props.C03a.Op, _ ∧ ((acceptStep e pid pool holder purchase loss dur deposit x).l,
      (acceptStep e pid pool holder purchase loss dur deposit x).s) = _
    rcases acceptStep_cases e pid pool holder purchase loss dur deposit x with h | ⟨_, _, s', hs, h⟩
    · exact ⟨[], Nat.zero_le _, by rw [h]; rfl⟩
    · refine ⟨[.secureCollaterals e pool holder purchase loss dur], Nat.le_refl _, ?_⟩
      rw [h]
      show (x.l, s') = Props.C03a.step (.secureCollaterals e pool holder purchase loss dur) (x.l, x.s)
      unfold Props.C03a.step
      simp only [Props.C03a.Op.apply, hs]
      rfl
  | ends e pid o =>
    show ∃ ops' : List Props.C03a.Op, _ ∧ ((endsStep e pid o x).l, (endsStep e pid o x).s) = _
    rcases endsStep_cases e pid o x with h | ⟨_, c, l', s', _, hce, h⟩
    · exact ⟨[], Nat.zero_le _, by rw [h]; rfl⟩
    · refine ⟨[.claimEnds e pid c.pool c.holder c.holder c.purchase c.loss o], Nat.le_refl _, ?_⟩
      rw [h]
      show (l', s') = Props.C03a.step (.claimEnds e pid c.pool c.holder c.holder c.purchase c.loss o) (x.l, x.s)
      unfold Props.C03a.step
      simp only [Props.C03a.Op.apply, hce]
  | msg m => exact ⟨[m.toOp], Nat.le_refl _, rfl⟩

theorem hrun_refines (ops : List HOp) (x : HState) :
    ∃ ops' : List Props.C03a.Op, ops'.length ≤ ops.length ∧
      ((hrun ops x).l, (hrun ops x).s) = Props.C03a.run ops' (x.l, x.s) := by
  induction ops generalizing x with
  | nil => exact ⟨[], Nat.le_refl _, rfl⟩
  | cons op ops ih =>
    rcases hstep_refines op x with ⟨a, ha, h1⟩
    rcases ih (hstep op x) with ⟨b, hb, h2⟩
    refine ⟨a ++ b, ?_, ?_⟩
    · simp only [List.length_append, List.length_cons]; omega
    · rw [hrun_cons, h2, h1, run_append]

end Shentu.C05H
