import Shentu.Base.Dec
/- Rounding bounds of `sdk.Dec.Quo` (half-even at 18 digits), used by Props/C01m.lean. -/
namespace Shentu.MintL
open Shentu

theorem chopRoundNonneg_bound (d : Int) (hd : 0 ≤ d) :
    0 ≤ Dec.chopRoundNonneg d ∧ 2 * Dec.chopRoundNonneg d * Dec.prec ≤ 2 * d + Dec.prec := by
  unfold Dec.chopRoundNonneg
  simp only [Int.tdiv_eq_ediv_of_nonneg hd, Int.tmod_eq_emod_of_nonneg hd, Dec.prec, Dec.half, beq_iff_eq]
  have hq : 0 ≤ d / 1000000000000000000 := Int.ediv_nonneg hd (by decide)
  split
  · constructor <;> omega
  · split
    · constructor <;> omega
    · split
      · constructor <;> omega
      · split <;> constructor <;> omega

theorem chopRound_bound (d : Int) (hd : 0 ≤ d) :
    0 ≤ Dec.chopRound d ∧ 2 * Dec.chopRound d * Dec.prec ≤ 2 * d + Dec.prec := by
  unfold Dec.chopRound
  have : ¬ d < 0 := by omega
  simp only [this, if_false]
  exact chopRoundNonneg_bound d hd

/-- a quotient `Dec.quo a b` of non-negative `a` by positive `b`, times `b`, exceeds `a` by at most half a unit of the last digit -/
theorem quo_bound (a b : Dec) (ha : 0 ≤ a.raw) (hb : 0 < b.raw) :
    0 ≤ (Dec.quo a b).raw ∧ 2 * (Dec.quo a b).raw * b.raw ≤ 2 * a.raw * Dec.prec + b.raw := by
  have hp : (0 : Int) < Dec.prec := by decide
  have hn : 0 ≤ a.raw * Dec.prec * Dec.prec := Int.mul_nonneg (Int.mul_nonneg ha (Int.le_of_lt hp)) (Int.le_of_lt hp)
  have hx : 0 ≤ Int.tdiv (a.raw * Dec.prec * Dec.prec) b.raw := by
    rw [Int.tdiv_eq_ediv_of_nonneg hn]; exact Int.ediv_nonneg hn (Int.le_of_lt hb)
  have hxb : Int.tdiv (a.raw * Dec.prec * Dec.prec) b.raw * b.raw ≤ a.raw * Dec.prec * Dec.prec := by
    rw [Int.tdiv_eq_ediv_of_nonneg hn]; exact Int.ediv_mul_le _ (Int.ne_of_gt hb)
  have hc := chopRound_bound _ hx
  refine ⟨hc.1, ?_⟩
  show 2 * Dec.chopRound (Int.tdiv (a.raw * Dec.prec * Dec.prec) b.raw) * b.raw ≤ _
  generalize Dec.chopRound (Int.tdiv (a.raw * Dec.prec * Dec.prec) b.raw) = r at hc
  generalize Int.tdiv (a.raw * Dec.prec * Dec.prec) b.raw = x at hx hxb hc
  -- 2 r p ≤ 2 x + p ;  x b ≤ a p p  ⟹  2 r p b ≤ 2 x b + p b ≤ 2 a p p + p b = p (2 a p + b)
  have h1 : 2 * r * Dec.prec * b.raw ≤ (2 * x + Dec.prec) * b.raw := Int.mul_le_mul_of_nonneg_right hc.2 (Int.le_of_lt hb)
  have h2 : (2 * r * b.raw) * Dec.prec ≤ (2 * a.raw * Dec.prec + b.raw) * Dec.prec := by
    have e1 : 2 * r * Dec.prec * b.raw = (2 * r * b.raw) * Dec.prec := by
      rw [Int.mul_assoc (2 * r), Int.mul_comm Dec.prec, ← Int.mul_assoc]
    have e2 : (2 * x + Dec.prec) * b.raw = 2 * (x * b.raw) + Dec.prec * b.raw := by
      rw [Int.add_mul, Int.mul_assoc]
    have e3 : (2 * a.raw * Dec.prec + b.raw) * Dec.prec = 2 * (a.raw * Dec.prec * Dec.prec) + Dec.prec * b.raw := by
      rw [Int.add_mul, Int.mul_comm b.raw, Int.mul_assoc 2, Int.mul_assoc 2]
    rw [← e1, e3]; rw [e2] at h1; omega
  exact Int.le_of_mul_le_mul_right h2 hp


end Shentu.MintL
