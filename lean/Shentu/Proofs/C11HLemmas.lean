import Shentu.Proofs.HaltGov
import Shentu.Props.C11
/-
  C11 at the level of histories, part 1: the vocabulary (operations, step function, ghost logs, the escrow invariant)
  and the lemmas about the pieces of the governance model (records, proposal store, refunds, burns).
-/
namespace Shentu.C11H
open Shentu Shentu.Gov
open Shentu.Halt.Gv (depSum depSum_cons depSum_split depSum_upsert foldl_add_amount)
open Shentu.Props.C11 (recOf recAll)
set_option linter.unusedSimpArgs false
set_option linter.unusedVariables false

/-! ## operations and histories -/

/-- what a block or a transaction sees of its surroundings; every step of a history brings its own -/
structure Ctx where
  t : Int
  bond : Denom
  stake : StakeView

/-- the environment of the governance model: the step's surroundings plus the (fixed) module account -/
def env (m : Addr) (x : Ctx) : Env := { t := x.t, bond := x.bond, modAddr := m, stake := x.stake }

/-- the operations of a history -/
inductive Op where
  /-- `MsgSubmitProposal` with its initial deposit -/
  | submit (x : Ctx) (proposer : Addr) (p0 : Proposal) (deposit : Coins)
  /-- `MsgDeposit` -/
  | deposit (x : Ctx) (pid : Nat) (depositor : Addr) (amt : Coins)
  /-- `MsgVote` -/
  | vote (pid : Nat) (voter : Addr) (option : Nat)
  /-- governance's end blocker -/
  | endBlock (x : Ctx)
  /-- a bank transfer between two accounts -/
  | transfer (src dst : Addr) (amt : Coins)

/-- One step on the world.  A failed transaction leaves the world unchanged.  The module account `m` has no key: it
    signs no transaction, and it is a blocked recipient of bank transfers; such operations are failed transactions.
    A halting end blocker also leaves the world unchanged here; `endBlock_never_halts` shows that it does not happen. -/
def stepW (m : Addr) (w : World) : Op → World
  | .submit x pr p0 dep =>
    if pr == m then w else match submit (env m x) w pr p0 dep with | .ok w' => w' | .error _ => w
  | .deposit x pid a amt =>
    if a == m then w else match addDeposit (env m x) w pid a amt with | .ok w' => w' | .error _ => w
  | .vote pid v o => match vote w pid v o with | .ok w' => w' | .error _ => w
  | .endBlock x => match endBlock (env m x) w with | .ok w' => w' | .error _ => w
  | .transfer s d amt =>
    if s == m || d == m then w else match w.l.send s d amt with | .ok l' => { w with l := l' } | .error _ => w

def runW (m : Addr) (w : World) (ops : List Op) : World := ops.foldl (stepW m) w

/-! ## ghost logs -/

/-- a deposit that was accepted: proposal, depositor, amount -/
structure DepEv where
  pid : Nat
  depositor : Addr
  amount : Coins

/-- a payment out of the escrow: the deposit of `to` for proposal `pid` is refunded to `to`, or burned -/
structure Pay where
  pid : Nat
  to : Addr
  amount : Coins
  burned : Bool

/-- what settling proposal `pid` pays: one entry per deposit record of the proposal -/
def payOf (burned : Bool) (ds : List Deposit) (pid : Nat) : List Pay :=
  (ds.filter (·.pid == pid)).map (fun x => { pid := pid, to := x.depositor, amount := x.amount, burned := burned })

/-- total deposited by `a` for `pid` according to the deposit log -/
def depTot (L : List DepEv) (pid : Nat) (a : Addr) (d : Denom) : Int :=
  ((L.filter (fun x => x.pid == pid && x.depositor == a)).map (fun x => Coins.amountOf x.amount d)).sum
/-- total refunded to `a` or burned on `a`'s account for `pid` according to the payment log -/
def paidTot (L : List Pay) (pid : Nat) (a : Addr) (d : Denom) : Int :=
  ((L.filter (fun x => x.pid == pid && x.to == a)).map (fun x => Coins.amountOf x.amount d)).sum
/-- total refunded to account `a` (all proposals) -/
def refundedTo (L : List Pay) (a : Addr) (d : Denom) : Int :=
  ((L.filter (fun x => !x.burned && x.to == a)).map (fun x => Coins.amountOf x.amount d)).sum
/-- total burned (all proposals) -/
def burnedSum (L : List Pay) (d : Denom) : Int :=
  ((L.filter (·.burned)).map (fun x => Coins.amountOf x.amount d)).sum

/-- the payments of the dropped proposals (deposit period over) -/
def dropLog (w : World) (p : Proposal) : List Pay := payOf false w.g.deposits p.id

/-- the payments `processActive` makes, from the outcome it computes: nothing when the certifier round hands over to
    the validator round, a burn when the stake tally says veto, a refund otherwise -/
def activeLog (e : Env) (w : World) (p : Proposal) : List Pay :=
  if p.status == 2 then
    if !(securityTally w.g w.c p).2.1 then [] else payOf false w.g.deposits p.id
  else payOf (stakeTally e w.g p 0).2.1 w.g.deposits p.id

/-- the payments of the early decision of the certifier round -/
def secLog (w : World) (p : Proposal) : List Pay :=
  if p.status != 2 then []
  else if !(securityTally w.g w.c p).1 then []
  else if (securityTally w.g w.c p).2.1 then (if Gen.Gov.earlyPassRefunds then payOf false w.g.deposits p.id else [])
  else []

/-- the log of a fold over proposal identifiers, along `foldIds` -/
def foldLog (f : World → Proposal → Except Err World) (lg : World → Proposal → List Pay) : List Nat → World → List Pay
  | [], _ => []
  | id :: ids, w => match findP w.g id with
    | none => foldLog f lg ids w
    | some p => match f w p with
      | .error _ => []
      | .ok w' => lg w p ++ foldLog f lg ids w'

/-- the payments of one end blocker, along `endBlock` -/
def endBlockLog (e : Env) (w : World) : List Pay :=
  let f1 := fun (w : World) (p : Proposal) => refundDeposits e { w with g := delP w.g p.id } p.id
  let inactive := (sortByKey (·.depositEnd) (w.g.proposals.filter (fun p => p.status == 1 && p.depositEnd ≤ e.t))).map (·.id)
  match foldIds f1 inactive w with
  | .error _ => []
  | .ok w1 =>
    let active := (sortByKey (·.votingEnd) (w1.g.proposals.filter (fun p => (p.status == 2 || p.status == 3) && p.votingEnd ≤ e.t))).map (·.id)
    match foldIds (processActive e) active w1 with
    | .error _ => []
    | .ok w2 =>
      let all := (sortByKey (·.votingEnd) (w2.g.proposals.filter (fun p => p.status == 2 || p.status == 3))).map (·.id)
      foldLog f1 dropLog inactive w ++ (foldLog (processActive e) (activeLog e) active w1 ++
        foldLog (processSecurityVote e) secLog all w2)

/-- the deposits a step accepts -/
def depLog (m : Addr) (w : World) : Op → List DepEv
  | .submit x pr p0 dep =>
    if pr == m then [] else match submit (env m x) w pr p0 dep with
      | .ok _ => if isCouncil (env m x) w.c pr then [] else [{ pid := w.g.nextId, depositor := pr, amount := dep }]
      | .error _ => []
  | .deposit x pid a amt =>
    if a == m then [] else match addDeposit (env m x) w pid a amt with
      | .ok _ => [{ pid := pid, depositor := a, amount := amt }]
      | .error _ => []
  | _ => []

/-- the payments a step makes -/
def payLog (m : Addr) (w : World) : Op → List Pay
  | .endBlock x => match endBlock (env m x) w with
    | .ok _ => endBlockLog (env m x) w
    | .error _ => []
  | _ => []

/-- the world together with the two ghost logs -/
structure G where
  w : World
  deps : List DepEv
  pays : List Pay

def stepG (m : Addr) (g : G) (op : Op) : G :=
  { w := stepW m g.w op, deps := g.deps ++ depLog m g.w op, pays := g.pays ++ payLog m g.w op }

def runG (m : Addr) (g : G) (ops : List Op) : G := ops.foldl (stepG m) g

theorem runG_w (m : Addr) (ops : List Op) : ∀ g : G, (runG m g ops).w = runW m g.w ops := by
  induction ops with
  | nil => intro g; rfl
  | cons op ops ih => intro g; exact ih (stepG m g op)

/-! ## the escrow invariant -/

/-- proposal `pid` exists and is in its deposit period (1), certifier voting period (2) or validator voting period (3) -/
def Live (g : State) (pid : Nat) : Prop := ∃ p, findP g pid = some p ∧ (p.status = 1 ∨ p.status = 2 ∨ p.status = 3)

/-- **The escrow invariant.** -/
structure EscrowInv (m : Addr) (w : World) : Prop where
  /-- the module account holds exactly the sum of all deposit records, in every denomination -/
  held : ∀ d, w.l.balOf m d = depSum w.g.deposits d
  /-- every deposit record belongs to a proposal that exists and is in its deposit or a voting period -/
  live : ∀ x ∈ w.g.deposits, Live w.g x.pid
  /-- no record has a negative amount -/
  valid : ∀ x ∈ w.g.deposits, ∀ d, 0 ≤ Coins.amountOf x.amount d
  /-- no record names the module account itself as the depositor -/
  foreign : ∀ x ∈ w.g.deposits, x.depositor ≠ m

/-- an initial state: no proposal, no record, nothing in the module account (anything else is arbitrary) -/
structure Init (m : Addr) (w : World) : Prop where
  noProposal : w.g.proposals = []
  noDeposit : w.g.deposits = []
  empty : ∀ d, w.l.balOf m d = 0

theorem EscrowInv.init {m : Addr} {w : World} (h : Init m w) : EscrowInv m w := by
  refine ⟨?_, ?_, ?_, ?_⟩
  · intro d; rw [h.empty, h.noDeposit]; rfl
  · rw [h.noDeposit]; intro x hx; exact absurd hx List.not_mem_nil
  · rw [h.noDeposit]; intro x hx; exact absurd hx List.not_mem_nil
  · rw [h.noDeposit]; intro x hx; exact absurd hx List.not_mem_nil

/-- the invariant of `HaltGov` (under which the end blocker cannot halt) follows -/
theorem EscrowInv.toEscrow {e : Env} {w : World} (h : EscrowInv e.modAddr w) : Shentu.Halt.Gv.Escrow e w :=
  ⟨fun x hx => Shentu.Halt.Gv.not_anyNegative_of_nonneg _ (h.valid x hx), fun d => by rw [h.held d]; exact Int.le_refl _⟩

/-! ## the proposal store -/

theorem findP_id {g : State} {id : Nat} {p : Proposal} (h : findP g id = some p) : p.id = id := by
  have := List.find?_some h
  simpa using this

theorem findP_delP (g : State) (id id' : Nat) : findP (delP g id) id' = if id == id' then none else findP g id' := by
  unfold findP delP
  show List.find? _ (g.proposals.filter _) = _
  induction g.proposals with
  | nil => simp
  | cons x xs ih =>
    simp only [List.filter_cons]
    by_cases h1 : x.id == id
    · simp only [h1, Bool.not_true, Bool.false_eq_true, if_false, ih, List.find?_cons]
      by_cases h2 : id == id'
      · simp [h2]
      · have : (x.id == id') = false := by
          have a1 := beq_iff_eq.mp h1
          have a2 : ¬ id = id' := by simpa using h2
          simp [a1, a2]
        simp [h2, this]
    · have h1' : (x.id == id) = false := by simpa using h1
      simp only [h1', Bool.not_false, if_true, List.find?_cons, ih]
      by_cases h2 : id == id'
      · have : (x.id == id') = false := by
          have a2 := beq_iff_eq.mp h2
          have a1 : ¬ x.id = id := by simpa using h1
          simp [← a2, a1]
        simp [h2, this]
      · simp [h2]

def liveStatus (s : Nat) : Prop := s = 1 ∨ s = 2 ∨ s = 3

theorem live_setP {g : State} {q : Proposal} (hq : liveStatus q.status) {id : Nat} (h : Live g id) : Live (setP g q) id := by
  unfold Live
  rw [findP_setP]
  by_cases hc : q.id == id
  · simp only [hc, if_true]; exact ⟨q, rfl, hq⟩
  · simp only [hc, Bool.false_eq_true, if_false]; exact h

theorem live_setP_self {g : State} {q : Proposal} (hq : liveStatus q.status) : Live (setP g q) q.id := by
  unfold Live
  rw [findP_setP]
  simp only [beq_self_eq_true, if_true]; exact ⟨q, rfl, hq⟩

theorem live_setP_ne {g : State} {q : Proposal} {id : Nat} (hne : id ≠ q.id) (h : Live g id) : Live (setP g q) id := by
  unfold Live
  rw [findP_setP]
  have : (q.id == id) = false := by simpa using Ne.symm hne
  simp only [this, Bool.false_eq_true, if_false]; exact h

theorem activated_id (e : Env) (g : State) (p : Proposal) : (activated e g p).id = p.id := by
  unfold activated; dsimp only; split
  · rfl
  · split <;> rfl

theorem activated_status (e : Env) (g : State) (p : Proposal) : liveStatus (activated e g p).status := by
  unfold activated liveStatus; dsimp only; split
  · right; left; rfl
  · split
    · right; right; rfl
    · right; right; rfl

theorem live_activate {e : Env} {g : State} {p : Proposal} {id : Nat} (h : Live g id) :
    Live (activateVotingPeriod e g p) id := live_setP (activated_status e g p) h

/-- `Live` only reads the proposal store -/
theorem live_congr {g g' : State} (h : g'.proposals = g.proposals) {id : Nat} (hl : Live g id) : Live g' id := by
  unfold Live findP at *; rw [h]; exact hl

end Shentu.C11H
