import Shentu.Proofs.C15HTask
/-
  Helper lemmas for `Shentu/Props/C15H.lean`, part 2: the reward increments of one bounty distribution never add up to more
  than the bounty, in any denomination, and crediting them raises the operators' accumulated rewards by exactly their sum.
-/
namespace Shentu.C15HH
open Shentu Shentu.Oracle Shentu.Halt.Orc
set_option linter.unusedSimpArgs false
set_option linter.unusedVariables false

/-- what a list of reward increments adds up to in one denomination -/
def incSum (incs : List (Addr × Coins)) (d : Denom) : Int := (incs.map (fun i => Coins.amountOf i.2 d)).sum

@[simp] theorem incSum_nil (d : Denom) : incSum [] d = 0 := rfl
@[simp] theorem incSum_cons (i : Addr × Coins) (incs : List (Addr × Coins)) (d : Denom) :
    incSum (i :: incs) d = Coins.amountOf i.2 d + incSum incs d := by simp [incSum]
@[simp] theorem incSum_append (a b : List (Addr × Coins)) (d : Denom) : incSum (a ++ b) d = incSum a d + incSum b d := by
  simp [incSum]

/-! ### the total weight does not depend on the accumulator, nor on anything but who answered what -/

theorem totalValid_shift (bond : Denom) (s : State) (b : Nat) : ∀ (rs : List Response) (acc : Int),
    totalValid bond s b rs acc = match totalValid bond s b rs 0 with
      | .error x => .error x
      | .ok v0 => .ok (acc + v0) := by
  intro rs
  induction rs with
  | nil => intro acc; simp [totalValid]
  | cons r rest ih =>
    intro acc
    rw [totalValid, totalValid]
    by_cases hel : eligible s b r = true
    · simp only [hel, if_true]
      cases respWeight bond s b r with
      | error x => rfl
      | ok ow =>
        cases ow with
        | none => exact ih acc
        | some w =>
          dsimp only
          rw [ih (acc + w), ih (0 + w)]
          cases totalValid bond s b rest 0 with
          | error x => rfl
          | ok v0 => dsimp only; congr 1; omega
    · simp only [hel]
      exact ih acc

theorem eligible_congr (s : State) (b : Nat) {r r' : Response} (h : rsig r = rsig r') : eligible s b r = eligible s b r' := by
  have h2 : r.score = r'.score := congrArg Prod.snd h
  unfold eligible; rw [h2]

theorem respWeight_congr (bond : Denom) (s : State) (b : Nat) {r r' : Response} (h : rsig r = rsig r') :
    respWeight bond s b r = respWeight bond s b r' := by
  have h1 : r.op = r'.op := congrArg Prod.fst h
  have h2 : r.score = r'.score := congrArg Prod.snd h
  unfold respWeight; rw [h1, h2]

theorem totalValid_rsig (bond : Denom) (s : State) (b : Nat) : ∀ (rs rs' : List Response) (acc : Int),
    rs.map rsig = rs'.map rsig → totalValid bond s b rs acc = totalValid bond s b rs' acc := by
  intro rs
  induction rs with
  | nil => intro rs' acc h; cases rs' with
    | nil => rfl
    | cons _ _ => simp at h
  | cons r rest ih =>
    intro rs' acc h
    cases rs' with
    | nil => simp at h
    | cons r' rest' =>
      simp only [List.map_cons, List.cons.injEq] at h
      rw [totalValid, totalValid, eligible_congr s b h.1, respWeight_congr bond s b h.1]
      split
      · split
        · rfl
        · exact ih _ _ h.2
        · exact ih _ _ h.2
      · exact ih _ _ h.2

/-! ### one share -/

theorem payAmount_share {bond : Denom} {s : State} {b : Nat} {amount tv : Int} {r : Response} {a : Int}
    (h : payAmount bond s b amount tv r = .ok (some a)) :
    ∃ w, respWeight bond s b r = .ok (some w) ∧ a = Int.tdiv (amount * w) tv := by
  unfold payAmount at h
  unfold respWeight
  cases hc : collateralAmount bond s r.op with
  | error x => rw [hc] at h; cases h
  | ok oc =>
    cases oc with
    | none => rw [hc] at h; cases h
    | some c =>
      rw [hc] at h
      dsimp only at h ⊢
      split at h
      · cases h; exact ⟨_, rfl, rfl⟩
      · split at h; · cases h
        rename_i hz
        cases h
        rw [if_neg hz]; exact ⟨_, rfl, rfl⟩
      · split at h; · cases h
        rename_i hz
        cases h
        rw [if_neg hz]; exact ⟨_, rfl, rfl⟩

theorem tdiv_mul_le (x tv : Int) (hx : 0 ≤ x) (htv : 0 < tv) : Int.tdiv x tv * tv ≤ x := by
  have h1 := Int.mul_tdiv_add_tmod x tv
  have h3 := Int.tmod_nonneg tv hx
  have : Int.tdiv x tv * tv = tv * Int.tdiv x tv := Int.mul_comm _ _
  omega

/-- the hypotheses under which weights are non-negative -/
structure WOk (bond : Denom) (s : State) : Prop where
  eps1 : 0 < s.params.eps1
  eps2 : 0 < s.params.eps2
  coll : CollNonneg bond s

theorem EndInv.wok {bond : Denom} {s : State} (h : EndInv bond s) : WOk bond s := ⟨h.eps1, h.eps2, h.coll⟩

theorem totalValid_nonneg {bond : Denom} {s : State} {b : Nat} (hw : WOk bond s) {rs : List Response}
    (hrs : ∀ r ∈ rs, 0 ≤ r.score ∧ r.score ≤ 100) {v : Int} (h : totalValid bond s b rs 0 = .ok v) : 0 ≤ v := by
  rcases totalValid_ok bond s b hw.eps1 hw.eps2 hw.coll rs 0 hrs with ⟨tv, htv, hle⟩
  rw [htv] at h; cases h; exact hle

/-- one bounty coin: every increment is a non-negative amount of that coin's denomination, and the increments times the
    total weight stay below the amount times the weight of the responses handled -/
theorem payCoinE_bound {bond : Denom} {s : State} {b : Nat} {dn : Denom} {amount tv : Int} (hw : WOk bond s)
    (ha : 0 ≤ amount) (htv : 0 < tv) :
    ∀ (rs done : List Response) (incs : List (Addr × Coins)) (out : List Response) (W : Int),
      (∀ r ∈ rs, 0 ≤ r.score ∧ r.score ≤ 100) → totalValid bond s b rs 0 = .ok W →
      payCoinE bond b dn amount tv s rs done = .ok (incs, out) →
      (∀ i ∈ incs, ∀ d, 0 ≤ Coins.amountOf i.2 d) ∧ (∀ d, d ≠ dn → incSum incs d = 0) ∧ incSum incs dn * tv ≤ amount * W := by
  intro rs
  induction rs with
  | nil =>
    intro done incs out W _ hW h
    unfold payCoinE at h; cases h
    unfold totalValid at hW; cases hW
    exact ⟨(fun i hi => by cases hi), fun _ _ => rfl, by simp⟩
  | cons r rest ih =>
    intro done incs out W hrs hW h
    have hr := hrs r List.mem_cons_self
    have hrest : ∀ x ∈ rest, 0 ≤ x.score ∧ x.score ≤ 100 := fun x hx => hrs x (List.mem_cons_of_mem _ hx)
    rw [totalValid] at hW
    unfold payCoinE at h
    have hel : eligibleDB s b r = eligible s b r := (Shentu.Props.C15.payout_same_selection s default b r).2
    rw [hel] at h
    by_cases he : eligible s b r = true
    · simp only [he, if_true] at h hW
      rcases respWeight_ok bond s b r hw.eps1 hw.eps2 hw.coll hr with ⟨x, hx, hnn⟩
      rw [hx] at hW
      cases hpa : payAmount bond s b amount tv r with
      | error e => rw [hpa] at h; cases h
      | ok oa =>
        rw [hpa] at h
        cases oa with
        | none =>
          dsimp only at h
          cases x with
          | none => exact ih _ _ _ _ hrest hW h
          | some w =>
            dsimp only at hW
            rw [totalValid_shift] at hW
            cases hW0 : totalValid bond s b rest 0 with
            | error e => rw [hW0] at hW; cases hW
            | ok W' =>
              rw [hW0] at hW; cases hW
              obtain ⟨i1, i2, i3⟩ := ih _ _ _ _ hrest hW0 h
              refine ⟨i1, i2, ?_⟩
              have hw0 := hnn w rfl
              have : 0 ≤ amount * w := Int.mul_nonneg ha hw0
              have e1 : amount * (0 + w + W') = amount * w + amount * W' := by rw [Int.zero_add, Int.mul_add]
              omega
        | some amt =>
          dsimp only at h
          obtain ⟨w, hw1, hamt⟩ := payAmount_share hpa
          rw [hx] at hw1; cases hw1
          dsimp only at hW
          rw [totalValid_shift] at hW
          cases hW0 : totalValid bond s b rest 0 with
          | error e => rw [hW0] at hW; cases hW
          | ok W' =>
            rw [hW0] at hW; cases hW
            have hw0 := hnn w rfl
            have hprod : 0 ≤ amount * w := Int.mul_nonneg ha hw0
            have hshare := tdiv_mul_le (amount * w) tv hprod htv
            have hamt0 : 0 ≤ amt := by rw [hamt]; exact Int.tdiv_nonneg hprod (Int.le_of_lt htv)
            have e1 : amount * (0 + w + W') = amount * w + amount * W' := by rw [Int.zero_add, Int.mul_add]
            split at h; · cases h
            split at h
            · obtain ⟨i1, i2, i3⟩ := ih _ _ _ _ hrest hW0 h
              exact ⟨i1, i2, by omega⟩
            · split at h; · cases h
              rename_i incs' d' hrec
              cases h
              obtain ⟨i1, i2, i3⟩ := ih _ _ _ _ hrest hW0 hrec
              have hrew : ∀ d, Coins.amountOf (if (amt == 0) = true then ([] : Coins) else [(dn, amt)]) d = if dn = d then amt else 0 := by
                intro d
                by_cases hz : amt = 0
                · simp [hz]
                · simp [hz]
              refine ⟨?_, ?_, ?_⟩
              · intro i hi d
                rcases List.mem_cons.mp hi with hi | hi
                · subst hi; dsimp only; rw [hrew]; split <;> omega
                · exact i1 i hi d
              · intro d hd
                rw [incSum_cons]; dsimp only; rw [hrew, i2 d hd]
                have : ¬ dn = d := fun h' => hd h'.symm
                simp [this]
              · rw [incSum_cons]; dsimp only; rw [hrew]
                simp only [if_true]
                rw [Int.add_mul, e1]
                rw [← hamt] at hshare
                omega
    · simp only [he] at h hW
      exact ih _ _ _ _ hrest hW h

theorem scores_of_rsig {rs rs' : List Response} (h : rs'.map rsig = rs.map rsig) (hrs : ∀ r ∈ rs, 0 ≤ r.score ∧ r.score ≤ 100) :
    ∀ r ∈ rs', 0 ≤ r.score ∧ r.score ≤ 100 := by
  intro r hr
  have : rsig r ∈ rs.map rsig := by rw [← h]; exact List.mem_map_of_mem hr
  obtain ⟨r0, hr0, he⟩ := List.mem_map.mp this
  have : r0.score = r.score := congrArg Prod.snd he
  rw [← this]; exact hrs r0 hr0

/-- all bounty coins: the increments stay within the coins handed out -/
theorem payAllE_bound {bond : Denom} {s : State} {b : Nat} {tv : Int} (hw : WOk bond s) (htv : 0 < tv) :
    ∀ (cs : List (Denom × Int)) (rs : List Response) (incs : List (Addr × Coins)) (out : List Response),
      (∀ c ∈ cs, 0 ≤ c.2) → (∀ r ∈ rs, 0 ≤ r.score ∧ r.score ≤ 100) → totalValid bond s b rs 0 = .ok tv →
      payAllE bond b tv s cs rs = .ok (incs, out) →
      (∀ i ∈ incs, ∀ d, 0 ≤ Coins.amountOf i.2 d) ∧ ∀ d, incSum incs d ≤ Coins.amountOf cs d := by
  intro cs
  induction cs with
  | nil =>
    intro rs incs out _ _ _ h
    unfold payAllE at h; cases h
    exact ⟨(fun i hi => by cases hi), fun d => by simp⟩
  | cons c cs ih =>
    intro rs incs out hcs hrs hW h
    unfold payAllE at h
    split at h; · cases h
    rename_i incs1 rs1 h1
    split at h; · cases h
    rename_i incs2 d2 h2
    cases h
    have hc := hcs c List.mem_cons_self
    obtain ⟨a1, a2, a3⟩ := payCoinE_bound hw hc htv rs [] incs1 rs1 tv hrs hW h1
    have hsig := payCoinE_rsig _ _ _ _ _ _ _ _ _ _ h1
    simp only [List.map_nil, List.nil_append] at hsig
    have hW1 : totalValid bond s b rs1 0 = .ok tv := by rw [totalValid_rsig bond s b rs1 rs 0 hsig]; exact hW
    obtain ⟨b1, b2⟩ := ih rs1 incs2 out (fun x hx => hcs x (List.mem_cons_of_mem _ hx)) (scores_of_rsig hsig hrs) hW1 h2
    refine ⟨?_, ?_⟩
    · intro i hi d
      rcases List.mem_append.mp hi with hi | hi
      · exact a1 i hi d
      · exact b1 i hi d
    · intro d
      rw [incSum_append, Coins.amountOf_cons]
      have := b2 d
      by_cases hd : c.1 = d
      · subst hd
        have h3 : incSum incs1 c.1 ≤ c.2 := by
          have : incSum incs1 c.1 * tv ≤ c.2 * tv := a3
          exact Int.le_of_mul_le_mul_right this htv
        simp; omega
      · have := a2 d (fun h' => hd h'.symm)
        simp [hd]; omega

/-! ### the stored form of a coin list holds the same amounts -/

theorem mem_insertSorted' {d x : Denom} {l : List Denom} (h : x ∈ Coins.insertSorted d l) : x = d ∨ x ∈ l := by
  induction l with
  | nil => simp [Coins.insertSorted] at h; exact Or.inl h
  | cons y ys ih =>
    unfold Coins.insertSorted at h
    split at h
    · rcases List.mem_cons.mp h with h | h
      · exact Or.inl h
      · exact Or.inr h
    · split at h
      · exact Or.inr h
      · rcases List.mem_cons.mp h with h | h
        · exact Or.inr (by rw [h]; exact List.mem_cons_self)
        · rcases ih h with h | h
          · exact Or.inl h
          · exact Or.inr (List.mem_cons_of_mem _ h)

theorem nodup_insertSorted {d : Denom} {l : List Denom} (hd : d ∉ l) (hn : l.Nodup) : (Coins.insertSorted d l).Nodup := by
  induction l with
  | nil => simp [Coins.insertSorted]
  | cons y ys ih =>
    unfold Coins.insertSorted
    have hdy : d ≠ y := fun h => hd (by rw [h]; exact List.mem_cons_self)
    have hdys : d ∉ ys := fun h => hd (List.mem_cons_of_mem _ h)
    have hny := List.nodup_cons.mp hn
    split
    · exact List.nodup_cons.mpr ⟨hd, hn⟩
    · split
      · rename_i heq; exact absurd (by simpa using heq) hdy
      · refine List.nodup_cons.mpr ⟨?_, ih hdys hny.2⟩
        intro hm
        rcases mem_insertSorted' hm with h | h
        · exact hdy h.symm
        · exact hny.1 h

theorem mem_sortDenoms' {x : Denom} : ∀ {l : List Denom}, x ∈ Coins.sortDenoms l → x ∈ l
  | [], h => by simp [Coins.sortDenoms] at h
  | y :: ys, h => by
    have e : Coins.sortDenoms (y :: ys) = Coins.insertSorted y (Coins.sortDenoms ys) := rfl
    rw [e] at h
    rcases mem_insertSorted' h with h | h
    · rw [h]; exact List.mem_cons_self
    · exact List.mem_cons_of_mem _ (mem_sortDenoms' h)

theorem nodup_sortDenoms : ∀ {l : List Denom}, l.Nodup → (Coins.sortDenoms l).Nodup
  | [], _ => by simp [Coins.sortDenoms]
  | y :: ys, hn => by
    have e : Coins.sortDenoms (y :: ys) = Coins.insertSorted y (Coins.sortDenoms ys) := rfl
    rw [e]
    have hny := List.nodup_cons.mp hn
    exact nodup_insertSorted (fun h => hny.1 (mem_sortDenoms' h)) (nodup_sortDenoms hny.2)

theorem nodup_eraseDups_aux : ∀ (n : Nat) (l : List Denom), l.length ≤ n → l.eraseDups.Nodup
  | _, [], _ => by simp
  | 0, _ :: _, h => by simp at h
  | n + 1, a :: as, h => by
    rw [List.eraseDups_cons]
    refine List.nodup_cons.mpr ⟨?_, nodup_eraseDups_aux n _ ?_⟩
    · intro hm
      rw [List.mem_eraseDups] at hm
      have := (List.mem_filter.mp hm).2
      simp at this
    · have := List.length_filter_le (fun b => !b == a) as
      simp only [List.length_cons] at h
      omega

/-- the entry of the stored form for one denomination -/
def cg (c : Coins) (x : Denom) : Option (Denom × Int) := let v := Coins.amountOf c x; if v == 0 then none else some (x, v)

theorem filterMap_cg_cons (c : Coins) (y : Denom) (ys : List Denom) :
    (y :: ys).filterMap (cg c) = if Coins.amountOf c y = 0 then ys.filterMap (cg c) else (y, Coins.amountOf c y) :: ys.filterMap (cg c) := by
  by_cases hz : Coins.amountOf c y = 0 <;> simp [List.filterMap_cons, cg, hz]

theorem amountOf_filterMap_notMem (c : Coins) (d : Denom) : ∀ (L : List Denom), d ∉ L →
    Coins.amountOf (L.filterMap (cg c)) d = 0
  | [], _ => rfl
  | y :: ys, h => by
    have hy : y ≠ d := fun h' => h (by rw [h']; exact List.mem_cons_self)
    have hys : d ∉ ys := fun h' => h (List.mem_cons_of_mem _ h')
    have ih := amountOf_filterMap_notMem c d ys hys
    rw [filterMap_cg_cons]
    split
    · exact ih
    · rw [Coins.amountOf_cons, ih]; simp [hy]

theorem amountOf_filterMap_nodup (c : Coins) (d : Denom) : ∀ (L : List Denom), L.Nodup →
    Coins.amountOf (L.filterMap (cg c)) d = if d ∈ L then Coins.amountOf c d else 0
  | [], _ => by simp
  | y :: ys, hn => by
    have hny := List.nodup_cons.mp hn
    have ih := amountOf_filterMap_nodup c d ys hny.2
    rw [filterMap_cg_cons]
    by_cases hyd : y = d
    · subst hyd
      have h0 := amountOf_filterMap_notMem c y ys hny.1
      split
      · rename_i hz
        rw [h0]; simp [hz]
      · rw [Coins.amountOf_cons, h0]; simp
    · have hmem : (d ∈ y :: ys) ↔ d ∈ ys := by
        simp only [List.mem_cons]; constructor
        · rintro (h | h)
          · exact absurd h.symm hyd
          · exact h
        · exact Or.inr
      split
      · rw [ih]; simp only [hmem]
      · rw [Coins.amountOf_cons, ih]; simp only [hmem]; simp [hyd]

theorem mem_insertSorted_of {d x : Denom} : ∀ {l : List Denom}, (x = d ∨ x ∈ l) → x ∈ Coins.insertSorted d l
  | [], h => by
    rcases h with h | h
    · simp [Coins.insertSorted, h]
    · cases h
  | y :: ys, h => by
    unfold Coins.insertSorted
    split
    · rcases h with h | h
      · rw [h]; exact List.mem_cons_self
      · exact List.mem_cons_of_mem _ h
    · split
      · rename_i heq
        have hdy : d = y := by simpa using heq
        rcases h with h | h
        · rw [h, hdy]; exact List.mem_cons_self
        · exact h
      · rcases h with h | h
        · exact List.mem_cons_of_mem _ (mem_insertSorted_of (Or.inl h))
        · rcases List.mem_cons.mp h with h | h
          · rw [h]; exact List.mem_cons_self
          · exact List.mem_cons_of_mem _ (mem_insertSorted_of (Or.inr h))

theorem mem_sortDenoms_of {x : Denom} : ∀ {l : List Denom}, x ∈ l → x ∈ Coins.sortDenoms l
  | [], h => by cases h
  | y :: ys, h => by
    have e : Coins.sortDenoms (y :: ys) = Coins.insertSorted y (Coins.sortDenoms ys) := rfl
    rw [e]
    rcases List.mem_cons.mp h with h | h
    · exact mem_insertSorted_of (Or.inl h)
    · exact mem_insertSorted_of (Or.inr (mem_sortDenoms_of h))

theorem amountOf_eq_zero_of_notMem (c : Coins) (d : Denom) (h : d ∉ c.map (·.1)) : Coins.amountOf c d = 0 := by
  induction c with
  | nil => rfl
  | cons x xs ih =>
    simp only [List.map_cons, List.mem_cons, not_or] at h
    rw [Coins.amountOf_cons, ih h.2]
    have : ¬ x.1 = d := fun h' => h.1 h'.symm
    simp [this]

theorem amountOf_canon (c : Coins) (d : Denom) : Coins.amountOf (Coins.canon c) d = Coins.amountOf c d := by
  have e : Coins.canon c = (Coins.sortDenoms (c.map (·.1)).eraseDups).filterMap (cg c) := rfl
  rw [e, amountOf_filterMap_nodup c d _ (nodup_sortDenoms (nodup_eraseDups_aux _ _ (Nat.le_refl _)))]
  split
  · rfl
  · rename_i hm
    symm
    apply amountOf_eq_zero_of_notMem
    intro hc
    apply hm
    have : d ∈ (c.map (·.1)).eraseDups := by rw [List.mem_eraseDups]; exact hc
    exact mem_sortDenoms_of this

/-! ### one distribution -/

/-- **the increments of one distribution stay within the bounty**, in every denomination, and none is negative -/
theorem distributeBountyE_bound {bond : Denom} {s : State} {t t2 : Task} {incs : List (Addr × Coins)} (hw : WOk bond s)
    (hb : Coins.isAnyNegative t.bounty = false) (hrs : ∀ r ∈ t.responses, 0 ≤ r.score ∧ r.score ≤ 100)
    (h : distributeBountyE bond s t = .ok (incs, t2)) :
    (∀ i ∈ incs, ∀ d, 0 ≤ Coins.amountOf i.2 d) ∧ ∀ d, incSum incs d ≤ Coins.amountOf t.bounty d := by
  unfold distributeBountyE at h
  split at h; · cases h
  rename_i tv htv
  split at h; · cases h
  rename_i hnz
  split at h; · cases h
  rename_i incs' rs hp
  cases h
  have h0 := totalValid_nonneg hw hrs htv
  have hpos : 0 < tv := by
    have : tv ≠ 0 := by simpa [Gen.Oracle.dbNoValid] using hnz
    omega
  have := payAllE_bound hw hpos (Coins.canon t.bounty) t.responses incs rs (canon_nonneg _ hb) hrs htv hp
  exact ⟨this.1, fun d => by rw [← amountOf_canon]; exact this.2 d⟩

/-! ### crediting -/

def rewSum (ops : List Operator) (d : Denom) : Int := (ops.map (fun o => Coins.amountOf o.rew d)).sum
def collSum (ops : List Operator) (d : Denom) : Int := (ops.map (fun o => Coins.amountOf o.coll d)).sum

theorem map_credit_fix (a : Addr) (F : Operator → Operator) : ∀ (l : List Operator), (∀ y ∈ l, ¬ y.addr = a) →
    l.map (fun x => if x.addr == a then F x else x) = l
  | [], _ => rfl
  | y :: ys, h => by
    have hy : ¬ y.addr = a := h y List.mem_cons_self
    simp only [List.map_cons, beq_iff_eq, hy, if_false]
    rw [show (ys.map fun x => if x.addr = a then F x else x) = ys from by
      have := map_credit_fix a F ys (fun z hz => h z (List.mem_cons_of_mem _ hz))
      simpa using this]

/-- crediting the operator found at `a` keeps addresses and collateral and adds exactly the credit to the rewards -/
theorem credit_found {a : Addr} {c : Coins} {d : Denom} : ∀ {l : List Operator} {o : Operator}, (l.map (·.addr)).Nodup →
    l.find? (·.addr == a) = some o →
    (credit a c l).map (·.addr) = l.map (·.addr) ∧ (credit a c l).map (·.coll) = l.map (·.coll) ∧
    rewSum (credit a c l) d = rewSum l d + Coins.amountOf c d
  | [], _, _, h => by cases h
  | x :: xs, o, hn, h => by
    rw [credit_some h]
    have hnx := List.nodup_cons.mp (by simpa using hn : (x.addr :: xs.map (·.addr)).Nodup)
    by_cases hx : x.addr == a
    · have hxa : x.addr = a := by simpa using hx
      have ho : x = o := by simpa [List.find?_cons, hx] using h
      subst ho
      have hfix := map_credit_fix a (fun _ => { x with rew := Coins.add x.rew c }) xs (by
        intro y hy hya
        apply hnx.1
        rw [hxa, ← hya]; exact List.mem_map_of_mem hy)
      simp only [List.map_cons, hx, if_true]
      rw [hfix]
      refine ⟨rfl, rfl, ?_⟩
      simp [rewSum]; omega
    · have hx' : (x.addr == a) = false := by simpa using hx
      have h' : xs.find? (·.addr == a) = some o := by simpa [List.find?_cons, hx'] using h
      obtain ⟨i1, i2, i3⟩ := credit_found (c := c) (d := d) hnx.2 h'
      rw [credit_some h'] at i1 i2 i3
      simp only [List.map_cons, hx', Bool.false_eq_true, if_false]
      refine ⟨by rw [i1], by rw [i2], ?_⟩
      simp only [rewSum, List.map_cons, List.sum_cons] at i3 ⊢
      omega

theorem credit_sums {a : Addr} {c : Coins} {l : List Operator} (hn : (l.map (·.addr)).Nodup) (hc : ∀ d, 0 ≤ Coins.amountOf c d) :
    (credit a c l).map (·.addr) = l.map (·.addr) ∧ (credit a c l).map (·.coll) = l.map (·.coll) ∧
    ∀ d, rewSum l d ≤ rewSum (credit a c l) d ∧ rewSum (credit a c l) d ≤ rewSum l d + Coins.amountOf c d := by
  cases h : l.find? (·.addr == a) with
  | none =>
    rw [credit_none h]
    exact ⟨rfl, rfl, fun d => ⟨Int.le_refl _, by have := hc d; omega⟩⟩
  | some o =>
    refine ⟨(credit_found (c := c) (d := "") hn h).1, (credit_found (c := c) (d := "") hn h).2.1, fun d => ?_⟩
    have := (credit_found (c := c) (d := d) hn h).2.2
    have := hc d
    omega

theorem credits_sums : ∀ (incs : List (Addr × Coins)) {l : List Operator}, (l.map (·.addr)).Nodup →
    (∀ i ∈ incs, ∀ d, 0 ≤ Coins.amountOf i.2 d) →
    (credits incs l).map (·.addr) = l.map (·.addr) ∧ (credits incs l).map (·.coll) = l.map (·.coll) ∧
    ∀ d, rewSum l d ≤ rewSum (credits incs l) d ∧ rewSum (credits incs l) d ≤ rewSum l d + incSum incs d
  | [], l, _, _ => ⟨rfl, rfl, fun d => by simp⟩
  | i :: incs, l, hn, hc => by
    rw [credits_cons]
    obtain ⟨a1, a2, a3⟩ := credit_sums (a := i.1) (c := i.2) hn (hc i List.mem_cons_self)
    obtain ⟨b1, b2, b3⟩ := credits_sums incs (l := credit i.1 i.2 l) (by rw [a1]; exact hn)
      (fun j hj => hc j (List.mem_cons_of_mem _ hj))
    refine ⟨b1.trans a1, b2.trans a2, fun d => ?_⟩
    have := a3 d; have := b3 d
    rw [incSum_cons]
    omega

end Shentu.C15HH
