import Shentu.Proofs.C19vmRun
import Shentu.Proofs.C01txExamples
/-
  Helper lemmas for `Shentu/Props/C19vm.lean`, part 3: from the interpreter's cache to the chain-level transaction
  (`CvmTx.tx`), and the concrete states of the non-vacuity examples.
-/
namespace Shentu.LockVmH
open Shentu Shentu.EVM Shentu.CvmTx Shentu.CvmTxH

/-- the statement about balances, for an address with or without an account: an address whose account (if any) has no code
    and in whose name the outermost frame does not execute ends with at least what it had, minus the value if it pays it -/
theorem execTop_only_gain (env : Env) (gas : Nat) (pre : World) (depth : Nat) (a : Nat)
    (hcode : ∀ acc, pre.get a = some acc → acc.code.size = 0) (hcallee : env.callee ≠ a ∨ env.code.size = 0) :
    balOf pre a ≤ balOf (execTop env gas pre depth).world a + (if env.caller = a ∧ env.callType ≤ 1 then env.value else 0) := by
  cases hg : pre.get a with
  | none => rw [balOf_of_get_none hg]; omega
  | some acc =>
    have hp : Passive a acc.balance pre := ⟨acc, hg, hcode acc hg, Nat.le_refl _⟩
    have := passive_balOf (execTop_passive env gas pre depth hcallee hp)
    rw [balOf_of_get_some hg]
    omega

/-- the loaded cache shows the store's code -/
theorem loadWorld_code {c : Cfg} {l : Ledger} {st : Store} {x : Nat} (h : ∀ acc, World.get st x = some acc → acc.code.size = 0) :
    ∀ acc, World.get (loadWorld c l st) x = some acc → acc.code.size = 0 := by
  intro acc hacc
  rw [get_loadWorld] at hacc
  cases hg : World.get st x with
  | none => rw [hg] at hacc; cases hacc
  | some a0 =>
    rw [hg] at hacc
    simp only [Option.map_some] at hacc
    injection hacc with hacc
    subst hacc
    exact h a0 hg

/-- **the interpreter-level bound that `C01tx.tx_respects_lock_partial` asks for**: whatever the callee, a caller whose
    account has no code ends, in the final cache of the transaction, with at least its balance minus the value -/
theorem codeless_caller_cache_bound {c : Cfg} {l : Ledger} {st : Store} {m : Msg} {w : World}
    (hdep : m.deploy = true → World.get st m.callee = none)
    (hcode : ∀ acc, World.get st m.caller = some acc → acc.code.size = 0)
    (hi : installCode m (vmRun c l st m) = some w) :
    cacheBal (loadWorld c l st) m.caller ≤ cacheBal w m.caller + m.value := by
  simp only [cacheBal_eq]
  by_cases hd : m.deploy = true
  · -- a deployment: the new address has no account before
    have hnone := hdep hd
    by_cases hcc : m.callee = m.caller
    · -- the caller has no account: it holds nothing
      rw [hcc] at hnone
      have : World.get (loadWorld c l st) m.caller = none := by rw [get_loadWorld, hnone]; rfl
      rw [balOf_of_get_none this]
      omega
    · have hpre : preStore st m = { addr := m.callee } :: st := by unfold preStore; rw [if_pos hd]
      have hget : World.get (preStore st m) m.caller = World.get st m.caller := by
        rw [hpre, get_cons]
        simp [hcc]
      have hb : balOf (loadWorld c l (preStore st m)) m.caller = balOf (loadWorld c l st) m.caller := by
        unfold balOf
        rw [get_loadWorld, get_loadWorld, hget]
      have hmain := execTop_only_gain (envOf st m) m.gas (loadWorld c l (preStore st m)) m.depth m.caller
        (loadWorld_code (fun acc h => hcode acc (by rw [← hget]; exact h))) (.inl hcc)
      rw [hb] at hmain
      have hw : balOf w m.caller = balOf (vmRun c l st m).world m.caller := by
        unfold installCode at hi
        rw [if_pos hd] at hi
        split at hi
        · rename_i acc hacc
          injection hi with hi
          subst hi
          refine balOf_put_ne _ _ ?_
          show m.caller ≠ acc.addr
          rw [get_addr hacc]
          exact fun e => hcc e.symm
        · cases hi
      rw [hw]
      have hv : (if (envOf st m).caller = m.caller ∧ (envOf st m).callType ≤ 1 then (envOf st m).value else 0) = m.value := by
        have : (envOf st m).caller = m.caller ∧ (envOf st m).callType ≤ 1 := ⟨rfl, Nat.zero_le _⟩
        rw [if_pos this]; rfl
      rw [hv] at hmain
      exact hmain
  · -- a call: if the caller calls itself, its (empty) code is what runs
    have hpre : preStore st m = st := by unfold preStore; rw [if_neg hd]
    have hgood : (envOf st m).callee ≠ m.caller ∨ (envOf st m).code.size = 0 := by
      by_cases hcc : m.callee = m.caller
      · right
        show (codeOf st m).size = 0
        unfold codeOf
        rw [if_neg (by simpa using hd), hcc]
        cases hg : World.get st m.caller with
        | none => rfl
        | some acc => exact hcode acc hg
      · exact .inl hcc
    have hmain := execTop_only_gain (envOf st m) m.gas (loadWorld c l (preStore st m)) m.depth m.caller
      (by rw [hpre]; exact loadWorld_code hcode) hgood
    rw [hpre] at hmain
    have hw : w = (vmRun c l st m).world := by
      unfold installCode at hi
      rw [if_neg hd] at hi
      injection hi with hi
      exact hi.symm
    have hv : (if (envOf st m).caller = m.caller ∧ (envOf st m).callType ≤ 1 then (envOf st m).value else 0) = m.value := by
      have : (envOf st m).caller = m.caller ∧ (envOf st m).callType ≤ 1 := ⟨rfl, Nat.zero_le _⟩
      rw [if_pos this]; rfl
    rw [hv] at hmain
    rw [hw]
    unfold vmRun
    rw [hpre]
    exact hmain

-- ---------------------------------------------------------------- concrete states

namespace Ex
open Shentu.CvmTxH.Ex

/-- a contract that re-enters itself, forwards and self-destructs.  Entered WITH call data it calls itself with the value it
    received and no call data, then stops.  Entered WITHOUT call data it sends 2 coins to the third user `T` and
    self-destructs in favour of the transaction's origin.
    `CALLDATASIZE PUSH1 0x15 JUMPI | PUSH1 0 ×4 PUSH1 2 PUSH2 0x3000 GAS CALL ORIGIN SELFDESTRUCT |
     JUMPDEST PUSH1 0 ×4 CALLVALUE ADDRESS GAS CALL STOP` -/
def codeK : ByteArray := ⟨#[0x36, 0x60, 0x15, 0x57,
  0x60, 0, 0x60, 0, 0x60, 0, 0x60, 0, 0x60, 2, 0x61, 0x30, 0x00, 0x5a, 0xf1, 0x32, 0xff,
  0x5b, 0x60, 0, 0x60, 0, 0x60, 0, 0x60, 0, 0x34, 0x30, 0x5a, 0xf1, 0x00]⟩
def K : Nat := 45056

/-- a user `A` with 100 coins, a third user `T` with 1 (both without code), the contract `K` with 7 -/
def st2 : Store := [{ addr := A }, { addr := T }, { addr := K, code := codeK }]
def l2 : Ledger := { posts := [("4096", "uctk", 100), ("12288", "uctk", 1), ("45056", "uctk", 7)], supply := [("uctk", 108)] }

theorem wf2 : WF c0 l2 st2 :=
  wf_of_check c0_inj (by decide) (by decide) (by decide +kernel) (by decide)

/-- the user calls the contract with 3 coins and one byte of call data -/
def mK : Msg := { caller := A, callee := K, value := 3, data := ⟨#[1]⟩, gas := 100000 }

/-- a creator whose CREATE lands (the derivation oracle says so) on the user's address: it stores the 16-byte init code
    "send 5 coins to `T`" in memory and creates with it.
    `PUSH16 <init> PUSH1 0 MSTORE PUSH1 16 PUSH1 16 PUSH1 0 CREATE STOP` -/
def codeCol : ByteArray := ⟨#[0x6f] ++ codeSend5.data ++ #[0x60, 0, 0x52, 0x60, 16, 0x60, 16, 0x60, 0, 0xf0, 0x00]⟩
def wCol : World := [{ addr := A, balance := 100 }, { addr := T, balance := 1 }, { addr := K, balance := 7, code := codeCol }]
def envCol : Env :=
  { code := codeCol, opBits := opcodeBits codeCol, input := .empty, caller := T, callee := K, origin := T, value := 0,
    height := 1, time := 0, chainId := 0, fresh := fun _ _ => A }

end Ex

end Shentu.LockVmH
