import Shentu.Proofs.OracleLemmas
/-
  Helper lemmas for `Shentu/Props/C20order.lean`.

  Handling the task with store key `k` in the end-blocker is described as an *effect* `app k f incs` on the state: every task
  with key `k` is replaced through `f`, and the reward increments `incs` are credited to the operators one after the other
  (`credit`: what `setOp s { o with rew := o.rew ++ c }` does for the operator `o` found at that address).  The effect (or the
  panic) is the same for every state that has the same parameters, the same collateral per address and the same task under
  `k` (`Agree`): `endOne_eff`.  Effects under different keys commute up to the order of the appended reward coins.
-/
namespace Shentu.Oracle
open Shentu

/-! ### the relations (copies of the ones stated in `Props/C20order.lean`) -/

def OpR (a b : Operator) : Prop :=
  a.addr = b.addr ∧ a.proposer = b.proposer ∧ a.coll = b.coll ∧ ∀ d, Coins.amountOf a.rew d = Coins.amountOf b.rew d

def OpsR : List Operator → List Operator → Prop
  | [], [] => True
  | a :: as, b :: bs => OpR a b ∧ OpsR as bs
  | _, _ => False

def StateR (a b : State) : Prop :=
  OpsR a.ops b.ops ∧ a.wds = b.wds ∧ a.total = b.total ∧ a.tasks = b.tasks ∧ a.closing = b.closing ∧ a.params = b.params

@[simp] theorem OpsR_nil_nil : OpsR [] [] = True := by simp [OpsR]
@[simp] theorem OpsR_cons_cons (a b : Operator) (as bs : List Operator) : OpsR (a :: as) (b :: bs) = (OpR a b ∧ OpsR as bs) := by
  simp [OpsR]
@[simp] theorem OpsR_nil_cons (b : Operator) (bs : List Operator) : OpsR [] (b :: bs) = False := by simp [OpsR]
@[simp] theorem OpsR_cons_nil (a : Operator) (as : List Operator) : OpsR (a :: as) [] = False := by simp [OpsR]

theorem OpR.refl (a : Operator) : OpR a a := ⟨rfl, rfl, rfl, fun _ => rfl⟩
theorem OpR.symm {a b : Operator} (h : OpR a b) : OpR b a := ⟨h.1.symm, h.2.1.symm, h.2.2.1.symm, fun d => (h.2.2.2 d).symm⟩
theorem OpR.trans {a b c : Operator} (h1 : OpR a b) (h2 : OpR b c) : OpR a c :=
  ⟨h1.1.trans h2.1, h1.2.1.trans h2.2.1, h1.2.2.1.trans h2.2.2.1, fun d => (h1.2.2.2 d).trans (h2.2.2.2 d)⟩

theorem OpsR.refl : ∀ l : List Operator, OpsR l l
  | [] => by simp
  | a :: as => by simp [OpR.refl a, OpsR.refl as]

theorem OpsR.symm : ∀ {l l' : List Operator}, OpsR l l' → OpsR l' l
  | [], [], _ => by simp
  | [], _ :: _, h => by simp at h
  | _ :: _, [], h => by simp at h
  | a :: as, b :: bs, h => by
    simp only [OpsR_cons_cons] at h ⊢
    exact ⟨h.1.symm, OpsR.symm h.2⟩

theorem OpsR.trans : ∀ {l1 l2 l3 : List Operator}, OpsR l1 l2 → OpsR l2 l3 → OpsR l1 l3
  | [], [], [], _, _ => by simp
  | [], [], _ :: _, _, h => by simp at h
  | [], _ :: _, _, h, _ => by simp at h
  | _ :: _, [], _, h, _ => by simp at h
  | _ :: _, _ :: _, [], _, h => by simp at h
  | a :: as, b :: bs, c :: cs, h1, h2 => by
    simp only [OpsR_cons_cons] at h1 h2 ⊢
    exact ⟨h1.1.trans h2.1, OpsR.trans h1.2 h2.2⟩

theorem StateR.refl (s : State) : StateR s s := ⟨OpsR.refl _, rfl, rfl, rfl, rfl, rfl⟩
theorem StateR.symm {a b : State} (h : StateR a b) : StateR b a :=
  ⟨h.1.symm, h.2.1.symm, h.2.2.1.symm, h.2.2.2.1.symm, h.2.2.2.2.1.symm, h.2.2.2.2.2.symm⟩
theorem StateR.trans {a b c : State} (h1 : StateR a b) (h2 : StateR b c) : StateR a c :=
  ⟨h1.1.trans h2.1, h1.2.1.trans h2.2.1, h1.2.2.1.trans h2.2.2.1, h1.2.2.2.1.trans h2.2.2.2.1,
   h1.2.2.2.2.1.trans h2.2.2.2.2.1, h1.2.2.2.2.2.trans h2.2.2.2.2.2⟩

/-- related lists: the same search finds nothing in both or related operators -/
theorem OpsR.find (a : Addr) : ∀ {l l' : List Operator}, OpsR l l' →
    (l.find? (·.addr == a) = none ∧ l'.find? (·.addr == a) = none) ∨
    ∃ o o', l.find? (·.addr == a) = some o ∧ l'.find? (·.addr == a) = some o' ∧ OpR o o'
  | [], [], _ => by simp
  | [], _ :: _, h => by simp at h
  | _ :: _, [], h => by simp at h
  | x :: xs, y :: ys, h => by
    simp only [OpsR_cons_cons] at h
    have hxy : x.addr = y.addr := h.1.1
    by_cases hx : x.addr == a
    · have hy : y.addr == a := by rw [← hxy]; exact hx
      exact Or.inr ⟨x, y, by simp [hx], by simp [hy], h.1⟩
    · have hy : ¬ (y.addr == a) := by rw [← hxy]; exact hx
      simp only [List.find?_cons, hx, hy]
      exact OpsR.find a h.2

theorem OpsR.map (g g' : Operator → Operator) (hg : ∀ x x', OpR x x' → OpR (g x) (g' x')) :
    ∀ {l l' : List Operator}, OpsR l l' → OpsR (l.map g) (l'.map g')
  | [], [], _ => by simp
  | [], _ :: _, h => by simp at h
  | _ :: _, [], h => by simp at h
  | x :: xs, y :: ys, h => by
    simp only [OpsR_cons_cons, List.map_cons] at h ⊢
    exact ⟨hg _ _ h.1, OpsR.map g g' hg h.2⟩

/-! ### crediting a reward -/

/-- what `setOp s { o with rew := o.rew ++ c }` does to the operator list, for `o` the operator found at `a` -/
def credit (a : Addr) (c : Coins) (ops : List Operator) : List Operator :=
  match ops.find? (·.addr == a) with
  | none => ops
  | some o => ops.map (fun x => if x.addr == a then { o with rew := Coins.add o.rew c } else x)

def credits (incs : List (Addr × Coins)) (ops : List Operator) : List Operator :=
  incs.foldl (fun l i => credit i.1 i.2 l) ops

@[simp] theorem credits_nil (ops : List Operator) : credits [] ops = ops := rfl
@[simp] theorem credits_cons (i : Addr × Coins) (incs : List (Addr × Coins)) (ops : List Operator) :
    credits (i :: incs) ops = credits incs (credit i.1 i.2 ops) := rfl
theorem credits_append (l1 l2 : List (Addr × Coins)) (ops : List Operator) :
    credits (l1 ++ l2) ops = credits l2 (credits l1 ops) := by
  simp [credits, List.foldl_append]

theorem find_addr {l : List Operator} {a : Addr} {o : Operator} (h : l.find? (·.addr == a) = some o) : o.addr = a := by
  have := List.find?_some h; simpa using this

theorem credit_none {a : Addr} {c : Coins} {l : List Operator} (h : l.find? (·.addr == a) = none) : credit a c l = l := by
  simp [credit, h]

theorem credit_some {a : Addr} {c : Coins} {l : List Operator} {o : Operator} (h : l.find? (·.addr == a) = some o) :
    credit a c l = l.map (fun x => if x.addr == a then { o with rew := Coins.add o.rew c } else x) := by
  simp [credit, h]

theorem find_credit_some {a : Addr} (c : Coins) {l : List Operator} {o : Operator} (h : l.find? (·.addr == a) = some o) (b : Addr) :
    (credit a c l).find? (·.addr == b) = if a == b then some { o with rew := Coins.add o.rew c } else l.find? (·.addr == b) := by
  rw [credit_some h]
  have ha := find_addr h
  subst ha
  have := find_map_replace l { o with rew := Coins.add o.rew c } b
  simp only at this
  rw [this, h]
  simp

/-- crediting changes nobody's collateral -/
theorem find_credit_coll (a : Addr) (c : Coins) (l : List Operator) (b : Addr) :
    ((credit a c l).find? (·.addr == b)).map (·.coll) = (l.find? (·.addr == b)).map (·.coll) := by
  cases h : l.find? (·.addr == a) with
  | none => rw [credit_none h]
  | some o =>
    rw [find_credit_some c h]
    by_cases hab : a == b
    · have : a = b := by simpa using hab
      subst this
      simp [h]
    · simp [hab]

theorem find_credits_coll (incs : List (Addr × Coins)) : ∀ (l : List Operator) (b : Addr),
    ((credits incs l).find? (·.addr == b)).map (·.coll) = (l.find? (·.addr == b)).map (·.coll) := by
  induction incs with
  | nil => intro l b; rfl
  | cons i incs ih => intro l b; rw [credits_cons, ih, find_credit_coll]

theorem credit_congr (a : Addr) (c : Coins) {l l' : List Operator} (h : OpsR l l') : OpsR (credit a c l) (credit a c l') := by
  rcases h.find a with ⟨h1, h2⟩ | ⟨o, o', h1, h2, ho⟩
  · rw [credit_none h1, credit_none h2]; exact h
  · rw [credit_some h1, credit_some h2]
    refine OpsR.map _ _ ?_ h
    intro x x' hx
    rw [hx.1]
    by_cases hxa : x'.addr == a
    · simp only [hxa, if_true]
      exact ⟨ho.1, ho.2.1, ho.2.2.1, fun d => by simp [ho.2.2.2 d]⟩
    · simp only [hxa]
      exact hx

theorem credits_congr (incs : List (Addr × Coins)) : ∀ {l l' : List Operator}, OpsR l l' → OpsR (credits incs l) (credits incs l') := by
  induction incs with
  | nil => intro l l' h; exact h
  | cons i incs ih => intro l l' h; exact ih (credit_congr i.1 i.2 h)

theorem OpsR.map_self (g g' : Operator → Operator) (hg : ∀ x, OpR (g x) (g' x)) : ∀ l : List Operator, OpsR (l.map g) (l.map g')
  | [] => by simp
  | x :: xs => by simp only [List.map_cons, OpsR_cons_cons]; exact ⟨hg x, OpsR.map_self g g' hg xs⟩

/-- two credits commute up to the order of the appended coins -/
theorem credit_comm (a b : Addr) (c d : Coins) (l : List Operator) :
    OpsR (credit a c (credit b d l)) (credit b d (credit a c l)) := by
  cases ha : l.find? (·.addr == a) with
  | none =>
    cases hb : l.find? (·.addr == b) with
    | none => rw [credit_none hb, credit_none ha, credit_none hb]; exact OpsR.refl _
    | some ob =>
      have hne : (b == a) = false := by
        cases hba : b == a with
        | false => rfl
        | true => have : b = a := by simpa using hba
                  subst this; rw [ha] at hb; cases hb
      have h1 : (credit b d l).find? (·.addr == a) = none := by rw [find_credit_some d hb, hne]; simpa using ha
      rw [credit_none h1, credit_none ha]; exact OpsR.refl _
  | some oa =>
    cases hb : l.find? (·.addr == b) with
    | none =>
      have hne : (a == b) = false := by
        cases hab : a == b with
        | false => rfl
        | true => have : a = b := by simpa using hab
                  subst this; rw [ha] at hb; cases hb
      have h1 : (credit a c l).find? (·.addr == b) = none := by rw [find_credit_some c ha, hne]; simpa using hb
      rw [credit_none h1, credit_none hb]; exact OpsR.refl _
    | some ob =>
      have haa := find_addr ha
      have hbb := find_addr hb
      by_cases hab : a = b
      · subst hab
        rw [ha] at hb; cases hb
        have h1 := find_credit_some d ha a
        have h2 := find_credit_some c ha a
        simp only [beq_self_eq_true, if_true] at h1 h2
        rw [credit_some h1, credit_some h2, credit_some ha, credit_some ha, List.map_map, List.map_map]
        apply OpsR.map_self
        intro x
        by_cases hx : x.addr == a
        · simp only [Function.comp, hx, if_true, haa, beq_self_eq_true]
          refine ⟨rfl, rfl, rfl, fun dn => ?_⟩
          simp only [Coins.amountOf_add]; omega
        · have hx' : (x.addr == a) = false := by simpa using hx
          simp only [Function.comp, hx', Bool.false_eq_true, if_false]
          exact OpR.refl _
      · have hab' : (a == b) = false := by simpa using hab
        have hba' : (b == a) = false := by simpa using (fun h : b = a => hab h.symm)
        have h1 := find_credit_some d hb a
        have h2 := find_credit_some c ha b
        simp only [hab', hba'] at h1 h2
        rw [h1.trans ha |> credit_some, h2.trans hb |> credit_some, credit_some ha, credit_some hb, List.map_map, List.map_map]
        apply OpsR.map_self
        intro x
        by_cases hxa : x.addr == a
        · have hxb : (x.addr == b) = false := by
            have : x.addr = a := by simpa using hxa
            rw [this]; exact hab'
          simp only [Function.comp, hxa, hxb, if_true, haa, hab', Bool.false_eq_true, if_false]
          exact OpR.refl _
        · have hxa' : (x.addr == a) = false := by simpa using hxa
          by_cases hxb : x.addr == b
          · simp only [Function.comp, hxa', hxb, if_true, hbb, hba', Bool.false_eq_true, if_false]
            exact OpR.refl _
          · have hxb' : (x.addr == b) = false := by simpa using hxb
            simp only [Function.comp, hxa', hxb', Bool.false_eq_true, if_false]
            exact OpR.refl _

theorem credit_credits_comm (a : Addr) (c : Coins) (incs : List (Addr × Coins)) : ∀ l : List Operator,
    OpsR (credit a c (credits incs l)) (credits incs (credit a c l)) := by
  induction incs with
  | nil => intro l; exact OpsR.refl _
  | cons i incs ih =>
    intro l
    simp only [credits_cons]
    exact (ih _).trans (credits_congr incs (credit_comm a i.1 c i.2 l))

theorem credits_comm (l1 l2 : List (Addr × Coins)) : ∀ l : List Operator,
    OpsR (credits l1 (credits l2 l)) (credits l2 (credits l1 l)) := by
  induction l1 with
  | nil => intro l; exact OpsR.refl _
  | cons i l1 ih =>
    intro l
    simp only [credits_cons]
    exact (credits_congr l1 (credit_credits_comm i.1 i.2 l2 l)).trans (ih _)

/-! ### what handling a task reads: the parameters and the collateral per address -/

def collOf (s : State) (a : Addr) : Option Coins := (findOp s a).map (·.coll)

def View (s u : State) : Prop := s.params = u.params ∧ ∀ a, collOf s a = collOf u a

theorem View.refl (s : State) : View s s := ⟨rfl, fun _ => rfl⟩
theorem View.symm {s u : State} (h : View s u) : View u s := ⟨h.1.symm, fun a => (h.2 a).symm⟩
theorem View.trans {s u v : State} (h1 : View s u) (h2 : View u v) : View s v := ⟨h1.1.trans h2.1, fun a => (h1.2 a).trans (h2.2 a)⟩

theorem View.findOp_none {s u : State} (h : View s u) {a : Addr} (hf : findOp s a = none) : findOp u a = none := by
  have := h.2 a
  simp only [collOf, hf, Option.map_none] at this
  cases h2 : findOp u a with
  | none => rfl
  | some o => rw [h2] at this; cases this

theorem View.findOp_some {s u : State} (h : View s u) {a : Addr} {o : Operator} (hf : findOp s a = some o) :
    ∃ o', findOp u a = some o' := by
  have := h.2 a
  simp only [collOf, hf, Option.map_some] at this
  cases h2 : findOp u a with
  | none => rw [h2] at this; cases this
  | some o' => exact ⟨o', rfl⟩

theorem View.collateralAmount {s u : State} (h : View s u) (bond : Denom) (a : Addr) :
    collateralAmount bond s a = collateralAmount bond u a := by
  have := h.2 a
  unfold collOf at this
  unfold Oracle.collateralAmount
  cases h1 : findOp s a <;> cases h2 : findOp u a <;> simp_all

theorem View.respWeight {s u : State} (h : View s u) (bond : Denom) (b : Nat) (r : Response) :
    respWeight bond s b r = respWeight bond u b r := by
  unfold Oracle.respWeight; rw [h.collateralAmount, h.1]

theorem View.eligible {s u : State} (h : View s u) (b : Nat) (r : Response) : eligible s b r = eligible u b r := by
  unfold Oracle.eligible; rw [h.1]

theorem View.totalValid {s u : State} (h : View s u) (bond : Denom) (b : Nat) :
    ∀ (rs : List Response) (acc : Int), totalValid bond s b rs acc = totalValid bond u b rs acc := by
  intro rs
  induction rs with
  | nil => intro acc; simp [Oracle.totalValid]
  | cons r rest ih =>
    intro acc
    rw [Oracle.totalValid, Oracle.totalValid, h.eligible, h.respWeight]
    simp only [ih]

theorem View.branch {s u : State} (h : View s u) (t : Task) : branch s t = branch u t := by
  unfold Oracle.branch; rw [h.1]
theorem View.branchDB {s u : State} (h : View s u) (t : Task) : branchDB s t = branchDB u t := by
  unfold Oracle.branchDB; rw [h.1]
theorem View.eligibleDB {s u : State} (h : View s u) (b : Nat) (r : Response) : eligibleDB s b r = eligibleDB u b r := by
  unfold Oracle.eligibleDB; rw [h.1]
theorem View.payAmount {s u : State} (h : View s u) (bond : Denom) (b : Nat) (amount tv : Int) (r : Response) :
    payAmount bond s b amount tv r = payAmount bond u b amount tv r := by
  unfold Oracle.payAmount; rw [h.collateralAmount, h.1]

theorem View.aggFold {s u : State} (h : View s u) (bond : Denom) :
    ∀ (rs : List Response) (a : Agg), aggFold bond s rs a = aggFold bond u rs a := by
  intro rs
  induction rs with
  | nil => intro a; simp [Oracle.aggFold]
  | cons r rest ih =>
    intro a
    rw [Oracle.aggFold, Oracle.aggFold, h.collateralAmount]
    simp only [ih]

/-! ### the reward increments -/

def withCredits (incs : List (Addr × Coins)) (u : State) : State := { u with ops := credits incs u.ops }

@[simp] theorem withCredits_nil (u : State) : withCredits [] u = u := rfl
theorem withCredits_withCredits (l1 l2 : List (Addr × Coins)) (u : State) :
    withCredits l2 (withCredits l1 u) = withCredits (l1 ++ l2) u := by
  simp [withCredits, credits_append]

theorem view_withCredits (incs : List (Addr × Coins)) (u : State) : View u (withCredits incs u) := by
  refine ⟨rfl, fun a => ?_⟩
  simp only [collOf, findOp, withCredits]
  exact (find_credits_coll incs u.ops a).symm

theorem setOp_credit {u : State} {a : Addr} {o : Operator} (c : Coins) (h : findOp u a = some o) :
    setOp u { o with rew := Coins.add o.rew c } = withCredits [(a, c)] u := by
  have ha := findOp_addr u a o h
  have hi : isOp u o.addr = true := by simp [isOp, ha, h]
  unfold setOp
  simp only [hi, if_true, withCredits, credits_cons, credits_nil]
  rw [credit_some (show u.ops.find? (·.addr == a) = some o from h), ha]

/-- `payCoin` with the state it reads held fixed: the increments instead of the new state -/
def payCoinE (bond : Denom) (b : Nat) (denom : Denom) (amount tv : Int) (s : State) :
    List Response → List Response → Except Err (List (Addr × Coins) × List Response)
  | [], done => .ok ([], done)
  | r :: rest, done =>
    if eligibleDB s b r then
      match payAmount bond s b amount tv r with
      | .error x => .error x
      | .ok none => payCoinE bond b denom amount tv s rest (done ++ [r])
      | .ok (some amt) =>
        if amt < 0 then panicE "oracle:negative-coin"
        else
          let reward : Coins := if amt == 0 then [] else [(denom, amt)]
          match findOp s r.op with
          | none => payCoinE bond b denom amount tv s rest (done ++ [r])
          | some _ =>
            match payCoinE bond b denom amount tv s rest (done ++ [{ r with reward := reward }]) with
            | .error x => .error x
            | .ok (incs, d) => .ok ((r.op, reward) :: incs, d)
    else payCoinE bond b denom amount tv s rest (done ++ [r])

def lift {α : Type} (u : State) : Except Err (List (Addr × Coins) × α) → Except Err (State × α)
  | .error x => .error x
  | .ok (incs, d) => .ok (withCredits incs u, d)

theorem payCoin_eq (bond : Denom) (b : Nat) (denom : Denom) (amount tv : Int) (s : State) :
    ∀ (rs : List Response) (u : State) (done : List Response), View s u →
      payCoin bond b denom amount tv u rs done = lift u (payCoinE bond b denom amount tv s rs done) := by
  intro rs
  induction rs with
  | nil => intro u done _; simp [payCoin, payCoinE, lift]
  | cons r rest ih =>
    intro u done hu
    rw [payCoin, payCoinE, ← hu.eligibleDB, ← hu.payAmount]
    by_cases hel : eligibleDB s b r = true
    · simp only [hel, if_true]
      cases hpa : payAmount bond s b amount tv r with
      | error x => rfl
      | ok oa =>
        cases oa with
        | none => exact ih u _ hu
        | some amt =>
          dsimp only
          by_cases hneg : amt < 0
          · simp only [hneg, if_true]; rfl
          · simp only [hneg, if_false]
            cases hfs : findOp s r.op with
            | none => rw [hu.findOp_none hfs]; exact ih u _ hu
            | some o =>
              obtain ⟨o', ho'⟩ := hu.findOp_some hfs
              rw [ho']
              dsimp only
              rw [setOp_credit _ ho', ih _ _ (hu.trans (view_withCredits _ u))]
              cases payCoinE bond b denom amount tv s rest
                  (done ++ [{ r with reward := if (amt == 0) = true then [] else [(denom, amt)] }]) with
              | error x => rfl
              | ok p => simp only [lift, withCredits_withCredits]; rfl
    · simp only [hel]
      exact ih u _ hu

def payAllE (bond : Denom) (b : Nat) (tv : Int) (s : State) :
    List (Denom × Int) → List Response → Except Err (List (Addr × Coins) × List Response)
  | [], rs => .ok ([], rs)
  | c :: cs, rs =>
    match payCoinE bond b c.1 c.2 tv s rs [] with
    | .error x => .error x
    | .ok (incs, rs') =>
      match payAllE bond b tv s cs rs' with
      | .error x => .error x
      | .ok (incs', d) => .ok (incs ++ incs', d)

theorem payAll_eq (bond : Denom) (b : Nat) (tv : Int) (s : State) :
    ∀ (cs : List (Denom × Int)) (u : State) (rs : List Response), View s u →
      payAll bond b tv cs u rs = lift u (payAllE bond b tv s cs rs) := by
  intro cs
  induction cs with
  | nil => intro u rs _; simp [payAll, payAllE, lift]
  | cons c cs ih =>
    intro u rs hu
    rw [payAll, payAllE, payCoin_eq bond b c.1 c.2 tv s rs u [] hu]
    cases payCoinE bond b c.1 c.2 tv s rs [] with
    | error x => rfl
    | ok p =>
      obtain ⟨incs, rs'⟩ := p
      simp only [lift]
      rw [ih _ _ (hu.trans (view_withCredits _ u))]
      cases payAllE bond b tv s cs rs' with
      | error x => rfl
      | ok q => simp only [lift, withCredits_withCredits]

/-- `distributeBounty`: the increments and the new value of the task -/
def distributeBountyE (bond : Denom) (s : State) (t : Task) : Except Err (List (Addr × Coins) × Task) :=
  match totalValid bond s (branch s t) t.responses 0 with
  | .error x => .error x
  | .ok tv =>
    if Gen.Oracle.dbNoValid tv then err "oracle:task-failed"
    else match payAllE bond (branchDB s t) tv s (Coins.canon t.bounty) t.responses with
    | .error x => .error x
    | .ok (incs, rs) => .ok (incs, { t with responses := rs })

theorem distributeBounty_eq (bond : Denom) (s u : State) (t : Task) (hu : View s u) :
    distributeBounty bond u t =
      match distributeBountyE bond s t with
      | .error x => .error x
      | .ok (incs, t') => .ok (setTask (withCredits incs u) t') := by
  unfold distributeBounty distributeBountyE
  rw [← hu.branch, ← hu.branchDB, ← hu.totalValid]
  cases totalValid bond s (branch s t) t.responses 0 with
  | error x => rfl
  | ok tv =>
    dsimp only
    by_cases hnv : Gen.Oracle.dbNoValid tv = true
    · simp only [hnv, if_true]; rfl
    · simp only [hnv]
      rw [payAll_eq bond _ tv s _ u _ hu]
      cases payAllE bond (branchDB s t) tv s (Coins.canon t.bounty) t.responses with
      | error x => rfl
      | ok p => rfl

theorem distributeBountyE_key {bond : Denom} {s : State} {t t' : Task} {incs : List (Addr × Coins)}
    (h : distributeBountyE bond s t = .ok (incs, t')) : t'.key = t.key := by
  unfold distributeBountyE at h
  ok_cases h
  injection h with h; injection h with _ h; subst h; rfl

/-- `aggregate`: the new value of the task -/
def aggregateE (bond : Denom) (s : State) (key : String) : Except Err Task :=
  match findTask s key with
  | none => err "oracle:no-task"
  | some t =>
    if Gen.Oracle.aggPending t.status then err "oracle:task-closed"
    else match aggFold bond s t.responses { result := Gen.Oracle.aggInit s.params.aggRes, total := 0, minC := 0, rs := [] } with
    | .error x => .error x
    | .ok a =>
      if Gen.Oracle.aggHasCollateral a.total then
        if Gen.Oracle.aggMinRegime a.minC a.total then
          .ok { t with responses := a.rs.map (fun r => if r.score == Gen.Oracle.minScore then r else { r with weight := 0 }),
                       result := Gen.Oracle.aggMinResult a.minC, status := 2 }
        else .ok { t with responses := a.rs, result := Gen.Oracle.aggMean a.result a.total, status := 2 }
      else .ok { t with responses := a.rs, result := Gen.Oracle.aggFailResult s.params.aggRes, status := 3 }

theorem aggregate_eq (bond : Denom) (u : State) (key : String) :
    aggregate bond u key = match aggregateE bond u key with
      | .error x => .error x
      | .ok t' => .ok (setTask u t') := by
  unfold aggregate aggregateE
  cases findTask u key with
  | none => rfl
  | some t =>
    dsimp only
    split
    · rfl
    · cases aggFold bond u t.responses { result := Gen.Oracle.aggInit u.params.aggRes, total := 0, minC := 0, rs := [] } with
      | error x => rfl
      | ok a =>
        dsimp only
        split
        · split <;> rfl
        · rfl

theorem aggregateE_agree (bond : Denom) {s u : State} {key : String} (hv : View s u) (hf : findTask s key = findTask u key) :
    aggregateE bond s key = aggregateE bond u key := by
  unfold aggregateE
  rw [hf]
  cases findTask u key with
  | none => rfl
  | some t => dsimp only; rw [hv.aggFold, hv.1]

theorem aggregateE_ok {bond : Denom} {s : State} {key : String} {t1 : Task} (h : aggregateE bond s key = .ok t1) :
    t1.key = key ∧ (findTask s key).isSome = true := by
  unfold aggregateE at h
  cases hf : findTask s key with
  | none => rw [hf] at h; cases h
  | some t =>
    rw [hf] at h
    have hk : t.key = key := by
      have := List.find?_some (show s.tasks.find? (fun t => t.key == key) = some t from hf)
      simpa using this
    refine ⟨?_, rfl⟩
    ok_cases h
    all_goals (injection h with h; subst h; exact hk)

/-! ### the effect on the state -/

/-- tasks under key `k` go through `f`; the increments are credited in order -/
def app (k : String) (f : Task → Task) (incs : List (Addr × Coins)) (u : State) : State :=
  { u with tasks := u.tasks.map (fun x => if x.key == k then f x else x), ops := credits incs u.ops }

theorem app_id (k : String) (u : State) : app k id [] u = u := by
  have : u.tasks.map (fun x => if x.key == k then id x else x) = u.tasks := by
    conv => rhs; rw [← List.map_id u.tasks]
    apply List.map_congr_left; intro x _; split <;> rfl
  simp only [app, this, credits_nil]

theorem setTask_eq_app {u : State} {t : Task} (h : (findTask u t.key).isSome = true) : setTask u t = app t.key (fun _ => t) [] u := by
  unfold setTask; simp only [h, if_true, app, credits_nil]

theorem find_map_key (k : String) (t : Task) (ht : t.key = k) (l : List Task) :
    (l.map (fun x => if x.key == k then t else x)).find? (fun x => x.key == k) = (l.find? (fun x => x.key == k)).map (fun _ => t) := by
  induction l with
  | nil => rfl
  | cons x xs ih =>
    simp only [List.map_cons, List.find?_cons]
    by_cases hx : x.key == k
    · simp [hx, ht]
    · have hx' : (x.key == k) = false := by simpa using hx
      simp only [hx', Bool.false_eq_true, if_false, ih]

theorem findTask_setTask_self (u : State) (t : Task) : findTask (setTask u t) t.key = some t := by
  unfold setTask
  cases hf : findTask u t.key with
  | none =>
    simp only [Option.isSome_none, Bool.false_eq_true, if_false, findTask, List.find?_append]
    rw [show u.tasks.find? (fun x => x.key == t.key) = none from hf]
    simp
  | some t0 =>
    simp only [Option.isSome_some, if_true, findTask]
    rw [find_map_key t.key t rfl, show u.tasks.find? (fun x => x.key == t.key) = some t0 from hf]
    rfl

theorem view_setTask (u : State) (t : Task) : View u (setTask u t) := by
  unfold setTask; split <;> exact ⟨rfl, fun _ => rfl⟩

theorem view_app (k : String) (f : Task → Task) (incs : List (Addr × Coins)) (u : State) : View u (app k f incs u) := by
  refine ⟨rfl, fun a => ?_⟩
  simp only [collOf, findOp, app]
  exact (find_credits_coll incs u.ops a).symm

theorem setTask_setTask {u : State} {t1 t2 : Task} {key : String} (incs : List (Addr × Coins))
    (h1 : t1.key = key) (h2 : t2.key = key) (hs : (findTask u key).isSome = true) :
    setTask (withCredits incs (setTask u t1)) t2 = app key (fun _ => t2) incs u := by
  have hs1 : (findTask (withCredits incs (setTask u t1)) t2.key).isSome = true := by
    have := findTask_setTask_self u t1
    rw [h1, ← h2] at this
    show (findTask (setTask u t1) t2.key).isSome = true
    rw [this]; rfl
  rw [setTask_eq_app hs1, setTask_eq_app (by rw [h1]; exact hs), h1, h2]
  simp only [app, withCredits, credits_nil, List.map_map]
  congr 1
  apply List.map_congr_left
  intro x _
  by_cases hx : x.key == key
  · simp [Function.comp, hx, h1]
  · have hx' : (x.key == key) = false := by simpa using hx
    simp [Function.comp, hx']

/-- `s` and `u` look the same to the handling of the task under `k` -/
def Agree (k : String) (s u : State) : Prop := View s u ∧ findTask s k = findTask u k

theorem Agree.refl (k : String) (s : State) : Agree k s s := ⟨View.refl s, rfl⟩

/-- `endOne`: how the tasks under the key change, and the reward increments; or the panic -/
def endOneE (bond : Denom) (s : State) (key : String) : Except Err ((Task → Task) × List (Addr × Coins)) :=
  match aggregateE bond s key with
  | .error x => if x.isPanic then .error x else .ok (id, [])
  | .ok t1 =>
    match distributeBountyE bond s t1 with
    | .error x => if x.isPanic then .error x else .ok (fun _ => t1, [])
    | .ok (incs, t2) => .ok (fun _ => t2, incs)

theorem endOne_eq (bond : Denom) {s u : State} (id : String × String) (h : Agree (id.1 ++ id.2) s u) :
    endOne bond u id = match endOneE bond s (id.1 ++ id.2) with
      | .error x => .error x
      | .ok (f, incs) => .ok (app (id.1 ++ id.2) f incs u) := by
  unfold endOne endOneE
  dsimp only
  rw [aggregate_eq, ← aggregateE_agree bond h.1 h.2]
  cases hagg : aggregateE bond s (id.1 ++ id.2) with
  | error x =>
    dsimp only
    by_cases hp : x.isPanic = true
    · simp only [hp, if_true]
    · have hp' : x.isPanic = false := by simpa using hp
      simp only [hp', Bool.false_eq_true, if_false, app_id]
  | ok t1 =>
    dsimp only
    obtain ⟨hk, hsome⟩ := aggregateE_ok hagg
    have hsu : (findTask u (id.1 ++ id.2)).isSome = true := by rw [← h.2]; exact hsome
    have hft := findTask_setTask_self u t1
    rw [hk] at hft
    rw [hft]
    dsimp only
    rw [distributeBounty_eq bond s (setTask u t1) t1 (h.1.trans (view_setTask u t1))]
    cases hdb : distributeBountyE bond s t1 with
    | error x =>
      dsimp only
      by_cases hp : x.isPanic = true
      · simp only [hp, if_true]
      · have hp' : x.isPanic = false := by simpa using hp
        rw [setTask_eq_app (by rw [hk]; exact hsu), hk]
        simp only [hp', Bool.false_eq_true, if_false]
    | ok p =>
      obtain ⟨incs, t2⟩ := p
      dsimp only
      rw [setTask_setTask incs hk ((distributeBountyE_key hdb).trans hk) hsu]

theorem endOneE_key {bond : Denom} {s : State} {key : String} {f : Task → Task} {incs : List (Addr × Coins)}
    (h : endOneE bond s key = .ok (f, incs)) : ∀ x : Task, x.key = key → (f x).key = key := by
  unfold endOneE at h
  cases hagg : aggregateE bond s key with
  | error x =>
    rw [hagg] at h; dsimp only at h
    split at h
    · cases h
    · injection h with h; injection h with h _; subst h; intro x hx; exact hx
  | ok t1 =>
    rw [hagg] at h; dsimp only at h
    have hk := (aggregateE_ok hagg).1
    cases hdb : distributeBountyE bond s t1 with
    | error x =>
      rw [hdb] at h; dsimp only at h
      split at h
      · cases h
      · injection h with h; injection h with h _; subst h; intro _ _; exact hk
    | ok p =>
      obtain ⟨incs', t2⟩ := p
      rw [hdb] at h; dsimp only at h
      injection h with h; injection h with h _; subst h; intro _ _
      exact (distributeBountyE_key hdb).trans hk

/-! ### effects under different keys commute; effects respect `StateR` -/

theorem findTask_app_ne {k k' : String} (hne : k ≠ k') {f : Task → Task} (hf : ∀ x : Task, x.key = k → (f x).key = k)
    (incs : List (Addr × Coins)) (u : State) : findTask (app k f incs u) k' = findTask u k' := by
  simp only [findTask, app]
  induction u.tasks with
  | nil => rfl
  | cons x xs ih =>
    simp only [List.map_cons, List.find?_cons, ih]
    by_cases hx : x.key == k
    · have hxk : x.key = k := by simpa using hx
      have h1 : (x.key == k') = false := by rw [hxk]; simpa using hne
      have h2 : ((f x).key == k') = false := by rw [hf x hxk]; simpa using hne
      simp only [hx, if_true, h1, h2]
    · have hx' : (x.key == k) = false := by simpa using hx
      simp only [hx', Bool.false_eq_true, if_false]

theorem agree_app {k k' : String} (hne : k ≠ k') {f : Task → Task} (hf : ∀ x : Task, x.key = k → (f x).key = k)
    (incs : List (Addr × Coins)) (u : State) : Agree k' u (app k f incs u) :=
  ⟨view_app k f incs u, (findTask_app_ne hne hf incs u).symm⟩

theorem app_comm {k1 k2 : String} (hne : k1 ≠ k2) {f1 f2 : Task → Task}
    (hf1 : ∀ x : Task, x.key = k1 → (f1 x).key = k1) (hf2 : ∀ x : Task, x.key = k2 → (f2 x).key = k2)
    (i1 i2 : List (Addr × Coins)) (u : State) :
    StateR (app k2 f2 i2 (app k1 f1 i1 u)) (app k1 f1 i1 (app k2 f2 i2 u)) := by
  refine ⟨credits_comm i2 i1 u.ops, rfl, rfl, ?_, rfl, rfl⟩
  simp only [app, List.map_map]
  apply List.map_congr_left
  intro x _
  simp only [Function.comp]
  by_cases hx1 : x.key == k1
  · have hxk : x.key = k1 := by simpa using hx1
    have h1 : (x.key == k2) = false := by rw [hxk]; simpa using hne
    have h2 : ((f1 x).key == k2) = false := by rw [hf1 x hxk]; simpa using hne
    simp only [hx1, if_true, h1, h2, Bool.false_eq_true, if_false]
  · have hx1' : (x.key == k1) = false := by simpa using hx1
    by_cases hx2 : x.key == k2
    · have hxk : x.key = k2 := by simpa using hx2
      have h2 : ((f2 x).key == k1) = false := by rw [hf2 x hxk]; simpa using (fun h : k2 = k1 => hne h.symm)
      simp only [hx1', hx2, if_true, h2, Bool.false_eq_true, if_false]
    · have hx2' : (x.key == k2) = false := by simpa using hx2
      simp only [hx1', hx2', Bool.false_eq_true, if_false]

theorem app_congr (k : String) (f : Task → Task) (incs : List (Addr × Coins)) {u u' : State} (h : StateR u u') :
    StateR (app k f incs u) (app k f incs u') := by
  obtain ⟨h1, h2, h3, h4, h5, h6⟩ := h
  refine ⟨credits_congr incs h1, h2, h3, ?_, h5, h6⟩
  simp only [app, h4]

theorem StateR.view {s t : State} (h : StateR s t) : View s t := by
  refine ⟨h.2.2.2.2.2, fun a => ?_⟩
  simp only [collOf, findOp]
  rcases h.1.find a with ⟨h1, h2⟩ | ⟨o, o', h1, h2, ho⟩
  · rw [h1, h2]
  · rw [h1, h2]; simp [ho.2.2.1]

theorem StateR.agree {s t : State} (h : StateR s t) (k : String) : Agree k s t :=
  ⟨h.view, by simp only [findTask, h.2.2.2.1]⟩

/-- both halt, or both go on in related states -/
def ResR (x y : Except Err State) : Prop :=
  match x, y with
  | .ok a, .ok b => StateR a b
  | .error _, .error _ => True
  | _, _ => False

theorem ResR.refl : ∀ x : Except Err State, ResR x x
  | .ok a => StateR.refl a
  | .error _ => trivial

theorem ResR.symm : ∀ {x y : Except Err State}, ResR x y → ResR y x
  | .ok _, .ok _, h => StateR.symm h
  | .error _, .error _, _ => trivial
  | .ok _, .error _, h => h.elim
  | .error _, .ok _, h => h.elim

theorem ResR.trans : ∀ {x y z : Except Err State}, ResR x y → ResR y z → ResR x z
  | .ok _, .ok _, .ok _, h1, h2 => StateR.trans h1 h2
  | .error _, .error _, .error _, _, _ => trivial
  | .ok _, .error _, _, h, _ => h.elim
  | .error _, .ok _, _, h, _ => h.elim
  | _, .ok _, .error _, _, h => h.elim
  | _, .error _, .ok _, _, h => h.elim

theorem ResR.bind {x y : Except Err State} (h : ResR x y) (F G : State → Except Err State)
    (hF : ∀ a b, StateR a b → ResR (F a) (G b)) : ResR (x.bind F) (y.bind G) := by
  cases x with
  | error e => cases y with
    | error e' => trivial
    | ok b => exact h.elim
  | ok a => cases y with
    | error e' => exact h.elim
    | ok b => exact hF a b h

theorem endOne_congr (bond : Denom) (id : String × String) {s t : State} (h : StateR s t) :
    ResR (endOne bond s id) (endOne bond t id) := by
  rw [endOne_eq bond id (Agree.refl _ s), endOne_eq bond id (h.agree _)]
  cases endOneE bond s (id.1 ++ id.2) with
  | error x => trivial
  | ok p => exact app_congr _ _ _ h

theorem endOne_comm' (bond : Denom) (s : State) (id1 id2 : String × String) (hne : id1.1 ++ id1.2 ≠ id2.1 ++ id2.2) :
    ResR ((endOne bond s id1).bind (fun s1 => endOne bond s1 id2)) ((endOne bond s id2).bind (fun s2 => endOne bond s2 id1)) := by
  rw [endOne_eq bond id1 (Agree.refl _ s), endOne_eq bond id2 (Agree.refl _ s)]
  cases h1 : endOneE bond s (id1.1 ++ id1.2) with
  | error e1 =>
    cases h2 : endOneE bond s (id2.1 ++ id2.2) with
    | error e2 => trivial
    | ok p2 =>
      obtain ⟨f2, i2⟩ := p2
      simp only [Except.bind]
      rw [endOne_eq bond id1 (agree_app (fun h => hne h.symm) (endOneE_key h2) i2 s), h1]
      trivial
  | ok p1 =>
    obtain ⟨f1, i1⟩ := p1
    cases h2 : endOneE bond s (id2.1 ++ id2.2) with
    | error e2 =>
      simp only [Except.bind]
      rw [endOne_eq bond id2 (agree_app hne (endOneE_key h1) i1 s), h2]
      trivial
    | ok p2 =>
      obtain ⟨f2, i2⟩ := p2
      simp only [Except.bind]
      rw [endOne_eq bond id2 (agree_app hne (endOneE_key h1) i1 s), h2,
        endOne_eq bond id1 (agree_app (fun h => hne h.symm) (endOneE_key h2) i2 s), h1]
      exact app_comm hne (endOneE_key h1) (endOneE_key h2) i1 i2 s

theorem endFold_congr (bond : Denom) : ∀ (ids : List (String × String)) {s t : State}, StateR s t →
    ResR (endFold bond ids s) (endFold bond ids t) := by
  intro ids
  induction ids with
  | nil => intro s t h; exact h
  | cons id ids ih =>
    intro s t h
    have h1 := endOne_congr bond id h
    rw [endFold, endFold]
    cases hs : endOne bond s id with
    | error e => cases ht : endOne bond t id with
      | error e' => trivial
      | ok b => rw [hs, ht] at h1; exact h1.elim
    | ok a => cases ht : endOne bond t id with
      | error e' => rw [hs, ht] at h1; exact h1.elim
      | ok b => rw [hs, ht] at h1; exact ih h1

theorem endFold_cons (bond : Denom) (id : String × String) (ids : List (String × String)) (s : State) :
    endFold bond (id :: ids) s = (endOne bond s id).bind (endFold bond ids) := by
  rw [endFold]; cases endOne bond s id <;> rfl

theorem endFold_cons2 (bond : Denom) (a b : String × String) (ids : List (String × String)) (s : State) :
    endFold bond (a :: b :: ids) s = ((endOne bond s a).bind (fun s1 => endOne bond s1 b)).bind (endFold bond ids) := by
  rw [endFold_cons]
  cases endOne bond s a with
  | error e => rfl
  | ok s1 => simp only [Except.bind]; rw [endFold_cons]; rfl

theorem endFold_perm' (bond : Denom) {ids ids' : List (String × String)} (hp : ids.Perm ids') :
    (ids.map (fun i => i.1 ++ i.2)).Nodup → ∀ s : State, ResR (endFold bond ids s) (endFold bond ids' s) := by
  induction hp with
  | nil => intro _ s; exact ResR.refl _
  | cons x _ ih =>
    intro hnd s
    rw [endFold_cons, endFold_cons]
    have hnd' := hnd
    rw [List.map_cons, List.nodup_cons] at hnd'
    replace hnd' := hnd'.2
    exact ResR.bind (ResR.refl _) _ _ (fun a b hab => (endFold_congr bond _ hab).trans (ih hnd' b))
  | swap x y l =>
    intro hnd s
    rw [endFold_cons2, endFold_cons2]
    have hne : y.1 ++ y.2 ≠ x.1 ++ x.2 := by
      simp only [List.map_cons, List.nodup_cons, List.mem_cons, not_or] at hnd
      exact hnd.1.1
    have hc := endOne_comm' bond s y x hne
    exact ResR.bind hc (endFold bond l) (endFold bond l) (fun a b hab => endFold_congr bond l hab)
  | trans h12 _ ih1 ih2 =>
    intro hnd s
    have hnd2 := (h12.map (fun i => i.1 ++ i.2)).nodup_iff.mp hnd
    exact (ih1 hnd s).trans (ih2 hnd2 s)

end Shentu.Oracle
