import Shentu.Proofs.VmConserveRun
/-
  Helper lemmas for `Shentu/Props/C19vm.lean`, part 1: a second small Hoare logic over the interpreter's monad.

  `KeepsE P m`: the computation `m`, started in a frame that has an error in its sink OR whose accounts satisfy `P`, ends —
  whatever its result, the Go panic included — in a frame that has an error in its sink OR whose accounts satisfy `P`.
  An error in the sink never goes away (the type of `M`), and a frame that ends with an error is dropped by whoever started it;
  so "`P` unless doomed" is what a frame can promise.  This is the `Keeps` of `VmConserveRun.lean` made conditional on the
  error sink; it is needed for properties that a doomed frame really breaks (a CREATE onto an address in use runs the
  constructor in the existing account's name, after having put DuplicateAddress into the creator's sink).
  Same closure rules, same tactic (`pkeeps`), and one more rule: after `pushErr` anything goes (`KeepsE_dead`).
-/
namespace Shentu.LockVmH
open Shentu Shentu.EVM

/-- `m` keeps "an error is in the sink, or the accounts satisfy `P`" -/
def KeepsE (P : World → Prop) (m : M α) : Prop :=
  ∀ s : Frame, (s.err.isSome = true ∨ P s.world) → ((m s).val.2.err.isSome = true ∨ P (m s).val.2.world)

-- ---------------------------------------------------------------- closure

theorem KeepsE_pure {P : World → Prop} (a : α) : KeepsE P (pure a : M α) := fun _ h => h

theorem KeepsE_bind {P : World → Prop} {m : M α} {f : α → M β} (hm : KeepsE P m) (hf : ∀ a, KeepsE P (f a)) :
    KeepsE P (m >>= f) := by
  intro s hs
  have h1 := hm s hs
  match hr : (m s).val with
  | (none, s1) =>
    rw [bind_val_none hr]
    rw [hr] at h1
    exact h1
  | (some a, s1) =>
    rw [bind_val_some hr]
    rw [hr] at h1
    exact hf a s1 h1

/-- a frame with an error in its sink stays so, whatever runs -/
theorem doomed_stays (m : M α) (s : Frame) (h : s.err.isSome = true) : (m s).val.2.err.isSome = true := (m s).property.2 h

/-- after `getF` the frame read satisfies `P` (a frame with an error in its sink needs no look at what follows) -/
theorem KeepsE_getF_bind {P : World → Prop} {f : Frame → M β} (h : ∀ s, P s.world → KeepsE P (f s)) :
    KeepsE P (getF >>= f) := by
  intro s hs
  rcases hs with he | hp
  · exact .inl (doomed_stays _ s he)
  · have h1 : (getF s).val = (some s, s) := rfl
    rw [bind_val_some h1]
    exact h s hp s (.inr hp)

/-- once an error has been pushed, whatever follows keeps the promise -/
theorem KeepsE_dead {P : World → Prop} (e : Err) (f : Unit → M β) : KeepsE P (pushErr e >>= f) := by
  intro s _
  obtain ⟨s1, h1, _, he⟩ := pushErr_val e s
  rw [bind_val_some h1]
  exact .inl (doomed_stays _ s1 he)

theorem KeepsE_ite {P : World → Prop} {c : Prop} [Decidable c] {m1 m2 : M α}
    (h1 : c → KeepsE P m1) (h2 : ¬ c → KeepsE P m2) : KeepsE P (if c then m1 else m2) := by
  split
  · exact h1 ‹_›
  · exact h2 ‹_›

theorem KeepsE_withRefund {P : World → Prop} {body : M (α × Nat)} (h : KeepsE P body) : KeepsE P (withRefund body) := by
  intro s hs
  have h1 := h s hs
  unfold withRefund
  split
  · rename_i s' hi heq
    rw [heq] at h1
    exact h1
  · rename_i a r s' hi heq
    rw [heq] at h1
    exact h1

-- ---------------------------------------------------------------- the primitives of the monad

section prims
variable {P : World → Prop}

theorem pk_goPanic : KeepsE P (goPanic : M α) := fun _ h => h
theorem pk_getF : KeepsE P getF := fun _ h => h
theorem pk_pushErr (e : Err) : KeepsE P (pushErr e) := by
  intro s _
  obtain ⟨s1, h1, _, he⟩ := pushErr_val e s
  rw [h1]
  exact .inl he
theorem pk_useGas (k : Nat) : KeepsE P (useGas k) := by
  intro s hs
  unfold useGas
  split
  · exact hs
  · exact pk_pushErr _ s hs
theorem pk_setStack (st : List Nat) : KeepsE P (setStack st) := fun _ h => h
theorem pk_setMem (m : ByteArray) : KeepsE P (setMem m) := fun _ h => h
theorem pk_setPc (pc : Nat) : KeepsE P (setPc pc) := fun _ h => h
theorem pk_setRemoved (r : List Nat) : KeepsE P (setRemoved r) := fun _ h => h
theorem pk_setRetBuf (b : ByteArray) : KeepsE P (setRetBuf b) := fun _ h => h
theorem pk_addLogs (ls : List Log) : KeepsE P (addLogs ls) := fun _ h => h
theorem pk_orSeen (a b c : Nat) : KeepsE P (orSeen a b c) := fun _ h => h
theorem pk_takeGas (k : Nat) : KeepsE P (takeGas k) := fun _ h => h
theorem pk_setLastGasCost (k : Nat) : KeepsE P (setLastGasCost k) := fun _ h => h
theorem pk_addRefund (k : Nat) : KeepsE P (addRefund k) := fun _ h => h
theorem pk_addLog (l : Log) : KeepsE P (addLog l) := fun _ h => h
theorem pk_noteAlloc (k : Nat) : KeepsE P (noteAlloc k) := fun _ h => h
theorem pk_noteSeen (k : Nat) : KeepsE P (noteSeen k) := fun _ h => h
theorem pk_noteDev (k : Nat) : KeepsE P (noteDev k) := fun _ h => h
theorem pk_takeMem : KeepsE P takeMem := fun _ h => h
theorem pk_setSeq (k : Nat) : KeepsE P (setSeq k) := fun _ h => h
theorem pk_leaveGas (k : Nat) : KeepsE P (leaveGas k) := fun _ h => h

-- the three that write the accounts
theorem pk_setWorld {w : World} (h : P w) : KeepsE P (setWorld w) := fun _ _ => .inr h
theorem pk_syncChild {w : World} (d : Bool) (r : List Nat) (h : P w) : KeepsE P (syncChild w d r) := fun _ _ => .inr h
theorem pk_applySettled {w : World} (d : Bool) (r : List Nat) (h : P w) : KeepsE P (applySettled w d r) := fun _ _ => .inr h

end prims


-- ---------------------------------------------------------------- the tactic

/-- closes a goal `KeepsE P m` for a primitive or an already treated function `m`; extended below with `macro_rules` -/
syntax "pk_leaf" : tactic

macro_rules | `(tactic| pk_leaf) => `(tactic| with_reducible first
  | exact KeepsE_pure _ | exact pk_goPanic | exact pk_getF | exact pk_pushErr _ | exact pk_useGas _
  | exact pk_setStack _ | exact pk_setMem _ | exact pk_setPc _ | exact pk_setRemoved _
  | exact pk_setRetBuf _ | exact pk_addLogs _ | exact pk_orSeen _ _ _ | exact pk_takeGas _
  | exact pk_setLastGasCost _ | exact pk_addRefund _ | exact pk_addLog _ | exact pk_noteAlloc _
  | exact pk_noteSeen _ | exact pk_noteDev _ | exact pk_takeMem | exact pk_setSeq _ | exact pk_leaveGas _)

/-- one structural step on a goal `KeepsE P m` -/
macro "pk_one" : tactic => `(tactic| first
  | pk_leaf
  | with_reducible refine KeepsE_getF_bind (fun _ _ => ?_)
  | with_reducible refine KeepsE_bind ?_ (fun _ => ?_)
  | with_reducible refine KeepsE_ite (fun _ => ?_) (fun _ => ?_)
  | with_reducible refine KeepsE_withRefund ?_
  | with_reducible refine pk_setWorld ?_
  | with_reducible refine pk_applySettled _ _ ?_
  | with_reducible refine pk_syncChild _ _ ?_
  | (with_reducible show KeepsE _ _; dsimp only)
  | (with_reducible show KeepsE _ _; split))

/-- walk through a computation; what remains are the obligations of the places that write the accounts -/
macro "pkeeps" : tactic => `(tactic| repeat' pk_one)

-- ---------------------------------------------------------------- Burrow's Stack and memory

section same
variable {P : World → Prop}

theorem pk_push (w : Nat) : KeepsE P (push w) := by unfold push; pkeeps
theorem pk_pop : KeepsE P pop := by unfold pop; pkeeps
macro_rules | `(tactic| pk_leaf) => `(tactic| with_reducible first | exact pk_push _ | exact pk_pop)
theorem pk_pop64 : KeepsE P pop64 := by unfold pop64; pkeeps
theorem pk_dup (k : Nat) : KeepsE P (dup k) := by unfold dup; pkeeps
theorem pk_swap (k : Nat) : KeepsE P (swap k) := by unfold swap; pkeeps
macro_rules | `(tactic| pk_leaf) => `(tactic| with_reducible first | exact pk_pop64 | exact pk_dup _ | exact pk_swap _)
theorem pk_peek (k : Nat) : KeepsE P (peek k) := by unfold peek; pkeeps
macro_rules | `(tactic| pk_leaf) => `(tactic| with_reducible exact pk_peek _)

theorem pk_memRead (q : Quirks) (o l : Nat) : KeepsE P (memRead q o l) := by unfold memRead; pkeeps
theorem pk_memWrite (q : Quirks) (o : Nat) (v : ByteArray) : KeepsE P (memWrite q o v) := by unfold memWrite; pkeeps
theorem pk_memWriteBig (o l : Nat) : KeepsE P (memWriteBig o l) := by unfold memWriteBig; pkeeps
theorem pk_memGrow (t : Nat) : KeepsE P (memGrow t) := by unfold memGrow; pkeeps
macro_rules | `(tactic| pk_leaf) => `(tactic| with_reducible first
  | exact pk_memRead _ _ _ | exact pk_memWrite _ _ _ | exact pk_memWriteBig _ _ | exact pk_memGrow _)

end same

-- ---------------------------------------------------------------- gas.go, the instructions that leave the accounts alone

section same2
variable {P : World → Prop}

theorem pk_memGasCost (k : Nat) : KeepsE P (memGasCost k) := by unfold memGasCost; pkeeps
theorem pk_calcMemSize (r : Shentu.Gen.Gas.MemRule) : KeepsE P (calcMemSize r) := by unfold calcMemSize; pkeeps
macro_rules | `(tactic| pk_leaf) => `(tactic| with_reducible first | exact pk_memGasCost _ | exact pk_calcMemSize _)
theorem pk_memoryGas (a b : Nat) : KeepsE P (memoryGas a b) := by unfold memoryGas; pkeeps
macro_rules | `(tactic| pk_leaf) => `(tactic| with_reducible exact pk_memoryGas _ _)
theorem pk_dynGas (self : Nat) (d : Shentu.Gen.Gas.Dyn) (mem : Nat) : KeepsE P (dynGas self d mem) := by unfold dynGas; pkeeps
macro_rules | `(tactic| pk_leaf) => `(tactic| with_reducible exact pk_dynGas _ _ _)
theorem pk_dynPart (q : Quirks) (self : Nat) (info : Shentu.Gen.Gas.OpInfo) (d : Shentu.Gen.Gas.Dyn) :
    KeepsE P (dynPart q self info d) := by unfold dynPart; pkeeps
macro_rules | `(tactic| pk_leaf) => `(tactic| with_reducible exact pk_dynPart _ _ _ _)
theorem pk_gasLookUp (q : Quirks) (self : Nat) (info : Shentu.Gen.Gas.OpInfo) : KeepsE P (gasLookUp q self info) := by
  unfold gasLookUp; pkeeps
theorem pk_expandMemory (k : Nat) : KeepsE P (expandMemory k) := by unfold expandMemory; pkeeps
macro_rules | `(tactic| pk_leaf) => `(tactic| with_reducible first | exact pk_gasLookUp _ _ _ | exact pk_expandMemory _)

theorem pk_popSigned : KeepsE P popSigned := by unfold popSigned; pkeeps
theorem pk_pushInt (i : Int) : KeepsE P (pushInt i) := by unfold pushInt; pkeeps
theorem pk_pushBool (b : Bool) : KeepsE P (pushBool b) := by unfold pushBool; pkeeps
macro_rules | `(tactic| pk_leaf) => `(tactic| with_reducible first | exact pk_popSigned | exact pk_pushInt _ | exact pk_pushBool _)
theorem pk_binop (f : Nat → Nat → Nat) : KeepsE P (binop f) := by unfold binop; pkeeps
theorem pk_jumpTo (env : Env) (to : Nat) : KeepsE P (jumpTo env to) := by unfold jumpTo; pkeeps
macro_rules | `(tactic| pk_leaf) => `(tactic| with_reducible first | exact pk_binop _ | exact pk_jumpTo _ _)
theorem pk_copyToMem (q : Quirks) (src : ByteArray) : KeepsE P (copyToMem q src) := by unfold copyToMem; pkeeps
theorem pk_jumpWord (env : Env) (to : Nat) (b : Bool) : KeepsE P (jumpWord env to b) := by unfold jumpWord; pkeeps
theorem pk_haltBody0 (env : Env) (op : Nat) : KeepsE P (haltBody0 env op) := by unfold haltBody0; pkeeps
theorem pk_selfGone (env : Env) : KeepsE P (selfGone env) := by unfold selfGone; pkeeps
macro_rules | `(tactic| pk_leaf) => `(tactic| with_reducible first
  | exact pk_copyToMem _ _ | exact pk_jumpWord _ _ _ | exact pk_haltBody0 _ _ | exact pk_selfGone _)
theorem pk_deriveAddr (env : Env) (op : Nat) (input : ByteArray) : KeepsE P (deriveAddr env op input) := by
  unfold deriveAddr; pkeeps
macro_rules | `(tactic| pk_leaf) => `(tactic| with_reducible exact pk_deriveAddr _ _ _)
theorem pk_createNotes (env : Env) (addr : Nat) (input : ByteArray) (r : CallRes) : KeepsE P (createNotes env addr input r) := by
  unfold createNotes; pkeeps
macro_rules | `(tactic| pk_leaf) => `(tactic| with_reducible exact pk_createNotes _ _ _ _)
theorem pk_execQuery (env : Env) (op : Nat) : KeepsE P (execQuery env op) := by unfold execQuery; pkeeps
theorem pk_chargeOrStop (c : Nat) : KeepsE P (chargeOrStop c) := by
  intro s hs
  unfold chargeOrStop
  split
  · exact hs
  · exact hs
theorem pk_finish (c : Ctl) : KeepsE P (finish c) := by unfold finish; pkeeps
macro_rules | `(tactic| pk_leaf) => `(tactic| with_reducible first
  | exact pk_execQuery _ _ | exact pk_chargeOrStop _ | exact pk_finish _)

end same2
-- ---------------------------------------------------------------- `for` loops

section same3
variable {P : World → Prop}

theorem KeepsE_forIn_list {β γ : Type} (l : List γ) (init : β) (f : γ → β → M (ForInStep β))
    (h : ∀ x b, KeepsE P (f x b)) : KeepsE P (forIn l init f) := by
  induction l generalizing init with
  | nil => rw [List.forIn_nil]; exact KeepsE_pure _
  | cons x xs ih =>
    rw [List.forIn_cons]
    refine KeepsE_bind (h x init) (fun r => ?_)
    split
    · exact KeepsE_pure _
    · exact ih _

theorem KeepsE_forIn_range {β : Type} (r : Std.Legacy.Range) (init : β) (f : Nat → β → M (ForInStep β))
    (h : ∀ x b, KeepsE P (f x b)) : KeepsE P (forIn r init f) := by
  rw [Std.Legacy.Range.forIn_eq_forIn_range']
  exact KeepsE_forIn_list _ _ _ h

end same3

end Shentu.LockVmH
