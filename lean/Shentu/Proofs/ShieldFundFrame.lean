import Shentu.Model.Shield
/-! frame lemmas: which fields a store update of the shield model touches (generated, all by `rfl`) -/
namespace Shentu.Shield.Fund
open Shentu

@[simp] theorem setPool_admin (s : State) (p : Pool) : (setPool s p).admin = s.admin := rfl
@[simp] theorem setPool_lists (s : State) (p : Pool) : (setPool s p).lists = s.lists := rfl
@[simp] theorem setPool_providers (s : State) (p : Pool) : (setPool s p).providers = s.providers := rfl
@[simp] theorem setPool_withdraws (s : State) (p : Pool) : (setPool s p).withdraws = s.withdraws := rfl
@[simp] theorem setPool_stakes (s : State) (p : Pool) : (setPool s p).stakes = s.stakes := rfl
@[simp] theorem setPool_origStakings (s : State) (p : Pool) : (setPool s p).origStakings = s.origStakings := rfl
@[simp] theorem setPool_reimbs (s : State) (p : Pool) : (setPool s p).reimbs = s.reimbs := rfl
@[simp] theorem setPool_totalCollateral (s : State) (p : Pool) : (setPool s p).totalCollateral = s.totalCollateral := rfl
@[simp] theorem setPool_totalWithdrawing (s : State) (p : Pool) : (setPool s p).totalWithdrawing = s.totalWithdrawing := rfl
@[simp] theorem setPool_totalShield (s : State) (p : Pool) : (setPool s p).totalShield = s.totalShield := rfl
@[simp] theorem setPool_totalClaimed (s : State) (p : Pool) : (setPool s p).totalClaimed = s.totalClaimed := rfl
@[simp] theorem setPool_serviceFees (s : State) (p : Pool) : (setPool s p).serviceFees = s.serviceFees := rfl
@[simp] theorem setPool_remaining (s : State) (p : Pool) : (setPool s p).remaining = s.remaining := rfl
@[simp] theorem setPool_blockFees (s : State) (p : Pool) : (setPool s p).blockFees = s.blockFees := rfl
@[simp] theorem setPool_stakingPool (s : State) (p : Pool) : (setPool s p).stakingPool = s.stakingPool := rfl
@[simp] theorem setPool_lastUpdate (s : State) (p : Pool) : (setPool s p).lastUpdate = s.lastUpdate := rfl
@[simp] theorem setPool_nextPool (s : State) (p : Pool) : (setPool s p).nextPool = s.nextPool := rfl
@[simp] theorem setPool_nextPurchase (s : State) (p : Pool) : (setPool s p).nextPurchase = s.nextPurchase := rfl
@[simp] theorem setPool_params (s : State) (p : Pool) : (setPool s p).params = s.params := rfl
@[simp] theorem setProvider_admin (s : State) (p : Provider) : (setProvider s p).admin = s.admin := rfl
@[simp] theorem setProvider_pools (s : State) (p : Provider) : (setProvider s p).pools = s.pools := rfl
@[simp] theorem setProvider_lists (s : State) (p : Provider) : (setProvider s p).lists = s.lists := rfl
@[simp] theorem setProvider_withdraws (s : State) (p : Provider) : (setProvider s p).withdraws = s.withdraws := rfl
@[simp] theorem setProvider_stakes (s : State) (p : Provider) : (setProvider s p).stakes = s.stakes := rfl
@[simp] theorem setProvider_origStakings (s : State) (p : Provider) : (setProvider s p).origStakings = s.origStakings := rfl
@[simp] theorem setProvider_reimbs (s : State) (p : Provider) : (setProvider s p).reimbs = s.reimbs := rfl
@[simp] theorem setProvider_totalCollateral (s : State) (p : Provider) : (setProvider s p).totalCollateral = s.totalCollateral := rfl
@[simp] theorem setProvider_totalWithdrawing (s : State) (p : Provider) : (setProvider s p).totalWithdrawing = s.totalWithdrawing := rfl
@[simp] theorem setProvider_totalShield (s : State) (p : Provider) : (setProvider s p).totalShield = s.totalShield := rfl
@[simp] theorem setProvider_totalClaimed (s : State) (p : Provider) : (setProvider s p).totalClaimed = s.totalClaimed := rfl
@[simp] theorem setProvider_serviceFees (s : State) (p : Provider) : (setProvider s p).serviceFees = s.serviceFees := rfl
@[simp] theorem setProvider_remaining (s : State) (p : Provider) : (setProvider s p).remaining = s.remaining := rfl
@[simp] theorem setProvider_blockFees (s : State) (p : Provider) : (setProvider s p).blockFees = s.blockFees := rfl
@[simp] theorem setProvider_stakingPool (s : State) (p : Provider) : (setProvider s p).stakingPool = s.stakingPool := rfl
@[simp] theorem setProvider_lastUpdate (s : State) (p : Provider) : (setProvider s p).lastUpdate = s.lastUpdate := rfl
@[simp] theorem setProvider_nextPool (s : State) (p : Provider) : (setProvider s p).nextPool = s.nextPool := rfl
@[simp] theorem setProvider_nextPurchase (s : State) (p : Provider) : (setProvider s p).nextPurchase = s.nextPurchase := rfl
@[simp] theorem setProvider_params (s : State) (p : Provider) : (setProvider s p).params = s.params := rfl
@[simp] theorem setList_admin (s : State) (l : PList) : (setList s l).admin = s.admin := by unfold setList; split <;> rfl
@[simp] theorem setList_pools (s : State) (l : PList) : (setList s l).pools = s.pools := by unfold setList; split <;> rfl
@[simp] theorem setList_providers (s : State) (l : PList) : (setList s l).providers = s.providers := by unfold setList; split <;> rfl
@[simp] theorem setList_withdraws (s : State) (l : PList) : (setList s l).withdraws = s.withdraws := by unfold setList; split <;> rfl
@[simp] theorem setList_stakes (s : State) (l : PList) : (setList s l).stakes = s.stakes := by unfold setList; split <;> rfl
@[simp] theorem setList_origStakings (s : State) (l : PList) : (setList s l).origStakings = s.origStakings := by unfold setList; split <;> rfl
@[simp] theorem setList_reimbs (s : State) (l : PList) : (setList s l).reimbs = s.reimbs := by unfold setList; split <;> rfl
@[simp] theorem setList_totalCollateral (s : State) (l : PList) : (setList s l).totalCollateral = s.totalCollateral := by unfold setList; split <;> rfl
@[simp] theorem setList_totalWithdrawing (s : State) (l : PList) : (setList s l).totalWithdrawing = s.totalWithdrawing := by unfold setList; split <;> rfl
@[simp] theorem setList_totalShield (s : State) (l : PList) : (setList s l).totalShield = s.totalShield := by unfold setList; split <;> rfl
@[simp] theorem setList_totalClaimed (s : State) (l : PList) : (setList s l).totalClaimed = s.totalClaimed := by unfold setList; split <;> rfl
@[simp] theorem setList_serviceFees (s : State) (l : PList) : (setList s l).serviceFees = s.serviceFees := by unfold setList; split <;> rfl
@[simp] theorem setList_remaining (s : State) (l : PList) : (setList s l).remaining = s.remaining := by unfold setList; split <;> rfl
@[simp] theorem setList_blockFees (s : State) (l : PList) : (setList s l).blockFees = s.blockFees := by unfold setList; split <;> rfl
@[simp] theorem setList_stakingPool (s : State) (l : PList) : (setList s l).stakingPool = s.stakingPool := by unfold setList; split <;> rfl
@[simp] theorem setList_lastUpdate (s : State) (l : PList) : (setList s l).lastUpdate = s.lastUpdate := by unfold setList; split <;> rfl
@[simp] theorem setList_nextPool (s : State) (l : PList) : (setList s l).nextPool = s.nextPool := by unfold setList; split <;> rfl
@[simp] theorem setList_nextPurchase (s : State) (l : PList) : (setList s l).nextPurchase = s.nextPurchase := by unfold setList; split <;> rfl
@[simp] theorem setList_params (s : State) (l : PList) : (setList s l).params = s.params := by unfold setList; split <;> rfl
@[simp] theorem deleteList_admin (s : State) (pool : Nat) (a : Addr) : (deleteList s pool a).admin = s.admin := rfl
@[simp] theorem deleteList_pools (s : State) (pool : Nat) (a : Addr) : (deleteList s pool a).pools = s.pools := rfl
@[simp] theorem deleteList_providers (s : State) (pool : Nat) (a : Addr) : (deleteList s pool a).providers = s.providers := rfl
@[simp] theorem deleteList_withdraws (s : State) (pool : Nat) (a : Addr) : (deleteList s pool a).withdraws = s.withdraws := rfl
@[simp] theorem deleteList_stakes (s : State) (pool : Nat) (a : Addr) : (deleteList s pool a).stakes = s.stakes := rfl
@[simp] theorem deleteList_origStakings (s : State) (pool : Nat) (a : Addr) : (deleteList s pool a).origStakings = s.origStakings := rfl
@[simp] theorem deleteList_reimbs (s : State) (pool : Nat) (a : Addr) : (deleteList s pool a).reimbs = s.reimbs := rfl
@[simp] theorem deleteList_totalCollateral (s : State) (pool : Nat) (a : Addr) : (deleteList s pool a).totalCollateral = s.totalCollateral := rfl
@[simp] theorem deleteList_totalWithdrawing (s : State) (pool : Nat) (a : Addr) : (deleteList s pool a).totalWithdrawing = s.totalWithdrawing := rfl
@[simp] theorem deleteList_totalShield (s : State) (pool : Nat) (a : Addr) : (deleteList s pool a).totalShield = s.totalShield := rfl
@[simp] theorem deleteList_totalClaimed (s : State) (pool : Nat) (a : Addr) : (deleteList s pool a).totalClaimed = s.totalClaimed := rfl
@[simp] theorem deleteList_serviceFees (s : State) (pool : Nat) (a : Addr) : (deleteList s pool a).serviceFees = s.serviceFees := rfl
@[simp] theorem deleteList_remaining (s : State) (pool : Nat) (a : Addr) : (deleteList s pool a).remaining = s.remaining := rfl
@[simp] theorem deleteList_blockFees (s : State) (pool : Nat) (a : Addr) : (deleteList s pool a).blockFees = s.blockFees := rfl
@[simp] theorem deleteList_stakingPool (s : State) (pool : Nat) (a : Addr) : (deleteList s pool a).stakingPool = s.stakingPool := rfl
@[simp] theorem deleteList_lastUpdate (s : State) (pool : Nat) (a : Addr) : (deleteList s pool a).lastUpdate = s.lastUpdate := rfl
@[simp] theorem deleteList_nextPool (s : State) (pool : Nat) (a : Addr) : (deleteList s pool a).nextPool = s.nextPool := rfl
@[simp] theorem deleteList_nextPurchase (s : State) (pool : Nat) (a : Addr) : (deleteList s pool a).nextPurchase = s.nextPurchase := rfl
@[simp] theorem deleteList_params (s : State) (pool : Nat) (a : Addr) : (deleteList s pool a).params = s.params := rfl
@[simp] theorem setStake_admin (s : State) (k : Stake) : (setStake s k).admin = s.admin := by unfold setStake; split <;> rfl
@[simp] theorem setStake_pools (s : State) (k : Stake) : (setStake s k).pools = s.pools := by unfold setStake; split <;> rfl
@[simp] theorem setStake_lists (s : State) (k : Stake) : (setStake s k).lists = s.lists := by unfold setStake; split <;> rfl
@[simp] theorem setStake_providers (s : State) (k : Stake) : (setStake s k).providers = s.providers := by unfold setStake; split <;> rfl
@[simp] theorem setStake_withdraws (s : State) (k : Stake) : (setStake s k).withdraws = s.withdraws := by unfold setStake; split <;> rfl
@[simp] theorem setStake_origStakings (s : State) (k : Stake) : (setStake s k).origStakings = s.origStakings := by unfold setStake; split <;> rfl
@[simp] theorem setStake_reimbs (s : State) (k : Stake) : (setStake s k).reimbs = s.reimbs := by unfold setStake; split <;> rfl
@[simp] theorem setStake_totalCollateral (s : State) (k : Stake) : (setStake s k).totalCollateral = s.totalCollateral := by unfold setStake; split <;> rfl
@[simp] theorem setStake_totalWithdrawing (s : State) (k : Stake) : (setStake s k).totalWithdrawing = s.totalWithdrawing := by unfold setStake; split <;> rfl
@[simp] theorem setStake_totalShield (s : State) (k : Stake) : (setStake s k).totalShield = s.totalShield := by unfold setStake; split <;> rfl
@[simp] theorem setStake_totalClaimed (s : State) (k : Stake) : (setStake s k).totalClaimed = s.totalClaimed := by unfold setStake; split <;> rfl
@[simp] theorem setStake_serviceFees (s : State) (k : Stake) : (setStake s k).serviceFees = s.serviceFees := by unfold setStake; split <;> rfl
@[simp] theorem setStake_remaining (s : State) (k : Stake) : (setStake s k).remaining = s.remaining := by unfold setStake; split <;> rfl
@[simp] theorem setStake_blockFees (s : State) (k : Stake) : (setStake s k).blockFees = s.blockFees := by unfold setStake; split <;> rfl
@[simp] theorem setStake_stakingPool (s : State) (k : Stake) : (setStake s k).stakingPool = s.stakingPool := by unfold setStake; split <;> rfl
@[simp] theorem setStake_lastUpdate (s : State) (k : Stake) : (setStake s k).lastUpdate = s.lastUpdate := by unfold setStake; split <;> rfl
@[simp] theorem setStake_nextPool (s : State) (k : Stake) : (setStake s k).nextPool = s.nextPool := by unfold setStake; split <;> rfl
@[simp] theorem setStake_nextPurchase (s : State) (k : Stake) : (setStake s k).nextPurchase = s.nextPurchase := by unfold setStake; split <;> rfl
@[simp] theorem setStake_params (s : State) (k : Stake) : (setStake s k).params = s.params := by unfold setStake; split <;> rfl
@[simp] theorem closePools_admin (s : State) : (closePools s).admin = s.admin := rfl
@[simp] theorem closePools_lists (s : State) : (closePools s).lists = s.lists := rfl
@[simp] theorem closePools_providers (s : State) : (closePools s).providers = s.providers := rfl
@[simp] theorem closePools_withdraws (s : State) : (closePools s).withdraws = s.withdraws := rfl
@[simp] theorem closePools_stakes (s : State) : (closePools s).stakes = s.stakes := rfl
@[simp] theorem closePools_origStakings (s : State) : (closePools s).origStakings = s.origStakings := rfl
@[simp] theorem closePools_reimbs (s : State) : (closePools s).reimbs = s.reimbs := rfl
@[simp] theorem closePools_totalCollateral (s : State) : (closePools s).totalCollateral = s.totalCollateral := rfl
@[simp] theorem closePools_totalWithdrawing (s : State) : (closePools s).totalWithdrawing = s.totalWithdrawing := rfl
@[simp] theorem closePools_totalShield (s : State) : (closePools s).totalShield = s.totalShield := rfl
@[simp] theorem closePools_totalClaimed (s : State) : (closePools s).totalClaimed = s.totalClaimed := rfl
@[simp] theorem closePools_serviceFees (s : State) : (closePools s).serviceFees = s.serviceFees := rfl
@[simp] theorem closePools_remaining (s : State) : (closePools s).remaining = s.remaining := rfl
@[simp] theorem closePools_blockFees (s : State) : (closePools s).blockFees = s.blockFees := rfl
@[simp] theorem closePools_stakingPool (s : State) : (closePools s).stakingPool = s.stakingPool := rfl
@[simp] theorem closePools_lastUpdate (s : State) : (closePools s).lastUpdate = s.lastUpdate := rfl
@[simp] theorem closePools_nextPool (s : State) : (closePools s).nextPool = s.nextPool := rfl
@[simp] theorem closePools_nextPurchase (s : State) : (closePools s).nextPurchase = s.nextPurchase := rfl
@[simp] theorem closePools_params (s : State) : (closePools s).params = s.params := rfl
@[simp] theorem claimEnd_admin (s : State) (loss : Int) : (claimEnd s loss).admin = s.admin := rfl
@[simp] theorem claimEnd_pools (s : State) (loss : Int) : (claimEnd s loss).pools = s.pools := rfl
@[simp] theorem claimEnd_lists (s : State) (loss : Int) : (claimEnd s loss).lists = s.lists := rfl
@[simp] theorem claimEnd_providers (s : State) (loss : Int) : (claimEnd s loss).providers = s.providers := rfl
@[simp] theorem claimEnd_withdraws (s : State) (loss : Int) : (claimEnd s loss).withdraws = s.withdraws := rfl
@[simp] theorem claimEnd_stakes (s : State) (loss : Int) : (claimEnd s loss).stakes = s.stakes := rfl
@[simp] theorem claimEnd_origStakings (s : State) (loss : Int) : (claimEnd s loss).origStakings = s.origStakings := rfl
@[simp] theorem claimEnd_reimbs (s : State) (loss : Int) : (claimEnd s loss).reimbs = s.reimbs := rfl
@[simp] theorem claimEnd_totalCollateral (s : State) (loss : Int) : (claimEnd s loss).totalCollateral = s.totalCollateral := rfl
@[simp] theorem claimEnd_totalWithdrawing (s : State) (loss : Int) : (claimEnd s loss).totalWithdrawing = s.totalWithdrawing := rfl
@[simp] theorem claimEnd_totalShield (s : State) (loss : Int) : (claimEnd s loss).totalShield = s.totalShield := rfl
@[simp] theorem claimEnd_serviceFees (s : State) (loss : Int) : (claimEnd s loss).serviceFees = s.serviceFees := rfl
@[simp] theorem claimEnd_remaining (s : State) (loss : Int) : (claimEnd s loss).remaining = s.remaining := rfl
@[simp] theorem claimEnd_blockFees (s : State) (loss : Int) : (claimEnd s loss).blockFees = s.blockFees := rfl
@[simp] theorem claimEnd_stakingPool (s : State) (loss : Int) : (claimEnd s loss).stakingPool = s.stakingPool := rfl
@[simp] theorem claimEnd_lastUpdate (s : State) (loss : Int) : (claimEnd s loss).lastUpdate = s.lastUpdate := rfl
@[simp] theorem claimEnd_nextPool (s : State) (loss : Int) : (claimEnd s loss).nextPool = s.nextPool := rfl
@[simp] theorem claimEnd_nextPurchase (s : State) (loss : Int) : (claimEnd s loss).nextPurchase = s.nextPurchase := rfl
@[simp] theorem claimEnd_params (s : State) (loss : Int) : (claimEnd s loss).params = s.params := rfl

end Shentu.Shield.Fund
