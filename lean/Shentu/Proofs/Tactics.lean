/-- unfold a successful `Except` computation: split every branch, discard the failing ones -/
macro "ok_cases " h:ident : tactic =>
  `(tactic| ((try dsimp only at $h:ident); repeat' (split at $h:ident); all_goals (first | (cases $h:ident; done) | skip)))

/-- turn Boolean guards (`decide`, `&&`, `||`, `!`, `==`) into propositions that `omega` understands -/
macro "bool_norm" loc:(Lean.Parser.Tactic.location)? : tactic =>
  `(tactic| simp only [Bool.or_eq_true, Bool.and_eq_true, decide_eq_true_eq, not_or, not_and, Bool.not_eq_true',
      Bool.not_eq_true, decide_eq_false_iff_not, bne_iff_ne, beq_iff_eq, Bool.or_eq_false_iff, Bool.and_eq_false_imp,
      ne_eq, Bool.not_eq_false', Bool.not_eq_false, beq_eq_false_iff_ne, Bool.false_eq_true, Bool.true_eq_false,
      not_true_eq_false, not_false_eq_true, Decidable.not_not] $[$loc]?)
