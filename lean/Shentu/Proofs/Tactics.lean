/-- unfold a successful `Except` computation: split every branch, discard the failing ones -/
macro "ok_cases " h:ident : tactic =>
  `(tactic| ((try dsimp only at $h:ident); repeat' (split at $h:ident); all_goals (first | (cases $h:ident; done) | skip)))
