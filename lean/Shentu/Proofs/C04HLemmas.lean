import Shentu.Props.C03a
import Shentu.Props.C04
import Shentu.Proofs.ShieldFundBlock
import Shentu.Proofs.ShieldPoolOps
/-
  Helper definitions and lemmas for `Shentu/Props/C04H.lean` (shield claim payout, at the level of histories).

  Part 1: the ghost log.  A history is a list of `C03a.Op`; every step that succeeds in paying a claim
  (`claimEnds … paid`) or in withdrawing a reimbursement appends one event to a log that is carried beside the
  world.  The events are computed from what the step visibly does (the record found in the new store, the two
  ledgers), not from the arguments of the operation.

  Part 2: which operations can touch the reimbursement store (only those two).

  Part 3: pure list facts about logs (`openRecs`, `Good`) from which the property theorems follow.
-/
namespace Shentu.C04H
open Shentu Shentu.Shield Shentu.Shield.Fund Shentu.Props.C03a

/-! ## the ghost log -/

/-- what the log records -/
inductive Event where
  /-- a claim proposal passed: the reimbursement record that was written -/
  | created (pid : Nat) (beneficiary : Addr) (amount : Int) (payoutTime : Int)
  /-- a reimbursement was withdrawn under `pid` by `a` at block time `time`; `mod` is the module account of that step,
      `received` is what `a`'s balance gained and `left` what the module account's balance lost (bond denomination) -/
  | withdrawn (pid : Nat) (a : Addr) (mod : Addr) (received : Int) (left : Int) (time : Int)
  deriving DecidableEq, Repr, Inhabited

/-- the operations of a chain: everything in `C03a.Op` except the bare keeper function `createReimbursement`
    (which only ever runs inside `claimEnds … paid`) -/
def allowed : Op → Bool
  | .createReimbursement .. => false
  | _ => true

/-- the message-level operations: the messages of the module, the hooks, the claim life cycle, the two blockers -/
def isMsg : Op → Bool
  | .deposit .. | .withdraw .. | .stakingChanged .. | .purchase .. | .createPool .. | .updatePool .. | .pausePool ..
  | .updateSponsor .. | .unstake .. | .withdrawRewards .. | .withdrawReimbursement .. | .secureCollaterals ..
  | .claimEnds .. | .endBlock .. | .fundBlockRewards .. => true
  | _ => false

theorem isMsg_allowed (op : Op) (h : isMsg op = true) : allowed op = true := by
  cases op <;> first | rfl | cases h

/-- the events of a step that succeeded, read off the worlds before (`w`) and after (`w'`) -/
def eventsOk (op : Op) (w w' : World) : List Event :=
  match op with
  | .claimEnds _ pid _ _ _ _ _ .paid =>
    match w'.2.reimbs.find? (·.pid == pid) with
    | some r => [.created r.pid r.beneficiary r.amount r.payoutTime]
    | none => []
  | .withdrawReimbursement e pid a =>
    [.withdrawn pid a e.modAddr (w'.1.balOf a e.bond - w.1.balOf a e.bond)
      (w.1.balOf e.modAddr e.bond - w'.1.balOf e.modAddr e.bond) e.t]
  | _ => []

/-- the events one step appends: none when it fails -/
def events (op : Op) (w : World) : List Event :=
  match op.apply w with
  | .error _ => []
  | .ok w' => eventsOk op w w'

/-- the world with its log, newest event first -/
abbrev G := World × List Event

def gstep (op : Op) (g : G) : G := (step op g.1, events op g.1 ++ g.2)

def grun (ops : List Op) (g : G) : G := ops.foldl (fun g op => gstep op g) g

theorem grun_world (ops : List Op) (g : G) : (grun ops g).1 = run ops g.1 := by
  induction ops generalizing g with
  | nil => rfl
  | cons op ops ih => exact ih (gstep op g)

theorem grun_cons (op : Op) (ops : List Op) (g : G) : grun (op :: ops) g = grun ops (gstep op g) := rfl

theorem grun_append (o1 o2 : List Op) (g : G) : grun (o1 ++ o2) g = grun o2 (grun o1 g) := by
  simp [grun, List.foldl_append]

/-! ## the reimbursement store is touched by two operations only -/

theorem pcPaid_reimbs {e : Env} {l l' : Ledger} {s s1 : State} {poolID : Nat} {purchaser : Addr} {fees staking : Coins}
    (h : PoolLm.pcPaid e l s poolID purchaser fees staking = .ok (l', s1)) : s1.reimbs = s.reimbs := by
  unfold PoolLm.pcPaid at h
  dsimp only at h
  split at h
  · split at h
    · cases h
    · cases h; rfl
  · split at h
    · cases h
    · cases h; simp

theorem pcFinish_reimbs (e : Env) (s1 : State) (pool : Pool) (poolID : Nat) (purchaser : Addr) (entry : Purchase) :
    (PoolLm.pcFinish e s1 pool poolID purchaser entry).reimbs = s1.reimbs := by
  unfold PoolLm.pcFinish
  dsimp only
  split
  · show (setList _ _).reimbs = _
    rw [setList_reimbs, setPool_reimbs]
  · rw [setList_reimbs, setPool_reimbs]

theorem purchaseCore_reimbs (e : Env) (l l' : Ledger) (s s' : State) (poolID : Nat) (shield : Coins) (purchaser : Addr)
    (fees staking : Coins) (h : purchaseCore e l s poolID shield purchaser fees staking = .ok (l', s')) :
    s'.reimbs = s.reimbs := by
  obtain ⟨pool, s1, _, _, _, hp, hs'⟩ := PoolLm.purchaseCore_ok h
  rw [hs', pcFinish_reimbs, pcPaid_reimbs hp]

theorem purchase_reimbs (e : Env) (l l' : Ledger) (s s' : State) (poolID : Nat) (shield : Coins) (purchaser : Addr)
    (staking : Bool) (h : purchase e l s poolID shield purchaser staking = .ok (l', s')) : s'.reimbs = s.reimbs := by
  unfold purchase at h
  ok_cases h
  all_goals exact purchaseCore_reimbs _ _ _ _ _ _ _ _ _ _ h

theorem createPool_reimbs (e : Env) (l l' : Ledger) (s s' : State) (creator : Addr) (shield fees : Coins) (sponsor : String)
    (sponsorAddr : Addr) (limit : Int)
    (h : createPool e l s creator shield fees sponsor sponsorAddr limit = .ok (l', s')) : s'.reimbs = s.reimbs := by
  unfold createPool at h
  ok_cases h
  have := purchaseCore_reimbs _ _ _ _ _ _ _ _ _ _ h
  simpa using this

theorem updatePool_reimbs (e : Env) (l l' : Ledger) (s s' : State) (updater : Addr) (poolID : Nat) (shield fees : Coins)
    (limit : Int) (h : updatePool e l s updater poolID shield fees limit = .ok (l', s')) : s'.reimbs = s.reimbs := by
  unfold updatePool at h
  ok_cases h
  all_goals first
    | (have := purchaseCore_reimbs _ _ _ _ _ _ _ _ _ _ h; simpa using this)
    | (injection h with h; injection h with h1 h2; subst h1 h2; rfl)

theorem withdrawRewards_reimbs (e : Env) (l l' : Ledger) (s s' : State) (a : Addr)
    (h : withdrawRewards e l s a = .ok (l', s')) : s'.reimbs = s.reimbs := by
  unfold withdrawRewards at h
  ok_cases h
  all_goals (injection h with h; injection h with h1 h2; subst h1 h2; rfl)

theorem endBlock_reimbs (e : Env) (s s' : State) (h : endBlock e s = .ok s') : s'.reimbs = s.reimbs := by
  unfold endBlock at h
  ok_cases h
  rename_i _ s1 h1 _ s2 h2
  injection h with h; subst h
  rw [closePools_reimbs, (completeWithdrawals_same e s1 s2 h2).reimbs, (expireAndDistribute_spec e s s1 h1).2.2.1]

/-- the record an event of kind `created` stands for -/
def mkRec (pid : Nat) (b : Addr) (amt pt : Int) : Reimb := { pid := pid, amount := amt, beneficiary := b, payoutTime := pt }

/-- the step neither touches the reimbursement store nor logs anything -/
def Quiet (s s' : State) (evs : List Event) : Prop := s'.reimbs = s.reimbs ∧ evs = []

/-- the step is a claim that passed: the record is written (replacing any record under the same id), one `created` event -/
def Paid (op : Op) (s s' : State) (evs : List Event) : Prop :=
  ∃ e pid poolID rt b puid loss, op = .claimEnds e pid poolID rt b puid loss .paid ∧
    s'.reimbs = s.reimbs.filter (·.pid != pid) ++ [mkRec pid b loss (e.t + s.params.payoutPeriod)] ∧
    evs = [.created pid b loss (e.t + s.params.payoutPeriod)]

/-- the step is a successful withdrawal: the record found under the id belongs to the caller, its payout time has come,
    it is removed, one `withdrawn` event whose observed amounts are the record's amount -/
def Drawn (op : Op) (s s' : State) (evs : List Event) : Prop :=
  ∃ e pid a r received left, op = .withdrawReimbursement e pid a ∧ s.reimbs.find? (·.pid == pid) = some r ∧
    r.beneficiary = a ∧ r.payoutTime ≤ e.t ∧ s'.reimbs = s.reimbs.filter (·.pid != pid) ∧
    evs = [.withdrawn pid a e.modAddr received left e.t] ∧ (a ≠ e.modAddr → received = r.amount ∧ left = r.amount)

theorem find_filter_append (rs : List Reimb) (pid : Nat) (r : Reimb) (hr : r.pid = pid) :
    (rs.filter (·.pid != pid) ++ [r]).find? (·.pid == pid) = some r := by
  rw [List.find?_append]
  have : (rs.filter (·.pid != pid)).find? (·.pid == pid) = none := by
    apply List.find?_eq_none.mpr
    intro x hx
    have := (List.mem_filter.mp hx).2
    simpa using this
  rw [this]
  simp [hr]

theorem events_error (op : Op) (w : World) (x : Err) (h : op.apply w = .error x) : events op w = [] := by
  unfold events; rw [h]

theorem step_error (op : Op) (w : World) (x : Err) (h : op.apply w = .error x) : step op w = w := by
  unfold step; rw [h]

theorem step_ok (op : Op) (w w' : World) (h : op.apply w = .ok w') : step op w = w' := by
  unfold step; rw [h]

/-- every step of a chain is quiet, a paid claim, or a withdrawal -/
theorem step_spec (op : Op) (l : Ledger) (s : State) (ha : allowed op = true) :
    Quiet s (step op (l, s)).2 (events op (l, s)) ∨ Paid op s (step op (l, s)).2 (events op (l, s)) ∨
      Drawn op s (step op (l, s)).2 (events op (l, s)) := by
  cases happ : op.apply (l, s) with
  | error x => left; rw [step_error _ _ _ happ, events_error _ _ _ happ]; exact ⟨rfl, rfl⟩
  | ok w' =>
    obtain ⟨l', s'⟩ := w'
    rw [step_ok _ _ _ happ]
    have hev : events op (l, s) = eventsOk op (l, s) (l', s') := by
      unfold events; rw [happ]
    rw [hev]
    cases op <;> simp only [Op.apply] at happ
    case createReimbursement => cases ha
    case deposit e a c => obtain ⟨x, hx, he⟩ := map_ok happ; cases he; exact .inl ⟨(deposit_same e s _ a c hx).reimbs, rfl⟩
    case withdraw e a c => obtain ⟨x, hx, he⟩ := map_ok happ; cases he; exact .inl ⟨(withdraw_same e s _ a c hx).reimbs, rfl⟩
    case stakingChanged e a =>
      obtain ⟨x, hx, he⟩ := map_ok happ; cases he; exact .inl ⟨(stakingChanged_same e s _ a hx).reimbs, rfl⟩
    case purchase e poolID shield purchaser staking => exact .inl ⟨purchase_reimbs _ _ _ _ _ _ _ _ _ happ, rfl⟩
    case createPool e creator shield fees sponsor sponsorAddr limit => exact .inl ⟨createPool_reimbs _ _ _ _ _ _ _ _ _ _ _ happ, rfl⟩
    case updatePool e updater poolID shield fees limit => exact .inl ⟨updatePool_reimbs _ _ _ _ _ _ _ _ _ _ happ, rfl⟩
    case pausePool updater poolID active =>
      obtain ⟨x, hx, he⟩ := map_ok happ; cases he; exact .inl ⟨(pausePool_frame s _ _ _ _ hx).reimbs, rfl⟩
    case updateSponsor updater poolID sponsor sponsorAddr =>
      obtain ⟨x, hx, he⟩ := map_ok happ; cases he; exact .inl ⟨(updateSponsor_frame s _ _ _ _ _ hx).reimbs, rfl⟩
    case unstake e poolID purchaser coins =>
      obtain ⟨x, hx, he⟩ := map_ok happ; cases he; exact .inl ⟨(unstake_same e s _ _ _ _ hx).reimbs, rfl⟩
    case withdrawRewards e a => exact .inl ⟨withdrawRewards_reimbs _ _ _ _ _ _ happ, rfl⟩
    case secureCollaterals e poolID purchaser purchaseID loss duration =>
      obtain ⟨x, hx, he⟩ := map_ok happ; cases he; exact .inl ⟨(secureCollaterals_frame e s _ _ _ _ _ _ hx).reimbs, rfl⟩
    case endBlock e => obtain ⟨x, hx, he⟩ := map_ok happ; cases he; exact .inl ⟨endBlock_reimbs e s _ hx, rfl⟩
    case fundBlockRewards e sender amount => injection happ with happ; cases happ; exact .inl ⟨rfl, rfl⟩
    case withdrawCollateral e a amount =>
      obtain ⟨x, hx, he⟩ := map_ok happ; cases he; exact .inl ⟨(withdrawCollateral_same e s _ a amount hx).reimbs, rfl⟩
    case stakingHook e a staked =>
      obtain ⟨x, hx, he⟩ := map_ok happ; cases he; exact .inl ⟨(stakingHook_same e s _ a staked hx).reimbs, rfl⟩
    case delayWithdraws a amount t =>
      obtain ⟨x, hx, he⟩ := map_ok happ; cases he; exact .inl ⟨(delayWithdraws_frame s _ a amount t hx).reimbs, rfl⟩
    case secureFromProvider e p amount duration =>
      obtain ⟨x, hx, he⟩ := map_ok happ; cases he; exact .inl ⟨(secureFromProvider_frame e s _ p amount duration hx).reimbs, rfl⟩
    case completeWithdrawals e =>
      obtain ⟨x, hx, he⟩ := map_ok happ; cases he; exact .inl ⟨(completeWithdrawals_same e s _ hx).reimbs, rfl⟩
    case expireAndDistribute e =>
      obtain ⟨x, hx, he⟩ := map_ok happ; cases he; exact .inl ⟨(expireAndDistribute_spec e s _ hx).2.2.1, rfl⟩
    case closePools => injection happ with happ; cases happ; exact .inl ⟨rfl, rfl⟩
    case claimEnd loss => injection happ with happ; cases happ; exact .inl ⟨rfl, rfl⟩
    case restoreShield poolID purchaser id loss =>
      injection happ with happ; cases happ; exact .inl ⟨(restoreShield_frame s _ _ _ _).reimbs, rfl⟩
    case withdrawReimbursement e pid a =>
      right; right
      obtain ⟨r, hf, hb, ht, hmove, _, hre, _, _⟩ := Props.C04.withdrawReimbursement_pays e l l' s s' pid a happ
      refine ⟨e, pid, a, r, _, _, rfl, hf, hb, ht, hre, rfl, ?_⟩
      intro hne
      show (l'.balOf a e.bond - l.balOf a e.bond) = r.amount ∧ (l.balOf e.modAddr e.bond - l'.balOf e.modAddr e.bond) = r.amount
      rw [hmove, move_out_dst _ _ _ _ _ hne, move_out _ _ _ _ _ hne, amountOf_one]
      constructor <;> omega
    case claimEnds e pid poolID rt b puid loss o =>
      cases o with
      | paid =>
        right; left
        simp only [claimEnds] at happ
        obtain ⟨hre, _, _, _⟩ := Props.C04.createReimbursement_records e l l' s s' pid loss b happ
        refine ⟨e, pid, poolID, rt, b, puid, loss, rfl, hre, ?_⟩
        show (match s'.reimbs.find? (·.pid == pid) with
          | some r => [Event.created r.pid r.beneficiary r.amount r.payoutTime]
          | none => []) = _
        rw [hre, find_filter_append s.reimbs pid (Props.C04.record e s pid loss b) rfl]
        rfl
      | vetoed =>
        exact .inl ⟨(Props.C04.unpaid_claim_pays_nothing e l l' s s' pid poolID rt b puid loss .vetoed (by decide) happ).2, rfl⟩
      | rejected =>
        exact .inl ⟨(Props.C04.unpaid_claim_pays_nothing e l l' s s' pid poolID rt b puid loss .rejected (by decide) happ).2, rfl⟩
      | failed =>
        exact .inl ⟨(Props.C04.unpaid_claim_pays_nothing e l l' s s' pid poolID rt b puid loss .failed (by decide) happ).2, rfl⟩

/-! ## logs as lists: the open records, well-formed logs -/

/-- what an event does to the reimbursement store -/
def Event.act : Event → List Reimb → List Reimb
  | .created pid b amt pt, rs => rs.filter (·.pid != pid) ++ [mkRec pid b amt pt]
  | .withdrawn pid _ _ _ _ _, rs => rs.filter (·.pid != pid)

/-- the created-and-not-yet-withdrawn entries of a log (newest event first), in the order of their creation;
    a later creation under the same id supersedes the earlier one -/
def openRecs : List Event → List Reimb
  | [] => []
  | ev :: log => ev.act (openRecs log)

def Event.cpid : Event → List Nat
  | .created pid _ _ _ => [pid]
  | .withdrawn .. => []
def Event.wpid : Event → List Nat
  | .created .. => []
  | .withdrawn pid _ _ _ _ _ => [pid]

/-- the proposal ids of the `created` entries, newest first -/
def createdPids (log : List Event) : List Nat := log.flatMap Event.cpid
/-- the proposal ids of the `withdrawn` entries, newest first -/
def withdrawnPids (log : List Event) : List Nat := log.flatMap Event.wpid

@[simp] theorem createdPids_nil : createdPids [] = [] := rfl
@[simp] theorem withdrawnPids_nil : withdrawnPids [] = [] := rfl
@[simp] theorem createdPids_created (pid : Nat) (b : Addr) (amt pt : Int) (log : List Event) :
    createdPids (.created pid b amt pt :: log) = pid :: createdPids log := rfl
@[simp] theorem createdPids_withdrawn (pid : Nat) (a m : Addr) (x y t : Int) (log : List Event) :
    createdPids (.withdrawn pid a m x y t :: log) = createdPids log := rfl
@[simp] theorem withdrawnPids_created (pid : Nat) (b : Addr) (amt pt : Int) (log : List Event) :
    withdrawnPids (.created pid b amt pt :: log) = withdrawnPids log := rfl
@[simp] theorem withdrawnPids_withdrawn (pid : Nat) (a m : Addr) (x y t : Int) (log : List Event) :
    withdrawnPids (.withdrawn pid a m x y t :: log) = pid :: withdrawnPids log := rfl

theorem createdPids_append (a b : List Event) : createdPids (a ++ b) = createdPids a ++ createdPids b := by
  simp [createdPids]
theorem withdrawnPids_append (a b : List Event) : withdrawnPids (a ++ b) = withdrawnPids a ++ withdrawnPids b := by
  simp [withdrawnPids]

theorem mem_createdPids {pid : Nat} {log : List Event} :
    pid ∈ createdPids log ↔ ∃ b amt pt, Event.created pid b amt pt ∈ log := by
  induction log with
  | nil => simp
  | cons ev log ih =>
    cases ev with
    | created p b amt pt =>
      simp only [createdPids_created, List.mem_cons, ih, Event.created.injEq]
      constructor
      · rintro (h | ⟨b', amt', pt', h⟩)
        · exact ⟨b, amt, pt, .inl ⟨h, rfl, rfl, rfl⟩⟩
        · exact ⟨b', amt', pt', .inr h⟩
      · rintro ⟨b', amt', pt', h | h⟩
        · exact .inl h.1
        · exact .inr ⟨b', amt', pt', h⟩
    | withdrawn p a m x y t =>
      simp only [createdPids_withdrawn, ih, List.mem_cons, reduceCtorEq, false_or]

theorem mem_withdrawnPids {pid : Nat} {log : List Event} :
    pid ∈ withdrawnPids log ↔ ∃ a m x y t, Event.withdrawn pid a m x y t ∈ log := by
  induction log with
  | nil => simp
  | cons ev log ih =>
    cases ev with
    | created p b amt pt =>
      simp only [withdrawnPids_created, ih, List.mem_cons, reduceCtorEq, false_or]
    | withdrawn p a m x y t =>
      simp only [withdrawnPids_withdrawn, List.mem_cons, ih, Event.withdrawn.injEq]
      constructor
      · rintro (h | ⟨a', m', x', y', t', h⟩)
        · exact ⟨a, m, x, y, t, .inl ⟨h, rfl, rfl, rfl, rfl, rfl⟩⟩
        · exact ⟨a', m', x', y', t', .inr h⟩
      · rintro ⟨a', m', x', y', t', h | h⟩
        · exact .inl h.1
        · exact .inr ⟨a', m', x', y', t', h⟩

/-- the log is consistent with the store it describes: every withdrawal found an open record under its id that belonged to
    the caller and whose payout time had come, and what it observed on the ledger is that record's amount
    (unless the caller is the module account itself: a transfer to oneself moves nothing) -/
def Good : List Event → Prop
  | [] => True
  | .created _ _ _ _ :: log => Good log
  | .withdrawn pid a m received left t :: log => Good log ∧
      ∃ r, (openRecs log).find? (·.pid == pid) = some r ∧ r.beneficiary = a ∧ r.payoutTime ≤ t ∧
        (a ≠ m → received = r.amount ∧ left = r.amount)

theorem good_suffix (post pre : List Event) (h : Good (post ++ pre)) : Good pre := by
  induction post with
  | nil => exact h
  | cons ev post ih =>
    cases ev with
    | created => exact ih h
    | withdrawn => exact ih h.1

/-- an open record stems from a `created` entry of the log -/
theorem openRecs_mem (log : List Event) (r : Reimb) (h : r ∈ openRecs log) :
    Event.created r.pid r.beneficiary r.amount r.payoutTime ∈ log := by
  induction log with
  | nil => cases h
  | cons ev log ih =>
    cases ev with
    | created p b amt pt =>
      simp only [openRecs, Event.act] at h
      rcases List.mem_append.mp h with h1 | h1
      · exact List.mem_cons_of_mem _ (ih (List.mem_filter.mp h1).1)
      · have : r = mkRec p b amt pt := by simpa using h1
        subst this; exact List.mem_cons_self
    | withdrawn p a m x y t =>
      simp only [openRecs, Event.act] at h
      exact List.mem_cons_of_mem _ (ih (List.mem_filter.mp h).1)

/-- the open records have pairwise distinct proposal ids -/
theorem openRecs_nodup (log : List Event) : ((openRecs log).map (·.pid)).Nodup := by
  induction log with
  | nil => simp [openRecs]
  | cons ev log ih =>
    have hf : ∀ p : Nat, (((openRecs log).filter (·.pid != p)).map (·.pid)).Nodup := fun p =>
      (List.filter_sublist.map _).nodup ih
    cases ev with
    | created p b amt pt =>
      simp only [openRecs, Event.act, List.map_append, List.map_cons, List.map_nil]
      rw [List.nodup_append]
      refine ⟨hf p, by simp, ?_⟩
      intro a ha b' hb' hab
      obtain ⟨x, hx, hxa⟩ := List.mem_map.mp ha
      have := (List.mem_filter.mp hx).2
      have hb2 : b' = p := by simpa [mkRec] using hb'
      subst hab hb2
      simp [hxa] at this
    | withdrawn p a m x y t => exact hf p

/-- every withdrawn id was created before -/
theorem withdrawn_created (log : List Event) (hg : Good log) (pid : Nat) (h : pid ∈ withdrawnPids log) :
    pid ∈ createdPids log := by
  induction log with
  | nil => cases h
  | cons ev log ih =>
    cases ev with
    | created p b amt pt =>
      rw [createdPids_created]
      exact List.mem_cons_of_mem _ (ih hg h)
    | withdrawn p a m x y t =>
      rw [createdPids_withdrawn]
      rw [withdrawnPids_withdrawn] at h
      rcases List.mem_cons.mp h with h1 | h1
      · obtain ⟨r, hf, _⟩ := hg.2
        have hr := openRecs_mem log r (List.mem_of_find?_eq_some hf)
        have hp : r.pid = p := by simpa using List.find?_some hf
        exact mem_createdPids.mpr ⟨_, _, _, by rw [h1, ← hp]; exact hr⟩
      · exact ih hg.1 h1

/-- with fresh ids, a withdrawn id has no open record any more -/
theorem withdrawn_closed (log : List Event) (hg : Good log) (hf : (createdPids log).Nodup) (pid : Nat)
    (h : pid ∈ withdrawnPids log) : ∀ r ∈ openRecs log, r.pid ≠ pid := by
  induction log with
  | nil => cases h
  | cons ev log ih =>
    cases ev with
    | created p b amt pt =>
      rw [createdPids_created] at hf
      rw [withdrawnPids_created] at h
      intro r hr
      simp only [openRecs, Event.act] at hr
      rcases List.mem_append.mp hr with h1 | h1
      · exact ih hg (List.nodup_cons.mp hf).2 h r (List.mem_filter.mp h1).1
      · have : r = mkRec p b amt pt := by simpa using h1
        subst this
        intro hp
        have : p = pid := hp
        subst this
        exact (List.nodup_cons.mp hf).1 (withdrawn_created log hg _ h)
    | withdrawn p a m x y t =>
      rw [createdPids_withdrawn] at hf
      rw [withdrawnPids_withdrawn] at h
      intro r hr
      simp only [openRecs, Event.act] at hr
      obtain ⟨hr1, hr2⟩ := List.mem_filter.mp hr
      rcases List.mem_cons.mp h with h1 | h1
      · subst h1; simpa using hr2
      · exact ih hg.1 hf h1 r hr1

/-- with fresh ids, no id is withdrawn twice -/
theorem withdrawn_nodup (log : List Event) (hg : Good log) (hf : (createdPids log).Nodup) : (withdrawnPids log).Nodup := by
  induction log with
  | nil => simp
  | cons ev log ih =>
    cases ev with
    | created p b amt pt =>
      rw [createdPids_created] at hf
      exact ih hg (List.nodup_cons.mp hf).2
    | withdrawn p a m x y t =>
      rw [createdPids_withdrawn] at hf
      rw [withdrawnPids_withdrawn]
      refine List.nodup_cons.mpr ⟨?_, ih hg.1 hf⟩
      intro hp
      obtain ⟨r, hfind, _⟩ := hg.2
      have hpid : r.pid = p := by simpa using List.find?_some hfind
      exact withdrawn_closed log hg.1 hf p hp r (List.mem_of_find?_eq_some hfind) hpid

/-- with fresh ids, the open records are exactly the `created` entries whose id has not been withdrawn -/
theorem openRecs_iff (log : List Event) (hg : Good log) (hf : (createdPids log).Nodup) (r : Reimb) :
    r ∈ openRecs log ↔ Event.created r.pid r.beneficiary r.amount r.payoutTime ∈ log ∧ r.pid ∉ withdrawnPids log := by
  induction log with
  | nil => simp [openRecs]
  | cons ev log ih =>
    cases ev with
    | created p b amt pt =>
      rw [createdPids_created] at hf
      obtain ⟨hp, hf'⟩ := List.nodup_cons.mp hf
      have ih' := ih hg hf'
      rw [withdrawnPids_created]
      simp only [openRecs, Event.act, List.mem_append, List.mem_filter, List.mem_cons, List.mem_nil_iff, or_false]
      constructor
      · rintro (⟨h1, _⟩ | h1)
        · exact ⟨.inr (ih'.mp h1).1, (ih'.mp h1).2⟩
        · subst h1
          exact ⟨.inl rfl, fun hw => hp (withdrawn_created log hg _ hw)⟩
      · rintro ⟨h1 | h1, h2⟩
        · right
          injection h1 with e1 e2 e3 e4
          cases r; simp only at e1 e2 e3 e4; subst e1 e2 e3 e4; rfl
        · left
          refine ⟨ih'.mpr ⟨h1, h2⟩, ?_⟩
          have : r.pid ≠ p := fun hrp => hp (mem_createdPids.mpr ⟨_, _, _, hrp ▸ h1⟩)
          simpa using this
    | withdrawn p a m x y t =>
      rw [createdPids_withdrawn] at hf
      have ih' := ih hg.1 hf
      rw [withdrawnPids_withdrawn]
      simp only [openRecs, Event.act, List.mem_filter, List.mem_cons, reduceCtorEq, false_or, not_or]
      constructor
      · rintro ⟨h1, h2⟩
        exact ⟨(ih'.mp h1).1, by simpa using h2, (ih'.mp h1).2⟩
      · rintro ⟨h1, h2, h3⟩
        exact ⟨ih'.mpr ⟨h1, h3⟩, by simpa using h2⟩

/-- everything the property says about one withdrawal: it was preceded by the creation of a record under the same id for the
    same address, the payout time of that record had come, and the observed coins are its amount -/
theorem withdrawn_spec (log post pre : List Event) (hg : Good log) (pid : Nat) (a m : Addr) (received left t : Int)
    (h : log = post ++ .withdrawn pid a m received left t :: pre) :
    ∃ amt pt, Event.created pid a amt pt ∈ pre ∧ pt ≤ t ∧ (a ≠ m → received = amt ∧ left = amt) := by
  subst h
  have := good_suffix post _ hg
  obtain ⟨r, hfind, hb, ht, hamt⟩ := this.2
  have hmem := openRecs_mem pre r (List.mem_of_find?_eq_some hfind)
  have hpid : r.pid = pid := by simpa using List.find?_some hfind
  rw [hpid, hb] at hmem
  exact ⟨r.amount, r.payoutTime, hmem, ht, hamt⟩

/-! ## the ledger side: what was paid out equals what was approved for the withdrawn ids -/

/-- the amount approved under an id: that of the newest `created` entry (0 when there is none) -/
def approved : List Event → Nat → Int
  | [], _ => 0
  | .created p _ amt _ :: log, pid => if p = pid then amt else approved log pid
  | .withdrawn .. :: log, pid => approved log pid

/-- the coins that left the module account under reimbursement withdrawals (withdrawals by the module account itself,
    which move nothing, left out) -/
def paidOut : List Event → Int
  | [] => 0
  | .created .. :: log => paidOut log
  | .withdrawn _ a m _ left _ :: log => (if a = m then 0 else left) + paidOut log

/-- the coins the beneficiaries received -/
def receivedTotal : List Event → Int
  | [] => 0
  | .created .. :: log => receivedTotal log
  | .withdrawn _ a m received _ _ :: log => (if a = m then 0 else received) + receivedTotal log

/-- the amounts approved for the withdrawn ids, each at the time of its withdrawal -/
def owedOut : List Event → Int
  | [] => 0
  | .created .. :: log => owedOut log
  | .withdrawn pid a m _ _ _ :: log => (if a = m then 0 else approved log pid) + owedOut log

theorem openRecs_approved (log : List Event) (r : Reimb) (h : r ∈ openRecs log) : r.amount = approved log r.pid := by
  induction log with
  | nil => cases h
  | cons ev log ih =>
    cases ev with
    | created p b amt pt =>
      simp only [openRecs, Event.act] at h
      rcases List.mem_append.mp h with h1 | h1
      · obtain ⟨h2, h3⟩ := List.mem_filter.mp h1
        have : ¬ p = r.pid := by intro hp; simp [hp] at h3
        simp only [approved, this, if_false]
        exact ih h2
      · have : r = mkRec p b amt pt := by simpa using h1
        subst this
        simp [approved, mkRec]
    | withdrawn p a m x y t =>
      simp only [openRecs, Event.act] at h
      exact ih (List.mem_filter.mp h).1

theorem paid_eq_owed (log : List Event) (hg : Good log) : paidOut log = owedOut log ∧ receivedTotal log = owedOut log := by
  induction log with
  | nil => exact ⟨rfl, rfl⟩
  | cons ev log ih =>
    cases ev with
    | created p b amt pt => exact ih hg
    | withdrawn p a m x y t =>
      obtain ⟨r, hfind, _, _, hamt⟩ := hg.2
      have hpid : r.pid = p := by simpa using List.find?_some hfind
      have hap := openRecs_approved log r (List.mem_of_find?_eq_some hfind)
      rw [hpid] at hap
      obtain ⟨i1, i2⟩ := ih hg.1
      simp only [paidOut, owedOut, receivedTotal]
      by_cases ham : a = m
      · simp only [ham, if_true]; omega
      · simp only [ham, if_false]
        obtain ⟨e1, e2⟩ := hamt ham
        omega

/-! ## the books: approved = paid out + still open (fresh ids) -/

/-- the sum of all amounts ever approved -/
def createdTotal : List Event → Int
  | [] => 0
  | .created _ _ amt _ :: log => amt + createdTotal log
  | .withdrawn .. :: log => createdTotal log

/-- the amounts approved for the withdrawn ids, withdrawals by the module account itself included -/
def drawnTotal : List Event → Int
  | [] => 0
  | .created .. :: log => drawnTotal log
  | .withdrawn pid _ _ _ _ _ :: log => approved log pid + drawnTotal log

theorem sum_filter_found (rs : List Reimb) (p : Nat) (r : Reimb) (hn : (rs.map (·.pid)).Nodup)
    (hf : rs.find? (·.pid == p) = some r) :
    sumI (·.amount) (rs.filter (·.pid != p)) = sumI (·.amount) rs - r.amount := by
  obtain ⟨l1, l2, h1, hk, h3, h4⟩ := find_split (fun x : Reimb => x.pid) p (fun x => x.pid == p) (fun x => by simp) rs r hn hf
  rw [h1, filter_not_split (fun x : Reimb => x.pid == p) (fun x => x.pid != p) (fun x => by simp [bne]) r l1 l2 h3 h4
    (by simpa using hk)]
  simp only [sumI_append, sumI_cons]
  omega

theorem same_pid_same_record (rs : List Reimb) (hn : (rs.map (·.pid)).Nodup) (r r' : Reimb) (hr : r ∈ rs) (hr' : r' ∈ rs)
    (hp : r.pid = r'.pid) : r = r' := by
  induction rs with
  | nil => cases hr
  | cons x xs ih =>
    simp only [List.map_cons, List.nodup_cons] at hn
    rcases List.mem_cons.mp hr with h1 | h1 <;> rcases List.mem_cons.mp hr' with h2 | h2
    · rw [h1, h2]
    · exfalso; apply hn.1; rw [← h1, hp]; exact List.mem_map_of_mem h2
    · exfalso; apply hn.1; rw [← h2, ← hp]; exact List.mem_map_of_mem h1
    · exact ih hn.2 h1 h2

/-- with fresh ids, every coin ever approved has either been drawn or is still recorded -/
theorem books_balance (log : List Event) (hg : Good log) (hf : (createdPids log).Nodup) :
    createdTotal log = drawnTotal log + sumI (·.amount) (openRecs log) := by
  induction log with
  | nil => rfl
  | cons ev log ih =>
    cases ev with
    | created p b amt pt =>
      rw [createdPids_created] at hf
      obtain ⟨hp, hf'⟩ := List.nodup_cons.mp hf
      have hfil : (openRecs log).filter (·.pid != p) = openRecs log := by
        apply List.filter_eq_self.mpr
        intro x hx
        have : x.pid ≠ p := fun hxp => hp (mem_createdPids.mpr ⟨_, _, _, hxp ▸ openRecs_mem log x hx⟩)
        simpa using this
      simp only [createdTotal, drawnTotal, openRecs, Event.act, hfil, sumI_append, sumI_cons, sumI_nil]
      have := ih hg hf'
      simp only [mkRec]
      omega
    | withdrawn p a m x y t =>
      rw [createdPids_withdrawn] at hf
      obtain ⟨r, hfind, _⟩ := hg.2
      have hpid : r.pid = p := by simpa using List.find?_some hfind
      have hap := openRecs_approved log r (List.mem_of_find?_eq_some hfind)
      rw [hpid] at hap
      simp only [createdTotal, drawnTotal, openRecs, Event.act]
      rw [sum_filter_found _ p r (openRecs_nodup log) hfind]
      have := ih hg.1 hf
      omega

/-- no withdrawal by the module account itself -/
def NoSelf (log : List Event) : Prop := ∀ pid a m x y t, Event.withdrawn pid a m x y t ∈ log → a ≠ m

theorem owedOut_eq_drawn (log : List Event) (h : NoSelf log) : owedOut log = drawnTotal log := by
  induction log with
  | nil => rfl
  | cons ev log ih =>
    have ih' := ih (fun pid a m x y t hm => h pid a m x y t (List.mem_cons_of_mem _ hm))
    cases ev with
    | created p b amt pt => exact ih'
    | withdrawn p a m x y t =>
      have := h p a m x y t List.mem_cons_self
      simp only [owedOut, drawnTotal, this, if_false, ih']

/-! ## histories -/

/-- the invariant that carries the induction: the store is what the log says is open, and the log is consistent -/
def Inv (g : G) : Prop := g.1.2.reimbs = openRecs g.2 ∧ Good g.2

theorem gstep_inv (op : Op) (g : G) (ha : allowed op = true) (hi : Inv g) : Inv (gstep op g) := by
  obtain ⟨⟨l, s⟩, log⟩ := g
  obtain ⟨hre, hg⟩ := hi
  simp only at hre
  show (step op (l, s)).2.reimbs = openRecs (events op (l, s) ++ log) ∧ Good (events op (l, s) ++ log)
  rcases step_spec op l s ha with ⟨h1, h2⟩ | ⟨e, pid, poolID, rt, b, puid, loss, _, h1, h2⟩ |
      ⟨e, pid, a, r, received, left, _, hfind, hb, ht, h1, h2, hamt⟩
  · rw [h1, h2]; exact ⟨hre, hg⟩
  · rw [h1, h2, hre]; exact ⟨rfl, hg⟩
  · rw [h1, h2, hre]
    refine ⟨rfl, hg, r, ?_, hb, ht, hamt⟩
    show (openRecs log).find? (·.pid == pid) = some r
    rw [← hre]; exact hfind

theorem grun_inv (ops : List Op) (g : G) (ha : ∀ op ∈ ops, allowed op = true) (hi : Inv g) : Inv (grun ops g) := by
  induction ops generalizing g with
  | nil => exact hi
  | cons op ops ih =>
    exact ih (gstep op g) (fun o ho => ha o (List.mem_cons_of_mem _ ho)) (gstep_inv op g (ha op List.mem_cons_self) hi)

theorem inv_init (l : Ledger) (s : State) (h : s.reimbs = []) : Inv ((l, s), []) := ⟨h, trivial⟩

/-- fresh proposal ids: no step pays a claim under an id that the log already has a `created` entry for -/
def FreshHist : List Op → G → Prop
  | [], _ => True
  | op :: ops, g => (∀ pid ∈ createdPids (events op g.1), pid ∉ createdPids g.2) ∧ FreshHist ops (gstep op g)

theorem events_length (op : Op) (w : World) : (events op w).length ≤ 1 := by
  unfold events
  split
  · simp
  · unfold eventsOk
    split
    · split <;> simp
    · simp
    · simp

theorem createdPids_length (evs : List Event) : (createdPids evs).length ≤ evs.length := by
  induction evs with
  | nil => simp
  | cons ev evs ih => cases ev <;> simp <;> omega

theorem nodup_of_length_le_one {α} (l : List α) (h : l.length ≤ 1) : l.Nodup := by
  match l, h with
  | [], _ => simp
  | [a], _ => simp
  | _ :: _ :: _, h => simp at h

theorem grun_fresh (ops : List Op) (g : G) (hf : (createdPids g.2).Nodup) (hh : FreshHist ops g) :
    (createdPids (grun ops g).2).Nodup := by
  induction ops generalizing g with
  | nil => exact hf
  | cons op ops ih =>
    apply ih (gstep op g) ?_ hh.2
    show (createdPids (events op g.1 ++ g.2)).Nodup
    rw [createdPids_append, List.nodup_append]
    refine ⟨nodup_of_length_le_one _ ?_, hf, ?_⟩
    · have := createdPids_length (events op g.1); have := events_length op g.1; omega
    · intro a ha b hb hab
      subst hab
      exact hh.1 a ha hb

/-- the ids of the claims a history pays, as written in the operations -/
def paidPid : Op → List Nat
  | .claimEnds _ pid _ _ _ _ _ .paid => [pid]
  | _ => []
def paidPids (ops : List Op) : List Nat := ops.flatMap paidPid

theorem events_cpid_sub (op : Op) (w : World) : ∀ pid ∈ createdPids (events op w), pid ∈ paidPid op := by
  intro pid h
  unfold events at h
  split at h
  · cases h
  · unfold eventsOk at h
    split at h
    · split at h
      · rename_i pid0 _ _ _ _ _ _ _ r hfind
        have hp : r.pid = pid0 := by simpa using List.find?_some hfind
        simp only [createdPids_created, createdPids_nil, List.mem_singleton] at h
        rw [h, hp]; simp [paidPid]
      · cases h
    · cases h
    · cases h

/-- a history that never names an id twice among its paid claims has fresh ids -/
theorem fresh_of_nodup (ops : List Op) (g : G) (hn : (paidPids ops).Nodup)
    (hd : ∀ pid ∈ createdPids g.2, pid ∉ paidPids ops) : FreshHist ops g := by
  induction ops generalizing g with
  | nil => trivial
  | cons op ops ih =>
    have hpp : paidPids (op :: ops) = paidPid op ++ paidPids ops := by simp [paidPids]
    rw [hpp] at hn hd
    obtain ⟨_, hn2, hn3⟩ := List.nodup_append.mp hn
    refine ⟨?_, ih (gstep op g) hn2 ?_⟩
    · intro pid hp hc
      exact hd pid hc (List.mem_append_left _ (events_cpid_sub op g.1 pid hp))
    · intro pid hp hq
      have hp' : pid ∈ createdPids (events op g.1) ++ createdPids g.2 := by
        rw [← createdPids_append]; exact hp
      rcases List.mem_append.mp hp' with h1 | h1
      · exact hn3 pid (events_cpid_sub op g.1 pid h1) pid hq rfl
      · exact hd pid h1 (List.mem_append_right _ hq)

/-- every entry of the log was written by some step of the history -/
theorem log_origin (ops : List Op) (g : G) (ev : Event) (h : ev ∈ (grun ops g).2) :
    ev ∈ g.2 ∨ ∃ pre op post, ops = pre ++ op :: post ∧ ev ∈ events op (grun pre g).1 := by
  induction ops generalizing g with
  | nil => exact .inl h
  | cons op ops ih =>
    rcases ih (gstep op g) h with h1 | ⟨pre, op', post, h1, h2⟩
    · have h1' : ev ∈ events op g.1 ++ g.2 := h1
      rcases List.mem_append.mp h1' with h3 | h3
      · exact .inr ⟨[], op, ops, rfl, h3⟩
      · exact .inl h3
    · exact .inr ⟨op :: pre, op', post, by rw [h1]; rfl, h2⟩

/-- a `created` entry is written by a `claimEnds … paid` for that id, beneficiary and loss, at that block time -/
theorem events_created (op : Op) (l : Ledger) (s : State) (ha : allowed op = true) (pid : Nat) (b : Addr) (amt pt : Int)
    (h : Event.created pid b amt pt ∈ events op (l, s)) :
    ∃ e poolID rt puid, op = .claimEnds e pid poolID rt b puid amt .paid ∧ pt = e.t + s.params.payoutPeriod := by
  rcases step_spec op l s ha with ⟨_, h2⟩ | ⟨e, pid', poolID, rt, b', puid, loss, hop, _, h2⟩ |
      ⟨e, pid', a, r, received, left, _, _, _, _, _, h2, _⟩
  · rw [h2] at h; cases h
  · rw [h2] at h
    have := List.mem_singleton.mp h
    injection this with e1 e2 e3 e4
    subst e1 e2 e3 e4
    exact ⟨e, poolID, rt, puid, hop, rfl⟩
  · rw [h2] at h
    have := List.mem_singleton.mp h
    cases this

/-- a `withdrawn` entry is written by a `withdrawReimbursement` of that id by that address, at that block time -/
theorem events_withdrawn (op : Op) (l : Ledger) (s : State) (ha : allowed op = true) (pid : Nat) (a m : Addr) (x y t : Int)
    (h : Event.withdrawn pid a m x y t ∈ events op (l, s)) :
    ∃ e, op = .withdrawReimbursement e pid a ∧ m = e.modAddr ∧ t = e.t := by
  rcases step_spec op l s ha with ⟨_, h2⟩ | ⟨e, pid', poolID, rt, b', puid, loss, _, _, h2⟩ |
      ⟨e, pid', a', r, received, left, hop, _, _, _, _, h2, _⟩
  · rw [h2] at h; cases h
  · rw [h2] at h
    have := List.mem_singleton.mp h
    cases this
  · rw [h2] at h
    have := List.mem_singleton.mp h
    injection this with e1 e2 e3 e4 e5 e6
    subst e1 e2 e3 e4 e5 e6
    exact ⟨e, hop, rfl, rfl⟩

end Shentu.C04H
