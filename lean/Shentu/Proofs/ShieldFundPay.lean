import Shentu.Proofs.ShieldFundClaim
/-
  C02 helper lemmas, part 6: a funded module account can always pay what it owes.
-/
namespace Shentu.Shield.Fund
open Shentu

theorem denoms_one (d : Denom) (x : Int) : Coins.denoms [(d, x)] = [d] := by
  simp [Coins.denoms, List.eraseDups_cons]

/-- sending a single non-negative amount succeeds exactly when the balance covers it -/
theorem send_one (l : Ledger) (src dst : Addr) (d : Denom) (x : Int) (h0 : 0 ≤ x) :
    l.send src dst [(d, x)] = if x ≤ l.balOf src d then .ok (l.move src dst [(d, x)]) else err "bank:insufficient-funds" := by
  unfold Ledger.send
  have h1 : Coins.isAnyNegative [(d, x)] = false := by
    simp [Coins.isAnyNegative, denoms_one]; omega
  have h2 : Coins.covers (l.bal src) [(d, x)] = decide (x ≤ l.balOf src d) := by
    simp [Coins.covers, denoms_one, Ledger.balOf]
    exact decide_eq_decide.mpr Iff.rfl
  rw [h1, h2]
  by_cases hx : x ≤ l.balOf src d <;> simp [hx]

/-- a single amount can be sent exactly when it is not negative and covered -/
theorem send_one_iff (l : Ledger) (src dst : Addr) (d : Denom) (x : Int) :
    (∃ l', l.send src dst [(d, x)] = .ok l') ↔ 0 ≤ x ∧ x ≤ l.balOf src d := by
  by_cases h0 : 0 ≤ x
  · rw [send_one l src dst d x h0]
    by_cases hb : x ≤ l.balOf src d
    · simp [hb, h0]
    · simp [hb, err]
  · have h1 : Coins.isAnyNegative [(d, x)] = true := by
      simp [Coins.isAnyNegative, denoms_one]; omega
    unfold Ledger.send
    simp [h1, err, h0]

theorem send_one_ok (l : Ledger) (src dst : Addr) (d : Denom) (x : Int) (h0 : 0 ≤ x) (hb : x ≤ l.balOf src d) :
    l.send src dst [(d, x)] = .ok (l.move src dst [(d, x)]) := by
  rw [send_one l src dst d x h0, if_pos hb]

/-- the owed parts are non-negative -/
structure OwedNonneg (s : State) : Prop where
  remaining : 0 ≤ s.remaining.raw
  blockFees : 0 ≤ s.blockFees.raw
  rewards : ∀ p ∈ s.providers, 0 ≤ p.rewards.raw
  stakes : ∀ k ∈ s.stakes, 0 ≤ k.amount
  reimbs : ∀ r ∈ s.reimbs, 0 ≤ r.amount

theorem truncate_le (d : Dec) (h : 0 ≤ d.raw) : 0 ≤ Dec.truncateInt d ∧ Dec.truncateInt d * Dec.prec ≤ d.raw := by
  unfold Dec.truncateInt
  rw [Int.tdiv_eq_ediv_of_nonneg h]
  simp only [Dec.prec]
  omega

/-- a funded module account covers any one provider's whole rewards -/
theorem rewards_covered (b : Int) (s : State) (hf : FundInv b s) (hn : OwedNonneg s) (p : Provider) (hp : p ∈ s.providers) :
    0 ≤ Dec.truncateInt p.rewards ∧ Dec.truncateInt p.rewards ≤ b := by
  have h1 := sumI_mem_le (fun p : Provider => p.rewards.raw) s.providers hn.rewards p hp
  have h2 := sumI_nonneg (·.amount) s.stakes hn.stakes
  have h3 := sumI_nonneg (·.amount) s.reimbs hn.reimbs
  obtain ⟨h4, h5⟩ := truncate_le p.rewards (hn.rewards p hp)
  have h6 := hn.remaining
  have h7 := hn.blockFees
  have h8 := hf.1
  simp only [owedRaw, sumRewards, sumStakes, sumReimbs, Dec.prec] at *
  refine ⟨h4, ?_⟩
  omega

/-- a funded module account covers any one recorded reimbursement -/
theorem reimb_covered (b : Int) (s : State) (hf : FundInv b s) (hn : OwedNonneg s) (r : Reimb) (hr : r ∈ s.reimbs) :
    0 ≤ r.amount ∧ r.amount ≤ b := by
  have h1 := sumI_mem_le (·.amount) s.reimbs hn.reimbs r hr
  have h2 := sumI_nonneg (·.amount) s.stakes hn.stakes
  have h3 := sumI_nonneg (fun p : Provider => p.rewards.raw) s.providers hn.rewards
  have h6 := hn.remaining
  have h7 := hn.blockFees
  have h8 := hf.1
  simp only [owedRaw, sumRewards, sumStakes, sumReimbs, Dec.prec] at *
  refine ⟨hn.reimbs r hr, ?_⟩
  omega

/-- a funded module account covers any one stake (the refund of a stake for shield) -/
theorem stake_covered (b : Int) (s : State) (hf : FundInv b s) (hn : OwedNonneg s) (k : Stake) (hk : k ∈ s.stakes) :
    0 ≤ k.amount ∧ k.amount ≤ b := by
  have h1 := sumI_mem_le (·.amount) s.stakes hn.stakes k hk
  have h2 := sumI_nonneg (·.amount) s.reimbs hn.reimbs
  have h3 := sumI_nonneg (fun p : Provider => p.rewards.raw) s.providers hn.rewards
  have h6 := hn.remaining
  have h7 := hn.blockFees
  have h8 := hf.1
  simp only [owedRaw, sumRewards, sumStakes, sumReimbs, Dec.prec] at *
  refine ⟨hn.stakes k hk, ?_⟩
  omega

end Shentu.Shield.Fund
