import Shentu.Proofs.ShieldPoolExpire
/-
  Lookups (`findPool`, `findList`, `findPurchase`) after the claim lock and its release:
  what a client reading the store sees before and after `secureCollaterals` / `restoreShield`.
-/
namespace Shentu.Shield.PoolLm
set_option linter.unusedSimpArgs false

/-- the purchase `id` held by `holder` in `pool`: the first entry with that id in the holder's list for the pool -/
def findPurchase (s : State) (pool : Nat) (holder : Addr) (id : Nat) : Option Purchase :=
  match findList s pool holder with
  | none => none
  | some l => l.entries.find? (·.id == id)

theorem find?_map_replace_key {α} (q p : α → Bool) (y : α) (l : List α) (hy : ∀ x, q x = true → p y = p x) :
    (l.map (fun z => if q z then y else z)).find? p = (l.find? p).map (fun z => if q z then y else z) := by
  rw [List.find?_map]
  congr 1
  have : (p ∘ fun z => if q z = true then y else z) = p := by
    funext z
    simp only [Function.comp]
    split
    · rename_i hq; exact hy z hq
    · rfl
  rw [this]

/-- reading a pool after `setPool`-style replacement of the record with id `pid` -/
theorem find?_pools_replace (pools : List Pool) (pid : Nat) (pool' : Pool) (hid : pool'.id = pid) (pid' : Nat) :
    (pools.map (fun x => if x.id == pid then pool' else x)).find? (·.id == pid') =
      if pid' = pid then (pools.find? (·.id == pid')).map (fun _ => pool') else pools.find? (·.id == pid') := by
  rw [find?_map_replace_key (fun x : Pool => x.id == pid) (fun x : Pool => x.id == pid') pool' pools
    (by intro x hx; simp only [beq_iff_eq] at hx; simp only [hid, hx])]
  cases hf : pools.find? (·.id == pid') with
  | none => simp
  | some x =>
    have hx : x.id = pid' := by have := List.find?_some hf; simpa using this
    by_cases hp : pid' = pid
    · simp [hp, hx ▸ hp]
    · have : ¬ x.id = pid := by rw [hx]; exact hp
      simp [hp, this]

/-- reading a purchase list after `setList`-style replacement of the record with key (pool, holder) -/
theorem find?_lists_replace (lists : List PList) (pool : Nat) (holder : Addr) (lst' : PList)
    (hk : lst'.pool = pool ∧ lst'.purchaser = holder) (pool' : Nat) (holder' : Addr) :
    (lists.map (fun x => if x.pool == pool && x.purchaser == holder then lst' else x)).find?
        (fun l => l.pool == pool' && l.purchaser == holder') =
      if pool' = pool ∧ holder' = holder then
        (lists.find? (fun l => l.pool == pool' && l.purchaser == holder')).map (fun _ => lst')
      else lists.find? (fun l => l.pool == pool' && l.purchaser == holder') := by
  rw [find?_map_replace_key (fun x : PList => x.pool == pool && x.purchaser == holder)
    (fun l : PList => l.pool == pool' && l.purchaser == holder') lst' lists
    (by intro x hx; simp only [Bool.and_eq_true, beq_iff_eq] at hx; simp only [hk.1, hk.2, hx.1, hx.2])]
  cases hf : lists.find? (fun l => l.pool == pool' && l.purchaser == holder') with
  | none => simp
  | some x =>
    have hx : x.pool = pool' ∧ x.purchaser = holder' := by
      have := List.find?_some hf; simpa using this
    by_cases hp : pool' = pool ∧ holder' = holder
    · have : x.pool = pool ∧ x.purchaser = holder := ⟨hx.1.trans hp.1, hx.2.trans hp.2⟩
      simp [hp, this.1, this.2]
    · have : ¬ (x.pool = pool ∧ x.purchaser = holder) := by rw [hx.1, hx.2]; exact hp
      simp only [if_neg hp, Option.map_some]
      congr 1
      have : (x.pool == pool && x.purchaser == holder) = false := by
        simpa using this
      simp [this]

/-- what `findPurchase` returns after the first entry with id `id` of the list of (pool, holder) has been rewritten
    by an id-preserving `f` (`secureCollaterals`, `restoreShield`) -/
theorem findPurchase_shift {s s' : State} {pool : Nat} {holder : Addr} {lst : PList} {id : Nat} {f : Purchase → Purchase}
    (hfl : findList s pool holder = some lst) (hf : ∀ a : Purchase, a.id = id → (f a).id = id)
    (hl : s'.lists = s.lists.map (fun x => if x.pool == pool && x.purchaser == holder then
      { pool := pool, purchaser := holder, entries := replaceFirst (·.id == id) f lst.entries } else x))
    (pool' : Nat) (holder' : Addr) (id' : Nat) :
    findPurchase s' pool' holder' id' =
      if pool' = pool ∧ holder' = holder ∧ id' = id then (findPurchase s pool holder id).map f
      else findPurchase s pool' holder' id' := by
  unfold findPurchase findList
  rw [hl, find?_lists_replace s.lists pool holder _ ⟨rfl, rfl⟩ pool' holder']
  by_cases hk : pool' = pool ∧ holder' = holder
  · rw [if_pos hk]
    obtain ⟨rfl, rfl⟩ := hk
    have hfl' : s.lists.find? (fun l => l.pool == pool' && l.purchaser == holder') = some lst := hfl
    rw [hfl']
    simp only [Option.map_some, true_and]
    by_cases hid : id' = id
    · subst hid
      rw [if_pos rfl]
      exact find?_replaceFirst_same _ f (fun a ha => by
        simp only [beq_iff_eq] at ha ⊢; exact hf a ha) lst.entries
    · rw [if_neg hid]
      exact find?_replaceFirst_other _ _ f
        (fun a ha => by simp only [beq_iff_eq] at ha; simp only [ha]; simpa using fun h => hid h.symm)
        (fun a ha => by simp only [beq_iff_eq] at ha; rw [hf a ha]; simpa using fun h => hid h.symm) lst.entries
  · rw [if_neg hk]
    have : ¬ (pool' = pool ∧ holder' = holder ∧ id' = id) := fun h => hk ⟨h.1, h.2.1⟩
    rw [if_neg this]

theorem lockedEntry_delTime (e : Env) (pu : Purchase) (loss dur : Int) :
    (lockedEntry e pu loss dur).delTime = max pu.delTime (e.t + dur) := by
  show (if pu.delTime < e.t + dur then e.t + dur else pu.delTime) = max pu.delTime (e.t + dur)
  rw [Int.max_def]
  split <;> split <;> omega

/-- `secureCollaterals` when the holder's list contains the purchase id: the exact post-state
    (`q` is the withdrawal queue after the delays) -/
theorem secureCollaterals_exact {e : Env} {s s' : State} {pool : Nat} {holder : Addr} {purchase : Nat} {loss dur : Int}
    (h : secureCollaterals e s pool holder purchase loss dur = .ok s')
    {lst : PList} (hl : findList s pool holder = some lst) {en : Purchase}
    (hen : lst.entries.find? (·.id == purchase) = some en) :
    ∃ p q, findPool s pool = some p ∧ loss ≤ en.shield ∧ loss ≤ p.shield ∧ s.totalClaimed + loss ≤ s.totalCollateral ∧
      s' = { s with
             withdraws := q,
             lists := s.lists.map (fun x => if x.pool == pool && x.purchaser == holder then
               { pool := pool, purchaser := holder,
                 entries := replaceFirst (·.id == purchase) (fun _ => lockedEntry e en loss dur) lst.entries } else x),
             pools := s.pools.map (fun x => if x.id == pool then { p with shield := p.shield - loss } else x),
             totalShield := s.totalShield - loss, totalClaimed := s.totalClaimed + loss } := by
  rcases secureCollaterals_ok h with ⟨p, lst0, pu, q, hfp, hlp, hcl, hfl0, htgt, hle, rfl⟩
  rw [hl] at hfl0; injection hfl0 with hfl0; subst hfl0
  rw [lockTarget_of_find hen] at htgt; injection htgt with htgt; subst htgt
  have hid : en.id = purchase := by have := List.find?_some hen; simpa using this
  have hpid : p.id = pool := findPool_id hfp
  have hkey := findList_key hl
  have hfl' : findList s lst.pool lst.purchaser = some lst := by rw [hkey.1, hkey.2]; exact hl
  refine ⟨p, q, hfp, hle, hlp, hcl, ?_⟩
  rw [setList_lists_some s { lst with entries := replaceFirst (·.id == en.id) (fun _ => lockedEntry e en loss dur) lst.entries } lst hfl']
  simp only [hkey.1, hkey.2, hid, hpid]

/-- `restoreShield` when pool, list and entry are still there: the exact post-state -/
theorem restoreShield_exact {s : State} {pool : Nat} {holder : Addr} {purchase : Nat} {loss : Int} {p : Pool} {lst : PList} {en : Purchase}
    (hfp : findPool s pool = some p) (hl : findList s pool holder = some lst)
    (hen : lst.entries.find? (·.id == purchase) = some en) :
    restoreShield s pool holder purchase loss =
      { s with
        totalShield := s.totalShield + loss,
        pools := s.pools.map (fun x => if x.id == pool then { p with shield := p.shield + loss } else x),
        lists := s.lists.map (fun x => if x.pool == pool && x.purchaser == holder then
          { pool := pool, purchaser := holder,
            entries := replaceFirst (·.id == purchase) (fun x => { x with shield := x.shield + loss }) lst.entries } else x) } := by
  rw [restoreShield_some hfp hl hen]
  have hpid : p.id = pool := findPool_id hfp
  have hkey := findList_key hl
  have hfl' : findList s lst.pool lst.purchaser = some lst := by rw [hkey.1, hkey.2]; exact hl
  rw [setList_lists_some s { lst with entries := replaceFirst (·.id == purchase) (fun x => { x with shield := x.shield + loss }) lst.entries } lst hfl']
  simp only [hkey.1, hkey.2, hpid]

theorem findPurchase_none_iff (s : State) (pool : Nat) (holder : Addr) (id : Nat) :
    findPurchase s pool holder id = none ↔
      findList s pool holder = none ∨ ∃ lst, findList s pool holder = some lst ∧ lst.entries.find? (·.id == id) = none := by
  unfold findPurchase
  cases findList s pool holder with
  | none => simp
  | some l => simp

theorem findPurchase_some_iff (s : State) (pool : Nat) (holder : Addr) (id : Nat) (en : Purchase) :
    findPurchase s pool holder id = some en ↔
      ∃ lst, findList s pool holder = some lst ∧ lst.entries.find? (·.id == id) = some en := by
  unfold findPurchase
  cases findList s pool holder with
  | none => simp
  | some l => simp

end Shentu.Shield.PoolLm
