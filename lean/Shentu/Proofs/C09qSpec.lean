import Shentu.Proofs.C09qStore
/-
  A specification function for `delayUnbonding` (Model/UbdQueue.lean) without the risky branches of the Go code (the wholesale
  removal of a one-pair slice without looking at it, the silent no-op when the pair is not found, the two panics), and the
  proof that under the queue invariant `Inv` the implementation model equals it.
-/
namespace Shentu.UbdQueue.Spec
open Shentu.UbdQueue Shentu.UbdQueue.Store

/-- the slice of `t` loses the LAST occurrence of the pair; a slice that becomes empty disappears -/
def dropPair (q : List Slice) (p : Pair) (t : Int) : List Slice :=
  let sl := eraseLastP (· == p) (getSlice q t)
  if sl.isEmpty then removeSlice q t else setSlice q t sl

/-- the first entry completing at `t` gets the time `delayed` and moves behind the directly following entries that complete before it -/
def moveFirst : List Entry → Int → Int → List Entry
  | [], _, _ => []
  | e :: es, t, delayed => if e.t == t then bubble { e with t := delayed } es else e :: moveFirst es t delayed

/-- the balance of the first entry completing at `t` (0 if none) -/
def firstBal : List Entry → Int → Int
  | [], _ => 0
  | e :: es, t => if e.t == t then e.bal else firstBal es t

/-- one candidate (validator, time) of the provider is postponed -/
def moveOne (s : State) (p : String) (delayed : Int) (c : String × Int) : State :=
  { ubds := setUbd s.ubds p c.1 (moveFirst (getEntries s.ubds p c.1) c.2 delayed),
    queue := insertUBDQueue (dropPair s.queue (p, c.1) c.2) (p, c.1) delayed }

/-- candidates are postponed one after the other, latest slice first, while something remains to be covered;
    none = the candidates do not cover the amount -/
def specLoop (p : String) (delayed : Int) : List (String × Int) → Int → State → Option State
  | [], remaining, s => if remaining > 0 then none else some s
  | c :: cs, remaining, s =>
    if remaining ≤ 0 then some s
    else specLoop p delayed cs (remaining - firstBal (getEntries s.ubds p c.1) c.2) (moveOne s p delayed c)

def delaySpec (s : State) (p : String) (amount delayed : Int) : Option State :=
  specLoop p delayed (maturingByTime s.queue p delayed).reverse amount s

/-! ## decidable equality of results (for the concrete examples) -/

instance : DecidableEq (Except String State) := fun a b =>
  match a, b with
  | .ok x, .ok y => if h : x = y then isTrue (by rw [h]) else isFalse (by intro e; cases e; exact h rfl)
  | .error x, .error y => if h : x = y then isTrue (by rw [h]) else isFalse (by intro e; cases e; exact h rfl)
  | .ok _, .error _ => isFalse (by intro e; cases e)
  | .error _, .ok _ => isFalse (by intro e; cases e)

/-! ## the invariant on concrete states: the empty state, `undelegate` -/

theorem inv_empty : Inv ({} : State) where
  times := List.Pairwise.nil
  keys := List.Pairwise.nil
  counts := by intro d v t; simp [queuedAt, entriesAt]

theorem undelegate_inv (s : State) (d v : String) (t bal : Int) (h : Inv s) : Inv (undelegate s d v t bal) where
  times := times_insertUBDQueue h.times _ _
  keys := keys_setUbd h.keys _ _ _
  counts := by
    intro d' v' t'
    have hc := h.counts d' v' t'
    unfold queuedAt entriesAt at hc ⊢
    unfold undelegate
    simp only [getSlice_insertUBDQueue, getEntries_setUbd]
    by_cases ht : t' = t
    · subst ht
      by_cases hp : d' = d ∧ v' = v
      · obtain ⟨h1, h2⟩ := hp
        subst h1; subst h2
        simp [List.count_append, List.countP_append, hc]
      · have hne : ¬ ((d, v) : Pair) = (d', v') := by
          intro e; simp only [Prod.mk.injEq] at e; exact hp ⟨e.1.symm, e.2.symm⟩
        have hne' : ((d, v) == (d', v')) = false := by simpa using hne
        simp only [hp, if_false, if_true, List.count_append, List.count_cons, List.count_nil, hne']
        simpa using hc
    · have ht' : ¬ t = t' := fun e => ht e.symm
      by_cases hp : d' = d ∧ v' = v
      · obtain ⟨h1, h2⟩ := hp
        subst h1; subst h2
        simp [ht, ht', List.countP_append, hc]
      · simp only [ht, hp, if_false]
        exact hc

/-- a small state satisfying the invariant: the provider "p" has two entries with validator "v" (times 10 and 30), one with
    "w" (time 10); another delegator "d" has one with "v" at time 10 -/
def exS : State :=
  undelegate (undelegate (undelegate (undelegate {} "p" "v" 10 5) "d" "v" 10 2) "p" "w" 10 7) "p" "v" 30 4

theorem exS_inv : Inv exS :=
  undelegate_inv _ _ _ _ _ (undelegate_inv _ _ _ _ _ (undelegate_inv _ _ _ _ _ (undelegate_inv _ _ _ _ _ inv_empty)))

/-! ## 1. cutting the last occurrence out of a slice -/

theorem eraseP_beq_eq_erase (pr : Pair) (l : List Pair) : l.eraseP (· == pr) = l.erase pr := by
  induction l with
  | nil => rfl
  | cons x xs ih =>
    by_cases h : x = pr
    · subst h; simp
    · have h' : (x == pr) = false := by simpa using h
      rw [List.eraseP_cons, List.erase_cons, ih]
      simp [h']

theorem count_eraseLastP (x pr : Pair) (l : List Pair) :
    (eraseLastP (· == pr) l).count x = l.count x - if x = pr then 1 else 0 := by
  unfold eraseLastP
  rw [eraseP_beq_eq_erase, List.count_reverse, List.count_erase, List.count_reverse]
  by_cases h : x = pr
  · subst h; simp
  · have h' : ¬ pr = x := fun e => h e.symm
    simp [h, h']

theorem length_eraseLastP (pr : Pair) (l : List Pair) (hm : pr ∈ l) :
    (eraseLastP (· == pr) l).length = l.length - 1 := by
  unfold eraseLastP
  rw [List.length_reverse, List.length_eraseP_of_mem (a := pr) (by simpa using hm) (by simp), List.length_reverse]

theorem unqueueLast_eq (q : List Slice) (p : Pair) (t : Int) (hm : p ∈ getSlice q t) : unqueueLast q p t = dropPair q p t := by
  have hlen := length_eraseLastP p _ hm
  have hany : (getSlice q t).any (· == p) = true := by
    rw [List.any_eq_true]; exact ⟨p, hm, by simp⟩
  unfold unqueueLast dropPair
  dsimp only
  by_cases hl : (getSlice q t).length > 1
  · have hne : (eraseLastP (· == p) (getSlice q t)).isEmpty = false := by
      cases he : eraseLastP (· == p) (getSlice q t) with
      | nil => rw [he] at hlen; simp at hlen; omega
      | cons a b => rfl
    simp only [hl, hany, if_true, hne, Bool.false_eq_true, if_false]
  · have he : (eraseLastP (· == p) (getSlice q t)).isEmpty = true := by
      cases he : eraseLastP (· == p) (getSlice q t) with
      | nil => rfl
      | cons a b => rw [he] at hlen; simp at hlen; omega
    simp only [hl, if_false, he, if_true]

example : ("p", "v") ∈ getSlice exS.queue 10 := by decide

/-- what a lookup returns after `dropPair` -/
theorem getSlice_dropPair (q : List Slice) (pr : Pair) (T t' : Int) :
    getSlice (dropPair q pr T) t' = if t' = T then eraseLastP (· == pr) (getSlice q T) else getSlice q t' := by
  unfold dropPair; dsimp only
  split
  · rename_i he
    have he' : eraseLastP (· == pr) (getSlice q T) = [] := by simpa using he
    rw [getSlice_removeSlice, he']
  · rw [getSlice_setSlice]

theorem times_dropPair {q : List Slice} (h : q.Pairwise (fun x y => x.1 < y.1)) (pr : Pair) (T : Int) :
    (dropPair q pr T).Pairwise (fun x y => x.1 < y.1) := by
  unfold dropPair; dsimp only; split
  · exact times_removeSlice h _
  · exact times_setSlice h _ _

/-- the queue after one `moveOne`, slice by slice: the slice of `T` names the pair once less, the slice of `D` once more -/
theorem slice_count (q : List Slice) (pr x : Pair) (T D t : Int) (hm : pr ∈ getSlice q T) :
    (getSlice (insertUBDQueue (dropPair q pr T) pr D) t).count x + (if x = pr ∧ t = T then 1 else 0)
      = (getSlice q t).count x + (if x = pr ∧ t = D then 1 else 0) := by
  have hpos : 0 < (getSlice q T).count pr := List.count_pos_iff.mpr hm
  rw [getSlice_insertUBDQueue, getSlice_dropPair, getSlice_dropPair]
  by_cases hx : x = pr
  · subst hx
    by_cases hD : t = D
    · subst hD
      by_cases hT : t = T
      · subst hT
        simp [List.count_append, count_eraseLastP]; omega
      · simp [hT, List.count_append]
    · by_cases hT : t = T
      · subst hT
        simp [hD, count_eraseLastP]; omega
      · simp [hD, hT]
  · have hx' : (pr == x) = false := by simpa using fun e => hx e.symm
    by_cases hD : t = D
    · subst hD
      by_cases hT : t = T
      · subst hT
        simp [hx, hx', List.count_append, count_eraseLastP, List.count_cons]
      · simp [hx, hx', hT, List.count_append, List.count_cons]
    · by_cases hT : t = T
      · subst hT
        simp [hx, hD, count_eraseLastP]
      · simp [hx, hD, hT]

/-! ## 2. one round of the loop -/

theorem retime_eq (es : List Entry) (t D : Int) (hex : ∃ e ∈ es, e.t = t) :
    retime es t D = some (moveFirst es t D, firstBal es t) := by
  induction es with
  | nil => simp at hex
  | cons e es ih =>
    unfold retime moveFirst firstBal
    by_cases he : e.t = t
    · simp [he]
    · have he' : (e.t == t) = false := by simpa using he
      have hex' : ∃ e ∈ es, e.t = t := by
        obtain ⟨e', hm, ht⟩ := hex
        rcases List.mem_cons.mp hm with h | h
        · subst h; exact absurd ht he
        · exact ⟨e', h, ht⟩
      simp only [he', Bool.false_eq_true, if_false, ih hex']

/-- under the invariant a queued pair has an entry completing at the slice's time -/
theorem entry_of_queued (s : State) (d v : String) (t : Int) (h : Inv s) (hm : (d, v) ∈ getSlice s.queue t) :
    ∃ e ∈ getEntries s.ubds d v, e.t = t := by
  have hc := h.counts d v t
  unfold queuedAt entriesAt at hc
  have hpos : 0 < (getSlice s.queue t).count (d, v) := List.count_pos_iff.mpr hm
  rw [hc, List.countP_pos_iff] at hpos
  obtain ⟨e, he, ht⟩ := hpos
  exact ⟨e, he, by simpa using ht⟩

theorem delayStep_eq (s : State) (p : String) (D : Int) (c : String × Int) (h : Inv s) (hm : (p, c.1) ∈ getSlice s.queue c.2) :
    delayStep s p D c = .ok (moveOne s p D c, firstBal (getEntries s.ubds p c.1) c.2) := by
  have hex := entry_of_queued s p c.1 c.2 h hm
  have hne : (getEntries s.ubds p c.1).isEmpty = false := by
    obtain ⟨e, he, _⟩ := hex
    cases hh : getEntries s.ubds p c.1 with
    | nil => rw [hh] at he; simp at he
    | cons a b => rfl
  unfold delayStep
  dsimp only
  rw [unqueueLast_eq _ _ _ hm, retime_eq _ _ _ hex]
  simp only [hne, Bool.false_eq_true, if_false]
  rfl

example : Inv exS ∧ ("p", ("v", (10 : Int)).1) ∈ getSlice exS.queue ("v", (10 : Int)).2 := ⟨exS_inv, by decide⟩

/-! ## 3. one round keeps the invariant -/

theorem countP_bubble (f : Entry → Bool) (x : Entry) (es : List Entry) :
    (bubble x es).countP f = es.countP f + if f x then 1 else 0 := by
  induction es with
  | nil => simp [bubble, List.countP_cons]
  | cons e es ih =>
    unfold bubble
    split
    · rw [List.countP_cons, ih, List.countP_cons]; omega
    · rw [List.countP_cons]

/-- the entries after `moveFirst`, time by time: one entry less at `T`, one more at `D` -/
theorem entries_count (es : List Entry) (T D t : Int) (hex : ∃ e ∈ es, e.t = T) :
    (moveFirst es T D).countP (fun e => e.t == t) + (if t = T then 1 else 0)
      = es.countP (fun e => e.t == t) + (if t = D then 1 else 0) := by
  induction es with
  | nil => simp at hex
  | cons e es ih =>
    unfold moveFirst
    by_cases he : e.t = T
    · have he' : (e.t == T) = true := by simpa using he
      simp only [he', if_true, countP_bubble, List.countP_cons]
      subst he
      by_cases h1 : D = t
      · subst h1
        by_cases h2 : e.t = D
        · simp [h2]
        · have : ¬ D = e.t := fun e => h2 e.symm
          simp [h2, this]
      · have h1' : ¬ t = D := fun e => h1 e.symm
        by_cases h2 : e.t = t
        · subst h2; simp [h1, h1']
        · have : ¬ t = e.t := fun e => h2 e.symm
          simp [h1, h1', h2, this]
    · have he' : (e.t == T) = false := by simpa using he
      have hex' : ∃ e ∈ es, e.t = T := by
        obtain ⟨e', hm, ht⟩ := hex
        rcases List.mem_cons.mp hm with h | h
        · subst h; exact absurd ht he
        · exact ⟨e', h, ht⟩
      have := ih hex'
      simp only [he', Bool.false_eq_true, if_false, List.countP_cons]
      omega

theorem moveOne_inv (s : State) (p : String) (D : Int) (c : String × Int) (h : Inv s) (hm : (p, c.1) ∈ getSlice s.queue c.2) :
    Inv (moveOne s p D c) where
  times := times_insertUBDQueue (times_dropPair h.times _ _) _ _
  keys := keys_setUbd h.keys _ _ _
  counts := by
    intro d v t
    have hc := h.counts d v t
    have hs := slice_count s.queue (p, c.1) (d, v) c.2 D t hm
    have he := entries_count _ c.2 D t (entry_of_queued s p c.1 c.2 h hm)
    unfold queuedAt entriesAt at hc ⊢
    unfold moveOne
    simp only [getEntries_setUbd]
    by_cases hp : d = p ∧ v = c.1
    · obtain ⟨h1, h2⟩ := hp
      subst h1; subst h2
      simp only [true_and, and_self, if_true] at hs ⊢
      omega
    · have hp' : ¬ ((d, v) : Pair) = (p, c.1) := by
        intro e; simp only [Prod.mk.injEq] at e; exact hp e
      simp only [hp', false_and, if_false, Nat.add_zero] at hs
      simp only [hp, if_false]
      omega

/-- the hypotheses hold of the example state with the candidate ("w", 10), and the step moves the entry to 20 -/
example : Inv exS ∧ ("p", ("w", (10 : Int)).1) ∈ getSlice exS.queue ("w", (10 : Int)).2
    ∧ getEntries (moveOne exS "p" 20 ("w", 10)).ubds "p" "w" = [⟨20, 7⟩] := ⟨exS_inv, by decide, by decide⟩

/-! ## 4. the implementation is the specification -/

theorem getSlice_eq_nil (q : List Slice) (T : Int) (h : ∀ x ∈ q, x.1 ≠ T) : getSlice q T = [] := by
  induction q with
  | nil => rfl
  | cons x xs ih =>
    rw [getSlice_cons, if_neg (h x (by simp))]
    exact ih (fun y hy => h y (by simp [hy]))

theorem count_slice_candidates (ps : List Pair) (p v : String) (t T : Int) :
    ((ps.filter (fun pr => pr.1 == p)).map (fun pr => (pr.2, t))).count (v, T) = if t = T then ps.count (p, v) else 0 := by
  induction ps with
  | nil => simp
  | cons pr ps ih =>
    obtain ⟨a, b⟩ := pr
    by_cases ha : a = p
    · subst ha
      rw [List.filter_cons_of_pos (by simp), List.map_cons, List.count_cons, List.count_cons, ih]
      by_cases ht : t = T
      · subst ht
        by_cases hb : b = v
        · subst hb; simp
        · simp [hb]
      · simp [ht]
    · rw [List.filter_cons_of_neg (by simpa using ha), ih, List.count_cons]
      simp [ha]

theorem maturing_cons (x : Slice) (xs : List Slice) (p : String) (D : Int) :
    maturingByTime (x :: xs) p D
      = if x.1 ≤ D then (x.2.filter (fun pr => pr.1 == p)).map (fun pr => (pr.2, x.1)) ++ maturingByTime xs p D
        else maturingByTime xs p D := by
  unfold maturingByTime
  by_cases h : x.1 ≤ D
  · rw [List.filter_cons_of_pos (by simpa using h), List.flatMap_cons, if_pos h]
  · rw [List.filter_cons_of_neg (by simpa using h), if_neg h]

/-- a candidate of the provider stands in the list at most as often as the pair is queued in that slice -/
theorem maturing_count_le (q : List Slice) (p v : String) (D T : Int) (hq : q.Pairwise (fun x y => x.1 < y.1)) :
    (maturingByTime q p D).count (v, T) ≤ (getSlice q T).count (p, v) := by
  induction q with
  | nil => simp [maturingByTime]
  | cons x xs ih =>
    rw [List.pairwise_cons] at hq
    have ih' := ih hq.2
    rw [maturing_cons, getSlice_cons]
    by_cases hT : x.1 = T
    · have hnil : getSlice xs T = [] :=
        getSlice_eq_nil xs T (fun y hy => by have := hq.1 y hy; omega)
      rw [hnil] at ih'
      simp only [List.count_nil, Nat.le_zero_eq] at ih'
      rw [if_pos hT]
      split
      · rw [List.count_append, count_slice_candidates, if_pos hT, ih']; omega
      · rw [ih']; omega
    · rw [if_neg hT]
      split
      · rw [List.count_append, count_slice_candidates, if_neg hT]; omega
      · exact ih'

theorem delayLoop_eq_spec (p : String) (D : Int) : ∀ (cs : List (String × Int)) (a : Int) (s : State), Inv s →
    (∀ v T, cs.count (v, T) ≤ (getSlice s.queue T).count (p, v)) →
    delayLoop p D cs a s = match specLoop p D cs a s with
      | some s' => .ok s'
      | none => .error "failed to delay enough unbondings" := by
  intro cs
  induction cs with
  | nil =>
    intro a s _ _
    unfold delayLoop specLoop
    split <;> rfl
  | cons c cs ih =>
    intro a s h hc
    unfold delayLoop specLoop
    by_cases hr : a ≤ 0
    · simp only [hr, if_true]
    · have hm : (p, c.1) ∈ getSlice s.queue c.2 := by
        have := hc c.1 c.2
        rw [List.count_cons_self] at this
        exact List.count_pos_iff.mp (by omega)
      simp only [hr, if_false, delayStep_eq s p D c h hm]
      apply ih _ _ (moveOne_inv s p D c h hm)
      intro v T
      have hs := slice_count s.queue (p, c.1) (p, v) c.2 D T hm
      have hcv := hc v T
      have hq : (moveOne s p D c).queue = insertUBDQueue (dropPair s.queue (p, c.1) c.2) (p, c.1) D := rfl
      rw [hq]
      rw [List.count_cons] at hcv
      by_cases hv : v = c.1 ∧ T = c.2
      · obtain ⟨h1, h2⟩ := hv
        subst h1; subst h2
        simp only [true_and, and_self, if_true, beq_self_eq_true] at hs hcv
        omega
      · have hne : ((c.1, c.2) == (v, T)) = false := by
          simp only [beq_eq_false_iff_ne, ne_eq, Prod.mk.injEq]
          intro e; exact hv ⟨e.1.symm, e.2.symm⟩
        have hne' : (c == (v, T)) = false := hne
        have hv' : ¬ (((p, v) : Pair) = (p, c.1) ∧ T = c.2) := by
          intro e; simp only [Prod.mk.injEq, true_and] at e; exact hv e
        simp only [hne', Bool.false_eq_true, if_false, Nat.add_zero] at hcv
        simp only [hv', if_false, Nat.add_zero] at hs
        omega

/-- under the invariant the implementation is the specification: it succeeds with the same state, or both fail (the
    implementation then with the panic "failed to delay enough unbondings") -/
theorem delayUnbonding_eq_spec (s : State) (p : String) (a D : Int) (h : Inv s) :
    delayUnbonding s p a D = match delaySpec s p a D with
      | some s' => .ok s'
      | none => .error "failed to delay enough unbondings" := by
  unfold delayUnbonding delaySpec
  apply delayLoop_eq_spec p D _ a s h
  intro v T
  rw [List.count_reverse]
  exact maturing_count_le s.queue p v D T h.times

/-- the hypothesis holds of the example state, and there both sides do something: the entry of ("p","w") at 10 is postponed -/
example : Inv exS ∧ delayUnbonding exS "p" 6 20 ≠ .ok exS ∧ (delayUnbonding exS "p" 6 20).isOk = true :=
  ⟨exS_inv, by decide, by decide⟩

/-! ## 5. without the invariant they differ -/

/-- a stale pair of the provider (queued, no unbonding delegation at all) -/
def staleA : State := { ubds := [], queue := [(10, [("p", "v")])] }

/-- a stale pair of the provider (queued at 10, the only entry of the pair completes at 30) -/
def staleB : State := { ubds := [⟨"p", "v", [⟨30, 5⟩]⟩], queue := [(10, [("p", "v")]), (30, [("p", "v")])] }

/-- a stale pair of the provider in the latest slice, and a healthy pair in an earlier slice that covers the amount -/
def staleC : State := { ubds := [⟨"p", "w", [⟨5, 5⟩]⟩], queue := [(5, [("p", "w")]), (10, [("p", "v")])] }

/-- without the invariant they differ: the implementation panics with another message than the one of the theorem (the
    specification finds nothing to postpone for the stale pair and reports that the amount is not covered) -/
example : delayUnbonding staleA "p" 5 20 = .error "unbonding list was not found for the given provider-validator pair"
    ∧ delaySpec staleA "p" 5 20 = none := by decide

/-- without the invariant they differ: the other panic -/
example : delayUnbonding staleB "p" 5 20 = .error "particular unbonding entry not found for the given timestamp"
    ∧ delaySpec staleB "p" 5 20 = none := by decide

/-- without the invariant they differ: the implementation panics where the specification succeeds (it goes on to the
    healthy pair of the earlier slice) -/
example : delayUnbonding staleC "p" 5 20 = .error "unbonding list was not found for the given provider-validator pair"
    ∧ (delaySpec staleC "p" 5 20).isSome = true := by decide

/-! ## 6. sortedness -/

theorem mem_bubble {x y : Entry} {es : List Entry} : y ∈ bubble x es ↔ y = x ∨ y ∈ es := by
  induction es with
  | nil => simp [bubble]
  | cons e es ih =>
    unfold bubble; split
    · simp [ih]; constructor <;> (intro h; rcases h with h | h | h <;> simp [h])
    · simp

theorem bubble_sorted (x : Entry) (es : List Entry) (hs : es.Pairwise (fun a b => a.t ≤ b.t)) :
    (bubble x es).Pairwise (fun a b => a.t ≤ b.t) := by
  induction es with
  | nil => simp [bubble]
  | cons e es ih =>
    rw [List.pairwise_cons] at hs
    unfold bubble; split
    · rename_i hlt
      rw [List.pairwise_cons]
      refine ⟨?_, ih hs.2⟩
      intro y hy
      rcases mem_bubble.mp hy with h | h
      · subst h; omega
      · exact hs.1 y h
    · rename_i hge
      rw [List.pairwise_cons]
      refine ⟨?_, List.pairwise_cons.mpr hs⟩
      intro y hy
      rcases List.mem_cons.mp hy with h | h
      · subst h; omega
      · have := hs.1 y h; omega

theorem mem_moveFirst {y : Entry} {es : List Entry} {t D : Int} (hy : y ∈ moveFirst es t D) :
    y ∈ es ∨ (y.t = D ∧ ∃ e ∈ es, e.t = t) := by
  induction es with
  | nil => simp [moveFirst] at hy
  | cons e es ih =>
    unfold moveFirst at hy
    by_cases he : e.t = t
    · have he' : (e.t == t) = true := by simpa using he
      simp only [he', if_true] at hy
      rcases mem_bubble.mp hy with h | h
      · right; subst h; exact ⟨rfl, e, by simp, he⟩
      · left; simp [h]
    · have he' : (e.t == t) = false := by simpa using he
      simp only [he', Bool.false_eq_true, if_false] at hy
      rcases List.mem_cons.mp hy with h | h
      · left; simp [h]
      · rcases ih h with h' | ⟨h1, e', h2, h3⟩
        · left; simp [h']
        · right; exact ⟨h1, e', by simp [h2], h3⟩

/-- sortedness (entries of a pair in non-decreasing time order) is kept by moveFirst -/
theorem moveFirst_sorted (es : List Entry) (t D : Int) (hs : es.Pairwise (fun a b => a.t ≤ b.t)) (hle : t ≤ D) :
    (moveFirst es t D).Pairwise (fun a b => a.t ≤ b.t) := by
  induction es with
  | nil => simp [moveFirst]
  | cons e es ih =>
    rw [List.pairwise_cons] at hs
    unfold moveFirst
    split
    · exact bubble_sorted _ es hs.2
    · rw [List.pairwise_cons]
      refine ⟨?_, ih hs.2⟩
      intro y hy
      rcases mem_moveFirst hy with h | ⟨h1, e', h2, h3⟩
      · exact hs.1 y h
      · have := hs.1 e' h2; omega

example : ([⟨10, 1⟩, ⟨10, 2⟩, ⟨15, 3⟩, ⟨30, 4⟩] : List Entry).Pairwise (fun a b => a.t ≤ b.t) ∧ (10 : Int) ≤ 20
    ∧ moveFirst [⟨10, 1⟩, ⟨10, 2⟩, ⟨15, 3⟩, ⟨30, 4⟩] 10 20 = [⟨10, 2⟩, ⟨15, 3⟩, ⟨20, 1⟩, ⟨30, 4⟩] := by decide

/-- `undelegate` with an earlier completion time than an existing entry breaks sortedness (the SDK appends) -/
example : getEntries (undelegate (undelegate {} "p" "v" 100 1) "p" "v" 50 1).ubds "p" "v" = [⟨100, 1⟩, ⟨50, 1⟩]
    ∧ ¬ (getEntries (undelegate (undelegate {} "p" "v" 100 1) "p" "v" 50 1).ubds "p" "v").Pairwise (fun a b => a.t ≤ b.t) := by
  decide

end Shentu.UbdQueue.Spec
