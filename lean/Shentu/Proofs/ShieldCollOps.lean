import Shentu.Proofs.ShieldCollFrame
/-
  The operations of x/shield that touch the collateral books: characterisation lemmas and what they
  do to `CollRest` / `CollInv`, the per-provider collateral `collOf`, and the queue.
-/
set_option linter.unusedSimpArgs false
set_option linter.unusedVariables false
namespace Shentu.Shield.Coll
open List

/-! ## coins of a deposit / withdrawal message -/

theorem mem_insertSorted {d x : Denom} {l : List Denom} (h : x ∈ Coins.insertSorted d l) : x = d ∨ x ∈ l := by
  induction l with
  | nil => simp [Coins.insertSorted] at h; exact Or.inl h
  | cons y ys ih =>
    unfold Coins.insertSorted at h
    split at h
    · rcases List.mem_cons.mp h with h | h
      · exact Or.inl h
      · exact Or.inr h
    · split at h
      · exact Or.inr h
      · rcases List.mem_cons.mp h with h | h
        · exact Or.inr (h ▸ List.mem_cons_self)
        · rcases ih h with h | h
          · exact Or.inl h
          · exact Or.inr (List.mem_cons_of_mem _ h)

theorem mem_sortDenoms {x : Denom} {l : List Denom} (h : x ∈ Coins.sortDenoms l) : x ∈ l := by
  induction l with
  | nil => simp [Coins.sortDenoms] at h
  | cons y ys ih =>
    have : Coins.sortDenoms (y :: ys) = Coins.insertSorted y (Coins.sortDenoms ys) := rfl
    rw [this] at h
    rcases mem_insertSorted h with h | h
    · exact h ▸ List.mem_cons_self
    · exact List.mem_cons_of_mem _ (ih h)

/-- the amount of a message whose coins passed `IsAllPositive` and name only the bond denomination -/
theorem msg_amount_pos (coins : Coins) (bond : Denom) (h1 : (!Coins.isAllPositive coins) = false)
    (h2 : ((Coins.denoms coins).any (· != bond)) = false) : 0 < Coins.amountOf coins bond := by
  simp only [Bool.not_eq_false'] at h1
  unfold Coins.isAllPositive at h1
  simp only [Bool.and_eq_true, Bool.not_eq_true', List.all_eq_true, decide_eq_true_eq] at h1
  obtain ⟨hne, hall⟩ := h1
  have : ∃ d, d ∈ Coins.denoms coins := by
    cases hc : Coins.canon coins with
    | nil => rw [hc] at hne; simp at hne
    | cons x xs =>
      have hx : x ∈ Coins.canon coins := by rw [hc]; exact List.mem_cons_self
      unfold Coins.canon at hx
      obtain ⟨d, hd, _⟩ := List.mem_filterMap.mp hx
      exact ⟨d, mem_sortDenoms hd⟩
  obtain ⟨d, hd⟩ := this
  have hdb : d = bond := by
    have := List.any_eq_false.mp h2 d hd
    simpa using this
  subst hdb
  exact hall d hd

/-! ## `collOf` / `wdgOf` under a single-provider update -/

theorem collOf_of_providers {s s' : State} (h : s'.providers = s.providers) (a : Addr) : collOf s' a = collOf s a := by
  unfold collOf findProvider; rw [h]

theorem collOf_update {s s' : State} {a : Addr} {p p' : Provider} (hf : findProvider s a = some p) (ha : p'.addr = a)
    (hprov : s'.providers = updP p' s.providers) (b : Addr) :
    collOf s' b = if b = a then p'.collateral else collOf s b := by
  unfold collOf findProvider
  rw [hprov, find_updP, ha]
  by_cases hb : b = a
  · subst hb
    unfold findProvider at hf
    simp [hf]
  · simp [hb]

theorem wdgOf_update {s s' : State} {a : Addr} {p p' : Provider} (hf : findProvider s a = some p) (ha : p'.addr = a)
    (hprov : s'.providers = updP p' s.providers) (b : Addr) :
    wdgOf s' b = if b = a then p'.withdrawing else wdgOf s b := by
  unfold wdgOf findProvider
  rw [hprov, find_updP, ha]
  by_cases hb : b = a
  · subst hb
    unfold findProvider at hf
    simp [hf]
  · simp [hb]

theorem collOf_found {s : State} {a : Addr} {p : Provider} (hf : findProvider s a = some p) : collOf s a = p.collateral := by
  unfold collOf; rw [hf]

theorem wdgOf_found {s : State} {a : Addr} {p : Provider} (hf : findProvider s a = some p) : wdgOf s a = p.withdrawing := by
  unfold wdgOf; rw [hf]

theorem mem_eq_of_addr {l : List Provider} (hn : (l.map (·.addr)).Nodup) {x p : Provider} (hx : x ∈ l) (hp : p ∈ l)
    (h : x.addr = p.addr) : x = p := by
  have h1 := find_of_mem_nodup l hn x hx
  have h2 := find_of_mem_nodup l hn p hp
  rw [h] at h1; rw [h1] at h2; exact Option.some.inj h2

theorem updP_view {l : List Provider} (hn : (l.map (·.addr)).Nodup) {p p' : Provider} (hp : p ∈ l) (ha : p'.addr = p.addr)
    (hv : pview p' = pview p) : (updP p' l).map pview = l.map pview := by
  unfold updP
  rw [List.map_map]
  apply List.map_congr_left
  intro x hx
  simp only [Function.comp]
  split
  · rename_i he
    simp only [beq_iff_eq] at he
    rw [mem_eq_of_addr hn hx hp (by rw [he, ha]), hv]
  · rfl

/-! ## `MsgWithdrawRewards`, the fee distribution -/

theorem withdrawRewards_frame (e : Env) (l l' : Ledger) (s s' : State) (a : Addr) (hn : (s.providers.map (·.addr)).Nodup)
    (h : withdrawRewards e l s a = .ok (l', s')) : Frame s s' := by
  unfold withdrawRewards at h
  dsimp only at h
  coll_split_ok h
  rename_i p hf
  coll_split_ok h
  · injection h with h; injection h with _ h; subst h; exact Frame.refl s
  · coll_split_ok h
    injection h with h; injection h with _ h; subst h
    have hp := findProvider_some hf
    refine ⟨⟨?_, rfl, rfl, rfl⟩, rfl⟩
    exact updP_view hn hp.1 rfl rfl

theorem distributeLoop_view (total : Int) (fees : Dec) (ps : List Provider) (rem : Dec) :
    (distributeLoop total fees ps rem).1.map pview = ps.map pview := by
  induction ps generalizing rem with
  | nil => rfl
  | cons p ps ih =>
    unfold distributeLoop
    simp only [List.map_cons, ih]
    rfl

theorem expireLoop_frame (now : Int) (pairs : List (Nat × Addr)) (acc acc' : ExpAcc)
    (h : expireLoop now pairs acc = .ok acc') : Frame acc.s acc'.s := by
  induction pairs generalizing acc with
  | nil => unfold expireLoop at h; injection h with h; subst h; exact Frame.refl _
  | cons x xs ih =>
    obtain ⟨pool, a⟩ := x
    unfold expireLoop at h
    dsimp only at h
    split at h
    · exact ih _ h
    · split at h
      · cases h
      · rename_i s1 hs1
        have h1 : Frame acc.s s1 := by
          split at hs1
          · split at hs1
            · cases hs1
            · injection hs1 with hs1; subst hs1; exact Frame.mk' rfl rfl rfl rfl rfl
          · injection hs1 with hs1; subst hs1; exact Frame.refl _
        have h2 := ih _ h
        refine h1.trans (Frame.trans ?_ h2)
        dsimp only
        split
        · exact Frame.mk' rfl rfl rfl rfl rfl
        · apply Frame.mk' <;> simp

theorem expireAndDistribute_frame (e : Env) (s s' : State) (h : expireAndDistribute e s = .ok s') : Frame s s' := by
  unfold expireAndDistribute at h
  dsimp only at h
  coll_split_ok h
  · injection h with h; subst h; exact Frame.refl s
  · coll_split_ok h
    rename_i acc hacc
    have h1 := expireLoop_frame _ _ _ _ hacc
    dsimp only at h1
    repeat' (coll_split_ok h)
    all_goals (
      injection h with h; subst h
      refine h1.trans ?_
      refine ⟨⟨?_, rfl, rfl, rfl⟩, rfl⟩
      first
      | exact distributeLoop_view _ _ _ _
      | rfl)

/-! ## `WithdrawCollateral` -/

/-- the state after a successful non-zero request -/
def requested (e : Env) (s : State) (a : Addr) (amount : Int) (p : Provider) : State :=
  { setProvider { s with withdraws := insertWithdraw { addr := a, amount := amount, time := e.t + s.params.withdrawPeriod } s.withdraws }
      { p with withdrawing := p.withdrawing + amount } with totalWithdrawing := s.totalWithdrawing + amount }

theorem withdrawCollateral_spec (e : Env) (s s' : State) (a : Addr) (amount : Int)
    (h : withdrawCollateral e s a amount = .ok s') :
    (amount = 0 ∧ s' = s) ∨
    (amount ≠ 0 ∧ ∃ p, findProvider s a = some p ∧ amount ≤ p.collateral - p.withdrawing ∧ s' = requested e s a amount p) := by
  unfold withdrawCollateral at h
  split at h
  · rename_i h0; injection h with h; left; exact ⟨by simpa using h0, h.symm⟩
  · rename_i h0
    split at h
    · cases h
    · rename_i p hf
      split at h
      · cases h
      · rename_i hle
        injection h with h
        right
        refine ⟨by simpa using h0, p, hf, by omega, h.symm⟩

theorem withdrawCollateral_ok_iff (e : Env) (s : State) (a : Addr) (amount : Int) (h0 : amount ≠ 0) :
    (∃ s', withdrawCollateral e s a amount = .ok s') ↔
      ∃ p, findProvider s a = some p ∧ amount ≤ p.collateral - p.withdrawing := by
  constructor
  · intro ⟨s', h⟩
    rcases withdrawCollateral_spec e s s' a amount h with ⟨h1, _⟩ | ⟨_, p, hf, hle, _⟩
    · exact absurd h1 h0
    · exact ⟨p, hf, hle⟩
  · intro ⟨p, hf, hle⟩
    unfold withdrawCollateral
    have h1 : (amount == 0) = false := by simpa using h0
    simp only [h1, hf]
    have h2 : ¬ amount > p.collateral - p.withdrawing := by omega
    simp [h2]

theorem requested_rest {e : Env} {s : State} {a : Addr} {amount : Int} {p : Provider} (h : CollRest s)
    (hf : findProvider s a = some p) (hpos : 0 < amount) (hle : amount ≤ p.collateral - p.withdrawing) :
    CollRest (requested e s a amount p) := by
  have hpa := (findProvider_some hf).2
  have hnn := h.provNonneg p (findProvider_some hf).1
  apply h.update hf (p' := { p with withdrawing := p.withdrawing + amount }) hpa
  · rfl
  · show s.totalWithdrawing + amount = _; simp only; omega
  · show p.withdrawing + amount = wsum _ (insertWithdraw _ _)
    rw [wsum_insertWithdraw]; simp only [beq_self_eq_true, if_true]
    have := h.wdg_eq hf; unfold qsum at this; omega
  · intro b hb
    show wsum _ (insertWithdraw _ _) = _
    rw [wsum_insertWithdraw]
    have : (a == b) = false := by simpa using fun h => hb h.symm
    simp only [this]; unfold qsum; simp
  · intro w hw
    rcases mem_insertWithdraw.mp hw with hw | hw
    · right; rw [hw]
    · left; exact hw
  · intro w hw
    rcases mem_insertWithdraw.mp hw with hw | hw
    · rw [hw]; exact hpos
    · exact h.wdrPos w hw
  · simp only; omega

theorem requested_sumColl {e : Env} {s : State} {a : Addr} {amount : Int} {p : Provider}
    (hn : (s.providers.map (·.addr)).Nodup) (hf : findProvider s a = some p) :
    sumI (·.collateral) (requested e s a amount p).providers = sumI (·.collateral) s.providers := by
  have := sumColl_update hn hf (p' := { p with withdrawing := p.withdrawing + amount }) (findProvider_some hf).2
  show sumI _ (updP _ _) = _
  rw [this]; simp only; omega

theorem requested_collOf {e : Env} {s : State} {a : Addr} {amount : Int} {p : Provider}
    (hf : findProvider s a = some p) (b : Addr) : collOf (requested e s a amount p) b = collOf s b := by
  rw [collOf_update hf (p' := { p with withdrawing := p.withdrawing + amount }) (findProvider_some hf).2 rfl]
  split
  · rename_i hb; subst hb; rw [collOf_found hf]
  · rfl

/-- what every operation of the request / hook family guarantees -/
structure ReqLike (s s' : State) : Prop where
  rest : CollRest s → CollRest s'
  sumColl : (s.providers.map (·.addr)).Nodup → sumI (·.collateral) s'.providers = sumI (·.collateral) s.providers
  tc : s'.totalCollateral = s.totalCollateral
  collOf : ∀ b, collOf s' b = collOf s b
  params : s'.params = s.params

theorem ReqLike.refl (s : State) : ReqLike s s := ⟨id, fun _ => rfl, rfl, fun _ => rfl, rfl⟩

theorem ReqLike.inv {s s' : State} (h : ReqLike s s') (hi : CollInv s) : CollInv s' := by
  rw [collInv_iff] at hi ⊢
  exact ⟨by rw [h.tc, h.sumColl hi.2.nodup]; exact hi.1, h.rest hi.2⟩

theorem Frame.reqLike {s s' : State} (h : Frame s s') : ReqLike s s' :=
  ⟨h.same.rest, fun _ => h.same.sumColl, h.same.tc, h.same.collOf, h.params⟩

theorem withdrawCollateral_reqLike (e : Env) (s s' : State) (a : Addr) (amount : Int) (hpos : 0 ≤ amount)
    (h : withdrawCollateral e s a amount = .ok s') : ReqLike s s' := by
  rcases withdrawCollateral_spec e s s' a amount h with ⟨_, h1⟩ | ⟨h0, p, hf, hle, h1⟩
  · rw [h1]; exact ReqLike.refl s
  · subst h1
    exact ⟨fun hr => requested_rest hr hf (by omega) hle, fun hn => requested_sumColl hn hf, rfl,
      requested_collOf hf, rfl⟩

/-- `MsgWithdrawCollateral` -/
theorem withdraw_spec (e : Env) (s s' : State) (a : Addr) (coins : Coins) (h : withdraw e s a coins = .ok s') :
    0 < Coins.amountOf coins e.bond ∧ withdrawCollateral e s a (Coins.amountOf coins e.bond) = .ok s' := by
  unfold withdraw at h
  split at h
  · cases h
  · rename_i h1
    split at h
    · cases h
    · rename_i h2
      exact ⟨msg_amount_pos coins e.bond (by simpa using h1) (by simpa using h2), h⟩

theorem withdraw_reqLike (e : Env) (s s' : State) (a : Addr) (coins : Coins) (h : withdraw e s a coins = .ok s') :
    ReqLike s s' := by
  obtain ⟨hp, h⟩ := withdraw_spec e s s' a coins h
  exact withdrawCollateral_reqLike e s s' a _ (by omega) h

/-! ## the staking hooks -/

/-- the provider's record after the hook has stored the recomputed stake -/
def rebonded (s : State) (p : Provider) (staked : Int) : State := setProvider s { p with bonded := staked }

theorem rebonded_reqLike {s : State} {a : Addr} {p : Provider} (hf : findProvider s a = some p) (staked : Int) :
    ReqLike s (rebonded s p staked) := by
  have hpa := (findProvider_some hf).2
  refine ⟨?_, ?_, rfl, ?_, rfl⟩
  · intro h
    have hnn := h.provNonneg p (findProvider_some hf).1
    apply h.update hf (p' := { p with bonded := staked }) hpa
    · rfl
    · show s.totalWithdrawing = _; simp only; omega
    · exact (h.wdg_eq hf : p.withdrawing = qsum s a)
    · intro b _; rfl
    · intro w hw; left; exact hw
    · exact h.wdrPos
    · exact hnn
  · intro hn
    have := sumColl_update hn hf (p' := { p with bonded := staked }) hpa
    show sumI _ (updP _ _) = _
    rw [this]; simp only; omega
  · intro b
    rw [collOf_update hf (p' := { p with bonded := staked }) hpa rfl]
    split
    · rename_i hb; subst hb; rw [collOf_found hf]
    · rfl

theorem findProvider_rebonded {s : State} {a : Addr} {p : Provider} (hf : findProvider s a = some p) (staked : Int) :
    findProvider (rebonded s p staked) a = some { p with bonded := staked } := by
  unfold rebonded
  rw [findProvider_setProvider]
  simp [(findProvider_some hf).2, hf]

theorem stakingHook_spec (e : Env) (s s' : State) (a : Addr) (staked : Int) (h : stakingHook e s a staked = .ok s') :
    (findProvider s a = none ∧ s' = s) ∨
    (∃ p, findProvider s a = some p ∧
      ((p.collateral - p.withdrawing - staked ≤ 0 ∧ s' = rebonded s p staked) ∨
       (0 < p.collateral - p.withdrawing - staked ∧ 0 ≤ staked ∧
         s' = requested e (rebonded s p staked) a (p.collateral - p.withdrawing - staked) { p with bonded := staked }))) := by
  unfold stakingHook at h
  split at h
  · rename_i hf; injection h with h; left; exact ⟨hf, h.symm⟩
  · rename_i p hf
    right
    refine ⟨p, hf, ?_⟩
    dsimp only at h
    split at h
    · rename_i hw
      split at h
      · rename_i s2 hs2
        injection h with h; subst h
        right
        refine ⟨by omega, ?_⟩
        rcases withdrawCollateral_spec _ _ _ _ _ hs2 with ⟨h0, _⟩ | ⟨_, p2, hf2, hle2, h2⟩
        · omega
        · have := findProvider_rebonded hf staked
          unfold rebonded at this
          rw [this] at hf2
          injection hf2 with hf2; subst hf2
          simp only at hle2
          exact ⟨by omega, h2⟩
      · cases h
    · rename_i hw
      injection h with h
      left; exact ⟨by omega, h.symm⟩

theorem stakingHook_reqLike (e : Env) (s s' : State) (a : Addr) (staked : Int) (h : stakingHook e s a staked = .ok s') :
    ReqLike s s' := by
  rcases stakingHook_spec e s s' a staked h with ⟨_, h1⟩ | ⟨p, hf, ⟨_, h1⟩ | ⟨hw, hst, h1⟩⟩
  · rw [h1]; exact ReqLike.refl s
  · subst h1; exact rebonded_reqLike hf staked
  · subst h1
    have h1 := rebonded_reqLike hf staked
    have hf2 := findProvider_rebonded hf staked
    refine ⟨fun hr => requested_rest (h1.rest hr) hf2 hw (by simp only; omega), ?_, ?_, ?_, rfl⟩
    · intro hn
      have hr2 : ((rebonded s p staked).providers.map (·.addr)).Nodup := by
        show ((updP _ _).map _).Nodup; rw [updP_addrs]; exact hn
      rw [requested_sumColl hr2 hf2]; exact h1.sumColl hn
    · exact h1.tc
    · intro b; rw [requested_collOf hf2]; exact h1.collOf b

theorem stakingChanged_reqLike (e : Env) (s s' : State) (a : Addr) (h : stakingChanged e s a = .ok s') : ReqLike s s' := by
  unfold stakingChanged at h
  split at h
  · injection h with h; subst h; exact ReqLike.refl s
  · exact stakingHook_reqLike e s s' a _ h

/-! ## `MsgDepositCollateral` -/

/-- the state after `amount` has been added to the record `p` -/
def deposited (s : State) (p : Provider) (amount : Int) : State :=
  { setProvider s { p with collateral := p.collateral + amount } with totalCollateral := s.totalCollateral + amount }

/-- the record created for a first deposit -/
def freshProvider (e : Env) (a : Addr) : Provider :=
  { addr := a, collateral := 0, withdrawing := 0, bonded := (e.bondedAfter a).getD 0, rewards := Dec.zero }

/-- the state with the fresh record stored -/
def withFresh (e : Env) (s : State) (a : Addr) : State := { s with providers := insertProvider (freshProvider e a) s.providers }

theorem deposit_spec (e : Env) (s s' : State) (a : Addr) (coins : Coins) (h : deposit e s a coins = .ok s') :
    0 < Coins.amountOf coins e.bond ∧
    ((∃ p, findProvider s a = some p ∧ p.collateral + Coins.amountOf coins e.bond - p.withdrawing ≤ p.bonded ∧
        s' = deposited s p (Coins.amountOf coins e.bond)) ∨
     (findProvider s a = none ∧ Coins.amountOf coins e.bond ≤ (e.bondedAfter a).getD 0 ∧
        s' = deposited (withFresh e s a) (freshProvider e a) (Coins.amountOf coins e.bond))) := by
  unfold deposit at h
  split at h
  · cases h
  rename_i h1
  split at h
  · cases h
  rename_i h2
  refine ⟨msg_amount_pos coins e.bond (by simpa using h1) (by simpa using h2), ?_⟩
  cases hf : findProvider s a <;> rw [hf] at h <;> dsimp only at h <;> split at h
  · cases h
  · rename_i hb
    injection h with h
    right; exact ⟨rfl, by omega, h.symm⟩
  · cases h
  · rename_i p hb
    injection h with h
    left; exact ⟨p, rfl, by omega, h.symm⟩

theorem withFresh_rest {e : Env} {s : State} {a : Addr} (h : CollRest s) (hf : findProvider s a = none) :
    CollRest (withFresh e s a) := by
  have hperm := insertProvider_perm (freshProvider e a) s.providers
  have hmem : ∀ x, x ∈ (withFresh e s a).providers ↔ x = freshProvider e a ∨ x ∈ s.providers := by
    intro x; show x ∈ insertProvider _ _ ↔ _; rw [hperm.mem_iff, List.mem_cons]
  refine ⟨?_, ?_, ?_, h.wdrPos, ?_, ?_⟩
  · show s.totalWithdrawing = sumI _ (insertProvider _ _)
    rw [sumI_perm _ hperm, sumI_cons, h.wdr]; simp [freshProvider]
  · intro x hx
    rcases (hmem x).mp hx with hx | hx
    · subst hx; show (0 : Int) = qsum s a; rw [h.qsum_none hf]
    · exact h.wdrQ x hx
  · intro w hw
    obtain ⟨x, hx, he⟩ := h.wdrOwner w hw
    exact ⟨x, (hmem x).mpr (Or.inr hx), he⟩
  · intro x hx
    rcases (hmem x).mp hx with hx | hx
    · subst hx; simp [freshProvider]
    · exact h.provNonneg x hx
  · show ((insertProvider _ _).map _).Nodup
    rw [(hperm.map _).nodup_iff, List.map_cons, List.nodup_cons]
    refine ⟨?_, h.nodup⟩
    intro hm
    obtain ⟨x, hx, he⟩ := List.mem_map.mp hm
    exact findProvider_none hf x hx he

theorem withFresh_sumColl (e : Env) (s : State) (a : Addr) :
    sumI (·.collateral) (withFresh e s a).providers = sumI (·.collateral) s.providers := by
  show sumI _ (insertProvider _ _) = _
  rw [sumI_perm _ (insertProvider_perm _ _), sumI_cons]; simp [freshProvider]

theorem findProvider_withFresh {e : Env} {s : State} {a : Addr} (hn : (s.providers.map (·.addr)).Nodup)
    (hf : findProvider s a = none) : findProvider (withFresh e s a) a = some (freshProvider e a) := by
  have hperm := insertProvider_perm (freshProvider e a) s.providers
  have hn' : ((withFresh e s a).providers.map (·.addr)).Nodup := by
    show ((insertProvider _ _).map _).Nodup
    rw [(hperm.map _).nodup_iff, List.map_cons, List.nodup_cons]
    refine ⟨?_, hn⟩
    intro hm
    obtain ⟨x, hx, he⟩ := List.mem_map.mp hm
    exact findProvider_none hf x hx he
  have hm : freshProvider e a ∈ (withFresh e s a).providers := by
    show _ ∈ insertProvider _ _; rw [hperm.mem_iff]; exact List.mem_cons_self
  exact findProvider_of_mem hn' hm

theorem find_insertProvider_ne (p : Provider) (l : List Provider) (b : Addr) (hb : b ≠ p.addr) :
    (insertProvider p l).find? (·.addr == b) = l.find? (·.addr == b) := by
  have hpb : (p.addr == b) = false := by simpa using fun h => hb h.symm
  induction l with
  | nil => simp [insertProvider, hpb]
  | cons x xs ih =>
    unfold insertProvider
    split
    · rw [List.find?_cons_of_neg (by simp [hpb])]
    · simp only [List.find?_cons, ih]

theorem collOf_withFresh {e : Env} {s : State} {a : Addr} (hf : findProvider s a = none) (b : Addr) :
    collOf (withFresh e s a) b = collOf s b := by
  by_cases hb : b = a
  · subst hb
    unfold collOf
    rw [hf]
    cases h : findProvider (withFresh e s b) b with
    | none => rfl
    | some x =>
      have hx := findProvider_some h
      have hperm := insertProvider_perm (freshProvider e b) s.providers
      have : x = freshProvider e b ∨ x ∈ s.providers := by
        have := hx.1; change x ∈ insertProvider _ _ at this
        rw [hperm.mem_iff, List.mem_cons] at this; exact this
      rcases this with h1 | h1
      · subst h1; rfl
      · exact absurd hx.2 (findProvider_none hf x h1)
  · unfold collOf findProvider
    show (match (insertProvider _ _).find? _ with | some p => p.collateral | none => 0) = _
    rw [find_insertProvider_ne _ _ _ hb]
    rfl

theorem deposited_rest {s : State} {a : Addr} {p : Provider} {amount : Int} (h : CollRest s) (hf : findProvider s a = some p)
    (hpos : 0 ≤ amount) : CollRest (deposited s p amount) := by
  have hpa := (findProvider_some hf).2
  have hnn := h.provNonneg p (findProvider_some hf).1
  apply h.update hf (p' := { p with collateral := p.collateral + amount }) hpa
  · rfl
  · show s.totalWithdrawing = _; simp only; omega
  · exact (h.wdg_eq hf : p.withdrawing = qsum s a)
  · intro b _; rfl
  · intro w hw; left; exact hw
  · exact h.wdrPos
  · simp only; omega

theorem deposited_sumColl {s : State} {a : Addr} {p : Provider} {amount : Int} (hn : (s.providers.map (·.addr)).Nodup)
    (hf : findProvider s a = some p) :
    sumI (·.collateral) (deposited s p amount).providers = sumI (·.collateral) s.providers + amount := by
  have := sumColl_update hn hf (p' := { p with collateral := p.collateral + amount }) (findProvider_some hf).2
  show sumI _ (updP _ _) = _
  rw [this]; simp only; omega

theorem deposited_collOf {s : State} {a : Addr} {p : Provider} {amount : Int} (hf : findProvider s a = some p) (b : Addr) :
    collOf (deposited s p amount) b = if b = a then collOf s b + amount else collOf s b := by
  rw [collOf_update hf (p' := { p with collateral := p.collateral + amount }) (findProvider_some hf).2 rfl]
  split
  · rename_i hb; subst hb; rw [collOf_found hf]
  · rfl

theorem deposit_inv (e : Env) (s s' : State) (a : Addr) (coins : Coins) (hi : CollInv s)
    (h : deposit e s a coins = .ok s') : CollInv s' := by
  obtain ⟨hpos, h⟩ := deposit_spec e s s' a coins h
  rw [collInv_iff] at hi ⊢
  rcases h with ⟨p, hf, _, h⟩ | ⟨hf, _, h⟩
  · subst h
    exact ⟨by rw [deposited_sumColl hi.2.nodup hf, ← hi.1]; rfl, deposited_rest hi.2 hf (by omega)⟩
  · subst h
    have hr := withFresh_rest (e := e) hi.2 hf
    have hf' := findProvider_withFresh (e := e) hi.2.nodup hf
    refine ⟨?_, deposited_rest hr hf' (by omega)⟩
    rw [deposited_sumColl hr.nodup hf', withFresh_sumColl, ← hi.1]; rfl

/-- a deposit raises the depositor's collateral by the amount and nobody else's -/
theorem deposit_collOf (e : Env) (s s' : State) (a : Addr) (coins : Coins) (hn : (s.providers.map (·.addr)).Nodup)
    (h : deposit e s a coins = .ok s') (b : Addr) :
    collOf s' b = if b = a then collOf s b + Coins.amountOf coins e.bond else collOf s b := by
  obtain ⟨hpos, h⟩ := deposit_spec e s s' a coins h
  rcases h with ⟨p, hf, _, h⟩ | ⟨hf, _, h⟩
  · subst h; exact deposited_collOf hf b
  · subst h
    rw [deposited_collOf (findProvider_withFresh (e := e) hn hf) b, collOf_withFresh hf]

theorem deposit_params (e : Env) (s s' : State) (a : Addr) (coins : Coins) (h : deposit e s a coins = .ok s') :
    s'.params = s.params ∧ s'.withdraws = s.withdraws := by
  obtain ⟨hpos, h⟩ := deposit_spec e s s' a coins h
  rcases h with ⟨p, hf, _, h⟩ | ⟨hf, _, h⟩ <;> subst h <;> exact ⟨rfl, rfl⟩

end Shentu.Shield.Coll
