import Shentu.Proofs.C12THist
/-
  Every operation of the governance model advances the proposal store (for `Shentu/Props/C12T.lean`).
-/
namespace Shentu.C12TH
open Shentu Shentu.Gov Shentu.Props.C12
set_option linter.unusedSimpArgs false
set_option linter.unusedVariables false

/-- the certifier state (the only thing a modelled proposal handler changes) is unchanged, or some proposal that was not
    final before is now passed -/
def NewPass (w w' : World) : Prop :=
  w'.c = w.c ∨ ∃ id p', findP w'.g id = some p' ∧ p'.status = 4 ∧ ∀ p, findP w.g id = some p → rank p.status < 4

/-- a move of the world that touches at most proposal `id0` -/
structure WUpd (w w' : World) (id0 : Nat) : Prop where
  upd : Upd w.g w'.g id0
  cert : NewPass w w'

/-- a move of the world -/
structure WAdv (w w' : World) : Prop where
  wf : GovWF w.g → GovWF w'.g
  fwd : Fwd w.g w'.g
  cert : NewPass w w'
  next : w.g.nextId ≤ w'.g.nextId

theorem WUpd.adv {w w' : World} {id0 : Nat} (h : WUpd w w' id0) : WAdv w w' :=
  ⟨h.upd.wf, h.upd.fwd, h.cert, Nat.le_of_eq h.upd.next.symm⟩

theorem WAdv.refl (w : World) : WAdv w w := ⟨id, Fwd.refl _, Or.inl rfl, Nat.le_refl _⟩

theorem NewPass.trans {w₁ w₂ w₃ : World} (f12 : Fwd w₁.g w₂.g) (f23 : Fwd w₂.g w₃.g) (h12 : NewPass w₁ w₂)
    (h23 : NewPass w₂ w₃) : NewPass w₁ w₃ := by
  rcases h23 with h23 | ⟨id, p3, hp3, hs3, hn3⟩
  · rcases h12 with h12 | ⟨id, p2, hp2, hs2, hn2⟩
    · exact Or.inl (h23.trans h12)
    · refine Or.inr ⟨id, p2, ?_, hs2, hn2⟩
      have := f23 id p2 hp2
      have hr : rank p2.status = 4 := by rw [hs2]; rfl
      cases h3 : findP w₃.g id with
      | none => rw [h3] at this; simp only [] at this; rw [this] at hs2; cases hs2
      | some q => rw [h3] at this; simp only [] at this; rw [this.2 hr]
  · refine Or.inr ⟨id, p3, hp3, hs3, ?_⟩
    intro p hp
    have h4 := rank_le_four p.status
    by_cases hr : rank p.status = 4
    · have := f12 id p hp
      cases h2 : findP w₂.g id with
      | none =>
        rw [h2] at this; simp only [] at this
        rw [this] at hr; simp [rank] at hr
      | some q =>
        rw [h2] at this; simp only [] at this
        have hq := this.2 hr
        subst hq
        have := hn3 q h2
        omega
    · omega

theorem WAdv.trans {w₁ w₂ w₃ : World} (h12 : WAdv w₁ w₂) (h23 : WAdv w₂ w₃) : WAdv w₁ w₃ :=
  ⟨fun w => h23.wf (h12.wf w), h12.fwd.trans h23.fwd, NewPass.trans h12.fwd h23.fwd h12.cert h23.cert,
   Nat.le_trans h12.next h23.next⟩

theorem WUpd.trans {w₁ w₂ w₃ : World} {id0 : Nat} (h12 : WUpd w₁ w₂ id0) (h23 : WUpd w₂ w₃ id0) : WUpd w₁ w₃ id0 :=
  ⟨h12.upd.trans h23.upd, NewPass.trans h12.upd.fwd h23.upd.fwd h12.cert h23.cert⟩

/-- a move that leaves the proposal store and the certifier state alone -/
theorem WUpd.of_eq {w w' : World} (h : w'.g.proposals = w.g.proposals) (hn : w'.g.nextId = w.g.nextId) (hc : w'.c = w.c)
    (id0 : Nat) : WUpd w w' id0 := ⟨Upd.of_eq h hn id0, Or.inl hc⟩

/-! ## the pieces of the end-blocker -/

theorem runHandler_frame {w w' : World} {p : Proposal} (h : runHandler w p = .ok w') : w'.l = w.l ∧ w'.g = w.g := by
  unfold runHandler at h
  split at h
  · split at h
    · cases h
    · cases h; exact ⟨rfl, rfl⟩
  · cases h; exact ⟨rfl, rfl⟩

theorem refund_frame {e : Env} {w w' : World} {pid : Nat} (h : refundDeposits e w pid = .ok w') :
    w'.g.proposals = w.g.proposals ∧ w'.g.nextId = w.g.nextId ∧ w'.c = w.c ∧ w'.g.votes = w.g.votes := by
  unfold refundDeposits at h
  dsimp only at h
  split at h
  · cases h
  · cases h; exact ⟨rfl, rfl, rfl, rfl⟩

theorem burn_frame {e : Env} {w w' : World} {pid : Nat} (h : burnDeposits e w pid = .ok w') :
    w'.g.proposals = w.g.proposals ∧ w'.g.nextId = w.g.nextId ∧ w'.c = w.c ∧ w'.g.votes = w.g.votes := by
  unfold burnDeposits at h
  dsimp only at h
  split at h
  · cases h
  · cases h; exact ⟨rfl, rfl, rfl, rfl⟩

/-- finalising a proposal that is stored and not final -/
theorem finish_upd (w : World) (p : Proposal) (pass : Bool) (t : Tally) (hf : findP w.g p.id = some p)
    (hr : rank p.status < 4) : WUpd w (finish w p pass t) p.id := by
  have mk : ∀ (st : Nat), rank st = 4 → Upd w.g (setP w.g { p with status := st, tally := t }) p.id := by
    intro st hst
    exact upd_setP w.g p { p with status := st, tally := t } hf (by show rank p.status ≤ rank st; omega)
      (fun h4 => by omega)
  unfold finish
  split
  · split
    · rename_i w' hw'
      have ⟨_, hg⟩ := runHandler_frame hw'
      constructor
      · show Upd w.g (setP w'.g _) p.id
        rw [hg]; exact mk 4 rfl
      · refine Or.inr ⟨p.id, { p with status := 4, tally := t }, ?_, rfl, ?_⟩
        · show findP (setP w'.g _) p.id = _
          rw [findP_setP]; simp
        · intro p0 hp0
          rw [hf] at hp0; cases hp0; exact hr
    · exact ⟨mk 6 rfl, Or.inl rfl⟩
  · exact ⟨mk 5 rfl, Or.inl rfl⟩

/-- deleting votes and entering the next voting period -/
theorem activate_votes_upd (e : Env) (w : World) (p : Proposal) (vs : List Vote) (hf : findP w.g p.id = some p)
    (hst : p.status = 1 ∨ p.status = 2) :
    WUpd w { w with g := activateVotingPeriod e { w.g with votes := vs } p } p.id := by
  constructor
  · show Upd w.g (activateVotingPeriod e { w.g with votes := vs } p) p.id
    have u1 : Upd w.g { w.g with votes := vs } p.id :=
      Upd.of_eq (g := w.g) (g' := { w.g with votes := vs }) rfl rfl p.id
    have hf1 : findP { w.g with votes := vs } p.id = some p := hf
    exact u1.trans (upd_activate e _ p hf1 hst)
  · exact Or.inl rfl

theorem stakeTally_frame (e : Env) (g : State) (p : Proposal) (cd : Int) :
    (stakeTally e g p cd).2.2.2.proposals = g.proposals ∧ (stakeTally e g p cd).2.2.2.nextId = g.nextId := by
  unfold stakeTally
  exact ⟨rfl, rfl⟩

theorem processActive_upd (e : Env) (w w' : World) (p : Proposal) (hf : findP w.g p.id = some p)
    (hst : p.status = 2 ∨ p.status = 3) (h : processActive e w p = .ok w') : WUpd w w' p.id := by
  have hr : rank p.status < 4 := by rcases hst with h1 | h1 <;> rw [h1] <;> simp [rank]
  unfold processActive at h
  split at h
  · rename_i h2
    have h2' : p.status = 2 := by simpa using h2
    generalize securityTally w.g w.c p = st at h
    obtain ⟨pass, endVoting, t⟩ := st
    dsimp only at h
    split at h
    · cases h
      exact activate_votes_upd e w p _ hf (Or.inr h2')
    · split at h
      · cases h
      · rename_i w1 hw1
        cases h
        have ⟨f1, f2, f3, _⟩ := refund_frame hw1
        exact (WUpd.of_eq f1 f2 f3 p.id).trans (finish_upd w1 p pass t (by rw [findP_congr f1]; exact hf) hr)
  · have hfr := stakeTally_frame e w.g p 0
    generalize stakeTally e w.g p 0 = st at h hfr
    obtain ⟨pass, veto, t, g1⟩ := st
    dsimp only at h hfr
    have u0 : WUpd w { w with g := g1 } p.id := WUpd.of_eq (w := w) (w' := { w with g := g1 }) hfr.1 hfr.2 rfl p.id
    have hf0 : findP g1 p.id = some p := by rw [findP_congr hfr.1]; exact hf
    split at h
    · split at h
      · cases h
      · rename_i w2 hw2
        cases h
        have ⟨f1, f2, f3, _⟩ := burn_frame hw2
        exact u0.trans ((WUpd.of_eq f1 f2 f3 p.id).trans
          (finish_upd w2 p pass t (by rw [findP_congr f1]; exact hf0) hr))
    · split at h
      · cases h
      · rename_i w2 hw2
        cases h
        have ⟨f1, f2, f3, _⟩ := refund_frame hw2
        exact u0.trans ((WUpd.of_eq f1 f2 f3 p.id).trans
          (finish_upd w2 p pass t (by rw [findP_congr f1]; exact hf0) hr))

theorem processSecurityVote_upd (e : Env) (w w' : World) (p : Proposal) (hf : findP w.g p.id = some p)
    (h : processSecurityVote e w p = .ok w') : WUpd w w' p.id := by
  unfold processSecurityVote at h
  split at h
  · cases h; exact ⟨Upd.refl _ _, Or.inl rfl⟩
  · rename_i h2
    have h2' : p.status = 2 := by simpa using h2
    have hr : rank p.status < 4 := by rw [h2']; simp [rank]
    generalize securityTally w.g w.c p = st at h
    obtain ⟨pass, endVoting, t⟩ := st
    dsimp only at h
    split at h
    · cases h; exact ⟨Upd.refl _ _, Or.inl rfl⟩
    · split at h
      · split at h
        · cases h
        · rename_i w1 hw1
          cases h
          have hfr : w1.g.proposals = w.g.proposals ∧ w1.g.nextId = w.g.nextId ∧ w1.c = w.c := by
            split at hw1
            · have ⟨f1, f2, f3, _⟩ := refund_frame hw1; exact ⟨f1, f2, f3⟩
            · cases hw1; exact ⟨rfl, rfl, rfl⟩
          exact (WUpd.of_eq hfr.1 hfr.2.1 hfr.2.2 p.id).trans
            (finish_upd w1 p true t (by rw [findP_congr hfr.1]; exact hf) hr)
      · cases h
        exact activate_votes_upd e w p _ hf (Or.inr h2')

theorem dropInactive_upd (e : Env) (w w' : World) (p : Proposal) (hf : findP w.g p.id = some p) (hst : p.status = 1)
    (h : refundDeposits e { w with g := delP w.g p.id } p.id = .ok w') : WUpd w w' p.id := by
  have ⟨f1, f2, f3, _⟩ := refund_frame h
  have u0 : WUpd w { w with g := delP w.g p.id } p.id :=
    ⟨upd_delP w.g p.id (fun q hq => by rw [hf] at hq; cases hq; exact hst), Or.inl rfl⟩
  exact u0.trans (WUpd.of_eq f1 f2 f3 p.id)

/-! ## folds over ids -/

/-- a fold of single-proposal moves over distinct ids: each proposal is still as it was when its turn comes -/
theorem foldIds_adv (f : World → Proposal → Except Err World) (Good : Proposal → Prop)
    (hf : ∀ w w' p, findP w.g p.id = some p → Good p → f w p = .ok w' → WUpd w w' p.id) :
    ∀ (ids : List Nat) (w w' : World), ids.Nodup → (∀ id ∈ ids, ∀ p, findP w.g id = some p → Good p) →
      foldIds f ids w = .ok w' → WAdv w w' := by
  intro ids
  induction ids with
  | nil => intro w w' _ _ h; unfold foldIds at h; cases h; exact WAdv.refl w
  | cons id ids ih =>
    intro w w' hn hg h
    have hn' := List.nodup_cons.mp hn
    unfold foldIds at h
    cases hp : findP w.g id with
    | none =>
      rw [hp] at h
      exact ih w w' hn'.2 (fun i hi => hg i (List.mem_cons_of_mem _ hi)) h
    | some p =>
      rw [hp] at h
      dsimp only at h
      have hid := (findP_some hp).1
      cases h1 : f w p with
      | error x => rw [h1] at h; cases h
      | ok w1 =>
        rw [h1] at h
        dsimp only at h
        have u := hf w w1 p (by rw [hid]; exact hp) (hg id List.mem_cons_self p hp) h1
        refine u.adv.trans (ih w1 w' hn'.2 ?_ h)
        intro i hi q hq
        have hne : i ≠ p.id := by rw [hid]; intro hh; exact hn'.1 (hh ▸ hi)
        rw [u.upd.others i hne] at hq
        exact hg i (List.mem_cons_of_mem _ hi) q hq

theorem insByKey_perm (k : Proposal → Int) (p : Proposal) (l : List Proposal) : (insByKey k p l).Perm (p :: l) := by
  induction l with
  | nil => exact List.Perm.refl _
  | cons x xs ih =>
    unfold insByKey
    split
    · exact List.Perm.refl _
    · exact (List.Perm.cons x ih).trans (List.Perm.swap p x xs)

theorem sortByKey_perm (k : Proposal → Int) (l : List Proposal) : (sortByKey k l).Perm l := by
  induction l with
  | nil => exact List.Perm.refl _
  | cons x xs ih =>
    show (insByKey k x (sortByKey k xs)).Perm (x :: xs)
    exact (insByKey_perm k x _).trans (List.Perm.cons x ih)

/-- the id lists the end-blocker walks: distinct ids, each of a stored proposal that satisfies the filter -/
theorem idList_facts (g : State) (wf : GovWF g) (k : Proposal → Int) (q : Proposal → Bool) :
    ((sortByKey k (g.proposals.filter q)).map (·.id)).Nodup ∧
    ∀ id ∈ (sortByKey k (g.proposals.filter q)).map (·.id), ∀ p, findP g id = some p → q p = true := by
  constructor
  · rw [List.Perm.nodup_iff ((sortByKey_perm k _).map _)]
    exact List.Nodup.sublist (List.Sublist.map _ List.filter_sublist) wf.1
  · intro id hid p hp
    obtain ⟨x, hx, hxid⟩ := List.mem_map.mp hid
    have hx' := (sortByKey_perm k _).mem_iff.mp hx
    obtain ⟨hx1, hx2⟩ := List.mem_filter.mp hx'
    have := findP_of_mem wf hx1
    rw [hxid, hp] at this
    cases this
    exact hx2

theorem endBlock_adv (e : Env) (w w' : World) (wf : GovWF w.g) (h : endBlock e w = .ok w') : WAdv w w' := by
  unfold endBlock at h
  dsimp only at h
  split at h
  · cases h
  · rename_i w1 hw1
    have ⟨n1, g1⟩ := idList_facts w.g wf (·.depositEnd) (fun p => p.status == 1 && p.depositEnd ≤ e.t)
    have a1 : WAdv w w1 := foldIds_adv _ (fun p => p.status = 1)
      (fun w w' p hf hg hh => dropInactive_upd e w w' p hf hg hh) _ w w1 n1
      (fun id hid p hp => by have := g1 id hid p hp; simp at this; exact this.1) hw1
    have wf1 := a1.wf wf
    split at h
    · cases h
    · rename_i w2 hw2
      have ⟨n2, g2⟩ := idList_facts w1.g wf1 (·.votingEnd) (fun p => (p.status == 2 || p.status == 3) && p.votingEnd ≤ e.t)
      have a2 : WAdv w1 w2 := foldIds_adv _ (fun p => p.status = 2 ∨ p.status = 3)
        (fun w w' p hf hg hh => processActive_upd e w w' p hf hg hh) _ w1 w2 n2
        (fun id hid p hp => by have := g2 id hid p hp; simp at this; exact this.1) hw2
      have wf2 := a2.wf wf1
      have ⟨n3, _⟩ := idList_facts w2.g wf2 (·.votingEnd) (fun p => p.status == 2 || p.status == 3)
      have a3 : WAdv w2 w' := foldIds_adv _ (fun _ => True)
        (fun w w' p hf _ hh => processSecurityVote_upd e w w' p hf hh) _ w2 w' n3 (fun _ _ _ _ => trivial) h
      exact (a1.trans a2).trans a3

end Shentu.C12TH
