import Shentu.Proofs.C12TRound
/-
  The total voting power counted by the stake round against the bonded tokens (for `Shentu/Props/C12T.lean`).
-/
namespace Shentu.C12TH
open Shentu Shentu.Gov
set_option linter.unusedSimpArgs false
set_option linter.unusedVariables false

theorem nodup_map_inj {α} (key : α → Addr) (l : List α) (hn : (l.map key).Nodup) (x y : α) (hx : x ∈ l) (hy : y ∈ l)
    (h : key x = key y) : x = y := by
  induction l with
  | nil => cases hx
  | cons z zs ih =>
    have hn' := List.nodup_cons.mp hn
    rcases List.mem_cons.mp hx with h1 | h1 <;> rcases List.mem_cons.mp hy with h2 | h2
    · rw [h1, h2]
    · subst h1; exact absurd (List.mem_map.mpr ⟨y, h2, h.symm⟩) hn'.1
    · subst h2; exact absurd (List.mem_map.mpr ⟨x, h1, h⟩) hn'.1
    · exact ih hn'.2 h1 h2

theorem mem_votedDels (isV : Addr → Bool) (dels : List Del) (votes : List Vote) (od : Nat × Del)
    (h : od ∈ votedDels isV dels votes) : od.2 ∈ dels := by
  unfold votedDels at h
  obtain ⟨v, _, hv⟩ := List.mem_flatMap.mp h
  obtain ⟨d, hd, rfl⟩ := List.mem_map.mp hv
  exact (List.mem_filter.mp hd).1

/-- every piece belongs to a bonded validator, carries that validator's shares and tokens, and is not negative -/
theorem piece_facts (e : Env) (wf : StakeWF e) (votes : List Vote) (hd : VotersDistinct votes) (p : Piece)
    (hp : p ∈ pieces e votes) :
    ∃ v ∈ e.stake.vals, p.val = v.1 ∧ p.vshares = v.2.2 ∧ p.vtokens = v.2.1 ∧ 0 ≤ p.shares.raw := by
  unfold pieces at hp
  rcases List.mem_append.mp hp with h | h
  · unfold delPieces at h
    obtain ⟨od, hod, hf⟩ := List.mem_filterMap.mp h
    rw [lookOf_vals0] at hf
    cases hfind : e.stake.vals.find? (·.1 == od.2.2.1) with
    | none => rw [hfind] at hf; cases hf
    | some v =>
      rw [hfind] at hf
      simp only [Option.map_some, Option.some.injEq] at hf
      subst hf
      have hv := List.mem_of_find?_eq_some hfind
      have hva : v.1 = od.2.2.1 := by
        have := List.find?_some hfind
        exact beq_iff_eq.mp this
      exact ⟨v, hv, hva.symm, rfl, rfl, wf.delNonneg _ (mem_votedDels _ _ _ _ hod)⟩
  · rw [valPieces_closed e votes hd] at h
    obtain ⟨v, hv, hf⟩ := List.mem_filterMap.mp h
    cases hvote : (voteAt votes v.1 == 0) with
    | true => simp [hvote] at hf
    | false =>
      simp only [hvote, Bool.false_eq_true, if_false, Option.some.injEq] at hf
      subst hf
      refine ⟨v, hv, rfl, rfl, rfl, ?_⟩
      have h1 := dedOf_le_listed e wf votes v.1
      have h2 := wf.covered v hv
      unfold listed at h1
      show 0 ≤ v.2.2.raw - dedOf e votes v.1
      omega

/-- a sum over pieces, grouped by validator -/
theorem sumOn_group (vals : List (Addr × Int × Dec)) (hn : (vals.map (·.1)).Nodup) (g : Piece → Int) :
    ∀ (L : List Piece), (∀ p ∈ L, ∃ v ∈ vals, p.val = v.1) →
    sumOn L g = sumOn vals (fun v => sumOn (L.filter (fun p => p.val == v.1)) g) := by
  intro L
  induction L with
  | nil => intro _; simp [sumOn_zero]
  | cons p L ih =>
    intro h
    obtain ⟨x, hx, hpx⟩ := h p List.mem_cons_self
    have ih' := ih (fun q hq => h q (List.mem_cons_of_mem _ hq))
    have hone : sumOn vals (fun v => if v.1 == x.1 then g p else 0) = g p :=
      sumOn_unique (fun w : Addr × Int × Dec => w.1) vals (fun _ => g p) hn x hx
    have : ∀ v ∈ vals, sumOn ((p :: L).filter (fun q => q.val == v.1)) g =
        (if v.1 == x.1 then g p else 0) + sumOn (L.filter (fun q => q.val == v.1)) g := by
      intro v _
      rw [List.filter_cons, hpx]
      by_cases hvx : v.1 = x.1
      · simp [hvx]
      · have h1 : (x.1 == v.1) = false := beq_false_of_ne (fun hh => hvx hh.symm)
        have h2 : (v.1 == x.1) = false := beq_false_of_ne hvx
        simp [h1, h2]
    rw [sumOn_congr vals _ _ this, sumOn_add, hone, ← ih', sumOn_cons]

/-- the shares of the pieces of validator `v` add up to what `delCounted` and `valCounted` say -/
theorem pieces_shares_sum (e : Env) (votes : List Vote) (a : Addr) :
    sumOn ((pieces e votes).filter (fun p => p.val == a)) (fun p => p.shares.raw) =
      delCounted e votes a + valCounted e votes a := by
  unfold pieces delCounted valCounted
  rw [List.filter_append, sumOn_append]

theorem counted_le_shares (e : Env) (wf : StakeWF e) (votes : List Vote) (hd : VotersDistinct votes)
    (v : Addr × Int × Dec) (hv : v ∈ e.stake.vals) :
    delCounted e votes v.1 + valCounted e votes v.1 ≤ v.2.2.raw ∧
      (voteAt votes v.1 ≠ 0 → delCounted e votes v.1 + valCounted e votes v.1 = v.2.2.raw) := by
  rw [delCounted_eq e votes hd v.1 (isValidator_of_mem e v hv), valCounted_eq e votes hd wf.distinct v hv]
  have h1 := dedOf_le_listed e wf votes v.1
  have h2 := wf.covered v hv
  unfold listed at h1
  constructor
  · split <;> omega
  · intro hne
    have : (voteAt votes v.1 == 0) = false := by
      cases hh : (voteAt votes v.1 == 0) with
      | false => rfl
      | true => exact absurd (beq_iff_eq.mp hh) hne
    rw [this]; simp

/-- the power counted for one validator: at most its tokens plus half a unit of 10⁻¹⁸ token per piece and token -/
theorem validator_power_bound (e : Env) (wf : StakeWF e) (votes : List Vote) (hd : VotersDistinct votes)
    (v : Addr × Int × Dec) (hv : v ∈ e.stake.vals) :
    2 * sumOn ((pieces e votes).filter (fun p => p.val == v.1)) (fun p => p.power.raw) ≤
      (2 * Dec.prec + ((pieces e votes).filter (fun p => p.val == v.1)).length) * v.2.1 := by
  have hfacts : ∀ p ∈ (pieces e votes).filter (fun p => p.val == v.1),
      p.vshares = v.2.2 ∧ p.vtokens = v.2.1 ∧ 0 ≤ p.shares.raw := by
    intro p hp
    obtain ⟨hp1, hp2⟩ := List.mem_filter.mp hp
    obtain ⟨w, hw, h1, h2, h3, h4⟩ := piece_facts e wf votes hd p hp1
    have : w = v := nodup_map_inj (fun w : Addr × Int × Dec => w.1) _ wf.distinct w v hw hv
      (by rw [← h1]; exact beq_iff_eq.mp hp2)
    subst this
    exact ⟨h2, h3, h4⟩
  have hsum := (counted_le_shares e wf votes hd v hv).1
  rw [← pieces_shares_sum] at hsum
  generalize (pieces e votes).filter (fun p => p.val == v.1) = L at *
  have hb := sum_pw_bound v.2.2 v.2.1 (wf.sharesPos v hv) (wf.tokensNonneg v hv) (L.map (·.shares))
    (by intro s hs; obtain ⟨p, hp, rfl⟩ := List.mem_map.mp hs; exact (hfacts p hp).2.2)
    (by rw [sumOn_map]; exact hsum)
  rw [sumOn_map, List.length_map] at hb
  have : sumOn L (fun p => p.power.raw) = sumOn L (fun p => (pw p.shares v.2.2 v.2.1).raw) := by
    apply sumOn_congr
    intro p hp
    unfold Piece.power
    rw [(hfacts p hp).1, (hfacts p hp).2.1]
  rw [this]
  exact hb

/-- the total counted power as the sum over the pieces -/
theorem total_eq (e : Env) (votes : List Vote) :
    (stakeResults e votes).total.raw = sumOn (pieces e votes) (fun p => p.power.raw) := by
  rw [results_are_pieces, addList_total, sumOn_map]
  exact Int.zero_add _

theorem total_bound (e : Env) (wf : StakeWF e) (votes : List Vote) (hd : VotersDistinct votes) :
    2 * (stakeResults e votes).total.raw ≤
      sumOn e.stake.vals (fun v => (2 * Dec.prec + ((pieces e votes).filter (fun p => p.val == v.1)).length) * v.2.1) := by
  rw [total_eq, sumOn_group e.stake.vals wf.distinct _ (pieces e votes)
    (fun p hp => by obtain ⟨v, hv, h, _⟩ := piece_facts e wf votes hd p hp; exact ⟨v, hv, h⟩),
    ← sumOn_mul_left]
  apply sumOn_le
  intro v hv
  exact validator_power_bound e wf votes hd v hv

theorem total_bound_simple (e : Env) (wf : StakeWF e) (votes : List Vote) (hd : VotersDistinct votes) :
    2 * (stakeResults e votes).total.raw ≤
      (2 * Dec.prec + (pieces e votes).length) * sumOn e.stake.vals (fun v => v.2.1) := by
  refine Int.le_trans (total_bound e wf votes hd) ?_
  rw [← sumOn_mul_left]
  apply sumOn_le
  intro v hv
  have h1 : ((pieces e votes).filter (fun p => p.val == v.1)).length ≤ (pieces e votes).length := List.length_filter_le _ _
  have h2 : ((((pieces e votes).filter (fun p => p.val == v.1)).length : Nat) : Int) ≤ ((pieces e votes).length : Int) := by
    exact_mod_cast h1
  have h3 := wf.tokensNonneg v hv
  nlinarith

end Shentu.C12TH

namespace Shentu.C12TH
open Shentu Shentu.Gov
set_option linter.unusedSimpArgs false
set_option linter.unusedVariables false

/-- the powers of a list of pieces of one validator against the exact value of the sum of their shares, both sides -/
theorem sum_pw_two_sided (vs : Dec) (vt : Int) (hvs : 0 < vs.raw) (hvt : 0 ≤ vt) (ss : List Dec)
    (hss : ∀ s ∈ ss, 0 ≤ s.raw) :
    2 * (sumOn ss (fun s => (pw s vs vt).raw) * vs.raw) ≤
      2 * (sumOn ss (fun s => s.raw) * Dec.prec * vt) + ss.length * (vs.raw * vt) ∧
    Dec.prec * (2 * (sumOn ss (fun s => s.raw) * Dec.prec * vt)) ≤
      Dec.prec * (2 * (sumOn ss (fun s => (pw s vs vt).raw) * vs.raw)) + ss.length * (vs.raw * vt * (Dec.prec + 2)) := by
  induction ss with
  | nil => simp
  | cons s ss ih =>
    have ih' := ih (fun x hx => hss x (List.mem_cons_of_mem _ hx))
    have hb := pw_bounds s vs vt (hss s List.mem_cons_self) hvs hvt
    simp only [sumOn_cons, List.length_cons, Int.natCast_add, Int.natCast_one]
    constructor
    · nlinarith [hb.1, ih'.1]
    · nlinarith [hb.2.1, ih'.2]

/-- the counted shares do not depend on the order of the votes -/
theorem countedShares_perm (e : Env) {vs vs' : List Vote} (p : vs.Perm vs') (hd : VotersDistinct vs) (a : Addr) (o : Nat) :
    countedShares e vs a o = countedShares e vs' a o := by
  unfold countedShares
  exact sumOn_perm ((pieces_perm e p hd).filter _) _

/-- **power of one validator for one option, against the specification**: the chain's power for the pieces of validator
    `v` counted for option `o`, times the validator's shares, against the exact value of the specified shares -/
theorem option_power_bounds (e : Env) (wf : StakeWF e) (votes : List Vote) (hd : VotersDistinct votes)
    (v : Addr × Int × Dec) (hv : v ∈ e.stake.vals) (o : Nat) (ho : o ≠ 0) :
    2 * (sumOn ((pieces e votes).filter (fun p => p.val == v.1 && p.option == o)) (fun p => p.power.raw) * v.2.2.raw) ≤
      2 * (specShares (choiceM e votes) e votes v o * Dec.prec * v.2.1) +
        ((pieces e votes).filter (fun p => p.val == v.1 && p.option == o)).length * (v.2.2.raw * v.2.1) ∧
    Dec.prec * (2 * (specShares (choiceM e votes) e votes v o * Dec.prec * v.2.1)) ≤
      Dec.prec * (2 * (sumOn ((pieces e votes).filter (fun p => p.val == v.1 && p.option == o)) (fun p => p.power.raw) * v.2.2.raw)) +
        ((pieces e votes).filter (fun p => p.val == v.1 && p.option == o)).length * (v.2.2.raw * v.2.1 * (Dec.prec + 2)) := by
  have hspec := counted_eq_spec e votes hd wf.distinct v hv o ho
  unfold countedShares at hspec
  have hfacts : ∀ p ∈ (pieces e votes).filter (fun p => p.val == v.1 && p.option == o),
      p.vshares = v.2.2 ∧ p.vtokens = v.2.1 ∧ 0 ≤ p.shares.raw := by
    intro p hp
    obtain ⟨hp1, hp2⟩ := List.mem_filter.mp hp
    obtain ⟨w, hw, h1, h2, h3, h4⟩ := piece_facts e wf votes hd p hp1
    have hpv : p.val = v.1 := by
      have : (p.val == v.1) = true := by
        cases hh : (p.val == v.1) with
        | true => rfl
        | false => rw [hh] at hp2; simp at hp2
      exact beq_iff_eq.mp this
    have : w = v := nodup_map_inj (fun w : Addr × Int × Dec => w.1) _ wf.distinct w v hw hv (by rw [← h1]; exact hpv)
    subst this
    exact ⟨h2, h3, h4⟩
  rw [← hspec]
  generalize (pieces e votes).filter (fun p => p.val == v.1 && p.option == o) = L at *
  have hb := sum_pw_two_sided v.2.2 v.2.1 (wf.sharesPos v hv) (wf.tokensNonneg v hv) (L.map (·.shares))
    (by intro s hs; obtain ⟨p, hp, rfl⟩ := List.mem_map.mp hs; exact (hfacts p hp).2.2)
  rw [sumOn_map, sumOn_map, List.length_map] at hb
  have : sumOn L (fun p => p.power.raw) = sumOn L (fun p => (pw p.shares v.2.2 v.2.1).raw) := by
    apply sumOn_congr
    intro p hp
    unfold Piece.power
    rw [(hfacts p hp).1, (hfacts p hp).2.1]
  rw [this]
  exact hb

end Shentu.C12TH
