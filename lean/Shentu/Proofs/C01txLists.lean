import Shentu.Model.CvmTx
import Shentu.Proofs.VmConserveRun
import Shentu.Props.C01
/-
  Helper lemmas for `Shentu/Props/C01tx.lean`, part 1: sums over caches and address lists, the ledger after a list of
  `SetBalance`s, the addresses the write-back visits.
-/
namespace Shentu.CvmTxH
open Shentu Shentu.EVM Shentu.CvmTx

theorem cacheBal_eq (w : World) (x : Nat) : cacheBal w x = balOf w x := rfl

-- ---------------------------------------------------------------- lists

theorem nodup_map_of_inj {α β : Type} (f : α → β) (hf : ∀ a b, f a = f b → a = b) :
    ∀ (l : List α), l.Nodup → (l.map f).Nodup := by
  intro l
  induction l with
  | nil => intro _; simp
  | cons x xs ih =>
    intro h
    rw [List.nodup_cons] at h
    rw [List.map_cons, List.nodup_cons]
    refine ⟨?_, ih h.2⟩
    intro hm
    obtain ⟨y, hy, e⟩ := List.mem_map.mp hm
    have := hf _ _ e
    subst this
    exact h.1 hy

theorem cast_sum {α : Type} (f : α → Nat) : ∀ (K : List α), (((K.map f).sum : Nat) : Int) = (K.map (fun x => (f x : Int))).sum := by
  intro K
  induction K with
  | nil => simp
  | cons x xs ih => simp only [List.map_cons, List.sum_cons, Int.natCast_add, ih]

theorem sum_map_zero {α : Type} (f : α → Int) : ∀ (K : List α), (∀ x ∈ K, f x = 0) → (K.map f).sum = 0 := by
  intro K
  induction K with
  | nil => intro _; simp
  | cons x xs ih =>
    intro h
    simp only [List.map_cons, List.sum_cons]
    rw [h x (by simp), ih (fun y hy => h y (by simp [hy]))]
    rfl

theorem sum_map_congr {α β : Type} [Add β] [Zero β] (f g : α → β) : ∀ (K : List α), (∀ x ∈ K, f x = g x) → (K.map f).sum = (K.map g).sum := by
  intro K h
  rw [List.map_congr_left h]

-- ---------------------------------------------------------------- sums over a cache

theorem total_map_bal {α : Type} (f : α → Account) : ∀ (K : List α), total (K.map f) = (K.map (fun x => (f x).balance)).sum := by
  intro K
  induction K with
  | nil => simp [total_nil]
  | cons x xs ih => simp only [List.map_cons, total_cons, List.sum_cons, ih]

theorem mem_addrs_iff {w : World} {x : Nat} : x ∈ w.map (·.addr) ↔ World.get w x ≠ none := by
  rw [Ne, get_none_iff]
  constructor
  · intro h hn
    obtain ⟨a, ha, e⟩ := List.mem_map.mp h
    exact hn a ha e
  · intro h
    apply Classical.byContradiction
    intro hn
    apply h
    intro b hb e
    exact hn (List.mem_map.mpr ⟨b, hb, e⟩)

/-- the balances of a keyed cache, read at a duplicate-free list of addresses that covers it, add up to its total -/
theorem sum_balOf_cover : ∀ (K : List Nat) (w : World), Keyed w → K.Nodup → (∀ a ∈ w, a.addr ∈ K) →
    (K.map (balOf w)).sum = total w := by
  intro K
  induction K with
  | nil =>
    intro w _ _ hc
    cases w with
    | nil => simp [total_nil]
    | cons a w => exact absurd (hc a (by simp)) (by simp)
  | cons x K ih =>
    intro w hk hnd hc
    rw [List.nodup_cons] at hnd
    have hk' := keyed_del x hk
    have hc' : ∀ a ∈ w.del x, a.addr ∈ K := by
      intro a ha
      unfold World.del at ha
      obtain ⟨ha1, ha2⟩ := List.mem_filter.mp ha
      have hne : a.addr ≠ x := by simpa using ha2
      have := hc a ha1
      rcases List.mem_cons.mp this with h | h
      · exact absurd h hne
      · exact h
    have hrest : K.map (balOf w) = K.map (balOf (w.del x)) := by
      apply List.map_congr_left
      intro y hy
      have hne : y ≠ x := by intro e; subst e; exact hnd.1 hy
      exact (balOf_del_ne w x hne).symm
    simp only [List.map_cons, List.sum_cons]
    rw [hrest, ih (w.del x) hk' hnd.2 hc']
    have := total_del x hk
    omega

-- ---------------------------------------------------------------- the ledger after a list of SetBalance

theorem setBalances_eq (bond : Denom) : ∀ (ups : List (Addr × Int)) (l : Ledger),
    setBalances bond l ups = Props.C01.writeBack bond l ups := by
  intro ups
  induction ups with
  | nil => intro l; rfl
  | cons u rest ih =>
    intro l
    obtain ⟨a, v⟩ := u
    simp only [setBalances, Props.C01.writeBack]
    exact ih _

/-- an address that is not in the list keeps its balance, in every denomination -/
theorem setBalances_balOf_notin (bond : Denom) : ∀ (ups : List (Addr × Int)) (l : Ledger) (a : Addr) (d : Denom),
    (∀ u ∈ ups, u.1 ≠ a) → (setBalances bond l ups).balOf a d = l.balOf a d := by
  intro ups
  induction ups with
  | nil => intro l a d _; rfl
  | cons u rest ih =>
    intro l a d h
    obtain ⟨b, v⟩ := u
    simp only [setBalances]
    rw [ih _ a d (fun u hu => h u (by simp [hu])), Ledger.balOf_credit]
    have hne : b ≠ a := h (b, v) (by simp)
    have : (b == a) = false := by simpa using hne
    simp [this]

theorem setBalances_other_denoms (bond : Denom) (ups : List (Addr × Int)) (l : Ledger) (a : Addr) (d : Denom) (hd : d ≠ bond) :
    (setBalances bond l ups).balOf a d = l.balOf a d := by
  rw [setBalances_eq]; exact Props.C01.writeBack_other_denoms bond ups l a d hd

theorem setBalances_supply (bond : Denom) : ∀ (ups : List (Addr × Int)) (l : Ledger), (setBalances bond l ups).supply = l.supply := by
  intro ups
  induction ups with
  | nil => intro l; rfl
  | cons u rest ih =>
    intro l
    obtain ⟨a, v⟩ := u
    simp only [setBalances]
    rw [ih]; rfl

/-- an address of the list ends with the balance the list names, provided it is named once -/
theorem setBalances_balOf_mem (bond : Denom) : ∀ (ups : List (Addr × Int)) (l : Ledger) (a : Addr) (v : Int),
    (ups.map (·.1)).Nodup → (a, v) ∈ ups → (setBalances bond l ups).balOf a bond = v := by
  intro ups
  induction ups with
  | nil => intro l a v _ h; simp at h
  | cons u rest ih =>
    intro l a v hnd hm
    obtain ⟨b, vb⟩ := u
    simp only [List.map_cons, List.nodup_cons] at hnd
    simp only [setBalances]
    rcases List.mem_cons.mp hm with h | h
    · injection h with h1 h2
      subst h1; subst h2
      rw [setBalances_balOf_notin bond rest _ a bond]
      · rw [Ledger.balOf_credit]
        simp only [beq_self_eq_true, if_true, Coins.amountOf_cons, Coins.amountOf_nil]
        omega
      · intro u hu e
        exact hnd.1 (List.mem_map.mpr ⟨u, hu, e⟩)
    · exact ih _ a v hnd.2 h

-- ---------------------------------------------------------------- the addresses the write-back visits

theorem mem_touched {st : Store} {w : World} {x : Nat} : x ∈ touched st w ↔ (World.get st x ≠ none ∨ World.get w x ≠ none) := by
  unfold touched
  rw [List.mem_append, mem_addrs_iff]
  constructor
  · rintro (h | h)
    · exact Or.inl h
    · obtain ⟨a, ha, e⟩ := List.mem_map.mp h
      obtain ⟨ha1, _⟩ := List.mem_filter.mp ha
      right
      rw [Ne, get_none_iff]
      intro hn
      exact hn a ha1 e
  · rintro (h | h)
    · exact Or.inl h
    · by_cases hs : World.get st x = none
      · right
        rw [Ne, get_none_iff] at h
        apply Classical.byContradiction
        intro hn
        apply h
        intro b hb e
        apply hn
        apply List.mem_map.mpr
        refine ⟨b, List.mem_filter.mpr ⟨hb, ?_⟩, e⟩
        subst e
        simp [hs]
      · exact Or.inl hs

theorem touched_cover (st : Store) (w : World) : ∀ a ∈ w, a.addr ∈ touched st w := by
  intro a ha
  rw [mem_touched]
  right
  rw [Ne, get_none_iff]
  intro hn
  exact hn a ha rfl

theorem touched_nodup {st : Store} {w : World} (hs : Keyed st) (hw : Keyed w) : (touched st w).Nodup := by
  unfold touched
  rw [List.nodup_append]
  refine ⟨hs, ?_, ?_⟩
  · have : Keyed (w.filter (fun a => (World.get st a.addr).isNone)) := keyed_filter _ hw
    exact this
  · intro x hx y hy e
    subst e
    obtain ⟨a, ha, e⟩ := List.mem_map.mp hy
    obtain ⟨_, ha2⟩ := List.mem_filter.mp ha
    rw [mem_addrs_iff] at hx
    subst e
    simp only [Option.isNone_iff_eq_none] at ha2
    exact hx ha2

theorem touched_new_none {st : Store} {w : World} {x : Nat}
    (hx : x ∈ (w.filter (fun a => (World.get st a.addr).isNone)).map (·.addr)) : World.get st x = none := by
  obtain ⟨a, ha, e⟩ := List.mem_map.mp hx
  obtain ⟨_, ha2⟩ := List.mem_filter.mp ha
  subst e
  simpa using ha2

end Shentu.CvmTxH
