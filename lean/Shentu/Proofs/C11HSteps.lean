import Shentu.Proofs.C11HSettle
/-
  C11 at the level of histories, part 3: every sub-step of the end blocker either pays nothing (`Kept`) or settles one
  proposal (`Settled`); hence the end blocker, and every message, keeps the escrow invariant and moves coins as logged.
-/
namespace Shentu.C11H
open Shentu Shentu.Gov
open Shentu.Halt.Gv (depSum depSum_cons depSum_split depSum_upsert foldl_add_amount runHandler_frame)
open Shentu.Props.C11 (recOf recAll)
set_option linter.unusedSimpArgs false
set_option linter.unusedVariables false

/-! ## shapes of the pieces -/

theorem refund_shape {e : Env} {w w' : World} {pid : Nat} (h : refundDeposits e w pid = .ok w') :
    ∃ l', refundDeposits.go e (w.g.deposits.filter (·.pid == pid)) w.l = .ok l' ∧
      w' = { w with l := l', g := { w.g with deposits := w.g.deposits.filter (fun d => !(d.pid == pid)) } } := by
  unfold refundDeposits at h
  dsimp only at h
  split at h; · cases h
  rename_i l1 hgo
  injection h with h
  exact ⟨l1, hgo, h.symm⟩

theorem burn_shape {e : Env} {w w' : World} {pid : Nat} (h : burnDeposits e w pid = .ok w') :
    w' = { w with l := w.l.burn e.modAddr (burnTotal w.g.deposits pid),
                  g := { w.g with deposits := w.g.deposits.filter (fun d => !(d.pid == pid)) } } := by
  unfold burnDeposits at h
  dsimp only at h
  split at h; · cases h
  injection h with h
  exact h.symm

theorem not_live_of_status {g : State} {id : Nat} {q : Proposal} (h : findP g id = some q)
    (hs : q.status = 4 ∨ q.status = 5 ∨ q.status = 6) : ¬ Live g id := by
  rintro ⟨p, hp, hl⟩
  rw [h] at hp; injection hp with hp; subst hp
  omega

theorem finish_frame (w : World) (p : Proposal) (pass : Bool) (t : Tally) :
    (finish w p pass t).l = w.l ∧ (finish w p pass t).g.deposits = w.g.deposits ∧
    (∀ id, id ≠ p.id → findP (finish w p pass t).g id = findP w.g id) ∧
    (∃ q, findP (finish w p pass t).g p.id = some q ∧ (q.status = 4 ∨ q.status = 5 ∨ q.status = 6)) := by
  have key : ∀ (g : State) (q : Proposal), q.id = p.id → ∀ id, id ≠ p.id → findP (setP g q) id = findP g id := by
    intro g q hq id hne
    rw [findP_setP, hq]
    have : (p.id == id) = false := by simpa using Ne.symm hne
    simp [this]
  have self : ∀ (g : State) (q : Proposal), q.id = p.id → findP (setP g q) p.id = some q := by
    intro g q hq
    rw [findP_setP, hq]; simp
  unfold finish
  split
  · split
    · rename_i w1 hw1
      have ⟨h1, h2⟩ := runHandler_frame hw1
      refine ⟨h1, ?_, ?_, ?_⟩
      · show (setP w1.g _).deposits = _; rw [setP_deposits, h2]
      · intro id hne; show findP (setP w1.g _) id = _; rw [key w1.g { p with status := 4, tally := t } rfl id hne, h2]
      · exact ⟨_, self w1.g { p with status := 4, tally := t } rfl, Or.inl rfl⟩
    · refine ⟨rfl, ?_, ?_, ?_⟩
      · show (setP w.g _).deposits = _; rw [setP_deposits]
      · intro id hne; exact key w.g { p with status := 6, tally := t } rfl id hne
      · exact ⟨_, self w.g { p with status := 6, tally := t } rfl, Or.inr (Or.inr rfl)⟩
  · refine ⟨rfl, ?_, ?_, ?_⟩
    · show (setP w.g _).deposits = _; rw [setP_deposits]
    · intro id hne; exact key w.g { p with status := 5, tally := t } rfl id hne
    · exact ⟨_, self w.g { p with status := 5, tally := t } rfl, Or.inr (Or.inl rfl)⟩

/-- refund of `p`'s records followed by `finish` settles `p` -/
theorem settled_refund_finish {e : Env} {w w0 w1 : World} {p : Proposal} {pass : Bool} {t : Tally}
    (hl : w0.l = w.l) (hd : w0.g.deposits = w.g.deposits) (hp : w0.g.proposals = w.g.proposals)
    (h : refundDeposits e w0 p.id = .ok w1) : Settled e w (finish w1 p pass t) p.id false := by
  obtain ⟨l', hgo, hw1⟩ := refund_shape h
  obtain ⟨f1, f2, f3, q, f4, f5⟩ := finish_frame w1 p pass t
  have hfind : ∀ id, findP w1.g id = findP w.g id := by
    intro id; rw [hw1]; show List.find? _ w0.g.proposals = List.find? _ w.g.proposals; rw [hp]
  refine ⟨?_, ?_, ?_, ?_, not_live_of_status f4 f5⟩
  · rw [f2, hw1]; show w0.g.deposits.filter _ = _; rw [hd]
  · intro id hne; rw [f3 id hne, hfind]
  · intro _; rw [f1, hw1]; show _ = Except.ok l'; rw [← hd, ← hl]; exact hgo
  · intro hb; cases hb

theorem settled_burn_finish {e : Env} {w w0 w1 : World} {p : Proposal} {pass : Bool} {t : Tally}
    (hl : w0.l = w.l) (hd : w0.g.deposits = w.g.deposits) (hp : w0.g.proposals = w.g.proposals)
    (h : burnDeposits e w0 p.id = .ok w1) : Settled e w (finish w1 p pass t) p.id true := by
  have hw1 := burn_shape h
  obtain ⟨f1, f2, f3, q, f4, f5⟩ := finish_frame w1 p pass t
  have hfind : ∀ id, findP w1.g id = findP w.g id := by
    intro id; rw [hw1]; show List.find? _ w0.g.proposals = List.find? _ w.g.proposals; rw [hp]
  refine ⟨?_, ?_, ?_, ?_, not_live_of_status f4 f5⟩
  · rw [f2, hw1]; show w0.g.deposits.filter _ = _; rw [hd]
  · intro id hne; rw [f3 id hne, hfind]
  · intro hb; cases hb
  · intro _; rw [f1, hw1]; show w0.l.burn e.modAddr (burnTotal w0.g.deposits p.id) = _; rw [hd, hl]

/-! ## the three sub-steps of the end blocker -/

/-- a proposal whose deposit period ended without reaching the minimum: deleted, deposits refunded -/
theorem drop_settled {e : Env} {w w' : World} {p : Proposal}
    (h : refundDeposits e { w with g := delP w.g p.id } p.id = .ok w') : Settled e w w' p.id false := by
  obtain ⟨l', hgo, hw'⟩ := refund_shape h
  have hfind : ∀ id, findP w'.g id = findP (delP w.g p.id) id := by intro id; rw [hw']; rfl
  refine ⟨by rw [hw']; rfl, ?_, ?_, ?_, ?_⟩
  · intro id hne
    rw [hfind, findP_delP]
    have : (p.id == id) = false := by simpa using Ne.symm hne
    simp [this]
  · intro _; rw [hw']; exact hgo
  · intro hb; cases hb
  · rintro ⟨q, hq, _⟩
    rw [hfind, findP_delP] at hq
    simp at hq

/-- activating the (next) voting period pays nothing and ends nothing -/
theorem kept_activate (e : Env) (w : World) (p : Proposal) (g1 : State)
    (hd : g1.deposits = w.g.deposits) (hp : g1.proposals = w.g.proposals) :
    Kept w { w with g := activateVotingPeriod e g1 p } := by
  refine ⟨rfl, ?_, ?_⟩
  · show (activateVotingPeriod e g1 p).deposits = _
    unfold activateVotingPeriod; rw [setP_deposits, hd]
  · intro id hl
    exact live_activate (live_congr hp hl)

theorem stakeTally_proposals (e : Env) (g : State) (p : Proposal) (cd : Int) :
    (stakeTally e g p cd).2.2.2.proposals = g.proposals := by
  unfold stakeTally
  rfl

/-- certifier round over, not decisive: the validator round starts, nothing is paid -/
theorem processActive_continue {e : Env} {w w' : World} {p : Proposal} (h : processActive e w p = .ok w')
    (hs : p.status = 2) (hv : (securityTally w.g w.c p).2.1 = false) : Kept w w' := by
  unfold processActive at h
  have hs' : (p.status == 2) = true := by simp [hs]
  rw [if_pos hs'] at h
  generalize securityTally w.g w.c p = st at h hv
  obtain ⟨pass, endVoting, t⟩ := st
  dsimp only at h hv
  subst hv
  simp only [Bool.not_false, if_true] at h
  injection h with h; subst h
  exact kept_activate e w p _ rfl rfl

/-- certifier round over and decisive: refund -/
theorem processActive_certEnd {e : Env} {w w' : World} {p : Proposal} (h : processActive e w p = .ok w')
    (hs : p.status = 2) (hv : (securityTally w.g w.c p).2.1 = true) : Settled e w w' p.id false := by
  unfold processActive at h
  have hs' : (p.status == 2) = true := by simp [hs]
  rw [if_pos hs'] at h
  generalize securityTally w.g w.c p = st at h hv
  obtain ⟨pass, endVoting, t⟩ := st
  dsimp only at h hv
  subst hv
  simp only [Bool.not_true, Bool.false_eq_true, if_false] at h
  split at h; · cases h
  rename_i w1 hw1
  injection h with h; subst h
  exact settled_refund_finish rfl rfl rfl hw1

/-- validator round over: the deposits are burned exactly when the stake tally says veto, refunded otherwise -/
theorem processActive_stake {e : Env} {w w' : World} {p : Proposal} (h : processActive e w p = .ok w')
    (hs : p.status ≠ 2) : Settled e w w' p.id (stakeTally e w.g p 0).2.1 := by
  unfold processActive at h
  have hs' : (p.status == 2) = false := by simp [hs]
  rw [if_neg (by simp [hs'])] at h
  have hdep := Shentu.Halt.Gv.stakeTally_deposits e w.g p 0
  have hpr := stakeTally_proposals e w.g p 0
  generalize stakeTally e w.g p 0 = st at h hdep hpr
  obtain ⟨pass, veto, t, g1⟩ := st
  dsimp only at h hdep hpr ⊢
  cases veto with
  | true =>
    simp only [if_true] at h
    split at h; · cases h
    rename_i w2 hw2
    injection h with h; subst h
    exact settled_burn_finish (w0 := { w with g := g1 }) rfl hdep hpr hw2
  | false =>
    simp only [Bool.false_eq_true, if_false] at h
    split at h; · cases h
    rename_i w2 hw2
    injection h with h; subst h
    exact settled_refund_finish (w0 := { w with g := g1 }) rfl hdep hpr hw2

/-- a sub-step with its log: it pays nothing, or it settles one proposal and the log lists that proposal's records -/
def Sub (e : Env) (w : World) (L : List Pay) (w' : World) : Prop :=
  (Kept w w' ∧ L = []) ∨ ∃ pid b, Settled e w w' pid b ∧ L = payOf b w.g.deposits pid

theorem Sub.escrow {e : Env} {w w' : World} {L : List Pay} (s : Sub e w L w') (h : EscrowInv e.modAddr w) :
    EscrowInv e.modAddr w' := by
  rcases s with ⟨k, _⟩ | ⟨pid, b, s, _⟩
  · exact k.escrow h
  · exact s.escrow h

theorem Sub.moves {e : Env} {w w' : World} {L : List Pay} (s : Sub e w L w') : Moves e.modAddr w L w' := by
  rcases s with ⟨k, hL⟩ | ⟨pid, b, s, hL⟩
  · rw [hL]; exact k.moves _
  · rw [hL]; exact s.moves

theorem drop_sub {e : Env} {w w' : World} {p : Proposal}
    (h : refundDeposits e { w with g := delP w.g p.id } p.id = .ok w') : Sub e w (dropLog w p) w' :=
  Or.inr ⟨p.id, false, drop_settled h, rfl⟩

theorem processActive_sub {e : Env} {w w' : World} {p : Proposal} (h : processActive e w p = .ok w') :
    Sub e w (activeLog e w p) w' := by
  by_cases hs : p.status = 2
  · cases hv : (securityTally w.g w.c p).2.1 with
    | false =>
      refine Or.inl ⟨processActive_continue h hs hv, ?_⟩
      unfold activeLog; simp [hs, hv]
    | true =>
      refine Or.inr ⟨p.id, false, processActive_certEnd h hs hv, ?_⟩
      unfold activeLog; simp [hs, hv]
  · refine Or.inr ⟨p.id, _, processActive_stake h hs, ?_⟩
    unfold activeLog; simp [hs]

theorem processSecurityVote_sub {e : Env} {w w' : World} {p : Proposal} (h : processSecurityVote e w p = .ok w') :
    Sub e w (secLog w p) w' := by
  unfold processSecurityVote at h
  unfold secLog
  split at h
  · rename_i hs
    injection h with h; subst h
    rw [if_pos hs]; exact Or.inl ⟨Kept.refl _, rfl⟩
  · rename_i hs
    rw [if_neg hs]
    generalize securityTally w.g w.c p = st at h
    obtain ⟨pass, endVoting, t⟩ := st
    dsimp only at h ⊢
    cases pass with
    | false =>
      simp only [Bool.not_false, if_true] at h ⊢
      injection h with h; subst h
      exact Or.inl ⟨Kept.refl _, rfl⟩
    | true =>
      simp only [Bool.not_true, Bool.false_eq_true, if_false] at h ⊢
      cases endVoting with
      | true =>
        simp only [if_true] at h ⊢
        have he : Gen.Gov.earlyPassRefunds = true := rfl
        simp only [he, if_true] at h ⊢
        split at h; · cases h
        rename_i w1 hw1
        injection h with h; subst h
        exact Or.inr ⟨p.id, false, settled_refund_finish rfl rfl rfl hw1, rfl⟩
      | false =>
        simp only [Bool.false_eq_true, if_false] at h ⊢
        injection h with h; subst h
        exact Or.inl ⟨kept_activate e w p _ rfl rfl, rfl⟩

/-! ## folds and the end blocker -/

theorem foldIds_sub (e : Env) (f : World → Proposal → Except Err World) (lg : World → Proposal → List Pay)
    (hf : ∀ w p w', f w p = .ok w' → Sub e w (lg w p) w') :
    ∀ (ids : List Nat) (w w' : World), foldIds f ids w = .ok w' →
      (EscrowInv e.modAddr w → EscrowInv e.modAddr w') ∧ Moves e.modAddr w (foldLog f lg ids w) w' := by
  intro ids
  induction ids with
  | nil =>
    intro w w' h
    unfold foldIds at h; injection h with h; subst h
    exact ⟨id, Moves.refl _ _⟩
  | cons i ids ih =>
    intro w w' h
    unfold foldIds at h
    unfold foldLog
    cases hp : findP w.g i with
    | none => rw [hp] at h; exact ih w w' h
    | some p =>
      rw [hp] at h
      dsimp only at h ⊢
      cases hfp : f w p with
      | error x => rw [hfp] at h; cases h
      | ok w1 =>
        rw [hfp] at h
        dsimp only at h ⊢
        have s := hf w p w1 hfp
        obtain ⟨i1, i2⟩ := ih w1 w' h
        exact ⟨fun hi => i1 (s.escrow hi), s.moves.trans i2⟩

/-- **the end blocker keeps the escrow invariant and moves coins exactly as its log says** -/
theorem endBlock_sub {e : Env} {w w' : World} (h : endBlock e w = .ok w') :
    (EscrowInv e.modAddr w → EscrowInv e.modAddr w') ∧ Moves e.modAddr w (endBlockLog e w) w' := by
  unfold endBlock at h
  unfold endBlockLog
  dsimp only at h ⊢
  split at h; · cases h
  rename_i w1 hw1
  rw [hw1]
  dsimp only
  split at h; · cases h
  rename_i w2 hw2
  rw [hw2]
  dsimp only
  obtain ⟨a1, a2⟩ := foldIds_sub e _ dropLog (fun w p w' hh => drop_sub hh) _ _ _ hw1
  obtain ⟨b1, b2⟩ := foldIds_sub e _ (activeLog e) (fun w p w' hh => processActive_sub hh) _ _ _ hw2
  obtain ⟨c1, c2⟩ := foldIds_sub e _ secLog (fun w p w' hh => processSecurityVote_sub hh) _ _ _ h
  exact ⟨fun hi => c1 (b1 (a1 hi)), a2.trans (b2.trans c2)⟩

end Shentu.C11H
