import Shentu.Model.Gov
import Shentu.Proofs.C13HLemmas
/-
  The link from the governance model to the council: which part of every governance step can
  touch the `Cert.State` component of the world.
-/
namespace Shentu.C13H
open Shentu Shentu.Gov

/-- the tally of the round the proposal is in, computed on the world `w`, says "pass" -/
def TallyPassed (e : Env) (w : World) (p : Proposal) : Prop :=
  (p.status = 2 ∧ (securityTally w.g w.c p).1 = true) ∨ (p.status ≠ 2 ∧ (stakeTally e w.g p 0).1 = true)

/-- the council operation a certifier-update proposal stands for -/
def opOf (p : Proposal) : Op := .govUpdate p.cuCertifier p.cuAlias p.cuProposer p.cuAdd

/-- the step from the world `w` to the world `w'` finalised the stored proposal `p` as passed: `p` is stored in `w`,
    its kind is "certifierUpdate", its tally computed on `w` passed, the handler applied to the council of `w`
    accepted and produced the council of `w'`, and `p` is stored in `w'` with status 4 (passed) -/
def FinalisedAt (e : Env) (w : World) (p : Proposal) (w' : World) : Prop :=
  findP w.g p.id = some p ∧ p.kind = "certifierUpdate" ∧ TallyPassed e w p ∧
    exec w.c (opOf p) = .ok w'.c ∧ (∃ t, findP w'.g p.id = some { p with status := 4, tally := t })

/-- one finalisation of a passed certifier-update proposal that takes the council from `c` to `c'` -/
def Finalised (e : Env) (c c' : Cert.State) (p : Proposal) : Prop :=
  ∃ w w' : World, w.c = c ∧ w'.c = c' ∧ FinalisedAt e w p w'

/-- a sequence of finalisations -/
inductive Chain (e : Env) : Cert.State → List Proposal → Cert.State → Prop
  | nil (c : Cert.State) : Chain e c [] c
  | cons {c c1 c2 : Cert.State} {p : Proposal} {ps : List Proposal} :
      Finalised e c c1 p → Chain e c1 ps c2 → Chain e c (p :: ps) c2

theorem Chain.append {e : Env} {c c1 c2 : Cert.State} {ps qs : List Proposal}
    (h1 : Chain e c ps c1) (h2 : Chain e c1 qs c2) : Chain e c (ps ++ qs) c2 := by
  induction h1 with
  | nil c => exact h2
  | cons hf _ ih => exact Chain.cons hf (ih h2)

/-- a chain is a history of accepted `govUpdate` operations -/
theorem Chain.run_eq {e : Env} {c c' : Cert.State} {ps : List Proposal} (h : Chain e c ps c') :
    c' = run c (ps.map opOf) ∧ passedUpdates c (ps.map opOf) = ps.map opOf := by
  induction h with
  | nil c => exact ⟨rfl, rfl⟩
  | cons hf _ ih =>
    obtain ⟨_, _, rfl, rfl, _, _, _, hex, _⟩ := hf
    simp only [List.map_cons, run_cons, passedUpdates, step_of_ok hex, succeeds_of_ok hex]
    exact ⟨ih.1, by rw [ih.2]; rfl⟩

theorem Chain.kinds {e : Env} {c c' : Cert.State} {ps : List Proposal} (h : Chain e c ps c') :
    ∀ p ∈ ps, p.kind = "certifierUpdate" := by
  induction h with
  | nil c => intro p hp; cases hp
  | cons hf _ ih =>
    intro q hq
    rcases List.mem_cons.mp hq with rfl | hq
    · obtain ⟨_, _, _, _, _, hk, _⟩ := hf; exact hk
    · exact ih q hq

/-! ### the proposal store -/

theorem find_map_replace (l : List Proposal) (p : Proposal) (h : (l.find? (·.id == p.id)).isSome = true) :
    (l.map (fun x => if x.id == p.id then p else x)).find? (·.id == p.id) = some p := by
  induction l with
  | nil => simp at h
  | cons x xs ih =>
    by_cases hx : (x.id == p.id) = true
    · simp only [List.map_cons, hx, if_true]
      rw [List.find?_cons_of_pos]; simp
    · have hx' : (x.id == p.id) = false := by simpa using hx
      rw [List.find?_cons_of_neg (by simpa using hx)] at h
      simp only [List.map_cons, hx', Bool.false_eq_true, if_false]
      rw [List.find?_cons_of_neg (by simpa using hx)]
      exact ih h

theorem findP_setP (g : State) (p : Proposal) : findP (setP g p) p.id = some p := by
  unfold setP
  split
  · rename_i h; exact find_map_replace _ p h
  · rename_i h
    have hn : g.proposals.find? (·.id == p.id) = none := by
      simpa [findP] using h
    simp [findP, List.find?_append, hn]

theorem findP_id {g : State} {id : Nat} {p : Proposal} (h : findP g id = some p) : p.id = id := by
  have := List.find?_some h
  simpa using this

/-! ### what each piece of the end blocker does to the council -/

theorem refundDeposits_c {e : Env} {w w' : World} {pid : Nat} (h : refundDeposits e w pid = .ok w') : w'.c = w.c := by
  unfold refundDeposits at h
  simp only at h
  split at h
  · cases h
  · injection h with h; subst h; rfl

theorem burnDeposits_c {e : Env} {w w' : World} {pid : Nat} (h : burnDeposits e w pid = .ok w') : w'.c = w.c := by
  unfold burnDeposits at h
  simp only at h
  split at h
  · cases h
  · injection h with h; subst h; rfl

/-- the handler: no effect on the council unless the kind is "certifierUpdate" -/
theorem runHandler_cases (w : World) (p : Proposal) :
    (p.kind ≠ "certifierUpdate" ∧ runHandler w p = .ok w) ∨
    (p.kind = "certifierUpdate" ∧ ∃ c', exec w.c (opOf p) = .ok c' ∧ runHandler w p = .ok { w with c := c' }) ∨
    (p.kind = "certifierUpdate" ∧ ∃ x, runHandler w p = .error x) := by
  unfold runHandler
  by_cases hk : p.kind = "certifierUpdate"
  · right
    simp only [hk, beq_self_eq_true, if_true]
    cases hh : Cert.handleUpdate w.c p.cuCertifier p.cuAlias p.cuProposer p.cuAdd with
    | ok c' => exact Or.inl ⟨trivial, c', hh, rfl⟩
    | error x => exact Or.inr ⟨trivial, x, rfl⟩
  · left
    have : (p.kind == "certifierUpdate") = false := by simpa using hk
    simp [this, hk]

/-- finalisation: the council is untouched, or the tally said pass, the kind is "certifierUpdate", the handler
    accepted and the proposal is stored as passed -/
theorem finish_c (w : World) (p : Proposal) (pass : Bool) (t : Tally) :
    (finish w p pass t).c = w.c ∨
    (pass = true ∧ p.kind = "certifierUpdate" ∧ exec w.c (opOf p) = .ok (finish w p pass t).c ∧
      findP (finish w p pass t).g p.id = some { p with status := 4, tally := t }) := by
  unfold finish
  cases pass with
  | false => left; rfl
  | true =>
    simp only [if_true]
    rcases runHandler_cases w p with ⟨_, h⟩ | ⟨hk, c', hex, h⟩ | ⟨_, x, h⟩
    · left; rw [h]
    · right; rw [h]
      refine ⟨trivial, hk, hex, ?_⟩
      exact findP_setP _ { p with status := 4, tally := t }
    · left; rw [h]

theorem processActive_c {e : Env} {w w' : World} {p : Proposal} (hp : findP w.g p.id = some p)
    (h : processActive e w p = .ok w') : w'.c = w.c ∨ FinalisedAt e w p w' := by
  unfold processActive at h
  by_cases hs : p.status = 2
  · have hs' : (p.status == 2) = true := by simpa using hs
    simp only [hs', if_true] at h
    rcases hst : securityTally w.g w.c p with ⟨pass, endVoting, t⟩
    rw [hst] at h
    simp only at h
    split at h
    · injection h with h; subst h; left; rfl
    · split at h
      · cases h
      · rename_i w1 hr
        injection h with h; subst h
        have hc := refundDeposits_c hr
        rcases finish_c w1 p pass t with hf | ⟨hpass, hk, hex, hst4⟩
        · left; rw [hf, hc]
        · right
          refine ⟨hp, hk, Or.inl ⟨hs, ?_⟩, ?_, t, hst4⟩
          · rw [hst]; exact hpass
          · rw [← hc]; exact hex
  · have hs' : (p.status == 2) = false := by simpa using hs
    simp only [hs', Bool.false_eq_true, if_false] at h
    rcases hst : stakeTally e w.g p 0 with ⟨pass, veto, t, g1⟩
    rw [hst] at h
    simp only at h
    have key : ∀ w2 : World, w2.c = w.c → (finish w2 p pass t).c = w.c ∨ FinalisedAt e w p (finish w2 p pass t) := by
      intro w2 hc
      rcases finish_c w2 p pass t with hf | ⟨hpass, hk, hex, hst4⟩
      · left; rw [hf, hc]
      · right
        refine ⟨hp, hk, Or.inr ⟨hs, ?_⟩, ?_, t, hst4⟩
        · rw [hst]; exact hpass
        · rw [← hc]; exact hex
    split at h
    · split at h
      · cases h
      · rename_i w2 hr
        injection h with h; subst h
        have hc := burnDeposits_c hr
        exact key w2 hc
    · split at h
      · cases h
      · rename_i w2 hr
        injection h with h; subst h
        have hc := refundDeposits_c hr
        exact key w2 hc

theorem processSecurityVote_c {e : Env} {w w' : World} {p : Proposal} (hp : findP w.g p.id = some p)
    (h : processSecurityVote e w p = .ok w') : w'.c = w.c ∨ FinalisedAt e w p w' := by
  unfold processSecurityVote at h
  by_cases hs : p.status = 2
  · have hs' : (p.status != 2) = false := by simpa using hs
    simp only [hs', Bool.false_eq_true, if_false] at h
    rcases hst : securityTally w.g w.c p with ⟨pass, endVoting, t⟩
    rw [hst] at h
    simp only at h
    split at h
    · injection h with h; subst h; left; rfl
    · rename_i hpass
      have hpass' : pass = true := by simpa using hpass
      split at h
      · split at h
        · cases h
        · rename_i w1 hr
          injection h with h; subst h
          have hc : w1.c = w.c := by
            split at hr
            · exact refundDeposits_c hr
            · injection hr with hr; rw [hr]
          rcases finish_c w1 p true t with hf | ⟨_, hk, hex, hst4⟩
          · left; rw [hf, hc]
          · right
            refine ⟨hp, hk, Or.inl ⟨hs, ?_⟩, ?_, t, hst4⟩
            · rw [hst]; exact hpass'
            · rw [← hc]; exact hex
      · injection h with h; subst h; left; rfl
  · have hs' : (p.status != 2) = true := by simpa using hs
    simp only [hs', if_true] at h
    injection h with h; subst h; left; rfl

/-- one call of a loop body of the end blocker on the stored proposal `p`: the deposit-period clean-up,
    the end of a voting period, or the early decision of the certifier round -/
def Hop (e : Env) (w : World) (p : Proposal) (w1 : World) : Prop :=
  findP w.g p.id = some p ∧
  (refundDeposits e { w with g := delP w.g p.id } p.id = .ok w1 ∨ processActive e w p = .ok w1 ∨
    processSecurityVote e w p = .ok w1)

/-- the actual execution of an end blocker as a path of worlds: every hop is a real call of a loop body;
    a hop either keeps the council or finalises its proposal as passed; the finalised proposals are listed in order -/
inductive Path (e : Env) : World → List Proposal → World → Prop
  | nil (w : World) : Path e w [] w
  | quiet {w w1 w2 : World} {p : Proposal} {ps : List Proposal} :
      Hop e w p w1 → w1.c = w.c → Path e w1 ps w2 → Path e w ps w2
  | update {w w1 w2 : World} {p : Proposal} {ps : List Proposal} :
      Hop e w p w1 → FinalisedAt e w p w1 → Path e w1 ps w2 → Path e w (p :: ps) w2

theorem Path.append {e : Env} {w w1 w2 : World} {ps qs : List Proposal}
    (h1 : Path e w ps w1) (h2 : Path e w1 qs w2) : Path e w (ps ++ qs) w2 := by
  induction h1 with
  | nil w => exact h2
  | quiet hh hc _ ih => exact Path.quiet hh hc (ih h2)
  | update hh hf _ ih => exact Path.update hh hf (ih h2)

theorem Path.chain {e : Env} {w w' : World} {ps : List Proposal} (h : Path e w ps w') : Chain e w.c ps w'.c := by
  induction h with
  | nil w => exact Chain.nil _
  | quiet _ hc _ ih => rw [← hc]; exact ih
  | update _ hf _ ih => exact Chain.cons ⟨_, _, rfl, rfl, hf⟩ ih

/-- a fold over proposal identifiers whose body is one of the three loop bodies -/
theorem foldIds_path (e : Env) (f : World → Proposal → Except Err World)
    (hhop : ∀ w p w', f w p = .ok w' →
      (refundDeposits e { w with g := delP w.g p.id } p.id = .ok w' ∨ processActive e w p = .ok w' ∨
        processSecurityVote e w p = .ok w'))
    (hf : ∀ w p w', findP w.g p.id = some p → f w p = .ok w' → w'.c = w.c ∨ FinalisedAt e w p w')
    (ids : List Nat) (w w' : World) (h : foldIds f ids w = .ok w') : ∃ ps, Path e w ps w' := by
  induction ids generalizing w with
  | nil => unfold foldIds at h; injection h with h; subst h; exact ⟨[], Path.nil _⟩
  | cons id ids ih =>
    unfold foldIds at h
    split at h
    · exact ih w h
    · rename_i p hp
      split at h
      · cases h
      · rename_i w1 hw1
        obtain ⟨ps, hch⟩ := ih w1 h
        have hid := findP_id hp
        have hp' : findP w.g p.id = some p := by rw [hid]; exact hp
        have hop : Hop e w p w1 := ⟨hp', hhop w p w1 hw1⟩
        rcases hf w p w1 hp' hw1 with hc | hfin
        · exact ⟨ps, Path.quiet hop hc hch⟩
        · exact ⟨p :: ps, Path.update hop hfin hch⟩

theorem endBlock_path {e : Env} {w w' : World} (h : endBlock e w = .ok w') : ∃ ps, Path e w ps w' := by
  unfold endBlock at h
  simp only at h
  split at h
  · cases h
  · rename_i w1 h1
    split at h
    · cases h
    · rename_i w2 h2
      obtain ⟨ps1, c1⟩ := foldIds_path e _ (fun w p w' hh => Or.inl hh) (by
        intro w p w' _ hh
        left
        have := refundDeposits_c hh
        exact this) _ _ _ h1
      obtain ⟨ps2, c2⟩ := foldIds_path e _ (fun w p w' hh => Or.inr (Or.inl hh))
        (fun w p w' hp hh => processActive_c hp hh) _ _ _ h2
      obtain ⟨ps3, c3⟩ := foldIds_path e _ (fun w p w' hh => Or.inr (Or.inr hh))
        (fun w p w' hp hh => processSecurityVote_c hp hh) _ _ _ h
      exact ⟨ps1 ++ (ps2 ++ ps3), c1.append (c2.append c3)⟩

theorem endBlock_chain {e : Env} {w w' : World} (h : endBlock e w = .ok w') : ∃ ps, Chain e w.c ps w'.c := by
  obtain ⟨ps, hp⟩ := endBlock_path h
  exact ⟨ps, hp.chain⟩

/-! ### the messages -/

theorem addDeposit_c {e : Env} {w w' : World} {pid : Nat} {d : Addr} {amt : Coins}
    (h : addDeposit e w pid d amt = .ok w') : w'.c = w.c := by
  unfold addDeposit at h
  split at h
  · cases h
  · split at h
    · cases h
    · split at h
      · cases h
      · simp only at h; injection h with h; subst h; rfl

theorem vote_c {w w' : World} {pid : Nat} {v : Addr} {o : Nat} (h : vote w pid v o = .ok w') : w'.c = w.c := by
  unfold vote at h
  ok_cases h
  injection h with h; subst h; rfl

theorem submit_c {e : Env} {w w' : World} {a : Addr} {p0 : Proposal} {d : Coins}
    (h : submit e w a p0 d = .ok w') : w'.c = w.c := by
  unfold submit at h
  simp only at h
  split at h
  · cases h
  · split at h
    · cases h
    · split at h
      · cases h
      · split at h
        · cases h
        · split at h
          · injection h with h; subst h; rfl
          · have hc := addDeposit_c h
            exact hc

/-! ### governance steps and histories -/

/-- everything the governance model can do to the world -/
inductive GovOp where
  | submit (proposer : Addr) (p0 : Proposal) (deposit : Coins)
  | deposit (pid : Nat) (depositor : Addr) (amt : Coins)
  | vote (pid : Nat) (voter : Addr) (option : Nat)
  | endBlock

def GovOp.isEndBlock : GovOp → Bool
  | .endBlock => true
  | _ => false

def govExec (e : Env) (w : World) : GovOp → Except Err World
  | .submit a p0 d => submit e w a p0 d
  | .deposit pid a amt => addDeposit e w pid a amt
  | .vote pid a o => vote w pid a o
  | .endBlock => endBlock e w

/-- a refused message leaves the world unchanged -/
def govStep (e : Env) (w : World) (o : GovOp) : World :=
  match govExec e w o with
  | .ok w' => w'
  | .error _ => w

def govRun (w : World) (h : List (Env × GovOp)) : World := h.foldl (fun w eo => govStep eo.1 w eo.2) w

theorem govExec_chain {e : Env} {w w' : World} {o : GovOp} (h : govExec e w o = .ok w') :
    ∃ ps, Chain e w.c ps w'.c ∧ (o.isEndBlock = false → ps = []) := by
  cases o with
  | submit a p0 d => have hc := submit_c h; exact ⟨[], by rw [hc]; exact Chain.nil _, fun _ => rfl⟩
  | deposit pid a amt => have hc := addDeposit_c h; exact ⟨[], by rw [hc]; exact Chain.nil _, fun _ => rfl⟩
  | vote pid a o => have hc := vote_c h; exact ⟨[], by rw [hc]; exact Chain.nil _, fun _ => rfl⟩
  | endBlock =>
    obtain ⟨ps, hch⟩ := endBlock_chain h
    exact ⟨ps, hch, fun hh => by cases hh⟩

theorem govStep_chain (e : Env) (w : World) (o : GovOp) :
    ∃ ps, Chain e w.c ps (govStep e w o).c ∧ (o.isEndBlock = false → ps = []) := by
  unfold govStep
  cases h : govExec e w o with
  | ok w' => exact govExec_chain h
  | error x => exact ⟨[], Chain.nil _, fun _ => rfl⟩

/-- every governance update in the list was accepted when its turn came -/
def AllAccepted (c : Cert.State) (ups : List Op) : Prop := (∀ o ∈ ups, o.isGov = true) ∧ passedUpdates c ups = ups

theorem passedUpdates_append (c : Cert.State) (xs ys : List Op) :
    passedUpdates c (xs ++ ys) = passedUpdates c xs ++ passedUpdates (run c xs) ys := by
  induction xs generalizing c with
  | nil => rfl
  | cons o os ih => simp [passedUpdates, ih]

theorem AllAccepted.append {c : Cert.State} {xs ys : List Op} (h1 : AllAccepted c xs) (h2 : AllAccepted (run c xs) ys) :
    AllAccepted c (xs ++ ys) := by
  refine ⟨?_, ?_⟩
  · intro o ho
    rcases List.mem_append.mp ho with h | h
    · exact h1.1 o h
    · exact h2.1 o h
  · rw [passedUpdates_append, h1.2, h2.2]

theorem Chain.accepted {e : Env} {c c' : Cert.State} {ps : List Proposal} (h : Chain e c ps c') :
    AllAccepted c (ps.map opOf) ∧ c' = run c (ps.map opOf) := by
  refine ⟨⟨?_, h.run_eq.2⟩, h.run_eq.1⟩
  intro o ho
  obtain ⟨p, _, rfl⟩ := List.mem_map.mp ho
  rfl

theorem govRun_updates (w : World) (h : List (Env × GovOp)) :
    ∃ ups : List Op, AllAccepted w.c ups ∧ (govRun w h).c = run w.c ups := by
  induction h generalizing w with
  | nil => exact ⟨[], ⟨(fun o ho => nomatch ho), rfl⟩, rfl⟩
  | cons eo rest ih =>
    obtain ⟨ps, hch, _⟩ := govStep_chain eo.1 w eo.2
    obtain ⟨hacc, hrun⟩ := hch.accepted
    obtain ⟨ups, hacc2, hrun2⟩ := ih (govStep eo.1 w eo.2)
    refine ⟨ps.map opOf ++ ups, ?_, ?_⟩
    · apply AllAccepted.append hacc
      rw [← hrun]; exact hacc2
    · have : govRun w (eo :: rest) = govRun (govStep eo.1 w eo.2) rest := rfl
      rw [this, hrun2, run_append, ← hrun]

theorem Chain.finalised {e : Env} {c c' : Cert.State} {ps : List Proposal} (h : Chain e c ps c') :
    ∀ p ∈ ps, ∃ c1 c2, Finalised e c1 c2 p := by
  induction h with
  | nil c => intro p hp; cases hp
  | cons hf _ ih =>
    intro q hq
    rcases List.mem_cons.mp hq with rfl | hq
    · exact ⟨_, _, hf⟩
    · exact ih q hq

/-! ### the whole world: cert messages and governance steps interleaved -/

/-- the three signed messages of the cert module -/
inductive Msg where
  | issue (signer : Addr) (kind content : String)
  | revoke (signer : Addr) (id : Nat)
  | certifyPlatform (signer : Addr) (pubkey desc : String)

def Msg.toOp : Msg → Op
  | .issue a k c => .issue a k c
  | .revoke a id => .revoke a id
  | .certifyPlatform a pk d => .certifyPlatform a pk d

theorem Msg.toOp_not_gov (m : Msg) : m.toOp.isGov = false := by cases m <;> rfl

/-- one event of a chain history: a cert message, or a governance message or block end in its environment -/
inductive WOp where
  | cert (m : Msg)
  | gov (e : Env) (o : GovOp)

def wstep (w : World) : WOp → World
  | .cert m => { w with c := step w.c m.toOp }
  | .gov e o => govStep e w o

def wrun (w : World) (h : List WOp) : World := h.foldl wstep w

theorem filter_isGov_map_opOf (ps : List Proposal) : (ps.map opOf).filter Op.isGov = ps.map opOf := by
  rw [List.filter_eq_self]
  intro o ho
  obtain ⟨p, _, rfl⟩ := List.mem_map.mp ho
  rfl

theorem wrun_ops (w : World) (h : List WOp) :
    ∃ ops : List Op, (wrun w h).c = run w.c ops ∧ passedUpdates w.c ops = ops.filter Op.isGov ∧
      ∀ o ∈ ops, o.isGov = true → ∃ e p c1 c2, WOp.gov e .endBlock ∈ h ∧ o = opOf p ∧ Finalised e c1 c2 p := by
  induction h generalizing w with
  | nil => exact ⟨[], rfl, rfl, fun o ho => nomatch ho⟩
  | cons x rest ih =>
    have hunf : wrun w (x :: rest) = wrun (wstep w x) rest := rfl
    obtain ⟨ops', h1, h2, h3⟩ := ih (wstep w x)
    cases x with
    | cert m =>
      have hc : (wstep w (.cert m)).c = step w.c m.toOp := rfl
      refine ⟨m.toOp :: ops', ?_, ?_, ?_⟩
      · rw [hunf, h1, hc]; rfl
      · rw [passedUpdates, ← hc, h2]
        simp [Msg.toOp_not_gov]
      · intro o ho hg
        rcases List.mem_cons.mp ho with rfl | ho
        · rw [Msg.toOp_not_gov] at hg; cases hg
        · obtain ⟨e, p, c1, c2, hm, hp⟩ := h3 o ho hg
          exact ⟨e, p, c1, c2, List.mem_cons_of_mem _ hm, hp⟩
    | gov e o =>
      obtain ⟨ps, hch, hnil⟩ := govStep_chain e w o
      have hc : (wstep w (.gov e o)).c = (govStep e w o).c := rfl
      obtain ⟨hacc, hrun⟩ := hch.accepted
      refine ⟨ps.map opOf ++ ops', ?_, ?_, ?_⟩
      · rw [hunf, h1, hc, run_append, ← hrun]
      · rw [passedUpdates_append, hacc.2, ← hrun, ← hc, h2, List.filter_append, filter_isGov_map_opOf]
      · intro o' ho' hg
        rcases List.mem_append.mp ho' with ho' | ho'
        · obtain ⟨p, hp, rfl⟩ := List.mem_map.mp ho'
          obtain ⟨c1, c2, hfin⟩ := hch.finalised p hp
          have hend : o = .endBlock := by
            cases o with
            | endBlock => rfl
            | submit => rw [hnil rfl] at hp; cases hp
            | deposit => rw [hnil rfl] at hp; cases hp
            | vote => rw [hnil rfl] at hp; cases hp
          subst hend
          exact ⟨e, p, c1, c2, List.mem_cons_self, rfl, hfin⟩
        · obtain ⟨e', p, c1, c2, hm, hp⟩ := h3 o' ho' hg
          exact ⟨e', p, c1, c2, List.mem_cons_of_mem _ hm, hp⟩

end Shentu.C13H
