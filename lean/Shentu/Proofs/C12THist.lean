import Shentu.Props.C12
/-
  Histories of the governance model (for `Shentu/Props/C12T.lean`, "status only moves forward"): the proposal store
  has distinct ids below `nextId`; the moves that the model makes on the store.
-/
namespace Shentu.C12TH
open Shentu Shentu.Gov Shentu.Props.C12
set_option linter.unusedSimpArgs false
set_option linter.unusedVariables false

/-- the proposal store: ids are distinct and below the next id -/
def GovWF (g : State) : Prop := (g.proposals.map (·.id)).Nodup ∧ ∀ p ∈ g.proposals, p.id < g.nextId

/-- from `g` to `g'` every stored proposal either advances (its rank does not decrease; once final, the whole record is
    unchanged) or — only in the deposit period — is dropped -/
def Fwd (g g' : State) : Prop :=
  ∀ id p, findP g id = some p →
    match findP g' id with
    | some p' => rank p.status ≤ rank p'.status ∧ (rank p.status = 4 → p' = p)
    | none => p.status = 1

/-- a move that touches at most the proposal `id0` -/
structure Upd (g g' : State) (id0 : Nat) : Prop where
  wf : GovWF g → GovWF g'
  fwd : Fwd g g'
  others : ∀ id, id ≠ id0 → findP g' id = findP g id
  next : g'.nextId = g.nextId

theorem rank_ge_one (s : Nat) : 1 ≤ rank s := by unfold rank; split <;> omega
theorem rank_le_four (s : Nat) : rank s ≤ 4 := by unfold rank; split <;> omega

theorem Fwd.refl (g : State) : Fwd g g := by
  intro id p h; rw [h]; exact ⟨Nat.le_refl _, fun _ => rfl⟩

theorem Fwd.trans {g₁ g₂ g₃ : State} (h12 : Fwd g₁ g₂) (h23 : Fwd g₂ g₃) : Fwd g₁ g₃ := by
  intro id p h
  have a := h12 id p h
  cases h2 : findP g₂ id with
  | none =>
    rw [h2] at a
    cases h3 : findP g₃ id with
    | none => exact a
    | some p3 =>
      simp only [] at a ⊢
      have hr : rank p.status = 1 := by rw [a]; rfl
      exact ⟨by rw [hr]; exact rank_ge_one _, fun h4 => by omega⟩
  | some p2 =>
    rw [h2] at a
    have b := h23 id p2 h2
    cases h3 : findP g₃ id with
    | none =>
      rw [h3] at b
      simp only [] at a b ⊢
      have hr : rank p2.status = 1 := by rw [b]; rfl
      have h1 := rank_ge_one p.status
      have h41 : rank p.status ≠ 4 := by omega
      unfold rank at h41 h1 a
      split at h41 <;> simp_all
    | some p3 =>
      rw [h3] at b
      simp only [] at a b ⊢
      refine ⟨Nat.le_trans a.1 b.1, fun h4 => ?_⟩
      have e2 := a.2 h4
      subst e2
      exact b.2 h4

theorem findP_congr {g g' : State} (h : g'.proposals = g.proposals) (id : Nat) : findP g' id = findP g id := by
  unfold findP; rw [h]

theorem GovWF.congr {g g' : State} (h : g'.proposals = g.proposals) (hn : g'.nextId = g.nextId) (wf : GovWF g) :
    GovWF g' := by
  unfold GovWF; rw [h, hn]; exact wf

theorem Upd.refl (g : State) (id0 : Nat) : Upd g g id0 := ⟨id, Fwd.refl g, fun _ _ => rfl, rfl⟩

theorem Upd.of_eq {g g' : State} (h : g'.proposals = g.proposals) (hn : g'.nextId = g.nextId) (id0 : Nat) : Upd g g' id0 :=
  ⟨GovWF.congr h hn, by intro id p hp; rw [findP_congr h, hp]; exact ⟨Nat.le_refl _, fun _ => rfl⟩,
   fun id _ => findP_congr h id, hn⟩

theorem Upd.trans {g₁ g₂ g₃ : State} {id0 : Nat} (h12 : Upd g₁ g₂ id0) (h23 : Upd g₂ g₃ id0) : Upd g₁ g₃ id0 :=
  ⟨fun w => h23.wf (h12.wf w), h12.fwd.trans h23.fwd, fun id hid => (h23.others id hid).trans (h12.others id hid),
   h23.next.trans h12.next⟩

theorem findP_some {g : State} {id : Nat} {p : Proposal} (h : findP g id = some p) : p.id = id ∧ p ∈ g.proposals := by
  unfold findP at h
  have h1 := List.find?_some h
  exact ⟨beq_iff_eq.mp h1, List.mem_of_find?_eq_some h⟩

theorem find_of_mem (l : List Proposal) (hn : (l.map (·.id)).Nodup) (p : Proposal) (hp : p ∈ l) :
    l.find? (·.id == p.id) = some p := by
  induction l with
  | nil => cases hp
  | cons x xs ih =>
    have hn' := List.nodup_cons.mp hn
    rw [List.find?_cons]
    rcases List.mem_cons.mp hp with h | h
    · subst h; simp
    · have hne : x.id ≠ p.id := fun hh => hn'.1 (List.mem_map.mpr ⟨p, h, hh.symm⟩)
      have : (x.id == p.id) = false := by simpa using hne
      rw [this]
      exact ih hn'.2 h

theorem findP_of_mem {g : State} (wf : GovWF g) {p : Proposal} (hp : p ∈ g.proposals) : findP g p.id = some p :=
  find_of_mem _ wf.1 p hp

/-- replacing a stored proposal by a more advanced version of it -/
theorem upd_setP (g : State) (p q : Proposal) (hf : findP g q.id = some p) (hr : rank p.status ≤ rank q.status)
    (hfin : rank p.status = 4 → q = p) : Upd g (setP g q) q.id := by
  have hex : (findP g q.id).isSome = true := by rw [hf]; rfl
  refine ⟨?_, ?_, ?_, by simp⟩
  · intro wf
    unfold GovWF setP
    rw [if_pos hex]
    have hids : (g.proposals.map (fun x => if x.id == q.id then q else x)).map (·.id) = g.proposals.map (·.id) := by
      rw [List.map_map]
      apply List.map_congr_left
      intro x _
      simp only [Function.comp]
      split
      · rename_i h; exact (beq_iff_eq.mp h).symm
      · rfl
    constructor
    · show ((g.proposals.map (fun x => if x.id == q.id then q else x)).map (·.id)).Nodup
      rw [hids]; exact wf.1
    · intro x hx
      show x.id < g.nextId
      have : x.id ∈ (g.proposals.map (fun x => if x.id == q.id then q else x)).map (·.id) := List.mem_map.mpr ⟨x, hx, rfl⟩
      rw [hids] at this
      obtain ⟨y, hy, hyx⟩ := List.mem_map.mp this
      rw [← hyx]; exact wf.2 y hy
  · intro id p0 h0
    rw [findP_setP]
    by_cases hid : q.id = id
    · subst hid
      rw [hf] at h0; cases h0
      simp only [beq_self_eq_true, if_true]
      exact ⟨hr, hfin⟩
    · have : (q.id == id) = false := by simpa using hid
      rw [this]; simp only [Bool.false_eq_true, if_false]
      rw [h0]; exact ⟨Nat.le_refl _, fun _ => rfl⟩
  · intro id hid
    rw [findP_setP]
    have : (q.id == id) = false := by simpa using (fun h : q.id = id => hid h.symm)
    rw [this]; rfl

theorem findP_delP (g : State) (id id' : Nat) : findP (delP g id) id' = if id == id' then none else findP g id' := by
  unfold findP delP
  simp only []
  induction g.proposals with
  | nil => simp
  | cons x xs ih =>
    rw [List.filter_cons]
    by_cases hx : x.id = id
    · subst hx
      simp only [beq_self_eq_true, Bool.not_true, Bool.false_eq_true, if_false, ih, List.find?_cons]
      by_cases h2 : x.id = id'
      · simp [h2]
      · have : (x.id == id') = false := by simpa using h2
        simp [this]
    · have h1 : (x.id == id) = false := by simpa using hx
      simp only [h1, Bool.not_false, if_true, List.find?_cons, ih]
      by_cases h2 : x.id = id'
      · have h3 : (id == id') = false := by rw [← h2]; simpa using (fun h : id = x.id => hx h.symm)
        simp [h2, h3]
      · have : (x.id == id') = false := by simpa using h2
        simp [this]

/-- dropping a proposal that is in the deposit period -/
theorem upd_delP (g : State) (id0 : Nat) (h1 : ∀ p, findP g id0 = some p → p.status = 1) : Upd g (delP g id0) id0 := by
  refine ⟨?_, ?_, ?_, rfl⟩
  · intro wf
    unfold GovWF delP
    simp only []
    constructor
    · exact List.Nodup.sublist (List.Sublist.map _ List.filter_sublist) wf.1
    · intro p hp; exact wf.2 p (List.mem_filter.mp hp).1
  · intro id p hp
    rw [findP_delP]
    by_cases hid : id0 = id
    · subst hid; simp only [beq_self_eq_true, if_true]; exact h1 p hp
    · have : (id0 == id) = false := by simpa using hid
      rw [this]; simp only [Bool.false_eq_true, if_false]; rw [hp]; exact ⟨Nat.le_refl _, fun _ => rfl⟩
  · intro id hid
    rw [findP_delP]
    have : (id0 == id) = false := by simpa using (fun h : id0 = id => hid h.symm)
    rw [this]; rfl

/-- entering a voting period from the deposit period or from the certifier round -/
theorem upd_activate (e : Env) (g : State) (p : Proposal) (hf : findP g p.id = some p) (hst : p.status = 1 ∨ p.status = 2) :
    Upd g (activateVotingPeriod e g p) p.id := by
  have h := activate_status e g p hst
  have hid := activated_id e g p
  unfold activateVotingPeriod
  rw [← hid]
  apply upd_setP g p
  · rw [hid]; exact hf
  · exact Nat.le_of_lt h.2.1
  · intro h4
    rcases hst with h1 | h1 <;> rw [h1] at h4 <;> simp [rank] at h4

end Shentu.C12TH
