import Shentu.Props.C03a
/-
  Facts about one step of a history (`Shentu.Props.C03a.Op`), shared by the C07 theorems: parameters are never
  changed, which steps can lower a provider's collateral, how the queue grows, what the ghost log records.
-/
set_option linter.unusedSimpArgs false
set_option linter.unusedVariables false
namespace Shentu.Shield.Coll
open List Shentu.Props.C03a

/-- the block time at which the step releases matured withdrawals (`none`: the step releases nothing) -/
def opCompletes : Op → Option Int
  | .endBlock e => some e.t
  | .completeWithdrawals e => some e.t
  | _ => none

/-- the step is a claim payout -/
def opPays : Op → Bool
  | .createReimbursement _ _ _ _ => true
  | .claimEnds _ _ _ _ _ _ _ .paid => true
  | _ => false

/-- the block time of the step, when it has one -/
def opTime : Op → Option Int
  | .deposit e _ _ => some e.t
  | .withdraw e _ _ => some e.t
  | .stakingChanged e _ => some e.t
  | .purchase e _ _ _ _ => some e.t
  | .createPool e _ _ _ _ _ _ => some e.t
  | .updatePool e _ _ _ _ _ => some e.t
  | .unstake e _ _ _ => some e.t
  | .withdrawRewards e _ => some e.t
  | .withdrawReimbursement e _ _ => some e.t
  | .secureCollaterals e _ _ _ _ _ => some e.t
  | .claimEnds e _ _ _ _ _ _ _ => some e.t
  | .endBlock e => some e.t
  | .fundBlockRewards e _ _ => some e.t
  | .withdrawCollateral e _ _ => some e.t
  | .stakingHook e _ _ => some e.t
  | .secureFromProvider e _ _ _ => some e.t
  | .createReimbursement e _ _ _ => some e.t
  | .completeWithdrawals e => some e.t
  | .expireAndDistribute e => some e.t
  | _ => none

/-- the withdrawal requests made in the step (when it succeeds): the explicit one of `MsgWithdrawCollateral`, the
    ones forced by the staking hooks — also inside a claim payout -/
def opRequests : Op → World → List Req
  | .withdraw e a c, _ => requestLog e a (Coins.amountOf c e.bond)
  | .withdrawCollateral e a amount, _ => requestLog e a amount
  | .stakingChanged e a, w => changedLog e w.2 a
  | .stakingHook e a staked, w => hookLog e w.2 a staked
  | .claimEnds e _ _ _ _ _ loss .paid, w => payoutLog e w.2 loss
  | .createReimbursement e _ amount _, w => payoutLog e w.2 amount
  | _, _ => []

/-- what a successful step does, as far as C07 is concerned -/
structure StepFacts (op : Op) (w w' : World) : Prop where
  params : w'.2.params = w.2.params
  grow : opCompletes op = none →
    QGrow w.2.params.withdrawPeriod (opRequests op w) w.2.withdraws w'.2.withdraws
  keep : opCompletes op = none → opPays op = false → ∀ b, collOf w.2 b ≤ collOf w'.2 b
  rel : ∀ t, opCompletes op = some t →
    w'.2.withdraws = w.2.withdraws.filter (fun x => !(decide (x.time ≤ t))) ∧
    ∀ b, collOf w'.2 b = collOf w.2 b - dueBy b t w.2.withdraws

theorem StepFacts.ofFrame {op : Op} {w w' : World} (h : Frame w.2 w'.2) (h1 : opCompletes op = none)
    (h2 : opRequests op w = []) : StepFacts op w w' := by
  refine ⟨h.params, ?_, ?_, ?_⟩
  · intro _; rw [h2, h.same.queue]; exact QGrow.refl _ _
  · intro _ _ b; rw [h.same.collOf]; exact Int.le_refl _
  · intro t ht; rw [h1] at ht; cases ht

theorem StepFacts.ofDelayLike {op : Op} {w w' : World} (h : DelayLike w.2 w'.2) (hi : CollInv w.2)
    (h1 : opCompletes op = none) (h2 : opRequests op w = []) : StepFacts op w w' := by
  refine ⟨h.params, ?_, ?_, ?_⟩
  · intro _; rw [h2]; exact h.queue.qgrow hi.wdrPos
  · intro _ _ b; rw [h.collOf]; exact Int.le_refl _
  · intro t ht; rw [h1] at ht; cases ht

theorem StepFacts.ofReqLike {op : Op} {w w' : World} (h : ReqLike w.2 w'.2) (h1 : opCompletes op = none)
    (h2 : QGrow w.2.params.withdrawPeriod (opRequests op w) w.2.withdraws w'.2.withdraws) : StepFacts op w w' := by
  refine ⟨h.params, fun _ => h2, ?_, ?_⟩
  · intro _ _ b; rw [h.collOf]; exact Int.le_refl _
  · intro t ht; rw [h1] at ht; cases ht

theorem apply_facts (op : Op) (w w' : World) (hi : CollInv w.2) (hadm : op.admissible w.2) (h : op.apply w = .ok w') :
    StepFacts op w w' := by
  obtain ⟨l, s⟩ := w
  obtain ⟨l', s'⟩ := w'
  cases op <;> simp only [Op.apply] at h
  case deposit e a c =>
    obtain ⟨x, hx, he⟩ := map_ok h; cases he
    have hp := deposit_params e s _ a c hx
    have hc := deposit_collOf e s _ a c hi.nodup hx
    have hpos := (deposit_spec e s _ a c hx).1
    refine ⟨hp.1, ?_, ?_, ?_⟩
    · intro _; show QGrow _ [] s.withdraws _; rw [hp.2]; exact QGrow.refl _ _
    · intro _ _ b; show collOf s b ≤ _; rw [hc b]; split <;> omega
    · intro t ht; cases ht
  case withdraw e a c =>
    obtain ⟨x, hx, he⟩ := map_ok h; cases he
    exact StepFacts.ofReqLike (withdraw_reqLike e s _ a c hx) rfl
      (withdrawCollateral_qgrow e s _ a _ (withdraw_spec e s _ a c hx).2)
  case stakingChanged e a =>
    obtain ⟨x, hx, he⟩ := map_ok h; cases he
    exact StepFacts.ofReqLike (stakingChanged_reqLike e s _ a hx) rfl (stakingChanged_qgrow e s _ a hx)
  case purchase e poolID shield purchaser staking =>
    exact StepFacts.ofFrame (purchase_frame e l l' s s' _ _ _ _ h) rfl rfl
  case createPool e creator shield fees sponsor sponsorAddr limit =>
    exact StepFacts.ofFrame (createPool_frame e l l' s s' _ _ _ _ _ _ h) rfl rfl
  case updatePool e updater poolID shield fees limit =>
    exact StepFacts.ofFrame (updatePool_frame e l l' s s' _ _ _ _ _ h) rfl rfl
  case pausePool updater poolID active =>
    obtain ⟨x, hx, he⟩ := map_ok h; cases he
    exact StepFacts.ofFrame (pausePool_frame s _ _ _ _ hx) rfl rfl
  case updateSponsor updater poolID sponsor sponsorAddr =>
    obtain ⟨x, hx, he⟩ := map_ok h; cases he
    exact StepFacts.ofFrame (updateSponsor_frame s _ _ _ _ _ hx) rfl rfl
  case unstake e poolID purchaser coins =>
    obtain ⟨x, hx, he⟩ := map_ok h; cases he
    exact StepFacts.ofFrame (unstake_frame e s _ _ _ _ hx) rfl rfl
  case withdrawRewards e a => exact StepFacts.ofFrame (withdrawRewards_frame e l l' s s' a hi.nodup h) rfl rfl
  case withdrawReimbursement e pid a => exact StepFacts.ofFrame (withdrawReimbursement_frame e l l' s s' pid a h) rfl rfl
  case secureCollaterals e poolID purchaser purchaseID loss duration =>
    obtain ⟨x, hx, he⟩ := map_ok h; cases he
    exact StepFacts.ofDelayLike (secureCollaterals_delayLike e s _ _ _ _ _ _ hx) hi rfl rfl
  case claimEnds e pid poolID restoreTo beneficiary purchaseID loss o =>
    cases o with
    | vetoed =>
      unfold claimEnds at h; injection h with h; injection h with _ h; subst h
      exact StepFacts.ofFrame (claimEnd_frame s loss) rfl rfl
    | rejected =>
      unfold claimEnds at h; injection h with h; injection h with _ h; subst h
      exact StepFacts.ofFrame ((restoreShield_frame s poolID restoreTo purchaseID loss).trans (claimEnd_frame _ loss)) rfl rfl
    | failed =>
      unfold claimEnds at h; injection h with h; injection h with _ h; subst h
      exact StepFacts.ofFrame (Frame.refl s) rfl rfl
    | paid =>
      have hadm' := hadm rfl
      have hc : createReimbursement e l s pid loss beneficiary = .ok (l', s') := h
      have := createReimbursement_inv e l l' s s' pid loss beneficiary hi hadm'.1 hadm'.2 hc
      refine ⟨this.2.2.1, fun _ => this.2.2.2, ?_, ?_⟩
      · intro _ hp; cases hp
      · intro t ht; cases ht
  case endBlock e =>
    obtain ⟨x, hx, he⟩ := map_ok h; cases he
    have := endBlock_spec e s _ hi hx
    refine ⟨this.2.2.1, ?_, ?_, ?_⟩
    · intro hc; cases hc
    · intro hc; cases hc
    · intro t ht; cases ht; exact ⟨this.2.1, this.2.2.2.1⟩
  case fundBlockRewards e sender amount =>
    injection h with h; cases h
    exact StepFacts.ofFrame (fundBlockRewards_frame e l s sender amount) rfl rfl
  case withdrawCollateral e a amount =>
    obtain ⟨x, hx, he⟩ := map_ok h; cases he
    exact StepFacts.ofReqLike (withdrawCollateral_reqLike e s _ a amount hadm hx) rfl (withdrawCollateral_qgrow e s _ a amount hx)
  case stakingHook e a staked =>
    obtain ⟨x, hx, he⟩ := map_ok h; cases he
    exact StepFacts.ofReqLike (stakingHook_reqLike e s _ a staked hx) rfl (stakingHook_qgrow e s _ a staked hx)
  case delayWithdraws a amount t =>
    obtain ⟨x, hx, he⟩ := map_ok h; cases he
    exact StepFacts.ofDelayLike (delayWithdraws_delayLike s _ a amount t hx) hi rfl rfl
  case secureFromProvider e p amount duration =>
    obtain ⟨x, hx, he⟩ := map_ok h; cases he
    exact StepFacts.ofDelayLike (secureFromProvider_delayLike e s _ p amount duration hx) hi rfl rfl
  case createReimbursement e pid amount beneficiary =>
    have := createReimbursement_inv e l l' s s' pid amount beneficiary hi hadm.1 hadm.2 h
    refine ⟨this.2.2.1, fun _ => this.2.2.2, ?_, ?_⟩
    · intro _ hp; cases hp
    · intro t ht; cases ht
  case completeWithdrawals e =>
    obtain ⟨x, hx, he⟩ := map_ok h; cases he
    have := completeWithdrawals_spec e s _ hi hx
    refine ⟨this.2.2.1, ?_, ?_, ?_⟩
    · intro hc; cases hc
    · intro hc; cases hc
    · intro t ht; cases ht; exact ⟨this.2.1, this.2.2.2.1⟩
  case expireAndDistribute e =>
    obtain ⟨x, hx, he⟩ := map_ok h; cases he
    exact StepFacts.ofFrame (expireAndDistribute_frame e s _ hx) rfl rfl
  case closePools => injection h with h; cases h; exact StepFacts.ofFrame (closePools_frame s) rfl rfl
  case claimEnd loss => injection h with h; cases h; exact StepFacts.ofFrame (claimEnd_frame s loss) rfl rfl
  case restoreShield poolID purchaser id loss =>
    injection h with h; cases h; exact StepFacts.ofFrame (restoreShield_frame s _ _ _ _) rfl rfl

end Shentu.Shield.Coll
