import Shentu.Proofs.C14FSteps
/-
  Helper lemmas for `Shentu/Props/C14F.lean`, part 3: the rounding remainder of one bounty distribution.  Every share is
  rounded down, so in each denomination the rewards credited fall short of the bounty by less than the number of responses.
-/
namespace Shentu.C14FH
open Shentu Shentu.Oracle Shentu.Halt.Orc Shentu.C15HH
set_option linter.unusedSimpArgs false
set_option linter.unusedVariables false

theorem tdiv_mul_ge (x tv : Int) (hx : 0 ≤ x) (htv : 0 < tv) : x - (tv - 1) ≤ Int.tdiv x tv * tv := by
  have h1 := Int.mul_tdiv_add_tmod x tv
  have h3 := Int.tmod_lt_of_pos x htv
  have : Int.tdiv x tv * tv = tv * Int.tdiv x tv := Int.mul_comm _ _
  omega

theorem dust_aux (k n tv : Int) (htv : 0 < tv) (hn : 1 ≤ n) (h : k * tv ≤ n * (tv - 1)) : k ≤ n - 1 := by
  by_cases hk : n ≤ k
  · have h1 : n * tv ≤ k * tv := Int.mul_le_mul_of_nonneg_right hk (Int.le_of_lt htv)
    have h2 : n * (tv - 1) = n * tv - n := by rw [Int.mul_sub, Int.mul_one]
    omega
  · omega

theorem payAmount_none_respWeight {bond : Denom} {s : State} {b : Nat} {amount tv : Int} {r : Response}
    (h : payAmount bond s b amount tv r = .ok none) : respWeight bond s b r = .ok none := by
  unfold payAmount at h
  unfold respWeight
  cases hc : collateralAmount bond s r.op with
  | error x => rw [hc] at h; cases h
  | ok oc =>
    cases oc with
    | none => rfl
    | some c =>
      rw [hc] at h
      dsimp only at h
      split at h
      · cases h
      · split at h <;> cases h
      · split at h <;> cases h

theorem payAmount_some_findOp {bond : Denom} {s : State} {b : Nat} {amount tv : Int} {r : Response} {a : Int}
    (h : payAmount bond s b amount tv r = .ok (some a)) : ∃ o, findOp s r.op = some o := by
  unfold payAmount collateralAmount at h
  cases hf : findOp s r.op with
  | none => rw [hf] at h; cases h
  | some o => exact ⟨o, rfl⟩

theorem length_cons_mul (r : Response) (rest : List Response) (x : Int) :
    ((r :: rest).length : Int) * x = (rest.length : Int) * x + x := by
  simp only [List.length_cons, Int.natCast_add, Int.add_mul]
  omega

/-- one bounty coin, from below: the increments times the total weight reach the amount times the weight of the responses
    handled, up to one rounding per response; every increment goes to an operator -/
theorem payCoinE_lower {bond : Denom} {s : State} {b : Nat} {dn : Denom} {amount tv : Int} (hw : WOk bond s)
    (ha : 0 ≤ amount) (htv : 0 < tv) :
    ∀ (rs done : List Response) (incs : List (Addr × Coins)) (out : List Response) (W : Int),
      (∀ r ∈ rs, 0 ≤ r.score ∧ r.score ≤ 100) → totalValid bond s b rs 0 = .ok W →
      payCoinE bond b dn amount tv s rs done = .ok (incs, out) →
      amount * W - (rs.length : Int) * (tv - 1) ≤ incSum incs dn * tv ∧ ∀ i ∈ incs, isOp s i.1 = true := by
  intro rs
  induction rs with
  | nil =>
    intro done incs out W _ hW h
    unfold payCoinE at h; cases h
    unfold totalValid at hW; cases hW
    exact ⟨by simp, fun i hi => by cases hi⟩
  | cons r rest ih =>
    intro done incs out W hrs hW h
    have hr := hrs r List.mem_cons_self
    have hrest : ∀ x ∈ rest, 0 ≤ x.score ∧ x.score ≤ 100 := fun x hx => hrs x (List.mem_cons_of_mem _ hx)
    have hlen := length_cons_mul r rest (tv - 1)
    rw [totalValid] at hW
    unfold payCoinE at h
    have hel : eligibleDB s b r = eligible s b r := (Shentu.Props.C15.payout_same_selection s default b r).2
    rw [hel] at h
    by_cases he : eligible s b r = true
    · simp only [he, if_true] at h hW
      cases hpa : payAmount bond s b amount tv r with
      | error e => rw [hpa] at h; cases h
      | ok oa =>
        rw [hpa] at h
        cases oa with
        | none =>
          dsimp only at h
          rw [payAmount_none_respWeight hpa] at hW
          dsimp only at hW
          obtain ⟨i1, i2⟩ := ih _ _ _ _ hrest hW h
          exact ⟨by omega, i2⟩
        | some amt =>
          dsimp only at h
          obtain ⟨w, hw1, hamt⟩ := payAmount_share hpa
          rcases respWeight_ok bond s b r hw.eps1 hw.eps2 hw.coll hr with ⟨x, hx, hnn⟩
          rw [hx] at hw1; cases hw1
          rw [hx] at hW
          dsimp only at hW
          rw [totalValid_shift] at hW
          cases hW0 : totalValid bond s b rest 0 with
          | error e => rw [hW0] at hW; cases hW
          | ok W' =>
            rw [hW0] at hW; cases hW
            have hw0 := hnn w rfl
            have hprod : 0 ≤ amount * w := Int.mul_nonneg ha hw0
            have hshare := tdiv_mul_ge (amount * w) tv hprod htv
            have e1 : amount * (0 + w + W') = amount * w + amount * W' := by rw [Int.zero_add, Int.mul_add]
            obtain ⟨o, ho⟩ := payAmount_some_findOp hpa
            split at h; · cases h
            rw [ho] at h
            dsimp only at h
            split at h; · cases h
            rename_i incs' d' hrec
            cases h
            obtain ⟨i1, i2⟩ := ih _ _ _ _ hrest hW0 hrec
            have hrew : Coins.amountOf (if (amt == 0) = true then ([] : Coins) else [(dn, amt)]) dn = amt := by
              by_cases hz : amt = 0
              · simp [hz]
              · simp [hz]
            refine ⟨?_, ?_⟩
            · rw [incSum_cons]; dsimp only; rw [hrew, Int.add_mul, e1]
              rw [← hamt] at hshare
              omega
            · intro i hi
              rcases List.mem_cons.mp hi with hi | hi
              · subst hi; simp [isOp, ho]
              · exact i2 i hi
    · simp only [he] at h hW
      obtain ⟨i1, i2⟩ := ih _ _ _ _ hrest hW h
      exact ⟨by omega, i2⟩

theorem incSum_nonneg {incs : List (Addr × Coins)} (h : ∀ i ∈ incs, ∀ d, 0 ≤ Coins.amountOf i.2 d) (d : Denom) :
    0 ≤ incSum incs d := by
  induction incs with
  | nil => simp
  | cons i incs ih =>
    rw [incSum_cons]
    have := h i List.mem_cons_self d
    have := ih (fun j hj => h j (List.mem_cons_of_mem _ hj))
    omega

theorem length_of_rsig {rs rs' : List Response} (h : rs'.map rsig = rs.map rsig) : rs'.length = rs.length := by
  have := congrArg List.length h
  simpa using this

/-- all bounty coins, from below: in every denomination the increments fall short of the coins by less than the number of
    responses -/
theorem payAllE_lower {bond : Denom} {s : State} {b : Nat} {tv : Int} (hw : WOk bond s) (htv : 0 < tv) :
    ∀ (cs : List (Denom × Int)) (rs : List Response) (incs : List (Addr × Coins)) (out : List Response),
      (cs.map (·.1)).Nodup → (∀ c ∈ cs, 0 ≤ c.2) → (∀ r ∈ rs, 0 ≤ r.score ∧ r.score ≤ 100) →
      totalValid bond s b rs 0 = .ok tv → payAllE bond b tv s cs rs = .ok (incs, out) →
      (∀ d, Coins.amountOf cs d - incSum incs d ≤ (rs.length : Int) - 1) ∧ ∀ i ∈ incs, isOp s i.1 = true := by
  intro cs
  induction cs with
  | nil =>
    intro rs incs out _ _ _ hW h
    unfold payAllE at h; cases h
    have hlen : 1 ≤ (rs.length : Int) := by
      cases rs with
      | nil => unfold totalValid at hW; cases hW; omega
      | cons r rest => simp only [List.length_cons, Int.natCast_add]; omega
    exact ⟨fun d => by simp; omega, fun i hi => by cases hi⟩
  | cons c cs ih =>
    intro rs incs out hnd hcs hrs hW h
    have hlen : 1 ≤ (rs.length : Int) := by
      cases rs with
      | nil => unfold totalValid at hW; cases hW; omega
      | cons r rest => simp only [List.length_cons, Int.natCast_add]; omega
    unfold payAllE at h
    split at h; · cases h
    rename_i incs1 rs1 h1
    split at h; · cases h
    rename_i incs2 d2 h2
    cases h
    have hc := hcs c List.mem_cons_self
    have hndc := List.nodup_cons.mp (by simpa using hnd : (c.1 :: cs.map (·.1)).Nodup)
    obtain ⟨a1, a2, a3⟩ := payCoinE_bound hw hc htv rs [] incs1 rs1 tv hrs hW h1
    obtain ⟨l1, l2⟩ := payCoinE_lower hw hc htv rs [] incs1 rs1 tv hrs hW h1
    have hsig := payCoinE_rsig _ _ _ _ _ _ _ _ _ _ h1
    simp only [List.map_nil, List.nil_append] at hsig
    have hW1 : totalValid bond s b rs1 0 = .ok tv := by rw [totalValid_rsig bond s b rs1 rs 0 hsig]; exact hW
    have hcs' : ∀ x ∈ cs, 0 ≤ x.2 := fun x hx => hcs x (List.mem_cons_of_mem _ hx)
    obtain ⟨b1, b2⟩ := ih rs1 incs2 out hndc.2 hcs' (scores_of_rsig hsig hrs) hW1 h2
    obtain ⟨u1, _⟩ := payAllE_bound hw htv cs rs1 incs2 out hcs' (scores_of_rsig hsig hrs) hW1 h2
    rw [length_of_rsig hsig] at b1
    refine ⟨fun d => ?_, ?_⟩
    · rw [incSum_append, Coins.amountOf_cons]
      by_cases hd : c.1 = d
      · subst hd
        have hz := amountOf_eq_zero_of_notMem cs c.1 hndc.1
        have hn2 := incSum_nonneg u1 c.1
        have hk : (c.2 - incSum incs1 c.1) * tv ≤ (rs.length : Int) * (tv - 1) := by
          rw [Int.sub_mul]; omega
        have := dust_aux _ _ tv htv hlen hk
        simp only [beq_self_eq_true, if_true]
        omega
      · have h0 := a2 d (fun h' => hd h'.symm)
        have := b1 d
        have hbd : (c.1 == d) = false := by simpa using hd
        simp only [hbd, Bool.false_eq_true, if_false]
        omega
    · intro i hi
      rcases List.mem_append.mp hi with hi | hi
      · exact l2 i hi
      · exact b2 i hi

theorem filterMap_cg_fst_sublist (c : Coins) : ∀ (L : List Denom), ((L.filterMap (cg c)).map (·.1)).Sublist L
  | [] => by simp
  | y :: ys => by
    rw [filterMap_cg_cons]
    split
    · exact List.Sublist.cons _ (filterMap_cg_fst_sublist c ys)
    · simp only [List.map_cons]
      exact List.Sublist.cons_cons _ (filterMap_cg_fst_sublist c ys)

theorem canon_denoms_nodup (c : Coins) : ((Coins.canon c).map (·.1)).Nodup := by
  have e : Coins.canon c = (Coins.sortDenoms (c.map (·.1)).eraseDups).filterMap (cg c) := rfl
  rw [e]
  exact (nodup_sortDenoms (nodup_eraseDups_aux _ _ (Nat.le_refl _))).sublist (filterMap_cg_fst_sublist c _)

/-- **the remainder of one distribution**: in every denomination the increments fall short of the bounty by at most the
    number of responses minus one; every increment goes to an operator -/
theorem distributeBountyE_lower {bond : Denom} {s : State} {t t2 : Task} {incs : List (Addr × Coins)} (hw : WOk bond s)
    (hb : Coins.isAnyNegative t.bounty = false) (hrs : ∀ r ∈ t.responses, 0 ≤ r.score ∧ r.score ≤ 100)
    (h : distributeBountyE bond s t = .ok (incs, t2)) :
    (∀ d, Coins.amountOf t.bounty d - incSum incs d ≤ (t.responses.length : Int) - 1) ∧ ∀ i ∈ incs, isOp s i.1 = true := by
  unfold distributeBountyE at h
  split at h; · cases h
  rename_i tv htv
  split at h; · cases h
  rename_i hnz
  split at h; · cases h
  rename_i incs' rs hp
  cases h
  have h0 := totalValid_nonneg hw hrs htv
  have hpos : 0 < tv := by
    have : tv ≠ 0 := by simpa [Gen.Oracle.dbNoValid] using hnz
    omega
  have := payAllE_lower hw hpos (Coins.canon t.bounty) t.responses incs rs (canon_denoms_nodup _) (canon_nonneg _ hb) hrs htv hp
  exact ⟨fun d => by rw [← amountOf_canon]; exact this.1 d, this.2⟩

/-! ### crediting, exactly -/

theorem find_of_mem_addrs {a : Addr} {l : List Operator} (h : a ∈ l.map (·.addr)) : ∃ o, l.find? (·.addr == a) = some o := by
  obtain ⟨x, hx, hxa⟩ := List.mem_map.1 h
  cases hf : l.find? (·.addr == a) with
  | some o => exact ⟨o, rfl⟩
  | none =>
    have := List.find?_eq_none.1 hf x hx
    simp [hxa] at this

theorem credits_exact (d : Denom) : ∀ (incs : List (Addr × Coins)) {l : List Operator}, (l.map (·.addr)).Nodup →
    (∀ i ∈ incs, i.1 ∈ l.map (·.addr)) → rewSum (credits incs l) d = rewSum l d + incSum incs d
  | [], l, _, _ => by simp
  | i :: incs, l, hn, hm => by
    rw [credits_cons]
    obtain ⟨o, ho⟩ := find_of_mem_addrs (hm i List.mem_cons_self)
    obtain ⟨a1, _, a3⟩ := credit_found (c := i.2) (d := d) hn ho
    have ih := credits_exact d incs (l := credit i.1 i.2 l) (by rw [a1]; exact hn)
      (fun j hj => by rw [a1]; exact hm j (List.mem_cons_of_mem _ hj))
    rw [ih, a3, incSum_cons]
    omega

theorem mem_addrs_of_isOp {s : State} {a : Addr} (h : isOp s a = true) : a ∈ s.ops.map (·.addr) := by
  unfold isOp at h
  cases hf : findOp s a with
  | none => rw [hf] at h; cases h
  | some o =>
    have h1 := findOp_addr s a o hf
    have h2 : o ∈ s.ops := List.mem_of_find?_eq_some hf
    rw [← h1]; exact List.mem_map_of_mem h2

/-- **one closing task, the rewards**: either nothing is credited in any denomination, or the pending task under the key
    is distributed and in every denomination the rewards credited are at most its bounty and fall short of it by at most
    the number of its responses minus one -/
theorem endOne_rewards {bond : Denom} {s s' : State} {id : String × String} (hw : WF bond s)
    (h : endOne bond s id = .ok s') :
    (∀ d, rewSum s'.ops d = rewSum s.ops d) ∨
    ∃ t, findTask s (id.1 ++ id.2) = some t ∧ t.status = 1 ∧
      ∀ d, rewSum s.ops d + Coins.amountOf t.bounty d - ((t.responses.length : Int) - 1) ≤ rewSum s'.ops d ∧
           rewSum s'.ops d ≤ rewSum s.ops d + Coins.amountOf t.bounty d := by
  rw [endOne_eq bond id (Agree.refl _ s)] at h
  cases he : endOneE bond s (id.1 ++ id.2) with
  | error x => rw [he] at h; cases h
  | ok pr =>
    obtain ⟨f, incs⟩ := pr
    rw [he] at h; dsimp only at h
    cases h
    rcases endOneE_cases he with ⟨hf, hin⟩ | ⟨t, t1, hfs, hst, hagg, hfin1, hc⟩
    · subst hf hin; rw [app_id]; exact Or.inl (fun _ => rfl)
    · have htk := findTask_tasksOk hw.endInv.tasks hfs
      rcases hc with ⟨hf, hin⟩ | ⟨t2, hd, hf, hfin2⟩
      · subst hf hin; exact Or.inl (fun _ => rfl)
      · subst hf
        right
        refine ⟨t, hfs, hst, fun d => ?_⟩
        have hsc := scores_of_rsig hfin1.resp htk.2
        have hbn : Coins.isAnyNegative t1.bounty = false := by rw [hfin1.bounty]; exact htk.1
        have hup := distributeBountyE_bound (EndInv.wok hw.endInv) hbn hsc hd
        have hlo := distributeBountyE_lower (EndInv.wok hw.endInv) hbn hsc hd
        have hex := credits_exact d incs hw.opsNodup (fun i hi => mem_addrs_of_isOp (hlo.2 i hi))
        have e1 : (app (id.1 ++ id.2) (fun _ => t2) incs s).ops = credits incs s.ops := rfl
        have h1 := hup.2 d
        have h2 := hlo.1 d
        rw [hfin1.bounty] at h1 h2
        rw [length_of_rsig hfin1.resp] at h2
        rw [e1, hex]
        omega

end Shentu.C14FH
