import Shentu.Proofs.ShieldFundBlock
/-
  C02 / C04 helper lemmas, part 5: the payout of an approved claim (`CreateReimbursement`).
-/
namespace Shentu.Shield.Fund
open Shentu

/-- `purchased` share of one provider in `reimburseLoop` (verbatim) -/
def payoutPur (pr yr : Dec) (p : Provider) (tp ty : Int) : Int :=
  let pur0 := min (Dec.truncateInt (Dec.mul (Dec.ofInt p.collateral) pr)) tp
  let pay0 := min (Dec.truncateInt (Dec.mul (Dec.ofInt p.collateral) yr)) ty
  if pur0 < tp && p.collateral > pay0 + pur0 then pur0 + 1 else pur0

/-- the amount one provider pays in `reimburseLoop` (verbatim) -/
def payoutPay (pr yr : Dec) (p : Provider) (tp ty : Int) : Int :=
  let pay0 := min (Dec.truncateInt (Dec.mul (Dec.ofInt p.collateral) yr)) ty
  if pay0 < ty && p.collateral > pay0 + payoutPur pr yr p tp ty then pay0 + 1 else pay0

/-- one round of `reimburseLoop`, with the two shares named -/
theorem reimburseLoop_cons (e : Env) (pr yr : Dec) (p : Provider) (ps : List Provider) (tp ty : Int) (l : Ledger) (s : State) :
    reimburseLoop e pr yr (p :: ps) tp ty l s =
      if ty ≤ 0 then .ok (ty, l, s)
      else
        match updateProviderForPayout s p.addr (payoutPur pr yr p tp ty) (payoutPay pr yr p tp ty) with
        | .error x => .error x
        | .ok s1 =>
          match stakingChanged e s1 p.addr with
          | .error x => .error x
          | .ok s2 =>
            reimburseLoop e pr yr ps (tp - payoutPur pr yr p tp ty) (ty - payoutPay pr yr p tp ty)
              (l.move e.bondedPool e.modAddr [(e.bond, payoutPay pr yr p tp ty)]) s2 := rfl

theorem payoutPay_le (pr yr : Dec) (p : Provider) (tp ty : Int) : payoutPay pr yr p tp ty ≤ ty := by
  unfold payoutPay
  dsimp only
  split
  · rename_i h; bool_norm at h; omega
  · omega

theorem setProvider_same' (s s1 : State) (a : Addr) (p p' : Provider) (hf : findProvider s a = some p)
    (hfr : Frame s s1) (ha : p'.addr = p.addr) (hr : p'.rewards = p.rewards) : Same s (setProvider s1 p') := by
  have hf1 : findProvider s1 a = some p := by unfold findProvider; rw [hfr.providers]; exact hf
  exact hfr.same.trans (setProvider_same s1 a p p' hf1 ha hr)

theorem updateProviderForPayout_same (s s' : State) (a : Addr) (purchased payout : Int)
    (h : updateProviderForPayout s a purchased payout = .ok s') : Same s s' := by
  unfold updateProviderForPayout at h
  ok_cases h
  all_goals
    injection h with h; subst h
    have hp := ‹findProvider s a = some _›
    exact setProvider_same' s _ a _ _ hp ⟨rfl, rfl, rfl, rfl, rfl⟩ rfl rfl

/-- the payout loop: nothing owed changes, the coins taken from the providers' stake arrive in the module account,
    and what is left to pay never goes negative -/
theorem reimburseLoop_spec (e : Env) (pr yr : Dec) (hbp : e.bondedPool ≠ e.modAddr) (ps : List Provider) :
    ∀ (tp ty : Int) (l : Ledger) (s : State) (left : Int) (l' : Ledger) (s' : State),
      reimburseLoop e pr yr ps tp ty l s = .ok (left, l', s') →
      Same s s' ∧ l'.balOf e.modAddr e.bond = l.balOf e.modAddr e.bond + (ty - left) ∧ (0 ≤ ty → 0 ≤ left) := by
  induction ps with
  | nil =>
    intro tp ty l s left l' s' h
    unfold reimburseLoop at h
    injection h with h; injection h with h1 h; injection h with h2 h3; subst h1 h2 h3
    exact ⟨Same.refl _, by omega, fun h => h⟩
  | cons p ps ih =>
    intro tp ty l s left l' s' h
    rw [reimburseLoop_cons] at h
    ok_cases h
    · injection h with h; injection h with h1 h; injection h with h2 h3; subst h1 h2 h3
      exact ⟨Same.refl _, by omega, fun h => h⟩
    · rename_i _ _ s1 h1 _ s2 h2
      obtain ⟨hs, hb, hl⟩ := ih _ _ _ _ _ _ _ h
      have hpay := payoutPay_le pr yr p tp ty
      refine ⟨((updateProviderForPayout_same _ _ _ _ _ h1).trans (stakingChanged_same _ _ _ _ h2)).trans hs, ?_, ?_⟩
      · rw [hb, move_in _ _ _ _ _ hbp, amountOf_one]; omega
      · intro _; apply hl; omega

/-- `CreateReimbursement` unfolded: the loop's result and the record that is written -/
theorem createReimbursement_ok (e : Env) (l l' : Ledger) (s s' : State) (pid : Nat) (amount : Int) (b : Addr)
    (h : createReimbursement e l s pid amount b = .ok (l', s')) :
    ∃ left s1, s.totalCollateral ≠ 0 ∧
      reimburseLoop e (Dec.quo (Dec.ofInt s.totalShield) (Dec.ofInt s.totalCollateral))
        (Dec.quo (Dec.ofInt amount) (Dec.ofInt s.totalCollateral)) s.providers s.totalShield amount l s = .ok (left, l', s1) ∧
      left ≤ 0 ∧
      s' = { s1 with reimbs := (s1.reimbs.filter (·.pid != pid)) ++
                        [{ pid := pid, amount := amount, beneficiary := b, payoutTime := e.t + s.params.payoutPeriod }],
                     totalCollateral := s.totalCollateral - amount, totalClaimed := s1.totalClaimed - amount } := by
  unfold createReimbursement at h
  ok_cases h
  rename_i hc _ left l1 s1 hl hleft
  injection h with h; injection h with h1 h2; subst h1 h2
  refine ⟨left, s1, ?_, hl, by omega, rfl⟩
  intro h0; apply hc; simp [h0]

/-- the payout of an approved claim: one fresh record of `amount`, `amount` coins arrive -/
theorem createReimbursement_spec (e : Env) (l l' : Ledger) (s s' : State) (pid : Nat) (amount : Int) (b : Addr)
    (h : createReimbursement e l s pid amount b = .ok (l', s'))
    (hbp : e.bondedPool ≠ e.modAddr) (hamt : 0 ≤ amount) (hfresh : ∀ r ∈ s.reimbs, r.pid ≠ pid) (hk : Keyed s) :
    Keyed s' ∧ s'.blockFees = s.blockFees ∧ owedRaw s' = owedRaw s + amount * Dec.prec ∧
      l'.balOf e.modAddr e.bond = l.balOf e.modAddr e.bond + amount := by
  obtain ⟨left, s1, _, hl, hleft, hs'⟩ := createReimbursement_ok e l l' s s' pid amount b h
  obtain ⟨hsame, hbal, hnn⟩ := reimburseLoop_spec e _ _ hbp _ _ _ _ _ _ _ _ hl
  have hl0 : left = 0 := by have := hnn hamt; omega
  have hk1 := hsame.keyed hk
  have hfil : s1.reimbs.filter (fun x => x.pid != pid) = s.reimbs := by
    rw [hsame.reimbs]
    apply filter_none (fun r : Reimb => r.pid == pid) _ (fun x => rfl)
    intro x hx
    simpa using hfresh x hx
  subst hs'
  refine ⟨⟨hk1.prov, hk1.stake, ?_⟩, hsame.blockFees, ?_, by rw [hbal, hl0]; omega⟩
  · show ((s1.reimbs.filter (fun x => x.pid != pid) ++ _).map (·.pid)).Nodup
    rw [hfil]
    simp only [List.map_append, List.map_cons, List.map_nil]
    apply nodup_insert_middle _ [] _ (by simpa using hk.reimb)
    intro hc
    simp only [List.append_nil] at hc
    obtain ⟨x, hx, hxa⟩ := List.mem_map.mp hc
    exact hfresh x hx hxa
  · have ho := hsame.owed hk
    simp only [owedRaw, sumRewards, sumStakes, sumReimbs] at ho ⊢
    show _ + _ + _ + (_ + sumI (·.amount) (s1.reimbs.filter (fun x => x.pid != pid) ++ _)) * Dec.prec = _
    rw [hfil]
    rw [hsame.reimbs] at ho
    simp only [sumI_append, sumI_cons, sumI_nil, Dec.prec] at ho ⊢
    omega

end Shentu.Shield.Fund
