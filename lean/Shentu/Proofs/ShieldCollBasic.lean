import Shentu.Model.Shield
import Shentu.Proofs.Tactics
/-
  Helper lemmas for the collateral / withdrawal-queue half of C03 and for C07:
  integer sums, the queue primitives (`insertWithdraw`, `removeLast`, `removeFirst`,
  `replaceFirst`), the provider store (`findProvider`, `setProvider`, `insertProvider`).
-/
set_option linter.unusedSimpArgs false
namespace Shentu.Shield.Coll
open List

/-! ## sums -/

@[simp] theorem sumI_nil {α} (f : α → Int) : sumI f [] = 0 := rfl

@[simp] theorem sumI_cons {α} (f : α → Int) (x : α) (l : List α) : sumI f (x :: l) = f x + sumI f l := by
  simp [sumI]

theorem sumI_append {α} (f : α → Int) (l1 l2 : List α) : sumI f (l1 ++ l2) = sumI f l1 + sumI f l2 := by
  induction l1 with
  | nil => simp
  | cons x xs ih => simp only [List.cons_append, sumI_cons, ih]; omega

theorem sumI_perm {α} (f : α → Int) {l1 l2 : List α} (h : l1 ~ l2) : sumI f l1 = sumI f l2 := by
  induction h with
  | nil => rfl
  | cons x _ ih => simp only [sumI_cons, ih]
  | swap x y l => simp only [sumI_cons]; omega
  | trans _ _ ih1 ih2 => exact ih1.trans ih2

theorem sumI_reverse {α} (f : α → Int) (l : List α) : sumI f l.reverse = sumI f l :=
  sumI_perm f (List.reverse_perm l)

theorem sumI_nonneg {α} (f : α → Int) (l : List α) (h : ∀ x ∈ l, 0 ≤ f x) : 0 ≤ sumI f l := by
  induction l with
  | nil => simp
  | cons x xs ih =>
    simp only [sumI_cons]
    have h1 := h x List.mem_cons_self
    have h2 := ih (fun y hy => h y (List.mem_cons_of_mem _ hy))
    omega

theorem sumI_map {α β} (f : β → Int) (g : α → β) (l : List α) : sumI f (l.map g) = sumI (fun x => f (g x)) l := by
  induction l with
  | nil => rfl
  | cons x xs ih => simp only [List.map_cons, sumI_cons, ih]

theorem sumI_congr {α} (f g : α → Int) (l : List α) (h : ∀ x ∈ l, f x = g x) : sumI f l = sumI g l := by
  induction l with
  | nil => rfl
  | cons x xs ih =>
    simp only [sumI_cons]
    rw [h x List.mem_cons_self, ih (fun y hy => h y (List.mem_cons_of_mem _ hy))]

/-! ## weighted sums over the queue -/

/-- the total amount of the queue entries selected by `r` -/
def wsum (r : Withdraw → Bool) (q : List Withdraw) : Int := sumI (·.amount) (q.filter r)

@[simp] theorem wsum_nil (r : Withdraw → Bool) : wsum r [] = 0 := rfl

theorem wsum_cons (r : Withdraw → Bool) (x : Withdraw) (q : List Withdraw) :
    wsum r (x :: q) = (if r x then x.amount else 0) + wsum r q := by
  unfold wsum
  by_cases h : r x <;> simp [h]

theorem wsum_append (r : Withdraw → Bool) (q1 q2 : List Withdraw) : wsum r (q1 ++ q2) = wsum r q1 + wsum r q2 := by
  unfold wsum; rw [List.filter_append, sumI_append]

theorem wsum_perm (r : Withdraw → Bool) {q1 q2 : List Withdraw} (h : q1 ~ q2) : wsum r q1 = wsum r q2 :=
  sumI_perm _ (h.filter r)

theorem wsum_nonneg (r : Withdraw → Bool) (q : List Withdraw) (h : ∀ w ∈ q, 0 < w.amount) : 0 ≤ wsum r q := by
  apply sumI_nonneg
  intro x hx
  have := h x (List.mem_filter.mp hx).1
  omega

theorem wsum_congr (r r' : Withdraw → Bool) (q : List Withdraw) (h : ∀ w ∈ q, r w = r' w) : wsum r q = wsum r' q := by
  unfold wsum
  rw [List.filter_congr h]

/-- selecting more entries gives a larger sum (amounts positive) -/
theorem wsum_mono (r r' : Withdraw → Bool) (q : List Withdraw) (hp : ∀ w ∈ q, 0 < w.amount)
    (h : ∀ w ∈ q, r w = true → r' w = true) : wsum r q ≤ wsum r' q := by
  induction q with
  | nil => simp
  | cons x xs ih =>
    have h1 := ih (fun w hw => hp w (List.mem_cons_of_mem _ hw)) (fun w hw => h w (List.mem_cons_of_mem _ hw))
    have h2 := hp x List.mem_cons_self
    have h3 := h x List.mem_cons_self
    simp only [wsum_cons]
    by_cases hr : r x = true
    · simp only [hr, h3 hr, if_true]; omega
    · by_cases hr' : r' x = true
      · simp only [hr, hr', if_true, if_false]; omega
      · simp only [hr, hr', if_false]; omega

theorem wsum_filter_false (r : Withdraw → Bool) (q : List Withdraw) (h : ∀ w ∈ q, r w = false) : wsum r q = 0 := by
  unfold wsum
  have : q.filter r = [] := by
    apply List.filter_eq_nil_iff.mpr
    intro a ha; simp [h a ha]
  rw [this]; rfl

/-! ## the queue primitives -/

theorem insertWithdraw_perm (w : Withdraw) (q : List Withdraw) : insertWithdraw w q ~ w :: q := by
  induction q with
  | nil => exact Perm.refl _
  | cons x xs ih =>
    unfold insertWithdraw
    split
    · exact Perm.refl _
    · exact (ih.cons x).trans (Perm.swap w x xs)

/-- the entry is put between two parts of the queue, which keep their order -/
theorem insertWithdraw_split (w : Withdraw) (q : List Withdraw) :
    ∃ l1 l2, q = l1 ++ l2 ∧ insertWithdraw w q = l1 ++ w :: l2 ∧ (∀ x ∈ l1, x.time ≤ w.time) ∧
      (∀ x, l2.head? = some x → w.time < x.time) := by
  induction q with
  | nil => exact ⟨[], [], rfl, rfl, by simp, by simp⟩
  | cons x xs ih =>
    unfold insertWithdraw
    split
    · rename_i hlt
      refine ⟨[], x :: xs, rfl, rfl, by simp, ?_⟩
      intro y hy; simp at hy; subst hy; exact hlt
    · rename_i hlt
      obtain ⟨l1, l2, h1, h2, h3, h4⟩ := ih
      refine ⟨x :: l1, l2, by simp [h1], by simp [h2], ?_, h4⟩
      intro y hy
      rcases List.mem_cons.mp hy with hy | hy
      · subst hy; omega
      · exact h3 y hy

theorem mem_insertWithdraw {w x : Withdraw} {q : List Withdraw} : x ∈ insertWithdraw w q ↔ x = w ∨ x ∈ q := by
  rw [(insertWithdraw_perm w q).mem_iff, List.mem_cons]

theorem wsum_insertWithdraw (r : Withdraw → Bool) (w : Withdraw) (q : List Withdraw) :
    wsum r (insertWithdraw w q) = (if r w then w.amount else 0) + wsum r q := by
  rw [wsum_perm r (insertWithdraw_perm w q), wsum_cons]

theorem filter_insertWithdraw_of_not (r : Withdraw → Bool) (w : Withdraw) (q : List Withdraw) (h : r w = false) :
    (insertWithdraw w q).filter r = q.filter r := by
  induction q with
  | nil => simp [insertWithdraw, h]
  | cons x xs ih =>
    unfold insertWithdraw
    split
    · simp [List.filter_cons, h]
    · simp only [List.filter_cons, ih]

/-- `removeLast` removes one matching element when there is one -/
theorem removeLast_perm {α} (p : α → Bool) (l : List α) (h : l.any p = true) :
    ∃ x, p x = true ∧ x ∈ l ∧ l ~ x :: removeLast p l := by
  induction l with
  | nil => simp at h
  | cons x xs ih =>
    unfold removeLast
    split
    · rename_i hany
      obtain ⟨y, hy, hm, hperm⟩ := ih hany
      exact ⟨y, hy, List.mem_cons_of_mem _ hm, (hperm.cons x).trans (Perm.swap y x _)⟩
    · rename_i hany
      have hx : p x = true := by
        simp only [List.any_cons, Bool.or_eq_true] at h
        rcases h with h | h
        · exact h
        · exact absurd h hany
      simp only [hx, if_true]
      exact ⟨x, hx, List.mem_cons_self, Perm.refl _⟩

theorem removeLast_none {α} (p : α → Bool) (l : List α) (h : l.any p = false) : removeLast p l = l := by
  induction l with
  | nil => rfl
  | cons x xs ih =>
    simp only [List.any_cons, Bool.or_eq_false_iff] at h
    unfold removeLast
    simp [h.1, h.2]

theorem removeLast_filter {α} (p r : α → Bool) (l : List α) (h : ∀ x, p x = true → r x = false) :
    (removeLast p l).filter r = l.filter r := by
  induction l with
  | nil => rfl
  | cons x xs ih =>
    unfold removeLast
    split
    · simp only [List.filter_cons, ih]
    · split
      · rename_i hx; simp [h x hx]
      · rfl

theorem removeFirst_perm {α} (p : α → Bool) (l : List α) (h : l.any p = true) :
    ∃ x, p x = true ∧ x ∈ l ∧ l ~ x :: removeFirst p l := by
  induction l with
  | nil => simp at h
  | cons x xs ih =>
    unfold removeFirst
    split
    · rename_i hx; exact ⟨x, hx, List.mem_cons_self, Perm.refl _⟩
    · rename_i hx
      have hany : xs.any p = true := by
        simp only [List.any_cons, Bool.or_eq_true] at h
        rcases h with h | h
        · exact absurd h hx
        · exact h
      obtain ⟨y, hy, hm, hperm⟩ := ih hany
      exact ⟨y, hy, List.mem_cons_of_mem _ hm, (hperm.cons x).trans (Perm.swap y x _)⟩

theorem removeFirst_none {α} (p : α → Bool) (l : List α) (h : l.any p = false) : removeFirst p l = l := by
  induction l with
  | nil => rfl
  | cons x xs ih =>
    simp only [List.any_cons, Bool.or_eq_false_iff] at h
    unfold removeFirst
    simp [h.1, ih h.2]

theorem removeFirst_filter {α} (p r : α → Bool) (l : List α) (h : ∀ x, p x = true → r x = false) :
    (removeFirst p l).filter r = l.filter r := by
  induction l with
  | nil => rfl
  | cons x xs ih =>
    unfold removeFirst
    split
    · rename_i hx; simp [h x hx]
    · simp only [List.filter_cons, ih]

theorem replaceFirst_perm {α} (p : α → Bool) (f : α → α) (l : List α) (h : l.any p = true) :
    ∃ x l0, p x = true ∧ x ∈ l ∧ l ~ x :: l0 ∧ replaceFirst p f l ~ f x :: l0 := by
  induction l with
  | nil => simp at h
  | cons x xs ih =>
    unfold replaceFirst
    split
    · rename_i hx; exact ⟨x, xs, hx, List.mem_cons_self, Perm.refl _, Perm.refl _⟩
    · rename_i hx
      have hany : xs.any p = true := by
        simp only [List.any_cons, Bool.or_eq_true] at h
        rcases h with h | h
        · exact absurd h hx
        · exact h
      obtain ⟨y, l0, hy, hm, hperm, hperm'⟩ := ih hany
      exact ⟨y, x :: l0, hy, List.mem_cons_of_mem _ hm, (hperm.cons x).trans (Perm.swap y x _),
        (hperm'.cons x).trans (Perm.swap (f y) x _)⟩

theorem replaceFirst_none {α} (p : α → Bool) (f : α → α) (l : List α) (h : l.any p = false) : replaceFirst p f l = l := by
  induction l with
  | nil => rfl
  | cons x xs ih =>
    simp only [List.any_cons, Bool.or_eq_false_iff] at h
    unfold replaceFirst
    simp [h.1, ih h.2]

theorem replaceFirst_filter {α} (p r : α → Bool) (f : α → α) (l : List α)
    (h : ∀ x, p x = true → r x = false ∧ r (f x) = false) :
    (replaceFirst p f l).filter r = l.filter r := by
  induction l with
  | nil => rfl
  | cons x xs ih =>
    unfold replaceFirst
    split
    · rename_i hx; simp [(h x hx).1, (h x hx).2]
    · simp only [List.filter_cons, ih]

/-- a queue entry is determined by its three fields -/
theorem Withdraw.ext' {x w : Withdraw} (h1 : x.time = w.time) (h2 : x.addr = w.addr) (h3 : x.amount = w.amount) : x = w := by
  cases x; cases w; simp_all

/-! ## the provider store -/

/-- the list update behind `setProvider` -/
def updP (p : Provider) (l : List Provider) : List Provider := l.map (fun x => if x.addr == p.addr then p else x)

theorem setProvider_providers (s : State) (p : Provider) : (setProvider s p).providers = updP p s.providers := rfl

theorem findProvider_some {s : State} {a : Addr} {p : Provider} (h : findProvider s a = some p) :
    p ∈ s.providers ∧ p.addr = a := by
  unfold findProvider at h
  have h1 := List.mem_of_find?_eq_some h
  have h2 := List.find?_some h
  exact ⟨h1, by simpa using h2⟩

theorem findProvider_none {s : State} {a : Addr} (h : findProvider s a = none) : ∀ p ∈ s.providers, p.addr ≠ a := by
  unfold findProvider at h
  intro p hp
  have := List.find?_eq_none.mp h p hp
  simpa using this

theorem find_of_mem_nodup (l : List Provider) (hn : (l.map (·.addr)).Nodup) (p : Provider) (hp : p ∈ l) :
    l.find? (·.addr == p.addr) = some p := by
  induction l with
  | nil => cases hp
  | cons x xs ih =>
    simp only [List.map_cons, List.nodup_cons] at hn
    rcases List.mem_cons.mp hp with h | h
    · subst h; simp
    · have hne : x.addr ≠ p.addr := by
        intro he; apply hn.1; rw [he]; exact List.mem_map.mpr ⟨p, h, rfl⟩
      rw [List.find?_cons_of_neg (by simpa using hne)]
      exact ih hn.2 h

theorem findProvider_of_mem {s : State} (hn : (s.providers.map (·.addr)).Nodup) {p : Provider} (hp : p ∈ s.providers) :
    findProvider s p.addr = some p := find_of_mem_nodup _ hn p hp

theorem updP_addrs (p : Provider) (l : List Provider) : (updP p l).map (·.addr) = l.map (·.addr) := by
  unfold updP
  rw [List.map_map]
  apply List.map_congr_left
  intro x _
  simp only [Function.comp]
  split
  · rename_i h; simp at h; exact h.symm
  · rfl

theorem updP_of_not_mem (p : Provider) (l : List Provider) (h : ∀ x ∈ l, x.addr ≠ p.addr) : updP p l = l := by
  unfold updP
  conv => rhs; rw [← List.map_id l]
  apply List.map_congr_left
  intro x hx
  simp [h x hx]

theorem sumI_updP (f : Provider → Int) (p p0 : Provider) (l : List Provider) (hn : (l.map (·.addr)).Nodup)
    (hm : p0 ∈ l) (ha : p.addr = p0.addr) : sumI f (updP p l) = sumI f l - f p0 + f p := by
  induction l with
  | nil => cases hm
  | cons x xs ih =>
    simp only [List.map_cons, List.nodup_cons] at hn
    rcases List.mem_cons.mp hm with h | h
    · subst h
      have hrest : updP p xs = xs := by
        apply updP_of_not_mem
        intro y hy he
        apply hn.1; rw [← ha, ← he]; exact List.mem_map.mpr ⟨y, hy, rfl⟩
      have : updP p (p0 :: xs) = p :: updP p xs := by simp [updP, ha]
      rw [this, hrest]; simp only [sumI_cons]; omega
    · have hne : x.addr ≠ p.addr := by
        intro he; apply hn.1; rw [he, ha]; exact List.mem_map.mpr ⟨p0, h, rfl⟩
      have : updP p (x :: xs) = x :: updP p xs := by simp [updP, hne]
      rw [this]; simp only [sumI_cons, ih hn.2 h]; omega

theorem mem_updP {p q : Provider} {l : List Provider} (h : q ∈ updP p l) : q = p ∨ (q ∈ l ∧ q.addr ≠ p.addr) := by
  unfold updP at h
  obtain ⟨x, hx, he⟩ := List.mem_map.mp h
  split at he
  · left; exact he.symm
  · rename_i hne; right; subst he; exact ⟨hx, by simpa using hne⟩

theorem find_updP (p : Provider) (l : List Provider) (a : Addr) :
    (updP p l).find? (·.addr == a) = if a = p.addr then (l.find? (·.addr == a)).map (fun _ => p) else l.find? (·.addr == a) := by
  induction l with
  | nil => simp [updP]
  | cons x xs ih =>
    have hc : updP p (x :: xs) = (if x.addr == p.addr then p else x) :: updP p xs := rfl
    rw [hc]
    by_cases hx : x.addr = p.addr
    · simp only [hx, beq_self_eq_true, if_true]
      by_cases ha : a = p.addr
      · subst ha; simp [hx]
      · have h1 : (p.addr == a) = false := by simpa using fun h => ha h.symm
        rw [List.find?_cons_of_neg (by simp [h1]), ih]
        rw [List.find?_cons_of_neg (by simp [hx, h1])]
    · have hx' : (x.addr == p.addr) = false := by simpa using hx
      simp only [hx']
      by_cases hxa : x.addr = a
      · subst hxa; simp [hx]
      · have h1 : (x.addr == a) = false := by simpa using hxa
        rw [List.find?_cons_of_neg (by simp [h1]), ih, List.find?_cons_of_neg (by simp [h1])]

theorem findProvider_setProvider (s : State) (p : Provider) (a : Addr) :
    findProvider (setProvider s p) a = if a = p.addr then (findProvider s a).map (fun _ => p) else findProvider s a :=
  find_updP p s.providers a

theorem insertProvider_perm (p : Provider) (l : List Provider) : insertProvider p l ~ p :: l := by
  induction l with
  | nil => exact Perm.refl _
  | cons x xs ih =>
    unfold insertProvider
    split
    · exact Perm.refl _
    · exact (ih.cons x).trans (Perm.swap p x xs)

end Shentu.Shield.Coll
