import Shentu.EVM.Impl
/-
  Helper definitions and lemmas for `Shentu/Props/C01vm.lean`: the sum of the balances a frame's cache holds.
-/
namespace Shentu.EVM

/-- the coins the accounts of a cache hold -/
def total (w : World) : Nat := (w.map (·.balance)).foldl (· + ·) 0

/-- one entry per address (what Burrow's account cache guarantees by being a map) -/
def Keyed (w : World) : Prop := (w.map (·.addr)).Nodup

instance (w : World) : Decidable (Keyed w) := by unfold Keyed; infer_instance

-- ---------------------------------------------------------------- sums over a cache

theorem foldl_add_acc (l : List Nat) (a : Nat) : l.foldl (· + ·) a = a + l.foldl (· + ·) 0 := by
  induction l generalizing a with
  | nil => simp
  | cons x xs ih =>
    simp only [List.foldl_cons]
    rw [ih (a + x), ih (0 + x)]
    omega

theorem total_nil : total [] = 0 := rfl

theorem total_cons (a : Account) (w : World) : total (a :: w) = a.balance + total w := by
  unfold total
  simp only [List.map_cons, List.foldl_cons]
  rw [foldl_add_acc]
  omega

theorem keyed_nil : Keyed [] := by unfold Keyed; simp

theorem keyed_cons (a : Account) (w : World) : Keyed (a :: w) ↔ (∀ b ∈ w, b.addr ≠ a.addr) ∧ Keyed w := by
  unfold Keyed
  simp only [List.map_cons, List.nodup_cons, List.mem_map, not_exists, not_and]

/-- the balance the cache holds for an address (0 without an account) — the `bal` of SELFDESTRUCT -/
def balOf (w : World) (x : Nat) : Nat := ((w.get x).map (·.balance)).getD 0

theorem get_nil (x : Nat) : World.get [] x = none := rfl

theorem get_cons (a : Account) (w : World) (x : Nat) :
    World.get (a :: w) x = if a.addr = x then some a else World.get w x := by
  unfold World.get
  rw [List.find?_cons]
  by_cases h : a.addr = x
  · simp [h]
  · have : (a.addr == x) = false := by simpa using h
    simp [h, this]

theorem get_addr {w : World} {x : Nat} {acc : Account} (h : World.get w x = some acc) : acc.addr = x := by
  induction w with
  | nil => simp [get_nil] at h
  | cons a w ih =>
    rw [get_cons] at h
    split at h
    · rename_i hx
      simp at h
      subst h
      exact hx
    · exact ih h

theorem get_none_iff {w : World} {x : Nat} : World.get w x = none ↔ ∀ b ∈ w, b.addr ≠ x := by
  induction w with
  | nil => simp [get_nil]
  | cons a w ih =>
    rw [get_cons]
    by_cases hx : a.addr = x
    · simp [hx]
    · simp [hx, ih]

theorem balOf_of_get_some {w : World} {x : Nat} {acc : Account} (h : World.get w x = some acc) : balOf w x = acc.balance := by
  simp [balOf, h]

theorem balOf_of_get_none {w : World} {x : Nat} (h : World.get w x = none) : balOf w x = 0 := by
  simp [balOf, h]

theorem balOf_of_isNone {w : World} {x : Nat} (h : (World.get w x).isNone = true) : balOf w x = 0 :=
  balOf_of_get_none (by simpa using h)

-- ---------------------------------------------------------------- removing an address

theorem filter_ne_of_get_none {w : World} {x : Nat} (h : World.get w x = none) : w.filter (·.addr != x) = w := by
  rw [List.filter_eq_self]
  intro b hb
  have := (get_none_iff.1 h) b hb
  simpa using this

theorem keyed_filter (p : Account → Bool) {w : World} (hk : Keyed w) : Keyed (w.filter p) := by
  induction w with
  | nil => simpa using hk
  | cons a w ih =>
    rw [keyed_cons] at hk
    rw [List.filter_cons]
    split
    · rw [keyed_cons]
      exact ⟨fun b hb => hk.1 b (List.mem_filter.1 hb).1, ih hk.2⟩
    · exact ih hk.2

theorem get_filter_ne (w : World) (x y : Nat) :
    World.get (w.filter (·.addr != x)) y = if y = x then none else World.get w y := by
  induction w with
  | nil => simp [get_nil]
  | cons a w ih =>
    rw [List.filter_cons]
    by_cases hax : a.addr = x
    · have : (a.addr != x) = false := by simp [hax]
      rw [this]
      simp only [Bool.false_eq_true, if_false]
      rw [ih, get_cons]
      by_cases hyx : y = x
      · simp [hyx]
      · have : ¬ a.addr = y := by omega
        simp [hyx, this]
    · have : (a.addr != x) = true := by simp [hax]
      rw [this]
      simp only [if_true]
      rw [get_cons, get_cons, ih]
      by_cases hay : a.addr = y
      · have : ¬ y = x := by omega
        simp [hay, this]
      · simp [hay]

/-- dropping an address from a keyed cache takes exactly the balance held for it out of the sum -/
theorem total_filter_ne {w : World} (x : Nat) (hk : Keyed w) : total (w.filter (·.addr != x)) + balOf w x = total w := by
  induction w with
  | nil => simp [total_nil, balOf, get_nil]
  | cons a w ih =>
    rw [keyed_cons] at hk
    rw [List.filter_cons]
    by_cases hax : a.addr = x
    · have h1 : (a.addr != x) = false := by simp [hax]
      rw [h1]
      simp only [Bool.false_eq_true, if_false]
      have hnone : World.get w x = none := get_none_iff.2 (fun b hb => by rw [← hax]; exact hk.1 b hb)
      rw [filter_ne_of_get_none hnone, total_cons]
      have : balOf (a :: w) x = a.balance := balOf_of_get_some (by rw [get_cons]; simp [hax])
      omega
    · have h1 : (a.addr != x) = true := by simp [hax]
      rw [h1]
      simp only [if_true]
      rw [total_cons, total_cons]
      have : balOf (a :: w) x = balOf w x := by unfold balOf; rw [get_cons]; simp [hax]
      have := ih hk.2
      omega

theorem balOf_le_total {w : World} (x : Nat) (hk : Keyed w) : balOf w x ≤ total w := by
  have := total_filter_ne x hk
  omega

-- ---------------------------------------------------------------- del / put

theorem keyed_del {w : World} (x : Nat) (hk : Keyed w) : Keyed (w.del x) := keyed_filter _ hk

theorem get_del (w : World) (x y : Nat) : (w.del x).get y = if y = x then none else w.get y := get_filter_ne w x y

theorem total_del {w : World} (x : Nat) (hk : Keyed w) : total (w.del x) + balOf w x = total w := total_filter_ne x hk

theorem keyed_put {w : World} (acc : Account) (hk : Keyed w) : Keyed (w.put acc) := by
  unfold World.put
  rw [keyed_cons]
  refine ⟨?_, keyed_filter _ hk⟩
  intro b hb
  have := (List.mem_filter.1 hb).2
  simpa using this

theorem get_put (w : World) (acc : Account) (y : Nat) : (w.put acc).get y = if y = acc.addr then some acc else w.get y := by
  unfold World.put
  rw [get_cons, get_filter_ne]
  by_cases h : acc.addr = y
  · simp [h]
  · have : ¬ y = acc.addr := fun e => h e.symm
    simp [h, this]

/-- writing a record: the sum loses what the address held and gains what the record holds -/
theorem total_put {w : World} (acc : Account) (hk : Keyed w) : total (w.put acc) + balOf w acc.addr = total w + acc.balance := by
  unfold World.put
  rw [total_cons]
  have := total_filter_ne acc.addr hk
  omega

theorem balOf_put_ne (w : World) (acc : Account) {y : Nat} (h : y ≠ acc.addr) : balOf (w.put acc) y = balOf w y := by
  unfold balOf
  rw [get_put]
  simp [h]

theorem balOf_put_self (w : World) (acc : Account) : balOf (w.put acc) acc.addr = acc.balance := by
  unfold balOf
  rw [get_put]
  simp

theorem balOf_del_ne (w : World) (x : Nat) {y : Nat} (h : y ≠ x) : balOf (w.del x) y = balOf w y := by
  unfold balOf
  rw [get_del]
  simp [h]

/-- two different addresses of a keyed cache hold no more than the whole -/
theorem balOf_add_le_total {w : World} {a b : Nat} (hk : Keyed w) (hab : a ≠ b) : balOf w a + balOf w b ≤ total w := by
  have h1 := total_del a hk
  have h2 := balOf_le_total b (keyed_del a hk)
  rw [balOf_del_ne w a (Ne.symm hab)] at h2
  omega

-- ---------------------------------------------------------------- the value transfer

theorem transfer_total_keyed {w w' : World} {frm to value : Nat} (hk : Keyed w) (h : transfer w frm to value = .ok w') :
    total w' = total w ∧ Keyed w' := by
  unfold transfer at h
  split at h
  · simp at h
  · split at h
    · simp at h; subst h; exact ⟨rfl, hk⟩
    · split at h
      · simp at h
      · rename_i f hf
        split at h
        · simp at h
        · rename_i hge
          simp only at h
          split at h
          · simp at h
          · rename_i t ht
            split at h
            · simp at h
            · simp at h
              subst h
              have hfa : f.addr = frm := get_addr hf
              subst hfa
              have hta : t.addr = to := get_addr ht
              subst hta
              have hbf : balOf w f.addr = f.balance := balOf_of_get_some hf
              have hk1 : Keyed (w.put { f with balance := f.balance - value }) := keyed_put _ hk
              have h1 := total_put { f with balance := f.balance - value } hk
              have hbt := balOf_of_get_some ht
              have h2 := total_put { t with balance := t.balance + value } hk1
              dsimp only at h1 h2
              refine ⟨?_, keyed_put _ hk1⟩
              omega

-- ---------------------------------------------------------------- SSTORE, account creation

theorem sstore_total_keyed {w : World} (a k v : Nat) (hk : Keyed w) :
    total (w.sstore a k v) = total w ∧ Keyed (w.sstore a k v) := by
  unfold World.sstore
  split
  · rename_i acc hacc
    have ha : acc.addr = a := get_addr hacc
    subst ha
    have hb := balOf_of_get_some hacc
    have h1 := total_put { acc with storage := (k, v) :: acc.storage.filter (·.1 != k) } hk
    dsimp only at h1
    refine ⟨?_, keyed_put _ hk⟩
    omega
  · exact ⟨rfl, hk⟩

theorem create_total_keyed {w : World} {a : Nat} (hk : Keyed w) (h : w.get a = none) :
    total (w.put { addr := a }) = total w ∧ Keyed (w.put { addr := a }) := by
  have h1 := total_put { addr := a } hk
  have h2 := balOf_of_get_none h
  simp only at h1
  refine ⟨?_, keyed_put _ hk⟩
  omega

-- ---------------------------------------------------------------- computations of `M` and the accounts of the frame

/-- `m >>= f` continues with `f` from where a successful `m` stopped -/
theorem bind_val_some {m : M α} {f : α → M β} {s : Frame} {a : α} {s1 : Frame}
    (h : (m s).val = (some a, s1)) : ((m >>= f) s).val = (f a s1).val := by
  show ((M.bind m f) s).val = _
  unfold M.bind
  match hm : m s with
  | ⟨(none, s0), _⟩ => rw [hm] at h; simp at h
  | ⟨(some c, s0), _⟩ =>
    rw [hm] at h
    simp at h
    obtain ⟨hc, hs⟩ := h
    subst hc; subst hs
    rfl

/-- the accounts are keyed and hold `n` coins -/
def SafeW (n : Nat) (w : World) : Prop := Keyed w ∧ total w = n

/-- what SELFDESTRUCT guarantees of the frame it ends in: the accounts are keyed and hold the `n` coins they held,
    provided `n` fits the 64 bits of a balance or no error is in the frame's sink -/
def Goal (n : Nat) (s' : Frame) : Prop := (n < U64 ∨ s'.err = none) → SafeW n s'.world

/-- `m`, started in any frame whose accounts are `w`, ends in a frame with `Q` -/
def Ends (Q : Frame → Prop) (m : M α) (w : World) : Prop := ∀ s : Frame, s.world = w → Q (m s).val.2

/-- `m` always returns and leaves the accounts alone -/
def Pres (m : M α) : Prop := ∀ s, ∃ a s1, (m s).val = (some a, s1) ∧ s1.world = s.world

theorem Pres_bind {m : M α} {f : α → M β} (hm : Pres m) (hf : ∀ a, Pres (f a)) : Pres (m >>= f) := by
  intro s
  obtain ⟨a, s1, h1, hw⟩ := hm s
  obtain ⟨b, s2, h2, hw2⟩ := hf a s1
  exact ⟨b, s2, by rw [bind_val_some h1]; exact h2, hw2.trans hw⟩

theorem pres_pure (a : α) : Pres (pure a : M α) := fun s => ⟨a, s, rfl, rfl⟩
theorem pres_getF : Pres getF := fun s => ⟨s, s, rfl, rfl⟩
theorem pres_setStack (st : List Nat) : Pres (setStack st) := fun _ => ⟨(), _, rfl, rfl⟩
theorem pres_setRemoved (r : List Nat) : Pres (setRemoved r) := fun _ => ⟨(), _, rfl, rfl⟩
theorem pres_noteDev (i : Nat) : Pres (noteDev i) := fun _ => ⟨(), _, rfl, rfl⟩

theorem pushErr_val (e : Err) (s : Frame) :
    ∃ s1, (pushErr e s).val = (some (), s1) ∧ s1.world = s.world ∧ s1.err.isSome = true := by
  unfold pushErr
  split
  · rename_i e' he
    exact ⟨s, rfl, rfl, by simp [he]⟩
  · exact ⟨_, rfl, rfl, rfl⟩

theorem pres_pushErr (e : Err) : Pres (pushErr e) := by
  intro s
  obtain ⟨s1, h1, hw, _⟩ := pushErr_val e s
  exact ⟨(), s1, h1, hw⟩

theorem pres_useGas (n : Nat) : Pres (useGas n) := by
  intro s
  unfold useGas
  split
  · exact ⟨(), _, rfl, rfl⟩
  · exact pres_pushErr _ s

theorem pres_pop : Pres pop := by
  unfold pop
  apply Pres_bind (pres_useGas 1); intro _
  apply Pres_bind pres_getF; intro s
  split
  · exact Pres_bind (pres_pushErr _) (fun _ => pres_pure _)
  · exact Pres_bind (pres_setStack _) (fun _ => pres_pure _)

theorem Ends_bind_pres {Q : Frame → Prop} {m : M α} {f : α → M β} {w : World} (hm : Pres m) (h : ∀ a, Ends Q (f a) w) :
    Ends Q (m >>= f) w := by
  intro s hs
  obtain ⟨a, s1, h1, hw⟩ := hm s
  rw [bind_val_some h1]
  exact h a s1 (hw.trans hs)

theorem Ends_bind_getF {Q : Frame → Prop} {f : Frame → M β} {w : World} (h : ∀ s, s.world = w → Ends Q (f s) w) :
    Ends Q (getF >>= f) w := by
  intro s hs
  have h1 : (getF s).val = (some s, s) := rfl
  rw [bind_val_some h1]
  exact h s hs s hs

theorem Ends_bind_setWorld {Q : Frame → Prop} {f : Unit → M β} {w w' : World} (h : Ends Q (f ()) w') :
    Ends Q (setWorld w' >>= f) w := by
  intro s _
  have h1 : (setWorld w' s).val = (some (), { s with world := w', dirty := true }) := rfl
  rw [bind_val_some h1]
  exact h _ rfl

theorem Ends_ite {Q : Frame → Prop} {c : Prop} [Decidable c] {m1 m2 : M α} {w : World}
    (h1 : c → Ends Q m1 w) (h2 : ¬ c → Ends Q m2 w) : Ends Q (if c then m1 else m2) w := by
  split
  · exact h1 ‹_›
  · exact h2 ‹_›

theorem Ends_pure {n : Nat} {w : World} (a : α) (h : SafeW n w) : Ends (Goal n) (pure a : M α) w := by
  intro s hs _
  show SafeW n s.world
  rw [hs]; exact h

/-- once an error is in the sink it stays (the type of `M`): with `n` beyond 64 bits nothing is left to show -/
theorem Ends_dead {n : Nat} {w : World} (e : Err) (f : Unit → M β) (hn : U64 ≤ n) : Ends (Goal n) (pushErr e >>= f) w := by
  intro s _ hb
  obtain ⟨s1, h1, _, he⟩ := pushErr_val e s
  rw [bind_val_some h1] at hb ⊢
  have := (f () s1).property.2 he
  cases hb with
  | inl h => omega
  | inr h => rw [h] at this; simp at this

-- ---------------------------------------------------------------- SELFDESTRUCT, piece by piece

def sdEnd : M (Option ByteArray) := pure (some ByteArray.empty)

/-- the account goes -/
def sdDelete (env : Env) : M (Option ByteArray) :=
  getF >>= fun s =>
    if (s.world.get env.callee).isNone = true then pushErr Err.duplicateAddress >>= fun _ => sdEnd
    else setWorld (s.world.del env.callee) >>= fun _ => setRemoved (env.callee :: s.removed) >>= fun _ => sdEnd

/-- the beneficiary receives the balance -/
def sdCredit (env : Env) (receiver : Nat) (s : Frame) : M (Option ByteArray) :=
  if env.readOnly = true then pushErr Err.illegalWrite >>= fun _ => sdEnd
  else match s.world.get receiver with
    | some r =>
      if r.balance + balOf s.world env.callee ≥ U64 then pushErr Err.integerOverflow >>= fun _ => sdDelete env
      else setWorld (s.world.put { r with balance := r.balance + balOf s.world env.callee }) >>= fun _ => sdDelete env
    | none => pushErr Err.nonExistentAccount >>= fun _ => sdDelete env

def sdMove (env : Env) (receiver : Nat) : M (Option ByteArray) :=
  getF >>= fun s =>
    if (s.world.get env.callee).isNone = true then pushErr Err.nonExistentAccount >>= fun _ => sdCredit env receiver s
    else sdCredit env receiver s

/-- a beneficiary without an account gets one -/
def sdCreate (env : Env) (receiver : Nat) (s : Frame) : M (Option ByteArray) :=
  if (s.world.get receiver).isNone = true then
    useGas 1 >>= fun _ =>
      if (s.world.get env.callee).isNone = true then pushErr Err.generic >>= fun _ => sdEnd
      else if env.readOnly = true then pushErr Err.illegalWrite >>= fun _ => sdEnd
      else setWorld (s.world.put { addr := receiver }) >>= fun _ => sdMove env receiver
  else sdMove env receiver

/-- `selfdestruct` with its join points written out -/
def sdExplicit (env : Env) : M (Option ByteArray) :=
  pop >>= fun x => useGas 1 >>= fun _ => getF >>= fun s =>
    if (env.q.selfDestructSelfKeeps && addrOf x == env.callee) = true then pure (some ByteArray.empty)
    else if (decide (addrOf x ≤ 0xff) || s.removed.contains (addrOf x)) = true then pure none
    else if (addrOf x == env.callee) = true then noteDev 15 >>= fun _ => sdCreate env (addrOf x) s
    else sdCreate env (addrOf x) s

theorem selfdestruct_eq (env : Env) : selfdestruct env = sdExplicit env := rfl

theorem ends_sdEnd {n : Nat} {w : World} (h : SafeW n w) : Ends (Goal n) sdEnd w := Ends_pure _ h

/-- the deletion takes out of the sum what the running contract (still) holds -/
theorem ends_sdDelete (env : Env) {n : Nat} {w : World} (hk : Keyed w) (ht : total w = n + balOf w env.callee) :
    Ends (Goal n) (sdDelete env) w := by
  unfold sdDelete
  refine Ends_bind_getF (fun s hs => ?_)
  subst hs
  refine Ends_ite ?_ ?_
  · intro hc
    refine Ends_bind_pres (pres_pushErr _) (fun _ => ?_)
    refine ends_sdEnd ?_
    have := balOf_of_isNone hc
    exact ⟨hk, by omega⟩
  · intro _
    refine Ends_bind_setWorld ?_
    refine Ends_bind_pres (pres_setRemoved _) (fun _ => ?_)
    refine ends_sdEnd ?_
    have := total_del env.callee hk
    exact ⟨keyed_del _ hk, by omega⟩

theorem ends_sdCredit (env : Env) (receiver : Nat) (s : Frame) {n : Nat} (hw : SafeW n s.world)
    (hne : receiver ≠ env.callee) (hr : (s.world.get receiver).isSome = true) :
    Ends (Goal n) (sdCredit env receiver s) s.world := by
  unfold sdCredit
  refine Ends_ite ?_ ?_
  · intro _
    refine Ends_bind_pres (pres_pushErr _) (fun _ => ?_)
    exact ends_sdEnd hw
  · intro _
    split
    · rename_i r hr'
      have hra : r.addr = receiver := get_addr hr'
      subst hra
      have hbr : balOf s.world r.addr = r.balance := balOf_of_get_some hr'
      refine Ends_ite ?_ ?_
      · intro hov
        refine Ends_dead _ _ ?_
        have h1 := balOf_add_le_total hw.1 hne
        have h2 := hw.2
        omega
      · intro _
        refine Ends_bind_setWorld ?_
        have h1 := total_put { r with balance := r.balance + balOf s.world env.callee } hw.1
        have h2 : balOf (s.world.put { r with balance := r.balance + balOf s.world env.callee }) env.callee
            = balOf s.world env.callee := balOf_put_ne _ _ (by show env.callee ≠ r.addr; omega)
        have h3 := hw.2
        dsimp only at h1
        exact ends_sdDelete env (keyed_put _ hw.1) (by omega)
    · rename_i hnone
      rw [hnone] at hr
      simp at hr

theorem ends_sdMove (env : Env) (receiver : Nat) {n : Nat} {w : World} (hw : SafeW n w)
    (hne : receiver ≠ env.callee) (hr : (w.get receiver).isSome = true) :
    Ends (Goal n) (sdMove env receiver) w := by
  unfold sdMove
  refine Ends_bind_getF (fun s hs => ?_)
  subst hs
  refine Ends_ite ?_ ?_
  · intro _
    refine Ends_bind_pres (pres_pushErr _) (fun _ => ?_)
    exact ends_sdCredit env receiver s hw hne hr
  · intro _
    exact ends_sdCredit env receiver s hw hne hr

theorem ends_sdCreate (env : Env) (receiver : Nat) (s : Frame) {n : Nat} (hw : SafeW n s.world)
    (hne : receiver ≠ env.callee) : Ends (Goal n) (sdCreate env receiver s) s.world := by
  unfold sdCreate
  refine Ends_ite ?_ ?_
  · intro hnone
    refine Ends_bind_pres (pres_useGas _) (fun _ => ?_)
    refine Ends_ite ?_ ?_
    · intro _
      refine Ends_bind_pres (pres_pushErr _) (fun _ => ?_)
      exact ends_sdEnd hw
    · intro _
      refine Ends_ite ?_ ?_
      · intro _
        refine Ends_bind_pres (pres_pushErr _) (fun _ => ?_)
        exact ends_sdEnd hw
      · intro _
        refine Ends_bind_setWorld ?_
        have hc := create_total_keyed (a := receiver) hw.1 (by simpa using hnone)
        refine ends_sdMove env receiver ⟨hc.2, hc.1.trans hw.2⟩ hne ?_
        rw [get_put]
        simp
  · intro hsome
    exact ends_sdMove env receiver hw hne (by cases h : s.world.get receiver <;> simp_all)

theorem ends_selfdestruct (env : Env) (hq : env.q.selfDestructSelfKeeps = true) {n : Nat} {w : World} (hw : SafeW n w) :
    Ends (Goal n) (selfdestruct env) w := by
  rw [selfdestruct_eq]
  unfold sdExplicit
  refine Ends_bind_pres pres_pop (fun x => ?_)
  refine Ends_bind_pres (pres_useGas _) (fun _ => ?_)
  refine Ends_bind_getF (fun s hs => ?_)
  subst hs
  refine Ends_ite ?_ ?_
  · intro _
    exact Ends_pure _ hw
  · intro hself
    have hne : addrOf x ≠ env.callee := by
      intro he
      apply hself
      simp [hq, he]
    refine Ends_ite ?_ ?_
    · intro _
      exact Ends_pure _ hw
    · intro _
      refine Ends_ite ?_ ?_
      · intro _
        refine Ends_bind_pres (pres_noteDev _) (fun _ => ?_)
        exact ends_sdCreate env (addrOf x) s hw hne
      · intro _
        exact ends_sdCreate env (addrOf x) s hw hne

end Shentu.EVM
