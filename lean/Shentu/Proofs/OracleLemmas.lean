import Shentu.Model.Oracle
import Shentu.Proofs.Tactics
namespace Shentu.Oracle
open Shentu

theorem pendList_upsert (a : Addr) (due : Int) (amt : Coins) (l : List Withdraw) (a' : Addr) (d : Denom) :
    pendList (upsertWd a due amt l) a' d = pendList l a' d + (if a == a' then Coins.amountOf amt d else 0) := by
  induction l with
  | nil => simp [upsertWd, pendList, List.filter_cons]; split <;> simp
  | cons w ws ih =>
    unfold upsertWd
    split
    · rename_i h
      simp only [Bool.and_eq_true, beq_iff_eq] at h
      obtain ⟨_, h2⟩ := h
      simp only [pendList, List.filter_cons]
      by_cases h3 : a == a'
      · have : (w.addr == a') = true := by simp_all
        simp [this, h3, Coins.add]; omega
      · have : (w.addr == a') = false := by
          simp only [beq_iff_eq] at h3 ⊢; simp_all
        simp [this, h3]
    · simp only [pendList, List.filter_cons] at ih ⊢
      split <;> simp_all <;> omega

theorem pendList_split (p : Withdraw → Bool) (l : List Withdraw) (a : Addr) (d : Denom) :
    pendList l a d = pendList (l.filter p) a d + pendList (l.filter (fun w => !(p w))) a d := by
  induction l with
  | nil => simp [pendList]
  | cons w ws ih =>
    simp only [pendList, List.filter_cons] at ih ⊢
    by_cases hp : p w <;> by_cases ha : w.addr == a <;> simp_all <;> omega

end Shentu.Oracle

namespace Shentu.Oracle
open Shentu

theorem find_map_replace (l : List Operator) (o : Operator) (a' : Addr) :
    (l.map (fun x => if x.addr == o.addr then o else x)).find? (·.addr == a') =
      if o.addr == a' then (l.find? (·.addr == o.addr)).map (fun _ => o) else l.find? (·.addr == a') := by
  induction l with
  | nil => simp
  | cons x xs ih =>
    simp only [List.map_cons, List.find?_cons, ih]
    clear ih
    cases h1 : (x.addr == o.addr) <;> cases h2 : (o.addr == a') <;> cases h3 : (x.addr == a') <;>
      simp_all <;> (split <;> simp_all)

theorem findOp_setOp (s : State) (o : Operator) (a' : Addr) :
    findOp (setOp s o) a' = if o.addr == a' then some o else findOp s a' := by
  unfold setOp
  by_cases h : isOp s o.addr
  · simp only [h, if_true, findOp]
    rw [find_map_replace]
    have hs : (s.ops.find? (·.addr == o.addr)).isSome := by simpa [isOp, findOp] using h
    by_cases ho : o.addr == a'
    · simp only [ho, if_true]
      cases hf : s.ops.find? (·.addr == o.addr) with
      | none => simp [hf] at hs
      | some v => simp
    · simp [ho]
  · simp only [h, findOp, List.find?_append]
    have hn : s.ops.find? (·.addr == o.addr) = none := by
      simpa [isOp, findOp] using h
    by_cases ho : o.addr == a'
    · have : a' = o.addr := by simpa using (beq_iff_eq.mp ho).symm
      subst this
      simp [hn]
    · have ho' : (o.addr == a') = false := by simpa using ho
      simp [ho', List.find?_cons]

theorem findOp_delOp (s : State) (a a' : Addr) :
    findOp (delOp s a) a' = if a == a' then none else findOp s a' := by
  simp only [delOp, findOp]
  induction s.ops with
  | nil => simp
  | cons x xs ih =>
    simp only [List.filter_cons]
    by_cases hx : x.addr == a
    · simp only [hx, Bool.not_true, Bool.false_eq_true, if_false, ih, List.find?_cons]
      by_cases haa : a == a'
      · simp [haa]
      · have : (x.addr == a') = false := by
          simp only [beq_iff_eq] at hx; subst hx; simpa using haa
        simp [haa, this]
    · have hx' : (x.addr == a) = false := by simpa using hx
      simp only [hx', Bool.not_false, if_true, List.find?_cons, ih]
      by_cases hxa : x.addr == a'
      · have : (a == a') = false := by
          simp only [beq_iff_eq] at hxa; subst hxa
          cases h : a == x.addr with
          | false => rfl
          | true => simp only [beq_iff_eq] at h; simp [h] at hx'
        simp [hxa, this]
      · simp [hxa]

end Shentu.Oracle

namespace Shentu.Oracle
/-! frame lemmas: which fields a store update touches -/
@[simp] theorem setOp_wds (s : State) (o : Operator) : (setOp s o).wds = s.wds := by unfold setOp; split <;> rfl
@[simp] theorem setOp_total (s : State) (o : Operator) : (setOp s o).total = s.total := by unfold setOp; split <;> rfl
@[simp] theorem setOp_tasks (s : State) (o : Operator) : (setOp s o).tasks = s.tasks := by unfold setOp; split <;> rfl
@[simp] theorem setOp_closing (s : State) (o : Operator) : (setOp s o).closing = s.closing := by unfold setOp; split <;> rfl
@[simp] theorem setOp_params (s : State) (o : Operator) : (setOp s o).params = s.params := by unfold setOp; split <;> rfl
@[simp] theorem delOp_wds (s : State) (a : Addr) : (delOp s a).wds = s.wds := rfl
@[simp] theorem delOp_total (s : State) (a : Addr) : (delOp s a).total = s.total := rfl
@[simp] theorem delOp_tasks (s : State) (a : Addr) : (delOp s a).tasks = s.tasks := rfl
@[simp] theorem delOp_params (s : State) (a : Addr) : (delOp s a).params = s.params := rfl
@[simp] theorem setTask_ops (s : State) (t : Task) : (setTask s t).ops = s.ops := by unfold setTask; split <;> rfl
@[simp] theorem setTask_wds (s : State) (t : Task) : (setTask s t).wds = s.wds := by unfold setTask; split <;> rfl
@[simp] theorem setTask_total (s : State) (t : Task) : (setTask s t).total = s.total := by unfold setTask; split <;> rfl
@[simp] theorem setTask_params (s : State) (t : Task) : (setTask s t).params = s.params := by unfold setTask; split <;> rfl
@[simp] theorem delTask_ops (s : State) (k : String) : (delTask s k).ops = s.ops := rfl
@[simp] theorem delTask_wds (s : State) (k : String) : (delTask s k).wds = s.wds := rfl
@[simp] theorem delTask_total (s : State) (k : String) : (delTask s k).total = s.total := rfl
@[simp] theorem addClosing_ops (s : State) (h : Int) (id : String × String) : (addClosing s h id).ops = s.ops := by unfold addClosing; split <;> rfl
@[simp] theorem addClosing_wds (s : State) (h : Int) (id : String × String) : (addClosing s h id).wds = s.wds := by unfold addClosing; split <;> rfl
@[simp] theorem addClosing_total (s : State) (h : Int) (id : String × String) : (addClosing s h id).total = s.total := by unfold addClosing; split <;> rfl
@[simp] theorem delClosing_ops (s : State) (h : Int) : (delClosing s h).ops = s.ops := rfl
@[simp] theorem delClosing_wds (s : State) (h : Int) : (delClosing s h).wds = s.wds := rfl
@[simp] theorem delClosing_total (s : State) (h : Int) : (delClosing s h).total = s.total := rfl

/-- `findOp` only looks at the operator list -/
theorem findOp_congr (s s' : State) (h : s'.ops = s.ops) (a : Addr) : findOp s' a = findOp s a := by
  simp [findOp, h]

theorem findOp_addr (s : State) (a : Addr) (o : Operator) (h : findOp s a = some o) : o.addr = a := by
  have := List.find?_some h; simpa using this

end Shentu.Oracle

namespace Shentu.Oracle
theorem setOp_find (s : State) (o : Operator) (a' : Addr) :
    (setOp s o).ops.find? (fun x => x.addr == a') = if o.addr == a' then some o else s.ops.find? (fun x => x.addr == a') :=
  findOp_setOp s o a'
theorem delOp_find (s : State) (a a' : Addr) :
    (delOp s a).ops.find? (fun x => x.addr == a') = if a == a' then none else s.ops.find? (fun x => x.addr == a') :=
  findOp_delOp s a a'
end Shentu.Oracle

namespace Shentu.Oracle
/-- crediting a reward does not change anybody's collateral -/
theorem setOp_rew_find_coll (s : State) (o : Operator) (r : Coins) (a' : Addr)
    (ho : s.ops.find? (fun x => x.addr == o.addr) = some o) :
    ((setOp s { o with rew := r }).ops.find? (fun x => x.addr == a')).map (·.coll) =
      (s.ops.find? (fun x => x.addr == a')).map (·.coll) := by
  rw [setOp_find]
  by_cases h : o.addr == a'
  · have : a' = o.addr := (beq_iff_eq.mp h).symm
    subst this
    simp [ho]
  · have h' : (o.addr == a') = false := by simpa using h
    simp [h']
end Shentu.Oracle

namespace Shentu.Oracle
/-- the part of the state that collateral conservation is about is untouched -/
def SameColl (s s' : State) : Prop :=
  s'.wds = s.wds ∧ ∀ a', (s'.ops.find? (fun x => x.addr == a')).map (·.coll) = (s.ops.find? (fun x => x.addr == a')).map (·.coll)

theorem SameColl.refl (s : State) : SameColl s s := ⟨rfl, fun _ => rfl⟩
theorem SameColl.trans {a b c : State} (h1 : SameColl a b) (h2 : SameColl b c) : SameColl a c :=
  ⟨h2.1.trans h1.1, fun x => (h2.2 x).trans (h1.2 x)⟩

theorem SameColl.held_eq {s s' : State} (h : SameColl s s') (a : Addr) (d : Denom) : held s' a d = held s a d := by
  simp only [held, collAmt, pendAmt, findOp, h.1]
  have := h.2 a
  cases h1 : s'.ops.find? (fun x => x.addr == a) <;> cases h2 : s.ops.find? (fun x => x.addr == a) <;>
    simp_all

theorem sameColl_setTask (s : State) (t : Task) : SameColl s (setTask s t) := ⟨by simp, fun _ => by simp⟩
theorem sameColl_delTask (s : State) (k : String) : SameColl s (delTask s k) := ⟨rfl, fun _ => rfl⟩
theorem sameColl_addClosing (s : State) (h : Int) (id : String × String) : SameColl s (addClosing s h id) := ⟨by simp, fun _ => by simp⟩
theorem sameColl_delClosing (s : State) (h : Int) : SameColl s (delClosing s h) := ⟨rfl, fun _ => rfl⟩
theorem sameColl_setOp_rew (s : State) (o : Operator) (r : Coins) (a : Addr) (ho : findOp s a = some o) :
    SameColl s (setOp s { o with rew := r }) := by
  refine ⟨by simp, fun a' => ?_⟩
  have hoa := findOp_addr s a o ho
  apply setOp_rew_find_coll
  simpa [findOp, hoa] using ho

theorem sameColl_aggregate (bond : Denom) (s s' : State) (k : String) (h : aggregate bond s k = .ok s') : SameColl s s' := by
  unfold aggregate at h
  ok_cases h
  all_goals (injection h with h; subst h; exact sameColl_setTask _ _)

theorem sameColl_payCoin (bond : Denom) (b : Nat) (dn : Denom) (amount tv : Int) :
    ∀ (rs : List Response) (s : State) (done : List Response) (s' : State) (out : List Response),
      payCoin bond b dn amount tv s rs done = .ok (s', out) → SameColl s s' := by
  intro rs
  induction rs with
  | nil => intro s done s' out h; simp only [payCoin] at h; injection h with h; injection h with h1 _; subst h1; exact SameColl.refl _
  | cons r rest ih =>
    intro s done s' out h
    unfold payCoin at h
    split at h
    · split at h
      · cases h
      · exact ih _ _ _ _ h
      · dsimp only at h
        split at h
        · cases h
        · split at h
          · exact ih _ _ _ _ h
          · rename_i o ho
            exact SameColl.trans (sameColl_setOp_rew s o _ r.op ho) (ih _ _ _ _ h)
    · exact ih _ _ _ _ h

theorem sameColl_payAll (bond : Denom) (b : Nat) (tv : Int) :
    ∀ (cs : List (Denom × Int)) (s : State) (rs : List Response) (s' : State) (out : List Response),
      payAll bond b tv cs s rs = .ok (s', out) → SameColl s s' := by
  intro cs
  induction cs with
  | nil => intro s rs s' out h; simp only [payAll] at h; injection h with h; injection h with h1 _; subst h1; exact SameColl.refl _
  | cons c cs ih =>
    intro s rs s' out h
    unfold payAll at h
    split at h
    · cases h
    · rename_i s1 rs1 h1
      exact SameColl.trans (sameColl_payCoin bond b c.1 c.2 tv rs s [] s1 rs1 h1) (ih _ _ _ _ h)

theorem sameColl_distribute (bond : Denom) (s s' : State) (t : Task) (h : distributeBounty bond s t = .ok s') : SameColl s s' := by
  unfold distributeBounty at h
  ok_cases h
  rename_i s1 rs1 h1
  injection h with h; subst h
  exact SameColl.trans (sameColl_payAll _ _ _ _ _ _ _ _ h1) (sameColl_setTask _ _)

theorem sameColl_endOne (bond : Denom) (s s' : State) (id : String × String) (h : endOne bond s id = .ok s') : SameColl s s' := by
  unfold endOne at h
  dsimp only at h
  split at h
  · split at h
    · cases h
    · injection h with h; subst h; exact SameColl.refl _
  · rename_i s1 h1
    have a1 := sameColl_aggregate bond s s1 _ h1
    split at h
    · injection h with h; subst h; exact a1
    · split at h
      · split at h
        · cases h
        · injection h with h; subst h; exact a1
      · rename_i s2 h2
        injection h with h; subst h
        exact SameColl.trans a1 (sameColl_distribute _ _ _ _ h2)

theorem sameColl_endFold (bond : Denom) : ∀ (ids : List (String × String)) (s s' : State), endFold bond ids s = .ok s' → SameColl s s' := by
  intro ids
  induction ids with
  | nil => intro s s' h; simp only [endFold] at h; injection h with h; subst h; exact SameColl.refl _
  | cons id ids ih =>
    intro s s' h
    unfold endFold at h
    split at h
    · cases h
    · rename_i s1 h1
      exact SameColl.trans (sameColl_endOne _ _ _ _ h1) (ih _ _ h)

theorem sameColl_endBlock (e : Env) (s s' : State) (h : endBlock e s = .ok s') : SameColl s s' := by
  unfold endBlock at h
  split at h
  · cases h
  · rename_i s1 h1
    injection h with h; subst h
    exact SameColl.trans (sameColl_endFold _ _ _ _ h1) (sameColl_delClosing _ _)

end Shentu.Oracle
