import Shentu.Proofs.C15HPay
/-
  Helper lemmas for `Shentu/Props/C15H.lean`, part 3: histories.  A `Run` is the ledger and the oracle state together with
  three ghost records that are updated from what each accepted operation visibly does; `Inv` is the invariant that every
  operation of a timed history keeps.
-/
namespace Shentu.C15HH
open Shentu Shentu.Oracle Shentu.Halt.Orc Shentu.C20GOrcInv
set_option linter.unusedSimpArgs false
set_option linter.unusedVariables false

/-! ### operator addresses stay distinct -/

theorem credit_addrs (a : Addr) (c : Coins) (l : List Operator) : (credit a c l).map (·.addr) = l.map (·.addr) := by
  cases h : l.find? (·.addr == a) with
  | none => rw [credit_none h]
  | some o =>
    rw [credit_some h, List.map_map]
    apply List.map_congr_left
    intro x _
    simp only [Function.comp]
    split
    · rename_i hx
      have h1 := find_addr h
      have h2 : x.addr = a := by simpa using hx
      simp [h1, h2]
    · rfl

theorem credits_addrs : ∀ (incs : List (Addr × Coins)) (l : List Operator), (credits incs l).map (·.addr) = l.map (·.addr)
  | [], _ => rfl
  | i :: incs, l => by rw [credits_cons, credits_addrs incs, credit_addrs]

theorem setOp_addrs_found {s : State} {o : Operator} (h : isOp s o.addr = true) :
    (setOp s o).ops.map (·.addr) = s.ops.map (·.addr) := by
  unfold setOp
  simp only [h, if_true, List.map_map]
  apply List.map_congr_left
  intro x _
  simp only [Function.comp]
  split
  · rename_i hx; exact (by simpa using hx : x.addr = o.addr).symm
  · rfl

theorem setOp_nodup_new {s : State} {o : Operator} (h : isOp s o.addr = false) (hn : (s.ops.map (·.addr)).Nodup) :
    ((setOp s o).ops.map (·.addr)).Nodup := by
  unfold setOp
  simp only [h, Bool.false_eq_true, if_false, List.map_append, List.map_cons, List.map_nil]
  rw [List.nodup_append]
  refine ⟨hn, by simp, ?_⟩
  intro a ha b hb
  simp only [List.mem_singleton] at hb
  subst hb
  obtain ⟨x, hx, hxa⟩ := List.mem_map.1 ha
  have hnone : s.ops.find? (·.addr == o.addr) = none := by simpa [isOp, findOp] using h
  have := List.find?_eq_none.1 hnone x hx
  intro heq
  apply this
  simp [hxa, heq]

theorem isOp_of_find {s : State} {a : Addr} {o : Operator} (h : findOp s a = some o) : isOp s o.addr = true := by
  rw [findOp_addr s a o h]; simp [isOp, h]

theorem endOne_ops {bond : Denom} {s s' : State} {id : String × String} (h : endOne bond s id = .ok s') :
    s'.ops.map (·.addr) = s.ops.map (·.addr) := by
  rw [endOne_eq bond id (Agree.refl _ s)] at h
  cases he : endOneE bond s (id.1 ++ id.2) with
  | error x => rw [he] at h; cases h
  | ok p =>
    obtain ⟨f, incs⟩ := p
    rw [he] at h; dsimp only at h
    cases h
    exact credits_addrs incs s.ops

theorem endFold_ops {bond : Denom} : ∀ (ids : List (String × String)) {s s' : State}, endFold bond ids s = .ok s' →
    s'.ops.map (·.addr) = s.ops.map (·.addr)
  | [], s, s', h => by unfold endFold at h; cases h; rfl
  | id :: ids, s, s', h => by
    unfold endFold at h
    cases h1 : endOne bond s id with
    | error x => rw [h1] at h; cases h
    | ok s1 =>
      rw [h1] at h; dsimp only at h
      exact (endFold_ops ids h).trans (endOne_ops h1)

theorem stepE_opsNodup {e : Env} {l l' : Ledger} {s s' : State} {op : Op} (h : stepE e l s op = .ok (l', s'))
    (hn : (s.ops.map (·.addr)).Nodup) : (s'.ops.map (·.addr)).Nodup := by
  cases op with
  | createOperator a co p =>
    simp only [stepE] at h; unfold createOperator at h
    split at h; · cases h
    split at h; · cases h
    rename_i hno
    ok_cases h
    cases h
    exact setOp_nodup_new (o := { addr := a, proposer := p, coll := co, rew := [] }) (by simpa using hno) hn
  | removeOperator a =>
    simp only [stepE] at h; unfold removeOperator at h
    ok_cases h
    cases h
    exact hn.sublist (List.Sublist.map _ List.filter_sublist)
  | addCollateral a co =>
    simp only [stepE] at h; unfold addCollateral at h
    ok_cases h
    rename_i _ o ho _ _ _
    cases h
    rw [setOp_addrs_found (o := { o with coll := Coins.add o.coll co }) (isOp_of_find (o := o) ho)]; exact hn
  | reduceCollateral a co =>
    simp only [stepE] at h; unfold reduceCollateral at h
    ok_cases h
    rename_i _ o ho _ _ _
    cases h
    show ((setOp s { o with coll := Coins.sub o.coll co }).ops.map (·.addr)).Nodup
    rw [setOp_addrs_found (o := { o with coll := Coins.sub o.coll co }) (isOp_of_find (o := o) ho)]; exact hn
  | withdrawReward a =>
    simp only [stepE] at h; unfold withdrawReward at h
    ok_cases h
    rename_i o ho _ _ _
    cases h
    rw [setOp_addrs_found (o := { o with rew := [] }) (isOp_of_find (o := o) ho)]; exact hn
  | createTask ct fn b cr w v =>
    simp only [stepE] at h; unfold createTask at h
    dsimp only at h
    split at h; · cases h
    rename_i s0 hpre
    split at h; · cases h
    cases h
    have h0 : s0.ops = s.ops := by
      ok_cases hpre
      all_goals (cases hpre; rfl)
    rw [addClosing_ops, setTask_ops, h0]; exact hn
  | respond ct fn sc o =>
    simp only [stepE] at h
    cases hr : respond e s ct fn sc o with
    | error x => rw [hr] at h; cases h
    | ok s1 =>
      rw [hr] at h; injection h with h; injection h with _ h; subst h
      obtain ⟨t, _, rfl⟩ := Shentu.Props.C15.respond_appends e s s1 ct fn sc o hr
      rw [setTask_ops]; exact hn
  | deleteTask ct fn fo d =>
    simp only [stepE] at h
    cases hr : deleteTask e s ct fn fo d with
    | error x => rw [hr] at h; cases h
    | ok s1 =>
      rw [hr] at h; injection h with h; injection h with _ h; subst h
      unfold deleteTask at hr
      ok_cases hr
      cases hr
      exact hn
  | beginBlock =>
    simp only [stepE] at h; unfold beginBlock at h
    ok_cases h
    cases h
    exact hn
  | endBlock =>
    simp only [stepE] at h
    cases hr : endBlock e s with
    | error x => rw [hr] at h; cases h
    | ok s1 =>
      rw [hr] at h; injection h with h; injection h with _ h; subst h
      unfold endBlock at hr
      cases hf : endFold e.bond (closingAt s e.h) s with
      | error x => rw [hf] at hr; cases hr
      | ok s2 =>
        rw [hf] at hr; cases hr
        show (s2.ops.map (·.addr)).Nodup
        rw [endFold_ops _ hf]; exact hn

/-! ### what the end-blocker credits, task by task -/

/-- ghost: the end-blocker again, recording for every task handled by how much the operators' accumulated rewards grew -/
def endLog (bond : Denom) : List (String × String) → State → (String → Denom → Int) → (String → Denom → Int)
  | [], _, p => p
  | id :: ids, s, p =>
    match endOne bond s id with
    | .error _ => p
    | .ok s' => endLog bond ids s' (fun k d => p k d + (if k = id.1 ++ id.2 then rewSum s'.ops d - rewSum s.ops d else 0))

/-- under `k`: nothing happened and nothing was credited, or a pending task was finished and at most its bounty credited -/
def PStep (s s' : State) (p p' : String → Denom → Int) (k : String) : Prop :=
  (findTask s' k = findTask s k ∧ ∀ d, p' k d = p k d) ∨
  (∃ t t', findTask s k = some t ∧ t.status = 1 ∧ findTask s' k = some t' ∧ Fin t t' ∧
    ∀ d, p k d ≤ p' k d ∧ p' k d ≤ p k d + Coins.amountOf t.bounty d)

theorem PStep.trans {s s1 s2 : State} {p p1 p2 : String → Denom → Int} {k : String}
    (h1 : PStep s s1 p p1 k) (h2 : PStep s1 s2 p1 p2 k) : PStep s s2 p p2 k := by
  rcases h1 with ⟨h1, q1⟩ | ⟨t, t', ht, hst, ht', hfin, q1⟩
  · rcases h2 with ⟨h2, q2⟩ | ⟨t, t', ht, hst, ht', hfin, q2⟩
    · exact Or.inl ⟨h2.trans h1, fun d => (q2 d).trans (q1 d)⟩
    · exact Or.inr ⟨t, t', by rw [← h1]; exact ht, hst, ht', hfin, fun d => by rw [← q1 d]; exact q2 d⟩
  · rcases h2 with ⟨h2, q2⟩ | ⟨u, u', hu, hust, _, _, _⟩
    · exact Or.inr ⟨t, t', ht, hst, by rw [h2]; exact ht', hfin, fun d => by rw [q2 d]; exact q1 d⟩
    · rw [ht'] at hu; cases hu
      exact absurd hust hfin.not_pending

theorem findTask_tasksOk {s : State} {k : String} {t : Task} (hi : TasksOk s) (h : findTask s k = some t) :
    Coins.isAnyNegative t.bounty = false ∧ ∀ r ∈ t.responses, 0 ≤ r.score ∧ r.score ≤ 100 :=
  hi t (Shentu.C20GOrcInv.findTask_mem h).1

theorem endOne_pstep {bond : Denom} {s s' : State} {id : String × String} (hi : EndInv bond s)
    (hn : (s.ops.map (·.addr)).Nodup) (h : endOne bond s id = .ok s') (p : String → Denom → Int) (k : String) :
    PStep s s' p (fun k d => p k d + (if k = id.1 ++ id.2 then rewSum s'.ops d - rewSum s.ops d else 0)) k := by
  rw [endOne_eq bond id (Agree.refl _ s)] at h
  cases he : endOneE bond s (id.1 ++ id.2) with
  | error x => rw [he] at h; cases h
  | ok pr =>
    obtain ⟨f, incs⟩ := pr
    rw [he] at h; dsimp only at h
    cases h
    by_cases hk : k = id.1 ++ id.2
    · subst hk
      have hft := findTask_app_self (id.1 ++ id.2) f (endOneE_key he) incs s
      rcases endOneE_cases he with ⟨hf, hin⟩ | ⟨t, t1, hfs, hst, hagg, hfin1, hc⟩
      · left; subst hf hin
        refine ⟨by rw [hft]; cases findTask s (id.1 ++ id.2) <;> rfl, fun d => ?_⟩
        simp [app]
      · right
        have htk := findTask_tasksOk hi.tasks hfs
        have hb0 : ∀ d, 0 ≤ Coins.amountOf t.bounty d := fun d => amountOf_nonneg _ htk.1 d
        rcases hc with ⟨hf, hin⟩ | ⟨t2, hd, hf, hfin2⟩
        · subst hf hin
          refine ⟨t, t1, hfs, hst, by rw [hft, hfs]; rfl, hfin1, fun d => ?_⟩
          have := hb0 d
          simp [app]; omega
        · subst hf
          refine ⟨t, t2, hfs, hst, by rw [hft, hfs]; rfl, hfin2, fun d => ?_⟩
          have hbd := distributeBountyE_bound (EndInv.wok hi) (by rw [hfin1.bounty]; exact htk.1)
            (scores_of_rsig hfin1.resp htk.2) hd
          have hcs := (credits_sums incs hn hbd.1).2.2 d
          have hle := hbd.2 d
          rw [hfin1.bounty] at hle
          simp only [app, if_true]
          omega
    · left
      refine ⟨findTask_app_ne (fun h' => hk h'.symm) (endOneE_key he) incs s, fun d => ?_⟩
      simp [hk]

theorem endFold_pstep {bond : Denom} : ∀ (ids : List (String × String)) {s s' : State} (p : String → Denom → Int),
    EndInv bond s → (s.ops.map (·.addr)).Nodup → endFold bond ids s = .ok s' →
    ∀ k, PStep s s' p (endLog bond ids s p) k
  | [], s, s', p, _, _, h, k => by unfold endFold at h; cases h; exact Or.inl ⟨rfl, fun _ => rfl⟩
  | id :: ids, s, s', p, hi, hn, h, k => by
    unfold endFold at h
    cases h1 : endOne bond s id with
    | error x => rw [h1] at h; cases h
    | ok s1 =>
      rw [h1] at h; dsimp only at h
      have hi1 : EndInv bond s1 := by
        rcases endOne_ok bond s id hi with ⟨s2, hs2, hi2⟩
        rw [h1] at hs2; cases hs2; exact hi2
      have hn1 : (s1.ops.map (·.addr)).Nodup := by rw [endOne_ops h1]; exact hn
      have a := endOne_pstep hi hn h1 p k
      have b := endFold_pstep ids (fun k d => p k d + (if k = id.1 ++ id.2 then rewSum s1.ops d - rewSum s.ops d else 0)) hi1 hn1 h k
      have e : endLog bond (id :: ids) s p =
          endLog bond ids s1 (fun k d => p k d + (if k = id.1 ++ id.2 then rewSum s1.ops d - rewSum s.ops d else 0)) := by
        rw [endLog, h1]
      rw [e]
      exact a.trans b

theorem endBlock_pstep {e : Env} {s s' : State} (hi : EndInv e.bond s) (hn : (s.ops.map (·.addr)).Nodup)
    (h : endBlock e s = .ok s') (p : String → Denom → Int) (k : String) :
    PStep s s' p (endLog e.bond (closingAt s e.h) s p) k := by
  unfold endBlock at h
  cases hf : endFold e.bond (closingAt s e.h) s with
  | error x => rw [hf] at h; cases h
  | ok s1 =>
    rw [hf] at h; dsimp only at h
    cases h
    have := endFold_pstep _ p hi hn hf k
    unfold PStep at this ⊢
    rw [findTask_congr (s' := delClosing s1 e.h) (s := s1) rfl]
    exact this

/-! ### runs -/

/-- ghost: an accepted response -/
structure RespEv where
  key : String
  op : Addr
  score : Int
  h : Int
  wasOp : Bool

/-- ledger and oracle state with three ghost records: how often the task under a key left `pending` since the key was last
    created, the responses accepted since then, and the rewards credited for it since then -/
structure Run where
  l : Ledger
  s : State
  aggCount : String → Nat
  respLog : List RespEv
  paid : String → Denom → Int

/-- the task under `k` was pending before and is something else after -/
def leftPending (s s' : State) (k : String) : Bool :=
  match findTask s k, findTask s' k with
  | some t, some t' => t.status == 1 && t'.status != 1
  | _, _ => false

def aggCountNext (op : Op) (s s' : State) (ac : String → Nat) : String → Nat := fun k =>
  match op with
  | .createTask c f _ _ _ _ => if k = c ++ f then 0 else ac k
  | _ => ac k + (if leftPending s s' k then 1 else 0)

def respLogNext (e : Env) (op : Op) (s : State) (log : List RespEv) : List RespEv :=
  match op with
  | .respond c f sc o => log ++ [{ key := c ++ f, op := o, score := sc, h := e.h, wasOp := isOp s o }]
  | .createTask c f _ _ _ _ => log.filter (fun ev => !(ev.key == c ++ f))
  | _ => log

def paidNext (e : Env) (op : Op) (s : State) (p : String → Denom → Int) : String → Denom → Int :=
  match op with
  | .endBlock => endLog e.bond (closingAt s e.h) s p
  | .createTask c f _ _ _ _ => fun k d => if k = c ++ f then 0 else p k d
  | _ => p

/-- one operation in its own environment; a refused operation changes nothing -/
def runStep (r : Run) (eo : Env × Op) : Run :=
  match stepE eo.1 r.l r.s eo.2 with
  | .error _ => r
  | .ok (l', s') =>
    { l := l', s := s', aggCount := aggCountNext eo.2 r.s s' r.aggCount, respLog := respLogNext eo.1 eo.2 r.s r.respLog,
      paid := paidNext eo.1 eo.2 r.s r.paid }

/-- the least height the next operation may carry: the end-blocker closes its block -/
def nextClock (eo : Env × Op) : Int :=
  match eo.2 with
  | .endBlock => eo.1.h + 1
  | _ => eo.1.h

/-- a timed history: heights never go back, nothing follows the end-blocker at the same height, one bond denomination -/
def Timed (bond : Denom) : Int → List (Env × Op) → Prop
  | _, [] => True
  | c, eo :: rest => c ≤ eo.1.h ∧ eo.1.bond = bond ∧ Timed bond (nextClock eo) rest

/-- `Timed` is decidable (used by the concrete examples) -/
def Timed.dec (bond : Denom) : (c : Int) → (ops : List (Env × Op)) → Decidable (Timed bond c ops)
  | _, [] => isTrue trivial
  | c, eo :: rest =>
    match Timed.dec bond (nextClock eo) rest with
    | isTrue h3 =>
      if h1 : c ≤ eo.1.h then
        if h2 : eo.1.bond = bond then isTrue ⟨h1, h2, h3⟩ else isFalse (fun h => h2 h.2.1)
      else isFalse (fun h => h1 h.1)
    | isFalse h3 => isFalse (fun h => h3 h.2.2)

instance (bond : Denom) (c : Int) (ops : List (Env × Op)) : Decidable (Timed bond c ops) := Timed.dec bond c ops

/-- the kind of the error an operation is refused with (used by the concrete examples) -/
def refusal (e : Env) (r : Run) (op : Op) : Option String :=
  match stepE e r.l r.s op with
  | .error x => some x.kind
  | .ok _ => none

/-- the clock after a history -/
def clockAfter : Int → List (Env × Op) → Int
  | c, [] => c
  | _, eo :: rest => clockAfter (nextClock eo) rest

/-! ### the invariant under one key -/

def evSig (ev : RespEv) : Addr × Int := (ev.op, ev.score)

/-- what the ghost records say about the task stored under one key -/
structure KI (ft : Option Task) (ac : Nat) (lg : List RespEv) (pd : Denom → Int) : Prop where
  once : ac ≤ 1
  pending : ∀ t, ft = some t → t.status = 1 → ac = 0 ∧ ∀ d, pd d = 0
  resp : ∀ t, ft = some t → t.responses.map rsig = lg.map evSig
  nodup : ∀ t, ft = some t → (t.responses.map (·.op)).Nodup
  early : ∀ t, ft = some t → ∀ ev ∈ lg, ev.h ≤ t.closing
  paid : ∀ t, ft = some t → ∀ d, 0 ≤ pd d ∧ pd d ≤ Coins.amountOf t.bounty d

theorem KI_none {ac : Nat} {lg : List RespEv} {pd : Denom → Int} (h : ac ≤ 1) : KI none ac lg pd :=
  ⟨h, (fun u hu => by cases hu), (fun u hu => by cases hu), (fun u hu => by cases hu), (fun u hu => by cases hu),
    (fun u hu => by cases hu)⟩

def KeyInv (r : Run) (k : String) : Prop :=
  KI (findTask r.s k) (r.aggCount k) (r.respLog.filter (·.key == k)) (r.paid k)

def LogInv (log : List RespEv) : Prop := ∀ ev ∈ log, ev.wasOp = true ∧ 0 ≤ ev.score ∧ ev.score ≤ 100

structure Inv (bond : Denom) (c : Int) (r : Run) : Prop where
  idx : Idx c r.s
  endInv : EndInv bond r.s
  opsNodup : (r.s.ops.map (·.addr)).Nodup
  log : LogInv r.respLog
  keys : ∀ k, KeyInv r k
  fin : ∀ k t, findTask r.s k = some t → t.status ≠ 1 → t.closing < c

theorem leftPending_same {s s' : State} {k : String} (h : findTask s' k = findTask s k) : leftPending s s' k = false := by
  unfold leftPending
  rw [h]
  cases findTask s k with
  | none => rfl
  | some t => simp

theorem map_op_of_rsig {rs rs' : List Response} (h : rs'.map rsig = rs.map rsig) : rs'.map (·.op) = rs.map (·.op) := by
  have : ∀ l : List Response, l.map (·.op) = (l.map rsig).map Prod.fst := by
    intro l; rw [List.map_map]; rfl
  rw [this, this, h]

/-- the ghost records under `k` after an accepted operation that is not about `k` and is not the end-blocker -/
theorem ghosts_other {e : Env} {op : Op} {s s' : State} {r : Run} {k : String} (hne : op ≠ .endBlock)
    (hk : OpKey op ≠ some k) (hf : findTask s' k = findTask s k) :
    aggCountNext op s s' r.aggCount k = r.aggCount k ∧
    (respLogNext e op s r.respLog).filter (·.key == k) = r.respLog.filter (·.key == k) ∧
    paidNext e op s r.paid k = r.paid k := by
  have hlp := leftPending_same hf
  cases op with
  | createTask c f b cr w v =>
    have hck : ¬ (k = c ++ f) := by
      intro h'; apply hk; simp [OpKey, h']
    refine ⟨by simp [aggCountNext, hck], ?_, by funext d; simp [paidNext, hck]⟩
    simp only [respLogNext, List.filter_filter]
    apply List.filter_congr
    intro ev _
    by_cases hev : ev.key = k
    · have : ¬ (ev.key = c ++ f) := by rw [hev]; exact hck
      simp [hev, this, hck]
    · simp [hev]
  | respond c f sc o =>
    have hck : ¬ (c ++ f = k) := by
      intro h'; apply hk; simp [OpKey, h']
    refine ⟨by simp [aggCountNext, hlp], ?_, rfl⟩
    simp [respLogNext, List.filter_append, List.filter_cons, hck]
  | endBlock => exact absurd rfl hne
  | createOperator a co p => exact ⟨by simp [aggCountNext, hlp], rfl, rfl⟩
  | removeOperator a => exact ⟨by simp [aggCountNext, hlp], rfl, rfl⟩
  | addCollateral a co => exact ⟨by simp [aggCountNext, hlp], rfl, rfl⟩
  | reduceCollateral a co => exact ⟨by simp [aggCountNext, hlp], rfl, rfl⟩
  | withdrawReward a => exact ⟨by simp [aggCountNext, hlp], rfl, rfl⟩
  | deleteTask c f fo d => exact ⟨by simp [aggCountNext, hlp], rfl, rfl⟩
  | beginBlock => exact ⟨by simp [aggCountNext, hlp], rfl, rfl⟩

/-- one accepted operation keeps the invariant under every key -/
theorem keyInv_step {bond : Denom} {c : Int} {r : Run} {e : Env} {op : Op} {l' : Ledger} {s' : State}
    (hinv : Inv bond c r) (hb : e.bond = bond) (h : stepE e r.l r.s op = .ok (l', s'))
    (hi' : EndInv bond s') (k : String) :
    KI (findTask s' k) (aggCountNext op r.s s' r.aggCount k) ((respLogNext e op r.s r.respLog).filter (·.key == k))
      (paidNext e op r.s r.paid k) := by
  have hK : KI (findTask r.s k) (r.aggCount k) (r.respLog.filter (·.key == k)) (r.paid k) := hinv.keys k
  by_cases hend : op = .endBlock
  · subst hend
    simp only [stepE] at h
    cases hr : endBlock e r.s with
    | error x => rw [hr] at h; cases h
    | ok s1 =>
      rw [hr] at h; injection h with h; injection h with _ h; subst h
      have hps := endBlock_pstep (by rw [hb]; exact hinv.endInv) hinv.opsNodup hr r.paid k
      have hlog : (respLogNext e .endBlock r.s r.respLog) = r.respLog := rfl
      have hpd : paidNext e .endBlock r.s r.paid = endLog e.bond (closingAt r.s e.h) r.s r.paid := rfl
      rw [hlog, hpd]
      rcases hps with ⟨hf, hq⟩ | ⟨t, t', ht, hst, ht', hfin, hq⟩
      · have hlp := leftPending_same hf
        have hac : aggCountNext .endBlock r.s s1 r.aggCount k = r.aggCount k := by simp [aggCountNext, hlp]
        have hpk : endLog e.bond (closingAt r.s e.h) r.s r.paid k = r.paid k := funext hq
        rw [hf, hac, hpk]; exact hK
      · have hp0 := hK.pending t ht hst
        have hlp : leftPending r.s s1 k = true := by
          unfold leftPending; rw [ht, ht']
          have := hfin.not_pending
          simp [hst, this]
        have hac : aggCountNext .endBlock r.s s1 r.aggCount k = 1 := by simp [aggCountNext, hlp, hp0.1]
        rw [ht', hac]
        refine ⟨Nat.le_refl _, ?_, ?_, ?_, ?_, ?_⟩
        · intro u hu hust; cases hu; exact absurd hust hfin.not_pending
        · intro u hu; cases hu; rw [hfin.resp]; exact hK.resp t ht
        · intro u hu; cases hu; rw [map_op_of_rsig hfin.resp]; exact hK.nodup t ht
        · intro u hu ev hev; cases hu; rw [hfin.closing]; exact hK.early t ht ev hev
        · intro u hu d; cases hu
          have := hq d
          rw [hp0.2 d] at this
          rw [hfin.bounty]; omega
  · rcases stepE_taskStep h k with ⟨hf, hk⟩ | ⟨ct, fn, sc, o, t, hop, hkk, ht, hisop, hcl, hdup, h0, h100, ht'⟩ |
      ⟨ct, fn, fo, d, t, hop, hkk, ht, _, _, _, ht'⟩ |
      ⟨ct, fn, b, cr, w, v, t', hop, hkk, _, ht', hst', hresp', _, hbo', _, _, _, _⟩ | ⟨hop, _⟩
    · obtain ⟨g1, g2, g3⟩ := ghosts_other (e := e) (r := r) hend hk hf
      rw [hf, g1, g2, g3]; exact hK
    · subst hop hkk
      have hlp : leftPending r.s s' (ct ++ fn) = false := by
        unfold leftPending; rw [ht, ht']; simp
      have hac : aggCountNext (.respond ct fn sc o) r.s s' r.aggCount (ct ++ fn) = r.aggCount (ct ++ fn) := by
        simp [aggCountNext, hlp]
      have hlg : (respLogNext e (.respond ct fn sc o) r.s r.respLog).filter (·.key == ct ++ fn) =
          r.respLog.filter (·.key == ct ++ fn) ++ [{ key := ct ++ fn, op := o, score := sc, h := e.h, wasOp := isOp r.s o }] := by
        simp [respLogNext, List.filter_append, List.filter_cons]
      have hpd : paidNext e (.respond ct fn sc o) r.s r.paid = r.paid := rfl
      rw [ht', hac, hlg, hpd]
      refine ⟨hK.once, ?_, ?_, ?_, ?_, ?_⟩
      · intro u hu hust; cases hu; exact hK.pending t ht hust
      · intro u hu; cases hu
        simp only [List.map_append, List.map_cons, List.map_nil]
        rw [hK.resp t ht]; rfl
      · intro u hu; cases hu
        simp only [List.map_append, List.map_cons, List.map_nil]
        rw [List.nodup_append]
        refine ⟨hK.nodup t ht, by simp, ?_⟩
        intro a ha b hbb
        simp only [List.mem_singleton] at hbb
        subst hbb
        obtain ⟨x, hx, hxa⟩ := List.mem_map.1 ha
        intro heq
        have := List.any_eq_false.mp hdup x hx
        apply this
        simp [hxa, heq]
      · intro u hu ev hev; cases hu
        rcases List.mem_append.mp hev with h1 | h1
        · exact hK.early t ht ev h1
        · have : ev = { key := ct ++ fn, op := o, score := sc, h := e.h, wasOp := isOp r.s o } := by simpa using h1
          rw [this]; exact hcl
      · intro u hu; cases hu; exact hK.paid t ht
    · subst hop hkk
      have hlp : leftPending r.s s' (ct ++ fn) = false := by
        unfold leftPending; rw [ht, ht']
      have hac : aggCountNext (.deleteTask ct fn fo d) r.s s' r.aggCount (ct ++ fn) = r.aggCount (ct ++ fn) := by
        simp [aggCountNext, hlp]
      rw [ht', hac]
      exact KI_none hK.once
    · subst hop hkk
      have hac : aggCountNext (.createTask ct fn b cr w v) r.s s' r.aggCount (ct ++ fn) = 0 := by simp [aggCountNext]
      have hlg : (respLogNext e (.createTask ct fn b cr w v) r.s r.respLog).filter (·.key == ct ++ fn) = [] := by
        simp only [respLogNext, List.filter_filter]
        rw [List.filter_eq_nil_iff]
        intro ev _
        by_cases hev : ev.key = ct ++ fn <;> simp [hev]
      have hpd : paidNext e (.createTask ct fn b cr w v) r.s r.paid (ct ++ fn) = fun _ => 0 := by
        funext d; simp [paidNext]
      rw [ht', hac, hlg, hpd]
      have hbn := (findTask_tasksOk hi'.tasks ht').1
      refine ⟨Nat.zero_le _, ?_, ?_, ?_, ?_, ?_⟩
      · intro u hu _; exact ⟨rfl, fun _ => rfl⟩
      · intro u hu; cases hu; rw [hresp']; rfl
      · intro u hu; cases hu; rw [hresp']; simp
      · intro u hu ev hev; cases hev
      · intro u hu d; cases hu
        exact ⟨Int.le_refl _, amountOf_nonneg _ hbn d⟩
    · exact absurd hop hend

theorem logInv_step {e : Env} {op : Op} {l l' : Ledger} {s s' : State} {log : List RespEv} (hl : LogInv log)
    (h : stepE e l s op = .ok (l', s')) : LogInv (respLogNext e op s log) := by
  cases op with
  | respond c f sc o =>
    simp only [stepE] at h
    cases hr : respond e s c f sc o with
    | error x => rw [hr] at h; cases h
    | ok s1 =>
      obtain ⟨hop, t, ht, hcl, hdup, h0, h100⟩ := (Shentu.Props.C15.respond_iff e s c f sc o).mp ⟨s1, hr⟩
      intro ev hev
      simp only [respLogNext] at hev
      rcases List.mem_append.mp hev with h1 | h1
      · exact hl ev h1
      · have : ev = { key := c ++ f, op := o, score := sc, h := e.h, wasOp := isOp s o } := by simpa using h1
        rw [this]; exact ⟨hop, h0, h100⟩
  | createTask c f b cr w v =>
    intro ev hev
    simp only [respLogNext] at hev
    exact hl ev (List.mem_filter.mp hev).1
  | endBlock => exact hl
  | createOperator a co p => exact hl
  | removeOperator a => exact hl
  | addCollateral a co => exact hl
  | reduceCollateral a co => exact hl
  | withdrawReward a => exact hl
  | deleteTask c f fo d => exact hl
  | beginBlock => exact hl

theorem idx_next {c : Int} {e : Env} {op : Op} {l l' : Ledger} {s s' : State} (hi : Idx c s) (hc : c ≤ e.h)
    (h : stepE e l s op = .ok (l', s')) : Idx (nextClock (e, op)) s' := by
  by_cases hend : op = .endBlock
  · subst hend
    simp only [stepE] at h
    cases hr : endBlock e s with
    | error x => rw [hr] at h; cases h
    | ok s1 =>
      rw [hr] at h; injection h with h; injection h with _ h; subst h
      exact idx_endBlock hr hc hi
  · have : nextClock (e, op) = e.h := by
      cases op <;> first | rfl | exact absurd rfl hend
    rw [this]
    exact idx_stepE hend h hc hi

/-- under the exact closing index, a task listed for the block of height `e.h` closes at `e.h` -/
theorem closing_at {c : Int} {e : Env} {s : State} {k : String} {t : Task} (hi : Idx c s) (hc : c ≤ e.h)
    (hm : k ∈ (closingAt s e.h).map (fun i => i.1 ++ i.2)) (ht : findTask s k = some t) : t.closing = e.h := by
  rw [hi.2 e.h hc] at hm
  unfold Shentu.C20GH.idsAt Shentu.C20GH.ids at hm
  rw [List.map_map] at hm
  obtain ⟨x, hx, hxk⟩ := List.mem_map.1 hm
  have hx' := List.mem_filter.mp hx
  have hkey : x.key = t.key := by
    rw [findTask_key ht]; exact hxk
  have : x = t := key_inj hi.1 hx'.1 (Shentu.C20GOrcInv.findTask_mem ht).1 hkey
  rw [← this]; simpa using hx'.2

theorem fin_step {c : Int} {e : Env} {op : Op} {l l' : Ledger} {s s' : State} (hi : Idx c s) (hc : c ≤ e.h)
    (hfin : ∀ k t, findTask s k = some t → t.status ≠ 1 → t.closing < c)
    (h : stepE e l s op = .ok (l', s')) :
    ∀ k t, findTask s' k = some t → t.status ≠ 1 → t.closing < nextClock (e, op) := by
  intro k t' ht' hst'
  have hge : e.h ≤ nextClock (e, op) := by unfold nextClock; split <;> dsimp only <;> omega
  rcases stepE_taskStep h k with ⟨hf, _⟩ | ⟨ct, fn, sc, o, t, hop, hkk, ht, _, _, _, _, _, ht2⟩ |
      ⟨ct, fn, fo, d, t, hop, hkk, ht, _, _, _, ht2⟩ |
      ⟨ct, fn, b, cr, w, v, t2, hop, hkk, _, ht2, hst2, _⟩ | ⟨hop, hm, t, t2, ht, hst, ht2, hf2⟩
  · rw [hf] at ht'
    have := hfin k t' ht' hst'
    omega
  · rw [ht2] at ht'; cases ht'
    have := hfin k t ht hst'
    dsimp only; omega
  · rw [ht2] at ht'; cases ht'
  · rw [ht2] at ht'; cases ht'; exact absurd hst2 hst'
  · rw [ht2] at ht'; cases ht'
    subst hop
    have := closing_at hi hc hm ht
    rw [hf2.closing, this]
    show e.h < e.h + 1
    omega

theorem nextClock_ge (eo : Env × Op) : eo.1.h ≤ nextClock eo := by
  unfold nextClock; split <;> omega

/-- **every operation of a timed history keeps the invariant** -/
theorem inv_step {bond : Denom} {c : Int} {r : Run} (eo : Env × Op) (hinv : Inv bond c r) (hc : c ≤ eo.1.h)
    (hb : eo.1.bond = bond) : Inv bond (nextClock eo) (runStep r eo) := by
  obtain ⟨e, op⟩ := eo
  unfold runStep
  cases hs : stepE e r.l r.s op with
  | error x =>
    have hge := nextClock_ge (e, op)
    exact ⟨idx_mono (by dsimp only at hc hge; omega) hinv.idx, hinv.endInv, hinv.opsNodup, hinv.log, hinv.keys,
      fun k t ht hst => by have := hinv.fin k t ht hst; dsimp only at hc hge; omega⟩
  | ok ls =>
    obtain ⟨l', s'⟩ := ls
    dsimp only
    have hi' : EndInv bond s' := by
      have := stepE_endInv e r.l l' r.s s' op hs (by rw [hb]; exact hinv.endInv)
      rw [hb] at this; exact this
    exact ⟨idx_next hinv.idx hc hs, hi', stepE_opsNodup hs hinv.opsNodup, logInv_step hinv.log hs,
      fun k => keyInv_step hinv hb hs hi' k, fin_step hinv.idx hc hinv.fin hs⟩

theorem inv_run {bond : Denom} : ∀ (ops : List (Env × Op)) {c : Int} {r : Run}, Inv bond c r → Timed bond c ops →
    Inv bond (clockAfter c ops) (ops.foldl runStep r)
  | [], _, _, hinv, _ => hinv
  | eo :: rest, _, _, hinv, ht => inv_run rest (inv_step eo hinv ht.1 ht.2.1) ht.2.2

theorem timed_append {bond : Denom} : ∀ {pre post : List (Env × Op)} {c : Int}, Timed bond c (pre ++ post) →
    Timed bond c pre ∧ Timed bond (clockAfter c pre) post
  | [], _, _, h => ⟨trivial, h⟩
  | eo :: pre, post, _, h => by
    obtain ⟨a, b⟩ := timed_append (pre := pre) (post := post) h.2.2
    exact ⟨⟨h.1, h.2.1, a⟩, b⟩

/-- the invariant just before the last step of a timed history -/
theorem inv_at {bond : Denom} {c : Int} {r0 : Run} {pre : List (Env × Op)} {eo : Env × Op} (h0 : Inv bond c r0)
    (ht : Timed bond c (pre ++ [eo])) :
    Inv bond (clockAfter c pre) (pre.foldl runStep r0) ∧ clockAfter c pre ≤ eo.1.h ∧ eo.1.bond = bond := by
  obtain ⟨a, b⟩ := timed_append ht
  exact ⟨inv_run pre h0 a, b.1, b.2.1⟩

/-- the empty oracle state with no ghost records -/
def Run.init (l : Ledger) (p : Params) : Run :=
  { l := l, s := { ops := [], wds := [], total := [], tasks := [], closing := [], params := p },
    aggCount := fun _ => 0, respLog := [], paid := fun _ _ => 0 }

theorem inv_init (bond : Denom) (c : Int) (l : Ledger) (p : Params) (h1 : 0 < p.eps1) (h2 : 0 < p.eps2) :
    Inv bond c (Run.init l p) := by
  refine ⟨idx_empty c p, ⟨h1, h2, ?_, ?_⟩, by simp [Run.init], (fun ev hev => by cases hev), fun k => ?_, ?_⟩
  · intro a o hf; simp [Run.init, findOp] at hf
  · intro t ht; simp [Run.init] at ht
  · have hf : findTask (Run.init l p).s k = none := rfl
    unfold KeyInv
    rw [hf]
    exact KI_none (Nat.zero_le _)
  · intro k t ht; simp [Run.init, findTask] at ht

end Shentu.C15HH
