import Shentu.Proofs.ShieldPoolOps
/-
  The expiry loop of the end-blocker (`expireEntries`, `expireLoop`, `expireAndDistribute`):
  the shield of removed entries leaves the pool and the running total together.
-/
namespace Shentu.Shield.PoolLm
set_option linter.unusedSimpArgs false

/-- what one pass over a purchase list does to shield amounts, ids and fees -/
structure ExpireFacts (now : Int) (es : List Purchase) (r : Int) (res : List Purchase × (Dec × Dec × Int)) : Prop where
  sum : res.2.2.2 + sumI (·.shield) res.1 = r + sumI (·.shield) es
  ids : (res.1.map (·.id)).Sublist (es.map (·.id))
  each : ∀ e' ∈ res.1, ∃ e ∈ es, e'.id = e.id ∧ e'.shield = e.shield ∧ (e'.fees = e.fees ∨ e'.fees = Dec.zero)
  keep : es.any (·.delTime < now) = false → res.2.2.2 = r

theorem expireEntries_facts (now lu per : Int) :
    ∀ (es : List Purchase) (f tf : Dec) (r : Int) (res : List Purchase × (Dec × Dec × Int)),
      expireEntries now lu per es (f, tf, r) = res → ExpireFacts now es r res := by
  intro es
  induction es with
  | nil =>
    intro f tf r res h
    unfold expireEntries at h
    subst h
    exact ⟨rfl, List.Sublist.refl _, (fun e' he' => nomatch he'), fun _ => rfl⟩
  | cons en es ih =>
    intro f tf r res h
    rw [expireEntries] at h
    dsimp only at h
    by_cases hdel : en.delTime < now
    · rw [if_pos hdel] at h
      have := ih _ _ _ res h
      refine ⟨?_, ?_, ?_, ?_⟩
      · rw [this.sum, sumI_cons]; omega
      · exact List.Sublist.trans this.ids (by simp)
      · intro e' he'
        rcases this.each e' he' with ⟨e, he, hh⟩
        exact ⟨e, List.mem_cons_of_mem _ he, hh⟩
      · intro hany
        simp only [List.any_cons, Bool.or_eq_false_iff, decide_eq_false_iff_not] at hany
        exact absurd hdel hany.1
    · rw [if_neg hdel] at h
      rcases hB : expireEntries now lu per es
        ((if (decide (en.endTime > lu) && decide (en.fees.raw > 0)) = true then
            f.add (en.fees.mul ((Dec.ofInt (en.endTime - lu)).quo (Dec.ofInt per))) else f),
         (if (decide (en.endTime > lu) && decide (en.fees.raw > 0)) = true then tf.sub en.fees else tf), r) with ⟨rest, acc⟩
      rw [hB] at h
      dsimp only at h
      subst h
      have := ih _ _ _ _ hB
      refine ⟨?_, ?_, ?_, ?_⟩
      · show acc.2.2 + sumI (·.shield) (_ :: rest) = _
        have h1 := this.sum
        simp only at h1
        rw [sumI_cons, sumI_cons]
        have : (if (decide (en.endTime > lu) && decide (en.fees.raw > 0)) = true then { en with fees := Dec.zero } else en).shield = en.shield := by
          split <;> rfl
        rw [this]; omega
      · show ((_ :: rest).map (·.id)).Sublist _
        simp only [List.map_cons]
        have hid : (if (decide (en.endTime > lu) && decide (en.fees.raw > 0)) = true then { en with fees := Dec.zero } else en).id = en.id := by
          split <;> rfl
        rw [hid]
        exact List.Sublist.cons_cons _ this.ids
      · intro e' he'
        rcases List.mem_cons.mp he' with h1 | h1
        · refine ⟨en, List.mem_cons_self, ?_⟩
          subst h1
          split
          · exact ⟨rfl, rfl, Or.inr rfl⟩
          · exact ⟨rfl, rfl, Or.inl rfl⟩
        · rcases this.each e' h1 with ⟨e, he, hh⟩
          exact ⟨e, List.mem_cons_of_mem _ he, hh⟩
      · intro hany
        simp only [List.any_cons, Bool.or_eq_false_iff, decide_eq_false_iff_not] at hany
        exact this.keep hany.2

/-! ## one list met in the queue -/

/-- the body of `expireLoop` for a (pool, purchaser) whose list `lst` was found -/
def expireBody (now : Int) (pool : Nat) (a : Addr) (acc : ExpAcc) (lst : PList) : Except Err ExpAcc :=
  let (entries', (fees', totalFees', removed)) :=
    expireEntries now acc.s.lastUpdate acc.s.params.protection lst.entries (acc.fees, acc.totalFees, 0)
  let s1E : Except Err State :=
    if lst.entries.any (·.delTime < now) then
      match findPool acc.s pool with
      | none => panicE "shield:expired-purchase-without-pool"
      | some p => .ok (setPool acc.s { p with shield := p.shield - removed })
    else .ok acc.s
  match s1E with
  | .error x => .error x
  | .ok s1 =>
    let s2 := if entries'.isEmpty then deleteList s1 pool a else setList s1 { lst with entries := entries' }
    .ok { s := s2, fees := fees', totalFees := totalFees', totalShield := acc.totalShield - removed }

theorem expireLoop_nil (now : Int) (acc : ExpAcc) : expireLoop now [] acc = .ok acc := by
  unfold expireLoop; rfl

theorem expireLoop_cons (now : Int) (pool : Nat) (a : Addr) (rest : List (Nat × Addr)) (acc : ExpAcc) :
    expireLoop now ((pool, a) :: rest) acc =
      match findList acc.s pool a with
      | none => expireLoop now rest acc
      | some lst =>
        match expireBody now pool a acc lst with
        | .error x => .error x
        | .ok acc1 => expireLoop now rest acc1 := by
  rw [expireLoop]
  cases hfl : findList acc.s pool a with
  | none => rfl
  | some lst =>
    dsimp only
    unfold expireBody
    generalize expireEntries now acc.s.lastUpdate acc.s.params.protection lst.entries (acc.fees, acc.totalFees, 0) = res
    obtain ⟨entries', fees', totalFees', removed⟩ := res
    dsimp only
    cases hany : lst.entries.any (·.delTime < now) with
    | false => rfl
    | true =>
      simp only [if_true]
      cases hp : findPool acc.s pool with
      | none => rfl
      | some p => rfl

/-- the state the loop is really describing: the store with the running total written back -/
def accState (acc : ExpAcc) : State := { acc.s with totalShield := acc.totalShield }

/-- the fields of the store the expiry loop never touches -/
structure ExpFrame (s s' : State) : Prop where
  stakes : s'.stakes = s.stakes
  stakingPool : s'.stakingPool = s.stakingPool
  nextPool : s'.nextPool = s.nextPool
  nextPurchase : s'.nextPurchase = s.nextPurchase
  totalClaimed : s'.totalClaimed = s.totalClaimed
  params : s'.params = s.params
  lastUpdate : s'.lastUpdate = s.lastUpdate
  totalCollateral : s'.totalCollateral = s.totalCollateral
  providers : s'.providers = s.providers

theorem ExpFrame.refl (s : State) : ExpFrame s s := ⟨rfl, rfl, rfl, rfl, rfl, rfl, rfl, rfl, rfl⟩
theorem ExpFrame.trans {a b c : State} (h1 : ExpFrame a b) (h2 : ExpFrame b c) : ExpFrame a c :=
  ⟨h2.stakes.trans h1.stakes, h2.stakingPool.trans h1.stakingPool, h2.nextPool.trans h1.nextPool,
   h2.nextPurchase.trans h1.nextPurchase, h2.totalClaimed.trans h1.totalClaimed, h2.params.trans h1.params,
   h2.lastUpdate.trans h1.lastUpdate, h2.totalCollateral.trans h1.totalCollateral, h2.providers.trans h1.providers⟩

/-- one list processed: the shield of the removed entries leaves the pool and the running total together -/
theorem expireBody_inv {now : Int} {pool : Nat} {a : Addr} {acc acc1 : ExpAcc} {lst : PList}
    (hfl : findList acc.s pool a = some lst) (h : expireBody now pool a acc lst = .ok acc1)
    (hinv : ShieldInv (accState acc)) : ShieldInv (accState acc1) ∧ ExpFrame acc.s acc1.s := by
  unfold expireBody at h
  rcases hex : expireEntries now acc.s.lastUpdate acc.s.params.protection lst.entries (acc.fees, acc.totalFees, 0) with ⟨entries', fees', totalFees', removed⟩
  rw [hex] at h
  dsimp only at h
  have hF := expireEntries_facts _ _ _ _ _ _ _ _ hex
  have hsum : sumI (·.shield) entries' = sumI (·.shield) lst.entries + (-removed) := by
    have := hF.sum; simp only at this; omega
  have hkey := findList_key hfl
  have hmem : lst ∈ (accState acc).lists := findList_mem hfl
  have hfl0 : findList (accState acc) pool a = some lst := hfl
  -- the facts about the surviving entries
  have hnn : ∀ e ∈ entries', 0 ≤ e.shield ∧ 0 ≤ e.fees.raw := by
    intro e' he'
    rcases hF.each e' he' with ⟨e, he, _, hsh, hfe⟩
    have := hinv.entryNonneg lst hmem e he
    refine ⟨by rw [hsh]; exact this.1, ?_⟩
    rcases hfe with h1 | h1
    · rw [h1]; exact this.2
    · rw [h1]; exact Int.le_refl 0
  have hids : (entries'.map (·.id)).Nodup := List.Nodup.sublist hF.ids (hinv.entryIds lst hmem)
  have hfrom : ∀ e ∈ entries', e.id ∈ lst.entries.map (·.id) := by
    intro e' he'
    rcases hF.each e' he' with ⟨e, he, hid, _⟩
    exact List.mem_map.mpr ⟨e, he, hid.symm⟩
  have hlt : ∀ e ∈ entries', e.id < (accState acc).nextPurchase := by
    intro e' he'
    rcases hF.each e' he' with ⟨e, he, hid, _⟩
    rw [hid]; exact hinv.purchaseIdLt lst hmem e he
  -- the list part of the step, for any store `s1` that has the lists of `acc.s`
  have hlists : ∀ (s1 : State) (T : Int), s1.lists = acc.s.lists → s1.nextPurchase = acc.s.nextPurchase →
      ListsStep (accState acc)
        { (if entries'.isEmpty then deleteList s1 pool a else setList s1 { lst with entries := entries' }) with totalShield := T }
        pool (-removed) := by
    intro s1 T hl1 hq1
    by_cases hemp : entries'.isEmpty = true
    · rw [if_pos hemp]
      have hnil : entries' = [] := by simpa using hemp
      have hr : -removed = - sumI (·.shield) lst.entries := by
        have := hF.sum; rw [hnil] at this; simp only [sumI_nil] at this; omega
      rw [hr]
      apply ListsStep.delete hinv hfl0
      · show s1.lists.filter _ = acc.s.lists.filter _; rw [hl1]
      · show acc.s.nextPurchase ≤ s1.nextPurchase; omega
    · rw [if_neg hemp]
      have hfl' : findList (accState acc) (PList.mk lst.pool lst.purchaser entries').pool (PList.mk lst.pool lst.purchaser entries').purchaser = some lst := by
        show findList acc.s lst.pool lst.purchaser = some lst
        rw [hkey.1, hkey.2]; exact hfl
      have := ListsStep.replace (s := accState acc)
        (s' := { (setList s1 { lst with entries := entries' }) with totalShield := T })
        (lst' := { lst with entries := entries' }) (d := -removed) hinv hfl'
        (by
          show (setList s1 { lst with entries := entries' }).lists = _
          rw [setList_lists_congr (s := accState acc) (show s1.lists = (accState acc).lists from hl1)]
          exact setList_lists_some (accState acc) { lst with entries := entries' } lst hfl')
        hsum hnn hids (fun e he => Or.inl (hfrom e he))
        (by intro e he
            show e.id < (setList s1 _).nextPurchase
            rw [setList_nextPurchase, hq1]; exact hlt e he)
        (by show acc.s.nextPurchase ≤ (setList s1 _).nextPurchase
            rw [setList_nextPurchase, hq1]; exact Nat.le_refl _)
      rw [← hkey.1]; exact this
  have hframe : ∀ (s1 : State), ExpFrame acc.s s1 →
      ExpFrame acc.s (if entries'.isEmpty then deleteList s1 pool a else setList s1 { lst with entries := entries' }) := by
    intro s1 hf1
    split
    · exact hf1.trans ⟨rfl, rfl, rfl, rfl, rfl, rfl, rfl, rfl, rfl⟩
    · exact hf1.trans ⟨setList_stakes _ _, setList_stakingPool _ _, setList_nextPool _ _, setList_nextPurchase _ _,
        setList_totalClaimed _ _, setList_params _ _, setList_lastUpdate _ _, setList_totalCollateral _ _, setList_providers _ _⟩
  by_cases hany : lst.entries.any (·.delTime < now) = true
  · rw [if_pos hany] at h
    split at h
    · cases h
    · rename_i s1 hs1
      split at hs1
      · cases hs1
      rename_i p hp
      cases hs1
      cases h
      refine ⟨?_, hframe _ ⟨rfl, rfl, rfl, rfl, rfl, rfl, rfl, rfl, rfl⟩⟩
      have hp0 : findPool (accState acc) pool = some p := hp
      have hP : PoolsStep (accState acc)
          (accState { s := (if entries'.isEmpty then deleteList (setPool acc.s { p with shield := p.shield - removed }) pool a
                            else setList (setPool acc.s { p with shield := p.shield - removed }) { lst with entries := entries' }),
                      fees := fees', totalFees := totalFees', totalShield := acc.totalShield - removed }) pool (-removed) := by
        apply PoolsStep.replace (pool' := { p with shield := p.shield - removed }) hinv hp0 (findPool_id hp : p.id = pool)
        · show p.shield - removed = p.shield + -removed; omega
        · show (if entries'.isEmpty then deleteList (setPool acc.s _) pool a else setList (setPool acc.s _) _).pools = _
          split
          · rfl
          · exact setList_pools _ _
      refine hinv.step hP (hlists _ _ rfl rfl) ?_ ?_
      · show acc.totalShield - removed = acc.totalShield + -removed; omega
      · show (if entries'.isEmpty then deleteList (setPool acc.s _) pool a else setList (setPool acc.s _) _).nextPool = _
        split
        · rfl
        · exact setList_nextPool _ _
  · rw [if_neg hany] at h
    dsimp only at h
    cases h
    refine ⟨?_, hframe _ (ExpFrame.refl _)⟩
    have hr : removed = 0 := by
      have := hF.keep (by simpa using hany); simpa using this
    subst hr
    have hP : PoolsStep (accState acc)
        (accState { s := (if entries'.isEmpty then deleteList acc.s pool a else setList acc.s { lst with entries := entries' }),
                    fees := fees', totalFees := totalFees', totalShield := acc.totalShield - 0 }) pool 0 := by
      apply PoolsStep.same
      show (if entries'.isEmpty then deleteList acc.s pool a else setList acc.s _).pools = _
      split
      · rfl
      · exact setList_pools _ _
    have hL := hlists acc.s (acc.totalShield - 0) rfl rfl
    simp only [Int.neg_zero] at hL
    refine hinv.step hP hL ?_ ?_
    · show acc.totalShield - 0 = acc.totalShield + 0; omega
    · show (if entries'.isEmpty then deleteList acc.s pool a else setList acc.s _).nextPool = _
      split
      · rfl
      · exact setList_nextPool _ _

/-! ## the loop and the end-blocker step -/

/-- the loop invariant: with the running total written back, the books are consistent after every list
    (whatever pairs the queue names, in whatever order and however often) -/
theorem expireLoop_inv (now : Int) :
    ∀ (ps : List (Nat × Addr)) (acc acc' : ExpAcc), expireLoop now ps acc = .ok acc' →
      ShieldInv (accState acc) → ShieldInv (accState acc') ∧ ExpFrame acc.s acc'.s := by
  intro ps
  induction ps with
  | nil =>
    intro acc acc' h hinv
    rw [expireLoop_nil] at h; cases h
    exact ⟨hinv, ExpFrame.refl _⟩
  | cons pa rest ih =>
    intro acc acc' h hinv
    obtain ⟨pool, a⟩ := pa
    rw [expireLoop_cons] at h
    split at h
    · exact ih _ _ h hinv
    · rename_i lst hfl
      split at h
      · cases h
      · rename_i acc1 hb
        have ⟨h1, f1⟩ := expireBody_inv hfl hb hinv
        have ⟨h2, f2⟩ := ih _ _ h h1
        exact ⟨h2, f1.trans f2⟩

/-- `RemoveExpiredPurchasesAndDistributeFees` either does nothing or writes back what the loop computed -/
theorem expireAndDistribute_ok {e : Env} {s s' : State} (h : expireAndDistribute e s = .ok s') :
    s' = s ∨ ∃ acc, expireLoop e.t (duePairs s e.t)
        { s := s, fees := Dec.zero, totalFees := s.serviceFees, totalShield := s.totalShield } = .ok acc ∧
      s'.pools = acc.s.pools ∧ s'.lists = acc.s.lists ∧ s'.totalShield = acc.totalShield ∧ s'.stakes = acc.s.stakes ∧
      s'.stakingPool = acc.s.stakingPool ∧ s'.nextPool = acc.s.nextPool ∧ s'.nextPurchase = acc.s.nextPurchase ∧
      s'.totalClaimed = acc.s.totalClaimed ∧ s'.params = acc.s.params := by
  unfold expireAndDistribute at h
  ok_cases h
  all_goals first
    | (cases h; exact Or.inl rfl)
    | (cases h; exact Or.inr ⟨_, by assumption, rfl, rfl, rfl, rfl, rfl, rfl, rfl, rfl, rfl⟩)

end Shentu.Shield.PoolLm
