import Shentu.Proofs.C16mBytes
import Shentu.EVM.MemSpec
/-
  The model's jump-destination analysis (`opcodeBits`, the loop of evm.opcodeBitset) against the specification
  `IsInstr` / `ValidJump` of `Shentu/EVM/MemSpec.lean`: for code shorter than 2^64 bytes the bit at position `p` is 1
  exactly when `p` is an instruction position, and the test `jumpTo` evaluates is exactly `ValidJump`.
-/
namespace Shentu.C16mJ
open Shentu.EVM Shentu.EVM.MemSpec Shentu.C16mH

theorem lt_nextPc (c : List UInt8) (p : Nat) : p < nextPc c p := by
  unfold nextPc; omega

theorem instr_order_aux (c : List UInt8) :
    ∀ n b a, b ≤ n → IsInstr c a → IsInstr c b → a ≤ b → a = b ∨ nextPc c a ≤ b := by
  intro n
  induction n with
  | zero =>
    intro b a hb _ _ hab
    left; omega
  | succ n ih =>
    intro b a hb ha hbI hab
    cases hbI with
    | zero => left; omega
    | @next r hr hlt =>
      have hrb := lt_nextPc c r
      by_cases har : a ≤ r
      · rcases ih r a (by omega) ha hr har with h | h
        · right; subst h; exact Nat.le_refl _
        · right; omega
      · by_cases hab' : a = nextPc c r
        · left; exact hab'
        · rcases ih a r (by omega) hr ha (by omega) with h | h
          · omega
          · omega

/-- two instruction positions are equal or separated by a whole instruction -/
theorem instr_order (c : List UInt8) {a b : Nat} (ha : IsInstr c a) (hb : IsInstr c b) (hab : a ≤ b) :
    a = b ∨ nextPc c a ≤ b :=
  instr_order_aux c b b a (Nat.le_refl _) ha hb hab

theorem instr_lt_next (c : List UInt8) {i : Nat} (hi : IsInstr c i) (p : Nat) :
    (IsInstr c p ∧ p < nextPc c i) ↔ ((IsInstr c p ∧ p < i) ∨ p = i) := by
  have hin := lt_nextPc c i
  constructor
  · rintro ⟨hp, hlt⟩
    by_cases hpi : p ≤ i
    · rcases instr_order c hp hi hpi with h | h
      · right; exact h
      · left; have := lt_nextPc c p; exact ⟨hp, by omega⟩
    · rcases instr_order c hi hp (by omega) with h | h
      · right; exact h.symm
      · omega
  · rintro (⟨hp, hlt⟩ | h)
    · exact ⟨hp, by omega⟩
    · subst h; exact ⟨hi, hin⟩

/-- one round of the loop of `opcodeBits`, as the model writes it -/
def obStep (code : ByteArray) (s : ByteArray × Nat) : ByteArray × Nat :=
  if s.snd < code.size then
    if (decide (96 ≤ (code.get! s.snd).toNat) && decide ((code.get! s.snd).toNat ≤ 127)) = true then
      (s.fst.set! s.snd 1, s.snd + ((code.get! s.snd).toNat - 96 + 1) + 1)
    else (s.fst.set! s.snd 1, s.snd + 1)
  else (s.fst, s.snd)

theorem opcodeBits_eq (code : ByteArray) :
    opcodeBits code = ((List.range code.size).foldl (fun s _ => obStep code s) (zeros code.size, 0)).fst := by
  unfold opcodeBits
  simp only [Id.run, bind, pure]
  have : (fun (x : Nat) (__s : ByteArray × Nat) =>
        if __s.snd < code.size then
          if (decide (96 ≤ (code.get! __s.snd).toNat) && decide ((code.get! __s.snd).toNat ≤ 127)) = true then
            ForInStep.yield (__s.fst.set! __s.snd 1, __s.snd + ((code.get! __s.snd).toNat - 96 + 1) + 1)
          else ForInStep.yield (__s.fst.set! __s.snd 1, __s.snd + 1)
        else ForInStep.yield (__s.fst, __s.snd))
      = fun x s => ForInStep.yield (obStep code s) := by
    funext x s; unfold obStep
    split
    · split <;> rfl
    · rfl
  rw [this]
  exact congrArg Prod.fst (forIn_range_yield code.size (zeros code.size, 0) (fun _ s => obStep code s))

theorem obStep_eq (code : ByteArray) (s : ByteArray × Nat) :
    obStep code s = if s.snd < code.size then (s.fst.set! s.snd 1, nextPc (bl code) s.snd) else s := by
  unfold obStep nextPc pushLen
  rw [← get!_eq]
  split
  · by_cases h : 96 ≤ (code.get! s.snd).toNat ∧ (code.get! s.snd).toNat ≤ 127
    · rw [if_pos (by simp [h]), if_pos h]
      congr 1; omega
    · rw [if_neg (by simpa using h), if_neg h]
  · rfl

open Classical in
/-- the byte 1 when `P` holds, 0 otherwise -/
noncomputable def bit (P : Prop) : UInt8 := if P then 1 else 0

theorem bit_pos {P : Prop} (h : P) : bit P = 1 := by
  unfold bit; exact if_pos h

theorem bit_neg {P : Prop} (h : ¬ P) : bit P = 0 := by
  unfold bit; exact if_neg h

theorem ob_iter (code : ByteArray) (hsz : code.size < 2 ^ 64) (k : Nat) :
    let s := (List.range k).foldl (fun s _ => obStep code s) (zeros code.size, 0)
    s.fst.size = code.size ∧ IsInstr (bl code) s.snd ∧ (k ≤ s.snd ∨ code.size ≤ s.snd) ∧
      ∀ p, p < code.size → (bl s.fst)[p]? = some (bit (IsInstr (bl code) p ∧ p < s.snd)) := by
  have hsz' : code.size < 2 ^ 65 := by omega
  induction k with
  | zero =>
    refine ⟨size_zeros _ hsz', IsInstr.zero, Or.inl (Nat.le_refl _), ?_⟩
    intro p hp
    simp only [List.range_zero, List.foldl_nil, bl_zeros _ hsz']
    rw [bit_neg (by omega)]
    simp [hp]
  | succ k ih =>
    obtain ⟨h1, h2, h3, h4⟩ := ih
    simp only [List.range_succ, List.foldl_append, List.foldl_cons, List.foldl_nil]
    generalize (List.range k).foldl (fun s _ => obStep code s) (zeros code.size, 0) = s at *
    rw [obStep_eq]
    have hn := lt_nextPc (bl code) s.snd
    split
    · next hlt =>
      refine ⟨?_, ?_, ?_, ?_⟩
      · rw [← bl_length, bl_set!, List.length_set, bl_length, h1]
      · exact IsInstr.next h2 (by simpa using hlt)
      · left; show k + 1 ≤ nextPc (bl code) s.snd; omega
      · intro p hp
        simp only [bl_set!, List.getElem?_set, bl_length, h1]
        have key := instr_lt_next (bl code) h2 p
        by_cases hpi : s.snd = p
        · rw [if_pos hpi, if_pos hlt, bit_pos (key.2 (Or.inr hpi.symm))]
        · rw [if_neg hpi, h4 p hp]
          by_cases h : IsInstr (bl code) p ∧ p < s.snd
          · rw [bit_pos h, bit_pos (key.2 (Or.inl h))]
          · rw [bit_neg h, bit_neg]
            intro h'
            rcases key.1 h' with h'' | h''
            · exact h h''
            · exact hpi h''.symm
    · next hlt =>
      exact ⟨h1, h2, Or.inr (by omega), h4⟩

theorem size_opcodeBits (code : ByteArray) (hsz : code.size < 2 ^ 64) : (opcodeBits code).size = code.size := by
  rw [opcodeBits_eq]
  exact (ob_iter code hsz code.size).1

theorem opcodeBits_spec (code : ByteArray) (hsz : code.size < 2 ^ 64) (p : Nat) (hp : p < code.size) :
    ((opcodeBits code).get! p = 1) ↔ IsInstr (bl code) p := by
  obtain ⟨_, _, h3, h4⟩ := ob_iter code hsz code.size
  rw [opcodeBits_eq]
  generalize (List.range code.size).foldl (fun s _ => obStep code s) (zeros code.size, 0) = s at *
  rw [get!_eq, List.getD_eq_getElem?_getD, h4 p hp, Option.getD_some]
  have hlt : p < s.snd := by omega
  by_cases h : IsInstr (bl code) p
  · rw [bit_pos ⟨h, hlt⟩]; exact ⟨fun _ => h, fun _ => rfl⟩
  · rw [bit_neg (fun h' => h h'.1)]
    exact ⟨fun h' => absurd h' (by decide), fun h' => absurd h' h⟩

theorem jumpTest_spec (code : ByteArray) (hsz : code.size < 2 ^ 64) (to : Nat) :
    ((if code.size ≤ to then 0 else (code.get! to).toNat) = 0x5b ∧ (to < (opcodeBits code).size ∧ (opcodeBits code).get! to = 1))
      ↔ ValidJump (bl code) to := by
  unfold ValidJump
  rw [size_opcodeBits code hsz, bl_length, ← get!_eq]
  constructor
  · rintro ⟨h1, h2, h3⟩
    rw [if_neg (by omega)] at h1
    refine ⟨h2, ?_, (opcodeBits_spec code hsz to h2).1 h3⟩
    exact UInt8.toNat_inj.1 h1
  · rintro ⟨h1, h2, h3⟩
    refine ⟨?_, h1, (opcodeBits_spec code hsz to h1).2 h3⟩
    rw [if_neg (by omega), h2]; rfl

-- ---------------------------------------------------------------- a concrete program (PUSH1 0x5b; JUMPDEST)

/-- the code `60 5b 5b`: PUSH1 0x5b; JUMPDEST -/
def exCode : ByteArray := ⟨#[0x60, 0x5b, 0x5b]⟩

theorem exCode_bl : bl exCode = [0x60, 0x5b, 0x5b] := rfl

theorem exCode_next0 : nextPc (bl exCode) 0 = 2 := by decide

/-- position 2 (the JUMPDEST instruction) is a valid jump destination -/
theorem ex_valid_2 : ValidJump (bl exCode) 2 := by
  refine ⟨by decide, by decide, ?_⟩
  have h : IsInstr (bl exCode) (nextPc (bl exCode) 0) := IsInstr.next IsInstr.zero (by decide)
  rw [exCode_next0] at h
  exact h

/-- position 1 holds the byte 0x5b too, but it is the immediate data of the PUSH1: not a valid destination -/
theorem ex_invalid_1 : ¬ ValidJump (bl exCode) 1 := by
  rintro ⟨_, _, h⟩
  rcases instr_order (bl exCode) IsInstr.zero h (by decide) with h' | h'
  · exact absurd h' (by decide)
  · rw [exCode_next0] at h'
    exact absurd h' (by decide)

/-- the same through the model's test: the model accepts the jump to 2 and refuses the jump to 1 -/
theorem ex_model :
    ((if exCode.size ≤ 2 then 0 else (exCode.get! 2).toNat) = 0x5b ∧
        (2 < (opcodeBits exCode).size ∧ (opcodeBits exCode).get! 2 = 1)) ∧
      ¬ ((if exCode.size ≤ 1 then 0 else (exCode.get! 1).toNat) = 0x5b ∧
        (1 < (opcodeBits exCode).size ∧ (opcodeBits exCode).get! 1 = 1)) :=
  ⟨(jumpTest_spec exCode (by decide) 2).2 ex_valid_2,
    fun h => ex_invalid_1 ((jumpTest_spec exCode (by decide) 1).1 h)⟩

end Shentu.C16mJ

#print axioms Shentu.C16mJ.opcodeBits_spec
#print axioms Shentu.C16mJ.size_opcodeBits
#print axioms Shentu.C16mJ.jumpTest_spec
#print axioms Shentu.C16mJ.ex_valid_2
#print axioms Shentu.C16mJ.ex_invalid_1
#print axioms Shentu.C16mJ.ex_model
