import Shentu.Proofs.ShieldFundClaim
import Shentu.Proofs.ShieldFundDec
/-
  C04 helper lemmas: what the payout loop does to the providers' collateral, record by record.
-/
namespace Shentu.Shield.Fund
open Shentu

/-! ## the totals the payout loop leaves alone -/

/-- the step leaves the claim-related totals alone -/
structure Tot (s s' : State) : Prop where
  claimed : s'.totalClaimed = s.totalClaimed
  collateral : s'.totalCollateral = s.totalCollateral
  shield : s'.totalShield = s.totalShield

theorem Tot.refl (s : State) : Tot s s := ⟨rfl, rfl, rfl⟩
theorem Tot.trans {a b c : State} (h1 : Tot a b) (h2 : Tot b c) : Tot a c :=
  ⟨h2.claimed.trans h1.claimed, h2.collateral.trans h1.collateral, h2.shield.trans h1.shield⟩

theorem withdrawCollateral_tot (e : Env) (s s' : State) (a : Addr) (amount : Int)
    (h : withdrawCollateral e s a amount = .ok s') : Tot s s' := by
  unfold withdrawCollateral at h
  ok_cases h
  · injection h with h; subst h; exact Tot.refl _
  · injection h with h; subst h; exact ⟨rfl, rfl, rfl⟩

theorem stakingHook_tot (e : Env) (s s' : State) (a : Addr) (staked : Int)
    (h : stakingHook e s a staked = .ok s') : Tot s s' := by
  unfold stakingHook at h
  ok_cases h
  · injection h with h; subst h; exact Tot.refl _
  · injection h with h; subst h
    have := withdrawCollateral_tot _ _ _ _ _ ‹_›
    exact ⟨this.claimed, this.collateral, this.shield⟩
  · injection h with h; subst h; exact ⟨rfl, rfl, rfl⟩

theorem stakingChanged_tot (e : Env) (s s' : State) (a : Addr) (h : stakingChanged e s a = .ok s') : Tot s s' := by
  unfold stakingChanged at h
  ok_cases h
  · injection h with h; subst h; exact Tot.refl _
  · exact stakingHook_tot _ _ _ _ _ h

theorem updateProviderForPayout_tot (s s' : State) (a : Addr) (purchased payout : Int)
    (h : updateProviderForPayout s a purchased payout = .ok s') : Tot s s' := by
  unfold updateProviderForPayout at h
  ok_cases h
  all_goals
    injection h with h; subst h
    exact ⟨rfl, rfl, rfl⟩

theorem reimburseLoop_tot (e : Env) (pr yr : Dec) (ps : List Provider) :
    ∀ (tp ty : Int) (l : Ledger) (s : State) (left : Int) (l' : Ledger) (s' : State),
      reimburseLoop e pr yr ps tp ty l s = .ok (left, l', s') → Tot s s' := by
  induction ps with
  | nil =>
    intro tp ty l s left l' s' h
    unfold reimburseLoop at h
    injection h with h; injection h with h1 h; injection h with h2 h3; subst h1 h2 h3
    exact Tot.refl _
  | cons p ps ih =>
    intro tp ty l s left l' s' h
    rw [reimburseLoop_cons] at h
    ok_cases h
    · injection h with h; injection h with h1 h; injection h with h2 h3; subst h1 h2 h3
      exact Tot.refl _
    · rename_i _ _ s1 h1 _ s2 h2
      exact ((updateProviderForPayout_tot _ _ _ _ _ h1).trans (stakingChanged_tot _ _ _ _ h2)).trans (ih _ _ _ _ _ _ _ h)

theorem reimburseLoop_same (e : Env) (pr yr : Dec) (ps : List Provider) :
    ∀ (tp ty : Int) (l : Ledger) (s : State) (left : Int) (l' : Ledger) (s' : State),
      reimburseLoop e pr yr ps tp ty l s = .ok (left, l', s') → Same s s' := by
  induction ps with
  | nil =>
    intro tp ty l s left l' s' h
    unfold reimburseLoop at h
    injection h with h; injection h with h1 h; injection h with h2 h3; subst h1 h2 h3
    exact Same.refl _
  | cons p ps ih =>
    intro tp ty l s left l' s' h
    rw [reimburseLoop_cons] at h
    ok_cases h
    · injection h with h; injection h with h1 h; injection h with h2 h3; subst h1 h2 h3
      exact Same.refl _
    · rename_i _ _ s1 h1 _ s2 h2
      exact ((updateProviderForPayout_same _ _ _ _ _ h1).trans (stakingChanged_same _ _ _ _ h2)).trans (ih _ _ _ _ _ _ _ h)

/-- the ledger after the payout loop differs from the one before only by moves from the bonded pool to the module account -/
theorem reimburseLoop_ledger (e : Env) (pr yr : Dec) (ps : List Provider) :
    ∀ (tp ty : Int) (l : Ledger) (s : State) (left : Int) (l' : Ledger) (s' : State),
      reimburseLoop e pr yr ps tp ty l s = .ok (left, l', s') →
      ∀ a d, a ≠ e.bondedPool → a ≠ e.modAddr → l'.balOf a d = l.balOf a d := by
  induction ps with
  | nil =>
    intro tp ty l s left l' s' h
    unfold reimburseLoop at h
    injection h with h; injection h with h1 h; injection h with h2 h3; subst h1 h2 h3
    intro a d _ _; rfl
  | cons p ps ih =>
    intro tp ty l s left l' s' h
    rw [reimburseLoop_cons] at h
    ok_cases h
    · injection h with h; injection h with h1 h; injection h with h2 h3; subst h1 h2 h3
      intro a d _ _; rfl
    · intro a d h1 h2
      rw [ih _ _ _ _ _ _ _ h a d h1 h2]
      have e1 : (e.bondedPool == a) = false := by
        cases hh : e.bondedPool == a with
        | false => rfl
        | true => exact absurd (beq_iff_eq.mp hh).symm h1
      have e2 : (e.modAddr == a) = false := by
        cases hh : e.modAddr == a with
        | false => rfl
        | true => exact absurd (beq_iff_eq.mp hh).symm h2
      simp [e1, e2]

/-! ## one record at a time -/

theorem nodup_middle_notin {α κ} (key : α → κ) (pre post : List α) (c : α)
    (hn : ((pre ++ c :: post).map key).Nodup) : (∀ x ∈ pre, key x ≠ key c) ∧ (∀ x ∈ post, key x ≠ key c) := by
  simp only [List.map_append, List.map_cons] at hn
  have h := (List.perm_middle.nodup_iff.mp hn)
  have hnot := (List.nodup_cons.mp h).1
  constructor
  · intro x hx heq; apply hnot; rw [← heq]
    exact List.mem_append_left _ (List.mem_map_of_mem hx)
  · intro x hx heq; apply hnot; rw [← heq]
    exact List.mem_append_right _ (List.mem_map_of_mem hx)

/-- in a store with unique keys, the record at a known position is the one its address finds,
    and overwriting it changes that position only -/
theorem setProvider_at (s : State) (pre post : List Provider) (c p' : Provider)
    (hs : s.providers = pre ++ c :: post) (hn : (s.providers.map (·.addr)).Nodup) (ha : p'.addr = c.addr) :
    findProvider s c.addr = some c ∧ (setProvider s p').providers = pre ++ p' :: post := by
  rw [hs] at hn
  obtain ⟨h1, h2⟩ := nodup_middle_notin (fun x : Provider => x.addr) pre post c hn
  have h1' : ∀ x ∈ pre, (x.addr == c.addr) = false := fun x hx => by simpa using h1 x hx
  have h2' : ∀ x ∈ post, (x.addr == c.addr) = false := fun x hx => by simpa using h2 x hx
  constructor
  · unfold findProvider
    rw [hs, List.find?_append]
    have : pre.find? (fun x => x.addr == c.addr) = none := by
      apply List.find?_eq_none.mpr
      intro x hx; simp [h1' x hx]
    rw [this]
    simp
  · simp only [setProvider, hs, ha]
    exact map_replace_split (fun x : Provider => x.addr == c.addr) c p' pre post h1' h2' (by simp)

theorem setProvider_updAt (s s1 : State) (pre post : List Provider) (c p' : Provider)
    (hs : s.providers = pre ++ c :: post) (hn : (s.providers.map (·.addr)).Nodup)
    (h1 : s1.providers = s.providers) (ha : p'.addr = c.addr) :
    (setProvider s1 p').providers = pre ++ p' :: post :=
  (setProvider_at s1 pre post c p' (h1.trans hs) (by rw [h1]; exact hn) ha).2

/-- the step rewrites the record at one position, keeping its address -/
structure UpdAt (pre post : List Provider) (c c' : Provider) (s' : State) : Prop where
  after : s'.providers = pre ++ c' :: post
  addr : c'.addr = c.addr

theorem withdrawCollateral_at (e : Env) (s s' : State) (amount : Int) (pre post : List Provider) (c : Provider)
    (hs : s.providers = pre ++ c :: post) (hn : (s.providers.map (·.addr)).Nodup)
    (h : withdrawCollateral e s c.addr amount = .ok s') :
    ∃ c', UpdAt pre post c c' s' ∧ c'.collateral = c.collateral := by
  unfold withdrawCollateral at h
  ok_cases h
  · injection h with h; subst h; exact ⟨c, ⟨hs, rfl⟩, rfl⟩
  · rename_i p hp _
    injection h with h; subst h
    obtain ⟨hf, hset⟩ := setProvider_at s pre post c { c with withdrawing := c.withdrawing + amount } hs hn rfl
    have hpc : p = c := by rw [hf] at hp; injection hp with hp; exact hp.symm
    subst hpc
    exact ⟨_, ⟨hset, rfl⟩, rfl⟩

theorem stakingHook_at (e : Env) (s s' : State) (staked : Int) (pre post : List Provider) (c : Provider)
    (hs : s.providers = pre ++ c :: post) (hn : (s.providers.map (·.addr)).Nodup)
    (h : stakingHook e s c.addr staked = .ok s') :
    ∃ c', UpdAt pre post c c' s' ∧ c'.collateral = c.collateral := by
  unfold stakingHook at h
  obtain ⟨hf, hset⟩ := setProvider_at s pre post c { c with bonded := staked } hs hn rfl
  rw [hf] at h
  dsimp only at h
  ok_cases h
  · rename_i s2 hw
    injection h with h; subst h
    have hn1 : ((setProvider s { c with bonded := staked }).providers.map (·.addr)).Nodup := by
      rw [setProvider_addrs]; exact hn
    obtain ⟨c', hu, hc⟩ := withdrawCollateral_at e _ s2 _ pre post { c with bonded := staked } hset hn1 hw
    exact ⟨c', ⟨hu.after, hu.addr⟩, hc⟩
  · injection h with h; subst h
    exact ⟨_, ⟨hset, rfl⟩, rfl⟩

theorem stakingChanged_at (e : Env) (s s' : State) (pre post : List Provider) (c : Provider)
    (hs : s.providers = pre ++ c :: post) (hn : (s.providers.map (·.addr)).Nodup)
    (h : stakingChanged e s c.addr = .ok s') :
    ∃ c', UpdAt pre post c c' s' ∧ c'.collateral = c.collateral := by
  unfold stakingChanged at h
  ok_cases h
  · injection h with h; subst h; exact ⟨c, ⟨hs, rfl⟩, rfl⟩
  · exact stakingHook_at e s s' _ pre post c hs hn h

theorem updateProviderForPayout_at (s s' : State) (purchased payout : Int) (pre post : List Provider) (c : Provider)
    (hs : s.providers = pre ++ c :: post) (hn : (s.providers.map (·.addr)).Nodup)
    (h : updateProviderForPayout s c.addr purchased payout = .ok s') :
    ∃ c', UpdAt pre post c c' s' ∧ c'.collateral = c.collateral - payout := by
  unfold updateProviderForPayout at h
  obtain ⟨hf, _⟩ := setProvider_at s pre post c c hs hn rfl
  rw [hf] at h
  dsimp only at h
  ok_cases h
  all_goals
    injection h with h; subst h
    exact ⟨_, ⟨setProvider_updAt s _ pre post c _ hs hn (by rfl) (by rfl), by rfl⟩, by rfl⟩

/-! ## the payout loop, provider by provider -/

/-- what each provider of the list pays, in order (`reimburseLoop` stops paying once nothing is left) -/
def payList (pr yr : Dec) : List Provider → Int → Int → List Int
  | [], _, _ => []
  | p :: ps, tp, ty =>
    if ty ≤ 0 then 0 :: payList pr yr ps tp ty
    else payoutPay pr yr p tp ty :: payList pr yr ps (tp - payoutPur pr yr p tp ty) (ty - payoutPay pr yr p tp ty)

/-- (address, collateral) of every provider, in store order -/
def collView (l : List Provider) : List (Addr × Int) := l.map (fun q => (q.addr, q.collateral))

/-- the view after each provider has paid its amount -/
def paidView (ps : List Provider) (pays : List Int) : List (Addr × Int) :=
  List.zipWith (fun p pay => (p.addr, p.collateral - pay)) ps pays

theorem payList_length (pr yr : Dec) (ps : List Provider) : ∀ tp ty, (payList pr yr ps tp ty).length = ps.length := by
  induction ps with
  | nil => intro tp ty; rfl
  | cons p ps ih =>
    intro tp ty
    unfold payList
    split <;> simp [ih]

theorem payList_done (pr yr : Dec) (ps : List Provider) (tp ty : Int) (h : ty ≤ 0) :
    paidView ps (payList pr yr ps tp ty) = collView ps ∧ (payList pr yr ps tp ty).sum = 0 := by
  induction ps with
  | nil => exact ⟨rfl, rfl⟩
  | cons p ps ih =>
    unfold payList
    simp only [h, if_true]
    obtain ⟨h1, h2⟩ := ih
    constructor
    · simp only [paidView, collView, List.zipWith_cons_cons, List.map_cons] at h1 ⊢
      rw [h1]; simp
    · simp [h2]

theorem collView_append (a b : List Provider) : collView (a ++ b) = collView a ++ collView b := by
  simp [collView]

theorem sumI_collView (l : List Provider) : sumI (·.collateral) l = ((collView l).map (·.2)).sum := by
  simp [sumI, collView, List.map_map, Function.comp_def]

theorem reimburseLoop_coll (e : Env) (pr yr : Dec) (ps : List Provider) :
    ∀ (tp ty : Int) (l : Ledger) (s : State) (left : Int) (l' : Ledger) (s' : State) (pre cur : List Provider),
      reimburseLoop e pr yr ps tp ty l s = .ok (left, l', s') →
      s.providers = pre ++ cur → (s.providers.map (·.addr)).Nodup → collView cur = collView ps →
      collView s'.providers = collView pre ++ paidView ps (payList pr yr ps tp ty) ∧
        left = ty - (payList pr yr ps tp ty).sum := by
  induction ps with
  | nil =>
    intro tp ty l s left l' s' pre cur h hs _ hc
    unfold reimburseLoop at h
    injection h with h; injection h with h1 h; injection h with h2 h3; subst h1 h2 h3
    have : cur = [] := by simpa [collView] using hc
    subst this
    simp [hs, payList, paidView]
  | cons p ps ih =>
    intro tp ty l s left l' s' pre cur h hs hn hc
    cases cur with
    | nil => simp [collView] at hc
    | cons c cur' =>
      simp only [collView, List.map_cons, List.cons.injEq, Prod.mk.injEq] at hc
      obtain ⟨⟨hca, hcc⟩, hc'⟩ := hc
      rw [reimburseLoop_cons] at h
      ok_cases h
      · -- nothing left to pay
        rename_i hty
        injection h with h; injection h with h1 h; injection h with h2 h3; subst h1 h2 h3
        obtain ⟨hd1, hd2⟩ := payList_done pr yr (p :: ps) tp ty hty
        rw [hd1, hd2, hs, collView_append]
        simp [collView, hca, hcc, hc']
      · rename_i hty _ s1 h1 _ s2 h2
        rw [← hca] at h1 h2
        obtain ⟨c1, hu1, hc1⟩ := updateProviderForPayout_at s s1 _ _ pre cur' c hs hn h1
        have hn1 : (s1.providers.map (·.addr)).Nodup := by
          rw [hu1.after]; rw [hs] at hn
          simpa [hu1.addr] using hn
        have h2' : stakingChanged e s1 c1.addr = .ok s2 := by rw [hu1.addr]; exact h2
        obtain ⟨c2, hu2, hc2⟩ := stakingChanged_at e s1 s2 pre cur' c1 hu1.after hn1 h2'
        have hn2 : (s2.providers.map (·.addr)).Nodup := by
          rw [hu2.after]; rw [hu1.after] at hn1
          simpa [hu2.addr] using hn1
        have hs2 : s2.providers = (pre ++ [c2]) ++ cur' := by rw [hu2.after]; simp
        obtain ⟨ih1, ih2⟩ := ih _ _ _ _ _ _ _ (pre ++ [c2]) cur' h hs2 hn2 hc'
        have hty' : ¬ ty ≤ 0 := hty
        constructor
        · rw [ih1, collView_append]
          simp only [payList, hty', if_false, paidView, List.zipWith_cons_cons, collView, List.map_cons, List.map_nil,
            List.append_assoc, List.singleton_append]
          rw [hu2.addr, hu1.addr, hc2, hc1, hca, hcc]
        · rw [ih2]
          simp only [payList, hty', if_false, List.sum_cons]
          omega

theorem mem_paidView (ps : List Provider) : ∀ (pays : List Int) (x : Addr × Int), x ∈ paidView ps pays →
    ∃ y ∈ List.zip ps pays, x = (y.1.addr, y.1.collateral - y.2) := by
  induction ps with
  | nil => intro pays x hx; simp [paidView] at hx
  | cons p ps ih =>
    intro pays x hx
    cases pays with
    | nil => simp [paidView] at hx
    | cons y ys =>
      simp only [paidView, List.zipWith_cons_cons, List.mem_cons] at hx
      rcases hx with h | h
      · exact ⟨(p, y), by simp, h⟩
      · obtain ⟨z, hz, hxz⟩ := ih ys x h
        exact ⟨z, by simp [hz], hxz⟩

theorem sum_paidView (ps : List Provider) : ∀ (pays : List Int), pays.length = ps.length →
    ((paidView ps pays).map (·.2)).sum = sumI (·.collateral) ps - pays.sum := by
  induction ps with
  | nil => intro pays hl; cases pays with
    | nil => simp [paidView]
    | cons _ _ => simp at hl
  | cons q qs ih => intro pays hl; cases pays with
    | nil => simp at hl
    | cons y ys =>
      simp only [List.length_cons, Nat.add_right_cancel_iff] at hl
      have := ih ys hl
      simp only [paidView, List.zipWith_cons_cons, List.map_cons, List.sum_cons, sumI_cons] at this ⊢
      omega

/-- what is left to pay never goes negative -/
theorem reimburseLoop_left_nonneg (e : Env) (pr yr : Dec) (ps : List Provider) :
    ∀ (tp ty : Int) (l : Ledger) (s : State) (left : Int) (l' : Ledger) (s' : State),
      reimburseLoop e pr yr ps tp ty l s = .ok (left, l', s') → 0 ≤ ty → 0 ≤ left := by
  induction ps with
  | nil =>
    intro tp ty l s left l' s' h hty
    unfold reimburseLoop at h
    injection h with h; injection h with h1 h; subst h1; exact hty
  | cons p ps ih =>
    intro tp ty l s left l' s' h hty
    rw [reimburseLoop_cons] at h
    ok_cases h
    · injection h with h; injection h with h1 h; subst h1; exact hty
    · have hpay := payoutPay_le pr yr p tp ty
      exact ih _ _ _ _ _ _ _ h (by omega)

/-! ## how much one provider pays -/

theorem payoutPur_bounds (pr yr : Dec) (p : Provider) (tp ty : Int) (hc : 0 ≤ p.collateral) (hpr : 0 ≤ pr.raw) (htp : 0 ≤ tp) :
    0 ≤ payoutPur pr yr p tp ty ∧ payoutPur pr yr p tp ty ≤ tp := by
  have h1 := Dec.trunc_mul_ofInt_nonneg p.collateral pr hc hpr
  unfold payoutPur
  dsimp only
  split
  · rename_i h; bool_norm at h; omega
  · omega

theorem payoutPay_nonneg (pr yr : Dec) (p : Provider) (tp ty : Int) (hc : 0 ≤ p.collateral) (hyr : 0 ≤ yr.raw) (hty : 0 < ty) :
    0 ≤ payoutPay pr yr p tp ty := by
  have h1 := Dec.trunc_mul_ofInt_nonneg p.collateral yr hc hyr
  unfold payoutPay
  dsimp only
  split <;> omega

theorem payoutPay_le_collateral (pr yr : Dec) (p : Provider) (tp ty : Int) (hc : 0 ≤ p.collateral)
    (hpr : 0 ≤ pr.raw) (hyr : 0 ≤ yr.raw) (hyr1 : yr.raw ≤ Dec.prec) (htp : 0 ≤ tp) :
    payoutPay pr yr p tp ty ≤ p.collateral := by
  have h1 := Dec.trunc_mul_ofInt_le p.collateral yr hc hyr hyr1
  have h2 := (payoutPur_bounds pr yr p tp ty hc hpr htp).1
  unfold payoutPay
  dsimp only
  split
  · rename_i h; bool_norm at h; omega
  · omega

theorem payList_nonneg (pr yr : Dec) (hyr : 0 ≤ yr.raw) (ps : List Provider) (hc : ∀ p ∈ ps, 0 ≤ p.collateral) :
    ∀ tp ty, ∀ x ∈ payList pr yr ps tp ty, 0 ≤ x := by
  induction ps with
  | nil => intro tp ty x hx; simp [payList] at hx
  | cons p ps ih =>
    intro tp ty x hx
    have ihp := ih (fun q hq => hc q (List.mem_cons_of_mem _ hq))
    unfold payList at hx
    split at hx
    · rcases List.mem_cons.mp hx with h | h
      · omega
      · exact ihp _ _ x h
    · rcases List.mem_cons.mp hx with h | h
      · rw [h]; exact payoutPay_nonneg pr yr p tp ty (hc p List.mem_cons_self) hyr (by omega)
      · exact ihp _ _ x h

/-- every provider pays between nothing and its whole collateral -/
theorem payList_bounded (pr yr : Dec) (hpr : 0 ≤ pr.raw) (hyr : 0 ≤ yr.raw) (hyr1 : yr.raw ≤ Dec.prec) (ps : List Provider)
    (hc : ∀ p ∈ ps, 0 ≤ p.collateral) :
    ∀ tp ty, 0 ≤ tp → ∀ x ∈ List.zip ps (payList pr yr ps tp ty), 0 ≤ x.2 ∧ x.2 ≤ x.1.collateral := by
  induction ps with
  | nil => intro tp ty _ x hx; simp [payList] at hx
  | cons p ps ih =>
    intro tp ty htp x hx
    have ihp := ih (fun q hq => hc q (List.mem_cons_of_mem _ hq))
    have hcp := hc p List.mem_cons_self
    unfold payList at hx
    split at hx
    · simp only [List.zip_cons_cons, List.mem_cons] at hx
      rcases hx with h | h
      · rw [h]; exact ⟨by simp, hcp⟩
      · exact ihp _ _ htp x h
    · simp only [List.zip_cons_cons, List.mem_cons] at hx
      rcases hx with h | h
      · rw [h]
        exact ⟨payoutPay_nonneg pr yr p tp ty hcp hyr (by omega), payoutPay_le_collateral pr yr p tp ty hcp hpr hyr hyr1 htp⟩
      · refine ihp _ _ ?_ x h
        have := (payoutPur_bounds pr yr p tp ty hcp hpr htp).2
        omega

end Shentu.Shield.Fund
