import Shentu.Proofs.C19HVm
/-
  Helper lemmas for `Shentu/Props/C19H.lean`: what each model function does to the ledger and to the vesting records,
  and that each keeps a well-formed world well-formed.
-/
namespace Shentu.C19H
open Shentu Shentu.Vesting

/-! ### Sorted denominations, `isZero`, `isAllGT` -/

theorem mem_insertSorted (d y : Denom) : ∀ xs : List Denom, y ∈ Coins.insertSorted d xs ↔ y = d ∨ y ∈ xs := by
  intro xs
  induction xs with
  | nil => simp [Coins.insertSorted]
  | cons x xs ih =>
    unfold Coins.insertSorted
    split
    · simp
    · split
      · rename_i hx
        have : d = x := by simpa using hx
        subst this; simp
      · simp only [List.mem_cons, ih]
        constructor
        · rintro (h | h | h)
          · exact Or.inr (Or.inl h)
          · exact Or.inl h
          · exact Or.inr (Or.inr h)
        · rintro (h | h | h)
          · exact Or.inr (Or.inl h)
          · exact Or.inl h
          · exact Or.inr (Or.inr h)

theorem mem_sortDenoms (y : Denom) : ∀ ds : List Denom, y ∈ Coins.sortDenoms ds ↔ y ∈ ds := by
  intro ds
  induction ds with
  | nil => simp [Coins.sortDenoms]
  | cons x xs ih =>
    have : Coins.sortDenoms (x :: xs) = Coins.insertSorted x (Coins.sortDenoms xs) := rfl
    rw [this, mem_insertSorted, ih]; simp

theorem amountOf_of_isZero (c : Coins) (h : Coins.isZero c = true) (d : Denom) : Coins.amountOf c d = 0 := by
  by_cases hm : d ∈ Coins.denoms c
  · unfold Coins.isZero Coins.canon at h
    have h' := List.isEmpty_iff.mp h
    rw [List.filterMap_eq_nil_iff] at h'
    have := h' d ((mem_sortDenoms d _).mpr hm)
    simp only at this
    split at this
    · rename_i hz; simpa using hz
    · cases this
  · exact amountOf_of_not_mem_denoms c d hm

theorem isAllGT_ge (a b : Coins) (h : isAllGT a b = true) (ha : ∀ d, 0 ≤ Coins.amountOf a d) (d : Denom) :
    Coins.amountOf b d ≤ Coins.amountOf a d := by
  unfold isAllGT at h
  split at h; · cases h
  split at h
  · rename_i hz
    rw [amountOf_of_isZero b hz d]; exact ha d
  · by_cases hm : d ∈ Coins.denoms b
    · simp only [Bool.and_eq_true] at h
      have := (List.all_eq_true.mp h.1) d hm
      have : Coins.amountOf a d > Coins.amountOf b d := by simpa using this
      omega
    · rw [amountOf_of_not_mem_denoms b d hm]; exact ha d

/-! ### Specifications of the model functions -/

theorem send_spec (l l' : Ledger) (vs : Accounts) (src dst : Addr) (amt : Coins) (h : Vesting.send l vs src dst amt = .ok l') :
    canSpend l vs src amt = .ok () ∧ l' = l.move src dst amt := by
  unfold Vesting.send at h
  split at h; · cases h
  rename_i u hc
  injection h with h
  exact ⟨hc, h.symm⟩

def fresh (dst u : Addr) : MVA := { addr := dst, ov := [], vested := [], dv := [], df := [], unlocker := u }

theorem lockedSend_spec (l l' : Ledger) (vs vs' : Accounts) (f : Addr → Bool) (src dst u : Addr) (amt : Coins)
    (h : lockedSend l vs f src dst u amt = .ok (l', vs')) :
    ∃ m, (find vs dst = some m ∨ (find vs dst = none ∧ f dst = false ∧ m = fresh dst u)) ∧
      Coins.isAllPositive amt = true ∧ vs' = Vesting.set vs { m with ov := Coins.add m.ov amt } ∧
      l' = (l.credit dst amt).debit src amt ∧
      canSpend (l.credit dst amt) vs' src amt = .ok () := by
  unfold lockedSend at h
  dsimp only at h
  split at h; · cases h
  rename_i hpos
  split at h; · cases h
  split at h; · cases h
  rename_i tgt m htgt
  split at h; · cases h
  rename_i u2 hc
  injection h with h; injection h with h1 h2
  have hpos' : Coins.isAllPositive amt = true := by simpa using hpos
  refine ⟨m, ?_, hpos', h2.symm, h1.symm, ?_⟩
  · split at htgt
    · rename_i m0 hm0
      split at htgt
      · cases htgt
      · injection htgt with htgt; subst htgt; exact Or.inl hm0
    · rename_i hm0
      split at htgt; · cases htgt
      rename_i hf
      split at htgt; · cases htgt
      injection htgt with htgt
      exact Or.inr ⟨hm0, by simpa using hf, htgt.symm⟩
  · rw [← h2]; exact hc

theorem unlock_spec2 (vs vs' : Accounts) (ex : Addr → Bool) (issuer account : Addr) (amt : Coins)
    (h : unlock vs ex issuer account amt = .ok vs') :
    ∃ m m', find vs account = some m ∧ issuer = m.unlocker ∧ Coins.isAllPositive amt = true ∧ vs' = Vesting.set vs m' ∧
      m'.addr = m.addr ∧ m'.unlocker = m.unlocker ∧ m'.ov = m.ov ∧ m'.vested = Coins.add m.vested amt ∧
      (∀ d, Coins.amountOf m'.vested d ≤ Coins.amountOf m.ov d) ∧
      ((m'.dv = m.dv ∧ m'.df = m.df) ∨
       (isAllGT m.dv (Coins.sub m.ov (Coins.add m.vested amt)) = true ∧
        m'.dv = Coins.sub m.dv (Coins.sub m.dv (Coins.sub m.ov (Coins.add m.vested amt))) ∧
        m'.df = Coins.add m.df (Coins.sub m.dv (Coins.sub m.ov (Coins.add m.vested amt))))) := by
  obtain ⟨m, m', hm, hiss, hset, ha, hu, hov, hv, hle⟩ := Props.C19.unlock_spec vs vs' ex issuer account amt h
  have hle' : ∀ d, Coins.amountOf (Coins.add m.vested amt) d ≤ Coins.amountOf m.ov d := by
    intro d; have := hle d; rw [hv] at this; exact this
  clear hle hv hov hu ha hset
  unfold unlock at h
  split at h; · cases h
  rename_i hpos
  have hpos' : Coins.isAllPositive amt = true := by simpa using hpos
  split at h; · cases h
  split at h; · cases h
  rename_i m2 hm2
  have : m2 = m := by rw [hm] at hm2; injection hm2 with e; exact e.symm
  subst this
  split at h; · cases h
  dsimp only at h
  split at h; · cases h
  split at h; · cases h
  split at h
  · rename_i hgt
    injection h with h
    exact ⟨m2, _, hm, hiss, hpos', h.symm, rfl, rfl, rfl, rfl, hle', Or.inr ⟨hgt, rfl, rfl⟩⟩
  · injection h with h
    exact ⟨m2, _, hm, hiss, hpos', h.symm, rfl, rfl, rfl, rfl, hle', Or.inl ⟨rfl, rfl⟩⟩

theorem delegate_spec (l l' : Ledger) (vs vs' : Accounts) (del pool : Addr) (d : Denom) (amount : Int)
    (h : delegate l vs del pool d amount = .ok (l', vs')) :
    0 < amount ∧ amount ≤ l.balOf del d ∧ l' = l.move del pool [(d, amount)] ∧
      vs' = (match find vs del with
        | some m => Vesting.set vs (trackDelegation m d amount)
        | none => vs) := by
  unfold delegate at h
  split at h; · cases h
  split at h; · cases h
  injection h with h; injection h with h1 h2
  exact ⟨by omega, by omega, h1.symm, h2.symm⟩

theorem amountOf_ite_add (c : Coins) (d : Denom) (x : Int) (d' : Denom) :
    Coins.amountOf (if (x == 0) = true then c else Coins.add c [(d, x)]) d' = Coins.amountOf c d' + (if d = d' then x else 0) := by
  split
  · rename_i hx
    have : x = 0 := by simpa using hx
    subst this; split <;> omega
  · rw [Coins.amountOf_add, amountOf_single_cons]

/-! ### Well-formedness is kept -/

theorem accOK_fresh (l : Ledger) (dst u : Addr) (hl : NonNeg l) : AccOK l dst (fresh dst u) := by
  refine ⟨?_, ?_, ?_, ?_, ?_⟩ <;> intro d <;> simp [fresh, vestingAmt]
  exact hl dst d

theorem lockedOf_of_find (vs : Accounts) (a : Addr) (m : MVA) (d : Denom) (h : find vs a = some m) :
    lockedOf vs a d = lockedAmt m d := by
  unfold lockedOf; rw [h]

/-- only the ledger (and the code store, and the known addresses) change -/
theorem wf_ledger (w : World) (l' : Ledger) (k' : Cvm.State) (ac' : List Addr) (hw : WF w) (hn : NonNeg l')
    (hb : ∀ a m d, find w.vs a = some m → w.l.balOf a d ≤ l'.balOf a d ∨ lockedAmt m d ≤ l'.balOf a d)
    (hs : ∀ a m, find w.vs a = some m → Cvm.find k' a = none) :
    WF { w with l := l', cvm := k', accts := ac' } := by
  refine ⟨hn, hw.nodup, ?_, hs⟩
  intro a m hm
  have ho := hw.acc a m hm
  refine ⟨ho.vested_nonneg, ho.vested_le, ho.dv_nonneg, ho.df_nonneg, ?_⟩
  intro d
  have := ho.present d
  have hg := lockedAmt_ge m d
  show vestingAmt m d ≤ l'.balOf a d + Coins.amountOf m.dv d
  rcases hb a m d hm with h | h <;> omega

/-- what an accepted debit guarded by `canSpend` does to any balance -/
theorem spend_bal (l : Ledger) (vs : Accounts) (src dst : Addr) (amt : Coins) (hl : NonNeg l)
    (hc : canSpend l vs src amt = .ok ()) (a : Addr) (d : Denom) :
    0 ≤ (l.move src dst amt).balOf a d ∧
      (l.balOf a d ≤ (l.move src dst amt).balOf a d ∨ lockedOf vs a d ≤ (l.move src dst amt).balOf a d) := by
  rw [balOf_move']
  obtain ⟨h0, h1⟩ := canSpend_ok l vs src amt hc d
  have := hl a d
  by_cases e1 : src = a <;> by_cases e2 : dst = a <;> simp only [e1, e2, if_true, if_false]
  · subst e1; constructor <;> omega
  · subst e1
    have := lockedOf_nonneg vs src d
    rcases h1 with h1 | h1
    · constructor <;> omega
    · constructor <;> omega
  · constructor <;> omega
  · constructor <;> omega

theorem wf_send (w : World) (l' : Ledger) (src dst : Addr) (amt : Coins) (ac' : List Addr) (hw : WF w)
    (h : Vesting.send w.l w.vs src dst amt = .ok l') : WF { w with l := l', accts := ac' } := by
  obtain ⟨hc, hl⟩ := send_spec _ _ _ _ _ _ h
  subst hl
  apply wf_ledger w _ w.cvm ac' hw
  · intro a d; exact (spend_bal w.l w.vs src dst amt hw.nonneg hc a d).1
  · intro a m d hm
    have := (spend_bal w.l w.vs src dst amt hw.nonneg hc a d).2
    rw [lockedOf_of_find w.vs a m d hm] at this
    exact this
  · exact hw.sep

theorem foldl_credit_mono : ∀ (outs : List (Addr × Coins)) (l0 : Ledger), (∀ o ∈ outs, ∀ d, 0 ≤ Coins.amountOf o.2 d) →
    ∀ a d, l0.balOf a d ≤ (outs.foldl (fun l o => l.credit o.1 o.2) l0).balOf a d := by
  intro outs
  induction outs with
  | nil => intro l0 _ a d; exact Int.le_refl _
  | cons o os ih =>
    intro l0 hp a d
    simp only [List.foldl_cons]
    have h1 := ih (l0.credit o.1 o.2) (fun o' ho' => hp o' (List.mem_cons_of_mem _ ho')) a d
    have h2 := hp o (List.mem_cons_self) d
    rw [balOf_credit'] at h1
    split at h1 <;> omega

theorem wf_multiSend (w : World) (l' : Ledger) (src : Addr) (outs : List (Addr × Coins)) (ac' : List Addr) (hw : WF w)
    (h : multiSend w.l w.vs src outs = .ok l') : WF { w with l := l', accts := ac' } := by
  unfold multiSend at h
  split at h; · cases h
  rename_i hpos
  dsimp only at h
  split at h; · cases h
  rename_i u hc
  injection h with h; subst h
  have hp : ∀ o ∈ outs, ∀ d, 0 ≤ Coins.amountOf o.2 d := by
    intro o ho d
    have hpos' : outs.any (fun o => !Coins.isAllPositive o.2) = false := by simpa using hpos
    have := (List.any_eq_false.mp hpos') o ho
    exact amountOf_nonneg_of_allPositive o.2 (by simpa using this) d
  have hmono := foldl_credit_mono outs (w.l.debit src (outs.flatMap (·.2))) hp
  -- the debited ledger
  have hdeb : ∀ a d, 0 ≤ (w.l.debit src (outs.flatMap (·.2))).balOf a d ∧
      (w.l.balOf a d ≤ (w.l.debit src (outs.flatMap (·.2))).balOf a d ∨ lockedOf w.vs a d ≤ (w.l.debit src (outs.flatMap (·.2))).balOf a d) := by
    intro a d
    rw [balOf_debit']
    obtain ⟨h0, h1⟩ := canSpend_ok _ _ _ _ hc d
    have := hw.nonneg a d
    by_cases e1 : src = a <;> simp only [e1, if_true, if_false]
    · subst e1
      have := lockedOf_nonneg w.vs src d
      rcases h1 with h1 | h1 <;> constructor <;> omega
    · constructor <;> omega
  apply wf_ledger w _ w.cvm ac' hw
  · intro a d; have := hmono a d; have := (hdeb a d).1; omega
  · intro a m d hm
    have h1 := hmono a d
    have h2 := (hdeb a d).2
    rw [lockedOf_of_find w.vs a m d hm] at h2
    rcases h2 with h2 | h2
    · left; omega
    · right; omega
  · exact hw.sep

/-- the value of a call or deployment leaves the caller under the spendable rule -/
theorem value_move (bond : Denom) (l : Ledger) (vs : Accounts) (caller callee : Addr) (v : Int) (hl : NonNeg l) (hv : 0 ≤ v)
    (hc : (if v > 0 then canSpend l vs caller [(bond, v)] else .ok ()) = .ok ()) :
    v ≤ l.balOf caller bond ∧ NonNeg (l.move caller callee [(bond, v)]) ∧ v ≤ (l.move caller callee [(bond, v)]).balOf callee bond ∧
    ∀ a d, l.balOf a d ≤ (l.move caller callee [(bond, v)]).balOf a d ∨ lockedOf vs a d ≤ (l.move caller callee [(bond, v)]).balOf a d := by
  have hcov : v ≤ l.balOf caller bond ∧ (v = 0 ∨ lockedOf vs caller bond ≤ l.balOf caller bond - v) := by
    by_cases hp : v > 0
    · simp only [hp, if_true] at hc
      obtain ⟨_, h1⟩ := canSpend_ok _ _ _ _ hc bond
      rw [amountOf_single_cons] at h1
      simp only [if_true] at h1
      have := lockedOf_nonneg vs caller bond
      constructor
      · omega
      · exact h1
    · have : v = 0 := by omega
      subst this
      exact ⟨hl _ _, Or.inl rfl⟩
  refine ⟨hcov.1, nonneg_move1 l _ _ _ _ hl hv hcov.1, ?_, ?_⟩
  · rw [balOf_move1]
    have := hl callee bond
    by_cases e : caller = callee
    · subst e; simp; omega
    · simp [e]; omega
  · intro a d
    rw [balOf_move1]
    by_cases e1 : caller = a ∧ bond = d
    · obtain ⟨e1a, e1b⟩ := e1; subst e1a; subst e1b
      simp only [and_self, and_true, if_true]
      rcases hcov.2 with h | h
      · left; split <;> omega
      · right; split <;> omega
    · simp only [e1, if_false]; left; split <;> omega

theorem wf_call (bond : Denom) (w : World) (l' : Ledger) (k' : Cvm.State) (caller callee : Addr) (v : Int) (hv : 0 ≤ v)
    (d0 : String) (z : Bool) (t : Addr) (hd : Bool) (hw : WF w)
    (h : Cvm.call bond w.l w.vs w.cvm caller callee v d0 z t hd = .ok (l', k')) : WF { w with l := l', cvm := k' } := by
  unfold Cvm.call at h
  split at h; · cases h
  rename_i u hc
  dsimp only at h
  split at h; · cases h
  have hc' : (if v > 0 then canSpend w.l w.vs caller [(bond, v)] else .ok ()) = .ok () := by rw [hc]
  obtain ⟨_, hn1, hv1, hb1⟩ := value_move bond w.l w.vs caller callee v hw.nonneg hv hc'
  have hf := runKind_frame bond 3 _ _ _ _ _ _ _ _ _ _ _ hn1 hv hv1 (kindAt_of_none w.cvm callee) h
  apply wf_ledger w l' k' w.accts hw hf.1
  · intro a m d hm
    have hsep := hw.sep a m hm
    have h2 := hf.2.1 a hsep d
    have h3 := hb1 a d
    rw [lockedOf_of_find w.vs a m d hm] at h3
    rcases h3 with h3 | h3
    · left; omega
    · right; omega
  · intro a m hm; exact hf.2.2 a (hw.sep a m hm)

theorem wf_sendToContract (bond : Denom) (w : World) (l' : Ledger) (k' : Cvm.State) (src dst : Addr) (amt : Coins) (hw : WF w)
    (h : Cvm.sendToContract bond w.l w.vs w.cvm src dst amt = .ok (l', k')) : WF { w with l := l', cvm := k' } := by
  unfold Cvm.sendToContract at h
  split at h; · cases h
  split at h; · cases h
  rename_i hpos
  exact wf_call bond w l' k' src dst _ (by omega) _ _ _ _ hw h

theorem cfind_append_none (s : Cvm.State) (c : Cvm.Contract) (a : Addr) (h : Cvm.find s a = none) (hne : c.addr ≠ a) :
    Cvm.find { contracts := s.contracts ++ [c] } a = none := by
  rw [cfind_none_iff] at *
  intro x hx
  simp only [List.mem_append, List.mem_singleton] at hx
  rcases hx with hx | hx
  · exact h x hx
  · subst hx; exact hne

theorem wf_deploy (bond : Denom) (w : World) (l' : Ledger) (k' : Cvm.State) (caller na : Addr) (code : String) (v : Int) (hv : 0 ≤ v)
    (ac' : List Addr) (hw : WF w) (hna : find w.vs na = none)
    (h : Cvm.deploy bond w.l w.vs w.cvm caller na code v = .ok (l', k')) : WF { w with l := l', cvm := k', accts := ac' } := by
  unfold Cvm.deploy at h
  split at h; · cases h
  rename_i u hc
  injection h with h; injection h with h1 h2; subst h1; subst h2
  have hc' : (if v > 0 then canSpend w.l w.vs caller [(bond, v)] else .ok ()) = .ok () := by rw [hc]
  obtain ⟨_, hn1, _, hb1⟩ := value_move bond w.l w.vs caller na v hw.nonneg hv hc'
  apply wf_ledger w _ _ ac' hw hn1
  · intro a m d hm
    have h3 := hb1 a d
    rw [lockedOf_of_find w.vs a m d hm] at h3
    exact h3
  · intro a m hm
    apply cfind_append_none _ _ _ (hw.sep a m hm)
    intro e
    simp only at e
    subst e
    rw [hna] at hm; cases hm

theorem wf_lockedSend (w : World) (l' : Ledger) (vs' : Accounts) (src dst u : Addr) (amt : Coins) (ac' : List Addr) (hw : WF w)
    (h : lockedSend w.l w.vs (isPlain w) src dst u amt = .ok (l', vs')) : WF { w with l := l', vs := vs', accts := ac' } := by
  obtain ⟨m, hm, hpos, hvs, hl, hc⟩ := lockedSend_spec _ _ _ _ _ _ _ _ _ h
  -- the record the amount is added to is sound, sits at `dst`, and `dst` holds no code
  have hbase : AccOK w.l dst m ∧ m.addr = dst ∧ Cvm.find w.cvm dst = none := by
    rcases hm with hm | ⟨hm, hf, he⟩
    · exact ⟨hw.acc dst m hm, find_addr _ _ _ hm, hw.sep dst m hm⟩
    · subst he
      refine ⟨accOK_fresh _ _ _ hw.nonneg, rfl, ?_⟩
      unfold isPlain at hf
      rw [hm] at hf
      simp only [Option.isNone_none, Bool.and_true, Bool.or_eq_false_iff] at hf
      simpa using hf.2
  obtain ⟨hok, haddr, hcode⟩ := hbase
  have hamt : ∀ d, 0 ≤ Coins.amountOf amt d := amountOf_nonneg_of_allPositive amt hpos
  have hfind : ∀ a, find vs' a = if dst = a then some { m with ov := Coins.add m.ov amt } else find w.vs a := by
    intro a; rw [hvs, find_set]; simp only [haddr]
  have hbal : ∀ a d, l'.balOf a d = w.l.balOf a d + (if dst = a then Coins.amountOf amt d else 0) - (if src = a then Coins.amountOf amt d else 0) := by
    intro a d; rw [hl, balOf_debit', balOf_credit']
  have hsp : ∀ d, Coins.amountOf amt d = 0 ∨ lockedOf vs' src d ≤ l'.balOf src d := by
    intro d
    rcases (canSpend_ok _ _ _ _ hc d).2 with h1 | h1
    · exact Or.inl h1
    · right
      rw [hbal]; rw [balOf_credit'] at h1
      simp only [if_true]; omega
  refine ⟨?_, ?_, ?_, ?_⟩
  · intro a d
    show 0 ≤ l'.balOf a d
    have h0 := hw.nonneg a d
    have h1 := hamt d
    by_cases e : src = a
    · subst e
      rcases hsp d with h2 | h2
      · rw [hbal]; split <;> simp only [if_true] <;> omega
      · have := lockedOf_nonneg vs' src d; omega
    · rw [hbal]; simp only [e, if_false]; split <;> omega
  · show (vs'.map (·.addr)).Nodup
    rw [hvs]; exact set_nodup _ _ hw.nodup
  · intro a m' hm'
    have hm'' : find vs' a = some m' := hm'
    show AccOK l' a m'
    rw [hfind] at hm''
    by_cases e : dst = a
    · subst e
      simp only [if_true] at hm''
      injection hm'' with hm''
      subst hm''
      refine ⟨hok.vested_nonneg, ?_, hok.dv_nonneg, hok.df_nonneg, ?_⟩
      · intro d; have := hok.vested_le d; have := hamt d
        simp only [Coins.amountOf_add]; omega
      · intro d
        have h1 := hok.present d
        have h2 := hamt d
        unfold vestingAmt at *
        simp only [Coins.amountOf_add]
        by_cases e2 : src = dst
        · subst e2
          rcases hsp d with h3 | h3
          · rw [hbal]; simp only [if_true]; omega
          · rw [lockedOf_of_find vs' src _ d hm'] at h3
            have := lockedAmt_ge { m with ov := Coins.add m.ov amt } d
            unfold vestingAmt at this
            simp only [Coins.amountOf_add] at this
            omega
        · rw [hbal]; simp only [e2, if_true, if_false]; omega
    · simp only [e, if_false] at hm''
      have ho := hw.acc a m' hm''
      refine ⟨ho.vested_nonneg, ho.vested_le, ho.dv_nonneg, ho.df_nonneg, ?_⟩
      intro d
      have h1 := ho.present d
      by_cases e2 : src = a
      · subst e2
        rcases hsp d with h3 | h3
        · rw [hbal]; simp only [e, if_true, if_false]; omega
        · rw [lockedOf_of_find vs' src _ d hm'] at h3
          have := lockedAmt_ge m' d
          omega
      · rw [hbal]; simp only [e, e2, if_false]; omega
  · intro a m' hm'
    have hm'' : find vs' a = some m' := hm'
    show Cvm.find w.cvm a = none
    rw [hfind] at hm''
    by_cases e : dst = a
    · subst e; exact hcode
    · simp only [e, if_false] at hm''
      exact hw.sep a m' hm''

theorem wf_unlock (w : World) (vs' : Accounts) (issuer account : Addr) (amt : Coins) (ex : Addr → Bool) (hw : WF w)
    (h : unlock w.vs ex issuer account amt = .ok vs') : WF { w with vs := vs' } := by
  obtain ⟨m, m', hm, _, hpos, hvs, haddr, _, hov, hv, hle, hd⟩ := unlock_spec2 _ _ _ _ _ _ h
  have hma : m.addr = account := find_addr _ _ _ hm
  have hamt : ∀ d, 0 ≤ Coins.amountOf amt d := amountOf_nonneg_of_allPositive amt hpos
  have ho := hw.acc account m hm
  have hfind : ∀ a, find vs' a = if account = a then some m' else find w.vs a := by
    intro a; rw [hvs, find_set]; simp only [haddr, hma]
  refine ⟨hw.nonneg, ?_, ?_, ?_⟩
  · show (vs'.map (·.addr)).Nodup
    rw [hvs]; exact set_nodup _ _ hw.nodup
  · intro a m2 hm2
    have hm2' : find vs' a = some m2 := hm2
    show AccOK w.l a m2
    rw [hfind] at hm2'
    by_cases e : account = a
    · subst e
      simp only [if_true] at hm2'
      injection hm2' with hm2'; subst hm2'
      have hvn : ∀ d, 0 ≤ Coins.amountOf m'.vested d := by
        intro d; rw [hv, Coins.amountOf_add]; have := ho.vested_nonneg d; have := hamt d; omega
      have hvl : ∀ d, Coins.amountOf m'.vested d ≤ Coins.amountOf m'.ov d := by
        intro d; rw [hov]; exact hle d
      rcases hd with ⟨hdv, hdf⟩ | ⟨hgt, hdv, hdf⟩
      · refine ⟨hvn, hvl, by rw [hdv]; exact ho.dv_nonneg, by rw [hdf]; exact ho.df_nonneg, ?_⟩
        intro d
        have := ho.present d
        have := hamt d
        unfold vestingAmt at *
        rw [hdv, hov, hv, Coins.amountOf_add]; omega
      · have hge := isAllGT_ge _ _ hgt ho.dv_nonneg
        refine ⟨hvn, hvl, ?_, ?_, ?_⟩
        · intro d
          have := hle d
          rw [hv] at this
          rw [hdv]; simp only [Coins.amountOf_sub] at *; omega
        · intro d
          have := hge d
          have := ho.df_nonneg d
          rw [hdf]; simp only [Coins.amountOf_sub, Coins.amountOf_add] at *; omega
        · intro d
          have := hw.nonneg account d
          unfold vestingAmt
          rw [hdv, hov, hv]; simp only [Coins.amountOf_sub, Coins.amountOf_add]; omega
    · simp only [e, if_false] at hm2'
      exact hw.acc a m2 hm2'
  · intro a m2 hm2
    have hm2' : find vs' a = some m2 := hm2
    show Cvm.find w.cvm a = none
    rw [hfind] at hm2'
    by_cases e : account = a
    · subst e; exact hw.sep account m hm
    · simp only [e, if_false] at hm2'
      exact hw.sep a m2 hm2'

theorem wf_delegate (w : World) (l' : Ledger) (vs' : Accounts) (del pool : Addr) (d : Denom) (amount : Int) (hw : WF w)
    (h : delegate w.l w.vs del pool d amount = .ok (l', vs')) : WF { w with l := l', vs := vs' } := by
  obtain ⟨hpos, hcov, hl, hvs⟩ := delegate_spec _ _ _ _ _ _ _ _ h
  have hn : NonNeg l' := by rw [hl]; exact nonneg_move1 _ _ _ _ _ hw.nonneg (by omega) hcov
  have hmono : ∀ a, del ≠ a → ∀ d', w.l.balOf a d' ≤ l'.balOf a d' := by
    intro a hne d'; rw [hl]; exact mono_move1 _ _ _ _ _ (by omega) a hne d'
  cases hf : find w.vs del with
  | none =>
    rw [hf] at hvs
    subst hvs
    refine ⟨hn, hw.nodup, ?_, hw.sep⟩
    intro a m hm
    have hm' : find w.vs a = some m := hm
    have ho := hw.acc a m hm'
    have hne : del ≠ a := by intro e; subst e; rw [hf] at hm'; cases hm'
    refine ⟨ho.vested_nonneg, ho.vested_le, ho.dv_nonneg, ho.df_nonneg, ?_⟩
    intro d'
    have := ho.present d'
    have := hmono a hne d'
    show vestingAmt m d' ≤ l'.balOf a d' + _
    omega
  | some m =>
    rw [hf] at hvs
    simp only at hvs
    have hma : m.addr = del := find_addr _ _ _ hf
    have ho := hw.acc del m hf
    have hfind : ∀ a, find vs' a = if del = a then some (trackDelegation m d amount) else find w.vs a := by
      intro a; rw [hvs, find_set]
      have : (trackDelegation m d amount).addr = del := hma
      simp only [this]
    refine ⟨hn, ?_, ?_, ?_⟩
    · show (vs'.map (·.addr)).Nodup
      rw [hvs]; exact set_nodup _ _ hw.nodup
    · intro a m2 hm2
      have hm2' : find vs' a = some m2 := hm2
      show AccOK l' a m2
      rw [hfind] at hm2'
      by_cases e : del = a
      · subst e
        simp only [if_true] at hm2'
        injection hm2' with hm2'; subst hm2'
        refine ⟨ho.vested_nonneg, ho.vested_le, ?_, ?_, ?_⟩
        · intro d'
          have := ho.dv_nonneg d'
          simp only [trackDelegation, amountOf_ite_add]
          split <;> omega
        · intro d'
          have := ho.df_nonneg d'
          simp only [trackDelegation, amountOf_ite_add]
          split <;> omega
        · intro d'
          have h1 := ho.present d'
          have h2 := hw.nonneg del d'
          have hvest : vestingAmt (trackDelegation m d amount) d' = vestingAmt m d' := rfl
          rw [hvest, hl, balOf_move1]
          simp only [trackDelegation, amountOf_ite_add, true_and]
          by_cases e2 : d = d'
          · subst e2
            simp only [if_true]
            split <;> omega
          · simp only [e2, if_false, and_false]; omega
      · simp only [e, if_false] at hm2'
        have ho2 := hw.acc a m2 hm2'
        refine ⟨ho2.vested_nonneg, ho2.vested_le, ho2.dv_nonneg, ho2.df_nonneg, ?_⟩
        intro d'
        have := ho2.present d'
        have := hmono a e d'
        omega
    · intro a m2 hm2
      have hm2' : find vs' a = some m2 := hm2
      show Cvm.find w.cvm a = none
      rw [hfind] at hm2'
      by_cases e : del = a
      · subst e; exact hw.sep del m hf
      · simp only [e, if_false] at hm2'
        exact hw.sep a m2 hm2'

/-- **every accepted operation keeps a well-formed world well-formed** -/
theorem stepE_wf (c : Cfg) (w w' : World) (op : Op) (hw : WF w) (h : stepE c w op = .ok w') : WF w' := by
  cases op with
  | send src dst amt =>
    simp only [stepE] at h
    split at h
    · split at h; · cases h
      rename_i l k hs
      injection h with h; subst h
      exact wf_sendToContract c.bond w l k src dst amt hw hs
    · split at h; · cases h
      rename_i l hs
      injection h with h; subst h
      exact wf_send w l src dst amt _ hw hs
  | multiSend src outs =>
    simp only [stepE] at h
    split at h; · cases h
    split at h; · cases h
    rename_i l hs
    injection h with h; subst h
    exact wf_multiSend w l src outs _ hw hs
  | fee payer amt =>
    simp only [stepE] at h
    split at h; · cases h
    rename_i l hs
    injection h with h; subst h
    exact wf_send w l payer c.feeCollector amt w.accts hw hs
  | lockedSend src dst u amt =>
    simp only [stepE] at h
    split at h; · cases h
    rename_i l vs hs
    injection h with h; subst h
    exact wf_lockedSend w l vs src dst u amt _ hw hs
  | unlock issuer account amt =>
    simp only [stepE] at h
    split at h; · cases h
    rename_i vs hs
    injection h with h; subst h
    exact wf_unlock w vs issuer account amt _ hw hs
  | call caller callee value d0 z t hd =>
    simp only [stepE] at h
    split at h; · cases h
    rename_i l k hs
    injection h with h; subst h
    exact wf_call c.bond w l k caller callee _ (by omega) _ _ _ _ hw hs
  | deploy caller na code value =>
    simp only [stepE] at h
    split at h; · cases h
    rename_i hacc
    split at h; · cases h
    rename_i l k hs
    injection h with h; subst h
    have hna : find w.vs na = none := by
      unfold hasAccount at hacc
      cases hf : find w.vs na with
      | none => rfl
      | some m => rw [hf] at hacc; simp at hacc
    exact wf_deploy c.bond w l k caller na code _ (by omega) _ hw hna hs
  | delegate del pool d amount =>
    simp only [stepE] at h
    split at h; · cases h
    rename_i l vs hs
    injection h with h; subst h
    exact wf_delegate w l vs del pool d amount hw hs

end Shentu.C19H
