import Shentu.Model.Bank
namespace Shentu.Ledger
open Shentu

theorem bal_credit (l : Ledger) (a : Addr) (c : Coins) (a' : Addr) :
    (l.credit a c).bal a' = l.bal a' ++ (if a == a' then c else []) := by
  simp only [bal, credit, List.filter_append, List.map_append]
  congr 1
  by_cases h : a == a'
  · simp only [h, if_true]
    induction c with
    | nil => simp
    | cons e es ih => simp [List.filter_cons, h, ih]
  · have h' : (a == a') = false := by simpa using h
    simp only [h', Bool.false_eq_true, if_false]
    induction c with
    | nil => simp
    | cons e es ih => simp [List.filter_cons, h', ih]

@[simp] theorem balOf_credit (l : Ledger) (a : Addr) (c : Coins) (a' : Addr) (d : Denom) :
    (l.credit a c).balOf a' d = l.balOf a' d + (if a == a' then Coins.amountOf c d else 0) := by
  simp only [balOf, bal_credit, Coins.amountOf_append]
  split <;> simp

@[simp] theorem balOf_debit (l : Ledger) (a : Addr) (c : Coins) (a' : Addr) (d : Denom) :
    (l.debit a c).balOf a' d = l.balOf a' d - (if a == a' then Coins.amountOf c d else 0) := by
  simp only [debit, balOf_credit, Coins.amountOf_neg]
  split <;> omega

@[simp] theorem balOf_move (l : Ledger) (src dst : Addr) (c : Coins) (a' : Addr) (d : Denom) :
    (l.move src dst c).balOf a' d =
      l.balOf a' d - (if src == a' then Coins.amountOf c d else 0) + (if dst == a' then Coins.amountOf c d else 0) := by
  simp [move]

@[simp] theorem supply_credit (l : Ledger) (a : Addr) (c : Coins) : (l.credit a c).supply = l.supply := rfl
@[simp] theorem supply_debit (l : Ledger) (a : Addr) (c : Coins) : (l.debit a c).supply = l.supply := rfl
@[simp] theorem supply_move (l : Ledger) (a b : Addr) (c : Coins) : (l.move a b c).supply = l.supply := rfl

theorem total_credit (l : Ledger) (a : Addr) (c : Coins) (d : Denom) :
    (l.credit a c).total d = l.total d + Coins.amountOf c d := by
  simp only [total, credit, List.map_append, Coins.amountOf_append, List.map_map]
  congr 1
  induction c with
  | nil => rfl
  | cons e es ih => simp [ih]

theorem total_debit (l : Ledger) (a : Addr) (c : Coins) (d : Denom) :
    (l.debit a c).total d = l.total d - Coins.amountOf c d := by
  simp only [debit, total_credit, Coins.amountOf_neg]; omega

/-- a transfer does not change the sum of all balances -/
@[simp] theorem total_move (l : Ledger) (a b : Addr) (c : Coins) (d : Denom) :
    (l.move a b c).total d = l.total d := by
  simp only [move, total_credit, total_debit]; omega

theorem send_ok (l l' : Ledger) (src dst : Addr) (c : Coins) (h : l.send src dst c = .ok l') :
    l' = l.move src dst c := by
  unfold send at h
  split at h; · cases h
  split at h; · cases h
  injection h with h; exact h.symm

/-- C01 for the primitives -/
theorem inv_move (l : Ledger) (a b : Addr) (c : Coins) (h : l.Inv) : (l.move a b c).Inv := by
  intro d; simp [h d]
theorem inv_mint (l : Ledger) (a : Addr) (c : Coins) (h : l.Inv) : (l.mint a c).Inv := by
  intro d
  have h1 : (l.mint a c).total d = (l.credit a c).total d := rfl
  have h2 : (l.mint a c).supply = Coins.add l.supply c := rfl
  rw [h1, h2, total_credit, Coins.amountOf_add, h d]
theorem inv_burn (l : Ledger) (a : Addr) (c : Coins) (h : l.Inv) : (l.burn a c).Inv := by
  intro d
  have h1 : (l.burn a c).total d = (l.debit a c).total d := rfl
  have h2 : (l.burn a c).supply = Coins.sub l.supply c := rfl
  rw [h1, h2, total_debit, Coins.amountOf_sub, h d]
theorem inv_send (l l' : Ledger) (a b : Addr) (c : Coins) (h : l.Inv) (hs : l.send a b c = .ok l') : l'.Inv := by
  rw [send_ok l l' a b c hs]; exact inv_move l a b c h

end Shentu.Ledger
