import Shentu.Proofs.ShieldCollOps
/-
  The loops over the withdrawal queue: `delayLoop` (claims postpone withdrawals), `payoutWithdrawLoop`
  (payouts consume them), `completeLoop` (matured ones are released).
-/
set_option linter.unusedSimpArgs false
set_option linter.unusedVariables false
namespace Shentu.Shield.Coll
open List

/-- the amount of `a` that matures by `T` -/
def dueBy (a : Addr) (T : Int) (q : List Withdraw) : Int := wsum (fun w => w.addr == a && decide (w.time ≤ T)) q

/-- the same entry with another completion time -/
def retime (t : Int) (w : Withdraw) : Withdraw := { w with time := t }

/-! ## `DelayWithdraws` -/

/-- `q'` is `q` with some entries of `a` that matured by `t` moved to `t` (as multisets) -/
def Delayed (a : Addr) (t : Int) (q q' : List Withdraw) : Prop :=
  ∃ moved rest, q ~ moved ++ rest ∧ q' ~ moved.map (retime t) ++ rest ∧ ∀ w ∈ moved, w.addr = a ∧ w.time ≤ t

theorem delayLoop_spec (a : Addr) (t : Int) :
    ∀ (ws : List Withdraw) (rem : Int) (q q' rest : List Withdraw),
      (∀ w ∈ ws, w.addr = a) → q ~ ws ++ rest → delayLoop a t ws rem q = .ok q' →
      ∃ moved kept, ws = moved ++ kept ∧ q' ~ moved.map (retime t) ++ (kept ++ rest) := by
  intro ws
  induction ws with
  | nil =>
    intro rem q q' rest _ hperm h
    unfold delayLoop at h
    split at h
    · cases h
    · injection h with h; subst h
      exact ⟨[], [], rfl, by simpa using hperm⟩
  | cons w ws ih =>
    intro rem q q' rest haddr hperm h
    unfold delayLoop at h
    split at h
    · injection h with h; subst h
      exact ⟨[], w :: ws, rfl, by simpa using hperm⟩
    · dsimp only at h
      have hw : w.addr = a := haddr w List.mem_cons_self
      have hmem : w ∈ q := hperm.mem_iff.mpr (by simp)
      have hany : q.any (fun x => x.time == w.time && x.addr == a && x.amount == w.amount) = true :=
        List.any_eq_true.mpr ⟨w, hmem, by simp [hw]⟩
      obtain ⟨x, hx, _, hp⟩ := removeLast_perm _ q hany
      have hxw : x = w := by
        simp only [Bool.and_eq_true, beq_iff_eq] at hx
        exact Withdraw.ext' hx.1.1 (by rw [hx.1.2, hw]) hx.2
      subst hxw
      have h1 : removeLast (fun y => y.time == x.time && y.addr == a && y.amount == x.amount) q ~ ws ++ rest :=
        (hp.symm.trans hperm).cons_inv
      have h2 : insertWithdraw { x with time := t }
          (removeLast (fun y => y.time == x.time && y.addr == a && y.amount == x.amount) q) ~ ws ++ (retime t x :: rest) :=
        ((insertWithdraw_perm _ _).trans (h1.cons _)).trans perm_middle.symm
      obtain ⟨moved, kept, hws, hq'⟩ := ih _ _ _ _ (fun y hy => haddr y (List.mem_cons_of_mem _ hy)) h2 h
      refine ⟨x :: moved, kept, by rw [hws]; rfl, ?_⟩
      refine hq'.trans ?_
      simp only [List.map_cons, List.cons_append]
      exact ((Perm.append_left _ perm_middle).trans perm_middle)

theorem delayLoop_others (a : Addr) (t : Int) (r : Withdraw → Bool) (hr : ∀ w, w.addr = a → r w = false) :
    ∀ (ws : List Withdraw) (rem : Int) (q q' : List Withdraw), (∀ w ∈ ws, w.addr = a) →
      delayLoop a t ws rem q = .ok q' → q'.filter r = q.filter r := by
  intro ws
  induction ws with
  | nil =>
    intro rem q q' _ h
    unfold delayLoop at h
    split at h
    · cases h
    · injection h with h; subst h; rfl
  | cons w ws ih =>
    intro rem q q' haddr h
    unfold delayLoop at h
    split at h
    · injection h with h; subst h; rfl
    · dsimp only at h
      rw [ih _ _ _ (fun y hy => haddr y (List.mem_cons_of_mem _ hy)) h]
      have hw := haddr w List.mem_cons_self
      rw [filter_insertWithdraw_of_not r { w with time := t } _ (hr _ hw)]
      apply removeLast_filter
      intro x hx
      simp only [Bool.and_eq_true, beq_iff_eq] at hx
      exact hr x hx.1.2

theorem delayWithdraws_spec (s s' : State) (a : Addr) (amount t : Int) (h : delayWithdraws s a amount t = .ok s') :
    ∃ q', s' = { s with withdraws := q' } ∧ Delayed a t s.withdraws q' ∧
      ∀ r : Withdraw → Bool, (∀ w, w.addr = a → r w = false) → q'.filter r = s.withdraws.filter r := by
  unfold delayWithdraws at h
  dsimp only at h
  split at h
  · cases h
  · rename_i q' hq
    injection h with h
    refine ⟨q', h.symm, ?_, ?_⟩
    · have hc : ∀ w ∈ (s.withdraws.filter (fun w => decide (w.time ≤ t) && w.addr == a)).reverse, w.addr = a ∧ w.time ≤ t := by
        intro w hw
        have := (List.mem_filter.mp (List.mem_reverse.mp hw)).2
        simp only [Bool.and_eq_true, decide_eq_true_eq, beq_iff_eq] at this
        exact ⟨this.2, this.1⟩
      have hperm : s.withdraws ~ (s.withdraws.filter (fun w => decide (w.time ≤ t) && w.addr == a)).reverse ++
          s.withdraws.filter (fun w => !(decide (w.time ≤ t) && w.addr == a)) :=
        ((filter_append_perm _ s.withdraws).symm).trans (Perm.append_right _ (List.reverse_perm _).symm)
      obtain ⟨moved, kept, hws, hq'⟩ := delayLoop_spec a t _ _ _ _ _ (fun w hw => (hc w hw).1) hperm hq
      refine ⟨moved, kept ++ s.withdraws.filter (fun w => !(decide (w.time ≤ t) && w.addr == a)), ?_, hq', ?_⟩
      · rw [← List.append_assoc, ← hws]; exact hperm
      · intro w hw; exact hc w (by rw [hws]; exact List.mem_append_left _ hw)
    · intro r hr
      refine delayLoop_others a t r hr _ _ _ _ ?_ hq
      intro w hw
      have := (List.mem_filter.mp (List.mem_reverse.mp hw)).2
      simp only [Bool.and_eq_true, decide_eq_true_eq, beq_iff_eq] at this
      exact this.2

/-- what a sequence of delays guarantees about the queue: every entry is still there, with the same owner
    and amount, and not earlier than before -/
structure Postponed (q q' : List Withdraw) : Prop where
  /-- sums over any class of entries that does not look at the time are unchanged -/
  total : ∀ r : Withdraw → Bool, (∀ w t, r (retime t w) = r w) → wsum r q' = wsum r q
  /-- nothing matures earlier -/
  early : (∀ w ∈ q, 0 < w.amount) → ∀ b T, dueBy b T q' ≤ dueBy b T q
  /-- every entry of the new queue is an entry of the old one, possibly later -/
  mem : ∀ x ∈ q', ∃ w ∈ q, x.addr = w.addr ∧ x.amount = w.amount ∧ w.time ≤ x.time
  /-- and conversely -/
  mem' : ∀ w ∈ q, ∃ x ∈ q', x.addr = w.addr ∧ x.amount = w.amount ∧ w.time ≤ x.time
  len : q'.length = q.length

theorem Postponed.refl (q : List Withdraw) : Postponed q q :=
  ⟨fun _ _ => rfl, fun _ _ _ => Int.le_refl _, fun x hx => ⟨x, hx, rfl, rfl, Int.le_refl _⟩,
    fun x hx => ⟨x, hx, rfl, rfl, Int.le_refl _⟩, rfl⟩

theorem Postponed.pos {q q' : List Withdraw} (h : Postponed q q') (hp : ∀ w ∈ q, 0 < w.amount) : ∀ w ∈ q', 0 < w.amount := by
  intro x hx
  obtain ⟨w, hw, _, he, _⟩ := h.mem x hx
  rw [he]; exact hp w hw

theorem Postponed.trans {q1 q2 q3 : List Withdraw} (h1 : Postponed q1 q2) (h2 : Postponed q2 q3) : Postponed q1 q3 := by
  refine ⟨?_, ?_, ?_, ?_, h2.len.trans h1.len⟩
  · intro r hr; rw [h2.total r hr, h1.total r hr]
  · intro hp b T
    exact Int.le_trans (h2.early (h1.pos hp) b T) (h1.early hp b T)
  · intro x hx
    obtain ⟨y, hy, e1, e2, e3⟩ := h2.mem x hx
    obtain ⟨w, hw, f1, f2, f3⟩ := h1.mem y hy
    exact ⟨w, hw, e1.trans f1, e2.trans f2, Int.le_trans f3 e3⟩
  · intro w hw
    obtain ⟨y, hy, e1, e2, e3⟩ := h1.mem' w hw
    obtain ⟨x, hx, f1, f2, f3⟩ := h2.mem' y hy
    exact ⟨x, hx, f1.trans e1, f2.trans e2, Int.le_trans e3 f3⟩

theorem wsum_map_retime_eq (r : Withdraw → Bool) (t : Int) (l : List Withdraw) (hr : ∀ w t, r (retime t w) = r w) :
    wsum r (l.map (retime t)) = wsum r l := by
  induction l with
  | nil => rfl
  | cons x xs ih => simp only [List.map_cons, wsum_cons, ih, hr]; rfl

theorem dueBy_map_retime_le (b : Addr) (T t : Int) (l : List Withdraw) (hl : ∀ w ∈ l, 0 < w.amount ∧ w.time ≤ t) :
    dueBy b T (l.map (retime t)) ≤ dueBy b T l := by
  induction l with
  | nil => exact Int.le_refl _
  | cons x xs ih =>
    have h1 := ih (fun w hw => hl w (List.mem_cons_of_mem _ hw))
    have h2 := hl x List.mem_cons_self
    unfold dueBy at *
    simp only [List.map_cons, wsum_cons, retime]
    by_cases hb : (x.addr == b) = true
    · simp only [hb, Bool.true_and]
      by_cases hT : t ≤ T
      · have : x.time ≤ T := by omega
        simp only [hT, this, decide_true, if_true]; omega
      · by_cases hx : x.time ≤ T
        · simp only [hT, hx, decide_false, decide_true, if_true, if_false]; omega
        · simp only [hT, hx, decide_false, if_false]; omega
    · simp only [hb, Bool.false_and]; simpa [retime] using h1

theorem Delayed.postponed {a : Addr} {t : Int} {q q' : List Withdraw} (h : Delayed a t q q') : Postponed q q' := by
  obtain ⟨moved, rest, hq, hq', hm⟩ := h
  refine ⟨?_, ?_, ?_, ?_, ?_⟩
  · intro r hr
    rw [wsum_perm r hq', wsum_perm r hq, wsum_append, wsum_append, wsum_map_retime_eq r t moved hr]
  · intro hp b T
    unfold dueBy
    rw [wsum_perm _ hq', wsum_perm _ hq, wsum_append, wsum_append]
    have := dueBy_map_retime_le b T t moved (fun w hw => ⟨hp w (hq.mem_iff.mpr (List.mem_append_left _ hw)), (hm w hw).2⟩)
    unfold dueBy at this
    omega
  · intro x hx
    rcases List.mem_append.mp (hq'.mem_iff.mp hx) with hx | hx
    · obtain ⟨w, hw, rfl⟩ := List.mem_map.mp hx
      exact ⟨w, hq.mem_iff.mpr (List.mem_append_left _ hw), rfl, rfl, (hm w hw).2⟩
    · exact ⟨x, hq.mem_iff.mpr (List.mem_append_right _ hx), rfl, rfl, Int.le_refl _⟩
  · intro w hw
    rcases List.mem_append.mp (hq.mem_iff.mp hw) with hw | hw
    · exact ⟨retime t w, hq'.mem_iff.mpr (List.mem_append_left _ (List.mem_map.mpr ⟨w, hw, rfl⟩)), rfl, rfl, (hm w hw).2⟩
    · exact ⟨w, hq'.mem_iff.mpr (List.mem_append_right _ hw), rfl, rfl, Int.le_refl _⟩
  · rw [hq'.length_eq, hq.length_eq]; simp

/-- a re-arranged queue keeps `CollRest` -/
theorem CollRest.postponed {s : State} (h : CollRest s) {q' : List Withdraw} (hp : Postponed s.withdraws q') :
    CollRest { s with withdraws := q' } := by
  refine ⟨h.wdr, ?_, ?_, hp.pos h.wdrPos, h.provNonneg, h.nodup⟩
  · intro p hpm
    rw [h.wdrQ p hpm]
    exact (hp.total _ (fun _ _ => rfl)).symm
  · intro x hx
    obtain ⟨w, hw, he, _⟩ := hp.mem x hx
    obtain ⟨p, hpm, hpa⟩ := h.wdrOwner w hw
    exact ⟨p, hpm, by rw [hpa, he]⟩

/-- what the operations run at claim submission do to the collateral books: only the queue is re-arranged -/
structure DelayLike (s s' : State) : Prop where
  provs : s'.providers = s.providers
  tc : s'.totalCollateral = s.totalCollateral
  tw : s'.totalWithdrawing = s.totalWithdrawing
  params : s'.params = s.params
  queue : Postponed s.withdraws s'.withdraws

theorem DelayLike.refl (s : State) : DelayLike s s := ⟨rfl, rfl, rfl, rfl, Postponed.refl _⟩

theorem DelayLike.trans {s1 s2 s3 : State} (h1 : DelayLike s1 s2) (h2 : DelayLike s2 s3) : DelayLike s1 s3 :=
  ⟨h2.provs.trans h1.provs, h2.tc.trans h1.tc, h2.tw.trans h1.tw, h2.params.trans h1.params, h1.queue.trans h2.queue⟩

theorem DelayLike.rest {s s' : State} (h : DelayLike s s') (hr : CollRest s) : CollRest s' := by
  have h1 := hr.postponed h.queue
  have : SameColl { s with withdraws := s'.withdraws } s' := ⟨by rw [h.provs], rfl, h.tc, h.tw⟩
  exact this.rest h1

theorem DelayLike.inv {s s' : State} (h : DelayLike s s') (hi : CollInv s) : CollInv s' := by
  rw [collInv_iff] at hi ⊢
  exact ⟨by rw [h.tc, h.provs]; exact hi.1, h.rest hi.2⟩

theorem DelayLike.collOf {s s' : State} (h : DelayLike s s') (a : Addr) : collOf s' a = collOf s a :=
  collOf_of_providers h.provs a

theorem Frame.delayLike {s s' : State} (h : s'.providers = s.providers) (hf : Frame s s') : DelayLike s s' :=
  ⟨h, hf.same.tc, hf.same.tw, hf.params, by rw [hf.same.queue]; exact Postponed.refl _⟩

theorem delayWithdraws_delayLike (s s' : State) (a : Addr) (amount t : Int) (h : delayWithdraws s a amount t = .ok s') :
    DelayLike s s' := by
  obtain ⟨q', h1, h2, _⟩ := delayWithdraws_spec s s' a amount t h
  subst h1
  exact ⟨rfl, rfl, rfl, rfl, h2.postponed⟩

theorem secureFromProvider_cases (e : Env) (s s' : State) (p : Provider) (amount duration : Int)
    (h : secureFromProvider e s p amount duration = .ok s') :
    s' = s ∨ ∃ amt, delayWithdraws s p.addr amt (e.t + duration) = .ok s' := by
  unfold secureFromProvider at h
  split at h
  · injection h with h; left; exact h.symm
  · dsimp only at h
    split at h
    · right; exact ⟨_, h⟩
    · injection h with h; left; exact h.symm

theorem secureFromProvider_delayLike (e : Env) (s s' : State) (p : Provider) (amount duration : Int)
    (h : secureFromProvider e s p amount duration = .ok s') : DelayLike s s' := by
  rcases secureFromProvider_cases e s s' p amount duration h with h | ⟨amt, h⟩
  · rw [h]; exact DelayLike.refl s
  · exact delayWithdraws_delayLike _ _ _ _ _ h

theorem secureLoop_delayLike (e : Env) (ratio : Dec) (duration : Int) :
    ∀ (ps : List Provider) (rem : Int) (s s' : State), secureLoop e ratio duration ps rem s = .ok s' → DelayLike s s' := by
  intro ps
  induction ps with
  | nil => intro rem s s' h; unfold secureLoop at h; injection h with h; subst h; exact DelayLike.refl _
  | cons p ps ih =>
    intro rem s s' h
    unfold secureLoop at h
    dsimp only at h
    split at h
    · cases h
    · rename_i s1 hs1
      exact (secureFromProvider_delayLike _ _ _ _ _ _ hs1).trans (ih _ _ _ h)

theorem secureCollaterals_delayLike (e : Env) (s s' : State) (poolID : Nat) (purchaser : Addr) (purchaseID : Nat)
    (loss duration : Int) (h : secureCollaterals e s poolID purchaser purchaseID loss duration = .ok s') : DelayLike s s' := by
  unfold secureCollaterals at h
  dsimp only at h
  repeat' (coll_split_ok h)
  all_goals (
    injection h with h; subst h
    have h1 := secureLoop_delayLike _ _ _ _ _ _ _ (by assumption)
    refine h1.trans ?_
    apply Frame.delayLike
    · simp
    · apply Frame.mk' <;> simp)

/-! ## `UpdateProviderCollateralForPayout` -/

/-- the test that finds the entry `w` in the queue -/
def isIt (w : Withdraw) : Withdraw → Bool := fun x => x.time == w.time && x.addr == w.addr && x.amount == w.amount

/-- one step of the walk: `p` is taken from the entry `w` -/
def payStep (w : Withdraw) (p : Int) (q : List Withdraw) : List Withdraw :=
  if w.amount == p then removeFirst (isIt w) q else replaceFirst (isIt w) (fun x => { x with amount := w.amount - p }) q

theorem isIt_eq {w x : Withdraw} (h : isIt w x = true) : x = w := by
  simp only [isIt, Bool.and_eq_true, beq_iff_eq] at h
  exact Withdraw.ext' h.1.1 h.1.2 h.2

theorem payStep_perm (w : Withdraw) (p : Int) (q : List Withdraw) (hw : w ∈ q) :
    ∃ q0, q ~ w :: q0 ∧ payStep w p q ~ (if w.amount = p then q0 else { w with amount := w.amount - p } :: q0) := by
  have hany : q.any (isIt w) = true := List.any_eq_true.mpr ⟨w, hw, by simp [isIt]⟩
  unfold payStep
  by_cases hp : w.amount = p
  · simp only [hp, beq_self_eq_true, if_true]
    obtain ⟨x, hx, _, hperm⟩ := removeFirst_perm (isIt w) q hany
    rw [isIt_eq hx] at hperm
    exact ⟨_, hperm, Perm.refl _⟩
  · have : (w.amount == p) = false := by simpa using hp
    simp only [this, hp, if_false]
    obtain ⟨x, l0, hx, _, hperm, hperm'⟩ := replaceFirst_perm (isIt w) (fun x => { x with amount := w.amount - p }) q hany
    rw [isIt_eq hx] at hperm hperm'
    exact ⟨l0, hperm, hperm'⟩

/-- what a payout does to the queue: `fw` is taken out of the entries of `a`, nothing grows -/
structure Paid (a : Addr) (fw : Int) (q q' : List Withdraw) : Prop where
  nonneg : 0 ≤ fw
  mine : wsum (fun w => w.addr == a) q' = wsum (fun w => w.addr == a) q - fw
  le : ∀ r : Withdraw → Bool, (∀ w x, r { w with amount := x } = r w) → wsum r q' ≤ wsum r q
  pos : ∀ w ∈ q', 0 < w.amount
  mem : ∀ x ∈ q', ∃ w ∈ q, x.addr = w.addr ∧ x.time = w.time ∧ x.amount ≤ w.amount

theorem Paid.zero (a : Addr) (q : List Withdraw) (hp : ∀ w ∈ q, 0 < w.amount) : Paid a 0 q q :=
  ⟨Int.le_refl _, by omega, fun _ _ => Int.le_refl _, hp, fun x hx => ⟨x, hx, rfl, rfl, Int.le_refl _⟩⟩

theorem payoutLoop_spec (a : Addr) :
    ∀ (ws : List Withdraw) (u fw : Int) (q q' rest : List Withdraw),
      (∀ w ∈ ws, w.addr = a) → 0 ≤ u → (∀ w ∈ q, 0 < w.amount) → q ~ ws ++ rest →
      payoutWithdrawLoop ws u fw q = .ok q' → Paid a fw q q' := by
  intro ws
  induction ws with
  | nil =>
    intro u fw q q' rest _ _ hpos _ h
    unfold payoutWithdrawLoop at h
    split at h
    · cases h
    · rename_i h0
      injection h with h; subst h
      have : fw = 0 := by simpa using h0
      subst this; exact Paid.zero a q hpos
  | cons w ws ih =>
    intro u fw q q' rest haddr hu hpos hperm h
    unfold payoutWithdrawLoop at h
    split at h
    · split at h
      · cases h
      · rename_i h0
        injection h with h; subst h
        have : fw = 0 := by simpa using h0
        subst this; exact Paid.zero a q hpos
    · rename_i hfw
      dsimp only at h
      have haddr' : ∀ y ∈ ws, y.addr = a := fun y hy => haddr y (List.mem_cons_of_mem _ hy)
      split at h
      · exact ih _ _ _ _ (w :: rest) haddr' (by omega) hpos (hperm.trans perm_middle.symm) h
      · rename_i hrem
        have hrem' : max (w.amount - u) 0 ≠ 0 := by simpa using hrem
        have hwq : w ∈ q := hperm.mem_iff.mpr (by simp)
        have hwa : w.addr = a := haddr w List.mem_cons_self
        have hp1 : 0 < min fw (max (w.amount - u) 0) := by omega
        have hp2 : min fw (max (w.amount - u) 0) ≤ w.amount := by omega
        obtain ⟨q0, hq, hq1⟩ := payStep_perm w (min fw (max (w.amount - u) 0)) q hwq
        have hq0 : q0 ~ ws ++ rest := (hq.symm.trans hperm).cons_inv
        have hstep : payoutWithdrawLoop ws (max (u - w.amount) 0) (fw - min fw (max (w.amount - u) 0))
            (payStep w (min fw (max (w.amount - u) 0)) q) = .ok q' := h
        generalize hpd : min fw (max (w.amount - u) 0) = p at *
        -- facts about the stepped queue
        have hsum : ∀ r : Withdraw → Bool, (∀ w x, r { w with amount := x } = r w) →
            wsum r (payStep w p q) = wsum r q - (if r w then p else 0) := by
          intro r hr
          rw [wsum_perm r hq1, wsum_perm r hq, wsum_cons]
          by_cases hpe : w.amount = p
          · simp only [hpe, if_true]; split <;> omega
          · simp only [hpe, if_false, wsum_cons, hr]; split <;> omega
        have hpos1 : ∀ y ∈ payStep w p q, 0 < y.amount := by
          intro y hy
          have hy := hq1.mem_iff.mp hy
          have hq0pos : ∀ z ∈ q0, 0 < z.amount := fun z hz => hpos z (hq.mem_iff.mpr (List.mem_cons_of_mem _ hz))
          by_cases hpe : w.amount = p
          · simp only [hpe, if_true] at hy; exact hq0pos y hy
          · simp only [hpe, if_false] at hy
            rcases List.mem_cons.mp hy with hy | hy
            · rw [hy]; simp only; omega
            · exact hq0pos y hy
        have hmem1 : ∀ y ∈ payStep w p q, ∃ z ∈ q, y.addr = z.addr ∧ y.time = z.time ∧ y.amount ≤ z.amount := by
          intro y hy
          have hy := hq1.mem_iff.mp hy
          have hq0mem : ∀ z ∈ q0, z ∈ q := fun z hz => hq.mem_iff.mpr (List.mem_cons_of_mem _ hz)
          by_cases hpe : w.amount = p
          · simp only [hpe, if_true] at hy; exact ⟨y, hq0mem y hy, rfl, rfl, Int.le_refl _⟩
          · simp only [hpe, if_false] at hy
            rcases List.mem_cons.mp hy with hy | hy
            · rw [hy]; exact ⟨w, hwq, rfl, rfl, by simp only; omega⟩
            · exact ⟨y, hq0mem y hy, rfl, rfl, Int.le_refl _⟩
        have hperm1 : ∃ rest', payStep w p q ~ ws ++ rest' := by
          by_cases hpe : w.amount = p
          · simp only [hpe, if_true] at hq1; exact ⟨rest, hq1.trans hq0⟩
          · simp only [hpe, if_false] at hq1
            exact ⟨_ :: rest, hq1.trans ((hq0.cons _).trans perm_middle.symm)⟩
        obtain ⟨rest', hperm1⟩ := hperm1
        have hI := ih _ _ _ _ rest' haddr' (by omega) hpos1 hperm1 hstep
        refine ⟨by omega, ?_, ?_, hI.pos, ?_⟩
        · rw [hI.mine, hsum _ (fun _ _ => rfl)]
          have : (w.addr == a) = true := by simpa using hwa
          simp only [this, if_true]; omega
        · intro r hr
          have h1 := hI.le r hr
          have h2 := hsum r hr
          split at h2 <;> omega
        · intro x hx
          obtain ⟨y, hy, e1, e2, e3⟩ := hI.mem x hx
          obtain ⟨z, hz, f1, f2, f3⟩ := hmem1 y hy
          exact ⟨z, hz, e1.trans f1, e2.trans f2, Int.le_trans e3 f3⟩

theorem payStep_others (r : Withdraw → Bool) (w : Withdraw) (p : Int) (q : List Withdraw)
    (hr : ∀ x : Withdraw, x.addr = w.addr → r x = false) : (payStep w p q).filter r = q.filter r := by
  unfold payStep
  split
  · apply removeFirst_filter; intro x hx; exact hr x (by rw [isIt_eq hx])
  · apply replaceFirst_filter; intro x hx
    have := isIt_eq hx
    exact ⟨hr x (by rw [this]), hr _ (by rw [this])⟩

theorem payoutLoop_others (a : Addr) (r : Withdraw → Bool) (hr : ∀ w : Withdraw, w.addr = a → r w = false) :
    ∀ (ws : List Withdraw) (u fw : Int) (q q' : List Withdraw), (∀ w ∈ ws, w.addr = a) →
      payoutWithdrawLoop ws u fw q = .ok q' → q'.filter r = q.filter r := by
  intro ws
  induction ws with
  | nil =>
    intro u fw q q' _ h
    unfold payoutWithdrawLoop at h
    split at h
    · cases h
    · injection h with h; subst h; rfl
  | cons w ws ih =>
    intro u fw q q' haddr h
    unfold payoutWithdrawLoop at h
    have haddr' : ∀ y ∈ ws, y.addr = a := fun y hy => haddr y (List.mem_cons_of_mem _ hy)
    split at h
    · split at h
      · cases h
      · injection h with h; subst h; rfl
    · dsimp only at h
      split at h
      · exact ih _ _ _ _ haddr' h
      · have hstep : payoutWithdrawLoop ws (max (u - w.amount) 0) (fw - min fw (max (w.amount - u) 0))
            (payStep w (min fw (max (w.amount - u) 0)) q) = .ok q' := h
        rw [ih _ _ _ _ haddr' hstep]
        apply payStep_others
        intro x hx
        exact hr x (by rw [hx]; exact haddr w List.mem_cons_self)

/-- how a payout is split: (the part of the purchased shield that already reaches into the withdrawals,
    the part of the payout taken from the collateral that is not being withdrawn) -/
def payoutSplit (free purchased payout : Int) : Int × Int :=
  if free ≥ purchased + payout then (0, payout)
  else if free ≥ purchased then (0, free - purchased)
  else (purchased - free, 0)

theorem payoutSplit_facts (free purchased payout : Int) (hf : 0 ≤ free) (hp : 0 ≤ purchased) :
    0 ≤ (payoutSplit free purchased payout).1 ∧ (payoutSplit free purchased payout).2 ≤ free := by
  unfold payoutSplit
  split
  · simp only; omega
  · split <;> simp only <;> omega

/-- the state after `payout` has been taken from `p`, `fw` of it from the queued withdrawals (now `q`) -/
def paidOut (s : State) (p : Provider) (payout fw : Int) (q : List Withdraw) : State :=
  setProvider { s with withdraws := q, totalWithdrawing := s.totalWithdrawing - fw }
    { p with collateral := p.collateral - payout, withdrawing := p.withdrawing - fw }

theorem updateProviderForPayout_spec (s s' : State) (a : Addr) (purchased payout : Int)
    (h : updateProviderForPayout s a purchased payout = .ok s') :
    ∃ p q, findProvider s a = some p ∧
      payoutWithdrawLoop (s.withdraws.filter (·.addr == a)).reverse
        (payoutSplit (p.collateral - p.withdrawing) purchased payout).1
        (payout - (payoutSplit (p.collateral - p.withdrawing) purchased payout).2) s.withdraws = .ok q ∧
      s' = paidOut s p payout (payout - (payoutSplit (p.collateral - p.withdrawing) purchased payout).2) q := by
  unfold updateProviderForPayout at h
  split at h
  · cases h
  rename_i p hf
  dsimp only at h
  split at h
  · cases h
  · rename_i q hq
    injection h with h
    exact ⟨p, q, hf, hq, h.symm⟩

/-- what a payout from one provider does to the collateral books -/
structure PayoutLike (a : Addr) (payout : Int) (s s' : State) : Prop where
  rest : CollRest s'
  sumColl : sumI (·.collateral) s'.providers = sumI (·.collateral) s.providers - payout
  tc : s'.totalCollateral = s.totalCollateral
  params : s'.params = s.params
  collOf : ∀ b, collOf s' b = if b = a then collOf s b - payout else collOf s b
  le : ∀ r : Withdraw → Bool, (∀ w x, r { w with amount := x } = r w) → wsum r s'.withdraws ≤ wsum r s.withdraws
  others : ∀ r : Withdraw → Bool, (∀ w : Withdraw, w.addr = a → r w = false) → s'.withdraws.filter r = s.withdraws.filter r
  mem : ∀ x ∈ s'.withdraws, ∃ w ∈ s.withdraws, x.addr = w.addr ∧ x.time = w.time ∧ x.amount ≤ w.amount

theorem updateProviderForPayout_payoutLike (s s' : State) (a : Addr) (purchased payout : Int) (hr : CollRest s)
    (hpur : 0 ≤ purchased) (h : updateProviderForPayout s a purchased payout = .ok s') : PayoutLike a payout s s' := by
  obtain ⟨p, q, hf, hq, hs'⟩ := updateProviderForPayout_spec s s' a purchased payout h
  obtain ⟨hpm, hpa⟩ := findProvider_some hf
  have hnn := hr.provNonneg p hpm
  have hsplit := payoutSplit_facts (p.collateral - p.withdrawing) purchased payout (by omega) hpur
  generalize hfw : payout - (payoutSplit (p.collateral - p.withdrawing) purchased payout).2 = fw at *
  have hmine : ∀ w ∈ (s.withdraws.filter (·.addr == a)).reverse, w.addr = a := by
    intro w hw
    have := (List.mem_filter.mp (List.mem_reverse.mp hw)).2
    simpa using this
  have hperm : s.withdraws ~ (s.withdraws.filter (·.addr == a)).reverse ++ s.withdraws.filter (fun w => !(w.addr == a)) :=
    ((filter_append_perm _ s.withdraws).symm).trans (Perm.append_right _ (List.reverse_perm _).symm)
  have hpaid := payoutLoop_spec a _ _ _ _ _ _ hmine hsplit.1 hr.wdrPos hperm hq
  have hoth := fun r hr' => payoutLoop_others a r hr' _ _ _ _ _ hmine hq
  have hwq : p.withdrawing = wsum (fun w => w.addr == a) s.withdraws := hr.wdg_eq hf
  have hq'nn : 0 ≤ wsum (fun w => w.addr == a) q := wsum_nonneg _ _ hpaid.pos
  subst hs'
  refine ⟨?_, ?_, rfl, rfl, ?_, hpaid.le, hoth, hpaid.mem⟩
  · apply hr.update hf (p' := { p with collateral := p.collateral - payout, withdrawing := p.withdrawing - fw }) hpa
    · rfl
    · show s.totalWithdrawing - fw = _; simp only; omega
    · show p.withdrawing - fw = wsum _ q
      rw [hpaid.mine]; omega
    · intro b hb
      show wsum _ q = wsum _ s.withdraws
      unfold wsum
      rw [hoth (fun w => w.addr == b) (by intro w hw; simp only [beq_eq_false_iff_ne, ne_eq]; rw [hw]; exact fun h => hb h.symm)]
    · intro w hw
      obtain ⟨z, hz, e1, _, _⟩ := hpaid.mem w hw
      by_cases hwa : w.addr = a
      · right; exact hwa
      · left
        have h1 : w ∈ q.filter (fun x => !(x.addr == a)) := List.mem_filter.mpr ⟨hw, by simpa using hwa⟩
        rw [hoth (fun x => !(x.addr == a)) (by intro x hx; simp [hx])] at h1
        exact (List.mem_filter.mp h1).1
    · exact hpaid.pos
    · have hmine' := hpaid.mine
      simp only
      omega
  · have := sumColl_update hr.nodup hf (p' := { p with collateral := p.collateral - payout, withdrawing := p.withdrawing - fw }) hpa
    show sumI _ (updP _ _) = _
    rw [this]; simp only; omega
  · intro b
    rw [collOf_update hf (p' := { p with collateral := p.collateral - payout, withdrawing := p.withdrawing - fw }) hpa rfl]
    split
    · rename_i hb; subst hb; rw [collOf_found hf]
    · rfl

end Shentu.Shield.Coll
