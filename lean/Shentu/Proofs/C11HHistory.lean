import Shentu.Proofs.C11HSteps
/-
  C11 at the level of histories, part 4: the messages keep the escrow invariant; every step keeps it; the ghost
  accounting (deposited = still recorded + paid) holds along every history.
-/
namespace Shentu.C11H
open Shentu Shentu.Gov
open Shentu.Halt.Gv (depSum depSum_cons depSum_split depSum_upsert foldl_add_amount runHandler_frame)
open Shentu.Props.C11 (recOf recAll)
set_option linter.unusedSimpArgs false
set_option linter.unusedVariables false

/-! ## `MsgDeposit` -/

theorem upsert_mem (pid : Nat) (a : Addr) (amt : Coins) : ∀ (ds : List Deposit) (x : Deposit),
    x ∈ upsertDeposit pid a amt ds →
      (x.pid = pid ∧ x.depositor = a ∧ (x.amount = amt ∨ ∃ y ∈ ds, x.amount = Coins.add y.amount amt)) ∨ x ∈ ds := by
  intro ds
  induction ds with
  | nil =>
    intro x hx
    simp only [upsertDeposit, List.mem_singleton] at hx
    subst hx; exact Or.inl ⟨rfl, rfl, Or.inl rfl⟩
  | cons y ys ih =>
    intro x hx
    unfold upsertDeposit at hx
    split at hx
    · rename_i hk
      simp only [Bool.and_eq_true, beq_iff_eq] at hk
      rcases List.mem_cons.mp hx with h | h
      · subst h; exact Or.inl ⟨hk.1, hk.2, Or.inr ⟨y, List.mem_cons_self, rfl⟩⟩
      · exact Or.inr (List.mem_cons_of_mem _ h)
    · rcases List.mem_cons.mp hx with h | h
      · subst h; exact Or.inr List.mem_cons_self
      · rcases ih x h with ⟨h1, h2, h3⟩ | h'
        · refine Or.inl ⟨h1, h2, ?_⟩
          rcases h3 with h3 | ⟨z, hz, h3⟩
          · exact Or.inl h3
          · exact Or.inr ⟨z, List.mem_cons_of_mem _ hz, h3⟩
        · exact Or.inr (List.mem_cons_of_mem _ h')

/-- the proposal store after a successful `AddDeposit`, before the record is written -/
theorem addDeposit_shape {e : Env} {w w' : World} {pid : Nat} {a : Addr} {amt : Coins}
    (h : addDeposit e w pid a amt = .ok w') :
    ∃ g2 : State, g2.deposits = w.g.deposits ∧ (∀ id, Live w.g id → Live g2 id) ∧ Live g2 pid ∧
      (∀ id, id ≠ pid → findP g2 id = findP w.g id) ∧ g2.nextId = w.g.nextId ∧
      w.l.send a e.modAddr amt = .ok w'.l ∧
      w' = { w with l := w'.l, g := { g2 with deposits := upsertDeposit pid a amt g2.deposits } } := by
  unfold addDeposit at h
  split at h; · cases h
  rename_i p hp
  split at h; · cases h
  rename_i hst
  split at h; · cases h
  rename_i l1 hsend
  injection h with h; subst h
  have hid : p.id = pid := findP_id hp
  have hs1 : p.status = 1 := by unfold Gen.Gov.depositRefused at hst; bool_norm at hst; omega
  have hl1 : liveStatus ({ p with totalDeposit := Coins.add p.totalDeposit amt } : Proposal).status := Or.inl hs1
  have hne : ∀ (q : Proposal), q.id = pid → ∀ (g : State) id, id ≠ pid → findP (setP g q) id = findP g id := by
    intro q hq g id hn
    rw [findP_setP, hq]
    have : (pid == id) = false := by simpa using Ne.symm hn
    simp [this]
  dsimp only
  split
  · refine ⟨_, ?_, ?_, ?_, ?_, ?_, hsend, rfl⟩
    · unfold activateVotingPeriod; rw [setP_deposits, setP_deposits]
    · intro id hl; exact live_activate (live_setP hl1 hl)
    · have := live_setP_self (g := setP w.g { p with totalDeposit := Coins.add p.totalDeposit amt })
        (activated_status e (setP w.g { p with totalDeposit := Coins.add p.totalDeposit amt })
          { p with totalDeposit := Coins.add p.totalDeposit amt })
      rw [activated_id] at this
      rw [← hid]; exact this
    · intro id hn
      unfold activateVotingPeriod
      rw [hne _ (by rw [activated_id]; exact hid) _ id hn]
      exact hne { p with totalDeposit := Coins.add p.totalDeposit amt } hid _ id hn
    · unfold activateVotingPeriod; rw [setP_nextId, setP_nextId]
  · refine ⟨_, ?_, ?_, ?_, ?_, ?_, hsend, rfl⟩
    · rw [setP_deposits]
    · intro id hl; exact live_setP hl1 hl
    · have := live_setP_self (g := w.g) hl1
      rw [← hid]; exact this
    · intro id hn; exact hne { p with totalDeposit := Coins.add p.totalDeposit amt } hid _ id hn
    · rw [setP_nextId]

theorem addDeposit_inv {e : Env} {w w' : World} {pid : Nat} {a : Addr} {amt : Coins}
    (h : addDeposit e w pid a amt = .ok w') (hne : a ≠ e.modAddr) (hi : EscrowInv e.modAddr w) :
    EscrowInv e.modAddr w' := by
  obtain ⟨g2, hd, hlive, hself, _, _, hsend, hw'⟩ := addDeposit_shape h
  have hamt : ∀ d, 0 ≤ Coins.amountOf amt d :=
    Shentu.Halt.Orc.amountOf_nonneg amt (Shentu.Shield.PoolLm.send_not_anyNegative hsend)
  have hl := Ledger.send_ok _ _ _ _ _ hsend
  rw [hw']
  refine ⟨?_, ?_, ?_, ?_⟩
  · intro d
    show w'.l.balOf e.modAddr d = depSum (upsertDeposit pid a amt g2.deposits) d
    rw [hd, depSum_upsert, hl, Ledger.balOf_move, hi.held d]
    have hm : (a == e.modAddr) = false := by simpa using hne
    simp only [hm, Bool.false_eq_true, if_false, beq_self_eq_true, if_true]
    omega
  · intro x hx
    have hx' : x ∈ upsertDeposit pid a amt g2.deposits := hx
    rw [hd] at hx'
    show Live { g2 with deposits := _ } x.pid
    apply live_congr (g := g2) rfl
    rcases upsert_mem pid a amt _ x hx' with ⟨h1, _, _⟩ | h1
    · rw [h1]; exact hself
    · exact hlive _ (hi.live x h1)
  · intro x hx d
    have hx' : x ∈ upsertDeposit pid a amt g2.deposits := hx
    rw [hd] at hx'
    rcases upsert_mem pid a amt _ x hx' with ⟨_, _, h3 | ⟨y, hy, h3⟩⟩ | h1
    · rw [h3]; exact hamt d
    · rw [h3, Coins.amountOf_add]
      have := hi.valid y hy d
      have := hamt d
      omega
    · exact hi.valid x h1 d
  · intro x hx
    have hx' : x ∈ upsertDeposit pid a amt g2.deposits := hx
    rw [hd] at hx'
    rcases upsert_mem pid a amt _ x hx' with ⟨_, h2, _⟩ | h1
    · rw [h2]; exact hne
    · exact hi.foreign x h1

/-! ## `MsgSubmitProposal` -/

/-- a successful submission: a council member's proposal goes straight to a voting period without a deposit; anybody
    else's is stored in its deposit period under the next identifier and the initial deposit is made with `AddDeposit` -/
theorem submit_shape {e : Env} {w w' : World} {pr : Addr} {p0 : Proposal} {dep : Coins}
    (h : submit e w pr p0 dep = .ok w') :
    (isCouncil e w.c pr = true ∧ Kept w w' ∧ w'.g.nextId = w.g.nextId + 1 ∧
      ∀ id, id ≠ w.g.nextId → findP w'.g id = findP w.g id) ∨
    (isCouncil e w.c pr = false ∧ ∃ g1 : State, g1.deposits = w.g.deposits ∧ (∀ id, Live w.g id → Live g1 id) ∧
      g1.nextId = w.g.nextId + 1 ∧ (∀ id, id ≠ w.g.nextId → findP g1 id = findP w.g id) ∧
      addDeposit e { w with g := g1 } w.g.nextId pr dep = .ok w') := by
  unfold submit at h
  dsimp only at h
  split at h; · cases h
  split at h; · cases h
  split at h; · cases h
  split at h; · cases h
  have hne : ∀ (q : Proposal), q.id = w.g.nextId → ∀ (g : State) id, id ≠ w.g.nextId → findP (setP g q) id = findP g id := by
    intro q hq g id hn
    rw [findP_setP, hq]
    have : (w.g.nextId == id) = false := by simpa using Ne.symm hn
    simp [this]
  split at h
  · rename_i hc
    injection h with h; subst h
    refine Or.inl ⟨hc, ⟨rfl, ?_, ?_⟩, ?_, ?_⟩
    · show (activateVotingPeriod e _ _).deposits = _
      unfold activateVotingPeriod
      rw [setP_deposits]
      show (setP w.g _).deposits = _
      rw [setP_deposits]
    · intro id hl
      apply live_activate
      apply live_congr (g := setP w.g _) rfl
      exact live_setP (Or.inl rfl) hl
    · show (activateVotingPeriod e _ _).nextId = _
      unfold activateVotingPeriod
      rw [setP_nextId]
    · intro id hn
      show findP (activateVotingPeriod e _ _) id = _
      unfold activateVotingPeriod
      rw [hne _ (by rw [activated_id]) _ id hn]
      show findP (setP w.g _) id = _
      exact hne _ rfl _ id hn
  · rename_i hc
    refine Or.inr ⟨by simpa using hc, _, ?_, ?_, rfl, ?_, h⟩
    · show (setP w.g _).deposits = _
      rw [setP_deposits]
    · intro id hl
      apply live_congr (g := setP w.g _) rfl
      exact live_setP (Or.inl rfl) hl
    · intro id hn
      show findP (setP w.g _) id = _
      exact hne _ rfl _ id hn

theorem submit_inv {e : Env} {w w' : World} {pr : Addr} {p0 : Proposal} {dep : Coins}
    (h : submit e w pr p0 dep = .ok w') (hne : pr ≠ e.modAddr) (hi : EscrowInv e.modAddr w) :
    EscrowInv e.modAddr w' := by
  rcases submit_shape h with ⟨_, k, _⟩ | ⟨_, g1, hd, hl, _, _, hadd⟩
  · exact k.escrow hi
  · have k : Kept w { w with g := g1 } := ⟨rfl, hd, hl⟩
    exact addDeposit_inv hadd hne (k.escrow hi)

/-! ## `MsgVote`, bank transfers -/

theorem vote_kept {w w' : World} {pid : Nat} {v : Addr} {o : Nat} (h : vote w pid v o = .ok w') : Kept w w' := by
  unfold vote at h
  ok_cases h
  cases h
  exact ⟨rfl, rfl, fun _ hl => hl⟩

theorem transfer_inv {m : Addr} {w : World} {s d : Addr} {amt : Coins} {l' : Ledger}
    (h : w.l.send s d amt = .ok l') (hs : s ≠ m) (hd : d ≠ m) (hi : EscrowInv m w) : EscrowInv m { w with l := l' } := by
  refine ⟨?_, hi.live, hi.valid, hi.foreign⟩
  intro dn
  show l'.balOf m dn = _
  rw [Ledger.send_ok _ _ _ _ _ h, Ledger.balOf_move, ← hi.held dn]
  have h1 : (s == m) = false := by simpa using hs
  have h2 : (d == m) = false := by simpa using hd
  simp [h1, h2]

/-! ## every step keeps the escrow invariant -/

theorem stepW_inv (m : Addr) (w : World) (op : Op) (hi : EscrowInv m w) : EscrowInv m (stepW m w op) := by
  cases op with
  | submit x pr p0 dep =>
    simp only [stepW]
    split; · exact hi
    rename_i hne
    split
    · rename_i w' hw'
      exact submit_inv (e := env m x) hw' (by show pr ≠ m; simpa using hne) hi
    · exact hi
  | deposit x pid a amt =>
    simp only [stepW]
    split; · exact hi
    rename_i hne
    split
    · rename_i w' hw'
      exact addDeposit_inv (e := env m x) hw' (by show a ≠ m; simpa using hne) hi
    · exact hi
  | vote pid v o =>
    simp only [stepW]
    split
    · rename_i w' hw'; exact (vote_kept hw').escrow hi
    · exact hi
  | endBlock x =>
    simp only [stepW]
    split
    · rename_i w' hw'; exact (endBlock_sub (e := env m x) hw').1 hi
    · exact hi
  | transfer s d amt =>
    simp only [stepW]
    split; · exact hi
    rename_i hne
    simp only [Bool.or_eq_true, beq_iff_eq, not_or] at hne
    split
    · rename_i l' hl'; exact transfer_inv hl' hne.1 hne.2 hi
    · exact hi

theorem runW_inv (m : Addr) (ops : List Op) : ∀ w, EscrowInv m w → EscrowInv m (runW m w ops) := by
  induction ops with
  | nil => intro w h; exact h
  | cons op ops ih => intro w h; exact ih _ (stepW_inv m w op h)

/-! ## the ghost accounting -/

/-- what was deposited for (proposal, depositor) is what is still recorded plus what was paid out -/
def Acct (g : G) : Prop :=
  ∀ pid a d, depTot g.deps pid a d = recOf g.w.g.deposits pid a d + paidTot g.pays pid a d

theorem stepG_acct (m : Addr) (g : G) (op : Op) (h : Acct g) : Acct (stepG m g op) := by
  intro pid a d
  have h0 := h pid a d
  cases op with
  | submit x pr p0 dep =>
    simp only [stepG, stepW, depLog, payLog, List.append_nil]
    split
    · simpa using h0
    · cases hs : submit (env m x) g.w pr p0 dep with
      | error _ => simpa using h0
      | ok w' =>
        dsimp only
        rcases submit_shape hs with ⟨hc, k, _⟩ | ⟨hc, g1, hd, _, _, _, hadd⟩
        · rw [hc, k.deps]; simpa using h0
        · have := (Shentu.Props.C11.deposit_escrows _ _ _ _ _ _ hadd).2.1 pid a d
          rw [hc]
          simp only [Bool.false_eq_true, if_false]
          rw [depTot_append, depTot_single, this]
          show _ = recOf g1.deposits pid a d + _ + _
          rw [hd]
          omega
  | deposit x pid' a' amt =>
    simp only [stepG, stepW, depLog, payLog, List.append_nil]
    split
    · simpa using h0
    · cases hs : addDeposit (env m x) g.w pid' a' amt with
      | error _ => simpa using h0
      | ok w' =>
        dsimp only
        have := (Shentu.Props.C11.deposit_escrows _ _ _ _ _ _ hs).2.1 pid a d
        rw [depTot_append, depTot_single, this]
        omega
  | vote pid' v o =>
    simp only [stepG, stepW, depLog, payLog, List.append_nil]
    split
    · rename_i w' hw'; rw [(vote_kept hw').deps]; exact h0
    · exact h0
  | endBlock x =>
    simp only [stepG, stepW, depLog, payLog, List.append_nil]
    cases hs : endBlock (env m x) g.w with
    | error _ => simpa using h0
    | ok w' =>
      dsimp only
      have := (endBlock_sub hs).2.recs pid a d
      rw [paidTot_append]
      omega
  | transfer s dd amt =>
    simp only [stepG, stepW, depLog, payLog, List.append_nil]
    split
    · exact h0
    · split
      · exact h0
      · exact h0

theorem runG_acct (m : Addr) (ops : List Op) : ∀ g, Acct g → Acct (runG m g ops) := by
  induction ops with
  | nil => intro g h; exact h
  | cons op ops ih => intro g h; exact ih _ (stepG_acct m g op h)

theorem recOf_nonneg (ds : List Deposit) (hv : ∀ x ∈ ds, ∀ d, 0 ≤ Coins.amountOf x.amount d) (pid : Nat) (a : Addr)
    (d : Denom) : 0 ≤ recOf ds pid a d := by
  induction ds with
  | nil => simp [recOf]
  | cons x xs ih =>
    rw [recOf_cons]
    have := ih (fun y hy => hv y (List.mem_cons_of_mem _ hy))
    have := hv x List.mem_cons_self d
    split <;> omega

theorem recOf_zero_of_no_record (ds : List Deposit) (pid : Nat) (h : ∀ x ∈ ds, x.pid ≠ pid) (a : Addr) (d : Denom) :
    recOf ds pid a d = 0 := by
  induction ds with
  | nil => simp [recOf]
  | cons x xs ih =>
    rw [recOf_cons, ih (fun y hy => h y (List.mem_cons_of_mem _ hy))]
    have : (x.pid == pid) = false := by simpa using h x List.mem_cons_self
    simp [this]

/-! ## the supply along a history -/

/-- the recorded supply only changes by the burns the payment log lists -/
def SupplyAcct (w0 : World) (g : G) : Prop :=
  ∀ d, Coins.amountOf g.w.l.supply d = Coins.amountOf w0.l.supply d - burnedSum g.pays d

theorem stepG_supply (m : Addr) (w0 : World) (g : G) (op : Op) (h : SupplyAcct w0 g) : SupplyAcct w0 (stepG m g op) := by
  intro d
  have h0 := h d
  cases op with
  | submit x pr p0 dep =>
    simp only [stepG, stepW, payLog, List.append_nil]
    split
    · exact h0
    · cases hs : submit (env m x) g.w pr p0 dep with
      | error _ => exact h0
      | ok w' =>
        dsimp only
        rcases submit_shape hs with ⟨_, k, _⟩ | ⟨_, g1, _, _, _, _, hadd⟩
        · rw [k.l]; exact h0
        · rw [(Shentu.Props.C11.deposit_escrows _ _ _ _ _ _ hadd).1]; exact h0
  | deposit x pid' a' amt =>
    simp only [stepG, stepW, payLog, List.append_nil]
    split
    · exact h0
    · cases hs : addDeposit (env m x) g.w pid' a' amt with
      | error _ => exact h0
      | ok w' =>
        dsimp only
        rw [(Shentu.Props.C11.deposit_escrows _ _ _ _ _ _ hs).1]; exact h0
  | vote pid' v o =>
    simp only [stepG, stepW, payLog, List.append_nil]
    split
    · rename_i w' hw'; rw [(vote_kept hw').l]; exact h0
    · exact h0
  | endBlock x =>
    simp only [stepG, stepW, payLog]
    cases hs : endBlock (env m x) g.w with
    | error _ => simpa using h0
    | ok w' =>
      dsimp only
      have := (endBlock_sub hs).2.supply d
      rw [burnedSum_append]
      omega
  | transfer s dd amt =>
    simp only [stepG, stepW, payLog, List.append_nil]
    split
    · exact h0
    · split
      · rename_i l' hl'
        show Coins.amountOf l'.supply d = _
        rw [Ledger.send_ok _ _ _ _ _ hl']; exact h0
      · exact h0

theorem runG_supply (m : Addr) (w0 : World) (ops : List Op) : ∀ g, SupplyAcct w0 g → SupplyAcct w0 (runG m g ops) := by
  induction ops with
  | nil => intro g h; exact h
  | cons op ops ih => intro g h; exact ih _ (stepG_supply m w0 g op h)

/-! ## what settling means for the depositors -/

theorem refundedTo_payOf_recOf (ds : List Deposit) (pid : Nat) (a : Addr) (d : Denom) :
    refundedTo (payOf false ds pid) a d = recOf ds pid a d := by
  rw [refundedTo_payOf_false]
  simp only [recOf, List.filter_filter]
  congr 3
  funext x
  exact Bool.and_comm _ _

theorem Settled.no_record {e : Env} {w w' : World} {pid : Nat} {b : Bool} (s : Settled e w w' pid b) :
    ∀ x ∈ w'.g.deposits, x.pid ≠ pid := by
  rw [s.deps]
  intro x hx
  have := (List.mem_filter.mp hx).2
  simpa using this

/-- refund: supply unchanged, every depositor gets back exactly what is recorded for them -/
theorem Settled.refund_facts {e : Env} {w w' : World} {pid : Nat} (s : Settled e w w' pid false) :
    (∀ d, Coins.amountOf w'.l.supply d = Coins.amountOf w.l.supply d) ∧
    (∀ a d, a ≠ e.modAddr → w'.l.balOf a d = w.l.balOf a d + recOf w.g.deposits pid a d) ∧
    (∀ x ∈ w'.g.deposits, x.pid ≠ pid) ∧ ¬ Live w'.g pid := by
  have mv := s.moves
  refine ⟨?_, ?_, s.no_record, s.ended⟩
  · intro d; rw [mv.supply d, burnedSum_payOf_false]; omega
  · intro a d ha; rw [mv.paid a d ha, refundedTo_payOf_recOf]

/-- burn: the supply drops by exactly the recorded deposits of the proposal, nobody is paid -/
theorem Settled.burn_facts {e : Env} {w w' : World} {pid : Nat} (s : Settled e w w' pid true) :
    (∀ d, Coins.amountOf w'.l.supply d = Coins.amountOf w.l.supply d - recAll w.g.deposits pid d) ∧
    (∀ a d, a ≠ e.modAddr → w'.l.balOf a d = w.l.balOf a d) ∧
    (∀ x ∈ w'.g.deposits, x.pid ≠ pid) ∧ ¬ Live w'.g pid := by
  have mv := s.moves
  refine ⟨?_, ?_, s.no_record, s.ended⟩
  · intro d; rw [mv.supply d, burnedSum_payOf_true, depSum_recAll]
  · intro a d ha; rw [mv.paid a d ha, refundedTo_payOf_true]; omega

end Shentu.C11H
