import Shentu.Props.C07
/-
  Definitions and helper lemmas for `Shentu/Props/C07P.lean`: C07 over histories in which the withdraw period is
  changed by parameter-change proposals.

  `POp` adds the step `setPeriod p` to the operations of C03a.  The ghost log `PGhost` stores with each request the
  period that was in force when the request was made.  `logSumP log a T` sums the requests of `a` whose own due
  time (request time + own period) is at most `T`.  `PInv` is the invariant behind the history theorem; it mentions
  no period at all, only the due times in the log.
-/
set_option linter.unusedSimpArgs false
namespace Shentu.Props.C07P
open Shentu Shentu.Shield Shentu.Shield.Coll Shentu.Props.C03a Shentu.Props.C07

/-- the operations of a history: the operations of C03a, and a change of the withdraw period -/
inductive POp where
  | op (o : Op)
  | setPeriod (p : Int)

/-- the parameter change itself: only `params.withdrawPeriod` is replaced -/
def setPeriodState (p : Int) (s : State) : State := { s with params := { s.params with withdrawPeriod := p } }

/-- ghost state: the log of requests, each with the period in force when it was made; the amount released to each
    provider so far; the latest block time -/
structure PGhost where
  log : List (Req × Int)
  released : Addr → Int
  now : Int

/-- the amount `a` has requested with due time (request time + the period in force at the request) at most `T` -/
def logSumP (log : List (Req × Int)) (a : Addr) (T : Int) : Int :=
  sumI (·.1.amount) (log.filter (fun r => r.1.addr == a && decide (r.1.time + r.2 ≤ T)))

/-- tag every request of a list with the same period -/
def tag (P : Int) (l : List Req) : List (Req × Int) := l.map (fun r => (r, P))

/-- the ghost of `C07` seen as a ghost with periods: every logged request gets the period `P` -/
def liftGhost (P : Int) (g : Ghost) : PGhost := ⟨tag P g.log, g.released, g.now⟩

/-- `op o` is admissible as in C03a; a period is admissible when positive (the chain's parameter validation) -/
def POp.admissible : POp → State → Prop
  | .op o, s => o.admissible s
  | .setPeriod p, _ => 0 < p

/-- One step with its ghost bookkeeping.  `op o` runs `C07.gstep o` (on a ghost with an empty log, so that the log
    that comes back is exactly what the step logged) and appends the logged requests, each tagged with the period of
    the state the step ran in.  `setPeriod p` changes the parameter and nothing else: no log entry, no release, no time. -/
def pstep : POp → World × PGhost → World × PGhost
  | .op o, x =>
    let y := gstep o (x.1, ⟨[], x.2.released, x.2.now⟩)
    (y.1, ⟨x.2.log ++ tag x.1.2.params.withdrawPeriod y.2.log, y.2.released, y.2.now⟩)
  | .setPeriod p, x => ((x.1.1, setPeriodState p x.1.2), x.2)

def prun (ops : List POp) (x : World × PGhost) : World × PGhost := ops.foldl (fun x op => pstep op x) x

/-- every step is admissible in the state it is run in -/
def PAdmissible : List POp → World × PGhost → Prop
  | [], _ => True
  | op :: ops, x => op.admissible x.1.2 ∧ PAdmissible ops (pstep op x)

/-- the block time of a step (`setPeriod` has none) -/
def popTime : POp → Option Int
  | .op o => opTime o
  | .setPeriod _ => none

/-- block times are non-decreasing along the history -/
def PTimed : List POp → Int → Prop
  | [], _ => True
  | op :: ops, now => (∀ t, popTime op = some t → now ≤ t) ∧ PTimed ops ((popTime op).getD now)

/-- the invariant: for every provider and every time `T` from now on, what has been released plus what is queued to
    mature by `T` is covered by the requests whose own due time is at most `T` -/
def PInv (g : PGhost) (s : State) : Prop :=
  ∀ a T, g.now ≤ T → g.released a + dueBy a T s.withdraws ≤ logSumP g.log a T

/-! ## the generalised sum -/

@[simp] theorem logSumP_nil (a : Addr) (T : Int) : logSumP [] a T = 0 := rfl

theorem logSumP_cons (r : Req × Int) (log : List (Req × Int)) (a : Addr) (T : Int) :
    logSumP (r :: log) a T = (if r.1.addr == a && decide (r.1.time + r.2 ≤ T) then r.1.amount else 0) + logSumP log a T := by
  unfold logSumP
  by_cases h : (r.1.addr == a && decide (r.1.time + r.2 ≤ T)) = true
  · simp only [List.filter_cons, h, if_true, sumI_cons]
  · simp only [List.filter_cons, h, if_false]; simp

theorem logSumP_append (l1 l2 : List (Req × Int)) (a : Addr) (T : Int) :
    logSumP (l1 ++ l2) a T = logSumP l1 a T + logSumP l2 a T := by
  unfold logSumP; rw [List.filter_append, sumI_append]

/-- with one period for all requests the generalised sum is the sum of `C07` -/
theorem logSumP_tag (P : Int) (l : List Req) (a : Addr) (T : Int) : logSumP (tag P l) a T = logSum P l a T := by
  induction l with
  | nil => rfl
  | cons r l ih =>
    show logSumP ((r, P) :: tag P l) a T = _
    rw [logSumP_cons, logSum_cons, ih]

theorem tag_append (P : Int) (l1 l2 : List Req) : tag P (l1 ++ l2) = tag P l1 ++ tag P l2 := by
  unfold tag; rw [List.map_append]

/-! ## `gstep` on a ghost with an empty log -/

theorem gstep_empty_log (o : Op) (w : World) (g : Ghost) :
    (gstep o (w, g)).1 = (gstep o (w, ⟨[], g.released, g.now⟩)).1 ∧
    (gstep o (w, g)).2.log = g.log ++ (gstep o (w, ⟨[], g.released, g.now⟩)).2.log ∧
    (gstep o (w, g)).2.released = (gstep o (w, ⟨[], g.released, g.now⟩)).2.released ∧
    (gstep o (w, g)).2.now = (gstep o (w, ⟨[], g.released, g.now⟩)).2.now := by
  unfold gstep
  cases o.apply w with
  | error x => exact ⟨rfl, by simp, rfl, rfl⟩
  | ok w' => exact ⟨rfl, by simp, rfl, rfl⟩

/-- the world of a `pstep (.op o)` is the world of `step o` -/
theorem pstep_op_world (o : Op) (x : World × PGhost) : (pstep (.op o) x).1 = step o x.1 := by
  show (gstep o (x.1, _)).1 = _
  unfold gstep step; cases o.apply x.1 <;> rfl

theorem pstep_op_now (o : Op) (x : World × PGhost) : (pstep (.op o) x).2.now = (opTime o).getD x.2.now := by
  show (gstep o (x.1, _)).2.now = _
  unfold gstep; cases o.apply x.1 <;> rfl

/-- a `pstep (.op o)` written out: failure keeps everything but the time, success logs `opRequests` with the period
    of the state the step ran in -/
theorem pstep_op_error (o : Op) (w : World) (g : PGhost) (err : Err) (h : o.apply w = .error err) :
    pstep (.op o) (w, g) = (w, ⟨g.log, g.released, (opTime o).getD g.now⟩) := by
  show (_, _) = _
  unfold gstep
  simp only [h, tag, List.map_nil, List.append_nil]

theorem pstep_op_ok (o : Op) (w w' : World) (g : PGhost) (h : o.apply w = .ok w') :
    pstep (.op o) (w, g) =
      (w', ⟨g.log ++ tag w.2.params.withdrawPeriod (opRequests o w),
            fun b => g.released b + (if (opCompletes o).isSome then collOf w.2 b - collOf w'.2 b else 0),
            (opTime o).getD g.now⟩) := by
  show (_, _) = _
  unfold gstep
  simp only [h, List.nil_append]

/-! ## the parameter change -/

theorem setPeriod_collInv (p : Int) (s : State) (hi : CollInv s) : CollInv (setPeriodState p s) :=
  ⟨hi.coll, hi.wdr, hi.wdrQ, hi.wdrOwner, hi.wdrPos, hi.provNonneg, hi.nodup⟩

theorem setPeriod_inv (p : Int) (w : World) (g : PGhost) (hg : PInv g w.2) :
    PInv (pstep (.setPeriod p) (w, g)).2 (pstep (.setPeriod p) (w, g)).1.2 := hg

/-! ## one step preserves the invariant -/

theorem pstep_op_inv (o : Op) (w : World) (g : PGhost) (hi : CollInv w.2) (hadm : o.admissible w.2)
    (ht : ∀ t, opTime o = some t → g.now ≤ t) (hg : PInv g w.2) :
    CollInv (pstep (.op o) (w, g)).1.2 ∧ PInv (pstep (.op o) (w, g)).2 (pstep (.op o) (w, g)).1.2 := by
  have hnow : g.now ≤ (opTime o).getD g.now := by
    cases h : opTime o with
    | none => exact Int.le_refl _
    | some t => exact ht t h
  cases h : o.apply w with
  | error x =>
    rw [pstep_op_error o w g x h]
    refine ⟨hi, ?_⟩
    intro a T hT
    exact hg a T (Int.le_trans hnow hT)
  | ok w' =>
    rw [pstep_op_ok o w w' g h]
    have hf := apply_facts o w w' hi hadm h
    have hi' := apply_collInv o w w' hi hadm h
    refine ⟨hi', ?_⟩
    intro a T hT
    dsimp only at hT ⊢
    have h0 := hg a T (Int.le_trans hnow hT)
    cases hc : opCompletes o with
    | none =>
      have := hf.grow hc a T
      simp only [Option.isSome_none, Bool.false_eq_true, if_false, logSumP_append, logSumP_tag]
      omega
    | some t =>
      obtain ⟨hq, hcoll⟩ := hf.rel t hc
      have hreq : opRequests o w = [] := by
        cases o <;> simp only [opCompletes] at hc <;> first | rfl | cases hc
      have htime : opTime o = some t := by
        cases o <;> simp only [opCompletes] at hc <;> first | (cases hc; rfl) | cases hc
      have htT : t ≤ T := by rw [htime] at hT; exact hT
      simp only [Option.isSome_some, if_true, hreq, tag, List.map_nil, List.append_nil]
      rw [hq, dueBy_filter_not_due a t T _ htT, hcoll a]
      omega

/-- every step — an operation of C03a or a period change — preserves `CollInv` and the invariant -/
theorem pstep_inv (op : POp) (w : World) (g : PGhost) (hi : CollInv w.2) (hadm : op.admissible w.2)
    (ht : ∀ t, popTime op = some t → g.now ≤ t) (hg : PInv g w.2) :
    CollInv (pstep op (w, g)).1.2 ∧ PInv (pstep op (w, g)).2 (pstep op (w, g)).1.2 := by
  cases op with
  | op o => exact pstep_op_inv o w g hi hadm ht hg
  | setPeriod p => exact ⟨setPeriod_collInv p w.2 hi, setPeriod_inv p w g hg⟩

theorem pstep_now (op : POp) (x : World × PGhost) : (pstep op x).2.now = (popTime op).getD x.2.now := by
  cases op with
  | op o => exact pstep_op_now o x
  | setPeriod p => rfl

/-- the invariant holds along every admissible, timed history -/
theorem prun_inv (ops : List POp) (w : World) (g : PGhost) (hi : CollInv w.2) (hadm : PAdmissible ops (w, g))
    (htime : PTimed ops g.now) (hg : PInv g w.2) :
    CollInv (prun ops (w, g)).1.2 ∧ PInv (prun ops (w, g)).2 (prun ops (w, g)).1.2 := by
  induction ops generalizing w g with
  | nil => exact ⟨hi, hg⟩
  | cons op ops ih =>
    have hs := pstep_inv op w g hi hadm.1 htime.1 hg
    have hn := pstep_now op (w, g)
    exact ih (pstep op (w, g)).1 (pstep op (w, g)).2 hs.1 hadm.2 (by rw [hn]; exact htime.2) hs.2

/-- an empty queue with nothing logged and nothing released satisfies the invariant -/
theorem pinv_empty (s : State) (t0 : Int) (hq : s.withdraws = []) : PInv ⟨[], fun _ => 0, t0⟩ s := by
  intro a T _
  rw [hq]; simp [dueBy]

/-! ## histories without a period change -/

/-- a history of C03a operations run with `pstep`, from the lifted ghost, is the `grun` of C07 with its ghost lifted:
    same world, same released amounts, same time, and the log is the log of C07 tagged with the constant period -/
theorem prun_ops (P : Int) (ops : List Op) (w : World) (g : Ghost) (hi : CollInv w.2)
    (hP : w.2.params.withdrawPeriod = P) (hadm : Admissible ops w) :
    prun (ops.map .op) (w, liftGhost P g) = ((grun ops (w, g)).1, liftGhost P (grun ops (w, g)).2) := by
  induction ops generalizing w g with
  | nil => rfl
  | cons o ops ih =>
    have hw : (gstep o (w, g)).1 = step o w := by
      unfold gstep step; cases o.apply w <;> rfl
    have hstep : pstep (.op o) (w, liftGhost P g) = ((gstep o (w, g)).1, liftGhost P (gstep o (w, g)).2) := by
      obtain ⟨h1, h2, h3, h4⟩ := gstep_empty_log o w g
      show (_, _) = _
      simp only [liftGhost]
      rw [h1, h2, h3, h4, tag_append, hP]
    have hi' : CollInv (gstep o (w, g)).1.2 ∧ (gstep o (w, g)).1.2.params.withdrawPeriod = P := by
      rw [hw]; unfold step
      cases h : o.apply w with
      | error x => exact ⟨hi, hP⟩
      | ok w' =>
        exact ⟨apply_collInv o w w' hi hadm.1 h, by rw [(apply_facts o w w' hi hadm.1 h).params]; exact hP⟩
    show prun (ops.map .op) (pstep (.op o) (w, liftGhost P g)) = ((grun ops (gstep o (w, g))).1, liftGhost P (grun ops (gstep o (w, g))).2)
    rw [hstep]
    exact ih (gstep o (w, g)).1 (gstep o (w, g)).2 hi'.1 hi'.2 (by rw [hw]; exact hadm.2)

theorem padmissible_ops (ops : List Op) (w : World) (g : PGhost) (hadm : Admissible ops w) :
    PAdmissible (ops.map .op) (w, g) := by
  induction ops generalizing w g with
  | nil => trivial
  | cons o ops ih =>
    refine ⟨hadm.1, ?_⟩
    have := ih (pstep (.op o) (w, g)).1 (pstep (.op o) (w, g)).2 (by rw [pstep_op_world]; exact hadm.2)
    exact this

theorem ptimed_ops (ops : List Op) (now : Int) (h : Timed ops now) : PTimed (ops.map .op) now := by
  induction ops generalizing now with
  | nil => trivial
  | cons o ops ih => exact ⟨h.1, ih _ h.2⟩

/-- `GhostInv P` of C07 is `PInv` of the lifted ghost -/
theorem pinv_lift (P : Int) (g : Ghost) (s : State) : PInv (liftGhost P g) s ↔ GhostInv P g s := by
  constructor
  · intro h a T hT; have := h a T hT; simp only [liftGhost, logSumP_tag] at this; exact this
  · intro h a T hT; have := h a T hT; simp only [liftGhost, logSumP_tag]; exact this

end Shentu.Props.C07P
