import Shentu.Base.Dec
/-
  Facts about `sdk.Dec` arithmetic needed for C04: multiplying a whole number by a ratio is exact,
  a ratio of whole numbers `a / T` with `0 ≤ a ≤ T` lies in [0, 1], and so a provider's share
  `truncate (collateral · ratio)` lies between 0 and its collateral.
-/
namespace Shentu.Dec

theorem prec_pos : 0 < prec := by decide
theorem prec_ne : prec ≠ 0 := by decide

theorem chopRoundNonneg_mul_prec (k : Int) : chopRoundNonneg (k * prec) = k := by
  unfold chopRoundNonneg
  simp [Int.mul_tdiv_cancel k prec_ne, Int.mul_tmod_left]

/-- rounding a value that has no fractional digits is exact -/
theorem chopRound_mul_prec (k : Int) : chopRound (k * prec) = k := by
  unfold chopRound
  split
  · have : -(k * prec) = (-k) * prec := by rw [Int.neg_mul]
    rw [this, chopRoundNonneg_mul_prec]; omega
  · exact chopRoundNonneg_mul_prec k

/-- a whole number times a decimal is exact (no rounding) -/
theorem mul_ofInt (c : Int) (r : Dec) : mul (ofInt c) r = ⟨c * r.raw⟩ := by
  unfold mul ofInt
  have : c * prec * r.raw = (c * r.raw) * prec := by
    rw [Int.mul_assoc, Int.mul_comm prec, ← Int.mul_assoc]
  simp only [this, chopRound_mul_prec]

/-- rounding a non-negative value moves it to one of the two neighbouring whole values, and not at all when it is whole -/
theorem chopRoundNonneg_bounds (x : Int) (h : 0 ≤ x) :
    x / prec ≤ chopRoundNonneg x ∧ chopRoundNonneg x ≤ x / prec + 1 ∧ (x % prec = 0 → chopRoundNonneg x = x / prec) := by
  unfold chopRoundNonneg
  rw [Int.tdiv_eq_ediv_of_nonneg h, Int.tmod_eq_emod_of_nonneg h]
  dsimp only
  split
  · exact ⟨by omega, by omega, fun _ => rfl⟩
  · rename_i h0
    simp only [beq_iff_eq] at h0
    split
    · exact ⟨by omega, by omega, fun hc => absurd hc h0⟩
    · split
      · exact ⟨by omega, by omega, fun hc => absurd hc h0⟩
      · split
        · exact ⟨by omega, by omega, fun hc => absurd hc h0⟩
        · exact ⟨by omega, by omega, fun hc => absurd hc h0⟩

theorem chopRound_nonneg (x : Int) (h : 0 ≤ x) : 0 ≤ chopRound x := by
  unfold chopRound
  have hx : ¬ x < 0 := by omega
  simp only [hx, if_false]
  have := (chopRoundNonneg_bounds x h).1
  have := Int.ediv_nonneg h (Int.le_of_lt prec_pos)
  omega

/-- rounding does not carry a value in [0, k] above k -/
theorem chopRound_le (x k : Int) (h : 0 ≤ x) (hk : x ≤ k * prec) : chopRound x ≤ k := by
  unfold chopRound
  have hx : ¬ x < 0 := by omega
  simp only [hx, if_false]
  obtain ⟨_, h2, h3⟩ := chopRoundNonneg_bounds x h
  have hq : x / prec ≤ k := Int.ediv_le_of_le_mul prec_pos hk
  by_cases hlt : x / prec < k
  · omega
  · have hqk : x / prec = k := by omega
    have h4 := Int.ediv_mul_le x prec_ne
    rw [hqk] at h4
    have hxk : x = k * prec := by omega
    have : x % prec = 0 := by rw [hxk]; exact Int.mul_emod_left k prec
    rw [h3 this]; omega

/-- `a / T` with `0 ≤ a`, `0 < T` is not negative -/
theorem quo_ofInt_nonneg (a T : Int) (ha : 0 ≤ a) (hT : 0 < T) : 0 ≤ (quo (ofInt a) (ofInt T)).raw := by
  unfold quo ofInt
  apply chopRound_nonneg
  apply Int.tdiv_nonneg
  · exact Int.mul_nonneg (Int.mul_nonneg (Int.mul_nonneg ha (Int.le_of_lt prec_pos)) (Int.le_of_lt prec_pos)) (Int.le_of_lt prec_pos)
  · exact Int.mul_nonneg (Int.le_of_lt hT) (Int.le_of_lt prec_pos)

/-- `a / T` with `0 ≤ a ≤ T`, `0 < T` is at most one -/
theorem quo_ofInt_le_one (a T : Int) (ha : 0 ≤ a) (hT : 0 < T) (haT : a ≤ T) : (quo (ofInt a) (ofInt T)).raw ≤ prec := by
  unfold quo ofInt
  have hp := Int.le_of_lt prec_pos
  have hN : 0 ≤ a * prec * prec * prec := Int.mul_nonneg (Int.mul_nonneg (Int.mul_nonneg ha hp) hp) hp
  have hD : 0 < T * prec := Int.mul_pos hT prec_pos
  have hx : 0 ≤ (a * prec * prec * prec).tdiv (T * prec) := Int.tdiv_nonneg hN (Int.le_of_lt hD)
  apply chopRound_le _ _ hx
  rw [Int.tdiv_eq_ediv_of_nonneg hN]
  apply Int.ediv_le_of_le_mul hD
  have h1 : a * prec * prec * prec = a * (prec * prec * prec) := by simp only [Int.mul_assoc]
  have h2 : prec * prec * (T * prec) = T * (prec * prec * prec) := by
    rw [Int.mul_comm (prec * prec) (T * prec), Int.mul_assoc T, Int.mul_comm prec (prec * prec)]
  rw [h1, h2]
  exact Int.mul_le_mul_of_nonneg_right haT (Int.mul_nonneg (Int.mul_nonneg hp hp) hp)

/-- a provider's truncated share is not negative … -/
theorem trunc_mul_ofInt_nonneg (c : Int) (r : Dec) (hc : 0 ≤ c) (hr : 0 ≤ r.raw) : 0 ≤ truncateInt (mul (ofInt c) r) := by
  rw [mul_ofInt]
  unfold truncateInt
  exact Int.tdiv_nonneg (Int.mul_nonneg hc hr) (Int.le_of_lt prec_pos)

/-- … and, for a ratio in [0, 1], not more than the provider's collateral -/
theorem trunc_mul_ofInt_le (c : Int) (r : Dec) (hc : 0 ≤ c) (hr : 0 ≤ r.raw) (hr1 : r.raw ≤ prec) :
    truncateInt (mul (ofInt c) r) ≤ c := by
  rw [mul_ofInt]
  unfold truncateInt
  rw [Int.tdiv_eq_ediv_of_nonneg (Int.mul_nonneg hc hr)]
  apply Int.ediv_le_of_le_mul prec_pos
  exact Int.mul_le_mul_of_nonneg_left hr1 hc

end Shentu.Dec
