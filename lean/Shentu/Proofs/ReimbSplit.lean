import Shentu.Proofs.HaltShieldPayout
import Shentu.Proofs.ShieldLimitLemmas
import Shentu.Proofs.PayoutLemmas
/-
  C04, the proportional split of a claim's loss over the collateral providers (`Shield.reimburseLoop`):
  when does the split reach the whole loss?  Definitions (`truncShare`, `SpareTwo`, `splitLeft`) and the arithmetic
  behind `Props/C04r.lean`.
-/
namespace Shentu.ReimbSplit
open Shentu Shentu.Shield Shentu.Shield.Fund

/-- the truncated share `trunc(c · r)` of a provider with collateral `c` under the ratio `r` -/
def truncShare (r : Dec) (c : Int) : Int := Dec.truncateInt (Dec.mul (Dec.ofInt c) r)

/-- the provider keeps at least two units beyond its two truncated shares -/
def SpareTwo (pr yr : Dec) (p : Provider) : Prop :=
  truncShare pr p.collateral + truncShare yr p.collateral + 2 ≤ p.collateral

instance (pr yr : Dec) (p : Provider) : Decidable (SpareTwo pr yr p) := by unfold SpareTwo; infer_instance

/-- what is left of the loss after the split over the providers (the first component of `reimburseLoop`'s result) -/
def splitLeft (pr yr : Dec) : List Provider → Int → Int → Int
  | [], _, ty => ty
  | p :: ps, tp, ty =>
    if ty ≤ 0 then ty else splitLeft pr yr ps (tp - payoutPur pr yr p tp ty) (ty - payoutPay pr yr p tp ty)

/-- the payment `trunc(c · yr) + 1` of a provider that has collateral; a provider without collateral pays nothing -/
def succPay (yr : Dec) (p : Provider) : Int := if p.collateral = 0 then 0 else truncShare yr p.collateral + 1

/-- the sum of the payments `trunc(c · yr) + 1` over the providers that have collateral -/
def succSum (yr : Dec) (ps : List Provider) : Int := sumI (succPay yr) ps

theorem sumI_cons' {α} (f : α → Int) (x : α) (l : List α) : sumI f (x :: l) = f x + sumI f l := by
  simp [sumI]

theorem succSum_nil (yr : Dec) : succSum yr [] = 0 := rfl
theorem succSum_cons (yr : Dec) (p : Provider) (ps : List Provider) :
    succSum yr (p :: ps) = succPay yr p + succSum yr ps := sumI_cons' _ _ _

theorem truncShare_eq (r : Dec) (c : Int) : truncShare r c = Int.tdiv (c * r.raw) Dec.prec :=
  Shentu.Shield.Limit.trunc_mul_ofInt c r

/-! ## `splitLeft` is what the model's loop leaves -/

theorem reimburseLoop_left (e : Env) (pr yr : Dec) (ps : List Provider) :
    ∀ (tp ty : Int) (l : Ledger) (s : State) (left : Int) (l' : Ledger) (s' : State),
      reimburseLoop e pr yr ps tp ty l s = .ok (left, l', s') → left = splitLeft pr yr ps tp ty := by
  induction ps with
  | nil =>
    intro tp ty l s left l' s' h
    unfold reimburseLoop at h
    injection h with h; injection h with h1 h
    unfold splitLeft; exact h1.symm
  | cons p ps ih =>
    intro tp ty l s left l' s' h
    rw [reimburseLoop_cons] at h
    unfold splitLeft
    by_cases hty : ty ≤ 0
    · rw [if_pos hty] at h ⊢
      injection h with h; injection h with h1 h
      exact h1.symm
    · rw [if_neg hty] at h ⊢
      cases h1 : updateProviderForPayout s p.addr (payoutPur pr yr p tp ty) (payoutPay pr yr p tp ty) with
      | error x => rw [h1] at h; cases h
      | ok s1 =>
        rw [h1] at h
        dsimp only at h
        cases h2 : stakingChanged e s1 p.addr with
        | error x => rw [h2] at h; cases h
        | ok s2 =>
          rw [h2] at h
          exact ih _ _ _ _ _ _ _ h

/-! ## two spare units make the schedule feasible -/

theorem feasible_of_nonpos (pr yr : Dec) (ps : List Provider) (tp ty : Int) (h : ty ≤ 0) :
    Halt.feasible pr yr ps tp ty = true := by
  cases ps with
  | nil => unfold Halt.feasible; simpa using h
  | cons p ps => unfold Halt.feasible; simp [h]

theorem truncShare_zero (r : Dec) : truncShare r 0 = 0 := by
  rw [truncShare_eq]; simp

/-- a provider's share of the covered shield never exceeds what is left of it -/
theorem payoutPur_le (pr yr : Dec) (p : Provider) (tp ty : Int) : payoutPur pr yr p tp ty ≤ tp := by
  unfold payoutPur
  dsimp only
  split
  · rename_i h; simp only [Bool.and_eq_true, decide_eq_true_eq] at h; omega
  · omega

/-- a provider without collateral is asked for nothing and pays nothing -/
theorem step_of_zero (pr yr : Dec) (p : Provider) (tp ty : Int) (hc : p.collateral = 0) (htp : 0 ≤ tp) (hty : 0 < ty) :
    payoutPur pr yr p tp ty = 0 ∧ payoutPay pr yr p tp ty = 0 := by
  unfold payoutPay payoutPur
  dsimp only
  have h1 := truncShare_zero pr
  have h2 := truncShare_zero yr
  unfold truncShare at h1 h2
  rw [hc, h1, h2]
  repeat' split
  all_goals
    simp only [Bool.and_eq_true, decide_eq_true_eq, not_and, Int.not_lt] at *
    omega

/-- one provider with two spare units: its two shares fit, and it either finishes the payment or pays
    `trunc(c · yr) + 1` -/
theorem step_of_spareTwo (pr yr : Dec) (p : Provider) (tp ty : Int) (hs : SpareTwo pr yr p) :
    payoutPur pr yr p tp ty + payoutPay pr yr p tp ty ≤ p.collateral ∧
    (payoutPay pr yr p tp ty = ty ∨ payoutPay pr yr p tp ty = truncShare yr p.collateral + 1) := by
  unfold SpareTwo truncShare at hs
  unfold truncShare
  unfold payoutPay payoutPur
  dsimp only
  generalize Dec.truncateInt (Dec.mul (Dec.ofInt p.collateral) pr) = x at hs ⊢
  generalize Dec.truncateInt (Dec.mul (Dec.ofInt p.collateral) yr) = y at hs ⊢
  repeat' split
  all_goals
    simp only [Bool.and_eq_true, decide_eq_true_eq, not_and, Int.not_lt] at *
    omega

/-- **two spare units make the schedule feasible**: when every provider that has collateral keeps two spare units and
    the payments `trunc(c · yr) + 1` of these providers reach what is to be paid, the schedule fits and pays in full -/
theorem feasible_of_spareTwo (pr yr : Dec) (ps : List Provider) :
    ∀ (tp ty : Int), 0 ≤ tp → (∀ p ∈ ps, p.collateral = 0 ∨ SpareTwo pr yr p) → ty ≤ succSum yr ps →
      Halt.feasible pr yr ps tp ty = true := by
  induction ps with
  | nil =>
    intro tp ty _ _ h
    rw [succSum_nil] at h
    exact feasible_of_nonpos _ _ _ _ _ h
  | cons p ps ih =>
    intro tp ty htp hsp h
    by_cases hty : ty ≤ 0
    · exact feasible_of_nonpos _ _ _ _ _ hty
    · rw [succSum_cons] at h
      have hpur := payoutPur_le pr yr p tp ty
      have hrest := fun q hq => hsp q (List.mem_cons_of_mem _ hq)
      unfold Halt.feasible
      simp only [Bool.or_eq_true, Bool.and_eq_true, decide_eq_true_eq]
      rcases hsp p List.mem_cons_self with hc | hs
      · obtain ⟨h1, h2⟩ := step_of_zero pr yr p tp ty hc htp (by omega)
        have h3 : succPay yr p = 0 := by unfold succPay; rw [if_pos hc]
        refine Or.inr ⟨by omega, ?_⟩
        exact ih _ _ (by omega) hrest (by omega)
      · obtain ⟨hfit, hpay⟩ := step_of_spareTwo pr yr p tp ty hs
        refine Or.inr ⟨hfit, ?_⟩
        rcases hpay with hp | hp
        · exact feasible_of_nonpos _ _ _ _ _ (by omega)
        · have h3 : succPay yr p ≤ truncShare yr p.collateral + 1 := by
            unfold succPay
            split
            · rename_i hc; rw [hc, truncShare_zero]; omega
            · omega
          exact ih _ _ (by omega) hrest (by omega)

/-! ## the payments `trunc(c · yr) + 1` reach the loss -/

theorem prec_pos : (0 : Int) < Dec.prec := by decide

theorem lt_tdiv_succ_mul (x d : Int) (hx : 0 ≤ x) (hd : 0 < d) : x < (Int.tdiv x d + 1) * d := by
  rw [Int.tdiv_eq_ediv_of_nonneg hx]
  exact Int.lt_ediv_add_one_mul_self x hd

theorem tdiv_mul_le (x d : Int) (hx : 0 ≤ x) (hd : 0 < d) : Int.tdiv x d * d ≤ x := by
  rw [Int.tdiv_eq_ediv_of_nonneg hx]
  exact Int.ediv_mul_le x (Int.ne_of_gt hd)

/-- every payment `trunc(c · y) + 1` is strictly more than the exact share `c · y`; so the payments exceed the exact
    shares of the whole collateral as soon as there is collateral -/
theorem succSum_gt (yr : Dec) (hy : 0 ≤ yr.raw) (ps : List Provider) (hc : ∀ p ∈ ps, 0 ≤ p.collateral) :
    sumI (·.collateral) ps * yr.raw ≤ succSum yr ps * Dec.prec ∧
    (0 < sumI (·.collateral) ps → sumI (·.collateral) ps * yr.raw + 1 ≤ succSum yr ps * Dec.prec) := by
  induction ps with
  | nil => simp [succSum, sumI]
  | cons p ps ih =>
    obtain ⟨ih1, ih2⟩ := ih (fun q hq => hc q (List.mem_cons_of_mem _ hq))
    have hcp := hc p List.mem_cons_self
    have hrest : 0 ≤ sumI (·.collateral) ps :=
      Shentu.Shield.Coll.sumI_nonneg _ _ (fun x hx => hc x (List.mem_cons_of_mem _ hx))
    rw [succSum_cons, sumI_cons']
    unfold succPay
    by_cases h0 : p.collateral = 0
    · rw [if_pos h0, h0]
      simp only [zero_add]
      exact ⟨ih1, ih2⟩
    · rw [if_neg h0, truncShare_eq]
      have h1 := lt_tdiv_succ_mul (p.collateral * yr.raw) Dec.prec (Int.mul_nonneg hcp hy) prec_pos
      generalize Int.tdiv (p.collateral * yr.raw) Dec.prec = t at h1 ⊢
      have key : (p.collateral + sumI (·.collateral) ps) * yr.raw + 1 ≤ (t + 1 + succSum yr ps) * Dec.prec := by
        nlinarith [h1, ih1]
      exact ⟨by omega, fun _ => key⟩

/-- the rounded quotient `a / T` at 18 digits, as an integer inequality: `T · y · 2P > 2aP² − 2T − TP` -/
theorem quo_raw_lower (a T : Int) (ha : 0 ≤ a) (hT : 0 < T) :
    2 * a * Dec.prec * Dec.prec - 2 * T - T * Dec.prec <
      2 * Dec.prec * (T * (Dec.quo (Dec.ofInt a) (Dec.ofInt T)).raw) := by
  have hP := prec_pos
  have hTP : 0 < T * Dec.prec := Int.mul_pos hT hP
  have hx : 0 ≤ a * Dec.prec * Dec.prec * Dec.prec := by positivity
  show _ < 2 * Dec.prec * (T * Dec.chopRound (Int.tdiv (a * Dec.prec * Dec.prec * Dec.prec) (T * Dec.prec)))
  have h3 := lt_tdiv_succ_mul _ _ hx hTP
  have hz0 : 0 ≤ Int.tdiv (a * Dec.prec * Dec.prec * Dec.prec) (T * Dec.prec) := by
    rw [Int.tdiv_eq_ediv_of_nonneg hx]; exact Int.ediv_nonneg hx (Int.le_of_lt hTP)
  generalize Int.tdiv (a * Dec.prec * Dec.prec * Dec.prec) (T * Dec.prec) = z at h3 hz0 ⊢
  have h2 := (Shentu.Payout.chopRound_bounds z hz0).1
  generalize Dec.chopRound z = y at h2 ⊢
  have e3 : a * Dec.prec * Dec.prec < (z + 1) * T := by
    have : (a * Dec.prec * Dec.prec) * Dec.prec < ((z + 1) * T) * Dec.prec := by linarith
    exact lt_of_mul_lt_mul_right this (Int.le_of_lt hP)
  have e2 : T * (2 * z - Dec.prec) ≤ T * (2 * (y * Dec.prec)) := mul_le_mul_of_nonneg_left h2 (Int.le_of_lt hT)
  linarith

/-- the rounded quotient `a / T` at 18 digits from above: `T · y · 2P ≤ 2aP² + TP` -/
theorem quo_raw_upper (a T : Int) (ha : 0 ≤ a) (hT : 0 < T) :
    2 * Dec.prec * (T * (Dec.quo (Dec.ofInt a) (Dec.ofInt T)).raw) ≤ 2 * a * Dec.prec * Dec.prec + T * Dec.prec := by
  have hP := prec_pos
  have hTP : 0 < T * Dec.prec := Int.mul_pos hT hP
  have hx : 0 ≤ a * Dec.prec * Dec.prec * Dec.prec := by positivity
  show 2 * Dec.prec * (T * Dec.chopRound (Int.tdiv (a * Dec.prec * Dec.prec * Dec.prec) (T * Dec.prec))) ≤ _
  have h3 := tdiv_mul_le _ _ hx hTP
  have hz0 : 0 ≤ Int.tdiv (a * Dec.prec * Dec.prec * Dec.prec) (T * Dec.prec) := by
    rw [Int.tdiv_eq_ediv_of_nonneg hx]; exact Int.ediv_nonneg hx (Int.le_of_lt hTP)
  generalize Int.tdiv (a * Dec.prec * Dec.prec * Dec.prec) (T * Dec.prec) = z at h3 hz0 ⊢
  have h2 := (Shentu.Payout.chopRound_bounds z hz0).2
  generalize Dec.chopRound z = y at h2 ⊢
  have e3 : z * T ≤ a * Dec.prec * Dec.prec := by
    have : (z * T) * Dec.prec ≤ (a * Dec.prec * Dec.prec) * Dec.prec := by linarith
    exact le_of_mul_le_mul_right this hP
  have e2 : T * (2 * (y * Dec.prec)) ≤ T * (2 * z + Dec.prec) := mul_le_mul_of_nonneg_left h2 (Int.le_of_lt hT)
  linarith

/-- **the payments reach the loss**: when every provider that does not finish the payment pays `trunc(c · yr) + 1`,
    the payments add up to at least the loss (total collateral below 10^18) -/
theorem sum_trunc_succ_ge (a T : Int) (ps : List Provider) (hT : 0 < T) (hTP : T < Dec.prec) (ha : 0 ≤ a)
    (hc : ∀ p ∈ ps, 0 ≤ p.collateral) (hsum : T = sumI (·.collateral) ps) :
    a ≤ succSum (Dec.quo (Dec.ofInt a) (Dec.ofInt T)) ps := by
  have hy := Dec.quo_ofInt_nonneg a T ha hT
  have h1 := (succSum_gt _ hy ps hc).2 (by omega)
  rw [← hsum] at h1
  have h2 := quo_raw_lower a T ha hT
  generalize (Dec.quo (Dec.ofInt a) (Dec.ofInt T)).raw = y at h1 h2 hy
  generalize succSum _ ps = S at h1 ⊢
  by_contra hlt
  have hS : S ≤ a - 1 := by omega
  have e1 : S * Dec.prec ≤ (a - 1) * Dec.prec := mul_le_mul_of_nonneg_right hS (Int.le_of_lt prec_pos)
  simp only [Dec.prec] at *
  nlinarith

/-! ## a share of the unused collateral of at least two units leaves two spare units -/

theorem spareTwo_of_share (p : Provider) (T ts a : Int) (hc : 0 ≤ p.collateral) (hcT : p.collateral ≤ T) (hT : 0 < T)
    (hTP : T < Dec.prec) (hts : 0 ≤ ts) (ha : 0 ≤ a) (hsh : 2 * T ≤ p.collateral * (T - ts - a)) :
    SpareTwo (Dec.quo (Dec.ofInt ts) (Dec.ofInt T)) (Dec.quo (Dec.ofInt a) (Dec.ofInt T)) p := by
  have hy1 := Dec.quo_ofInt_nonneg ts T hts hT
  have hy2 := Dec.quo_ofInt_nonneg a T ha hT
  have u1 := quo_raw_upper ts T hts hT
  have u2 := quo_raw_upper a T ha hT
  unfold SpareTwo
  rw [truncShare_eq, truncShare_eq]
  generalize (Dec.quo (Dec.ofInt ts) (Dec.ofInt T)).raw = y1 at hy1 u1 ⊢
  generalize (Dec.quo (Dec.ofInt a) (Dec.ofInt T)).raw = y2 at hy2 u2 ⊢
  have g1 := tdiv_mul_le (p.collateral * y1) Dec.prec (Int.mul_nonneg hc hy1) prec_pos
  have g2 := tdiv_mul_le (p.collateral * y2) Dec.prec (Int.mul_nonneg hc hy2) prec_pos
  generalize Int.tdiv (p.collateral * y1) Dec.prec = x at g1 ⊢
  generalize Int.tdiv (p.collateral * y2) Dec.prec = w at g2 ⊢
  generalize p.collateral = c at *
  by_contra hlt
  have hxw : c - 1 ≤ x + w := by omega
  have n1 : (c - 1) * Dec.prec ≤ c * y1 + c * y2 := by
    have : (c - 1) * Dec.prec ≤ (x + w) * Dec.prec := mul_le_mul_of_nonneg_right hxw (Int.le_of_lt prec_pos)
    linarith
  have n2 : T * ((c - 1) * Dec.prec) ≤ T * (c * y1 + c * y2) := mul_le_mul_of_nonneg_left n1 (Int.le_of_lt hT)
  have v1 := mul_le_mul_of_nonneg_left u1 hc
  have v2 := mul_le_mul_of_nonneg_left u2 hc
  have hcP : c * T < Dec.prec * T := by
    have : c < Dec.prec := by omega
    exact mul_lt_mul_of_pos_right this hT
  simp only [Dec.prec] at *
  nlinarith

/-! ## from the books to the schedule -/

theorem mem_le_sumI (ps : List Provider) (hc : ∀ p ∈ ps, 0 ≤ p.collateral) :
    ∀ p ∈ ps, p.collateral ≤ sumI (·.collateral) ps := by
  induction ps with
  | nil => intro p hp; cases hp
  | cons q qs ih =>
    intro p hp
    rw [sumI_cons']
    have hq := hc q List.mem_cons_self
    have hqs : 0 ≤ sumI (·.collateral) qs :=
      Shentu.Shield.Coll.sumI_nonneg _ _ (fun x hx => hc x (List.mem_cons_of_mem _ hx))
    rcases List.mem_cons.mp hp with h | h
    · subst h; omega
    · have := ih (fun x hx => hc x (List.mem_cons_of_mem _ hx)) p h
      omega

/-- consistent books, collateral below 10^18 and two spare units for every provider: the schedule is feasible -/
theorem feasible_of_books (s : State) (amount : Int) (hi : Shentu.Shield.Coll.CollInv s) (hT : 0 < s.totalCollateral)
    (hTP : s.totalCollateral < Dec.prec) (hamt : 0 ≤ amount)
    (hsh : 0 ≤ s.totalShield)
    (hsp : ∀ p ∈ s.providers, p.collateral = 0 ∨ SpareTwo (Dec.quo (Dec.ofInt s.totalShield) (Dec.ofInt s.totalCollateral))
      (Dec.quo (Dec.ofInt amount) (Dec.ofInt s.totalCollateral)) p) :
    Halt.feasible (Dec.quo (Dec.ofInt s.totalShield) (Dec.ofInt s.totalCollateral))
      (Dec.quo (Dec.ofInt amount) (Dec.ofInt s.totalCollateral)) s.providers s.totalShield amount = true :=
  feasible_of_spareTwo _ _ _ _ _ hsh hsp
    (sum_trunc_succ_ge amount s.totalCollateral s.providers hT hTP hamt (fun p hp => (hi.provNonneg p hp).1) hi.coll)

/-- a share of the unused collateral of at least two units for every provider gives every provider two spare units -/
theorem spareTwo_of_books (s : State) (amount : Int) (hi : Shentu.Shield.Coll.CollInv s) (hT : 0 < s.totalCollateral)
    (hTP : s.totalCollateral < Dec.prec) (hsh : 0 ≤ s.totalShield) (hamt : 0 ≤ amount)
    (hshare : ∀ p ∈ s.providers, p.collateral = 0 ∨
      2 * s.totalCollateral ≤ p.collateral * (s.totalCollateral - s.totalShield - amount)) :
    ∀ p ∈ s.providers, p.collateral = 0 ∨ SpareTwo (Dec.quo (Dec.ofInt s.totalShield) (Dec.ofInt s.totalCollateral))
      (Dec.quo (Dec.ofInt amount) (Dec.ofInt s.totalCollateral)) p := by
  intro p hp
  have hc : ∀ q ∈ s.providers, 0 ≤ q.collateral := fun q hq => (hi.provNonneg q hq).1
  have hle := mem_le_sumI s.providers hc p hp
  rw [← hi.coll] at hle
  rcases hshare p hp with h0 | h2
  · exact Or.inl h0
  · exact Or.inr (spareTwo_of_share p _ _ _ (hc p hp) hle hT hTP hsh hamt h2)

theorem exists_collateral_of_sumI_pos (ps : List Provider) (h : 0 < sumI (·.collateral) ps) :
    ∃ p ∈ ps, p.collateral ≠ 0 := by
  induction ps with
  | nil => simp [sumI] at h
  | cons q qs ih =>
    rw [sumI_cons'] at h
    by_cases hq : q.collateral = 0
    · obtain ⟨p, hp, hne⟩ := ih (by omega)
      exact ⟨p, List.mem_cons_of_mem _ hp, hne⟩
    · exact ⟨q, List.mem_cons_self, hq⟩

/-- the hypothesis on the shares of the unused collateral implies that the loss is within the collateral -/
theorem amount_le_of_share (s : State) (amount : Int) (hi : Shentu.Shield.Coll.CollInv s) (hT : 0 < s.totalCollateral)
    (hshare : ∀ p ∈ s.providers, p.collateral = 0 ∨
      2 * s.totalCollateral ≤ p.collateral * (s.totalCollateral - s.totalShield - amount)) :
    s.totalShield + amount ≤ s.totalCollateral := by
  obtain ⟨p, hp, hne⟩ := exists_collateral_of_sumI_pos s.providers (by rw [← hi.coll]; exact hT)
  have hc := (hi.provNonneg p hp).1
  rcases hshare p hp with h0 | h2
  · exact absurd h0 hne
  · by_contra hgt
    have : p.collateral * (s.totalCollateral - s.totalShield - amount) ≤ 0 :=
      Int.mul_nonpos_of_nonneg_of_nonpos hc (by omega)
    omega

end Shentu.ReimbSplit
