import Shentu.Proofs.C19vmKeeps
/-
  Helper lemmas for `Shentu/Props/C19vm.lean`, part 2: an account without code only gains while the interpreter runs.

  `Passive a b w`: the address `a` has an account in the cache `w`, the account has no code and holds at least `b` coins.
  Every place of the interpreter model that writes the accounts keeps `Passive a b` in a frame that does not execute in
  `a`'s name (`env.callee ≠ a`), unless the frame has an error in its sink (`KeepsE`, `C19vmKeeps.lean`):
   * SSTORE writes the executing account;
   * SELFDESTRUCT creates / credits the beneficiary and deletes the executing account;
   * a CALL creates the missing target (an address that has no account, so not `a`) and adopts a successful callee's cache;
     the callee executes in the name of the target (CALL, STATICCALL: if that is `a`, the code is empty and nothing runs) or of
     the current account (CALLCODE, DELEGATECALL), and its value is taken from the current account;
   * CREATE runs the constructor in the name of the new address; if that address is `a` (which has an account) the creator's
     frame has DuplicateAddress in its sink before the constructor starts.
-/
namespace Shentu.LockVmH
open Shentu Shentu.EVM

/-- `a` has an account without code that holds at least `b` coins -/
def Passive (a b : Nat) (w : World) : Prop := ∃ acc, w.get a = some acc ∧ acc.code.size = 0 ∧ b ≤ acc.balance

theorem passive_mono {a b b' : Nat} {w : World} (h : Passive a b w) (hb : b' ≤ b) : Passive a b' w := by
  obtain ⟨acc, h1, h2, h3⟩ := h
  exact ⟨acc, h1, h2, by omega⟩

theorem passive_balOf {a b : Nat} {w : World} (h : Passive a b w) : b ≤ balOf w a := by
  obtain ⟨acc, h1, _, h3⟩ := h
  rw [balOf_of_get_some h1]; exact h3

/-- writing the record of another address -/
theorem passive_put_other {a b : Nat} {w : World} (acc' : Account) (h : Passive a b w) (hne : acc'.addr ≠ a) :
    Passive a b (w.put acc') := by
  obtain ⟨acc, h1, h2, h3⟩ := h
  refine ⟨acc, ?_, h2, h3⟩
  rw [get_put]
  have : ¬ a = acc'.addr := fun e => hne e.symm
  simp [this, h1]

/-- rewriting a record that is there, with the same code: `a` keeps its bound if the new balance respects it -/
theorem passive_put_upd {a b b' x : Nat} {w : World} {acc0 : Account} (acc' : Account) (h : Passive a b w)
    (h0 : w.get x = some acc0) (haddr : acc'.addr = acc0.addr) (hcode : acc'.code = acc0.code)
    (hb : b' ≤ b) (hbal : x = a → b' ≤ acc'.balance) : Passive a b' (w.put acc') := by
  by_cases hx : x = a
  · subst hx
    obtain ⟨acc, h1, h2, _⟩ := h
    rw [h0] at h1
    cases h1
    refine ⟨acc', ?_, by rw [hcode]; exact h2, hbal rfl⟩
    rw [get_put, haddr, get_addr h0]
    simp
  · refine passive_put_other acc' (passive_mono h hb) ?_
    rw [haddr, get_addr h0]; exact hx

theorem passive_create {a b x : Nat} {w : World} (h : Passive a b w) (hx : w.get x = none) : Passive a b (w.put { addr := x }) := by
  refine passive_put_other _ h ?_
  intro e
  obtain ⟨acc, h1, _, _⟩ := h
  have e' : x = a := e
  rw [e', h1] at hx
  cases hx

theorem passive_del {a b x : Nat} {w : World} (h : Passive a b w) (hx : x ≠ a) : Passive a b (w.del x) := by
  obtain ⟨acc, h1, h2, h3⟩ := h
  refine ⟨acc, ?_, h2, h3⟩
  rw [get_del]
  have : ¬ a = x := fun e => hx e.symm
  simp [this, h1]

theorem passive_sstore {a b : Nat} {w : World} (x k v : Nat) (h : Passive a b w) (hx : x ≠ a) : Passive a b (w.sstore x k v) := by
  unfold World.sstore
  split
  · rename_i acc hacc
    refine passive_put_other _ h ?_
    show acc.addr ≠ a
    rw [get_addr hacc]; exact hx
  · exact h

/-- the value transfer that opens a frame: `a` loses the value if it is the payer, nothing otherwise -/
theorem passive_transfer {a b frm to v : Nat} {w w' : World} (h : Passive a b w) (ht : transfer w frm to v = .ok w') :
    Passive a (b - (if frm = a then v else 0)) w' := by
  unfold transfer at ht
  split at ht
  · cases ht
  · split at ht
    · cases ht; exact passive_mono h (Nat.sub_le _ _)
    · split at ht
      · cases ht
      · rename_i f hf
        split at ht
        · cases ht
        · rename_i hge
          simp only at ht
          split at ht
          · cases ht
          · rename_i t htg
            split at ht
            · cases ht
            · cases ht
              have h1 : Passive a (b - (if frm = a then v else 0)) (w.put { f with balance := f.balance - v }) := by
                refine passive_put_upd _ h hf rfl rfl (Nat.sub_le _ _) ?_
                intro e
                obtain ⟨acc, g1, _, g3⟩ := h
                rw [e] at hf
                rw [hf] at g1
                cases g1
                simp only [e, if_true]
                show b - v ≤ f.balance - v
                omega
              refine passive_put_upd _ h1 htg rfl rfl (Nat.le_refl _) ?_
              intro e
              obtain ⟨acc, g1, _, g3⟩ := h1
              rw [e] at htg
              rw [htg] at g1
              cases g1
              show _ ≤ t.balance + v
              omega

theorem passive_transfer_other {a b frm to v : Nat} {w w' : World} (h : Passive a b w) (hne : frm ≠ a)
    (ht : transfer w frm to v = .ok w') : Passive a b w' := by
  have := passive_transfer h ht
  simpa [hne] using this

-- ---------------------------------------------------------------- what a callee frame is trusted with

/-- a callee frame that does not execute in `a`'s name (or has no code to execute) and does not take its value from `a`:
    started on accounts with `Passive a b`, it hands back — when it reports success — accounts with `Passive a b` -/
def ChildOK (a b : Nat) (child : ChildFn) : Prop :=
  ∀ (env : Env) (g : Nat) (w : World) (rm : List Nat), (env.callee ≠ a ∨ env.code.size = 0) → (env.callType ≤ 1 → env.caller ≠ a) →
    Passive a b w → (child env g w rm).status = 0 → (child env g w rm).err = none → Passive a b (child env g w rm).world

macro_rules | `(tactic| pk_leaf) => `(tactic| with_reducible refine KeepsE_forIn_range _ _ _ (fun _ _ => ?_))

-- ---------------------------------------------------------------- SELFDESTRUCT

theorem passive_create' {a b x : Nat} {w : World} (h : Passive a b w) (hx : (w.get x).isNone = true) :
    Passive a b (w.put { addr := x }) := passive_create h (by simpa using hx)

/-- crediting an account -/
theorem passive_credit {a b x : Nat} {w : World} {r : Account} (h : Passive a b w) (hr : w.get x = some r) (k : Nat) :
    Passive a b (w.put { r with balance := r.balance + k }) := by
  refine passive_put_upd _ h hr rfl rfl (Nat.le_refl _) ?_
  intro e
  obtain ⟨acc, g1, _, g3⟩ := h
  rw [e] at hr
  rw [hr] at g1
  cases g1
  show b ≤ r.balance + k
  omega

-- piece by piece (the join points of `selfdestruct` written out: `VmConserve.sdExplicit`)

theorem pk_sdEnd {a b : Nat} : KeepsE (Passive a b) sdEnd := KeepsE_pure _

theorem pk_sdDelete {a b : Nat} (env : Env) (hcal : env.callee ≠ a) : KeepsE (Passive a b) (sdDelete env) := by
  unfold sdDelete sdEnd
  pkeeps
  exact passive_del (by assumption) hcal

theorem pk_sdCredit {a b : Nat} (env : Env) (hcal : env.callee ≠ a) (receiver : Nat) (s : Frame) (hs : Passive a b s.world) :
    KeepsE (Passive a b) (sdCredit env receiver s) := by
  have hd := pk_sdDelete (b := b) env hcal
  unfold sdCredit sdEnd
  pkeeps
  all_goals first
    | assumption
    | exact passive_credit hs (by assumption) _

theorem pk_sdMove {a b : Nat} (env : Env) (hcal : env.callee ≠ a) (receiver : Nat) : KeepsE (Passive a b) (sdMove env receiver) := by
  unfold sdMove
  refine KeepsE_getF_bind (fun s hs => ?_)
  have := pk_sdCredit env hcal receiver s hs
  pkeeps
  all_goals assumption

theorem pk_sdCreate {a b : Nat} (env : Env) (hcal : env.callee ≠ a) (receiver : Nat) (s : Frame) (hs : Passive a b s.world) :
    KeepsE (Passive a b) (sdCreate env receiver s) := by
  have hm := pk_sdMove (b := b) env hcal receiver
  unfold sdCreate sdEnd
  pkeeps
  all_goals first
    | assumption
    | exact passive_create' hs (by assumption)

theorem pk_selfdestruct {a b : Nat} (env : Env) (hcal : env.callee ≠ a) : KeepsE (Passive a b) (selfdestruct env) := by
  rw [selfdestruct_eq]
  unfold sdExplicit
  refine KeepsE_bind pk_pop (fun x => ?_)
  refine KeepsE_bind (pk_useGas _) (fun _ => ?_)
  refine KeepsE_getF_bind (fun s hs => ?_)
  have := pk_sdCreate env hcal (addrOf x) s hs
  pkeeps
  all_goals assumption

-- ---------------------------------------------------------------- the call family

/-- the frame a CALL-family instruction starts does not execute in `a`'s name unless `a`'s (empty) code is what it runs -/
theorem good_callee {a b : Nat} {w : World} (h : Passive a b w) (self target : Nat) (hself : self ≠ a) (c : Bool) :
    (if c = true then target else self) ≠ a ∨ ((Option.map (fun (x : Account) => x.code) (w.get target)).getD ByteArray.empty).size = 0 := by
  by_cases ht : target = a
  · right
    obtain ⟨acc, h1, h2, _⟩ := h
    rw [ht, h1]
    exact h2
  · left
    split
    · exact ht
    · exact hself

/-- … and takes its value from the current account -/
theorem good_caller {a : Nat} (op caller self : Nat) (hself : self ≠ a) :
    (if (op == 0xf1) = true then 0 else if (op == 0xf2) = true then 1 else if (op == 0xf4) = true then 2 else 3) ≤ 1 →
    (if (op == 0xf4) = true then caller else self) ≠ a := by
  intro h
  by_cases h1 : op = 0xf1
  · subst h1; simpa using hself
  · by_cases h2 : op = 0xf2
    · subst h2; simpa using hself
    · exfalso
      simp only [beq_iff_eq, h1, h2, if_false] at h
      split at h <;> omega

theorem passive_settle {a b : Nat} {child : ChildFn} (hc : ChildOK a b child) (ro : Bool) (w : World) (d : Bool) (rm : List Nat)
    (cenv : Env) (g : Nat) (w0 : World) (rm0 : List Nat) (hg : cenv.callee ≠ a ∨ cenv.code.size = 0)
    (ht : cenv.callType ≤ 1 → cenv.caller ≠ a)
    (hw : Passive a b w) (hw0 : Passive a b w0) (hst : ¬ ((child cenv g w0 rm0).status != 0) = true) :
    Passive a b (settle ro w d rm (child cenv g w0 rm0)).world := by
  rcases settle_world' ro w d rm (child cenv g w0 rm0) with h | ⟨h, he⟩
  · rw [h]; exact hw
  · rw [h]
    exact hc cenv g w0 rm0 hg ht hw0 (by simpa using hst) he

theorem pk_callFromSite {a b : Nat} {child : ChildFn} (hc : ChildOK a b child) (env : Env) (hcal : env.callee ≠ a)
    (op gasLimit target value : Nat) (input : ByteArray) :
    KeepsE (Passive a b) (callFromSite child env op gasLimit target value input) := by
  unfold callFromSite
  pkeeps
  all_goals try (apply passive_create <;> assumption)
  all_goals
      (refine passive_settle hc _ _ _ _ _ _ _ _ ?_ ?_ ?_ ?_ ?_
       · refine good_callee (b := b) ?_ _ _ hcal _
         first | assumption | (apply passive_create <;> assumption)
       · exact good_caller _ _ _ hcal
       · assumption
       · first | assumption | (apply passive_create <;> assumption)
       · assumption)

section run
variable {a b : Nat} {child : ChildFn}

macro_rules | `(tactic| pk_leaf) => `(tactic| (with_reducible apply pk_callFromSite) <;> assumption)

theorem pk_callRest (hc : ChildOK a b child) (env : Env) (hcal : env.callee ≠ a) (op g : Nat) :
    KeepsE (Passive a b) (callRest child env op g) := by
  unfold callRest
  pkeeps

macro_rules | `(tactic| pk_leaf) => `(tactic| (with_reducible apply pk_callRest) <;> assumption)

-- ---------------------------------------------------------------- CREATE

theorem passive_childWorld {w : World} {x : Nat} (hw : Passive a b w) : Passive a b (createWorld w x) := by
  unfold createWorld
  split
  · exact hw
  · rename_i h
    apply passive_create hw
    cases hg : w.get x with
    | none => rfl
    | some y => simp [hg] at h

/-- storing the deployed code in the new account: another address than `a` -/
theorem passive_initChildCode {w : World} (hw : Passive a b w) (creator addr : Nat) (haddr : addr ≠ a) (c : ByteArray) :
    Passive a b (initChildCode creator addr c w) := by
  unfold initChildCode
  split
  · exact hw
  · rename_i acc hacc
    refine passive_put_other _ hw ?_
    show acc.addr ≠ a
    rw [get_addr hacc]; exact haddr

theorem passive_settleCreate (q : Quirks) (ro : Bool) (creator addr : Nat) (haddr : addr ≠ a) (w : World) (d : Bool) (rm : List Nat)
    (r : CallRes) (hw : Passive a b w) (hr : r.err = none → Passive a b r.world) :
    Passive a b (settleCreate q ro creator addr w d rm r).world := by
  unfold settleCreate
  split
  · exact hw
  · rename_i he
    have hr' := hr he
    split
    · exact hw
    · dsimp only
      split
      · exact hw
      · dsimp only
        split
        · exact hr'
        · exact passive_initChildCode hr' _ _ haddr _

theorem pk_createAfter (env : Env) (addr : Nat) (haddr : addr ≠ a) (input : ByteArray) (r : CallRes)
    (hr : r.err = none → Passive a b r.world) : KeepsE (Passive a b) (createAfter env addr input r) := by
  unfold createAfter
  pkeeps
  all_goals exact passive_settleCreate _ _ _ _ haddr _ _ _ _ (by assumption) hr

/-- a creation at another address than `a` -/
theorem pk_createRun_other (hc : ChildOK a b child) (env : Env) (hcal : env.callee ≠ a) (v addr : Nat) (haddr : addr ≠ a)
    (input : ByteArray) : KeepsE (Passive a b) (createRun child env v addr input) := by
  unfold createRun
  pkeeps
  all_goals
    refine pk_createAfter _ _ haddr _ _ (fun he => ?_)
    refine hc _ _ _ _ (.inl haddr) (fun _ => hcal) (passive_childWorld (by assumption)) ?_ he
    simp_all

/-- a creation at `a` itself: `a` has an account, so DuplicateAddress is in the creator's sink before the constructor starts -/
theorem pk_createRun_self (env : Env) (v : Nat) (input : ByteArray) :
    KeepsE (Passive a b) (createRun child env v a input) := by
  unfold createRun
  refine KeepsE_getF_bind (fun s hs => ?_)
  have ht : (s.world.get a).isSome = true := by
    obtain ⟨acc, h1, _, _⟩ := hs
    rw [h1]; rfl
  simp only [ht, if_true]
  exact KeepsE_dead _ _

theorem pk_createRun (hc : ChildOK a b child) (env : Env) (hcal : env.callee ≠ a) (v addr : Nat)
    (input : ByteArray) : KeepsE (Passive a b) (createRun child env v addr input) := by
  by_cases haddr : addr = a
  · subst haddr; exact pk_createRun_self env v input
  · exact pk_createRun_other hc env hcal v addr haddr input

macro_rules | `(tactic| pk_leaf) => `(tactic| (with_reducible apply pk_createRun) <;> assumption)

theorem pk_createRest (hc : ChildOK a b child) (env : Env) (hcal : env.callee ≠ a) (op v : Nat) :
    KeepsE (Passive a b) (createRest child env op v) := by
  unfold createRest
  pkeeps

macro_rules | `(tactic| pk_leaf) => `(tactic| (with_reducible apply pk_createRest) <;> assumption)

theorem pk_freeRest (hc : ChildOK a b child) (env : Env) (hcal : env.callee ≠ a) (op x : Nat) :
    KeepsE (Passive a b) (freeRest child env op x) := by
  unfold freeRest
  pkeeps
  apply passive_sstore <;> assumption

macro_rules | `(tactic| pk_leaf) => `(tactic| (with_reducible apply pk_freeRest) <;> assumption)

theorem pk_execFree (hc : ChildOK a b child) (env : Env) (hcal : env.callee ≠ a) (op : Nat) :
    KeepsE (Passive a b) (execFree child env op) := by
  unfold execFree
  pkeeps

theorem pk_haltBody (env : Env) (hcal : env.callee ≠ a) (op : Nat) : KeepsE (Passive a b) (haltBody env op) := by
  unfold haltBody
  refine KeepsE_ite (fun _ => pk_selfdestruct env hcal) (fun _ => ?_)
  pkeeps

theorem pk_execHalt (env : Env) (hcal : env.callee ≠ a) (op : Nat) : KeepsE (Passive a b) (execHalt env op) := by
  unfold execHalt
  exact KeepsE_bind (pk_haltBody env hcal op) (fun _ => KeepsE_pure _)

theorem pk_execRegular (hc : ChildOK a b child) (env : Env) (hcal : env.callee ≠ a) (op : Nat) :
    KeepsE (Passive a b) (execRegular child env op) := by
  unfold execRegular
  pkeeps

theorem pk_exec (hc : ChildOK a b child) (env : Env) (hcal : env.callee ≠ a) (op : Nat) :
    KeepsE (Passive a b) (exec child env op) := by
  unfold exec
  refine KeepsE_ite (fun _ => pk_execHalt env hcal op) (fun _ => ?_)
  exact KeepsE_ite (fun _ => pk_execFree hc env hcal op) (fun _ => pk_execRegular hc env hcal op)

theorem pk_stepBody (hc : ChildOK a b child) (env : Env) (hcal : env.callee ≠ a) (op : Nat) :
    KeepsE (Passive a b) (stepBody child env op) := by
  unfold stepBody
  have := pk_exec hc env hcal op
  pkeeps
  assumption

theorem pk_step (hc : ChildOK a b child) (env : Env) (hcal : env.callee ≠ a) : KeepsE (Passive a b) (step child env) := by
  intro s hs
  unfold step
  split
  · exact hs
  · split
    · exact hs
    · split
      · exact KeepsE_bind (pk_noteDev 4) (fun _ => KeepsE_pure _) s hs
      · exact pk_stepBody hc env hcal _ s hs

end run

-- ---------------------------------------------------------------- a frame that reports success has no error in its sink

/-- a property of the result and the final frame of `m >>= f` that holds of a Go panic and of every result of `f` -/
theorem bind_post {R : Option β → Frame → Prop} {m : M α} {f : α → M β} (s : Frame) (hnone : ∀ s1, R none s1)
    (hf : ∀ x s1, R (f x s1).val.1 (f x s1).val.2) : R ((m >>= f) s).val.1 ((m >>= f) s).val.2 := by
  match hr : (m s).val with
  | (none, s1) => rw [bind_val_none hr]; exact hnone s1
  | (some x, s1) => rw [bind_val_some hr]; exact hf x s1

/-- an iteration that ends the frame without error leaves no error in the sink -/
def DoneClean (r : Option Step) (s' : Frame) : Prop := ∀ ret, r = some (.done ret none) → s'.err = none

theorem doneClean_none (s1 : Frame) : DoneClean none s1 := fun _ h => by cases h

theorem finish_doneClean (c : Ctl) (s : Frame) : DoneClean (finish c s).val.1 (finish c s).val.2 := by
  cases c with
  | next => intro ret h; cases h
  | jumped => intro ret h; cases h
  | halt r =>
    intro ret h
    have h' : some (Step.done r s.err) = some (Step.done ret none) := h
    injection h' with h'
    injection h' with _ h2
  | unsupported => intro ret h; cases h

theorem stepBody_doneClean (child : ChildFn) (env : Env) (op : Nat) (s : Frame) :
    DoneClean (stepBody child env op s).val.1 (stepBody child env op s).val.2 := by
  unfold stepBody
  refine bind_post s doneClean_none (fun cm s1 => ?_)
  refine bind_post s1 doneClean_none (fun ok s2 => ?_)
  split
  · refine bind_post s2 doneClean_none (fun _ s3 => ?_)
    have hg : (getF s3).val = (some s3, s3) := rfl
    rw [bind_val_some hg]
    cases s3.err with
    | some e => intro ret h; cases h
    | none => exact bind_post s3 doneClean_none (fun c s6 => finish_doneClean c s6)
  · intro ret h; cases h

theorem step_doneClean (child : ChildFn) (env : Env) (s : Frame) :
    DoneClean (step child env s).val.1 (step child env s).val.2 := by
  unfold step
  split
  · intro ret h; cases h
  · split
    · intro ret h; cases h
    · split
      · exact bind_post s doneClean_none (fun _ s1 => fun ret h => by cases h)
      · exact stepBody_doneClean child env _ s

-- ---------------------------------------------------------------- the loop, the frame, the nesting

section run2
variable {a b : Nat} {child : ChildFn}

theorem run_passive (hc : ChildOK a b child) (env : Env) (hcal : env.callee ≠ a) (fuel : Nat) :
    ∀ s : Frame, (s.err.isSome = true ∨ Passive a b s.world) →
      ((run child env fuel s).2.err.isSome = true ∨ Passive a b (run child env fuel s).2.world) ∧
      (∀ ret, (run child env fuel s).1 = .done ret none → (run child env fuel s).2.err = none) := by
  induction fuel with
  | zero => intro s hs; exact ⟨hs, fun ret h => by cases h⟩
  | succ fuel ih =>
    intro s hs
    have h1 := pk_step hc env hcal s hs
    have h2 := step_doneClean child env s
    unfold run
    split
    · rename_i s' hi heq
      rw [heq] at h1
      exact ⟨h1, fun ret h => by cases h⟩
    · rename_i s' hi heq
      rw [heq] at h1
      exact ih s' h1
    · rename_i r e s' hi heq
      rw [heq] at h1 h2
      refine ⟨h1, fun ret h => ?_⟩
      injection h with h3 h4
      subst h4
      exact h2 r rfl
    · rename_i s' hi heq
      rw [heq] at h1
      exact ⟨h1, fun ret h => by cases h⟩

/-- the frame's own value transfer: paid by `env.caller`, which is not `a` -/
theorem passive_openFrame (env : Env) (ht : env.callType ≤ 1 → env.caller ≠ a) {w : World} (hw : Passive a b w) :
    Passive a b (openFrame env w).1 := by
  unfold openFrame
  split
  · rename_i hct
    split
    · rename_i w' h
      exact passive_transfer_other hw (ht hct) h
    · exact hw
  · exact hw

/-- … or by `a`: then `a` is down by at most the value -/
theorem passive_openFrame_top (env : Env) {w : World} (hw : Passive a b w) :
    Passive a (b - (if env.caller = a ∧ env.callType ≤ 1 then env.value else 0)) (openFrame env w).1 := by
  unfold openFrame
  by_cases hct : env.callType ≤ 1
  · rw [if_pos hct]
    cases h : transfer w env.caller env.callee env.value with
    | ok w' =>
      have := passive_transfer hw h
      by_cases hc : env.caller = a
      · simpa [hc, hct] using this
      · simpa [hc] using this
    | error e => exact passive_mono hw (Nat.sub_le _ _)
  · rw [if_neg hct]
    exact passive_mono hw (Nat.sub_le _ _)

theorem frameRun_passive (hc : ChildOK a b child) (env : Env) (hg : env.callee ≠ a ∨ env.code.size = 0)
    (s : Frame) (hs : Passive a b s.world) :
    ∀ ret, (frameRun child env s).1 = .done ret none → Passive a b (frameRun child env s).2.world := by
  unfold frameRun
  split
  · intro _ _; exact hs
  · rename_i hsz
    have hcal : env.callee ≠ a := by
      rcases hg with h | h
      · exact h
      · exfalso; apply hsz; simp [h]
    intro ret h
    obtain ⟨h1, h2⟩ := run_passive hc env hcal _ s (.inr hs)
    have h3 := h2 ret h
    rcases h1 with h1 | h1
    · rw [h3] at h1; cases h1
    · exact h1

theorem packRes_ok (terr : Option Err) (o : Outcome) (s : Frame) (hst : (packRes terr o s).status = 0)
    (he : (packRes terr o s).err = none) : (∃ ret, o = .done ret none) ∧ (packRes terr o s).world = s.world := by
  unfold packRes at hst he ⊢
  split at hst
  · rename_i r e
    refine ⟨⟨r, ?_⟩, rfl⟩
    simp only at he
    split at he
    · rename_i ht
      rw [he] at ht; cases ht
    · rw [he]
  · simp at hst
  · simp at hst
  · simp at hst

/-- a frame keeps `Passive a b`, given callees that do -/
theorem runFrame_childOK (hc : ChildOK a b child) : ChildOK a b (runFrame child) := by
  intro env g w rm hg ht hw hst he
  unfold runFrame at hst he ⊢
  dsimp only at hst he ⊢
  obtain ⟨⟨ret, ho⟩, hwd⟩ := packRes_ok _ _ _ hst he
  rw [hwd]
  exact frameRun_passive hc env hg _ (passive_openFrame env ht hw) ret ho

theorem runDepth_childOK : ∀ d : Nat, ChildOK a b (runDepth d) := by
  intro d
  induction d with
  | zero =>
    intro env g w rm _ _ _ hst _
    unfold runDepth at hst
    simp at hst
  | succ d ih =>
    have := runFrame_childOK ih
    intro env g w rm hg ht hw hst he
    exact this env g w rm hg ht hw hst he

/-- the outermost frame: `a` may be the one that pays the value -/
theorem runFrame_top (env : Env) (hc : ChildOK a (b - (if env.caller = a ∧ env.callType ≤ 1 then env.value else 0)) child)
    (g : Nat) (w : World) (rm : List Nat) (hg : env.callee ≠ a ∨ env.code.size = 0) (hw : Passive a b w)
    (hst : (runFrame child env g w rm).status = 0) (he : (runFrame child env g w rm).err = none) :
    Passive a (b - (if env.caller = a ∧ env.callType ≤ 1 then env.value else 0)) (runFrame child env g w rm).world := by
  unfold runFrame at hst he ⊢
  dsimp only at hst he ⊢
  obtain ⟨⟨ret, ho⟩, hwd⟩ := packRes_ok _ _ _ hst he
  rw [hwd]
  exact frameRun_passive hc env hg _ (passive_openFrame_top env hw) ret ho

theorem execTop_passive (env : Env) (gas : Nat) (pre : World) (depth : Nat) (hg : env.callee ≠ a ∨ env.code.size = 0)
    (hw : Passive a b pre) :
    Passive a (b - (if env.caller = a ∧ env.callType ≤ 1 then env.value else 0)) (execTop env gas pre depth).world := by
  unfold execTop
  dsimp only
  by_cases h : ((runFrame (runDepth depth) env gas pre []).status == 0 && (runFrame (runDepth depth) env gas pre []).err.isNone) = true
  · rw [if_pos h]
    simp only [Bool.and_eq_true, beq_iff_eq, Option.isNone_iff_eq_none] at h
    exact runFrame_top env (runDepth_childOK depth) gas pre [] hg hw h.1 h.2
  · rw [if_neg h]
    exact passive_mono hw (Nat.sub_le _ _)

end run2

end Shentu.LockVmH
