import Shentu.Proofs.ShieldCollGhost
/-
  `CreateReimbursement`: the payout spread over the providers, and `DequeueCompletedWithdrawQueue`.
-/
set_option linter.unusedSimpArgs false
set_option linter.unusedVariables false
namespace Shentu.Shield.Coll
open List

/-! ## signs of `Dec` results -/

theorem chopRoundNonneg_nonneg (d : Int) (h : 0 ≤ d) : 0 ≤ Dec.chopRoundNonneg d := by
  unfold Dec.chopRoundNonneg
  have hq : 0 ≤ Int.tdiv d Dec.prec := Int.tdiv_nonneg h (by decide)
  dsimp only
  repeat' split
  all_goals omega

theorem chopRound_nonneg (d : Int) (h : 0 ≤ d) : 0 ≤ Dec.chopRound d := by
  unfold Dec.chopRound
  split
  · omega
  · exact chopRoundNonneg_nonneg d h

theorem Dec.quo_nonneg (a b : Dec) (ha : 0 ≤ a.raw) (hb : 0 ≤ b.raw) : 0 ≤ (Dec.quo a b).raw := by
  unfold Dec.quo
  apply chopRound_nonneg
  apply Int.tdiv_nonneg _ hb
  exact Int.mul_nonneg (Int.mul_nonneg ha (by decide)) (by decide)

theorem Dec.mul_nonneg (a b : Dec) (ha : 0 ≤ a.raw) (hb : 0 ≤ b.raw) : 0 ≤ (Dec.mul a b).raw := by
  unfold Dec.mul
  exact chopRound_nonneg _ (Int.mul_nonneg ha hb)

theorem Dec.ofInt_nonneg (i : Int) (h : 0 ≤ i) : 0 ≤ (Dec.ofInt i).raw := by
  unfold Dec.ofInt
  exact Int.mul_nonneg h (by decide)

theorem Dec.truncateInt_nonneg (a : Dec) (h : 0 ≤ a.raw) : 0 ≤ Dec.truncateInt a := by
  unfold Dec.truncateInt
  exact Int.tdiv_nonneg h (by decide)

/-! ## the payout loop -/

/-- the withdrawals forced by the staking hooks while a payout is spread over the providers (ghost log of `reimburseLoop`) -/
def reimburseLog (e : Env) (purchaseRatio payoutRatio : Dec) : List Provider → Int → Int → State → List Req
  | [], _, _, _ => []
  | p :: ps, totalPurchased, totalPayout, s =>
    if totalPayout ≤ 0 then []
    else
      let pur0 := min (Dec.truncateInt (Dec.mul (Dec.ofInt p.collateral) purchaseRatio)) totalPurchased
      let pay0 := min (Dec.truncateInt (Dec.mul (Dec.ofInt p.collateral) payoutRatio)) totalPayout
      let pur := if pur0 < totalPurchased && p.collateral > pay0 + pur0 then pur0 + 1 else pur0
      let pay := if pay0 < totalPayout && p.collateral > pay0 + pur then pay0 + 1 else pay0
      match updateProviderForPayout s p.addr pur pay with
      | .error _ => []
      | .ok s1 =>
        match stakingChanged e s1 p.addr with
        | .error _ => []
        | .ok s2 => changedLog e s1 p.addr ++ reimburseLog e purchaseRatio payoutRatio ps (totalPurchased - pur) (totalPayout - pay) s2

/-- what `reimburseLoop` guarantees -/
structure Reimbursed (tpay left : Int) (log : List Req) (s s' : State) : Prop where
  rest : CollRest s'
  left_nonneg : 0 ≤ left
  sumColl : sumI (·.collateral) s'.providers = sumI (·.collateral) s.providers - (tpay - left)
  tc : s'.totalCollateral = s.totalCollateral
  params : s'.params = s.params
  grow : QGrow s.params.withdrawPeriod log s.withdraws s'.withdraws

theorem reimburseLoop_spec (e : Env) (pr payr : Dec) (hpr : 0 ≤ pr.raw) :
    ∀ (ps : List Provider) (tp tpay : Int) (l : Ledger) (s : State) (left : Int) (l' : Ledger) (s' : State),
      (∀ p ∈ ps, 0 ≤ p.collateral) → 0 ≤ tp → 0 ≤ tpay → CollRest s →
      reimburseLoop e pr payr ps tp tpay l s = .ok (left, l', s') →
      Reimbursed tpay left (reimburseLog e pr payr ps tp tpay s) s s' := by
  intro ps
  induction ps with
  | nil =>
    intro tp tpay l s left l' s' _ _ htpay hr h
    unfold reimburseLoop at h
    injection h with h; injection h with h1 h; injection h with _ h
    subst h1; subst h
    exact ⟨hr, htpay, by omega, rfl, rfl, QGrow.refl _ _⟩
  | cons p ps ih =>
    intro tp tpay l s left l' s' hps htp htpay hr h
    unfold reimburseLoop at h
    -- the shares and the "+1" guards are the definitions regenerated from proposal.go: spell them out
    unfold Gen.Shield.splitPurchased Gen.Shield.splitPayout Gen.Shield.splitPurchasedPlusOne Gen.Shield.splitPayoutPlusOne at h
    unfold reimburseLog
    split at h
    · rename_i hle
      injection h with h; injection h with h1 h; injection h with _ h
      subst h1; subst h
      simp only [hle, if_true]
      exact ⟨hr, htpay, by omega, rfl, rfl, QGrow.refl _ _⟩
    · rename_i hpos
      simp only [hpos, if_false]
      dsimp only at h ⊢
      have hpc : 0 ≤ p.collateral := hps p List.mem_cons_self
      have hpur0 : 0 ≤ Dec.truncateInt (Dec.mul (Dec.ofInt p.collateral) pr) :=
        Dec.truncateInt_nonneg _ (Dec.mul_nonneg _ _ (Dec.ofInt_nonneg _ hpc) hpr)
      generalize hPur0 : Dec.truncateInt (Dec.mul (Dec.ofInt p.collateral) pr) = pur0raw at *
      generalize hPay0 : Dec.truncateInt (Dec.mul (Dec.ofInt p.collateral) payr) = pay0raw at *
      generalize hPur : (if (decide (min pur0raw tp < tp) && decide (p.collateral > min pay0raw tpay + min pur0raw tp)) = true
          then min pur0raw tp + 1 else min pur0raw tp) = pur at *
      generalize hPay : (if (decide (min pay0raw tpay < tpay) && decide (p.collateral > min pay0raw tpay + pur)) = true
          then min pay0raw tpay + 1 else min pay0raw tpay) = pay at *
      have hpur : 0 ≤ pur ∧ pur ≤ tp := by
        rw [← hPur]; split
        · rename_i hc; simp only [Bool.and_eq_true, decide_eq_true_eq] at hc; omega
        · omega
      have hpay : pay ≤ tpay := by
        rw [← hPay]; split
        · rename_i hc; simp only [Bool.and_eq_true, decide_eq_true_eq] at hc; omega
        · omega
      split at h
      · cases h
      · rename_i s1 hs1
        split at h
        · cases h
        · rename_i s2 hs2
          simp only [hs1, hs2]
          have h1 := updateProviderForPayout_payoutLike _ _ _ _ _ hr hpur.1 hs1
          have h2 := stakingChanged_reqLike _ _ _ _ hs2
          have hI := ih _ _ _ _ _ _ _ (fun x hx => hps x (List.mem_cons_of_mem _ hx)) (by omega) (by omega)
            (h2.rest h1.rest) h
          refine ⟨hI.rest, hI.left_nonneg, ?_, ?_, ?_, ?_⟩
          · rw [hI.sumColl, h2.sumColl h1.rest.nodup, h1.sumColl]; omega
          · rw [hI.tc, h2.tc, h1.tc]
          · rw [hI.params, h2.params, h1.params]
          · have g1 : QGrow s.params.withdrawPeriod [] s.withdraws s1.withdraws := h1.qgrow
            have g2 := stakingChanged_qgrow _ _ _ _ hs2
            have g3 := hI.grow
            rw [h1.params] at g2
            rw [h2.params, h1.params] at g3
            exact (g1.trans g2).trans g3

/-- the withdrawals forced while `CreateReimbursement` runs (ghost log) -/
def payoutLog (e : Env) (s : State) (amount : Int) : List Req :=
  reimburseLog e (Dec.quo (Dec.ofInt s.totalShield) (Dec.ofInt s.totalCollateral))
    (Dec.quo (Dec.ofInt amount) (Dec.ofInt s.totalCollateral)) s.providers s.totalShield amount s

/-- `CreateReimbursement`: the total collateral drops by the amount, every other clause is kept -/
theorem createReimbursement_inv (e : Env) (l l' : Ledger) (s s' : State) (pid : Nat) (amount : Int) (beneficiary : Addr)
    (hi : CollInv s) (hamt : 0 ≤ amount) (hsh : 0 ≤ s.totalShield)
    (h : createReimbursement e l s pid amount beneficiary = .ok (l', s')) :
    CollInv s' ∧ s'.totalCollateral = s.totalCollateral - amount ∧ s'.params = s.params ∧
      QGrow s.params.withdrawPeriod (payoutLog e s amount) s.withdraws s'.withdraws := by
  unfold createReimbursement at h
  split at h
  · cases h
  · dsimp only at h
    split at h
    · cases h
    · rename_i left l1 s1 hloop
      split at h
      · cases h
      · rename_i hleft
        injection h with h; injection h with _ h; subst h
        have htc : 0 ≤ s.totalCollateral := by
          rw [hi.coll]; exact sumI_nonneg _ _ (fun p hp => (hi.provNonneg p hp).1)
        have hpr : 0 ≤ (Dec.quo (Dec.ofInt s.totalShield) (Dec.ofInt s.totalCollateral)).raw :=
          Dec.quo_nonneg _ _ (Dec.ofInt_nonneg _ hsh) (Dec.ofInt_nonneg _ htc)
        have hR := reimburseLoop_spec e _ _ hpr _ _ _ _ _ _ _ _ (fun p hp => (hi.provNonneg p hp).1) hsh hamt hi.rest hloop
        have hl0 : left = 0 := by have := hR.left_nonneg; omega
        subst hl0
        refine ⟨?_, rfl, hR.params, hR.grow⟩
        rw [collInv_iff]
        refine ⟨?_, ?_⟩
        · show s.totalCollateral - amount = sumI _ s1.providers
          rw [hR.sumColl, hi.coll]; omega
        · exact ⟨hR.rest.wdr, hR.rest.wdrQ, hR.rest.wdrOwner, hR.rest.wdrPos, hR.rest.provNonneg, hR.rest.nodup⟩

/-! ## `DequeueCompletedWithdrawQueue` -/

/-- the state after the matured withdrawal `w` of `p` has been released -/
def releasedOne (s : State) (p : Provider) (w : Withdraw) : State :=
  { setProvider s { p with collateral := p.collateral - w.amount, withdrawing := p.withdrawing - w.amount } with
    totalCollateral := s.totalCollateral - w.amount, totalWithdrawing := s.totalWithdrawing - w.amount }

theorem wsum_filter (r p : Withdraw → Bool) (q : List Withdraw) : wsum r (q.filter p) = wsum (fun w => p w && r w) q := by
  unfold wsum; rw [List.filter_filter]
  congr 1
  apply List.filter_congr
  intro x _; exact Bool.and_comm _ _

theorem completeLoop_spec :
    ∀ (ws : List Withdraw) (s s' : State), CollInv { s with withdraws := s.withdraws ++ ws } → completeLoop ws s = .ok s' →
      CollInv s' ∧ s'.withdraws = s.withdraws ∧ s'.params = s.params ∧
      (∀ b, collOf s' b = collOf s b - wsum (fun w => w.addr == b) ws) ∧
      (∀ b, wdgOf s' b = wdgOf s b - wsum (fun w => w.addr == b) ws) := by
  intro ws
  induction ws with
  | nil =>
    intro s s' hi h
    unfold completeLoop at h
    injection h with h; subst h
    simp only [List.append_nil] at hi
    exact ⟨hi, rfl, rfl, fun b => by simp, fun b => by simp⟩
  | cons w ws ih =>
    intro s s' hi h
    unfold completeLoop at h
    split at h
    · cases h
    · rename_i p hf
      have hstep : completeLoop ws (releasedOne s p w) = .ok s' := h
      obtain ⟨hpm, hpa⟩ := findProvider_some hf
      rw [collInv_iff] at hi
      obtain ⟨hcoll, hr⟩ := hi
      have hfS : findProvider { s with withdraws := s.withdraws ++ w :: ws } w.addr = some p := hf
      have hnn := hr.provNonneg p hpm
      have hwq : p.withdrawing = wsum (fun x => x.addr == w.addr) (s.withdraws ++ w :: ws) := hr.wdg_eq hfS
      have hposall : ∀ x ∈ s.withdraws ++ w :: ws, 0 < x.amount := hr.wdrPos
      have hwpos : 0 < w.amount := hposall w (by simp)
      rw [wsum_append, wsum_cons] at hwq
      simp only [beq_self_eq_true, if_true] at hwq
      have h1 : 0 ≤ wsum (fun x => x.addr == w.addr) s.withdraws :=
        wsum_nonneg _ _ (fun x hx => hposall x (List.mem_append_left _ hx))
      have h2 : 0 ≤ wsum (fun x => x.addr == w.addr) ws :=
        wsum_nonneg _ _ (fun x hx => hposall x (List.mem_append_right _ (List.mem_cons_of_mem _ hx)))
      have hT : CollInv { releasedOne s p w with withdraws := (releasedOne s p w).withdraws ++ ws } := by
        rw [collInv_iff]
        constructor
        · show s.totalCollateral - w.amount = sumI _ (updP _ _)
          rw [sumColl_update hr.nodup hf (p' := { p with collateral := p.collateral - w.amount, withdrawing := p.withdrawing - w.amount }) hpa]
          simp only; simp only at hcoll; omega
        · apply hr.update hfS (p' := { p with collateral := p.collateral - w.amount, withdrawing := p.withdrawing - w.amount }) hpa
          · rfl
          · show s.totalWithdrawing - w.amount = _; simp only; omega
          · show p.withdrawing - w.amount = wsum _ (s.withdraws ++ ws)
            rw [wsum_append]; omega
          · intro b hb
            show wsum _ (s.withdraws ++ ws) = wsum _ (s.withdraws ++ w :: ws)
            rw [wsum_append, wsum_append, wsum_cons]
            have : (w.addr == b) = false := by simpa using fun h => hb h.symm
            simp only [this]; simp
          · intro x hx
            left
            show x ∈ s.withdraws ++ w :: ws
            rcases List.mem_append.mp hx with hx | hx
            · exact List.mem_append_left _ hx
            · exact List.mem_append_right _ (List.mem_cons_of_mem _ hx)
          · intro x hx
            apply hposall
            rcases List.mem_append.mp hx with hx | hx
            · exact List.mem_append_left _ hx
            · exact List.mem_append_right _ (List.mem_cons_of_mem _ hx)
          · simp only; omega
      obtain ⟨g1, g2, g3, g4, g5⟩ := ih _ _ hT hstep
      refine ⟨g1, g2, g3, ?_, ?_⟩
      · intro b
        rw [g4 b, wsum_cons]
        have := collOf_update hf (s' := releasedOne s p w)
          (p' := { p with collateral := p.collateral - w.amount, withdrawing := p.withdrawing - w.amount }) hpa rfl b
        rw [this]
        by_cases hb : b = w.addr
        · subst hb; simp only [if_true, beq_self_eq_true, collOf_found hf]; omega
        · have hb' : (w.addr == b) = false := by simpa using fun h => hb h.symm
          simp only [hb, hb', if_false]; simp
      · intro b
        rw [g5 b, wsum_cons]
        have := wdgOf_update hf (s' := releasedOne s p w)
          (p' := { p with collateral := p.collateral - w.amount, withdrawing := p.withdrawing - w.amount }) hpa rfl b
        rw [this]
        by_cases hb : b = w.addr
        · subst hb; simp only [if_true, beq_self_eq_true, wdgOf_found hf]; omega
        · have hb' : (w.addr == b) = false := by simpa using fun h => hb h.symm
          simp only [hb, hb', if_false]; simp

theorem completeWithdrawals_spec (e : Env) (s s' : State) (hi : CollInv s) (h : completeWithdrawals e s = .ok s') :
    CollInv s' ∧ s'.withdraws = s.withdraws.filter (fun w => !(decide (w.time ≤ e.t))) ∧ s'.params = s.params ∧
    (∀ b, collOf s' b = collOf s b - dueBy b e.t s.withdraws) ∧
    (∀ b, wdgOf s' b = wdgOf s b - dueBy b e.t s.withdraws) := by
  unfold completeWithdrawals at h
  dsimp only at h
  have hperm : s.withdraws ~ s.withdraws.filter (fun w => !(decide (w.time ≤ e.t))) ++ s.withdraws.filter (fun w => decide (w.time ≤ e.t)) :=
    ((filter_append_perm _ s.withdraws).symm).trans perm_append_comm
  have h0 := hi.perm hperm
  obtain ⟨g1, g2, g3, g4, g5⟩ := completeLoop_spec _ _ _ h0 h
  refine ⟨g1, g2, g3, ?_, ?_⟩
  · intro b; rw [g4 b, wsum_filter]
    have : collOf { s with withdraws := s.withdraws.filter (fun w => !(decide (w.time ≤ e.t))) } b = collOf s b := rfl
    rw [this]
    have : dueBy b e.t s.withdraws = wsum (fun w => decide (w.time ≤ e.t) && w.addr == b) s.withdraws := by
      unfold dueBy; apply wsum_congr; intro w _; exact Bool.and_comm _ _
    rw [this]
  · intro b; rw [g5 b, wsum_filter]
    have : wdgOf { s with withdraws := s.withdraws.filter (fun w => !(decide (w.time ≤ e.t))) } b = wdgOf s b := rfl
    rw [this]
    have : dueBy b e.t s.withdraws = wsum (fun w => decide (w.time ≤ e.t) && w.addr == b) s.withdraws := by
      unfold dueBy; apply wsum_congr; intro w _; exact Bool.and_comm _ _
    rw [this]

/-- a queue that satisfies `CollRest` is completed without panic -/
theorem completeLoop_ok :
    ∀ (ws : List Withdraw) (s : State), (∀ w ∈ ws, ∃ p, findProvider s w.addr = some p) → ∃ s', completeLoop ws s = .ok s' := by
  intro ws
  induction ws with
  | nil => intro s _; exact ⟨s, rfl⟩
  | cons w ws ih =>
    intro s h
    obtain ⟨p, hp⟩ := h w List.mem_cons_self
    unfold completeLoop
    rw [hp]
    dsimp only
    apply ih
    intro x hx
    obtain ⟨p2, hp2⟩ := h x (List.mem_cons_of_mem _ hx)
    show ∃ y, findProvider (setProvider s _) x.addr = some y
    rw [findProvider_setProvider]
    split
    · rw [hp2]; exact ⟨_, rfl⟩
    · exact ⟨p2, hp2⟩

theorem completeWithdrawals_ok (e : Env) (s : State) (hi : CollInv s) : ∃ s', completeWithdrawals e s = .ok s' := by
  unfold completeWithdrawals
  apply completeLoop_ok
  intro w hw
  exact hi.rest.owner_addr (List.mem_filter.mp hw).1

/-! ## the end-blocker and the end of a claim -/

theorem endBlock_spec (e : Env) (s s' : State) (hi : CollInv s) (h : endBlock e s = .ok s') :
    CollInv s' ∧ s'.withdraws = s.withdraws.filter (fun w => !(decide (w.time ≤ e.t))) ∧ s'.params = s.params ∧
    (∀ b, collOf s' b = collOf s b - dueBy b e.t s.withdraws) ∧
    (∀ b, wdgOf s' b = wdgOf s b - dueBy b e.t s.withdraws) := by
  unfold endBlock at h
  split at h
  · cases h
  · rename_i s1 hs1
    split at h
    · cases h
    · rename_i s2 hs2
      injection h with h; subst h
      have f1 := expireAndDistribute_frame e s s1 hs1
      obtain ⟨g1, g2, g3, g4, g5⟩ := completeWithdrawals_spec e s1 s2 (f1.same.inv hi) hs2
      have f3 := closePools_frame s2
      refine ⟨f3.same.inv g1, ?_, ?_, ?_, ?_⟩
      · rw [f3.same.queue, g2, f1.same.queue]
      · rw [f3.params, g3, f1.params]
      · intro b; rw [f3.same.collOf, g4, f1.same.collOf, f1.same.queue]
      · intro b; rw [f3.same.wdgOf, g5, f1.same.wdgOf, f1.same.queue]

theorem claimEnds_inv (e : Env) (l l' : Ledger) (s s' : State) (pid poolID : Nat) (restoreTo beneficiary : Addr)
    (purchaseID : Nat) (loss : Int) (o : ClaimOutcome) (hi : CollInv s)
    (hadm : o = .paid → 0 ≤ loss ∧ 0 ≤ s.totalShield)
    (h : claimEnds e l s pid poolID restoreTo beneficiary purchaseID loss o = .ok (l', s')) : CollInv s' := by
  unfold claimEnds at h
  cases o with
  | vetoed =>
    injection h with h; injection h with _ h; subst h
    exact (claimEnd_frame s loss).same.inv hi
  | rejected =>
    injection h with h; injection h with _ h; subst h
    exact (claimEnd_frame _ loss).same.inv ((restoreShield_frame s poolID restoreTo purchaseID loss).same.inv hi)
  | paid =>
    have := hadm rfl
    exact (createReimbursement_inv e l l' s s' pid loss beneficiary hi this.1 this.2 h).1
  | failed =>
    injection h with h; injection h with _ h; subst h
    exact hi

end Shentu.Shield.Coll
