import Shentu.Proofs.C16mMem
import Shentu.Proofs.C16mJump
/-
  Helper lemmas for `Shentu/Props/C16m.lean`: what single instructions of the interpreter model (`execRegular`,
  `freeRest`, `copyToMem`, the stack primitives, `jumpTo`) leave behind, computed from their definitions.
-/
namespace Shentu.C16mH
open Shentu.EVM Shentu.EVM.MemSpec Shentu.C16mJ
set_option linter.unusedSimpArgs false

theorem bind_val {α β : Type} {m : M α} {f : α → M β} {s s1 : Frame} {a : α} (h : (m s).val = (some a, s1)) :
    (M.bind m f s).val = (f a s1).val := by
  unfold M.bind
  generalize m s = r at h
  obtain ⟨⟨o, s1'⟩, hr⟩ := r
  simp only at h
  cases h
  rfl

theorem pop_ok (s : Frame) (x : Nat) (r : List Nat) (hs : s.stack = x :: r) (hg : 1 ≤ s.gas) :
    (pop s).val = (some x, { s with gas := s.gas - 1, stack := r }) := by
  simp only [pop, bind, M.bind, useGas, getF, setStack, pure, M.pure, hg, if_true, hs]

theorem pop_empty (s : Frame) (hs : s.stack = []) (hg : 1 ≤ s.gas) (he : s.err = none) :
    (pop s).val = (some 0, { s with gas := s.gas - 1, err := some .dataStackUnderflow }) := by
  simp only [pop, bind, M.bind, useGas, getF, setStack, pushErr, pure, M.pure, hg, if_true, hs, he]

theorem push_ok (s : Frame) (w : Nat) (hg : 1 ≤ s.gas) :
    (push w s).val = (some (), { s with gas := s.gas - 1, stack := w :: s.stack }) := by
  simp only [push, bind, M.bind, useGas, getF, setStack, pure, M.pure, hg, if_true]

theorem pop64_ok (s : Frame) (x : Nat) (r : List Nat) (hs : s.stack = x :: r) (hg : 1 ≤ s.gas) (hx : x < U64) :
    (pop64 s).val = (some x, { s with gas := s.gas - 1, stack := r }) := by
  unfold pop64
  show (M.bind pop _ s).val = _
  rw [bind_val (pop_ok s x r hs hg)]
  have : ¬ x ≥ U64 := by omega
  simp only [this, if_false, pure, M.pure]

theorem dup_ok (s : Frame) (n : Nat) (hn : n ≤ s.stack.length) (hg : 2 ≤ s.gas) :
    (dup n s).val = (some (), { s with gas := s.gas - 2, stack := s.stack.getD (n - 1) 0 :: s.stack }) := by
  have h1 : 1 ≤ s.gas := by omega
  have h2 : 1 ≤ s.gas - 1 := by omega
  have h3 : ¬ s.stack.length < n := by omega
  simp only [dup, push, bind, M.bind, useGas, getF, setStack, pure, M.pure, h1, h2, h3, if_true, if_false, ite_app, Nat.sub_sub]

theorem dup_underflow (s : Frame) (n : Nat) (hn : s.stack.length < n) (hg : 1 ≤ s.gas) (he : s.err = none) :
    (dup n s).val = (some (), { s with gas := s.gas - 1, err := some .dataStackUnderflow }) := by
  simp only [dup, bind, M.bind, useGas, getF, pushErr, pure, M.pure, hg, hn, if_true, ite_app, he]

theorem swap_ok (s : Frame) (n : Nat) (hn : n ≤ s.stack.length) (hg : 1 ≤ s.gas) :
    (swap n s).val = (some (), { s with gas := s.gas - 1,
                                        stack := (s.stack.set 0 (s.stack.getD (n - 1) 0)).set (n - 1) (s.stack.getD 0 0) }) := by
  have h3 : ¬ s.stack.length < n := by omega
  simp only [swap, bind, M.bind, useGas, getF, setStack, pure, M.pure, hg, h3, if_true, if_false, ite_app]

theorem swap_underflow (s : Frame) (n : Nat) (hn : s.stack.length < n) (hg : 1 ≤ s.gas) (he : s.err = none) :
    (swap n s).val = (some (), { s with gas := s.gas - 1, err := some .dataStackUnderflow }) := by
  simp only [swap, bind, M.bind, useGas, getF, pushErr, pure, M.pure, hg, hn, if_true, ite_app, he]

-- ---------------------------------------------------------------- memory instructions

theorem mstore_exec (child : ChildFn) (env : Env) (s : Frame) (o v : Nat) (r : List Nat) (hs : s.stack = o :: v :: r)
    (hg : 2 ≤ s.gas) :
    (execRegular child env 0x52 s).val =
      ((memWrite env.q o (natBE v 32) >>= fun _ => pure Ctl.next) { s with gas := s.gas - 2, stack := r }).val := by
  unfold execRegular
  simp only []
  show (M.bind pop _ s).val = _
  rw [bind_val (pop_ok s o (v :: r) hs (by omega))]
  show (M.bind pop _ _).val = _
  rw [bind_val (pop_ok _ v r rfl (by simp; omega))]
  simp only [Nat.sub_sub]
  rfl

theorem mstore8_exec (child : ChildFn) (env : Env) (s : Frame) (o v : Nat) (r : List Nat) (hs : s.stack = o :: v :: r)
    (hg : 2 ≤ s.gas) :
    (execRegular child env 0x53 s).val =
      ((memWrite env.q o (natBE (v % 256) 1) >>= fun _ => pure Ctl.next) { s with gas := s.gas - 2, stack := r }).val := by
  unfold execRegular
  simp only []
  show (M.bind pop _ s).val = _
  rw [bind_val (pop_ok s o (v :: r) hs (by omega))]
  show (M.bind pop _ _).val = _
  rw [bind_val (pop_ok _ v r rfl (by simp; omega))]
  simp only [Nat.sub_sub]
  rfl

theorem mload_exec (child : ChildFn) (env : Env) (s : Frame) (o : Nat) (r : List Nat) (hs : s.stack = o :: r)
    (hg : 1 ≤ s.gas) :
    (execRegular child env 0x51 s).val =
      ((memRead env.q o 32 >>= fun d => push (word d) >>= fun _ => pure Ctl.next) { s with gas := s.gas - 1, stack := r }).val := by
  unfold execRegular
  simp only []
  show (M.bind pop _ s).val = _
  rw [bind_val (pop_ok s o r hs hg)]

theorem msize_exec (child : ChildFn) (env : Env) (s : Frame) (hg : 1 ≤ s.gas) :
    (execRegular child env 0x59 s).val = (some Ctl.next, { s with gas := s.gas - 1, stack := s.mem.size :: s.stack }) := by
  unfold execRegular
  simp only [bind, M.bind, getF, push, useGas, setStack, pure, M.pure, hg, if_true]

theorem pop_exec (child : ChildFn) (env : Env) (s : Frame) (x : Nat) (r : List Nat) (hs : s.stack = x :: r) (hg : 1 ≤ s.gas) :
    (execRegular child env 0x50 s).val = (some Ctl.next, { s with gas := s.gas - 1, stack := r }) := by
  unfold execRegular
  simp only []
  show (M.bind pop _ s).val = _
  rw [bind_val (pop_ok s x r hs hg)]
  rfl

theorem pc_exec (child : ChildFn) (env : Env) (s : Frame) (hg : 1 ≤ s.gas) :
    (execRegular child env 0x58 s).val = (some Ctl.next, { s with gas := s.gas - 1, stack := s.pc :: s.stack }) := by
  unfold execRegular
  simp only [bind, M.bind, getF, push, useGas, setStack, pure, M.pure, hg, if_true]

theorem jumpdest_exec (child : ChildFn) (env : Env) (s : Frame) :
    (execRegular child env 0x5b s).val = (some Ctl.next, s) := by
  unfold execRegular
  simp only [pure, M.pure]

theorem dup_exec (child : ChildFn) (env : Env) (s : Frame) (op : Nat) (h1 : 0x80 ≤ op) (h2 : op ≤ 0x8f) :
    (execRegular child env op s).val = ((dup (op - 0x80 + 1) >>= fun _ => pure Ctl.next) s).val := by
  unfold execRegular
  split
  all_goals first
    | (exfalso; omega)
    | skip
  have a1 : ¬ (0x60 ≤ op ∧ op ≤ 0x7f) := by omega
  simp only [Bool.and_eq_true, decide_eq_true_eq, a1, h1, h2, and_self, if_true, if_false]

theorem swap_exec (child : ChildFn) (env : Env) (s : Frame) (op : Nat) (h1 : 0x90 ≤ op) (h2 : op ≤ 0x9f) :
    (execRegular child env op s).val = ((swap (op - 0x90 + 2) >>= fun _ => pure Ctl.next) s).val := by
  unfold execRegular
  split
  all_goals first
    | (exfalso; omega)
    | skip
  have a1 : ¬ (0x60 ≤ op ∧ op ≤ 0x7f) := by omega
  have a2 : ¬ (0x80 ≤ op ∧ op ≤ 0x8f) := by omega
  simp only [Bool.and_eq_true, decide_eq_true_eq, a1, a2, h1, h2, and_self, if_true, if_false]

theorem bl_extract_readPad (b : ByteArray) (off len : Nat) (h : off + len ≤ b.size) :
    bl (b.extract off (off + len)) = readPad (bl b) off len := by
  apply List.ext_getElem?
  intro j
  rw [bl_extract, List.getElem?_drop, List.getElem?_take]
  by_cases hj : j < len
  · rw [if_pos (by omega), getElem?_readPad _ _ _ _ hj]
    have : off + j < (bl b).length := by rw [bl_length]; omega
    rw [List.getD_eq_getElem?_getD, List.getElem?_eq_getElem this]
    rfl
  · rw [if_neg (by omega), List.getElem?_eq_none (by rw [length_readPad]; omega)]

/-- `subslice` within the data or overlapping its end: the bytes, zero padded -/
theorem subslice_ok (data : ByteArray) (off len : Nat) (h1 : off ≤ data.size) (h2 : off + len < U64) (h3 : len ≤ memCap) :
    ∃ b, subslice data off len = .ok b ∧ bl b = readPad (bl data) off len := by
  have hU := U64_val
  have hc := memCap_val
  have hA := maxAlloc_val
  unfold subslice
  simp only []
  rw [if_neg (by omega), Nat.mod_eq_of_lt h2]
  split
  · rw [if_neg (by omega), if_neg (by omega)]
    exact ⟨_, rfl, bl_extractPad data off len (by omega)⟩
  · rw [if_neg (by omega)]
    exact ⟨_, rfl, bl_extract_readPad data off len (by omega)⟩

/-- `subslice` with an offset beyond the data: the implementation's error -/
theorem subslice_err (data : ByteArray) (off len : Nat) (h1 : data.size < off) : subslice data off len = .err := by
  unfold subslice
  simp only []
  rw [if_pos h1]

theorem word_eq (b : ByteArray) : word b = bytesWord (bl b) := by
  unfold word; rw [beNat_eq]; rfl

theorem push_exec (child : ChildFn) (env : Env) (s : Frame) (op : Nat) (h1 : 0x60 ≤ op) (h2 : op ≤ 0x7f)
    (hpc : s.pc < env.code.size) (hsz : env.code.size < 2 ^ 63) (hg : 1 ≤ s.gas) :
    (execRegular child env op s).val =
      (some Ctl.next, { s with gas := s.gas - 1, stack := pushValue (bl env.code) s.pc (op - 0x60 + 1) :: s.stack,
                               pc := s.pc + (op - 0x60 + 1) }) := by
  obtain ⟨b, hb1, hb2⟩ := subslice_ok env.code (s.pc + 1) (op - 0x60 + 1) (by omega) (by rw [U64_val]; omega)
    (by rw [memCap_val]; omega)
  unfold execRegular
  split
  all_goals first
    | (exfalso; omega)
    | skip
  simp only [Bool.and_eq_true, decide_eq_true_eq, h1, h2, and_self, if_true, bind, M.bind, getF, hb1, push, useGas, hg,
    setStack, setPc, pure, M.pure, word_eq, hb2, pushValue]


/-- frames that differ at most in the deviation markers (`dev`, `devs`), which no instruction reads -/
def SameButDev (a b : Frame) : Prop :=
  a.gas = b.gas ∧ a.err = b.err ∧ a.stack = b.stack ∧ a.mem = b.mem ∧ a.pc = b.pc ∧ a.retBuf = b.retBuf

theorem SameButDev.rfl' (a : Frame) : SameButDev a a := ⟨rfl, rfl, rfl, rfl, rfl, rfl⟩

theorem noteDev_val (id : Nat) (s : Frame) :
    (noteDev id s).val = (some (), { s with dev := if s.dev == 0 then id else s.dev, devs := s.devs ||| (1 <<< id) }) := rfl

/-- CALLDATALOAD in specification mode -/
theorem calldataload_spec (child : ChildFn) (env : Env) (s : Frame) (off : Nat) (r : List Nat)
    (hq1 : env.q.readBeyondErr = false) (hq2 : env.q.dataOffsetU64 = false) (hs : s.stack = off :: r) (hg : 2 ≤ s.gas) :
    ∃ s', (execRegular child env 0x35 s).val = (some Ctl.next, s') ∧
      SameButDev s' { s with gas := s.gas - 2, stack := word (extractPad env.input off 32) :: r } := by
  unfold execRegular
  simp only [hq1, hq2, Bool.or_self, Bool.false_eq_true, if_false]
  show ∃ s', (M.bind pop _ s).val = _ ∧ _
  rw [bind_val (pop_ok s off r hs (by omega))]
  have hg' : 1 ≤ s.gas - 1 := by omega
  by_cases h1 : off ≥ U64
  · simp only [h1, if_true, bind, M.bind, noteDev, push, useGas, getF, setStack, pure, M.pure, hg']
    exact ⟨_, rfl, by simp only [Nat.sub_sub], rfl, rfl, rfl, rfl, rfl⟩
  · by_cases h2 : env.input.size < off
    · simp only [h1, h2, if_true, if_false, bind, M.bind, noteDev, push, useGas, getF, setStack, pure, M.pure, hg']
      exact ⟨_, rfl, by simp only [Nat.sub_sub], rfl, rfl, rfl, rfl, rfl⟩
    · simp only [h1, h2, if_true, if_false, bind, M.bind, noteDev, push, useGas, getF, setStack, pure, M.pure, hg']
      exact ⟨_, rfl, by simp only [Nat.sub_sub], rfl, rfl, rfl, rfl, rfl⟩

/-- CALLDATALOAD as implemented, offset beyond the call data: InputOutOfBounds -/
theorem calldataload_impl_beyond (child : ChildFn) (env : Env) (s : Frame) (off : Nat) (r : List Nat)
    (hq1 : env.q.readBeyondErr = true) (hs : s.stack = off :: r) (hg : 2 ≤ s.gas) (he : s.err = none)
    (h64 : off < U64) (hoff : env.input.size < off) :
    (execRegular child env 0x35 s).val =
      (some Ctl.next, { s with gas := s.gas - 2, stack := 0 :: r, err := some .inputOutOfBounds }) := by
  unfold execRegular
  simp only [hq1, Bool.true_or, if_true]
  show (M.bind pop64 _ s).val = _
  rw [bind_val (pop64_ok s off r hs (by omega) h64)]
  have hg' : 1 ≤ s.gas - 1 := by omega
  simp only [subslice_err _ _ _ hoff, bind, M.bind, pushErr, he, push, useGas, getF, setStack, pure, M.pure, hg', if_true,
    Nat.sub_sub]

/-- CALLDATALOAD as implemented, offset within the call data: the zero-padded word, as the specification says -/
theorem calldataload_impl_within (child : ChildFn) (env : Env) (s : Frame) (off : Nat) (r : List Nat)
    (hq1 : env.q.readBeyondErr = true) (hs : s.stack = off :: r) (hg : 2 ≤ s.gas)
    (hoff : off ≤ env.input.size) (hsz : env.input.size < 2 ^ 63) :
    (execRegular child env 0x35 s).val =
      (some Ctl.next, { s with gas := s.gas - 2, stack := dataLoad (bl env.input) off :: r }) := by
  obtain ⟨b, hb1, hb2⟩ := subslice_ok env.input off 32 hoff (by rw [U64_val]; omega) (by rw [memCap_val]; omega)
  unfold execRegular
  simp only [hq1, Bool.true_or, if_true]
  show (M.bind pop64 _ s).val = _
  rw [bind_val (pop64_ok s off r hs (by omega) (by rw [U64_val]; omega))]
  have hg' : 1 ≤ s.gas - 1 := by omega
  simp only [hb1, bind, M.bind, push, useGas, getF, setStack, pure, M.pure, hg', if_true, Nat.sub_sub, word_eq, hb2, dataLoad]


/-- CALLDATACOPY / CODECOPY in specification mode: the zero-padded bytes are handed to `memWrite` -/
theorem copyToMem_spec (q : Quirks) (src : ByteArray) (s : Frame) (memOff off len : Nat) (r : List Nat)
    (hq1 : q.readBeyondErr = false) (hq2 : q.dataOffsetU64 = false) (hs : s.stack = memOff :: off :: len :: r)
    (hg : 3 ≤ s.gas) (hlen : len ≤ memCap) :
    ∃ s1, SameButDev s1 { s with gas := s.gas - 3, stack := r } ∧
      (copyToMem q src s).val = ((memWrite q memOff (extractPad src off len) >>= fun _ => pure Ctl.next) s1).val := by
  unfold copyToMem
  show ∃ s1, _ ∧ (M.bind pop _ s).val = _
  rw [bind_val (pop_ok s memOff (off :: len :: r) hs (by omega))]
  simp only [hq1, hq2, Bool.or_self, Bool.false_eq_true, if_false]
  show ∃ s1, _ ∧ (M.bind pop _ _).val = _
  rw [bind_val (pop_ok _ off (len :: r) rfl (by simp only []; omega))]
  show ∃ s1, _ ∧ (M.bind pop _ _).val = _
  rw [bind_val (pop_ok _ len r rfl (by simp only []; omega))]
  simp only [hlen, if_true]
  by_cases h1 : off ≥ U64
  · simp only [h1, if_true]
    refine ⟨_, ?_, bind_val (noteDev_val 2 _)⟩
    exact ⟨by simp only [Nat.sub_sub], rfl, rfl, rfl, rfl, rfl⟩
  · by_cases h2 : src.size < off
    · simp only [h1, h2, if_true, if_false]
      refine ⟨_, ?_, bind_val (noteDev_val 1 _)⟩
      exact ⟨by simp only [Nat.sub_sub], rfl, rfl, rfl, rfl, rfl⟩
    · simp only [h1, h2, if_false]
      refine ⟨{ s with gas := s.gas - 1 - 1 - 1, stack := r }, ?_, rfl⟩
      exact ⟨by simp only [Nat.sub_sub], rfl, rfl, rfl, rfl, rfl⟩

/-- RETURNDATACOPY (both modes): reading beyond the return data fails -/
theorem returndatacopy_beyond (child : ChildFn) (env : Env) (s : Frame) (memOff off len : Nat) (r : List Nat)
    (hs : s.stack = memOff :: off :: len :: r) (hg : 3 ≤ s.gas) (he : s.err = none)
    (h : off + len ≥ U64 ∨ s.retBuf.size < off + len) :
    (execFree child env 0x3e s).val =
      (some Ctl.jumped, { s with gas := s.gas - 3, stack := r, err := some .returnDataOutOfBounds }) := by
  unfold execFree
  simp only [show ((0x3e : Nat) == 0x46) = false by decide, Bool.false_eq_true, if_false]
  show (M.bind pop _ s).val = _
  rw [bind_val (pop_ok s memOff (off :: len :: r) hs (by omega))]
  unfold freeRest
  simp only []
  show (M.bind pop _ _).val = _
  rw [bind_val (pop_ok _ off (len :: r) rfl (by simp only []; omega))]
  show (M.bind pop _ _).val = _
  rw [bind_val (pop_ok _ len r rfl (by simp only []; omega))]
  simp only [bind, M.bind, getF, Bool.or_eq_true, decide_eq_true_eq, h, if_true, ite_app, pushErr, he, pure, M.pure, Nat.sub_sub]

/-- RETURNDATACOPY within the return data: the bytes are handed to `memWrite` -/
theorem returndatacopy_within (child : ChildFn) (env : Env) (s : Frame) (memOff off len : Nat) (r : List Nat)
    (hs : s.stack = memOff :: off :: len :: r) (hg : 3 ≤ s.gas)
    (h1 : off + len < U64) (h2 : off + len ≤ s.retBuf.size) :
    (execFree child env 0x3e s).val =
      ((memWrite env.q memOff (s.retBuf.extract off (off + len)) >>= fun _ => pure Ctl.next)
        { s with gas := s.gas - 3, stack := r }).val := by
  unfold execFree
  simp only [show ((0x3e : Nat) == 0x46) = false by decide, Bool.false_eq_true, if_false]
  show (M.bind pop _ s).val = _
  rw [bind_val (pop_ok s memOff (off :: len :: r) hs (by omega))]
  unfold freeRest
  simp only []
  show (M.bind pop _ _).val = _
  rw [bind_val (pop_ok _ off (len :: r) rfl (by simp only []; omega))]
  show (M.bind pop _ _).val = _
  rw [bind_val (pop_ok _ len r rfl (by simp only []; omega))]
  have h : ¬ (off + len ≥ U64 ∨ s.retBuf.size < off + len) := by omega
  simp only [bind, M.bind, getF, Bool.or_eq_true, decide_eq_true_eq, h, if_false, ite_app, Nat.sub_sub]


/-- the model's jump test is the specification's notion of a valid destination -/
theorem jumpTo_valid (env : Env) (s : Frame) (to : Nat) (hob : env.opBits = opcodeBits env.code)
    (hsz : env.code.size < 2 ^ 64) (hv : ValidJump (bl env.code) to) :
    (jumpTo env to s).val = (some (), { s with pc := to }) := by
  have h := (jumpTest_spec env.code hsz to).2 hv
  obtain ⟨h1, h2, h3⟩ := h
  unfold jumpTo
  simp only [hob, h1, h2, h3, bne_self_eq_false, BEq.rfl, decide_true, Bool.and_self, Bool.not_true, Bool.or_self,
    Bool.false_eq_true, if_false, setPc]

theorem jumpTo_invalid (env : Env) (s : Frame) (to : Nat) (hob : env.opBits = opcodeBits env.code)
    (hsz : env.code.size < 2 ^ 64) (hv : ¬ ValidJump (bl env.code) to) :
    (jumpTo env to s).val = (pushErr .invalidJumpDest s).val := by
  have h := mt (jumpTest_spec env.code hsz to).1 hv
  unfold jumpTo
  simp only [hob]
  generalize (if env.code.size ≤ to then 0 else (env.code.get! to).toNat) = d at h ⊢
  by_cases h1 : d = 0x5b
  · by_cases h2 : to < (opcodeBits env.code).size
    · by_cases h3 : (opcodeBits env.code).get! to = 1
      · exact absurd ⟨h1, h2, h3⟩ h
      · simp [h1, h2, h3]
    · simp [h1, h2]
  · simp [h1]

/-- JUMP with a destination below 2^64 -/
theorem jump_exec (child : ChildFn) (env : Env) (s : Frame) (to : Nat) (r : List Nat) (hs : s.stack = to :: r)
    (hg : 1 ≤ s.gas) (h64 : to < U64) :
    (execRegular child env 0x56 s).val =
      ((jumpTo env to >>= fun _ => pure Ctl.jumped) { s with gas := s.gas - 1, stack := r }).val := by
  unfold execRegular
  simp only []
  show (M.bind pop _ s).val = _
  rw [bind_val (pop_ok s to r hs hg)]
  unfold jumpWord
  have : ¬ to ≥ U64 := by omega
  simp only [this, if_false]

/-- JUMP with a destination of 2^64 or more, specification mode: an invalid destination -/
theorem jump_huge_spec (child : ChildFn) (env : Env) (s : Frame) (to : Nat) (r : List Nat) (hs : s.stack = to :: r)
    (hg : 1 ≤ s.gas) (h64 : U64 ≤ to) (hq : env.q.dataOffsetU64 = false) (he : s.err = none) :
    ∃ s', (execRegular child env 0x56 s).val = (some Ctl.jumped, s') ∧
      SameButDev s' { s with gas := s.gas - 1, stack := r, err := some .invalidJumpDest } := by
  unfold execRegular
  simp only []
  show ∃ s', (M.bind pop _ s).val = _ ∧ _
  rw [bind_val (pop_ok s to r hs hg)]
  unfold jumpWord
  have : to ≥ U64 := h64
  simp only [this, if_true, hq, Bool.false_eq_true, if_false, Bool.and_false, bind, M.bind, noteDev, pushErr, he, pure, M.pure]
  exact ⟨_, rfl, rfl, rfl, rfl, rfl, rfl, rfl⟩

/-- JUMPI with condition 0 falls through -/
theorem jumpi_zero (child : ChildFn) (env : Env) (s : Frame) (to : Nat) (r : List Nat) (hs : s.stack = to :: 0 :: r)
    (hg : 2 ≤ s.gas) :
    (execRegular child env 0x57 s).val = (some Ctl.next, { s with gas := s.gas - 2, stack := r }) := by
  unfold execRegular
  simp only []
  show (M.bind pop _ s).val = _
  rw [bind_val (pop_ok s to (0 :: r) hs (by omega))]
  show (M.bind pop _ _).val = _
  rw [bind_val (pop_ok _ 0 r rfl (by simp only []; omega))]
  simp only [bne_self_eq_false, Bool.false_eq_true, if_false, pure, M.pure, Nat.sub_sub]

/-- JUMPI with a non-zero condition and a destination below 2^64 jumps like JUMP -/
theorem jumpi_taken (child : ChildFn) (env : Env) (s : Frame) (to c : Nat) (r : List Nat) (hs : s.stack = to :: c :: r)
    (hg : 2 ≤ s.gas) (hc : c ≠ 0) (h64 : to < U64) :
    (execRegular child env 0x57 s).val =
      ((jumpTo env to >>= fun _ => pure Ctl.jumped) { s with gas := s.gas - 2, stack := r }).val := by
  unfold execRegular
  simp only []
  show (M.bind pop _ s).val = _
  rw [bind_val (pop_ok s to (c :: r) hs (by omega))]
  show (M.bind pop _ _).val = _
  rw [bind_val (pop_ok _ c r rfl (by simp only []; omega))]
  unfold jumpWord
  have : ¬ to ≥ U64 := by omega
  have hc' : (c != 0) = true := by simpa using hc
  simp only [this, if_false, hc', if_true, Nat.sub_sub]
  rfl

/-- the 1024-item limit, specification mode: a frame whose stack has grown beyond it halts with DataStackOverflow -/
theorem step_stack_limit (child : ChildFn) (env : Env) (s : Frame) (hq : env.q.noStackLimit = false) (he : s.err = none)
    (hm : outsideModel env s = false) (hl : 1024 < s.stack.length) :
    ∃ s', (step child env s).val = (some (.done .empty (some .dataStackOverflow)), s') ∧ SameButDev s' s := by
  unfold step
  simp only [he, hm, hq, Bool.false_eq_true, if_false, Bool.not_false, Bool.true_and, decide_eq_true_eq, hl, if_true,
    bind, M.bind, noteDev, pure, M.pure]
  refine ⟨_, rfl, ?_⟩
  exact ⟨rfl, he.symm, rfl, rfl, rfl, rfl⟩

/-- … and the implementation has no such limit: the instruction is executed -/
theorem step_no_limit (child : ChildFn) (env : Env) (s : Frame) (hq : env.q.noStackLimit = true) (he : s.err = none)
    (hm : outsideModel env s = false) :
    step child env s = stepBody child env (opAt env s.pc) s := by
  unfold step
  simp only [he, hm, hq, Bool.false_eq_true, if_false, Bool.not_true, Bool.false_and]


end Shentu.C16mH
