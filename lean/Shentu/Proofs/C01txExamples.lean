import Shentu.Proofs.C01txPlain
import Shentu.Model.Cvm
import Std.Data.String.ToNat
/-
  Concrete chain states, programs and messages for the non-vacuity examples of `Shentu/Props/C01tx.lean`, with the proofs that
  the example configuration renders addresses injectively and that the example state is well-formed.
-/
namespace Shentu.CvmTxH.Ex
open Shentu Shentu.EVM Shentu.CvmTx Shentu.CvmTxH

/-- addresses are written in decimal; 28672 is a module account -/
def c0 : Cfg := { bond := "uctk", nm := fun n => toString n, blocked := fun a => a == "28672" }

theorem c0_inj : c0.Inj := fun _ _ h => Nat.repr_injective h

def A : Nat := 4096        -- a user
def FWD : Nat := 8192      -- contract: forwards the call's value to the address in calldata (library kind "forward")
def T : Nat := 12288       -- a third user
def NEW : Nat := 16384     -- no account yet
def SD : Nat := 20480      -- contract: SELFDESTRUCT to the address in calldata (library kind "suicideTo")
def CR : Nat := 24576      -- contract: CREATE with an endowment of 3
def MOD : Nat := 28672     -- a module account (blocked)
def REV : Nat := 32768     -- contract: REVERT
def BAD : Nat := 36864     -- contract: INVALID

def codeForward : ByteArray := ⟨#[0x60, 0, 0x60, 0, 0x60, 0, 0x60, 0, 0x34, 0x60, 0, 0x35, 0x5a, 0xf1, 0x00]⟩
def codeSuicideTo : ByteArray := ⟨#[0x60, 0, 0x35, 0xff]⟩
def codeCreate : ByteArray := ⟨#[0x60, 0x01, 0x60, 0x00, 0x60, 0x03, 0xf0, 0x00]⟩
def codeRevert : ByteArray := ⟨#[0x60, 0, 0x60, 0, 0xfd]⟩
def codeInvalid : ByteArray := ⟨#[0xfe]⟩
/-- init code returning the one-byte runtime code `00`: PUSH1 0 PUSH1 0 MSTORE8 PUSH1 1 PUSH1 0 RETURN -/
def initStop : ByteArray := ⟨#[0x60, 0, 0x60, 0, 0x53, 0x60, 1, 0x60, 0, 0xf3]⟩

def st0 : Store :=
  [{ addr := A }, { addr := FWD, code := codeForward }, { addr := T }, { addr := SD, code := codeSuicideTo },
   { addr := CR, code := codeCreate }, { addr := MOD }, { addr := REV, code := codeRevert }, { addr := BAD, code := codeInvalid }]

def l0 : Ledger :=
  { posts := [("4096", "uctk", 100), ("4096", "foo", 5), ("8192", "uctk", 7), ("12288", "uctk", 1), ("20480", "uctk", 9),
              ("20480", "foo", 2), ("24576", "uctk", 7), ("28672", "uctk", 50)],
    supply := [("uctk", 174), ("foo", 7)] }

/-- the same contracts as the library model knows them -/
def lib0 : Cvm.State :=
  { contracts := [{ addr := "8192", code := "6000600060006000346000355AF100", storage := [] },
                  { addr := "20480", code := "600035FF", storage := [] },
                  { addr := "24576", code := "600160006003F000", storage := [] },
                  { addr := "32768", code := "60006000FD", storage := [] },
                  { addr := "36864", code := "FE", storage := [] }] }

/-- a 32-byte calldata word -/
def word (n : Nat) : ByteArray := natBE n 32

theorem wf0 : WF c0 l0 st0 :=
  wf_of_check c0_inj (by decide) (by decide) (by decide +kernel) (by decide)

theorem inv0 : l0.invB = true := by decide

/-- the user's coins are locked up to 99 -/
def vsLocked : Vesting.Accounts := [{ addr := "4096", ov := [("uctk", 99)], vested := [], dv := [], df := [], unlocker := "u" }]

-- observations of a result
def bondAfter (r : Except Shentu.Err (Ledger × Store)) (x : Nat) : Int :=
  match r with | .ok (l, _) => l.balOf (toString x) "uctk" | .error _ => -1
def fooAfter (r : Except Shentu.Err (Ledger × Store)) (x : Nat) : Int :=
  match r with | .ok (l, _) => l.balOf (toString x) "foo" | .error _ => -1
def codeAfter (r : Except Shentu.Err (Ledger × Store)) (x : Nat) : Option Nat :=
  match r with | .ok (_, st) => (World.get st x).map (·.code.size) | .error _ => none
def invAfter (r : Except Shentu.Err (Ledger × Store)) : Bool :=
  match r with | .ok (l, _) => l.invB | .error _ => false
def errOf (r : Except Shentu.Err (Ledger × Store)) : String :=
  match r with | .ok _ => "" | .error e => e.kind

/-- a contract that, whenever it is entered, sends 5 of its own coins to the third user:
    PUSH1 0 ×4, PUSH1 5, PUSH2 0x3000, GAS, CALL, STOP -/
def codeSend5 : ByteArray := ⟨#[0x60, 0, 0x60, 0, 0x60, 0, 0x60, 0, 0x60, 5, 0x61, 0x30, 0x00, 0x5a, 0xf1, 0x00]⟩
def X : Nat := 40960
/-- the example state with that contract added, holding 20 coins -/
def st1 : Store := st0 ++ [{ addr := X, code := codeSend5 }]
def l1 : Ledger := { posts := l0.posts ++ [("40960", "uctk", 20)], supply := [("uctk", 194), ("foo", 7)] }

theorem wf1 : WF c0 l1 st1 :=
  wf_of_check c0_inj (by decide) (by decide) (by decide +kernel) (by decide)

def addrs : List Nat := [A, FWD, T, NEW, SD, CR, MOD, REV, BAD]

/-- the library model's outcome of a call by the user (`Cvm.call` on `lib0`) -/
def libCall (callee v t : Nat) : Except Shentu.Err (Ledger × Cvm.State) :=
  Cvm.call "uctk" l0 [] lib0 "4096" (toString callee) v "w" (t == 0) (toString t) true

/-- the interpreter-backed model's outcome of the same call: the calldata is the 32-byte word naming `t` -/
def vmCall (callee v t : Nat) : Except Shentu.Err (Ledger × Store) :=
  tx c0 l0 [] st0 { caller := A, callee := callee, value := v, data := word t, gas := 100000 }

/-- same outcome: both fail, or both succeed with the same balance of every example address in both denominations and the same
    addresses holding code -/
def agree (callee v t : Nat) : Bool :=
  match libCall callee v t, vmCall callee v t with
  | .error _, .error _ => true
  | .ok (la, sa), .ok (lb, sb) =>
    addrs.all (fun x => la.balOf (toString x) "uctk" == lb.balOf (toString x) "uctk" && la.balOf (toString x) "foo" == lb.balOf (toString x) "foo"
      && ((Cvm.find sa (toString x)).isSome == decide ((((World.get sb x).map (·.code.size)).getD 0) > 0)))
  | _, _ => false

end Shentu.CvmTxH.Ex
