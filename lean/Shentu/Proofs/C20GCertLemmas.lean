import Shentu.Model.GenesisCert
import Shentu.Proofs.C13HLemmas
/-
  Helper lemmas for C20 on x/cert: what the import loops of `InitGenesis` compute on a genesis file with
  distinct keys, the extra invariant clause `PlatNodup`, and the outcomes of a run.
-/
namespace Shentu.C20GCertH
open Shentu Shentu.Cert Shentu.C13H Shentu.Genesis.Cert

/-! ### `store.Set` on a list -/

theorem upsertBy_fresh {α κ : Type} [BEq κ] [LawfulBEq κ] (key : α → κ) (l : List α) (x : α)
    (h : key x ∉ l.map key) : upsertBy key l x = l ++ [x] := by
  unfold upsertBy
  have : l.any (fun y => key y == key x) = false := by
    rw [List.any_eq_false]
    intro y hy hyx
    exact h (List.mem_map.mpr ⟨y, hy, by simpa using hyx⟩)
  rw [this]; simp

/-- inserting records with pairwise distinct fresh keys one by one appends them in order -/
theorem foldl_upsertBy_fresh {α κ : Type} [BEq κ] [LawfulBEq κ] (key : α → κ) (xs init : List α)
    (h : ((init ++ xs).map key).Nodup) : xs.foldl (upsertBy key) init = init ++ xs := by
  induction xs generalizing init with
  | nil => simp
  | cons x xs ih =>
    have hx : key x ∉ init.map key := by
      rw [List.map_append, List.nodup_append] at h
      intro hmem
      exact h.2.2 _ hmem _ (by simp) rfl
    rw [List.foldl_cons, upsertBy_fresh key init x hx, ih]
    · simp
    · simpa using h

/-! ### the certifier loop -/

/-- the alias-store half of `SetCertifier` -/
def aliasStep (idx : List (String × Addr)) (c : Certifier) : List (String × Addr) :=
  if c.alias != "" then upsertBy (·.1) idx (c.alias, c.addr) else idx

theorem foldl_setCertifier (cs : List Certifier) (s : State) :
    cs.foldl setCertifier s =
      { s with certifiers := cs.foldl (upsertBy (·.addr)) s.certifiers, aliasIdx := cs.foldl aliasStep s.aliasIdx } := by
  induction cs generalizing s with
  | nil => rfl
  | cons c cs ih => rw [List.foldl_cons, ih]; rfl

theorem aliasesOf_cons (c : Certifier) (cs : List Certifier) :
    aliasesOf (c :: cs) = if c.alias != "" then c.alias :: aliasesOf cs else aliasesOf cs := by
  unfold aliasesOf
  by_cases h : c.alias = "" <;> simp [h]

theorem aliasIndexOf_cons (c : Certifier) (cs : List Certifier) :
    aliasIndexOf (c :: cs) = if c.alias != "" then (c.alias, c.addr) :: aliasIndexOf cs else aliasIndexOf cs := by
  unfold aliasIndexOf
  by_cases h : c.alias = "" <;> simp [h]

/-- rebuilding the alias store entry by entry gives the index that the certifier list determines,
    when the non-empty aliases are distinct (and new to the store) -/
theorem foldl_aliasStep (cs : List Certifier) (idx : List (String × Addr))
    (h : (idx.map (·.1) ++ aliasesOf cs).Nodup) : cs.foldl aliasStep idx = idx ++ aliasIndexOf cs := by
  induction cs generalizing idx with
  | nil => simp [aliasIndexOf]
  | cons c cs ih =>
    rw [List.foldl_cons, aliasesOf_cons] at *
    rw [aliasIndexOf_cons]
    by_cases h0 : c.alias = ""
    · have hb : (c.alias != "") = false := by simp [h0]
      simp only [hb, Bool.false_eq_true, if_false] at h ⊢
      have : aliasStep idx c = idx := by simp [aliasStep, hb]
      rw [this]; exact ih idx h
    · have hb : (c.alias != "") = true := by simpa using h0
      simp only [hb, if_true] at h ⊢
      have hfresh : c.alias ∉ idx.map (·.1) := by
        rw [List.nodup_append] at h
        intro hmem
        exact h.2.2 _ hmem _ (by simp) rfl
      have hstep : aliasStep idx c = idx ++ [(c.alias, c.addr)] := by
        simp only [aliasStep, hb, if_true]
        exact upsertBy_fresh (·.1) idx (c.alias, c.addr) hfresh
      rw [hstep, ih]
      · simp
      · simpa using h

/-! ### the platform loop -/

theorem filter_key_fresh (ps : List (String × String)) (pk : String) (h : pk ∉ ps.map (·.1)) :
    ps.filter (fun p => !(p.1 == pk)) = ps := by
  rw [List.filter_eq_self]
  intro p hp
  have : p.1 ≠ pk := fun e => h (List.mem_map.mpr ⟨p, hp, e⟩)
  simpa using this

theorem importPlatform_fresh (a : Addr) (s : State) (p : String × String) (hc : isCertifier s a = true)
    (h : p.1 ∉ s.platforms.map (·.1)) : importPlatform a s p = { s with platforms := s.platforms ++ [p] } := by
  unfold importPlatform Cert.certifyPlatform
  simp [hc, filter_key_fresh _ _ h]

theorem foldl_importPlatform (a : Addr) (ps : List (String × String)) (s : State) (hc : isCertifier s a = true)
    (h : ((s.platforms ++ ps).map (·.1)).Nodup) :
    ps.foldl (importPlatform a) s = { s with platforms := s.platforms ++ ps } := by
  induction ps generalizing s with
  | nil => simp
  | cons p ps ih =>
    have hp : p.1 ∉ s.platforms.map (·.1) := by
      rw [List.map_append, List.nodup_append] at h
      intro hmem
      exact h.2.2 _ hmem _ (by simp) rfl
    rw [List.foldl_cons, importPlatform_fresh a s p hc hp, ih]
    · simp
    · exact hc
    · simpa using h

/-! ### the certificate loop -/

theorem foldl_setCertificate (cs : List Certificate) (s : State) :
    cs.foldl setCertificate s = { s with certs := cs.foldl (upsertBy (·.id)) s.certs } := by
  induction cs generalizing s with
  | nil => rfl
  | cons c cs ih => rw [List.foldl_cons, ih]; rfl

/-! ### the whole import -/

/-- On a genesis file with distinct certifier addresses, distinct non-empty aliases, distinct certificate
    identifiers, distinct platform keys, and a certifier to sign the platforms if there are any, the import
    writes exactly the file, and the alias index that the certifier list determines. -/
theorem initGenesis_eq (g : Genesis) (haddr : (g.certifiers.map (·.addr)).Nodup) (hal : (aliasesOf g.certifiers).Nodup)
    (hids : (g.certificates.map (·.id)).Nodup) (hpl : (g.platforms.map (·.1)).Nodup)
    (hne : g.certifiers ≠ [] ∨ g.platforms = []) :
    initGenesis g = { certifiers := g.certifiers, aliasIdx := aliasIndexOf g.certifiers, certs := g.certificates,
                      nextId := g.nextCertificateId, platforms := g.platforms } := by
  unfold initGenesis
  have h1 : g.certifiers.foldl setCertifier empty =
      { certifiers := g.certifiers, aliasIdx := aliasIndexOf g.certifiers, certs := [], nextId := 0, platforms := [] } := by
    rw [foldl_setCertifier]
    have e1 := foldl_upsertBy_fresh (fun c : Certifier => c.addr) g.certifiers [] (by simpa using haddr)
    have e2 := foldl_aliasStep g.certifiers [] (by simpa using hal)
    simp only [List.nil_append] at e1 e2
    simp only [empty, e1, e2]
  have h2 : importPlatforms g.certifiers g.platforms (g.certifiers.foldl setCertifier empty) =
      { certifiers := g.certifiers, aliasIdx := aliasIndexOf g.certifiers, certs := [], nextId := 0, platforms := g.platforms } := by
    rw [h1]
    cases hcs : g.certifiers with
    | nil =>
      rcases hne with h | h
      · exact absurd hcs h
      · simp [importPlatforms, h]
    | cons c0 rest =>
      simp only [importPlatforms]
      rw [foldl_importPlatform]
      · simp
      · simp [isCertifier]
      · simpa using hpl
  simp only [h2]
  rw [foldl_setCertificate]
  have e3 := foldl_upsertBy_fresh (fun c : Certificate => c.id) g.certificates [] (by simpa using hids)
  simp only [List.nil_append] at e3
  simp only [e3]

/-! ### the extra invariant clause: platform keys are distinct -/

/-- the platform store has one entry per validator public key -/
def PlatNodup (s : State) : Prop := (s.platforms.map (·.1)).Nodup

instance (s : State) : Decidable (PlatNodup s) := by unfold PlatNodup; infer_instance

/-- the invariant of C13 over histories together with the new clause -/
def WFG (s : State) : Prop := WF s ∧ PlatNodup s

theorem platNodup_genesis (cs : List Certifier) (certs : List Certificate) (nextId : Nat) :
    PlatNodup (genesis cs certs nextId) := by simp [PlatNodup, genesis]

theorem platNodup_set (ps : List (String × String)) (pk d : String) (h : (ps.map (·.1)).Nodup) :
    (((ps.filter (fun p => !(p.1 == pk))) ++ [(pk, d)]).map (·.1)).Nodup := by
  rw [List.map_append, List.nodup_append]
  refine ⟨List.Nodup.sublist (List.Sublist.map _ List.filter_sublist) h, by simp, ?_⟩
  intro x hx y hy
  simp only [List.map_cons, List.map_nil, List.mem_singleton] at hy; subst hy
  obtain ⟨p, hp, rfl⟩ := List.mem_map.mp hx
  have := (List.mem_filter.mp hp).2
  simpa using this

theorem exec_platNodup {s s' : State} {o : Op} (hp : PlatNodup s) (h : exec s o = .ok s') : PlatNodup s' := by
  cases o with
  | issue a k c => obtain ⟨_, rfl⟩ := issue_ok h; exact hp
  | revoke a id => obtain ⟨_, _, rfl⟩ := revoke_ok h; exact hp
  | certifyPlatform a pk d => obtain ⟨_, rfl⟩ := platform_ok h; exact platNodup_set _ pk d hp
  | govUpdate a al p add =>
    cases add with
    | true => obtain ⟨_, _, rfl⟩ := add_ok h; exact hp
    | false => obtain ⟨_, _, _, rfl⟩ := remove_ok h; exact hp

theorem step_platNodup {s : State} (o : Op) (hp : PlatNodup s) : PlatNodup (step s o) := by
  rcases step_cases s o with ⟨s', h, hs, _⟩ | ⟨hs, _⟩
  · rw [hs]; exact exec_platNodup hp h
  · rw [hs]; exact hp

theorem run_platNodup {s : State} (ops : List Op) (hp : PlatNodup s) : PlatNodup (run s ops) := by
  induction ops generalizing s with
  | nil => exact hp
  | cons o os ih => exact ih (step_platNodup o hp)

theorem step_wfg {s : State} (o : Op) (h : WFG s) : WFG (step s o) := ⟨step_wf o h.1, step_platNodup o h.2⟩

theorem run_wfg {s : State} (ops : List Op) (h : WFG s) : WFG (run s ops) := ⟨run_wf ops h.1, run_platNodup ops h.2⟩

/-! ### outcomes of a run -/

/-- for each operation of a history, whether it was accepted -/
def outcomes : State → List Op → List Bool
  | _, [] => []
  | s, o :: os => succeeds s o :: outcomes (step s o) os

theorem outcomes_eq_glog (s : State) (ops : List Op) : outcomes s ops = (glog s ops).map (·.ok) := by
  induction ops generalizing s with
  | nil => rfl
  | cons o os ih => simp [outcomes, glog, ih, Entry.ok]

theorem outcomes_length (s : State) (ops : List Op) : (outcomes s ops).length = ops.length := by
  induction ops generalizing s with
  | nil => rfl
  | cons o os ih => simp [outcomes, ih]

end Shentu.C20GCertH
