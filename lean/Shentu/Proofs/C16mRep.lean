import Shentu.Proofs.C16mExec
/-
  Helper lemmas for `Shentu/Props/C16m.lean`: the representation relation between a model memory (a byte array whose
  length is the capacity) and a specification memory (`MemSpec.Mem`), and facts about the specification itself.
-/
namespace Shentu.C16mH
open Shentu.EVM Shentu.EVM.MemSpec
set_option linter.unusedSimpArgs false

/-- the model memory `b` represents the specification memory `m`: same bytes everywhere (zero beyond the capacity) and a
    capacity of exactly the active words -/
def Rep (b : ByteArray) (m : Mem) : Prop := b.size = 32 * m.words ∧ ∀ i, byteAt b i = m.byte i

theorem rep_empty : Rep ByteArray.empty Mem.empty := ⟨rfl, fun _ => rfl⟩

theorem memNeed_le (o len : Nat) (hl : 0 < len) (h : o + len ≤ memCap) : memNeed o len ≤ memCap := by
  rw [memNeed_pos o len hl h, memCap_val]
  rw [memCap_val] at h
  unfold ceil32
  omega

theorem memNeed_ge (o len : Nat) (hl : 0 < len) (h : o + len ≤ memCap) : o + len ≤ memNeed o len := by
  rw [memNeed_pos o len hl h]
  unfold ceil32
  omega

/-- growing to the word-aligned need of an access is the specification's active-words rule -/
theorem rep_grow_need {b : ByteArray} {m : Mem} (hr : Rep b m) (o len : Nat) (hl : 0 < len) (h : o + len ≤ memCap) :
    Rep (grow b (memNeed o len)) (m.touch o len) := by
  have hle := memNeed_le o len hl h
  have hc := memCap_val
  have hlt : memNeed o len < 2 ^ 65 := by omega
  constructor
  · rw [size_grow _ _ hlt, hr.1, memNeed_pos o len hl h]
    unfold Mem.touch
    rw [if_neg (by omega)]
    simp only []
    omega
  · intro i
    rw [byteAt_grow _ _ hlt, hr.2 i]
    unfold Mem.touch
    split <;> rfl

/-- growing within the capacity changes nothing -/
theorem grow_within (b : ByteArray) (cap : Nat) (h : cap ≤ b.size) : grow b cap = b := by
  unfold grow; rw [if_pos h]

/-- writing inside the capacity is the specification's write -/
theorem rep_wr {b : ByteArray} {m : Mem} (o : Nat) (v : ByteArray) (hr : Rep b (m.touch o v.size)) (h : o + v.size ≤ b.size)
    (hlt : o + v.size < 2 ^ 65) : Rep (wr b o v) (m.write o (bl v)) := by
  constructor
  · rw [size_wr _ _ _ hlt, hr.1]
    have := hr.1
    simp only [Mem.write, bl_length]
    omega
  · intro i
    rw [byteAt_wr _ _ _ hlt, hr.2 i]
    simp only [Mem.write, bl_length]
    have : (m.touch o v.size).byte i = m.byte i := by unfold Mem.touch; split <;> rfl
    rw [this]

/-- reading inside the capacity returns the specification's bytes -/
theorem bl_read_rep {b : ByteArray} {m : Mem} (hr : Rep b m) (o l : Nat) (hlt : o + l < 2 ^ 65) :
    bl ((grow b (o + l)).extract o (o + l)) = (m.read o l).1 := by
  rw [bl_read b o l hlt]
  unfold Mem.read
  simp only []
  apply List.map_congr_left
  intro i _
  exact hr.2 (o + i)

-- ---------------------------------------------------------------- facts about the specification

theorem write_byte_in (m : Mem) (o : Nat) (bs : List Byte) (i : Nat) (h1 : o ≤ i) (h2 : i < o + bs.length) :
    (m.write o bs).byte i = bs.getD (i - o) 0 := by
  simp only [Mem.write, h1, h2, and_self, if_true]

theorem write_byte_out (m : Mem) (o : Nat) (bs : List Byte) (i : Nat) (h : i < o ∨ o + bs.length ≤ i) :
    (m.write o bs).byte i = m.byte i := by
  have : ¬ (o ≤ i ∧ i < o + bs.length) := by omega
  simp only [Mem.write, this, if_false]

theorem length_wordBytes (v : Nat) : (wordBytes v).length = 32 := by simp [wordBytes]

theorem bytesWord_wordBytes (v : Nat) : bytesWord (wordBytes v) = v % 2 ^ 256 := by
  rw [wordBytes_eq, bytesWord_eq, beVal_beBytes]

/-- reading back what was written -/
theorem read_write_same (m : Mem) (o : Nat) (bs : List Byte) : ((m.write o bs).read o bs.length).1 = bs := by
  unfold Mem.read
  simp only []
  apply List.ext_getElem?
  intro j
  by_cases hj : j < bs.length
  · simp only [List.getElem?_map, List.getElem?_range hj, Option.map_some]
    rw [write_byte_in m o bs (o + j) (by omega) (by omega), List.getD_eq_getElem?_getD,
      show o + j - o = j by omega, List.getElem?_eq_getElem hj]
    rfl
  · rw [List.getElem?_eq_none (by simp; omega), List.getElem?_eq_none (by omega)]

theorem bytesWord_zeros (n : Nat) : bytesWord (List.replicate n 0) = 0 := by
  induction n with
  | zero => rfl
  | succ n ih =>
    rw [List.replicate_succ']
    show beVal _ = 0
    rw [beVal_append_singleton]
    have : beVal (List.replicate n 0) = 0 := ih
    rw [this]
    rfl

end Shentu.C16mH

namespace Shentu.C16mH
open Shentu.EVM Shentu.EVM.MemSpec
set_option linter.unusedSimpArgs false

/-- the whole access of a writing instruction (grow to the word-aligned need, then write) is the specification's write -/
theorem rep_access_write {b : ByteArray} {m : Mem} (hr : Rep b m) (o : Nat) (v : ByteArray) (hv : 0 < v.size)
    (h : o + v.size ≤ memCap) : Rep (wr (grow b (memNeed o v.size)) o v) (m.write o (bl v)) := by
  have hc := memCap_val
  have h1 := memNeed_le o v.size hv h
  have h2 := memNeed_ge o v.size hv h
  apply rep_wr o v (rep_grow_need hr o v.size hv h)
  · rw [size_grow _ _ (by omega)]; omega
  · omega

theorem execRegular_calldatacopy (child : ChildFn) (env : Env) : execRegular child env 0x37 = copyToMem env.q env.input := by
  unfold execRegular; rfl

theorem execRegular_codecopy (child : ChildFn) (env : Env) : execRegular child env 0x39 = copyToMem env.q env.code := by
  unfold execRegular; rfl

theorem beBytes_one (v : Nat) : beBytes (v % 256) 1 = [(v % 256).toUInt8] := by
  simp [beBytes, List.range_succ]

theorem expand_val (t : Nat) (s : Frame) (he : s.err = none) (h : t ≤ memCap) :
    (expandMemory t s).val =
      (some (), { s with
                    mem := grow s.mem t
                    bigAlloc := if t ≤ s.mem.size then s.bigAlloc else max s.bigAlloc (t - s.mem.size) }) := by
  rw [expandMemory_ok t s he]; exact memGrow_ok t s h

end Shentu.C16mH
