import Shentu.Proofs.C01txMain
/-
  Helper lemmas for `Shentu/Props/C01tx.lean`, part 3: a call to an account without code is the value transfer and nothing else.
-/
namespace Shentu.CvmTxH
open Shentu Shentu.EVM Shentu.CvmTx

/-- the outermost frame on empty code: the transfer's outcome is the execution's outcome -/
theorem execTop_nocode (env : Env) (gas : Nat) (pre : World) (depth : Nat) (hc : env.code.size = 0) (hct : env.callType = 0) :
    (execTop env gas pre depth).status = 0 ∧
    (∀ w', transfer pre env.caller env.callee env.value = .ok w' →
      (execTop env gas pre depth).err = none ∧ (execTop env gas pre depth).world = w') ∧
    (∀ e, transfer pre env.caller env.callee env.value = .error e → (execTop env gas pre depth).err = some e) := by
  have hfr : ∀ s0, frameRun (runDepth depth) env s0 = (Outcome.done .empty none, s0) := by
    intro s0; unfold frameRun; simp [hc]
  unfold execTop runFrame
  simp only [hfr]
  unfold openFrame
  simp only [hct, Nat.zero_le, if_true]
  cases ht : transfer pre env.caller env.callee env.value with
  | ok w' => simp [packRes]
  | error e => simp [packRes]

/-- a transfer between two different accounts of a keyed cache -/
theorem transfer_bal {w w' : World} {a b v : Nat} (hab : a ≠ b) (h : transfer w a b v = .ok w') :
    balOf w' a + v = balOf w a ∧ balOf w' b = balOf w b + v ∧ ∀ x, x ≠ a → x ≠ b → balOf w' x = balOf w x := by
  unfold transfer at h
  split at h; · cases h
  split at h
  · rename_i hv
    injection h with h; subst h
    have : v = 0 := by simpa using hv
    subst this; simp
  · split at h; · cases h
    rename_i f hf
    split at h; · cases h
    rename_i hbal
    dsimp only at h
    split at h; · cases h
    rename_i t ht
    split at h; · cases h
    injection h with h; subst h
    have hfa : f.addr = a := get_addr hf
    have hta : t.addr = b := get_addr ht
    have hfb : balOf w a = f.balance := balOf_of_get_some hf
    subst hfa
    subst hta
    have htb : balOf (w.put { f with balance := f.balance - v }) t.addr = t.balance := balOf_of_get_some ht
    have htb0 : balOf (w.put { f with balance := f.balance - v }) t.addr = balOf w t.addr :=
      balOf_put_ne w _ (Ne.symm hab)
    refine ⟨?_, ?_, ?_⟩
    · rw [balOf_put_ne _ { t with balance := t.balance + v } (show f.addr ≠ t.addr from hab)]
      have := balOf_put_self w { f with balance := f.balance - v }
      rw [show balOf (w.put { f with balance := f.balance - v }) f.addr = f.balance - v from this, hfb]
      omega
    · have := balOf_put_self (w.put { f with balance := f.balance - v }) { t with balance := t.balance + v }
      rw [show balOf ((w.put { f with balance := f.balance - v }).put { t with balance := t.balance + v }) t.addr = t.balance + v from this]
      omega
    · intro x hxa hxb
      rw [balOf_put_ne _ { t with balance := t.balance + v } (show x ≠ t.addr from hxb)]
      exact balOf_put_ne w { f with balance := f.balance - v } (show x ≠ f.addr from hxa)

theorem balOf_loadWorld (c : Cfg) (l : Ledger) (st : Store) (x : Nat) (h : World.get st x ≠ none) :
    balOf (loadWorld c l st) x = (l.balOf (c.nm x) c.bond).toNat := by
  unfold balOf
  rw [get_loadWorld]
  cases hg : World.get st x with
  | none => exact absurd hg h
  | some a =>
    have := get_addr hg
    subst this
    rfl

/-- the bank's bond balance of EVERY address is its balance in the loaded cache -/
theorem loaded_bal {c : Cfg} {l : Ledger} {st : Store} (hwf : WF c l st) (x : Nat) :
    ((balOf (loadWorld c l st) x : Nat) : Int) = l.balOf (c.nm x) c.bond := by
  cases hg : World.get st x with
  | none =>
    rw [hwf.held x hg]
    have : World.get (loadWorld c l st) x = none := by rw [get_loadWorld, hg]; rfl
    rw [balOf_of_get_none this]; rfl
  | some a =>
    rw [balOf_loadWorld c l st x (by rw [hg]; simp)]
    have hm : a ∈ st := by
      unfold World.get at hg
      exact List.mem_of_find?_eq_some hg
    have := hwf.nonneg a hm
    rw [get_addr hg] at this
    omega

/-- after the write-back the bank's bond balance of EVERY address is its balance in the final cache -/
theorem writeBack_balOf_all {c : Cfg} {l : Ledger} {st : Store} {w : World} (hinj : c.Inj) (hwf : WF c l st) (hw : Keyed w) (x : Nat) :
    (writeBack c l st w).balOf (c.nm x) c.bond = ((balOf w x : Nat) : Int) := by
  by_cases hx : x ∈ touched st w
  · exact writeBack_balOf_touched hinj hwf hw hx
  · rw [writeBack_balOf_untouched]
    · rw [mem_touched] at hx
      have h1 : World.get st x = none := Classical.byContradiction (fun h => hx (Or.inl h))
      have h2 : World.get w x = none := Classical.byContradiction (fun h => hx (Or.inr h))
      rw [hwf.held x h1, balOf_of_get_none h2]; rfl
    · intro y hy e
      have := hinj _ _ e
      subst this
      exact hx hy

/-- a way to establish well-formedness of a concrete state: the checks are decidable -/
theorem wf_of_check {c : Cfg} {l : Ledger} {st : Store} (hinj : c.Inj) (hk : Keyed st)
    (hnn : ∀ a ∈ st, 0 ≤ l.balOf (c.nm a.addr) c.bond) (hf : total (loadWorld c l st) < U64)
    (hp : l.posts.all (fun p => st.any (fun a => p.1 == c.nm a.addr)) = true) : WF c l st := by
  refine ⟨hk, hnn, hf, ?_⟩
  intro x hx
  have hfil : l.posts.filter (fun p => p.1 == c.nm x) = [] := by
    rw [List.filter_eq_nil_iff]
    intro p hp1 he
    have := List.all_eq_true.mp hp p hp1
    obtain ⟨a, ha, e⟩ := List.any_eq_true.mp this
    have e1 : p.1 = c.nm a.addr := by simpa using e
    have e2 : p.1 = c.nm x := by simpa using he
    have := hinj _ _ (e1.symm.trans e2)
    exact get_none_iff.mp hx a ha this
  unfold Ledger.balOf Ledger.bal
  rw [hfil]
  rfl

/-- the empty chain state is well-formed -/
theorem wf_empty (c : Cfg) : WF c { posts := [], supply := [] } [] :=
by
  refine ⟨keyed_nil, ?_, ?_, ?_⟩
  · intro a ha; cases ha
  · show total [] < U64
    rw [total_nil]; decide
  · intro x _; rfl

end Shentu.CvmTxH
