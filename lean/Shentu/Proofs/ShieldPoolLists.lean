import Shentu.Model.Shield
import Shentu.Proofs.Tactics
/-
  Generic list facts used by the shield/pool/purchase/stake half of C03 and by C05:
  sums (`sumI`), "upsert" stores (`map (fun z => if q z then y else z)`), `replaceFirst`,
  and pairwise relations under those updates.
-/
namespace Shentu.Shield.PoolLm

/-! ## sums -/

@[simp] theorem sumI_nil {α} (f : α → Int) : sumI f [] = 0 := rfl

@[simp] theorem sumI_cons {α} (f : α → Int) (a : α) (l : List α) : sumI f (a :: l) = f a + sumI f l := by
  simp [sumI]

theorem sumI_append {α} (f : α → Int) (l1 l2 : List α) : sumI f (l1 ++ l2) = sumI f l1 + sumI f l2 := by
  induction l1 with
  | nil => simp
  | cons a l ih => simp only [List.cons_append, sumI_cons, ih]; omega

theorem sumI_nonneg {α} (f : α → Int) (l : List α) (h : ∀ a ∈ l, 0 ≤ f a) : 0 ≤ sumI f l := by
  induction l with
  | nil => simp
  | cons a l ih =>
    simp only [sumI_cons]
    have h1 := h a List.mem_cons_self
    have h2 := ih (fun b hb => h b (List.mem_cons_of_mem _ hb))
    omega

theorem sumI_congr {α} (f g : α → Int) (l : List α) (h : ∀ a ∈ l, f a = g a) : sumI f l = sumI g l := by
  induction l with
  | nil => simp
  | cons a l ih =>
    simp only [sumI_cons]
    rw [h a List.mem_cons_self, ih (fun b hb => h b (List.mem_cons_of_mem _ hb))]

theorem sumI_zero {α} (f : α → Int) (l : List α) (h : ∀ a ∈ l, f a = 0) : sumI f l = 0 := by
  induction l with
  | nil => simp
  | cons a l ih =>
    simp only [sumI_cons]
    rw [h a List.mem_cons_self, ih (fun b hb => h b (List.mem_cons_of_mem _ hb))]; rfl

/-- dropping elements whose value is zero does not change a sum -/
theorem sumI_filter_of_zero {α} (f : α → Int) (p : α → Bool) (l : List α) (h : ∀ a ∈ l, p a = false → f a = 0) :
    sumI f (l.filter p) = sumI f l := by
  induction l with
  | nil => simp
  | cons a l ih =>
    have ih' := ih (fun b hb => h b (List.mem_cons_of_mem _ hb))
    rw [List.filter_cons]
    cases hp : p a with
    | true => simp only [if_true, sumI_cons, ih']
    | false =>
      have := h a List.mem_cons_self hp
      simp only [Bool.false_eq_true, if_false, sumI_cons, ih', this]; omega

/-! ## stores with at most one record per key -/

/-- at most one position of `l` satisfies `q` -/
def AtMostOne {α} (q : α → Bool) (l : List α) : Prop := l.Pairwise (fun a b => ¬(q a = true ∧ q b = true))

theorem AtMostOne.tail {α} {q : α → Bool} {z : α} {zs : List α} (h : AtMostOne q (z :: zs)) : AtMostOne q zs :=
  (List.pairwise_cons.mp h).2

theorem AtMostOne.tail_none {α} {q : α → Bool} {z : α} {zs : List α} (h : AtMostOne q (z :: zs)) (hz : q z = true) :
    ∀ a ∈ zs, q a = false := by
  intro a ha
  have := (List.pairwise_cons.mp h).1 a ha
  cases hq : q a with
  | false => rfl
  | true => exact absurd ⟨hz, hq⟩ this

theorem map_replace_none {α} (q : α → Bool) (y : α) (l : List α) (h : ∀ a ∈ l, q a = false) :
    l.map (fun z => if q z then y else z) = l := by
  induction l with
  | nil => rfl
  | cons a l ih =>
    simp only [List.map_cons, h a List.mem_cons_self, Bool.false_eq_true, if_false]
    rw [ih (fun b hb => h b (List.mem_cons_of_mem _ hb))]

theorem filter_not_none {α} (q : α → Bool) (l : List α) (h : ∀ a ∈ l, q a = false) :
    l.filter (fun z => !q z) = l := by
  induction l with
  | nil => rfl
  | cons a l ih =>
    rw [List.filter_cons]
    simp only [h a List.mem_cons_self, Bool.not_false, if_true]
    rw [ih (fun b hb => h b (List.mem_cons_of_mem _ hb))]

/-- replacing the (only) record with the key changes a sum by the difference of the two records -/
theorem sumI_map_replace {α} (f : α → Int) (q : α → Bool) (y : α) :
    ∀ (l : List α) (x : α), l.find? q = some x → AtMostOne q l →
      sumI f (l.map (fun z => if q z then y else z)) = sumI f l + (f y - f x) := by
  intro l
  induction l with
  | nil => intro x hx; cases hx
  | cons a l ih =>
    intro x hx hu
    rw [List.find?_cons] at hx
    cases hq : q a with
    | true =>
      rw [hq] at hx
      injection hx with hx; subst hx
      have hn := hu.tail_none hq
      have hm := map_replace_none q y l hn
      simp only [List.map_cons, hq, if_true, sumI_cons]
      rw [hm]; omega
    | false =>
      rw [hq] at hx
      have := ih x hx hu.tail
      simp only [List.map_cons, hq, Bool.false_eq_true, if_false, sumI_cons]
      rw [this]; omega

/-- deleting the (only) record with the key lowers a sum by that record -/
theorem sumI_filter_not {α} (f : α → Int) (q : α → Bool) :
    ∀ (l : List α) (x : α), l.find? q = some x → AtMostOne q l →
      sumI f (l.filter (fun z => !q z)) = sumI f l - f x := by
  intro l
  induction l with
  | nil => intro x hx; cases hx
  | cons a l ih =>
    intro x hx hu
    rw [List.find?_cons] at hx
    rw [List.filter_cons]
    cases hq : q a with
    | true =>
      rw [hq] at hx
      injection hx with hx; subst hx
      have hn := hu.tail_none hq
      simp only [Bool.not_true, Bool.false_eq_true, if_false, sumI_cons]
      rw [filter_not_none q l hn]; omega
    | false =>
      rw [hq] at hx
      have := ih x hx hu.tail
      simp only [Bool.not_false, if_true, sumI_cons]
      rw [this]; omega

theorem mem_map_replace {α} (q : α → Bool) (y : α) (l : List α) (a : α)
    (h : a ∈ l.map (fun z => if q z then y else z)) : a = y ∨ (a ∈ l ∧ q a = false) := by
  rcases List.mem_map.mp h with ⟨z, hz, hza⟩
  cases hq : q z with
  | true => simp only [hq, if_true] at hza; exact Or.inl hza.symm
  | false => simp only [hq, Bool.false_eq_true, if_false] at hza; subst hza; exact Or.inr ⟨hz, hq⟩

theorem mem_map_replace_self {α} (q : α → Bool) (y : α) (l : List α) (x : α) (hx : l.find? q = some x) :
    y ∈ l.map (fun z => if q z then y else z) := by
  apply List.mem_map.mpr
  exact ⟨x, List.mem_of_find?_eq_some hx, by simp [List.find?_some hx]⟩

/-- with at most one record per key, any record with the key is the one `find?` returns -/
theorem find?_of_mem_atMostOne {α} (q : α → Bool) :
    ∀ (l : List α) (a : α), AtMostOne q l → a ∈ l → q a = true → l.find? q = some a := by
  intro l
  induction l with
  | nil => intro a _ ha; cases ha
  | cons z zs ih =>
    intro a hu ha hqa
    rw [List.find?_cons]
    rcases List.mem_cons.mp ha with h | h
    · subst h; rw [hqa]
    · cases hqz : q z with
      | true => have := hu.tail_none hqz a h; rw [this] at hqa; cases hqa
      | false => exact ih a hu.tail h hqa

/-- a symmetric pairwise relation holds between any two different members -/
theorem pairwise_of_mem_ne {α} (R : α → α → Prop) (hsym : ∀ a b, R a b → R b a) :
    ∀ (l : List α), l.Pairwise R → ∀ a ∈ l, ∀ b ∈ l, a ≠ b → R a b := by
  intro l
  induction l with
  | nil => intro _ a ha; cases ha
  | cons z zs ih =>
    intro hp a ha b hb hab
    have hp' := List.pairwise_cons.mp hp
    rcases List.mem_cons.mp ha with h1 | h1 <;> rcases List.mem_cons.mp hb with h2 | h2
    · subst h1; subst h2; exact absurd rfl hab
    · subst h1; exact hp'.1 b h2
    · subst h2; exact hsym _ _ (hp'.1 a h1)
    · exact ih hp'.2 a h1 b h2 hab

/-- a pairwise relation survives replacing the record with the key, if the new record is related to every other record -/
theorem pairwise_map_replace {α} (R : α → α → Prop) (q : α → Bool) (y : α) :
    ∀ (l : List α), l.Pairwise R → AtMostOne q l → (∀ b ∈ l, q b = false → R y b ∧ R b y) →
      (l.map (fun z => if q z then y else z)).Pairwise R := by
  intro l
  induction l with
  | nil => intro _ _ _; exact List.Pairwise.nil
  | cons z zs ih =>
    intro hp hu hy
    have hp' := List.pairwise_cons.mp hp
    have hy' : ∀ b ∈ zs, q b = false → R y b ∧ R b y := fun b hb => hy b (List.mem_cons_of_mem _ hb)
    rw [List.map_cons]
    apply List.pairwise_cons.mpr
    cases hqz : q z with
    | true =>
      have hn := hu.tail_none hqz
      rw [map_replace_none q y zs hn]
      simp only [if_true]
      exact ⟨fun b hb => (hy' b hb (hn b hb)).1, hp'.2⟩
    | false =>
      simp only [Bool.false_eq_true, if_false]
      refine ⟨?_, ih hp'.2 hu.tail hy'⟩
      intro b hb
      rcases mem_map_replace q y zs b hb with h | ⟨h, _⟩
      · subst h; exact (hy z List.mem_cons_self hqz).2
      · exact hp'.1 b h

theorem atMostOne_append_new {α} (q : α → Bool) (l : List α) (y : α) (h : l.find? q = none) : AtMostOne q (l ++ [y]) := by
  have hn := List.find?_eq_none.mp h
  apply List.pairwise_append.mpr
  refine ⟨?_, List.pairwise_singleton _ _, ?_⟩
  · apply List.pairwise_of_forall_mem_list
    intro a ha b _ hab; exact hn a ha hab.1
  · intro a ha b _ hab; exact hn a ha hab.1

/-! ## `replaceFirst` -/

theorem replaceFirst_map_of_eq {α β} (p : α → Bool) (f : α → α) (g : α → β) (hg : ∀ a, p a = true → g (f a) = g a) (l : List α) :
    (replaceFirst p f l).map g = l.map g := by
  induction l with
  | nil => rfl
  | cons a l ih =>
    unfold replaceFirst
    split
    · rename_i ha; simp only [List.map_cons, hg a ha]
    · simp only [List.map_cons, ih]

theorem sumI_replaceFirst {α} (g : α → Int) (p : α → Bool) (f : α → α) :
    ∀ (l : List α) (x : α), l.find? p = some x → sumI g (replaceFirst p f l) = sumI g l + (g (f x) - g x) := by
  intro l
  induction l with
  | nil => intro x hx; cases hx
  | cons a l ih =>
    intro x hx
    rw [List.find?_cons] at hx
    unfold replaceFirst
    cases hq : p a with
    | true =>
      rw [hq] at hx; injection hx with hx; subst hx
      simp only [if_true, sumI_cons]; omega
    | false =>
      rw [hq] at hx
      simp only [Bool.false_eq_true, if_false, sumI_cons, ih x hx]; omega

theorem mem_replaceFirst {α} (p : α → Bool) (f : α → α) (l : List α) (a : α) (h : a ∈ replaceFirst p f l) :
    a ∈ l ∨ ∃ x, l.find? p = some x ∧ a = f x := by
  induction l with
  | nil => cases h
  | cons z zs ih =>
    unfold replaceFirst at h
    rw [List.find?_cons]
    cases hz : p z with
    | true =>
      simp only [hz, if_true] at h
      rcases List.mem_cons.mp h with h | h
      · exact Or.inr ⟨z, rfl, h⟩
      · exact Or.inl (List.mem_cons_of_mem _ h)
    | false =>
      simp only [hz, Bool.false_eq_true, if_false] at h
      rcases List.mem_cons.mp h with h | h
      · exact Or.inl (h ▸ List.mem_cons_self)
      · rcases ih h with h' | ⟨x, hx, hax⟩
        · exact Or.inl (List.mem_cons_of_mem _ h')
        · exact Or.inr ⟨x, hx, hax⟩

theorem find?_of_any {α} (p : α → Bool) (l : List α) (h : l.any p = true) : ∃ x, l.find? p = some x := by
  rcases List.any_eq_true.mp h with ⟨x, hx, hpx⟩
  cases hf : l.find? p with
  | some y => exact ⟨y, rfl⟩
  | none => exact absurd hpx (List.find?_eq_none.mp hf x hx)

theorem any_of_find? {α} (p : α → Bool) (l : List α) (x : α) (h : l.find? p = some x) : l.any p = true :=
  List.any_eq_true.mpr ⟨x, List.mem_of_find?_eq_some h, List.find?_some h⟩

theorem replaceFirst_none {α} (p : α → Bool) (f : α → α) (l : List α) (h : ∀ a ∈ l, p a = false) : replaceFirst p f l = l := by
  induction l with
  | nil => rfl
  | cons a l ih =>
    unfold replaceFirst
    simp only [h a List.mem_cons_self, Bool.false_eq_true, if_false]
    rw [ih (fun b hb => h b (List.mem_cons_of_mem _ hb))]

/-- looking up the key whose first record was rewritten by `f` (which keeps the key) -/
theorem find?_replaceFirst_same {α} (p : α → Bool) (f : α → α) (hf : ∀ a, p a = true → p (f a) = true) :
    ∀ (l : List α), (replaceFirst p f l).find? p = (l.find? p).map f := by
  intro l
  induction l with
  | nil => rfl
  | cons a l ih =>
    unfold replaceFirst
    cases hq : p a with
    | true => simp only [if_true, List.find?_cons, hf a hq, hq, Option.map_some]
    | false => simp only [Bool.false_eq_true, if_false, List.find?_cons, hq, ih]

/-- looking up another key: the rewritten record does not have it before or after -/
theorem find?_replaceFirst_other {α} (p p' : α → Bool) (f : α → α)
    (hd : ∀ a, p a = true → p' a = false) (hf : ∀ a, p a = true → p' (f a) = false) :
    ∀ (l : List α), (replaceFirst p f l).find? p' = l.find? p' := by
  intro l
  induction l with
  | nil => rfl
  | cons a l ih =>
    unfold replaceFirst
    cases hq : p a with
    | true => simp only [if_true, List.find?_cons, hf a hq, hd a hq]
    | false => simp only [Bool.false_eq_true, if_false, List.find?_cons, ih]

end Shentu.Shield.PoolLm
