import Shentu.Model.UbdQueue
/-
  Definitions shared by the C09q proofs: the invariant tying unbonding entries to the completion queue, and the sums the
  statements are about.  No theorem here.
-/
namespace Shentu.UbdQueue

/-- how many entries of the pair (d, v) complete at `t` -/
def entriesAt (s : State) (d v : String) (t : Int) : Nat := (getEntries s.ubds d v).countP (fun e => e.t == t)

/-- how often the pair (d, v) stands in the queue slice of `t` -/
def queuedAt (s : State) (d v : String) (t : Int) : Nat := (getSlice s.queue t).count (d, v)

/-- the two stores are keyed: slices in strictly increasing time order, one record per (delegator, validator) pair -/
structure WF (s : State) : Prop where
  times : s.queue.Pairwise (fun x y => x.1 < y.1)
  keys : s.ubds.Pairwise (fun x y => ¬ (x.del = y.del ∧ x.val = y.val))

/-- **The queue invariant**: for every pair and every time, the slice of that time names the pair exactly as often as the
    pair has entries completing at that time.  "≥" is Q1 (every entry is queued, so the end-blocker will complete it), "≤" is
    Q2 (no stale pair: every queued pair has an entry for that time). -/
structure Inv (s : State) : Prop extends WF s where
  counts : ∀ d v t, queuedAt s d v t = entriesAt s d v t

/-- the balances of the delegator's entries that complete exactly at `t` -/
def atTime (us : List Ubd) (d : String) (t : Int) : Int :=
  ((us.filter (·.del == d)).map (fun u => balSum (u.entries.filter (fun e => e.t == t)))).sum

/-- the balances of the delegator's entries that complete at or before `t` -/
def byTime (us : List Ubd) (d : String) (t : Int) : Int :=
  ((us.filter (·.del == d)).map (fun u => balSum (u.entries.filter (fun e => decide (e.t ≤ t))))).sum

/-- all balances of the delegator's entries are non-negative -/
def NonNeg (us : List Ubd) (d : String) : Prop := ∀ u ∈ us, u.del = d → ∀ e ∈ u.entries, 0 ≤ e.bal

/-- the correspondence the delay establishes between an old entry and a new one: same balance; the time stays, or goes from
    at most `delayed` to exactly `delayed` -/
def Delayed (delayed : Int) (e e' : Entry) : Prop := e'.bal = e.bal ∧ (e'.t = e.t ∨ (e.t ≤ delayed ∧ e'.t = delayed))

/-- the balances of a list of paid-back entries -/
def paidSum (l : List Paid) : Int := (l.map (·.2.2.bal)).sum

/-- everything outstanding, all delegators -/
def total (us : List Ubd) : Int := (us.map (fun u => balSum u.entries)).sum

end Shentu.UbdQueue
