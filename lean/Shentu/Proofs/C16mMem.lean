import Shentu.Proofs.C16mBytes
/-
  Helper lemmas for `Shentu/Props/C16m.lean`: what the model's memory functions (`ensureCap`, `memGrow`, `memWrite`,
  `memRead`) compute, in terms of plain byte-array operations (`grow`, `wr`) and of the byte view `byteAt`.
-/
namespace Shentu.C16mH
open Shentu.EVM Shentu.EVM.MemSpec
set_option linter.unusedSimpArgs false

theorem memCap_val : memCap = 16777216 := rfl
theorem U64_val : U64 = 2 ^ 64 := rfl
theorem maxAlloc_val : maxAlloc = 2 ^ 48 := rfl
theorem maxInt32_val : maxInt32 = 2147483647 := rfl

/-- the byte of a model memory at address `i` (zero beyond its capacity) -/
def byteAt (b : ByteArray) (i : Nat) : UInt8 := (bl b).getD i 0

/-- Burrow's `ensureCapacity`, when it succeeds: zero bytes appended up to `cap` -/
def grow (m : ByteArray) (cap : Nat) : ByteArray := if cap ≤ m.size then m else m ++ zeros (cap - m.size)

/-- Burrow's `Memory.Write`, when it succeeds: grow, then overwrite `[o, o + v.size)` -/
def wr (m : ByteArray) (o : Nat) (v : ByteArray) : ByteArray := v.copySlice 0 (grow m (o + v.size)) o v.size

theorem ite_app {α : Type} {β : α → Type} (c : Prop) [Decidable c] (f g : (a : α) → β a) (s : α) :
    (if c then f else g) s = if c then f s else g s := by
  split <;> rfl

theorem ensureCap_ok (m : ByteArray) (cap : Nat) (h : cap ≤ memCap) : ensureCap m cap = some (grow m cap) := by
  unfold ensureCap grow
  have : ¬ cap > maxInt32 := by rw [memCap_val] at h; rw [maxInt32_val]; omega
  rw [if_neg this]
  split
  · rfl
  · rw [if_neg (by omega)]

theorem ensureCap_within (m : ByteArray) (cap : Nat) (h : cap ≤ m.size) (h2 : cap ≤ maxInt32) : ensureCap m cap = some m := by
  unfold ensureCap
  rw [if_neg (by omega), if_pos h]

theorem ensureCap_none (m : ByteArray) (cap : Nat) (h : memCap < cap) (h2 : m.size < cap) : ensureCap m cap = none := by
  unfold ensureCap
  split
  · rfl
  · rw [if_neg (by omega)]

theorem bl_grow (m : ByteArray) (cap : Nat) (h : cap < 2 ^ 65) :
    bl (grow m cap) = bl m ++ List.replicate (cap - m.size) 0 := by
  unfold grow
  split
  · next h1 =>
    have : cap - m.size = 0 := by omega
    simp [this]
  · rw [bl_append, bl_zeros _ (by omega)]

theorem size_grow (m : ByteArray) (cap : Nat) (h : cap < 2 ^ 65) : (grow m cap).size = max m.size cap := by
  rw [← bl_length, bl_grow m cap h, List.length_append, List.length_replicate, bl_length]
  omega

theorem byteAt_grow (m : ByteArray) (cap : Nat) (h : cap < 2 ^ 65) (i : Nat) : byteAt (grow m cap) i = byteAt m i := by
  unfold byteAt
  rw [bl_grow m cap h, List.getD_eq_getElem?_getD, List.getD_eq_getElem?_getD]
  by_cases hi : i < (bl m).length
  · rw [List.getElem?_append_left hi]
  · rw [List.getElem?_append_right (by omega), List.getElem?_eq_none (l := bl m) (by omega), List.getElem?_replicate]
    split <;> rfl

theorem size_wr (m : ByteArray) (o : Nat) (v : ByteArray) (h : o + v.size < 2 ^ 65) :
    (wr m o v).size = max m.size (o + v.size) := by
  have hg := size_grow m (o + v.size) h
  rw [← bl_length]
  unfold wr
  rw [bl_copySlice]
  simp only [List.length_append, List.length_take, List.length_drop, bl_length, hg]
  omega

theorem byteAt_wr (m : ByteArray) (o : Nat) (v : ByteArray) (h : o + v.size < 2 ^ 65) (i : Nat) :
    byteAt (wr m o v) i = if o ≤ i ∧ i < o + v.size then (bl v).getD (i - o) 0 else byteAt m i := by
  have hg := size_grow m (o + v.size) h
  have hb := byteAt_grow m (o + v.size) h i
  unfold byteAt at *
  unfold wr
  rw [bl_copySlice, ← hb]
  generalize grow m (o + v.size) = g at *
  have hgl : (bl g).length = max m.size (o + v.size) := by rw [bl_length, hg]
  have hvl : (bl v).length = v.size := bl_length v
  simp only [List.getD_eq_getElem?_getD, Nat.zero_add, List.drop_zero, Nat.sub_zero, Nat.min_self]
  rw [List.take_of_length_le (l := bl v) (by omega)]
  by_cases h1 : i < o
  · rw [if_neg (by omega), List.append_assoc, List.getElem?_append_left (by simp; omega), List.getElem?_take, if_pos h1]
  · by_cases h2 : i < o + v.size
    · rw [if_pos (by omega), List.append_assoc, List.getElem?_append_right (by simp; omega),
        List.getElem?_append_left (by simp; omega)]
      congr 2
      simp only [List.length_take]
      omega
    · rw [if_neg (by omega), List.getElem?_append_right (by simp; omega), List.getElem?_drop]
      congr 2
      simp only [List.length_append, List.length_take]
      omega

/-- `Memory.Write` within the memory cap: the bytes are written, the memory grown as far as needed -/
theorem memWrite_ok (q : Quirks) (o : Nat) (v : ByteArray) (s : Frame)
    (hv : 0 < v.size ∨ q.zeroLenGrows = true) (hcap : o + v.size ≤ memCap) :
    (memWrite q o v s).val = (some (), { s with mem := wr s.mem o v }) := by
  have hc := memCap_val
  have hU := U64_val
  have h1 : (v.size == 0 && !q.zeroLenGrows) = false := by
    rcases hv with hv | hv
    · have : (v.size == 0) = false := by simp only [beq_eq_false_iff_ne]; omega
      simp [this]
    · simp [hv]
  have h2 : ¬ (o ≥ U64) := by omega
  have h3 : (o + v.size) % U64 = o + v.size := by rw [hU]; omega
  have h4 : ¬ (o > o + v.size) := by omega
  simp only [memWrite, bind, M.bind, pure, M.pure, getF, takeMem, setMem, h1, h2, h3, h4, if_false, Bool.false_eq_true,
    ensureCap_ok _ _ hcap, ite_app, wr]

/-- a zero-length write in specification mode: nothing is touched -/
theorem memWrite_zero_spec (q : Quirks) (o : Nat) (v : ByteArray) (s : Frame) (hq : q.zeroLenGrows = false) (hv : v.size = 0) :
    (memWrite q o v s).val = (some (), s) := by
  simp only [memWrite, bind, M.bind, pure, M.pure, hq, hv, ite_app, BEq.rfl, Bool.not_false, Bool.and_self, if_true]

/-- `Memory.Write` beyond the memory cap (no uint64 wrap-around): a Generic error, nothing written -/
theorem memWrite_beyond (q : Quirks) (o : Nat) (v : ByteArray) (s : Frame) (hv : 0 < v.size)
    (h64 : o + v.size < U64) (hcap : memCap < o + v.size) (hsz : s.mem.size < o + v.size) :
    (memWrite q o v s).val = (pushErr .generic s).val := by
  have hU := U64_val
  have h1 : (v.size == 0) = false := by simp only [beq_eq_false_iff_ne]; omega
  have h2 : ¬ (o ≥ U64) := by omega
  have h3 : (o + v.size) % U64 = o + v.size := Nat.mod_eq_of_lt h64
  simp only [memWrite, bind, M.bind, pure, M.pure, getF, takeMem, setMem, h1, h2, h3, if_false, Bool.false_eq_true,
    Bool.false_and, ensureCap_none _ _ hcap hsz, ite_app]

/-- an offset of 2^64 or more: a Generic error, nothing written -/
theorem memWrite_huge (q : Quirks) (o : Nat) (v : ByteArray) (s : Frame) (hv : 0 < v.size) (ho : U64 ≤ o) :
    (memWrite q o v s).val = (pushErr .generic s).val := by
  have h1 : (v.size == 0) = false := by simp only [beq_eq_false_iff_ne]; omega
  have h2 : (o ≥ U64) := ho
  simp only [memWrite, h1, h2, if_true, Bool.false_eq_true, Bool.false_and, if_false, ite_app]


/-- `Memory.Read` within the memory cap: the memory is grown as far as needed and the bytes returned -/
theorem memRead_ok (q : Quirks) (o l : Nat) (s : Frame) (hl : 0 < l ∨ q.zeroLenGrows = true) (hcap : o + l ≤ memCap) :
    (memRead q o l s).val = (some ((grow s.mem (o + l)).extract o (o + l)), { s with mem := grow s.mem (o + l) }) := by
  have hc := memCap_val
  have hU := U64_val
  have hA := maxAlloc_val
  have h1 : (l == 0 && !q.zeroLenGrows) = false := by
    rcases hl with hl | hl
    · have : (l == 0) = false := by simp only [beq_eq_false_iff_ne]; omega
      simp [this]
    · simp [hl]
  have h2 : ¬ (o ≥ U64 ∨ l ≥ U64) := by omega
  have h3 : (o + l) % U64 = o + l := by rw [hU]; omega
  have h4 : ¬ (o > o + l) := by omega
  have h5 : ¬ (l > maxAlloc) := by omega
  simp only [memRead, bind, M.bind, pure, M.pure, getF, takeMem, setMem, h1, h2, h3, h4, h5, if_false, Bool.false_eq_true,
    ensureCap_ok _ _ hcap, ite_app, Bool.or_eq_true, decide_eq_true_eq]

/-- a zero-length read in specification mode: the empty string, the memory is not touched -/
theorem memRead_zero_spec (q : Quirks) (o : Nat) (s : Frame) (hq : q.zeroLenGrows = false) :
    (memRead q o 0 s).val = (some .empty, s) := by
  simp only [memRead, bind, M.bind, pure, M.pure, hq, ite_app, BEq.rfl, Bool.not_false, Bool.and_self, if_true]

/-- the bytes `Memory.Read` returns -/
theorem bl_read (m : ByteArray) (o l : Nat) (h : o + l < 2 ^ 65) :
    bl ((grow m (o + l)).extract o (o + l)) = (List.range l).map (fun i => byteAt m (o + i)) := by
  apply List.ext_getElem?
  intro j
  have hg := size_grow m (o + l) h
  rw [bl_extract, List.getElem?_drop, List.getElem?_take]
  by_cases hj : j < l
  · rw [if_pos (by omega)]
    have hlen : o + j < (bl (grow m (o + l))).length := by rw [bl_length, hg]; omega
    simp only [List.getElem?_map, List.getElem?_range hj, Option.map_some]
    rw [← byteAt_grow m (o + l) h (o + j)]
    unfold byteAt
    rw [List.getD_eq_getElem?_getD, List.getElem?_eq_getElem hlen]
    rfl
  · rw [if_neg (by omega)]
    simp [hj]


/-- the memory need the cost lookup computes for an access at `(o, len)` (`calcMemSize64`, rounded up to words) -/
def memNeed (o len : Nat) : Nat := toWordSize (memSize64 o len).1 * 32

theorem memNeed_zero (o : Nat) : memNeed o 0 = 0 := by
  simp [memNeed, memSize64, memSize64U, toWordSize, U64_val]

theorem memNeed_pos (o len : Nat) (hl : 0 < len) (h : o + len ≤ memCap) : memNeed o len = 32 * ceil32 (o + len) := by
  have hc := memCap_val
  have hU := U64_val
  have h1 : ¬ len ≥ U64 := by omega
  have h2 : (len == 0) = false := by simp only [beq_eq_false_iff_ne]; omega
  have h3 : ¬ o ≥ U64 := by omega
  have h4 : (o + len) % U64 = o + len := by rw [hU]; omega
  have h5 : ¬ (o + len > U64 - 1 - 31) := by omega
  simp only [memNeed, memSize64, memSize64U, toWordSize, h1, h2, h3, h4, h5, if_false, Bool.false_eq_true, ceil32]
  omega

/-- gasLookUp's memory growth, within the cap -/
theorem memGrow_ok (t : Nat) (s : Frame) (h : t ≤ memCap) :
    (memGrow t s).val =
      (some (), { s with
                    mem := grow s.mem t
                    bigAlloc := if t ≤ s.mem.size then s.bigAlloc else max s.bigAlloc (t - s.mem.size) }) := by
  have hc := memCap_val
  have hA := maxAlloc_val
  by_cases h1 : t ≤ s.mem.size
  · simp only [memGrow, bind, M.bind, takeMem, setMem, h1, if_true, ite_app, grow]
  · have h2 : ¬ (t - s.mem.size > maxAlloc) := by omega
    simp only [memGrow, bind, M.bind, takeMem, setMem, noteAlloc, h1, h2, if_false, ite_app, ensureCap_ok _ _ h]

theorem expandMemory_ok (t : Nat) (s : Frame) (he : s.err = none) : expandMemory t s = memGrow t s := by
  simp only [expandMemory, bind, M.bind, getF, he, Option.isSome_none, Bool.false_eq_true, if_false]


end Shentu.C16mH
