import Shentu.Proofs.C12TSpec
/-
  Share-level specification of the stake round and the sums of counted pieces per validator
  (for `Shentu/Props/C12T.lean`).
-/
namespace Shentu.C12TH
open Shentu Shentu.Gov
set_option linter.unusedSimpArgs false
set_option linter.unusedVariables false

/-- what is assumed of the staking view that governance reads: validators are distinct, hold a positive number of
    shares and no negative tokens; listed delegations are not negative; the delegations listed for a validator do not
    exceed its shares (the view may list only the delegations of the voters) -/
structure StakeWF (e : Env) : Prop where
  distinct : (e.stake.vals.map (·.1)).Nodup
  sharesPos : ∀ v ∈ e.stake.vals, 0 < v.2.2.raw
  tokensNonneg : ∀ v ∈ e.stake.vals, 0 ≤ v.2.1
  delNonneg : ∀ d ∈ e.stake.dels, 0 ≤ d.2.2.raw
  covered : ∀ v ∈ e.stake.vals, sumOn (e.stake.dels.filter (·.2.1 == v.1)) (fun d => d.2.2.raw) ≤ v.2.2.raw

/-- the stated rule: the delegator's own vote if it voted, else the vote of the validator's account, else none (0) -/
def choice (votes : List Vote) (d : Del) : Nat :=
  if hasVoted votes d.1 then voteAt votes d.1 else voteAt votes d.2.1

/-- the rule the chain applies: as `choice`, except that the vote of a bonded validator's operator address does not
    carry the operator's delegations -/
def choiceM (e : Env) (votes : List Vote) (d : Del) : Nat :=
  if delegatorVoted e votes d.1 then voteAt votes d.1 else voteAt votes d.2.1

/-- the shares of validator `a` in the listed delegations -/
def listed (e : Env) (a : Addr) : Int := sumOn (e.stake.dels.filter (·.2.1 == a)) (fun d => d.2.2.raw)

/-- specification: the shares of validator `v` counted for option `o` under the choice rule `ch` — the listed
    delegations to `v` whose choice is `o`, plus the shares of `v` not in any listed delegation (their holders did
    not vote), which follow the validator's vote -/
def specShares (ch : Del → Nat) (e : Env) (votes : List Vote) (v : Addr × Int × Dec) (o : Nat) : Int :=
  sumOn (e.stake.dels.filter (fun d => d.2.1 == v.1 && ch d == o)) (fun d => d.2.2.raw) +
    (if voteAt votes v.1 == o then v.2.2.raw - listed e v.1 else 0)

/-- the shares of validator `a` that the tally counts for option `o` -/
def countedShares (e : Env) (votes : List Vote) (a : Addr) (o : Nat) : Int :=
  sumOn ((pieces e votes).filter (fun p => p.val == a && p.option == o)) (fun p => p.shares.raw)

/-- the shares of validator `a` counted through voting delegators (any option) -/
def delCounted (e : Env) (votes : List Vote) (a : Addr) : Int :=
  sumOn ((delPieces e votes).filter (fun p => p.val == a)) (fun p => p.shares.raw)

/-- the shares of validator `a` counted through the validator's own vote -/
def valCounted (e : Env) (votes : List Vote) (a : Addr) : Int :=
  sumOn ((valPieces e votes).filter (fun p => p.val == a)) (fun p => p.shares.raw)

/-! ## sums over the pieces of one validator -/

theorem sumOn_filterMap {α β} (l : List α) (g : α → Option β) (h : β → Int) :
    sumOn (l.filterMap g) h = sumOn l (fun x => match g x with | some y => h y | none => 0) := by
  induction l with
  | nil => rfl
  | cons x xs ih =>
    simp only [List.filterMap_cons, sumOn_cons]
    cases hg : g x with
    | none => simp [ih]
    | some y => simp [ih]

theorem sumOn_unique {α} (key : α → Addr) (l : List α) (f : α → Int) (hn : (l.map key).Nodup) (x : α) (hx : x ∈ l) :
    sumOn l (fun y => if key y == key x then f y else 0) = f x := by
  induction l with
  | nil => cases hx
  | cons y ys ih =>
    have hn' := List.nodup_cons.mp hn
    simp only [sumOn_cons]
    rcases List.mem_cons.mp hx with h | h
    · subst h
      have : sumOn ys (fun y => if key y == key x then f y else 0) = 0 := by
        apply sumOn_zero
        intro z hz
        have hne : key z ≠ key x := fun hh => hn'.1 (List.mem_map.mpr ⟨z, hz, hh⟩)
        simp [beq_false_of_ne hne]
      rw [this]; simp
    · have hne : key y ≠ key x := fun hh => hn'.1 (List.mem_map.mpr ⟨x, h, hh.symm⟩)
      simp only [beq_false_of_ne hne, Bool.false_eq_true, if_false, ih hn'.2 h]
      omega

theorem look_isSome (e : Env) (a : Addr) (h : isValidator e a = true) :
    ∃ st, lookOf (vals0 e) a = some st := by
  rw [lookOf_vals0]
  obtain ⟨v, hv, hva⟩ := List.any_eq_true.mp h
  cases hf : e.stake.vals.find? (·.1 == a) with
  | none => exact absurd hva (by simpa using List.find?_eq_none.mp hf v hv)
  | some w => exact ⟨_, rfl⟩

/-- the pieces counted through delegators for validator `a`, summed with any weight `h'` of option and shares -/
theorem delPieces_sum (e : Env) (votes : List Vote) (hd : VotersDistinct votes) (a : Addr) (ha : isValidator e a = true)
    (h' : Nat → Dec → Int) :
    sumOn (delPieces e votes) (fun p => if p.val == a then h' p.option p.shares else 0) =
      sumOn (e.stake.dels.filter (fun d => delegatorVoted e votes d.1))
        (fun d => if d.2.1 == a then h' (voteAt votes d.1) d.2.2 else 0) := by
  obtain ⟨st, hst⟩ := look_isSome e a ha
  unfold delPieces
  rw [sumOn_filterMap]
  have hx := sum_exchange (isValidator e) e.stake.dels (fun o d => if d.2.1 == a then h' o d.2.2 else 0) votes hd
  unfold delegatorVoted
  rw [← hx]
  apply sumOn_congr
  intro od _
  by_cases hoa : od.2.2.1 = a
  · rw [hoa, hst]; simp
  · cases lookOf (vals0 e) od.2.2.1 with
    | none => simp [beq_false_of_ne hoa]
    | some s => simp [beq_false_of_ne hoa]

theorem valPieces_closed (e : Env) (votes : List Vote) (hd : VotersDistinct votes) :
    valPieces e votes = e.stake.vals.filterMap (fun v =>
      if voteAt votes v.1 == 0 then none
      else some ⟨v.1, voteAt votes v.1, ⟨v.2.2.raw - dedOf e votes v.1⟩, v.2.2, v.2.1⟩) := by
  unfold valPieces
  rw [finalVals_closed e votes hd, List.filterMap_map]
  rfl

/-- the piece counted through validator `v`'s own vote, with any weight `h'` of option and shares -/
theorem valPieces_sum (e : Env) (votes : List Vote) (hd : VotersDistinct votes) (hn : (e.stake.vals.map (·.1)).Nodup)
    (v : Addr × Int × Dec) (hv : v ∈ e.stake.vals) (h' : Nat → Dec → Int) :
    sumOn (valPieces e votes) (fun p => if p.val == v.1 then h' p.option p.shares else 0) =
      if voteAt votes v.1 == 0 then 0 else h' (voteAt votes v.1) ⟨v.2.2.raw - dedOf e votes v.1⟩ := by
  rw [valPieces_closed e votes hd, sumOn_filterMap]
  rw [← sumOn_unique (fun w : Addr × Int × Dec => w.1) e.stake.vals
    (fun w => if voteAt votes w.1 == 0 then 0 else h' (voteAt votes w.1) ⟨w.2.2.raw - dedOf e votes w.1⟩) hn v hv]
  apply sumOn_congr
  intro w _
  cases hw : (voteAt votes w.1 == 0) <;> cases hwv : (w.1 == v.1) <;> simp [hw, hwv]

theorem dedOf_le_listed (e : Env) (wf : StakeWF e) (votes : List Vote) (a : Addr) : dedOf e votes a ≤ listed e a := by
  unfold dedOf listed
  have : (fun d : Del => d.2.1 == a && delegatorVoted e votes d.1) = (fun d => delegatorVoted e votes d.1 && d.2.1 == a) := by
    funext d; exact Bool.and_comm _ _
  rw [this, ← List.filter_filter]
  apply sumOn_filter_le
  intro d hd
  exact wf.delNonneg d (List.mem_filter.mp hd).1

theorem dedOf_nonneg (e : Env) (wf : StakeWF e) (votes : List Vote) (a : Addr) : 0 ≤ dedOf e votes a := by
  unfold dedOf
  apply sumOn_nonneg
  intro d hd
  exact wf.delNonneg d (List.mem_filter.mp hd).1

theorem delCounted_eq (e : Env) (votes : List Vote) (hd : VotersDistinct votes) (a : Addr) (ha : isValidator e a = true) :
    delCounted e votes a = dedOf e votes a := by
  unfold delCounted dedOf
  rw [sumOn_filter, delPieces_sum e votes hd a ha (fun _ s => s.raw), sumOn_filter_ite]

theorem valCounted_eq (e : Env) (votes : List Vote) (hd : VotersDistinct votes) (hn : (e.stake.vals.map (·.1)).Nodup)
    (v : Addr × Int × Dec) (hv : v ∈ e.stake.vals) :
    valCounted e votes v.1 = if voteAt votes v.1 == 0 then 0 else v.2.2.raw - dedOf e votes v.1 := by
  unfold valCounted
  rw [sumOn_filter, valPieces_sum e votes hd hn v hv (fun _ s => s.raw)]

theorem isValidator_of_mem (e : Env) (v : Addr × Int × Dec) (hv : v ∈ e.stake.vals) : isValidator e v.1 = true :=
  List.any_eq_true.mpr ⟨v, hv, beq_iff_eq.mpr rfl⟩

/-- the counted shares of validator `v` for option `o`, in closed form -/
theorem countedShares_eq (e : Env) (votes : List Vote) (hd : VotersDistinct votes) (hn : (e.stake.vals.map (·.1)).Nodup)
    (v : Addr × Int × Dec) (hv : v ∈ e.stake.vals) (o : Nat) (ho : o ≠ 0) :
    countedShares e votes v.1 o =
      sumOn e.stake.dels (fun d => if d.2.1 == v.1 && delegatorVoted e votes d.1 && voteAt votes d.1 == o then d.2.2.raw else 0) +
        (if voteAt votes v.1 == o then v.2.2.raw - dedOf e votes v.1 else 0) := by
  unfold countedShares
  have hform : ∀ l : List Piece, sumOn (l.filter (fun p => p.val == v.1 && p.option == o)) (fun p => p.shares.raw) =
      sumOn l (fun p => if p.val == v.1 then (fun (o' : Nat) (s : Dec) => if o' == o then s.raw else 0) p.option p.shares else 0) := by
    intro l
    rw [sumOn_filter]
    apply sumOn_congr
    intro p _
    cases h1 : (p.val == v.1) <;> cases h2 : (p.option == o) <;> simp [h1, h2]
  rw [hform, pieces, sumOn_append,
    delPieces_sum e votes hd v.1 (isValidator_of_mem e v hv) (fun (o' : Nat) (s : Dec) => if o' == o then s.raw else 0),
    valPieces_sum e votes hd hn v hv (fun (o' : Nat) (s : Dec) => if o' == o then s.raw else 0), sumOn_filter]
  congr 1
  · apply sumOn_congr
    intro d _
    cases h1 : (d.2.1 == v.1) <;> cases h2 : (delegatorVoted e votes d.1) <;> cases h3 : (voteAt votes d.1 == o) <;>
      simp [h1, h2, h3]
  · by_cases h0 : voteAt votes v.1 = 0
    · have : (voteAt votes v.1 == o) = false := by
        rw [h0]; cases hh : (0 == o) with
        | false => rfl
        | true => exact absurd (beq_iff_eq.mp hh).symm ho
      simp only [this]
      simp [h0]
    · have : (voteAt votes v.1 == 0) = false := by
        cases hh : (voteAt votes v.1 == 0) with
        | false => rfl
        | true => exact absurd (beq_iff_eq.mp hh) h0
      simp [this]

theorem dedOf_ite (e : Env) (votes : List Vote) (a : Addr) :
    dedOf e votes a = sumOn e.stake.dels (fun d => if d.2.1 == a && delegatorVoted e votes d.1 then d.2.2.raw else 0) := by
  unfold dedOf; rw [sumOn_filter]

theorem listed_ite (e : Env) (a : Addr) :
    listed e a = sumOn e.stake.dels (fun d => if d.2.1 == a then d.2.2.raw else 0) := by
  unfold listed; rw [sumOn_filter]

/-- the closed form is the specification under the chain's choice rule -/
theorem counted_eq_spec (e : Env) (votes : List Vote) (hd : VotersDistinct votes) (hn : (e.stake.vals.map (·.1)).Nodup)
    (v : Addr × Int × Dec) (hv : v ∈ e.stake.vals) (o : Nat) (ho : o ≠ 0) :
    countedShares e votes v.1 o = specShares (choiceM e votes) e votes v o := by
  rw [countedShares_eq e votes hd hn v hv o ho]
  unfold specShares
  cases hvo : (voteAt votes v.1 == o) with
  | false =>
    rw [sumOn_filter]
    simp only [Bool.false_eq_true, if_false, Int.add_zero]
    apply sumOn_congr
    intro d _
    unfold choiceM
    by_cases hda : d.2.1 = v.1
    · cases hdv : delegatorVoted e votes d.1 with
      | true => simp [hda]
      | false => simp [hda, hvo]
    · simp [beq_false_of_ne hda]
  | true =>
    simp only [if_true]
    have key : sumOn e.stake.dels (fun d => if d.2.1 == v.1 && delegatorVoted e votes d.1 && voteAt votes d.1 == o then d.2.2.raw else 0)
        + listed e v.1 =
        sumOn (e.stake.dels.filter (fun d => d.2.1 == v.1 && choiceM e votes d == o)) (fun d => d.2.2.raw)
        + dedOf e votes v.1 := by
      rw [sumOn_filter, listed_ite, dedOf_ite, ← sumOn_add, ← sumOn_add]
      apply sumOn_congr
      intro d _
      unfold choiceM
      by_cases hda : d.2.1 = v.1
      · cases hdv : delegatorVoted e votes d.1 with
        | true => simp [hda]
        | false => simp [hda, hvo]
      · simp [beq_false_of_ne hda]
    omega

theorem choice_eq_choiceM (e : Env) (votes : List Vote) (d : Del) (hd : VotersDistinct votes)
    (h : isValidator e d.1 = true → hasVoted votes d.1 = true → d.2.1 = d.1) : choice votes d = choiceM e votes d := by
  unfold choice choiceM delegatorVoted
  cases hv : isValidator e d.1 with
  | false => simp
  | true =>
    cases hh : hasVoted votes d.1 with
    | false => simp
    | true => simp [h hv hh]

end Shentu.C12TH
