import Shentu.Proofs.ShieldPoolLists
/-
  Field projections of the shield stores (`setPool`, `setList`, `deleteList`, `setStake`, `setProvider`):
  generated one per field so that `simp only [...]` can normalise any projection of an updated state.
-/
namespace Shentu.Shield.PoolLm

@[simp] theorem setList_admin (s : State) (l : PList) : (setList s l).admin = s.admin := by unfold setList; split <;> rfl
@[simp] theorem setList_pools (s : State) (l : PList) : (setList s l).pools = s.pools := by unfold setList; split <;> rfl
@[simp] theorem setList_providers (s : State) (l : PList) : (setList s l).providers = s.providers := by unfold setList; split <;> rfl
@[simp] theorem setList_withdraws (s : State) (l : PList) : (setList s l).withdraws = s.withdraws := by unfold setList; split <;> rfl
@[simp] theorem setList_stakes (s : State) (l : PList) : (setList s l).stakes = s.stakes := by unfold setList; split <;> rfl
@[simp] theorem setList_origStakings (s : State) (l : PList) : (setList s l).origStakings = s.origStakings := by unfold setList; split <;> rfl
@[simp] theorem setList_reimbs (s : State) (l : PList) : (setList s l).reimbs = s.reimbs := by unfold setList; split <;> rfl
@[simp] theorem setList_totalCollateral (s : State) (l : PList) : (setList s l).totalCollateral = s.totalCollateral := by unfold setList; split <;> rfl
@[simp] theorem setList_totalWithdrawing (s : State) (l : PList) : (setList s l).totalWithdrawing = s.totalWithdrawing := by unfold setList; split <;> rfl
@[simp] theorem setList_totalShield (s : State) (l : PList) : (setList s l).totalShield = s.totalShield := by unfold setList; split <;> rfl
@[simp] theorem setList_totalClaimed (s : State) (l : PList) : (setList s l).totalClaimed = s.totalClaimed := by unfold setList; split <;> rfl
@[simp] theorem setList_serviceFees (s : State) (l : PList) : (setList s l).serviceFees = s.serviceFees := by unfold setList; split <;> rfl
@[simp] theorem setList_remaining (s : State) (l : PList) : (setList s l).remaining = s.remaining := by unfold setList; split <;> rfl
@[simp] theorem setList_blockFees (s : State) (l : PList) : (setList s l).blockFees = s.blockFees := by unfold setList; split <;> rfl
@[simp] theorem setList_stakingPool (s : State) (l : PList) : (setList s l).stakingPool = s.stakingPool := by unfold setList; split <;> rfl
@[simp] theorem setList_lastUpdate (s : State) (l : PList) : (setList s l).lastUpdate = s.lastUpdate := by unfold setList; split <;> rfl
@[simp] theorem setList_nextPool (s : State) (l : PList) : (setList s l).nextPool = s.nextPool := by unfold setList; split <;> rfl
@[simp] theorem setList_nextPurchase (s : State) (l : PList) : (setList s l).nextPurchase = s.nextPurchase := by unfold setList; split <;> rfl
@[simp] theorem setList_params (s : State) (l : PList) : (setList s l).params = s.params := by unfold setList; split <;> rfl
@[simp] theorem setStake_admin (s : State) (k : Stake) : (setStake s k).admin = s.admin := by unfold setStake; split <;> rfl
@[simp] theorem setStake_pools (s : State) (k : Stake) : (setStake s k).pools = s.pools := by unfold setStake; split <;> rfl
@[simp] theorem setStake_lists (s : State) (k : Stake) : (setStake s k).lists = s.lists := by unfold setStake; split <;> rfl
@[simp] theorem setStake_providers (s : State) (k : Stake) : (setStake s k).providers = s.providers := by unfold setStake; split <;> rfl
@[simp] theorem setStake_withdraws (s : State) (k : Stake) : (setStake s k).withdraws = s.withdraws := by unfold setStake; split <;> rfl
@[simp] theorem setStake_origStakings (s : State) (k : Stake) : (setStake s k).origStakings = s.origStakings := by unfold setStake; split <;> rfl
@[simp] theorem setStake_reimbs (s : State) (k : Stake) : (setStake s k).reimbs = s.reimbs := by unfold setStake; split <;> rfl
@[simp] theorem setStake_totalCollateral (s : State) (k : Stake) : (setStake s k).totalCollateral = s.totalCollateral := by unfold setStake; split <;> rfl
@[simp] theorem setStake_totalWithdrawing (s : State) (k : Stake) : (setStake s k).totalWithdrawing = s.totalWithdrawing := by unfold setStake; split <;> rfl
@[simp] theorem setStake_totalShield (s : State) (k : Stake) : (setStake s k).totalShield = s.totalShield := by unfold setStake; split <;> rfl
@[simp] theorem setStake_totalClaimed (s : State) (k : Stake) : (setStake s k).totalClaimed = s.totalClaimed := by unfold setStake; split <;> rfl
@[simp] theorem setStake_serviceFees (s : State) (k : Stake) : (setStake s k).serviceFees = s.serviceFees := by unfold setStake; split <;> rfl
@[simp] theorem setStake_remaining (s : State) (k : Stake) : (setStake s k).remaining = s.remaining := by unfold setStake; split <;> rfl
@[simp] theorem setStake_blockFees (s : State) (k : Stake) : (setStake s k).blockFees = s.blockFees := by unfold setStake; split <;> rfl
@[simp] theorem setStake_stakingPool (s : State) (k : Stake) : (setStake s k).stakingPool = s.stakingPool := by unfold setStake; split <;> rfl
@[simp] theorem setStake_lastUpdate (s : State) (k : Stake) : (setStake s k).lastUpdate = s.lastUpdate := by unfold setStake; split <;> rfl
@[simp] theorem setStake_nextPool (s : State) (k : Stake) : (setStake s k).nextPool = s.nextPool := by unfold setStake; split <;> rfl
@[simp] theorem setStake_nextPurchase (s : State) (k : Stake) : (setStake s k).nextPurchase = s.nextPurchase := by unfold setStake; split <;> rfl
@[simp] theorem setStake_params (s : State) (k : Stake) : (setStake s k).params = s.params := by unfold setStake; split <;> rfl
@[simp] theorem setPool_admin (s : State) (p : Pool) : (setPool s p).admin = s.admin := rfl
@[simp] theorem setPool_lists (s : State) (p : Pool) : (setPool s p).lists = s.lists := rfl
@[simp] theorem setPool_providers (s : State) (p : Pool) : (setPool s p).providers = s.providers := rfl
@[simp] theorem setPool_withdraws (s : State) (p : Pool) : (setPool s p).withdraws = s.withdraws := rfl
@[simp] theorem setPool_stakes (s : State) (p : Pool) : (setPool s p).stakes = s.stakes := rfl
@[simp] theorem setPool_origStakings (s : State) (p : Pool) : (setPool s p).origStakings = s.origStakings := rfl
@[simp] theorem setPool_reimbs (s : State) (p : Pool) : (setPool s p).reimbs = s.reimbs := rfl
@[simp] theorem setPool_totalCollateral (s : State) (p : Pool) : (setPool s p).totalCollateral = s.totalCollateral := rfl
@[simp] theorem setPool_totalWithdrawing (s : State) (p : Pool) : (setPool s p).totalWithdrawing = s.totalWithdrawing := rfl
@[simp] theorem setPool_totalShield (s : State) (p : Pool) : (setPool s p).totalShield = s.totalShield := rfl
@[simp] theorem setPool_totalClaimed (s : State) (p : Pool) : (setPool s p).totalClaimed = s.totalClaimed := rfl
@[simp] theorem setPool_serviceFees (s : State) (p : Pool) : (setPool s p).serviceFees = s.serviceFees := rfl
@[simp] theorem setPool_remaining (s : State) (p : Pool) : (setPool s p).remaining = s.remaining := rfl
@[simp] theorem setPool_blockFees (s : State) (p : Pool) : (setPool s p).blockFees = s.blockFees := rfl
@[simp] theorem setPool_stakingPool (s : State) (p : Pool) : (setPool s p).stakingPool = s.stakingPool := rfl
@[simp] theorem setPool_lastUpdate (s : State) (p : Pool) : (setPool s p).lastUpdate = s.lastUpdate := rfl
@[simp] theorem setPool_nextPool (s : State) (p : Pool) : (setPool s p).nextPool = s.nextPool := rfl
@[simp] theorem setPool_nextPurchase (s : State) (p : Pool) : (setPool s p).nextPurchase = s.nextPurchase := rfl
@[simp] theorem setPool_params (s : State) (p : Pool) : (setPool s p).params = s.params := rfl
@[simp] theorem setProvider_admin (s : State) (p : Provider) : (setProvider s p).admin = s.admin := rfl
@[simp] theorem setProvider_pools (s : State) (p : Provider) : (setProvider s p).pools = s.pools := rfl
@[simp] theorem setProvider_lists (s : State) (p : Provider) : (setProvider s p).lists = s.lists := rfl
@[simp] theorem setProvider_withdraws (s : State) (p : Provider) : (setProvider s p).withdraws = s.withdraws := rfl
@[simp] theorem setProvider_stakes (s : State) (p : Provider) : (setProvider s p).stakes = s.stakes := rfl
@[simp] theorem setProvider_origStakings (s : State) (p : Provider) : (setProvider s p).origStakings = s.origStakings := rfl
@[simp] theorem setProvider_reimbs (s : State) (p : Provider) : (setProvider s p).reimbs = s.reimbs := rfl
@[simp] theorem setProvider_totalCollateral (s : State) (p : Provider) : (setProvider s p).totalCollateral = s.totalCollateral := rfl
@[simp] theorem setProvider_totalWithdrawing (s : State) (p : Provider) : (setProvider s p).totalWithdrawing = s.totalWithdrawing := rfl
@[simp] theorem setProvider_totalShield (s : State) (p : Provider) : (setProvider s p).totalShield = s.totalShield := rfl
@[simp] theorem setProvider_totalClaimed (s : State) (p : Provider) : (setProvider s p).totalClaimed = s.totalClaimed := rfl
@[simp] theorem setProvider_serviceFees (s : State) (p : Provider) : (setProvider s p).serviceFees = s.serviceFees := rfl
@[simp] theorem setProvider_remaining (s : State) (p : Provider) : (setProvider s p).remaining = s.remaining := rfl
@[simp] theorem setProvider_blockFees (s : State) (p : Provider) : (setProvider s p).blockFees = s.blockFees := rfl
@[simp] theorem setProvider_stakingPool (s : State) (p : Provider) : (setProvider s p).stakingPool = s.stakingPool := rfl
@[simp] theorem setProvider_lastUpdate (s : State) (p : Provider) : (setProvider s p).lastUpdate = s.lastUpdate := rfl
@[simp] theorem setProvider_nextPool (s : State) (p : Provider) : (setProvider s p).nextPool = s.nextPool := rfl
@[simp] theorem setProvider_nextPurchase (s : State) (p : Provider) : (setProvider s p).nextPurchase = s.nextPurchase := rfl
@[simp] theorem setProvider_params (s : State) (p : Provider) : (setProvider s p).params = s.params := rfl
@[simp] theorem deleteList_admin (s : State) (p : Nat) (a : Addr) : (deleteList s p a).admin = s.admin := rfl
@[simp] theorem deleteList_pools (s : State) (p : Nat) (a : Addr) : (deleteList s p a).pools = s.pools := rfl
@[simp] theorem deleteList_providers (s : State) (p : Nat) (a : Addr) : (deleteList s p a).providers = s.providers := rfl
@[simp] theorem deleteList_withdraws (s : State) (p : Nat) (a : Addr) : (deleteList s p a).withdraws = s.withdraws := rfl
@[simp] theorem deleteList_stakes (s : State) (p : Nat) (a : Addr) : (deleteList s p a).stakes = s.stakes := rfl
@[simp] theorem deleteList_origStakings (s : State) (p : Nat) (a : Addr) : (deleteList s p a).origStakings = s.origStakings := rfl
@[simp] theorem deleteList_reimbs (s : State) (p : Nat) (a : Addr) : (deleteList s p a).reimbs = s.reimbs := rfl
@[simp] theorem deleteList_totalCollateral (s : State) (p : Nat) (a : Addr) : (deleteList s p a).totalCollateral = s.totalCollateral := rfl
@[simp] theorem deleteList_totalWithdrawing (s : State) (p : Nat) (a : Addr) : (deleteList s p a).totalWithdrawing = s.totalWithdrawing := rfl
@[simp] theorem deleteList_totalShield (s : State) (p : Nat) (a : Addr) : (deleteList s p a).totalShield = s.totalShield := rfl
@[simp] theorem deleteList_totalClaimed (s : State) (p : Nat) (a : Addr) : (deleteList s p a).totalClaimed = s.totalClaimed := rfl
@[simp] theorem deleteList_serviceFees (s : State) (p : Nat) (a : Addr) : (deleteList s p a).serviceFees = s.serviceFees := rfl
@[simp] theorem deleteList_remaining (s : State) (p : Nat) (a : Addr) : (deleteList s p a).remaining = s.remaining := rfl
@[simp] theorem deleteList_blockFees (s : State) (p : Nat) (a : Addr) : (deleteList s p a).blockFees = s.blockFees := rfl
@[simp] theorem deleteList_stakingPool (s : State) (p : Nat) (a : Addr) : (deleteList s p a).stakingPool = s.stakingPool := rfl
@[simp] theorem deleteList_lastUpdate (s : State) (p : Nat) (a : Addr) : (deleteList s p a).lastUpdate = s.lastUpdate := rfl
@[simp] theorem deleteList_nextPool (s : State) (p : Nat) (a : Addr) : (deleteList s p a).nextPool = s.nextPool := rfl
@[simp] theorem deleteList_nextPurchase (s : State) (p : Nat) (a : Addr) : (deleteList s p a).nextPurchase = s.nextPurchase := rfl
@[simp] theorem deleteList_params (s : State) (p : Nat) (a : Addr) : (deleteList s p a).params = s.params := rfl

theorem setPool_pools (s : State) (p : Pool) : (setPool s p).pools = s.pools.map (fun x => if x.id == p.id then p else x) := rfl
theorem deleteList_lists (s : State) (p : Nat) (a : Addr) :
    (deleteList s p a).lists = s.lists.filter (fun x => !(x.pool == p && x.purchaser == a)) := rfl

theorem setList_lists_some (s : State) (l lst : PList) (h : findList s l.pool l.purchaser = some lst) :
    (setList s l).lists = s.lists.map (fun x => if x.pool == l.pool && x.purchaser == l.purchaser then l else x) := by
  unfold setList; rw [h]; rfl
theorem setList_lists_none (s : State) (l : PList) (h : findList s l.pool l.purchaser = none) :
    (setList s l).lists = s.lists ++ [l] := by
  unfold setList; rw [h]; rfl
theorem setStake_stakes_some (s : State) (k k0 : Stake) (h : findStake s k.pool k.purchaser = some k0) :
    (setStake s k).stakes = s.stakes.map (fun x => if x.pool == k.pool && x.purchaser == k.purchaser then k else x) := by
  unfold setStake; rw [h]; rfl
theorem setStake_stakes_none (s : State) (k : Stake) (h : findStake s k.pool k.purchaser = none) :
    (setStake s k).stakes = s.stakes ++ [k] := by
  unfold setStake; rw [h]; rfl

theorem findPool_id {s : State} {id : Nat} {p : Pool} (h : findPool s id = some p) : p.id = id := by
  have := List.find?_some h; exact beq_iff_eq.mp this
theorem findPool_mem {s : State} {id : Nat} {p : Pool} (h : findPool s id = some p) : p ∈ s.pools :=
  List.mem_of_find?_eq_some h
theorem findList_key {s : State} {pid : Nat} {a : Addr} {l : PList} (h : findList s pid a = some l) : l.pool = pid ∧ l.purchaser = a := by
  have := List.find?_some h
  simp only [Bool.and_eq_true, beq_iff_eq] at this; exact this
theorem findList_mem {s : State} {pid : Nat} {a : Addr} {l : PList} (h : findList s pid a = some l) : l ∈ s.lists :=
  List.mem_of_find?_eq_some h
theorem findStake_key {s : State} {pid : Nat} {a : Addr} {k : Stake} (h : findStake s pid a = some k) : k.pool = pid ∧ k.purchaser = a := by
  have := List.find?_some h
  simp only [Bool.and_eq_true, beq_iff_eq] at this; exact this
theorem findStake_mem {s : State} {pid : Nat} {a : Addr} {k : Stake} (h : findStake s pid a = some k) : k ∈ s.stakes :=
  List.mem_of_find?_eq_some h

end Shentu.Shield.PoolLm
