import Shentu.Proofs.HaltShieldBasic
/-
  C08, shield part: the end-blocker's first step (`expireAndDistribute`) never fails under the invariants,
  and it preserves them.
-/
namespace Shentu.Halt
open Shentu Shentu.Shield Shentu.Shield.PoolLm
set_option linter.unusedSimpArgs false
set_option linter.unusedVariables false

/-! ## one pass over a purchase list -/

/-- the entry's fees are streamed in this pass -/
def streams (lu : Int) (en : Purchase) : Bool := decide (en.endTime > lu) && decide (en.fees.raw > 0)
def feesStep (lu per : Int) (f : Dec) (en : Purchase) : Dec :=
  if streams lu en then Dec.add f (Dec.mul en.fees (Dec.quo (Dec.ofInt (en.endTime - lu)) (Dec.ofInt per))) else f
def totalStep (lu : Int) (tf : Dec) (en : Purchase) : Dec := if streams lu en then Dec.sub tf en.fees else tf
def entryStep (lu : Int) (en : Purchase) : Purchase := if streams lu en then { en with fees := Dec.zero } else en

theorem expireEntries_nil (now lu per : Int) (acc : Dec × Dec × Int) : expireEntries now lu per [] acc = ([], acc) := by
  unfold expireEntries; rfl

theorem expireEntries_cons (now lu per : Int) (en : Purchase) (es : List Purchase) (f tf : Dec) (r : Int) :
    expireEntries now lu per (en :: es) (f, tf, r) =
      if en.delTime < now then expireEntries now lu per es (feesStep lu per f en, totalStep lu tf en, r + en.shield)
      else (entryStep lu en :: (expireEntries now lu per es (feesStep lu per f en, totalStep lu tf en, r)).1,
            (expireEntries now lu per es (feesStep lu per f en, totalStep lu tf en, r)).2) := by
  rw [expireEntries]
  rfl

theorem totalStep_raw (lu : Int) (tf : Dec) (en : Purchase) :
    (totalStep lu tf en).raw = tf.raw - (if streams lu en then en.fees.raw else 0) := by
  unfold totalStep; split
  · rfl
  · show tf.raw = tf.raw - 0; omega

theorem entryStep_fees (lu : Int) (en : Purchase) :
    (entryStep lu en).fees.raw = en.fees.raw - (if streams lu en then en.fees.raw else 0) := by
  unfold entryStep; split
  · show (0 : Int) = _; omega
  · omega

theorem feesStep_nonneg (lu per : Int) (f : Dec) (en : Purchase) (hf : 0 ≤ f.raw) (hper : 0 < per) :
    0 ≤ (feesStep lu per f en).raw := by
  unfold feesStep
  split
  · rename_i hs
    unfold streams at hs
    simp only [Bool.and_eq_true, decide_eq_true_eq] at hs
    rw [add_raw]
    have h1 := Dec.quo_ofInt_nonneg (en.endTime - lu) per (by omega) hper
    have h2 := mul_nonneg en.fees _ (by omega) h1
    omega
  · exact hf

/-- the fees removed from the running total cover what disappears from the list; the streamed amount is not negative -/
theorem expireEntries_fees (now lu per : Int) :
    ∀ (es : List Purchase) (f tf : Dec) (r : Int), (∀ e ∈ es, 0 ≤ e.fees.raw) →
      sumI (fun en => en.fees.raw) (expireEntries now lu per es (f, tf, r)).1 + tf.raw ≤
        sumI (fun en => en.fees.raw) es + (expireEntries now lu per es (f, tf, r)).2.2.1.raw ∧
      (0 ≤ f.raw → 0 < per → 0 ≤ (expireEntries now lu per es (f, tf, r)).2.1.raw) := by
  intro es
  induction es with
  | nil =>
    intro f tf r _
    rw [expireEntries_nil]
    exact ⟨by simp only [sumI_nil]; omega, fun h _ => h⟩
  | cons en es ih =>
    intro f tf r hnn
    have hen := hnn en List.mem_cons_self
    have hes : ∀ e ∈ es, 0 ≤ e.fees.raw := fun e he => hnn e (List.mem_cons_of_mem _ he)
    rw [expireEntries_cons]
    have hx : 0 ≤ (if streams lu en then en.fees.raw else 0) ∧ (if streams lu en then en.fees.raw else 0) ≤ en.fees.raw := by
      split <;> omega
    by_cases hdel : en.delTime < now
    · rw [if_pos hdel]
      have ⟨h1, h2⟩ := ih (feesStep lu per f en) (totalStep lu tf en) (r + en.shield) hes
      rw [totalStep_raw] at h1
      refine ⟨?_, fun hf hper => h2 (feesStep_nonneg lu per f en hf hper) hper⟩
      rw [sumI_cons]; omega
    · rw [if_neg hdel]
      have ⟨h1, h2⟩ := ih (feesStep lu per f en) (totalStep lu tf en) r hes
      rw [totalStep_raw] at h1
      refine ⟨?_, fun hf hper => h2 (feesStep_nonneg lu per f en hf hper) hper⟩
      dsimp only
      rw [sumI_cons, sumI_cons, entryStep_fees]; omega

/-- an entry that survives with positive fees had them before -/
theorem expireEntries_from (now lu per : Int) (es : List Purchase) (f tf : Dec) (r : Int) :
    ∀ e' ∈ (expireEntries now lu per es (f, tf, r)).1, e'.fees.raw > 0 → ∃ e ∈ es, e.id = e'.id ∧ e.fees.raw > 0 := by
  intro e' he' hpos
  rcases (expireEntries_facts now lu per es f tf r _ rfl).each e' he' with ⟨e, he, hid, _, hfe⟩
  refine ⟨e, he, hid.symm, ?_⟩
  rcases hfe with h | h
  · rw [← h]; exact hpos
  · rw [h] at hpos; exact absurd hpos (by decide)

/-! ## one list met in the queue -/

/-- the fields the expiry loop never touches (beyond `ExpFrame`) -/
structure ExpFrame2 (s s' : State) : Prop where
  origStakings : s'.origStakings = s.origStakings
  nextPurchase : s'.nextPurchase = s.nextPurchase
  serviceFees : s'.serviceFees = s.serviceFees
  remaining : s'.remaining = s.remaining
  blockFees : s'.blockFees = s.blockFees
  providers : s'.providers = s.providers
  lastUpdate : s'.lastUpdate = s.lastUpdate
  params : s'.params = s.params
  totalCollateral : s'.totalCollateral = s.totalCollateral

theorem ExpFrame2.refl (s : State) : ExpFrame2 s s := ⟨rfl, rfl, rfl, rfl, rfl, rfl, rfl, rfl, rfl⟩
theorem ExpFrame2.trans {a b c : State} (h1 : ExpFrame2 a b) (h2 : ExpFrame2 b c) : ExpFrame2 a c :=
  ⟨h2.origStakings.trans h1.origStakings, h2.nextPurchase.trans h1.nextPurchase, h2.serviceFees.trans h1.serviceFees,
   h2.remaining.trans h1.remaining, h2.blockFees.trans h1.blockFees, h2.providers.trans h1.providers,
   h2.lastUpdate.trans h1.lastUpdate, h2.params.trans h1.params, h2.totalCollateral.trans h1.totalCollateral⟩

theorem setList_frame2 (s : State) (l : PList) : ExpFrame2 s (setList s l) :=
  ⟨setList_origStakings _ _, setList_nextPurchase _ _, setList_serviceFees _ _, setList_remaining _ _,
   setList_blockFees _ _, setList_providers _ _, setList_lastUpdate _ _, setList_params _ _, setList_totalCollateral _ _⟩

/-- what the body of the loop does, once the list of (pool, purchaser) is found -/
theorem expireBody_ok {now : Int} {pool : Nat} {a : Addr} {acc acc1 : ExpAcc} {lst : PList}
    (h : expireBody now pool a acc lst = .ok acc1) (res : List Purchase × (Dec × Dec × Int))
    (hex : expireEntries now acc.s.lastUpdate acc.s.params.protection lst.entries (acc.fees, acc.totalFees, 0) = res) :
    acc1.fees = res.2.1 ∧ acc1.totalFees = res.2.2.1 ∧
    acc1.s.lists = (if res.1.isEmpty then acc.s.lists.filter (fun x => !(x.pool == pool && x.purchaser == a))
                    else (setList acc.s { lst with entries := res.1 }).lists) ∧
    ExpFrame2 acc.s acc1.s := by
  unfold expireBody at h
  rw [hex] at h
  obtain ⟨entries', fees', totalFees', removed⟩ := res
  dsimp only at h ⊢
  have key : ∀ s1 : State, s1.lists = acc.s.lists → ExpFrame2 acc.s s1 →
      (if entries'.isEmpty then deleteList s1 pool a else setList s1 { lst with entries := entries' }).lists =
        (if entries'.isEmpty then acc.s.lists.filter (fun x => !(x.pool == pool && x.purchaser == a))
         else (setList acc.s { lst with entries := entries' }).lists) ∧
      ExpFrame2 acc.s (if entries'.isEmpty then deleteList s1 pool a else setList s1 { lst with entries := entries' }) := by
    intro s1 hl hf
    split
    · refine ⟨?_, hf.trans ⟨rfl, rfl, rfl, rfl, rfl, rfl, rfl, rfl, rfl⟩⟩
      rw [deleteList_lists, hl]
    · exact ⟨setList_lists_congr hl _, hf.trans (setList_frame2 _ _)⟩
  by_cases hany : lst.entries.any (·.delTime < now) = true
  · rw [if_pos hany] at h
    split at h
    · cases h
    · rename_i s1 hs1
      split at hs1
      · cases hs1
      rename_i p0 hp0
      cases hs1
      cases h
      have := key (setPool acc.s { p0 with shield := p0.shield - removed }) rfl ⟨rfl, rfl, rfl, rfl, rfl, rfl, rfl, rfl, rfl⟩
      exact ⟨rfl, rfl, this.1, this.2⟩
  · rw [if_neg hany] at h
    dsimp only at h
    cases h
    have := key acc.s rfl (ExpFrame2.refl _)
    exact ⟨rfl, rfl, this.1, this.2⟩

/-- under the books invariant the body cannot fail: the pool of every purchase list exists -/
theorem expireBody_total {now : Int} {pool : Nat} {a : Addr} {acc : ExpAcc} {lst : PList}
    (hfl : findList acc.s pool a = some lst) (hinv : ShieldInv (accState acc)) :
    ∃ acc1, expireBody now pool a acc lst = .ok acc1 := by
  unfold expireBody
  rcases hex : expireEntries now acc.s.lastUpdate acc.s.params.protection lst.entries (acc.fees, acc.totalFees, 0)
    with ⟨entries', fees', totalFees', removed⟩
  dsimp only
  by_cases hany : lst.entries.any (·.delTime < now) = true
  · rw [if_pos hany]
    have hmem : lst ∈ (accState acc).lists := findList_mem hfl
    rcases hinv.listPool lst hmem with ⟨p, hp, hid⟩
    have hkey := findList_key hfl
    cases hfp : findPool acc.s pool with
    | none =>
      have := List.find?_eq_none.mp hfp p hp
      rw [hid, hkey.1] at this
      simp at this
    | some p0 => exact ⟨_, rfl⟩
  · rw [if_neg hany]
    exact ⟨_, rfl⟩

/-! ## the loop -/

/-- the loop invariant: the books with the running total written back, and the running fee total covers the
    unstreamed fees still recorded -/
structure AccInv (acc : ExpAcc) : Prop where
  shield : ShieldInv (accState acc)
  fees : feeSum acc.s ≤ acc.totalFees.raw

/-- what the loop guarantees about its result -/
structure LoopFacts (acc acc' : ExpAcc) : Prop where
  inv : AccInv acc'
  from_ : FeeIdsFrom acc.s acc'.s
  frame : ExpFrame2 acc.s acc'.s
  feesNonneg : 0 ≤ acc.fees.raw → 0 < acc.s.params.protection → 0 ≤ acc'.fees.raw

theorem FeeIdsFrom.trans {a b c : State} (h1 : FeeIdsFrom a b) (h2 : FeeIdsFrom b c) : FeeIdsFrom a c := by
  intro l' hl' en' hen' hpos
  rcases h2 l' hl' en' hen' hpos with ⟨l, hl, en, hen, hid, hp⟩
  rcases h1 l hl en hen hp with ⟨l0, hl0, en0, hen0, hid0, hp0⟩
  exact ⟨l0, hl0, en0, hen0, hid0.trans hid, hp0⟩

theorem expireBody_facts {now : Int} {pool : Nat} {a : Addr} {acc acc1 : ExpAcc} {lst : PList}
    (hfl : findList acc.s pool a = some lst) (h : expireBody now pool a acc lst = .ok acc1) (hinv : AccInv acc) :
    LoopFacts acc acc1 := by
  have ⟨hsh, _⟩ := expireBody_inv hfl h hinv.shield
  have ⟨hf, htf, hl, hfr⟩ := expireBody_ok h _ rfl
  have hmem : lst ∈ (accState acc).lists := findList_mem hfl
  have hkey := findList_key hfl
  have hnn : ∀ e ∈ lst.entries, 0 ≤ e.fees.raw := fun e he => (hinv.shield.entryNonneg lst hmem e he).2
  have ⟨hcov, hfn⟩ := expireEntries_fees now acc.s.lastUpdate acc.s.params.protection lst.entries acc.fees acc.totalFees 0 hnn
  have hfrom := expireEntries_from now acc.s.lastUpdate acc.s.params.protection lst.entries acc.fees acc.totalFees 0
  have hfees := hinv.fees
  refine ⟨⟨hsh, ?_⟩, ?_, hfr, fun h1 h2 => by rw [hf]; exact hfn h1 h2⟩
  · rw [htf]
    by_cases hemp : (expireEntries now acc.s.lastUpdate acc.s.params.protection lst.entries (acc.fees, acc.totalFees, 0)).1.isEmpty = true
    · rw [if_pos hemp] at hl
      have hnil : (expireEntries now acc.s.lastUpdate acc.s.params.protection lst.entries (acc.fees, acc.totalFees, 0)).1 = [] := by
        simpa using hemp
      rw [hnil] at hcov
      simp only [sumI_nil] at hcov
      have := feeSum_delete (s := accState acc) (s' := acc1.s) hinv.shield hfl hl
      have he : feeSum (accState acc) = feeSum acc.s := rfl
      have hfo : feeOf lst = sumI (fun en => en.fees.raw) lst.entries := rfl
      omega
    · rw [if_neg hemp] at hl
      have hfl' : findList (accState acc) (PList.mk lst.pool lst.purchaser
          (expireEntries now acc.s.lastUpdate acc.s.params.protection lst.entries (acc.fees, acc.totalFees, 0)).1).pool
          (PList.mk lst.pool lst.purchaser
          (expireEntries now acc.s.lastUpdate acc.s.params.protection lst.entries (acc.fees, acc.totalFees, 0)).1).purchaser = some lst := by
        show findList acc.s lst.pool lst.purchaser = some lst
        rw [hkey.1, hkey.2]; exact hfl
      have hl2 : acc1.s.lists = acc.s.lists.map _ :=
        hl.trans (setList_lists_some acc.s _ lst hfl')
      have := feeSum_replace (s := accState acc) (s' := acc1.s) hinv.shield hfl' hl2
      have he : feeSum (accState acc) = feeSum acc.s := rfl
      have hfo : feeOf lst = sumI (fun en => en.fees.raw) lst.entries := rfl
      have hfo' : feeOf (PList.mk lst.pool lst.purchaser
          (expireEntries now acc.s.lastUpdate acc.s.params.protection lst.entries (acc.fees, acc.totalFees, 0)).1) =
          sumI (fun en => en.fees.raw) (expireEntries now acc.s.lastUpdate acc.s.params.protection lst.entries (acc.fees, acc.totalFees, 0)).1 := rfl
      omega
  · by_cases hemp : (expireEntries now acc.s.lastUpdate acc.s.params.protection lst.entries (acc.fees, acc.totalFees, 0)).1.isEmpty = true
    · rw [if_pos hemp] at hl
      exact FeeIdsFrom.filter _ hl
    · rw [if_neg hemp] at hl
      have hfl' : findList acc.s (PList.mk lst.pool lst.purchaser
          (expireEntries now acc.s.lastUpdate acc.s.params.protection lst.entries (acc.fees, acc.totalFees, 0)).1).pool
          (PList.mk lst.pool lst.purchaser
          (expireEntries now acc.s.lastUpdate acc.s.params.protection lst.entries (acc.fees, acc.totalFees, 0)).1).purchaser = some lst := by
        show findList acc.s lst.pool lst.purchaser = some lst
        rw [hkey.1, hkey.2]; exact hfl
      have hl2 := hl.trans (setList_lists_some acc.s _ lst hfl')
      exact FeeIdsFrom.replace (lst := lst) hmem hl2 hfrom

theorem expireLoop_facts (now : Int) :
    ∀ (ps : List (Nat × Addr)) (acc acc' : ExpAcc), expireLoop now ps acc = .ok acc' → AccInv acc → LoopFacts acc acc' := by
  intro ps
  induction ps with
  | nil =>
    intro acc acc' h hinv
    rw [expireLoop_nil] at h; cases h
    exact ⟨hinv, FeeIdsFrom.same rfl, ExpFrame2.refl _, fun h _ => h⟩
  | cons pa rest ih =>
    intro acc acc' h hinv
    obtain ⟨pool, a⟩ := pa
    rw [expireLoop_cons] at h
    split at h
    · exact ih _ _ h hinv
    · rename_i lst hfl
      split at h
      · cases h
      · rename_i acc1 hb
        have f1 := expireBody_facts hfl hb hinv
        have f2 := ih _ _ h f1.inv
        refine ⟨f2.inv, f1.from_.trans f2.from_, f1.frame.trans f2.frame, ?_⟩
        intro h1 h2
        exact f2.feesNonneg (f1.feesNonneg h1 h2) (by rw [f1.frame.params]; exact h2)

/-- under the books invariant the expiry loop cannot fail, whatever the queue names -/
theorem expireLoop_total (now : Int) :
    ∀ (ps : List (Nat × Addr)) (acc : ExpAcc), ShieldInv (accState acc) → ∃ acc', expireLoop now ps acc = .ok acc' := by
  intro ps
  induction ps with
  | nil => intro acc _; exact ⟨acc, expireLoop_nil now acc⟩
  | cons pa rest ih =>
    intro acc hinv
    obtain ⟨pool, a⟩ := pa
    rw [expireLoop_cons]
    cases hfl : findList acc.s pool a with
    | none => exact ih acc hinv
    | some lst =>
      dsimp only
      rcases expireBody_total (now := now) hfl hinv with ⟨acc1, hb⟩
      rw [hb]
      dsimp only
      exact ih acc1 (expireBody_inv hfl hb hinv).1

/-! ## fee distribution -/

/-- no share exceeds what remains: the remainder never turns negative -/
theorem distributeLoop_rem_nonneg (total : Int) (fees : Dec) :
    ∀ (ps : List Provider) (rem : Dec), 0 ≤ rem.raw → 0 ≤ (distributeLoop total fees ps rem).2.raw := by
  intro ps
  induction ps with
  | nil => intro rem h; exact h
  | cons p ps ih =>
    intro rem h
    rw [distributeLoop]
    dsimp only
    apply ih
    rw [sub_raw]
    split <;> omega

/-- with non-negative fees and collateral, every share is non-negative: rewards stay non-negative -/
theorem distributeLoop_rewards_nonneg (total : Int) (fees : Dec) (hT : 0 < total) (hF : 0 ≤ fees.raw) :
    ∀ (ps : List Provider) (rem : Dec), 0 ≤ rem.raw → (∀ p ∈ ps, 0 ≤ p.collateral ∧ 0 ≤ p.rewards.raw) →
      ∀ p' ∈ (distributeLoop total fees ps rem).1, 0 ≤ p'.rewards.raw := by
  intro ps
  induction ps with
  | nil => intro rem _ _ p' hp'; cases hp'
  | cons p ps ih =>
    intro rem h hps p' hp'
    rw [distributeLoop] at hp'
    dsimp only at hp'
    have hp := hps p List.mem_cons_self
    have hshare0 : 0 ≤ (Dec.mul fees (Dec.quoInt (Dec.ofInt p.collateral) total)).raw :=
      mul_nonneg _ _ hF (quoInt_nonneg _ _ (ofInt_nonneg _ hp.1) (Int.le_of_lt hT))
    have hshare : 0 ≤ (if (Dec.mul fees (Dec.quoInt (Dec.ofInt p.collateral) total)).raw > rem.raw then rem
        else Dec.mul fees (Dec.quoInt (Dec.ofInt p.collateral) total)).raw := by
      split <;> assumption
    rcases List.mem_cons.mp hp' with h1 | h1
    · subst h1
      show 0 ≤ (Dec.add p.rewards _).raw
      rw [add_raw]; omega
    · refine ih _ ?_ (fun q hq => hps q (List.mem_cons_of_mem _ hq)) p' h1
      rw [sub_raw]
      split <;> omega

/-- the fees handed to the providers in this block -/
def feeTotal (e : Env) (s : State) (acc : ExpAcc) : Dec :=
  let blockShare := Dec.quo (Dec.mul acc.totalFees (Dec.ofInt (e.t - s.lastUpdate))) (Dec.ofInt s.params.protection)
  let fees0 := Dec.add acc.fees blockShare
  let fees1 := if acc.s.remaining.raw < fees0.raw then acc.s.remaining else fees0
  Dec.add fees1 acc.s.blockFees

/-- the providers after the distribution, and what remains -/
def distPair (e : Env) (s : State) (acc : ExpAcc) : List Provider × Dec :=
  if acc.s.totalCollateral > 0 then distributeLoop acc.s.totalCollateral (feeTotal e s acc) acc.s.providers acc.s.remaining
  else (acc.s.providers, acc.s.remaining)

/-- the store the end-blocker's first step writes -/
def distState (e : Env) (s : State) (acc : ExpAcc) : State :=
  { acc.s with totalShield := acc.totalShield, serviceFees := acc.totalFees, providers := (distPair e s acc).1,
               remaining := Dec.add (distPair e s acc).2 acc.s.blockFees, blockFees := Dec.zero, lastUpdate := e.t }

/-- `expireAndDistribute` in pieces -/
theorem expireAndDistribute_eq (e : Env) (s : State) :
    expireAndDistribute e s =
      if s.lastUpdate == zeroTime then .ok s
      else
        match expireLoop e.t (duePairs s e.t) { s := s, fees := Dec.zero, totalFees := s.serviceFees, totalShield := s.totalShield } with
        | .error x => .error x
        | .ok acc =>
          if s.lists.any (fun l => l.entries.any (fun en => s.origStakings.any (fun o => o.1 == en.id && o.2 != 0) && en.fees.raw > 0)) then
            err "unmodelled:stake-expiry"
          else if acc.totalFees.raw < 0 then panicE "shield:negative-service-fees"
          else if (distPair e s acc).2.raw < 0 then panicE "shield:negative-remaining"
          else .ok (distState e s acc) := by
  unfold expireAndDistribute
  rfl

theorem noFeeAndStake_check {s : State} (h : NoFeeAndStake s) :
    s.lists.any (fun l => l.entries.any (fun en => s.origStakings.any (fun o => o.1 == en.id && o.2 != 0) && en.fees.raw > 0)) = false := by
  cases hc : s.lists.any (fun l => l.entries.any (fun en => s.origStakings.any (fun o => o.1 == en.id && o.2 != 0) && en.fees.raw > 0)) with
  | false => rfl
  | true =>
    rcases List.any_eq_true.mp hc with ⟨l, hl, hc1⟩
    rcases List.any_eq_true.mp hc1 with ⟨en, hen, hc2⟩
    simp only [Bool.and_eq_true, decide_eq_true_eq] at hc2
    exact absurd hc2.1 (h l hl en hen hc2.2)

theorem distPair_rem_nonneg (e : Env) (s : State) (acc : ExpAcc) (h : 0 ≤ acc.s.remaining.raw) :
    0 ≤ (distPair e s acc).2.raw := by
  unfold distPair
  split
  · exact distributeLoop_rem_nonneg _ _ _ _ h
  · exact h

/-- the start of the loop satisfies the loop invariant -/
theorem accInv_start {s : State} (hp : ShieldInv s) (hf : FeesInv s) :
    AccInv { s := s, fees := Dec.zero, totalFees := s.serviceFees, totalShield := s.totalShield } :=
  ⟨hp.congr rfl rfl rfl rfl rfl, hf⟩

/-- **the end-blocker's first step never fails**: purchases expire, fees stream, fees are distributed -/
theorem expireAndDistribute_total (e : Env) (s : State) (hp : ShieldInv s) (hn : NoFeeAndStake s) (hf : FeesInv s)
    (hr : 0 ≤ s.remaining.raw) : ∃ s', expireAndDistribute e s = .ok s' := by
  rw [expireAndDistribute_eq]
  by_cases hz : (s.lastUpdate == zeroTime) = true
  · rw [if_pos hz]; exact ⟨s, rfl⟩
  · rw [if_neg hz]
    have h0 := accInv_start hp hf
    rcases expireLoop_total e.t (duePairs s e.t) _ h0.shield with ⟨acc, hacc⟩
    have hfacts := expireLoop_facts e.t _ _ _ hacc h0
    rw [hacc]
    dsimp only
    rw [noFeeAndStake_check hn]
    have h1 : ¬ acc.totalFees.raw < 0 := by
      have := hfacts.inv.fees
      have h2 : 0 ≤ feeSum (accState acc) := feeSum_nonneg hfacts.inv.shield
      have h3 : feeSum (accState acc) = feeSum acc.s := rfl
      omega
    have h2 : ¬ (distPair e s acc).2.raw < 0 := by
      have := distPair_rem_nonneg e s acc (by rw [hfacts.frame.remaining]; exact hr)
      omega
    simp only [Bool.false_eq_true, if_false, h1, h2]
    exact ⟨_, rfl⟩

/-- a successful first step either did nothing or wrote `distState` for the result of the loop -/
theorem expireAndDistribute_cases {e : Env} {s s' : State} (h : expireAndDistribute e s = .ok s') :
    s' = s ∨ ∃ acc, expireLoop e.t (duePairs s e.t)
        { s := s, fees := Dec.zero, totalFees := s.serviceFees, totalShield := s.totalShield } = .ok acc ∧
      s' = distState e s acc := by
  rw [expireAndDistribute_eq] at h
  split at h
  · cases h; exact Or.inl rfl
  · split at h
    · cases h
    · rename_i acc hacc
      split at h; · cases h
      split at h; · cases h
      split at h; · cases h
      cases h
      exact Or.inr ⟨acc, hacc, rfl⟩

theorem feeTotal_nonneg (e : Env) (s : State) (acc : ExpAcc) (h1 : 0 ≤ acc.fees.raw) (h2 : 0 ≤ acc.totalFees.raw)
    (h3 : s.lastUpdate ≤ e.t) (h4 : 0 ≤ s.params.protection) (h5 : 0 ≤ acc.s.remaining.raw) (h6 : 0 ≤ acc.s.blockFees.raw) :
    0 ≤ (feeTotal e s acc).raw := by
  unfold feeTotal
  dsimp only
  have hb : 0 ≤ (Dec.quo (Dec.mul acc.totalFees (Dec.ofInt (e.t - s.lastUpdate))) (Dec.ofInt s.params.protection)).raw :=
    quo_nonneg _ _ (mul_nonneg _ _ h2 (ofInt_nonneg _ (by omega))) (ofInt_nonneg _ h4)
  rw [add_raw]
  split
  · omega
  · rw [add_raw]; omega

/-- the first step of the end-blocker preserves the fee books -/
theorem expireAndDistribute_feeBooks {e : Env} {s s' : State} (h : expireAndDistribute e s = .ok s')
    (hp : ShieldInv s) (hb : FeeBooks s) : FeeBooks s' := by
  rcases expireAndDistribute_cases h with rfl | ⟨acc, hacc, rfl⟩
  · exact hb
  · have hfacts := expireLoop_facts e.t _ _ _ hacc (accInv_start hp hb.fees)
    have hfr := hfacts.frame
    have hrem : 0 ≤ acc.s.remaining.raw := by rw [hfr.remaining]; exact hb.money.remaining
    have hblk : 0 ≤ acc.s.blockFees.raw := by rw [hfr.blockFees]; exact hb.money.blockFees
    refine ⟨?_, ?_, ?_, ?_, Int.le_refl 0⟩
    · exact hb.noFeeStake.of_from (s' := distState e s acc) hfacts.from_ hfr.origStakings
    · exact hb.origLt.congr (s' := distState e s acc) hfr.origStakings hfr.nextPurchase
    · exact hfacts.inv.fees
    · show 0 ≤ (Dec.add (distPair e s acc).2 acc.s.blockFees).raw
      rw [add_raw]
      have := distPair_rem_nonneg e s acc hrem
      omega

/-- … and, when the providers' collateral is not negative (`CollInv`), the protection period is positive and the block
    time is not before the last update (block time is monotone), it hands out no negative share: rewards stay
    non-negative -/
theorem expireAndDistribute_rewards {e : Env} {s s' : State} (h : expireAndDistribute e s = .ok s')
    (hp : ShieldInv s) (hb : FeeBooks s) (hr : RewardsNonneg s) (hc : ∀ p ∈ s.providers, 0 ≤ p.collateral)
    (hper : 0 < s.params.protection) (ht : s.lastUpdate ≤ e.t) : RewardsNonneg s' := by
  rcases expireAndDistribute_cases h with rfl | ⟨acc, hacc, rfl⟩
  · exact hr
  · have hfacts := expireLoop_facts e.t _ _ _ hacc (accInv_start hp hb.fees)
    have hfr := hfacts.frame
    have hrem : 0 ≤ acc.s.remaining.raw := by rw [hfr.remaining]; exact hb.money.remaining
    have hblk : 0 ≤ acc.s.blockFees.raw := by rw [hfr.blockFees]; exact hb.money.blockFees
    have hfs : 0 ≤ feeSum acc.s := feeSum_nonneg (s := accState acc) hfacts.inv.shield
    show ∀ p ∈ (distPair e s acc).1, 0 ≤ p.rewards.raw
    unfold distPair
    split
    · rename_i hT
      apply distributeLoop_rewards_nonneg _ _ hT ?_ _ _ hrem
      · rw [hfr.providers]
        intro p hp'; exact ⟨hc p hp', hr p hp'⟩
      · have := hfacts.inv.fees
        exact feeTotal_nonneg e s acc (hfacts.feesNonneg (Int.le_refl 0) hper) (by omega) ht (Int.le_of_lt hper) hrem hblk
    · rw [hfr.providers]; exact hr

end Shentu.Halt
