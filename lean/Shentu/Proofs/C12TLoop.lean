import Shentu.Proofs.C12TLemmas
/-
  Closed form of the vote loop and of the validator loop of `Gov.stakeTally` (for `Shentu/Props/C12T.lean`).
-/
namespace Shentu.C12TH
open Shentu Shentu.Gov
set_option linter.unusedSimpArgs false
set_option linter.unusedVariables false

/-- the option a validator record ends with: the last vote cast from the validator's own address -/
def voteOf (votes : List Vote) (a : Addr) (dflt : Nat) : Nat :=
  votes.foldl (fun o v => if v.voter == a then v.option else o) dflt

@[simp] theorem voteOf_nil (a : Addr) (dflt : Nat) : voteOf [] a dflt = dflt := rfl
theorem voteOf_cons (v : Vote) (vs : List Vote) (a : Addr) (dflt : Nat) :
    voteOf (v :: vs) a dflt = voteOf vs a (if v.voter == a then v.option else dflt) := rfl

/-- the (option, delegation) pairs that the delegator branch of the vote loop processes, in processing order:
    for every vote whose voter is not a bonded validator, all the voter's delegations -/
def votedDels (isV : Addr → Bool) (dels : List Del) (votes : List Vote) : List (Nat × Del) :=
  (votes.filter (fun v => !isV v.voter)).flatMap (fun v => (dels.filter (·.1 == v.voter)).map (fun d => (v.option, d)))

theorem votedDels_cons_val (isV : Addr → Bool) (dels : List Del) (v : Vote) (vs : List Vote) (h : isV v.voter = true) :
    votedDels isV dels (v :: vs) = votedDels isV dels vs := by
  simp [votedDels, List.filter_cons, h]

theorem votedDels_cons_del (isV : Addr → Bool) (dels : List Del) (v : Vote) (vs : List Vote) (h : isV v.voter = false) :
    votedDels isV dels (v :: vs) =
      (dels.filter (·.1 == v.voter)).map (fun d => (v.option, d)) ++ votedDels isV dels vs := by
  simp [votedDels, List.filter_cons, h, List.flatMap_cons]

/-- power contributions of a list of (option, delegation) pairs -/
def contribs (look : Addr → Option (Dec × Int)) (ods : List (Nat × Del)) : List (Nat × Dec) :=
  ods.filterMap (fun od => (look od.2.2.1).map (fun st => (od.1, pw od.2.2.2 st.1 st.2)))

theorem contribs_append (look : Addr → Option (Dec × Int)) (l₁ l₂ : List (Nat × Del)) :
    contribs look (l₁ ++ l₂) = contribs look l₁ ++ contribs look l₂ := by
  simp [contribs, List.filterMap_append]

theorem contribs_map (look : Addr → Option (Dec × Int)) (o : Nat) (ds : List Del) :
    contribs look (ds.map (fun d => (o, d))) = delContrib look o ds := by
  simp only [contribs, delContrib, List.filterMap_map]
  rfl

/-- what the vote loop does to one validator record -/
def updV (isV : Addr → Bool) (dels : List Del) (votes : List Vote) (x : ValInfo) : ValInfo :=
  { x with vote := voteOf votes x.addr x.vote,
           deductions := ⟨x.deductions.raw +
             sumOn ((votedDels isV dels votes).filter (fun od => od.2.2.1 == x.addr)) (fun od => od.2.2.2.raw)⟩ }

theorem updV_frame (isV : Addr → Bool) (dels : List Del) (votes : List Vote) (x : ValInfo) :
    (updV isV dels votes x).addr = x.addr ∧ (updV isV dels votes x).shares = x.shares ∧
      (updV isV dels votes x).tokens = x.tokens := ⟨rfl, rfl, rfl⟩

theorem beq_false_of_ne {a b : Addr} (h : a ≠ b) : (a == b) = false := by
  cases hh : (a == b) with
  | false => rfl
  | true => exact absurd (beq_iff_eq.mp hh) h

/-- **closed form of the vote loop**, from any table `vals` and any accumulated results `r` -/
theorem loopFold (e : Env) (isV : Addr → Bool) : ∀ (votes : List Vote) (vals : List ValInfo) (r : Results),
    (∀ a, vals.any (·.addr == a) = isV a) →
    votes.foldl (voteStep e) (vals, r) =
      (vals.map (updV isV e.stake.dels votes),
       addList r (contribs (lookOf vals) (votedDels isV e.stake.dels votes))) := by
  intro votes
  induction votes with
  | nil =>
    intro vals r _
    simp only [List.foldl_nil, votedDels, List.filter_nil, List.flatMap_nil, contribs, List.filterMap_nil, addList_nil]
    congr 1
    conv => lhs; rw [← List.map_id vals]
    apply List.map_congr_left
    intro x _
    simp [updV, votedDels]
  | cons v vs ih =>
    intro vals r hisV
    simp only [List.foldl_cons]
    cases hv : isV v.voter with
    | true =>
      have hany : vals.any (·.addr == v.voter) = true := by rw [hisV]; exact hv
      have hstep : voteStep e (vals, r) v =
          (vals.map (fun x => if x.addr == v.voter then { x with vote := v.option } else x), r) := by
        simp only [voteStep, hany, if_true]
      rw [hstep, ih]
      · rw [votedDels_cons_val _ _ _ _ hv]
        have hlk : lookOf (vals.map (fun x => if x.addr == v.voter then { x with vote := v.option } else x))
            = lookOf vals := by
          funext a
          apply lookOf_map
          intro x; split <;> exact ⟨rfl, rfl, rfl⟩
        rw [hlk]
        congr 1
        rw [List.map_map]
        apply List.map_congr_left
        intro x _
        simp only [Function.comp]
        by_cases hx : x.addr = v.voter
        · have h1 : (x.addr == v.voter) = true := beq_iff_eq.mpr hx
          have h2 : (v.voter == x.addr) = true := beq_iff_eq.mpr hx.symm
          simp only [h1, if_true, updV, voteOf_cons, h2, votedDels_cons_val _ _ _ _ hv]
        · have h1 : (x.addr == v.voter) = false := beq_false_of_ne hx
          have h2 : (v.voter == x.addr) = false := beq_false_of_ne (fun h => hx h.symm)
          simp only [h1, updV, voteOf_cons, h2, votedDels_cons_val _ _ _ _ hv, Bool.false_eq_true, if_false]
      · intro a
        rw [any_map_addr]
        · exact hisV a
        · intro x; split <;> rfl
    | false =>
      have hany : vals.any (·.addr == v.voter) = false := by rw [hisV]; exact hv
      have hstep : voteStep e (vals, r) v =
          (vals.map (addDed (e.stake.dels.filter (·.1 == v.voter))),
           addList r (delContrib (lookOf vals) v.option (e.stake.dels.filter (·.1 == v.voter)))) := by
        simp only [voteStep, hany, Bool.false_eq_true, if_false, delegatorVoting_eq, dedFold]
      rw [hstep, ih]
      · rw [votedDels_cons_del _ _ _ _ hv]
        have hlk : lookOf (vals.map (addDed (e.stake.dels.filter (·.1 == v.voter)))) = lookOf vals := by
          funext a
          exact lookOf_map _ _ (addDed_frame _) a
        rw [hlk, contribs_append, addList_append, contribs_map]
        congr 1
        rw [List.map_map]
        apply List.map_congr_left
        intro x hx
        simp only [Function.comp]
        have hne : x.addr ≠ v.voter := by
          intro h
          have : vals.any (·.addr == v.voter) = true := List.any_eq_true.mpr ⟨x, hx, beq_iff_eq.mpr h⟩
          rw [hany] at this; cases this
        have h2 : (v.voter == x.addr) = false := beq_false_of_ne (fun h => hne h.symm)
        simp only [updV, addDed, voteOf_cons, h2, Bool.false_eq_true, if_false, votedDels_cons_del _ _ _ _ hv,
          List.filter_append, sumOn_append,
          List.filter_map, sumOn_map, Function.comp, Function.comp_def]
        congr 2
        omega
      · intro a
        rw [any_map_addr]
        · exact hisV a
        · intro x; rfl

/-! ## the validator loop -/

def valContrib (vi : ValInfo) : Option (Nat × Dec) :=
  if vi.vote == 0 then none else some (vi.vote, pw (Dec.sub vi.shares vi.deductions) vi.shares vi.tokens)

theorem valFold : ∀ (vals : List ValInfo) (r : Results),
    vals.foldl Props.C10.valStep r = addList r (vals.filterMap valContrib) := by
  intro vals
  induction vals with
  | nil => intro r; rfl
  | cons x xs ih =>
    intro r
    simp only [List.foldl_cons, ih, List.filterMap_cons, valContrib, Props.C10.valStep]
    cases hx : (x.vote == 0) with
    | true => simp
    | false => simp [pw]

/-- the validator table after the vote loop -/
def finalVals (e : Env) (votes : List Vote) : List ValInfo :=
  (vals0 e).map (updV (isValidator e) e.stake.dels votes)

theorem vals0_any (e : Env) (a : Addr) : (vals0 e).any (·.addr == a) = isValidator e a := by
  simp only [vals0, isValidator, List.any_map]
  rfl

theorem voteLoop_eq (e : Env) (votes : List Vote) :
    voteLoop e votes = (finalVals e votes,
      addList ({} : Results) (contribs (lookOf (vals0 e)) (votedDels (isValidator e) e.stake.dels votes))) := by
  unfold voteLoop finalVals
  exact loopFold e (isValidator e) votes (vals0 e) _ (vals0_any e)

/-- **closed form of the accumulated results** -/
theorem stakeResults_eq (e : Env) (votes : List Vote) :
    stakeResults e votes = addList ({} : Results)
      (contribs (lookOf (vals0 e)) (votedDels (isValidator e) e.stake.dels votes) ++
        (finalVals e votes).filterMap valContrib) := by
  unfold stakeResults
  rw [voteLoop_eq, valFold, addList_append]

end Shentu.C12TH
