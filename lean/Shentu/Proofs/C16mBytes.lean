import Shentu.EVM.Impl
import Shentu.EVM.MemSpec
/-
  Helper lemmas for `Shentu/Props/C16m.lean`: the byte strings of the interpreter model (`ByteArray`) seen as lists of
  bytes, and what the model's imperative helpers (`zeros`, `natBE`, `beNat`, `extractPad`, `copySlice`) compute on them.
-/
namespace Shentu.C16mH
open Shentu.EVM Shentu.EVM.MemSpec

/-- the bytes of a byte string, as a list -/
def bl (b : ByteArray) : List UInt8 := b.data.toList

@[simp] theorem bl_length (b : ByteArray) : (bl b).length = b.size := by
  simp [bl]

theorem bl_empty : bl ByteArray.empty = [] := rfl

theorem bl_append (a b : ByteArray) : bl (a ++ b) = bl a ++ bl b := by
  simp [bl, ByteArray.data_append]

theorem bl_extract (a : ByteArray) (i j : Nat) : bl (a.extract i j) = ((bl a).take j).drop i := by
  simp [bl, ByteArray.data_extract, Array.toList_extract, List.drop_take]

theorem bl_inj {a b : ByteArray} (h : bl a = bl b) : a = b := by
  cases a with | mk da => cases b with | mk db =>
  simp only [bl] at h
  congr
  exact Array.toList_inj.1 h

theorem bl_set! (b : ByteArray) (i : Nat) (v : UInt8) : bl (b.set! i v) = (bl b).set i v := by
  cases b with | mk d =>
  simp [bl, ByteArray.set!, Array.set!_eq_setIfInBounds]

theorem get!_eq (b : ByteArray) (i : Nat) : b.get! i = (bl b).getD i 0 := by
  cases b with | mk d =>
  simp only [ByteArray.get!, bl]
  by_cases h : i < d.size
  · simp [h, List.getD_eq_getElem?_getD]
  · simp [h, List.getD_eq_getElem?_getD]
    rfl

theorem bl_push (b : ByteArray) (v : UInt8) : bl (b.push v) = bl b ++ [v] := by
  cases b with | mk d => simp [bl, ByteArray.push]

theorem bl_copySlice (src : ByteArray) (srcOff : Nat) (dest : ByteArray) (destOff len : Nat) :
    bl (src.copySlice srcOff dest destOff len) =
      (bl dest).take destOff ++ ((bl src).take (srcOff + len)).drop srcOff ++
        (bl dest).drop (destOff + min len (src.size - srcOff)) := by
  simp [bl, ByteArray.copySlice, Array.toList_extract, List.drop_take]
  apply List.take_of_length_le
  simp

theorem forIn_list_yield {α β} (l : List α) (init : β) (g : α → β → β) :
    (forIn (m := Id) l init (fun i s => ForInStep.yield (g i s))) = l.foldl (fun s i => g i s) init := by
  induction l generalizing init with
  | nil => rfl
  | cons a l ih => simp only [List.forIn_cons, List.foldl_cons]; exact ih _

/-- a `for i in [0:n]` loop without early exit, in the identity monad, is a left fold over `0, 1, …, n-1` -/
theorem forIn_range_yield {β} (n : Nat) (init : β) (g : Nat → β → β) :
    (forIn (m := Id) [:n] init (fun i s => ForInStep.yield (g i s))) = (List.range n).foldl (fun s i => g i s) init := by
  rw [Std.Legacy.Range.forIn_eq_forIn_range', forIn_list_yield]
  simp [Std.Legacy.Range.size, List.range_eq_range']

def dbl (n : Nat) (z : ByteArray) : ByteArray := if z.size * 2 ≤ n then z ++ z else z

theorem zeros_eq (n : Nat) : zeros n = if n = 0 then .empty else
    let z := (List.range 64).foldl (fun s _ => dbl n s) (ByteArray.empty.push 0)
    z ++ z.extract 0 (n - z.size) := by
  unfold zeros
  simp only [Id.run, bind, pure]
  have : (fun (x : Nat) (s : ByteArray) => if s.size * 2 ≤ n then ForInStep.yield (s ++ s) else ForInStep.yield s)
      = fun x s => ForInStep.yield (dbl n s) := by
    funext x s; unfold dbl; split <;> rfl
  rw [this, forIn_range_yield]
  simp
  rfl

theorem dbl_iter (n : Nat) (hn : 0 < n) (k : Nat) :
    let z := (List.range k).foldl (fun s _ => dbl n s) (ByteArray.empty.push 0)
    bl z = List.replicate z.size 0 ∧ 1 ≤ z.size ∧ z.size ≤ n ∧ (z.size = 2 ^ k ∨ n < 2 * z.size) := by
  induction k with
  | zero =>
    refine ⟨?_, ?_, ?_, ?_⟩ <;> simp [ByteArray.size_push, bl_push, bl_empty] <;> omega
  | succ k ih =>
    simp only [List.range_succ, List.foldl_append, List.foldl_cons, List.foldl_nil]
    obtain ⟨h1, h2, h3, h4⟩ := ih
    generalize (List.range k).foldl (fun s _ => dbl n s) (ByteArray.empty.push 0) = z at *
    unfold dbl
    split
    · refine ⟨?_, ?_, ?_, ?_⟩
      · rw [bl_append, h1, ByteArray.size_append, List.replicate_append_replicate]
      · rw [ByteArray.size_append]; omega
      · rw [ByteArray.size_append]; omega
      · rw [ByteArray.size_append]
        rcases h4 with h4 | h4
        · left; rw [h4, Nat.pow_succ]; omega
        · omega
    · exact ⟨h1, h2, h3, Or.inr (by omega)⟩

/-- `zeros n` is `n` zero bytes (for every length that fits the doubling loop's 64 rounds) -/
theorem bl_zeros (n : Nat) (hn : n < 2 ^ 65) : bl (zeros n) = List.replicate n 0 := by
  rw [zeros_eq]
  split
  · next h => subst h; rfl
  · next h =>
    obtain ⟨h1, h2, h3, h4⟩ := dbl_iter n (by omega) 64
    simp only
    generalize (List.range 64).foldl (fun s _ => dbl n s) (ByteArray.empty.push 0) = z at *
    have hlt : n - z.size ≤ z.size := by omega
    rw [bl_append, bl_extract, h1, List.drop_zero, List.take_replicate, List.replicate_append_replicate]
    congr 1
    omega

theorem size_zeros (n : Nat) (hn : n < 2 ^ 65) : (zeros n).size = n := by
  rw [← bl_length, bl_zeros n hn, List.length_replicate]


/-- big-endian value of a list of bytes -/
def beVal (l : List UInt8) : Nat := l.foldl (fun acc x => acc * 256 + x.toNat) 0

theorem getElem_bl (b : ByteArray) (j : Nat) (h : j < b.size) : b[j] = (bl b)[j]'(by simpa using h) := by
  cases b with | mk d => simp [bl]; rfl

theorem foldl_loop (f : Nat → UInt8 → Nat) (b : ByteArray) (stop : Nat) (h : stop ≤ b.size) (i j : Nat) (acc : Nat)
    (hij : i + j = stop) :
    ByteArray.foldlM.loop (m := Id) f b stop h i j acc = (((bl b).drop j).take i).foldl f acc := by
  induction i generalizing j acc with
  | zero =>
    unfold ByteArray.foldlM.loop
    have : ¬ j < stop := by omega
    simp [this]
    rfl
  | succ i ih =>
    unfold ByteArray.foldlM.loop
    have hj : j < stop := by omega
    have hjb : j < (bl b).length := by simp; omega
    simp only [hj, dite_true]
    rw [List.drop_eq_getElem_cons hjb, List.take_succ_cons, List.foldl_cons, ← getElem_bl b j (by omega)]
    exact ih (j + 1) _ (by omega)

theorem beNat_eq (b : ByteArray) : beNat b = beVal (bl b) := by
  unfold beNat ByteArray.foldl ByteArray.foldlM beVal
  simp only [Id.run, pure, Nat.le_refl, dite_true, Nat.sub_zero]
  rw [foldl_loop _ _ _ _ _ _ _ (by omega), List.drop_zero, List.take_of_length_le (by simp)]


/-- the `len` low-order bytes of `n`, most significant first -/
def beBytes (n len : Nat) : List UInt8 := (List.range len).map (fun j => (n / 256 ^ (len - 1 - j) % 256).toUInt8)

def natBEStep (len : Nat) (i : Nat) (s : ByteArray × Nat) : ByteArray × Nat :=
  (s.fst.set! (len - 1 - i) (s.snd % 256).toUInt8, s.snd / 256)

theorem natBE_eq (n len : Nat) :
    natBE n len = ((List.range len).foldl (fun s i => natBEStep len i s) (zeros len, n)).fst := by
  unfold natBE
  simp only [Id.run, bind, pure]
  exact congrArg Prod.fst (forIn_range_yield len (zeros len, n) (natBEStep len))

theorem natBE_iter (n len : Nat) (hlen : len < 2 ^ 65) (k : Nat) (hk : k ≤ len) :
    let s := (List.range k).foldl (fun s i => natBEStep len i s) (zeros len, n)
    s.fst.size = len ∧ s.snd = n / 256 ^ k ∧
      ∀ j, j < len → (bl s.fst)[j]? = some (if len - k ≤ j then (n / 256 ^ (len - 1 - j) % 256).toUInt8 else 0) := by
  induction k with
  | zero =>
    refine ⟨size_zeros len hlen, by simp, ?_⟩
    intro j hj
    simp only [List.range_zero, List.foldl_nil, bl_zeros len hlen]
    rw [if_neg (by omega)]
    simp [hj]
  | succ k ih =>
    obtain ⟨h1, h2, h3⟩ := ih (by omega)
    simp only [List.range_succ, List.foldl_append, List.foldl_cons, List.foldl_nil]
    generalize (List.range k).foldl (fun s i => natBEStep len i s) (zeros len, n) = s at *
    refine ⟨?_, ?_, ?_⟩
    · simp [natBEStep, h1]
    · simp only [natBEStep, h2, Nat.div_div_eq_div_mul, Nat.pow_succ]
    · intro j hj
      simp only [natBEStep, bl_set!, List.getElem?_set, bl_length, h1]
      by_cases hjk : len - 1 - k = j
      · have : len - 1 - j = k := by omega
        rw [if_pos hjk, if_pos (by omega), if_pos (by omega), h2, this]
      · rw [if_neg hjk, h3 j hj]
        by_cases h : len - k ≤ j
        · rw [if_pos h, if_pos (by omega)]
        · rw [if_neg h, if_neg (by omega)]

/-- `natBE n len` is the big-endian `len`-byte representation of `n` (truncating on the left) -/
theorem bl_natBE (n len : Nat) (hlen : len < 2 ^ 65) : bl (natBE n len) = beBytes n len := by
  obtain ⟨h1, _, h3⟩ := natBE_iter n len hlen len (Nat.le_refl _)
  rw [natBE_eq]
  generalize (List.range len).foldl (fun s i => natBEStep len i s) (zeros len, n) = s at *
  apply List.ext_getElem?
  intro j
  by_cases hj : j < len
  · rw [h3 j hj, if_pos (by omega)]
    simp [beBytes, hj]
  · rw [List.getElem?_eq_none (by simp; omega), List.getElem?_eq_none (by simp [beBytes]; omega)]

theorem size_natBE (n len : Nat) (hlen : len < 2 ^ 65) : (natBE n len).size = len := by
  rw [← bl_length, bl_natBE n len hlen]; simp [beBytes]


theorem beVal_append_singleton (l : List UInt8) (x : UInt8) : beVal (l ++ [x]) = beVal l * 256 + x.toNat := by
  simp [beVal, List.foldl_append]

theorem beBytes_succ (n len : Nat) : beBytes n (len + 1) = beBytes (n / 256) len ++ [(n % 256).toUInt8] := by
  unfold beBytes
  rw [List.range_succ, List.map_append]
  congr 1
  · apply List.map_congr_left
    intro j hj
    have hj' : j < len := List.mem_range.1 hj
    have : len + 1 - 1 - j = (len - 1 - j) + 1 := by omega
    rw [this, Nat.pow_succ, Nat.mul_comm, Nat.div_div_eq_div_mul]
  · simp

theorem beVal_beBytes (n len : Nat) : beVal (beBytes n len) = n % 256 ^ len := by
  induction len generalizing n with
  | zero => simp [beBytes, beVal, Nat.mod_one]
  | succ len ih =>
    rw [beBytes_succ, beVal_append_singleton, ih]
    have h1 : ((n % 256).toUInt8).toNat = n % 256 := by
      simp [Nat.toUInt8, UInt8.toNat_ofNat']
    rw [h1, Nat.pow_succ, Nat.mul_comm (256 ^ len) 256, Nat.mod_mul]
    omega

theorem wordBytes_eq (v : Nat) : wordBytes v = beBytes v 32 := rfl
theorem bytesWord_eq (l : List UInt8) : bytesWord l = beVal l := rfl

/-- MSTORE's operand bytes read back as a word give the word -/
theorem word_natBE (v : Nat) : word (natBE v 32) = v % 2 ^ 256 := by
  unfold word
  rw [beNat_eq, bl_natBE v 32 (by decide), beVal_beBytes]

theorem length_readPad (d : List UInt8) (off len : Nat) : (readPad d off len).length = len := by simp [readPad]

theorem getElem?_readPad (d : List UInt8) (off len j : Nat) (hj : j < len) :
    (readPad d off len)[j]? = some (d.getD (off + j) 0) := by
  simp [readPad, hj]

/-- the model's zero-padded slice is the specification's zero-padded read -/
theorem bl_extractPad (b : ByteArray) (off len : Nat) (hlen : len < 2 ^ 65) :
    bl (extractPad b off len) = readPad (bl b) off len := by
  apply List.ext_getElem?
  intro j
  by_cases hj : j < len
  · rw [getElem?_readPad _ _ _ _ hj]
    unfold extractPad
    split
    · next h =>
      rw [bl_zeros len hlen]
      simp [hj, List.getD_eq_getElem?_getD]
      rw [List.getElem?_eq_none (by simp; omega)]; rfl
    · next h =>
      have hsz : (b.extract off (off + len)).size = min (off + len) b.size - off := by
        rw [ByteArray.size_extract]
      simp only [beq_iff_eq]
      split
      · next h2 =>
        rw [bl_extract, List.getElem?_drop, List.getElem?_take, if_pos (by omega)]
        have : off + j < (bl b).length := by simp; omega
        simp [List.getD_eq_getElem?_getD, List.getElem?_eq_getElem this]
      · next h2 =>
        rw [bl_append, bl_extract, bl_zeros _ (by omega)]
        by_cases hjb : off + j < b.size
        · rw [List.getElem?_append_left (by simp; omega), List.getElem?_drop, List.getElem?_take, if_pos (by omega)]
          have : off + j < (bl b).length := by simp; omega
          simp [List.getD_eq_getElem?_getD, List.getElem?_eq_getElem this]
        · rw [List.getElem?_append_right (by simp; omega)]
          have hl : (bl b).length = b.size := bl_length b
          have : (bl b).length ≤ off + j := by omega
          simp [List.getD_eq_getElem?_getD, List.getElem?_eq_none this]
          rw [List.getElem?_replicate, if_pos (by omega)]
  · have h1 : (bl (extractPad b off len)).length = len := by
      rw [bl_length]
      unfold extractPad
      split
      · exact size_zeros len hlen
      · simp only [beq_iff_eq]
        split
        · next h2 => exact h2
        · next h2 =>
          rw [ByteArray.size_append, size_zeros _ (by omega), ByteArray.size_extract]
          omega
    rw [List.getElem?_eq_none (by omega), List.getElem?_eq_none (by rw [length_readPad]; omega)]

end Shentu.C16mH
